(* EGraph/TerminationCapAdd.v — the worklist loop `rebuild` SETTLES in the state in which an INSERTION calls it (C08,
   termination half; the counterpart of TerminationCapRebuild.eg_union_rebuild_settles for eg_add).

   eg_add n -> add_internal t -> (lookup miss) mk_singleton_class en, which runs the PREFIX
     bijection_from_fresh_to, apply_slotmap_fresh, alloc_eclass, wshape, raw_add_to_class, pending_insert (fst t) true
   and then `rebuild rebuild_fuel` in the resulting state s5.  All statements here are about this PRE-REBUILD state s5,
   described by the prefix equations (exactly those of SelfSymCond.mk_prefix_run / SoundAddNew.new_walk); NO statement
   presupposes that the rebuild (or the whole operation) returned Ok.

     prefix_walk                  : inv3 of the intermediate states of the prefix (the derivation of
                                    SoundAddNew.mk_singleton_walk, stopped before the rebuild)
     mk_singleton_prefix_sse_srcx : sse noex s5 /\ srcx noex s5 (the derivation of SelfSymCond.mk_singleton_main, stopped
                                    before the rebuild)
     mk_singleton_rebuild_RI      : RI s5, under the premises of NoErrorAddS.nf_mk_singleton and SelfSymCond.mk_singleton_main
     mk_singleton_rebuild_settles : hence the rebuild called by mk_singleton_class settles
     eg_add_rebuild_RI            : RI s5 for `SoundAddNew.new_walk t s s5` (s5 = the state right before the rebuild of the
                                    insertion of the weak shape t in s, lookup-miss branch) on B s, sse noex s, srcx noex s, add_pre s n
     eg_add_rebuild_settles, eg_add_rebuild_settles_reachable : the rebuild called by eg_add settles (reachable s, static terms)
     eg_add_settles_reachable     : the bundle (RI s5, eg_add_miss_unfold, settling) for reachable states
     eg_add_miss_unfold           : eg_add n s IS `rebuild rebuild_fuel s5` followed by semify_app_id (connects new_walk to eg_add) *)
From SE Require Import Slots.SlotMapFacts Group.GroupSound Lang.LangFacts Lang.ShapeFacts Lang.RenameFacts
  EGraph.Model EGraph.ModelMachine EGraph.ModelFacts EGraph.PendingFacts EGraph.UnionFindFacts
  EGraph.InvariantFacts EGraph.UnionInvariantFacts EGraph.AddCoversFacts EGraph.MonotoneFacts EGraph.Mod4Facts EGraph.HashconsShape
  EGraph.HashconsAbs EGraph.Model9 EGraph.HashconsFacts EGraph.NodeCong EGraph.KidEqFacts EGraph.ShapeCong EGraph.CongruenceFacts EGraph.ProgressFacts
  EGraph.MatchDefs EGraph.KidsFacts EGraph.SoundAddNew EGraph.NoErrorBase EGraph.NoErrorKey EGraph.NoErrorShape EGraph.NoErrorInv EGraph.NoErrorPendingA EGraph.NoErrorPendingHP EGraph.NoErrorPendingNB
  EGraph.NoErrorPending EGraph.NoErrorPendingKx EGraph.NoErrorFuel EGraph.NoErrorAddDef EGraph.NoErrorAddU EGraph.OpsPreFacts EGraph.NoError
  EGraph.TerminationMeasure EGraph.TerminationRank EGraph.TerminationRebuild EGraph.TerminationRound EGraph.TerminationQuiet
  EGraph.TerminationHp EGraph.SelfSymDefs EGraph.SelfSymCond EGraph.SelfSymFacts EGraph.TerminationCap EGraph.TerminationCapRebuild.
From SE Require EGraph.SelfSymUnion EGraph.SelfSymReadd EGraph.SelfSymDss EGraph.SelfSymNew EGraph.NoErrorAddS EGraph.NoErrorAddK.
Require Import ZArith Lia List.
Import ListNotations.

Local Notation ectr := Model.ctr.
Local Notation inv := inverse_nocheck.

(* ------------------------------------------------------------------ *)
(* 1. the prefix of mk_singleton_class: inv3 of the intermediate states *)

Lemma prefix_walk : forall en s f2o c2 synf i s3 sh bij s4 s5, inv3 s -> Forall (fun b => b < ectr s) (binders en) ->
  bijection_from_fresh_to (slots en) (ectr s) = (f2o, c2) ->
  apply_slotmap_fresh false (inv f2o) en c2 = (synf, c2) ->
  alloc_eclass (values (inv f2o)) synf (set_ctr (set_ctr s c2) c2) = Ok (i, s3) ->
  wshape synf = Ok (sh, bij) -> raw_add_to_class i (sh, bij) i s3 = Ok (tt, s4) ->
  pending_insert sh true s4 = Ok (tt, s5) ->
  i = N.of_nat (lc s) /\ inv3 (set_ctr (set_ctr s c2) c2) /\ inv3 s3 /\ ext0 (set_ctr (set_ctr s c2) c2) s3 /\
  inv3 s4 /\ ext s3 s4 /\ inv3 s5 /\ ext s4 s5.
Proof.
  intros en s f2o c2 synf i s3 sh bij s4 s5 I3 Hb BF ASF H3 Ht H4 H5.
  pose proof (fresh_rename_spec en (ectr s) f2o c2 Hb BF) as R. cbv zeta in R.
  rewrite ASF in R. cbn [fst snd] in R.
  destruct R as (_ & _ & Bi & Sl & _ & Pb & _).
  pose proof (bijection_from_fresh_to_step (slots en) (ectr s)) as St. rewrite BF in St. cbn [snd] in St. apply ctr_step_le in St.
  set (s2 := set_ctr (set_ctr s c2) c2) in *.
  assert (S02 : semR s s2).
  { split; [|unfold s2; cbn [Model.ctr set_ctr]; lia]. split; reflexivity. }
  destruct (semn_step3 _ _ S02 (nsame_classes s s2 eq_refl) I3) as [I2 E02].
  pose proof (alloc_eclass_exact _ _ _ _ _ H3) as (Hi & U & C & _ & _ & Ct).
  assert (S3 : inv3 s3 /\ ext0 s2 s3).
  { destruct I2 as [[[Hok Hsl HC] Hbl] HN].
    assert (Wsl : swf (values (inv f2o))) by apply sset_of_list_spec.
    split; [split; [split|]|].
    - constructor.
      + exact (uf_ok_alloc_eclass _ _ _ _ _ H3 Hok).
      + eapply uf_slots_ok_alloc_eclass; [exact Hok|exact Hsl|exact Wsl|exact Sl|exact H3].
      + intros j c Hc. apply (get_class_ext_inv s2 s3 _ C) in Hc. destruct Hc as [Hc|[_ ->]]; [eapply HC; eauto|].
        split; [exact Wsl|]. split.
        * apply class_flat_grp_ok. unfold class_flat. cbn [c_slots c_group c_syn]. auto.
        * cbn [c_slots c_syn]. rewrite Sl. apply incl_refl.
    - intros j c x Hc Hx. rewrite Ct. apply (get_class_ext_inv s2 s3 _ C) in Hc. destruct Hc as [Hc|[_ ->]]; [eapply Hbl; eauto|].
      cbn [c_syn] in Hx. unfold s2. cbn [Model.ctr set_ctr].
      apply (Permutation.Permutation_in _ (occ_partition synf)) in Hx. apply in_app_or in Hx. destruct Hx as [Hx|Hx].
      + apply Pb in Hx. lia.
      + apply prv_binders in Hx. rewrite Bi in Hx. pose proof (proj1 (Forall_forall _ _) Hb x Hx) as T. cbv beta in T. lia.
    - intros j c e Hc He. apply (get_class_ext_inv s2 s3 _ C) in Hc. destruct Hc as [Hc|[_ ->]]; [eapply HN; eauto|].
      cbn [c_nodes] in He. contradiction.
    - split; [rewrite Ct; lia|]. intros j c Hc. exists c. split; [eapply get_class_ext_old; eauto|].
      split; [apply incl_refl|reflexivity]. }
  destruct S3 as [I3' E23].
  pose proof (get_class_ext_new s2 s3 _ C) as Hnew.
  assert (Ei : i = N.of_nat (lc s2)).
  { rewrite Hi. f_equal. exact (uso_wf _ (ei_slots _ (proj1 (proj1 I2)))). }
  rewrite <- Ei in Hnew.
  assert (I4 : inv3 s4 /\ ext s3 s4).
  { destruct I3' as [Hs2 HN]. destruct (semR_step2 _ _ (s_raw_add _ _ _ _ _ _ H4) Hs2) as [Hs4 E4].
    split; [|exact E4]. split; [exact Hs4|]. eapply nodes_raw_add; [exact HN|exact Hnew| |exact H4].
    destruct (shape_bij_props _ _ _ Ht) as (Wb & Bb & _). destruct (shape_bij _ _ _ Ht) as (Sb1 & Sb2 & _).
    unfold entry_ok. cbn [fst snd c_slots]. split; [assumption|]. split; [apply is_bijection_injective; assumption|].
    split; [intros k Hk; apply Sb2; assumption|].
    intros x Hx. apply Sb1. rewrite <- Sl in Hx. apply slots_spec. assumption. }
  destruct I4 as [I4 E34].
  destruct (semn_step3 _ _ (s_pending_insert _ _ _ _ _ H5) (n_pending_insert _ _ _ _ _ H5) I4) as [I5 E45].
  split; [rewrite Ei; reflexivity|].
  split; [exact I2|]. split; [exact I3'|]. split; [exact E23|]. split; [exact I4|]. split; [exact E34|].
  split; [exact I5|exact E45].
Qed.

(* ------------------------------------------------------------------ *)
(* 2. sse / srcx right before the rebuild of mk_singleton_class (SelfSymCond.mk_singleton_main without its last step) *)

Lemma mk_singleton_prefix_sse_srcx : forall en s f2o c2 synf i s3 sh bij s4 s5,
  inv3 s -> Forall (fun b => b < ectr s) (binders en) -> hc_ok s -> sse noex s -> srcx noex s ->
  NoErrorAddS.shape_absent en s ->
  (forall f2o c2 synf s3 sh bij s4, bijection_from_fresh_to (slots en) (ectr s) = (f2o, c2) ->
     apply_slotmap_fresh false (inv f2o) en c2 = (synf, c2) ->
     alloc_eclass (values (inv f2o)) synf (set_ctr (set_ctr s c2) c2) = Ok (N.of_nat (lc s), s3) ->
     wshape synf = Ok (sh, bij) -> raw_add_to_class (N.of_nat (lc s)) (sh, bij) (N.of_nat (lc s)) s3 = Ok (tt, s4) ->
     inv3 s4 -> srcok s4 (N.of_nat (lc s)) sh bij (N.of_nat (lc s))) ->
  bijection_from_fresh_to (slots en) (ectr s) = (f2o, c2) ->
  apply_slotmap_fresh false (inv f2o) en c2 = (synf, c2) ->
  alloc_eclass (values (inv f2o)) synf (set_ctr (set_ctr s c2) c2) = Ok (i, s3) ->
  wshape synf = Ok (sh, bij) -> raw_add_to_class i (sh, bij) i s3 = Ok (tt, s4) ->
  pending_insert sh true s4 = Ok (tt, s5) ->
  sse noex s5 /\ srcx noex s5.
Proof.
  intros en s f2o c2 synf i s3 sh bij s4 s5 I3 Hb Hs SS SX Abs New BF ASF AL Hsh RA PI.
  destruct (prefix_walk en s f2o c2 synf i s3 sh bij s4 s5 I3 Hb BF ASF AL Hsh RA PI)
    as (Ei & I2 & I3a & E23 & I4 & E34 & I5 & E45).
  subst i. set (i := N.of_nat (lc s)) in *. set (s2 := set_ctr (set_ctr s c2) c2) in *.
  pose proof (bijection_from_fresh_to_step (slots en) (ectr s)) as St. rewrite BF in St. cbn [snd] in St. apply ctr_step_le in St.
  assert (S02 : semR s s2).
  { split; [|unfold s2; cbn [Model.ctr set_ctr]; lia]. split; reflexivity. }
  assert (CO2 : ctr_only s s2) by (exists c2; reflexivity).
  pose proof (hce_ctr_only noex s s2 CO2 Hs) as Hs2.
  destruct (semR_step4 _ _ S02 (proj1 I3)) as [G2 X02].
  pose proof (sse_via _ s s2 I3 (proj1 Hs) G2 X02 (frx_ctr_only noex s s s2 CO2 (frx_refl noex s)) SS) as SS2.
  assert (SX2 : srcx noex s2).
  { apply (srcx_semR noex s s2 (proj1 I3) S02); [|exact SX]. intros j y q. apply stored_ctr_only. exact CO2. }
  destruct (alloc_facts _ _ _ _ _ (proj1 G2) (proj1 Hs2) AL) as (F23 & Q23 & CP23 & Sub23).
  assert (W2 : eg_wf s2) by exact (uso_wf _ (ei_slots _ (proj1 G2))).
  destruct (hce_alloc noex _ _ _ _ _ W2 AL Hs2) as (Hs3 & Hh3 & _).
  pose proof (sse_step noex s2 s3 I2 (proj1 Hs2) (proj1 (proj1 I3a)) CP23 Q23 F23 SS2) as SS3.
  assert (SX3 : srcx noex s3).
  { apply (srcx_kmono noex s2 s3 (proj1 (proj1 I3a))); [|intros j y q S; right; apply Sub23; exact S|exact SX2].
    split; [intros x y; apply kid_eq_mono0; assumption|exact CP23]. }
  assert (Abs3 : na_get (hashcons s3) sh = None).
  { rewrite Hh3. unfold s2. cbn [hashcons set_ctr]. exact (Abs _ _ _ _ _ _ BF ASF Hsh). }
  destruct (hce_raw_add noex i sh bij i s3 tt s4 Abs3 (ex_intro _ synf (ex_intro _ bij Hsh)) RA Hs3) as [Hs4 St4].
  destruct (semR_step4 _ _ (s_raw_add _ _ _ _ _ _ RA) (proj1 I3a)) as [G4 X34].
  destruct (semR_step4 _ _ (s_pending_insert _ _ _ _ _ PI) G4) as [G5 X45].
  pose proof (frx_pending_insert noex s3 sh s4 tt s5 PI (frx_raw_add noex s3 i sh bij i s3 tt s4 RA (frx_refl noex s3))) as F35.
  pose proof (sse_via noex s3 s5 I3a (proj1 Hs3) G5 (mext_trans _ _ _ X34 X45) F35 SS3) as SS5.
  destruct (raw_add_views _ _ _ _ _ _ _ RA) as (_ & _ & _ & Nid4 & No4 & _ & _).
  assert (SX4 : srcx noex s4).
  { intros j y cb src S. right. destruct (node_dec y sh) as [->|Ny].
    - destruct (stored_fun s4 _ _ _ _ _ (proj1 Hs4) S St4) as [-> Eq]. inversion Eq; subst cb src.
      exact (New f2o c2 synf s3 sh bij s4 BF ASF AL Hsh RA I4).
    - assert (S3 : stored s3 j y (cb, src)).
      { unfold stored in *. destruct (N.eq_dec j i) as [->|Hj].
        - rewrite Nid4, na_get_set_other in S by exact Ny. exact S.
        - rewrite (No4 j Hj) in S. exact S. }
      destruct (SX3 j y cb src S3) as [[]|A]. exact (srcok_kmono s3 s4 j y cb src (proj1 G4) (mext_kmono _ _ X34) A). }
  assert (SX5 : srcx noex s5).
  { apply (srcx_semR noex s4 s5 G4 (s_pending_insert _ _ _ _ _ PI)); [|exact SX4]. intros j y q S. inversion PI; subst s5. exact S. }
  split; [exact SS5|exact SX5].
Qed.

(* ------------------------------------------------------------------ *)
(* 3. RI right before the rebuild of mk_singleton_class *)

Theorem mk_singleton_rebuild_RI : forall en s f2o c2 synf i s3 sh bij s4 s5,
  Jm noex s -> pending s = [] ->
  Forall (fun b => b < ectr s) (binders en) -> Forall (kid_ok s) (app_occ en) -> Forall (kid_total s) (app_occ en) ->
  NoErrorAddS.shape_absent en s -> NoErrorAddS.kx_walk en s ->
  sse noex s -> srcx noex s ->
  (forall f2o c2 synf s3 sh bij s4, bijection_from_fresh_to (slots en) (ectr s) = (f2o, c2) ->
     apply_slotmap_fresh false (inv f2o) en c2 = (synf, c2) ->
     alloc_eclass (values (inv f2o)) synf (set_ctr (set_ctr s c2) c2) = Ok (N.of_nat (lc s), s3) ->
     wshape synf = Ok (sh, bij) -> raw_add_to_class (N.of_nat (lc s)) (sh, bij) (N.of_nat (lc s)) s3 = Ok (tt, s4) ->
     inv3 s4 -> srcok s4 (N.of_nat (lc s)) sh bij (N.of_nat (lc s))) ->
  bijection_from_fresh_to (slots en) (ectr s) = (f2o, c2) ->
  apply_slotmap_fresh false (inv f2o) en c2 = (synf, c2) ->
  alloc_eclass (values (inv f2o)) synf (set_ctr (set_ctr s c2) c2) = Ok (i, s3) ->
  wshape synf = Ok (sh, bij) -> raw_add_to_class i (sh, bij) i s3 = Ok (tt, s4) ->
  pending_insert sh true s4 = Ok (tt, s5) ->
  RI s5 /\ pending s5 = [(sh, true)].
Proof.
  intros en s f2o c2 synf i s3 sh bij s4 s5 J Pe Hb Ken Ten Abs KxW SS SX New BF ASF AL Hsh RA PI.
  pose proof (jm_kinv _ _ J) as (I3 & M & _). pose proof (jm_hce _ _ J) as Hs.
  assert (H1 : with_ctr (bijection_from_fresh_to (slots en)) s = Ok (f2o, set_ctr s c2)).
  { unfold with_ctr. rewrite BF. reflexivity. }
  assert (H2 : with_ctr (apply_slotmap_fresh false (inv f2o) en) (set_ctr s c2) = Ok (synf, set_ctr (set_ctr s c2) c2)).
  { unfold with_ctr. cbn [Model.ctr set_ctr]. rewrite ASF. reflexivity. }
  destruct (NoErrorAddS.Jm_before_rebuild en s f2o _ synf _ i s3 sh bij tt s4 tt s5 J Pe Hb Ken Ten Abs H1 H2 AL Hsh RA PI)
    as (J5 & _ & P5 & _).
  destruct (mk_singleton_prefix_sse_srcx en s f2o c2 synf i s3 sh bij s4 s5 I3 Hb Hs SS SX Abs New BF ASF AL Hsh RA PI) as [SS5 SX5].
  split; [|exact P5].
  split; [exact J5|]. split; [exact (KxW f2o c2 synf i s3 sh bij s4 s5 BF ASF AL Hsh RA PI)|]. split; [exact SS5|exact SX5].
Qed.

Theorem mk_singleton_rebuild_settles : forall en s f2o c2 synf i s3 sh bij s4 s5,
  Jm noex s -> pending s = [] ->
  Forall (fun b => b < ectr s) (binders en) -> Forall (kid_ok s) (app_occ en) -> Forall (kid_total s) (app_occ en) ->
  NoErrorAddS.shape_absent en s -> NoErrorAddS.kx_walk en s ->
  sse noex s -> srcx noex s ->
  (forall f2o c2 synf s3 sh bij s4, bijection_from_fresh_to (slots en) (ectr s) = (f2o, c2) ->
     apply_slotmap_fresh false (inv f2o) en c2 = (synf, c2) ->
     alloc_eclass (values (inv f2o)) synf (set_ctr (set_ctr s c2) c2) = Ok (N.of_nat (lc s), s3) ->
     wshape synf = Ok (sh, bij) -> raw_add_to_class (N.of_nat (lc s)) (sh, bij) (N.of_nat (lc s)) s3 = Ok (tt, s4) ->
     inv3 s4 -> srcok s4 (N.of_nat (lc s)) sh bij (N.of_nat (lc s))) ->
  bijection_from_fresh_to (slots en) (ectr s) = (f2o, c2) ->
  apply_slotmap_fresh false (inv f2o) en c2 = (synf, c2) ->
  alloc_eclass (values (inv f2o)) synf (set_ctr (set_ctr s c2) c2) = Ok (i, s3) ->
  wshape synf = Ok (sh, bij) -> raw_add_to_class i (sh, bij) i s3 = Ok (tt, s4) ->
  pending_insert sh true s4 = Ok (tt, s5) ->
  mk_prefix en s = Ok (tt, s5) /\
  exists f, (forall f', (f <= f')%nat -> rebuild f' s5 = rebuild f s5) /\
            ((exists s', rebuild f s5 = Ok (tt, s') /\ RI s' /\ pending s' = []) \/ rebuild f s5 = Err OutOfFuel).
Proof.
  intros en s f2o c2 synf i s3 sh bij s4 s5 J Pe Hb Ken Ten Abs KxW SS SX New BF ASF AL Hsh RA PI.
  split; [exact (mk_prefix_run en s f2o c2 synf i s3 sh bij s4 s5 BF ASF AL Hsh RA PI)|].
  apply rebuild_settles.
  exact (proj1 (mk_singleton_rebuild_RI en s f2o c2 synf i s3 sh bij s4 s5 J Pe Hb Ken Ten Abs KxW SS SX New BF ASF AL Hsh RA PI)).
Qed.

(* ------------------------------------------------------------------ *)
(* 4. the lifted form: eg_add n on a state at an operation boundary.
      `new_walk t s s5` (SoundAddNew.v): s5 is the state right before the rebuild performed by the insertion of the weak
      shape t (lookup-miss branch of add_internal) in the state s. *)

Theorem eg_add_rebuild_RI : forall n p t s s5, B s -> sse noex s -> srcx noex s -> add_pre s n ->
  pre_shape s n = Ok p -> wshape p = Ok t -> lookup_internal s t = Ok None ->
  new_walk t s s5 -> RI s5 /\ exists sh, pending s5 = [(sh, true)].
Proof.
  intros n p t s s5 Bs SS SX AP Pp Hw Hlk NW.
  destruct NW as (en1 & c1 & en2 & en3 & s3 & f2o & c2 & synf & i & s3a & sh & bij & s4 & RP & H2 & H3 & BF & ASF & AL & Hsh & RA & PI).
  pose proof AP as [NP _]. pose proof NP as (Cv & Pn & ND).
  pose proof (B_Jm _ Bs) as J. pose proof (B_pending _ Bs) as Pe. pose proof (B_ctr _ Bs) as C4.
  pose proof (jm_kinv _ _ J) as (I3 & M & _). pose proof (jm_hce _ _ J) as Hs.
  assert (Ht : shape s n = Ok t) by (unfold shape; rewrite Pp; cbn [bind]; exact Hw).
  destruct (NoErrorAddS.msc_prem NoErrorAddK.Kx_new_walk_proved n p t s en1 c1 en2 en3 s3 Bs AP Pp Hw Hlk RP H2 H3)
    as (J3 & P3 & Hb3 & Ken3 & Ten3 & Abs3 & KxW).
  (* sse / srcx of s3 (the derivation of SelfSymCond.add_internal_main) *)
  set (s1 := set_ctr s c1) in *.
  pose proof (refresh_private_step (fst t) (ectr s)) as St1. rewrite RP in St1. cbn [snd] in St1. apply ctr_step_le in St1.
  assert (S01 : semR s s1) by (split; [apply sem_set_ctr|unfold s1; cbn [Model.ctr set_ctr]; lia]).
  assert (CO1 : ctr_only s s1) by (exists c1; reflexivity).
  assert (CO3 : ctr_only s1 s3).
  { pose proof H3 as H3'. apply (pres_synify_enode ctr_only ctr_only_refl ctr_only_trans) in H3'; [assumption|].
    intros s0 y s0' H0. inversion H0. eexists; reflexivity. }
  pose proof (ctr_only_trans _ _ _ CO1 CO3) as CO.
  destruct (semR_step4 _ _ S01 (proj1 I3)) as [G1 X01].
  destruct (semR_step4 _ _ (s_synify_enode _ _ _ _ H3) G1) as [G3 X13].
  pose proof (sse_via _ s s3 I3 (proj1 Hs) G3 (mext_trans _ _ _ X01 X13) (frx_ctr_only noex s s s3 CO (frx_refl noex s)) SS) as SS3.
  assert (SX3 : srcx noex s3).
  { apply (srcx_kmono noex s s3 (proj1 G3) (mext_kmono _ _ (mext_trans _ _ _ X01 X13))); [|exact SX].
    intros j y q S. right. exact (stored_ctr_only _ _ _ _ _ CO S). }
  destruct (mk_singleton_rebuild_RI en3 s3 f2o c2 synf i s3a sh bij s4 s5 J3 P3 Hb3 Ken3 Ten3 Abs3 KxW SS3 SX3) as [R5 P5];
    try assumption.
  - intros f2o' c2' synf' s3a' sh' bij' s4' BF' ASF' AL' Hw' RA' I4'.
    exact (SelfSymNew.src_new n t s en1 c1 en2 en3 s3 f2o' c2' synf' s3a' sh' bij' s4' I3 M Pe Hs C4 NP Ht Hlk RP H2 H3 BF' ASF' AL' Hw' RA' I4').
  - split; [exact R5|]. exists sh. exact P5.
Qed.

Theorem eg_add_rebuild_settles : forall n p t s s5, B s -> sse noex s -> srcx noex s -> add_pre s n ->
  pre_shape s n = Ok p -> wshape p = Ok t -> lookup_internal s t = Ok None ->
  new_walk t s s5 ->
  exists f, (forall f', (f <= f')%nat -> rebuild f' s5 = rebuild f s5) /\
            ((exists s', rebuild f s5 = Ok (tt, s') /\ RI s' /\ pending s' = []) \/ rebuild f s5 = Err OutOfFuel).
Proof.
  intros n p t s s5 Bs SS SX AP Pp Hw Hlk NW. apply rebuild_settles.
  exact (proj1 (eg_add_rebuild_RI n p t s s5 Bs SS SX AP Pp Hw Hlk NW)).
Qed.

(* reachable states (static terms) *)
Theorem eg_add_rebuild_settles_reachable : forall terms ops hs s n p t s5, Forall term_static terms ->
  run_ops terms ops [] empty_egraph = Ok (hs, s) -> add_pre s n ->
  pre_shape s n = Ok p -> wshape p = Ok t -> lookup_internal s t = Ok None ->
  new_walk t s s5 ->
  RI s5 /\
  exists f, (forall f', (f <= f')%nat -> rebuild f' s5 = rebuild f s5) /\
            ((exists s', rebuild f s5 = Ok (tt, s') /\ RI s' /\ pending s' = []) \/ rebuild f s5 = Err OutOfFuel).
Proof.
  intros terms ops hs s n p t s5 HT H AP Pp Hw Hlk NW.
  destruct (B_reachable_static terms ops hs s HT H) as [Bs _].
  destruct (reachable_sse_srcx terms ops hs s (ops_pre_static terms ops HT) H) as (_ & SS & SX).
  pose proof (proj1 (eg_add_rebuild_RI n p t s s5 Bs SS SX AP Pp Hw Hlk NW)) as R5.
  split; [exact R5|exact (rebuild_settles s5 R5)].
Qed.

(* ------------------------------------------------------------------ *)
(* 5. new_walk is what eg_add does: on a lookup miss, eg_add n s is the rebuild of s5 followed by semify_app_id *)

Theorem eg_add_miss_unfold : forall n t s s5, shape s n = Ok t -> lookup_internal s t = Ok None -> new_walk t s s5 ->
  exists a0, eg_add n s =
    match rebuild rebuild_fuel s5 with
    | Ok (_, s') => match semify_app_id s' a0 with Ok a => Ok (a, s') | Err e => Err e end
    | Err e => Err e
    end.
Proof.
  intros n t s s5 Ht Hlk NW.
  destruct NW as (en1 & c1 & en2 & en3 & s3 & f2o & c2 & synf & i & s3a & sh & bij & s4 & RP & H2 & H3 & BF & ASF & AL & Hsh & RA & PI).
  exists {| aid := i; am := f2o |}.
  unfold eg_add. unfold mbind at 1. unfold reads at 1. rewrite Ht.
  unfold add_internal. unfold mbind at 1. unfold reads at 1. rewrite Hlk.
  unfold mbind at 1. rewrite RP.
  unfold mbind at 1. unfold Model.lift at 1. rewrite H2.
  unfold mbind at 1. rewrite H3.
  unfold mbind at 1. unfold mk_singleton_class. cbv zeta.
  unfold mbind at 1. unfold with_ctr at 1. rewrite BF.
  unfold mbind at 1. unfold with_ctr at 1. cbn [Model.ctr set_ctr]. rewrite ASF.
  unfold mbind at 1. rewrite AL. unfold mbind at 1. unfold Model.lift at 1. rewrite Hsh.
  unfold mbind at 1. rewrite RA. cbn [fst]. unfold mbind at 1. rewrite PI.
  unfold mbind at 1. destruct (rebuild rebuild_fuel s5) as [[u s']|e]; [|reflexivity].
  unfold ret. unfold reads. destruct (semify_app_id s' {| aid := i; am := f2o |}); reflexivity.
Qed.

(* the bundle for reachable states: the rebuild that eg_add runs (lookup-miss branch) starts in a state with RI and settles *)
Theorem eg_add_settles_reachable : forall terms ops hs s n t s5, Forall term_static terms ->
  run_ops terms ops [] empty_egraph = Ok (hs, s) -> add_pre s n ->
  shape s n = Ok t -> lookup_internal s t = Ok None -> new_walk t s s5 ->
  RI s5 /\
  (exists a0, eg_add n s =
     match rebuild rebuild_fuel s5 with
     | Ok (_, s') => match semify_app_id s' a0 with Ok a => Ok (a, s') | Err e => Err e end
     | Err e => Err e
     end) /\
  exists f, (forall f', (f <= f')%nat -> rebuild f' s5 = rebuild f s5) /\
            ((exists s', rebuild f s5 = Ok (tt, s') /\ RI s' /\ pending s' = []) \/ rebuild f s5 = Err OutOfFuel).
Proof.
  intros terms ops hs s n t s5 HT H AP Ht Hlk NW.
  pose proof Ht as Ht0. unfold shape in Ht0. destruct (pre_shape s n) as [p|] eqn:Pp; cbn [bind] in Ht0; [|discriminate].
  destruct (eg_add_rebuild_settles_reachable terms ops hs s n p t s5 HT H AP Pp Ht0 Hlk NW) as [R5 St].
  split; [exact R5|]. split; [exact (eg_add_miss_unfold n t s s5 Ht Hlk NW)|exact St].
Qed.

Print Assumptions prefix_walk.
Print Assumptions mk_singleton_prefix_sse_srcx.
Print Assumptions mk_singleton_rebuild_RI.
Print Assumptions mk_singleton_rebuild_settles.
Print Assumptions eg_add_rebuild_RI.
Print Assumptions eg_add_rebuild_settles.
Print Assumptions eg_add_rebuild_settles_reachable.
Print Assumptions eg_add_miss_unfold.
Print Assumptions eg_add_settles_reachable.
