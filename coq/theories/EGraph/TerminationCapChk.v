(* EGraph/TerminationCapChk.v — vm_compute instrumentation for TerminationCapCore.cap_witness_src: in every hp_loop round
   whose subset test fails (history families of TerminationExp.v / CongruenceFacts.v, cyclic families, and all 4356
   two-union histories over pool1), the WITNESS used by the proof exists and is the expected one:
     wit_b  : some value y of the leader invocation `snd pc1` of the source (over the syntactic slots of src) is not a public
              slot of the canonicalised syntactic node `fst pc1`                 [conclusion of cap_witness_src]
     same_b : the re-found node n2 = find_enode s (fst pc1) IS fst pc1 (pc2 = pc1 in handle_shrink_in_upwards_merge: the
              shrink is detected on the syntactic node of the source alone)      [observation; the proof does not need it]
     capx_b : the slots of `a` missing from `b` are EXACTLY the values of `a` that are not public in fst pc1. *)
From SE Require Import EGraph.Model EGraph.ModelMachine EGraph.AddCoversFacts EGraph.NoErrorFuel EGraph.NoErrorFuelHp
  EGraph.CongruenceFacts EGraph.TerminationExp EGraph.TerminationHpChk.
Require Import ZArith List Bool.
Import ListNotations.

Definition wit_round (src : N) (s : egraph) : option (bool * bool * bool) :=
  match pc_from_src_id s src with
  | Ok pc1 =>
      match find_enode s (fst pc1) with
      | Ok n2 =>
          match pc_congruence pc1 (n2, snd pc1) s with
          | Ok ((a, b), _) =>
              let nonpub := filter (fun y => negb (existsb (N.eqb y) (pub_occ (fst pc1)))) (values (am (snd pc1))) in
              let lost := filter (fun x => negb (sset_mem x (values (am b)))) (values (am a)) in
              Some (negb (Nat.eqb (List.length nonpub) 0), node_eqb n2 (fst pc1),
                    Nat.eqb (List.length nonpub) (List.length lost) && forallb (fun x => existsb (N.eqb x) lost) nonpub)
          | Err _ => None
          end
      | Err _ => None
      end
  | Err _ => None
  end.

Fixpoint hp_wchk (fuel : nat) (src : N) (en : node) (i : appid) (s : egraph) : bool * nat :=
  match fuel with
  | O => (true, 0%nat)
  | S f =>
      if sset_subset (values (am i)) (slots en) then (true, 0%nat)
      else match wit_round src s with
           | Some (true, true, true) =>
               match hp_body src en i s with
               | Ok ((e', i'), s') => let '(b, n) := hp_wchk f src e' i' s' in (b, S n)
               | Err _ => (true, 0%nat)
               end
           | _ => (false, 0%nat)
           end
  end.

Fixpoint wchk_all (n : nat) (s : egraph) : bool * nat :=
  match n with
  | O => (true, 0%nat)
  | S n' =>
      match pending s with
      | [] => (true, 0%nat)
      | (sh, ty) :: rest =>
          let s0 := set_pending s rest in
          let here := if negb ty then (true, 0%nat) else
                      match hp_args sh s0 with
                      | Ok ((src, en, i1), s1) => hp_wchk 60 src en i1 s1
                      | Err _ => (true, 0%nat)
                      end in
          match handle_pending sh ty s0 with
          | Ok (_, s2) => let '(b, k) := wchk_all n' s2 in (fst here && b, (snd here + k)%nat)
          | Err _ => here
          end
      end
  end.

Definition wchk_st (st : res (bool * egraph)) : option (bool * nat) :=
  match st with Ok (_, s) => Some (wchk_all 200 s) | Err _ => None end.

Example wit_fam : all_ok (map (walk0 wchk_st) fam_hists) = true /\ rounds (map (walk0 wchk_st) fam_hists) = 61%nat.
Proof. vm_compute. split; reflexivity. Qed.
Example wit_cong : all_ok (map (walk0 wchk_st) cong_hists) = true.
Proof. vm_compute. reflexivity. Qed.
Example wit_cyc : map (fun n => wchk_st (st_cyc n)) [2; 4; 8; 12]%nat =
  [Some (true, 1%nat); Some (true, 3%nat); Some (true, 7%nat); Some (true, 11%nat)].
Proof. vm_compute. reflexivity. Qed.
Definition wpool_res := map (fun ops => walk0 wchk_st (pool1, ops)) two_unions.
Example wit_pool : (all_ok wpool_res, rounds wpool_res) = (true, 10953%nat).
Proof. vm_compute. reflexivity. Qed.

Print Assumptions wit_fam.
Print Assumptions wit_pool.
