(* EGraph/TerminationCapCore.v — WHY THE CAP OF handle_shrink_in_upwards_merge IS PROPER (C08, termination half).

   The state-level core of TerminationHp.HP_cap_proper, from SOURCE COHERENCE of the node in flight (SelfSymDefs.srcok_inv):

     cap_witness_src : eg_inv s -> lcanon s i -> srcok_inv s i en src -> (subset test of the hp_loop fails) ->
                       pc_from_src_id s src = Ok pc1 ->
                       some slot y of the invocation `snd pc1` (the leader invocation of src, over the syntactic slots of src)
                       does not occur publicly in `fst pc1` (the canonicalised syntactic node of src).
       Reason: the test fails = the class invocation i has a slot x that is no public slot of the in-flight node en.
       srcok_inv: en = (syn src)[g] with eg-equal children, and src[g] is eg-equal to i.  eg-equal invocations have the same
       VALUE SET after find, so x = g y for a slot y of find(src[id]) = snd pc1.  If y occurred publicly in
       pre_shape (syn src) = fst pc1, then g y would occur publicly in pre_shape ((syn src)[g]) (pre_shape_ren), hence in
       find_enode ((syn src)[g]) (variants only lose slots), hence in find_enode en (eg-equal children have found forms that
       differ by a group element: same value sets, ShapeCong.kids_found), hence in en: contradiction.
     cap_values_fresh : the second invocation built by pc_congruence pc1 (n2, snd pc1) only has values that are public slots
                       of fst pc1 or fresh (>= ctr s); n2 is arbitrary.
     cap_core        : the conclusion of HP_cap_proper from eg_inv2 s, lcanon s i, srcok_inv s i en src. *)
From SE Require Import Slots.SlotMapFacts Group.GroupSound Lang.LangFacts Lang.ShapeFacts Lang.RenameFacts
  EGraph.Model EGraph.ModelFacts EGraph.ModelMachine EGraph.UnionFindFacts EGraph.InvariantFacts
  EGraph.UnionInvariantFacts EGraph.AddCoversFacts EGraph.MonotoneFacts EGraph.HashconsShape
  EGraph.NodeCong EGraph.KidEqFacts EGraph.ShapeCong EGraph.MatchReprFix EGraph.SelfSymDefs.
Require Import ZArith Lia List.
Import ListNotations.

Local Notation "a ** b" := (compose_partial a b) (at level 40, left associativity).
Local Notation inv := inverse_nocheck.
Local Notation ectr := Model.ctr.

Lemma sset_subset_false : forall a b, sset_subset a b = false -> exists x, In x a /\ ~ In x b.
Proof.
  intros a b H. unfold sset_subset in H.
  induction a as [|y t IH]; cbn [forallb] in H; [discriminate|].
  destruct (sset_mem y b) eqn:E; cbn [andb] in H.
  - destruct (IH H) as (x & Hx & Nx). exists x. split; [right; exact Hx|exact Nx].
  - exists y. split; [left; reflexivity|]. intros Hin. apply sset_mem_in in Hin. congruence.
Qed.

Lemma tc_get_rho_map : forall g sl k, get (rho_map g sl) k = if sset_mem k sl then Some (g true k) else None.
Proof.
  intros g sl k. unfold rho_map. rewrite get_from_iter.
  induction sl as [|x t IH]; cbn [map assoc_last sset_mem]; [reflexivity|].
  rewrite IH. destruct (sset_mem k t) eqn:E.
  - rewrite orb_true_r. reflexivity.
  - rewrite orb_false_r. destruct (k =? x) eqn:E2; [apply N.eqb_eq in E2; subst; reflexivity|reflexivity].
Qed.

Lemma tc_id_rho : forall g sl, identity sl ** rho_map g sl = rho_map g sl.
Proof.
  intros g sl. apply ext_eq; [apply compose_partial_wf|apply from_iter_wf|]. intros k.
  rewrite get_compose_partial by apply identity_wf. rewrite get_identity, !tc_get_rho_map.
  destruct (sset_mem k sl) eqn:E; [|reflexivity]. rewrite tc_get_rho_map, E. reflexivity.
Qed.

Lemma found_wf : forall s a a', find_applied_id s a = Ok a' -> wf (am a').
Proof.
  intros s a a' H. unfold find_applied_id in H. destruct (unionfind_get s (aid a)) as [p|]; cbn [bind] in H; [|discriminate].
  inversion H; subst a'. cbn [am]. apply compose_partial_wf.
Qed.

(* ------------------------------------------------------------------ *)
(* 1. the witness on the source side *)

Theorem cap_witness_src : forall s i en src pc1,
  eg_inv s -> lcanon s i -> srcok_inv s i en src ->
  sset_subset (values (am i)) (slots en) = false ->
  pc_from_src_id s src = Ok pc1 ->
  exists c y, get_class s src = Ok c /\ In y (values (am (snd pc1))) /\ In y (slots (c_syn c)) /\
              ~ In y (pub_occ (fst pc1)).
Proof.
  intros s i en src pc1 Hs Li (csrc & g & l & Hcs & Rk & EN & F & K) Tf P1.
  destruct (pc_from_src_spec _ _ _ P1) as (c & Hc & P & Fp). rewrite Hcs in Hc. inversion Hc; subst c; clear Hc.
  destruct (sset_subset_false _ _ Tf) as (x & Hx & Nx).
  (* A. x = g y for a value y of the leader invocation of src *)
  destruct K as (Ca & Ci & E). destruct (eg_eq_true_inv _ _ _ E) as (a' & b' & c & Fa & Fb & Ei & V & Hc & G).
  rewrite (lcanon_find_fixed s i Hs Li) in Fb. inversion Fb; subst b'; clear Fb.
  assert (Ea' : a' = {| aid := aid (snd pc1); am := am (snd pc1) ** rho_map g (slots (c_syn csrc)) |}).
  { pose proof (find_compose s src (identity (slots (c_syn csrc))) (rho_map g (slots (c_syn csrc))) (snd pc1)
                  (ei_uf _ Hs) (identity_wf _) Fp) as Q.
    rewrite tc_id_rho in Q. rewrite Fa in Q. inversion Q. reflexivity. }
  rewrite <- V in Hx. rewrite Ea' in Hx. cbn [am] in Hx.
  apply values_compose_in in Hx; [|exact (found_wf _ _ _ Fp)].
  destruct Hx as (y & Hy & Gy). rewrite tc_get_rho_map in Gy.
  destruct (sset_mem y (slots (c_syn csrc))) eqn:My; [|discriminate]. inversion Gy; subst x; clear Gy.
  exists csrc, y. split; [exact Hcs|]. split; [exact Hy|]. split; [apply sset_mem_in; exact My|].
  intros Hin. apply Nx.
  (* B. a public occurrence of y in the pre-shape of the syntactic node gives a public occurrence of g y in en *)
  pose proof (pre_shape_ren s g (c_syn csrc) (fst pc1) Rk P) as PR.
  unfold pre_shape in P.
  destruct (find_enode s (c_syn csrc)) as [n1|] eqn:F1; cbn [bind] in P; [|discriminate].
  destruct (variants s n1) as [vs|] eqn:V1; cbn [bind] in P; [|discriminate].
  apply min_variant_in in P. destruct P as [P|[k P]]; [|discriminate].
  destruct (find_enode_sub s _ n1 F1) as (B1 & Q1). destruct (variants_sub s n1 vs _ V1 P) as (B2 & Q2).
  assert (Rp : ren_ok g (fst pc1)).
  { apply (ren_ok_sub g (c_syn csrc)); [congruence| |exact Rk]. intros z Hz. apply Q1, Q2, Hz. }
  pose proof (ren_ok_pub g (fst pc1) y Rp Hin) as Hgy.
  unfold pre_shape in PR.
  destruct (find_enode s (RenameFacts.ren g (c_syn csrc))) as [N|] eqn:FR; cbn [bind] in PR; [|discriminate].
  destruct (variants s N) as [vs'|] eqn:VR; cbn [bind] in PR; [|discriminate].
  apply min_variant_in in PR. destruct PR as [PR|[k PR]]; [|discriminate].
  destruct (variants_sub s N vs' _ VR PR) as (_ & Q3). apply Q3 in Hgy.
  unfold find_enode in FR.
  destruct (mapr (find_applied_id s) (app_occ (RenameFacts.ren g (c_syn csrc)))) as [LA|] eqn:EA; cbn [bind] in FR; [|discriminate].
  inversion FR; subst N; clear FR.
  destruct (kids_found s _ _ Hs F LA EA) as (LB & EB & R1 & R2).
  pose proof (Forall2_length' _ _ _ F) as Ll.
  pose proof (mapr_length _ _ _ EA) as LLA. pose proof (mapr_length _ _ _ EB) as LLB.
  set (R := RenameFacts.ren g (c_syn csrc)) in *.
  assert (FB : find_enode s (set_apps R l) = Ok (set_apps R LB)).
  { unfold find_enode. rewrite (app_occ_set_apps R l Ll), EB. cbn [bind]. rewrite set_apps_twice by lia. reflexivity. }
  apply (proj2 (sset_of_list_spec _)). subst en.
  apply (proj2 (find_enode_sub _ _ _ FB)).
  assert (NA : set_apps (set_apps R LB) LA = set_apps R LA) by (apply set_apps_twice; lia).
  rewrite <- NA in Hgy. revert Hgy. apply set_apps_pub_sub.
  rewrite app_occ_set_apps by lia.
  eapply Forall2_impl; [|exact R2]. intros B A (_ & _ & c0 & pp & _ & _ & ->).
  unfold vals_sub, gvar. cbn [am]. apply compose_values_sub'.
Qed.

(* ------------------------------------------------------------------ *)
(* 2. the values of the second invocation of pc_congruence *)

Theorem cap_values_fresh : forall s pc1 pc2 ab s' y, wf (am (snd pc2)) ->
  pc_congruence pc1 pc2 s = Ok (ab, s') -> y < ectr s -> ~ In y (pub_occ (fst pc1)) -> ~ In y (values (am (snd ab))).
Proof.
  intros s pc1 pc2 ab s' y Wa H Ly Ny Hin.
  destruct (pc_congruence_dec _ _ _ _ _ H) as ([sh1 bij1] & [sh2 bij2] & m & c1 & x & c2 & bm & c3 & S1 & S2 & E1 & E2 & E3 & ->).
  cbn [fst snd aid am] in *.
  destruct (shape_bij_props _ _ _ S1) as (W1 & B1 & Pb1).
  assert (L01 : ectr s <= c1).
  { pose proof (compose_fresh_spec (inv bij2) bij1 (ectr s) 0 (inverse_wf _)) as T. rewrite E1 in T. cbn [fst snd] in T. exact (proj1 (proj2 T)). }
  assert (L12 : c1 <= c2).
  { pose proof (apply_slotmap_fresh_step false m (fst pc2) c1) as T. rewrite E2 in T. apply ctr_step_le in T. exact T. }
  assert (Wbm : wf bm).
  { pose proof (compose_fresh_spec (am (snd pc2)) m c2 0 Wa) as T. rewrite E3 in T. cbn [fst snd] in T. exact (proj1 T). }
  apply (values_spec bm y Wbm) in Hin. destruct Hin as (k & Gk).
  pose proof (compose_fresh_spec (am (snd pc2)) m c2 k Wa) as (_ & _ & T). rewrite E3 in T. cbn [fst snd] in T.
  destruct (get (am (snd pc2)) k) as [v|]; [|congruence].
  destruct (get m v) as [z|] eqn:Gm.
  - rewrite Gk in T. inversion T; subst z; clear T.
    pose proof (compose_fresh_spec (inv bij2) bij1 (ectr s) v (inverse_wf _)) as (_ & _ & T). rewrite E1 in T. cbn [fst snd] in T.
    destruct (get (inv bij2) v) as [w|]; [|congruence].
    destruct (get bij1 w) as [z'|] eqn:Gb.
    + rewrite Gm in T. inversion T; subst z'. apply Ny. apply Pb1. exists w. exact Gb.
    + destruct T as (z & Gz & Rz & _). rewrite Gm in Gz. inversion Gz; subst z. lia.
  - destruct T as (z & Gz & Rz & _). rewrite Gk in Gz. inversion Gz; subst z. lia.
Qed.

(* ------------------------------------------------------------------ *)
(* 3. the cap is proper *)

Theorem cap_core : forall s i en src pc1 n2 a b s',
  eg_inv2 s -> lcanon s i -> srcok_inv s i en src ->
  sset_subset (values (am i)) (slots en) = false ->
  pc_from_src_id s src = Ok pc1 ->
  pc_congruence pc1 (n2, snd pc1) s = Ok ((a, b), s') ->
  exists x, In x (values (am a)) /\ ~ In x (values (am b)).
Proof.
  intros s i en src pc1 n2 a b s' [Hs Hb] Li Fl Tf P1 HP.
  destruct (cap_witness_src s i en src pc1 Hs Li Fl Tf P1) as (c & y & Hc & Hy & Sy & Ny).
  pose proof (pc_congruence_fst _ _ _ _ _ HP) as Fa. cbn [fst snd] in Fa. subst a.
  exists y. split; [exact Hy|].
  destruct (pc_from_src_spec _ _ _ P1) as (c' & Hc' & _ & Fp).
  apply (cap_values_fresh s pc1 (n2, snd pc1) (snd pc1, b) s' y); [exact (found_wf _ _ _ Fp)|exact HP| |exact Ny].
  apply (Hb src c y Hc). apply pub_occ_all_occ. apply (proj2 (sset_of_list_spec _)). exact Sy.
Qed.

Print Assumptions cap_witness_src.
Print Assumptions cap_values_fresh.
Print Assumptions cap_core.
