(* EGraph/TerminationCapRebuild.v — the worklist loop `rebuild` SETTLES, UNCONDITIONALLY (C08, termination half).

   With HP_cap_proper proved for the loop states that carry source coherence (TerminationCap.v), the chain
   HP_quiet -> ROUND_QUIET -> round measure -> rebuild settles of Termination*.v is replayed with the run invariant
   `srcx noex s` (SelfSymDefs.v; reachable: SelfSymFacts.reachable_sse_srcx, kept by handle_pending together with
   `sse noex s`: SelfSymFacts.handle_pending_keeps) as an additional premise:

     round_quiet_pending_x : a successful round that leaves the progress measure unchanged leaves `pending` unchanged
     ROUND_QUIET_x_proved, round_measure_x : every successful round decreases (rk, |pending|) lexicographically
     RI s := Jm noex s /\ Kx s /\ sse noex s /\ srcx noex s            (the invariants of the worklist loop)
     rebuild_settles       : RI s -> exists f, (forall f' >= f, rebuild f' s = rebuild f s) /\
                             (settled value Ok (tt, s') with RI s', pending s' = []  \/  Err OutOfFuel of an INNER constant)
     handle_pending_hp_settles : in the context in which handle_pending calls the hp_loop, the loop's own fuel settles
     RI_reachable          : Forall term_static terms -> run_ops terms ops [] empty_egraph = Ok (hs, s) -> RI s
     rebuild_settles_reachable, eg_union_rebuild_settles (the state in which eg_union calls rebuild). *)
From SE Require Import Slots.SlotMapFacts Group.GroupSound Lang.LangFacts Lang.ShapeFacts
  EGraph.Model EGraph.ModelMachine EGraph.ModelFacts EGraph.PendingFacts EGraph.UnionFindFacts
  EGraph.InvariantFacts EGraph.UnionInvariantFacts EGraph.AddCoversFacts EGraph.MonotoneFacts EGraph.HashconsFacts EGraph.ProgressFacts
  EGraph.KidsFacts EGraph.NoErrorBase EGraph.NoErrorKey EGraph.NoErrorShape EGraph.NoErrorInv EGraph.NoErrorPendingA EGraph.NoErrorPendingHP EGraph.NoErrorPendingNB
  EGraph.NoErrorPending EGraph.NoErrorPendingKx EGraph.NoErrorFuel EGraph.NoErrorAddDef EGraph.NoErrorAddU EGraph.OpsPreFacts EGraph.NoError
  EGraph.TerminationMeasure EGraph.TerminationRank EGraph.TerminationRebuild EGraph.TerminationRound EGraph.TerminationQuiet
  EGraph.TerminationHp EGraph.SelfSymDefs EGraph.SelfSymCond EGraph.SelfSymFacts EGraph.TerminationCap.
From SE Require EGraph.SelfSymUnion EGraph.SelfSymReadd EGraph.SelfSymDss EGraph.SelfSymNew.
Require Import ZArith Lia List.
Import ListNotations.

Local Notation ectr := Model.ctr.
Local Notation "a ** b" := (compose_partial a b) (at level 40, left associativity).
Local Notation inv := inverse_nocheck.

(* ------------------------------------------------------------------ *)
(* 1. a quiet round does not touch the worklist (TerminationQuiet.round_quiet_pending with HPQ := HP_quiet_x_proved) *)

Theorem round_quiet_pending_x : forall sh ty s u s', Jm (fun y => y = sh /\ ty = true) s -> Kx s -> srcx noex s ->
  na_get (pending s) sh = None ->
  handle_pending sh ty s = Ok (u, s') -> progress s' = progress s -> pending s' = pending s.
Proof.
  intros sh ty s u s' J KX SX Pn H EP. unfold handle_pending in H.
  apply bind_reads_inv in H. destruct H as (i & Hi & H).
  destruct (na_get (hashcons s) sh) as [i'|] eqn:Hi'; [|discriminate]. inversion Hi; subst i'; clear Hi. rename Hi' into Hi.
  destruct ty; cbn [negb] in H; [|inversion H; reflexivity].
  pose proof (jm_kinv _ _ J) as Kv. pose proof (jm_hce _ _ J) as Hs.
  pose proof Kv as (I3 & M & K).
  assert (Hs1 : hce (fun y => y = sh) s).
  { eapply hce_weaken; [|exact Hs]. intros y [-> _]. reflexivity. }
  assert (J1 : Jm (fun y => y = sh) s).
  { constructor; [exact Kv|exact Hs1|exact (jm_uc _ _ J)|exact (jm_st2 _ _ J)|exact (jm_syn _ _ J)
                 |exact (jm_src _ _ J)|exact (jm_pend _ _ J)]. }
  apply bind_reads_inv in H. destruct H as (c & Hc & H).
  apply mbind_inv in H. destruct H as ([bij0 src] & s0 & Hp & H). apply lift_inv in Hp. destruct Hp as [St ->].
  destruct (na_get (c_nodes c) sh) as [psn|] eqn:St'; [|discriminate]. inversion St; subst psn; clear St. rename St' into St.
  assert (SO : srcok s i sh bij0 src).
  { destruct (SX i sh bij0 src (get_stored s i c sh _ Hc St)) as [[]|SO]. exact SO. }
  apply mbind_inv in H. destruct H as (nd & s0 & Hnd & H). apply lift_inv in Hnd. destruct Hnd as [Hnd ->].
  apply mbind_inv in H. destruct H as (u1 & sA & HA & H).
  assert (IA : inv3 sA /\ ext s sA).
  { pose proof I3 as [Hs2 HN]. destruct (semR_step2 _ _ (s_raw_remove _ _ _ _ _ HA) Hs2) as [HsA EA].
    split; [|exact EA]. split; [exact HsA|eapply nodes_raw_remove; eauto]. }
  destruct IA as [IA EA].
  pose proof (pext_semR s sA I3 IA (s_raw_remove _ _ _ _ _ HA)) as PXA.
  pose proof (pkeep_raw_remove _ _ _ _ _ HA) as PA. unfold pkeep in PA.
  apply bind_reads_inv in H. destruct H as (sl & Hsl & H). cbv zeta in H.
  apply bind_reads_inv in H. destruct H as (enode0 & Hen & H).
  apply bind_reads_inv in H. destruct H as (i0 & Hi0 & H).
  unfold class_slots in Hsl. destruct (get_class sA i) as [cA|] eqn:HcA; cbn [bind] in Hsl; [|discriminate].
  inversion Hsl; subst sl; clear Hsl.
  pose proof (covers_lcanon sA _ i0 (proj1 (proj1 IA)) (covers_identity sA i cA HcA) Hi0) as L0.
  apply mbind_inv in H. destruct H as ([enode i1] & sB & HB & H).
  destruct (inv3_hp_loop _ _ _ _ _ _ _ IA L0 (ex_intro _ nd Hen) HB) as (IB & EB & L1 & (n0 & Fn) & Sub). cbn [fst snd] in *.
  assert (PXB : pext sA sB).
  { destruct (inv4_hp_loop _ _ _ _ _ _ _ HB (inv3_eg_inv2 sA IA)) as [_ X].
    split; [apply inv3_eg_inv; assumption|]. split; [apply inv3_eg_inv; assumption|].
    split; [apply mext_mext0; assumption|exact (l_hp_loop _ _ _ _ _ _ _ HB)]. }
  pose proof EB as (_ & LcB & _).
  (* the common end of both branches *)
  assert (Fin : pext sB s' -> (progress s' = progress sB -> pending s' = pending sB) -> pending s' = pending s).
  { intros PXC Q.
    destruct (squeeze2 s sA s' PXA (pext_trans _ _ _ PXB PXC) EP) as [EA1 EA2].
    destruct (squeeze2 sA sB s' PXB PXC EA2) as [EB1 EB2].
    assert (AE : Aw sB = Aw sA).
    { pose proof (Aw_pext sA sB PXB LcB) as Le.
      destruct (Nat.eq_dec (Aw sB) (Aw sA)) as [Q0|Q0]; [exact Q0|].
      exfalso. apply (Aw_progress sA sB PXB LcB); [lia|exact EB1]. }
    destruct (HP_quiet_x_proved s sh i c bij0 src nd u1 sA cA enode0 i0 100%nat enode i1 sB J1 KX Pn Hi Hc St Hnd HA HcA Hen Hi0 SO HB AE)
      as (EqS & _ & _).
    rewrite (Q EB2), EqS. exact PA. }
  apply bind_reads_inv in H. destruct H as (t & Ht & H).
  apply bind_reads_inv in H. destruct H as (lk & _ & H).
  destruct lk as [hit|].
  - apply bind_reads_inv in H. destruct H as (pc & P & H).
    destruct (handle_congruence_quiet pc src sB u s' IB P H) as (PXC & _ & _ & Q). exact (Fin PXC Q).
  - destruct t as [sh' bij].
    apply mbind_inv in H. destruct H as (m & sC & Hm & H).
    change (fill_fresh (values bij) (inv (am i1)) sB = Ok (m, sC)) in Hm. cbv zeta in H.
    apply mbind_inv in H. destruct H as (u2 & sD & HD & H).
    destruct (none_branch_inv3 sB n0 enode i1 src sh' bij m sC u2 sD IB L1 Fn Sub Ht Hm HD) as (IC & EC & ID & ED).
    pose proof (pext_semR sB sC IB IC (s_fill_fresh _ _ _ _ _ Hm)) as PX1.
    pose proof (pext_semR sC sD IC ID (s_raw_add _ _ _ _ _ _ HD)) as PX2.
    destruct (determine_self_symmetries_quiet src sD u s' ID H) as (PX3 & _ & _ & Q3).
    pose proof (pext_trans _ _ _ PX1 PX2) as PX12.
    apply Fin; [eapply pext_trans; eauto|]. intros E.
    destruct (squeeze2 sB sD s' PX12 PX3 E) as [_ E3].
    rewrite (Q3 E3). rewrite (pkeep_raw_add _ _ _ _ _ _ HD). exact (pkeep_fill_fresh _ _ _ _ _ Hm).
Qed.

Definition ROUND_QUIET_x : Prop :=
  forall sh ty s u s', Jm (fun y => y = sh /\ ty = true) s -> Kx s -> srcx noex s -> na_get (pending s) sh = None ->
    handle_pending sh ty s = Ok (u, s') -> progress s' = progress s ->
    (List.length (pending s') <= List.length (pending s))%nat.

Theorem ROUND_QUIET_x_proved : ROUND_QUIET_x.
Proof.
  intros sh ty s u s' J KX SX Pn H EP. rewrite (round_quiet_pending_x sh ty s u s' J KX SX Pn H EP). lia.
Qed.

(* ------------------------------------------------------------------ *)
(* 2. the measure lemma of rebuild *)

Lemma srcx_set_pending : forall E s p, srcx E s -> srcx E (set_pending s p).
Proof. intros E s p SX i y cb src S. change (stored s i y (cb, src)) in S. exact (SX i y cb src S). Qed.

Theorem round_measure_x : forall s sh ty rest u s', Jm noex s -> Kx s -> srcx noex s -> pending s = (sh, ty) :: rest ->
  handle_pending sh ty (set_pending s rest) = Ok (u, s') ->
  (rk s' < rk s)%nat \/ (rk s' = rk s /\ (List.length (pending s') <= List.length rest)%nat).
Proof.
  intros s sh ty rest u s' J K SX P H.
  destruct (Jm_pop s sh ty rest J P) as [J1 Nn]. pose proof (Kx_pop s sh ty rest J K P) as K1.
  destruct (pext_handle_pending sh ty _ u s' (Jm_inv3 _ _ J1) H) as (X & L & _).
  rewrite <- (rk_set_pending s rest).
  pose proof (rk_pext _ _ X L) as Le.
  destruct (Nat.eq_dec (rk s') (rk (set_pending s rest))) as [Q|Q]; [|left; lia].
  right. split; [exact Q|].
  assert (PE : progress s' = progress (set_pending s rest)).
  { destruct (proj1 (pext_progress_total _ _ X)) as (p & Pp). destruct (proj2 (pext_progress_total _ _ X)) as (p' & Pp').
    assert (D : {p' = p} + {p' <> p}) by (repeat decide equality).
    destruct D as [D|D]; [rewrite Pp, Pp', D; reflexivity|].
    assert (E : progress s' <> progress (set_pending s rest)) by (rewrite Pp, Pp'; intros E; inversion E; contradiction).
    pose proof (rk_progress _ _ X L E). lia. }
  exact (ROUND_QUIET_x_proved sh ty _ u s' J1 K1 (srcx_set_pending noex s rest SX) Nn H PE).
Qed.

(* ------------------------------------------------------------------ *)
(* 3. rebuild settles *)

Definition RI (s : egraph) : Prop := Jm noex s /\ Kx s /\ sse noex s /\ srcx noex s.

(* one round of the worklist keeps RI *)
Lemma RI_round : forall s sh ty rest u s', RI s -> pending s = (sh, ty) :: rest ->
  handle_pending sh ty (set_pending s rest) = Ok (u, s') -> RI s'.
Proof.
  intros s sh ty rest u s' (J & K & SS & SX) Ep H.
  destruct (Jm_pop s sh ty rest J Ep) as [J1 Nn]. pose proof (Kx_pop s sh ty rest J K Ep) as K1.
  split; [exact (proj1 (Jm_handle_pending sh ty _ _ _ J1 Nn H))|].
  split; [exact (Kx_handle_pending sh ty _ _ _ J1 K1 H)|].
  pose proof (jm_kinv _ _ J1) as (I1 & M1 & _).
  assert (SS1 : sse (popped sh ty) (set_pending s rest)).
  { intros i y cb src S. change (stored s i y (cb, src)) in S. destruct (SS i y cb src S) as [A|[[]|A]].
    - unfold pendT in A. rewrite Ep in A. cbn [na_get] in A. destruct (node_eqb y sh) eqn:Ey.
      + apply node_eqb_iff in Ey. inversion A; subst. right. left. split; reflexivity.
      + left. exact A.
    - right. right. exact A. }
  exact (handle_pending_keeps sh ty _ u s' I1 M1 H (jm_hce _ _ J1) SS1 (srcx_set_pending noex s rest SX)).
Qed.

Theorem RI_rebuild : forall fuel s x s', RI s -> rebuild fuel s = Ok (x, s') -> RI s' /\ pending s' = [].
Proof.
  induction fuel as [|f IH]; intros s x s' R H; [discriminate H|]. rewrite rebuild_rb in H.
  destruct (pending s) as [|[sh ty] rest] eqn:Ep.
  - rewrite (rb_nil handle_pending f s Ep) in H. inversion H; subst. split; assumption.
  - destruct (handle_pending sh ty (set_pending s rest)) as [[u s1]|e] eqn:H1.
    + rewrite (rb_cons_ok handle_pending f s sh ty rest u s1 Ep H1) in H. rewrite <- rebuild_rb in H.
      exact (IH s1 x s' (RI_round s sh ty rest u s1 R Ep H1) H).
    + rewrite (rb_cons_err handle_pending f s sh ty rest e Ep H1) in H. discriminate H.
Qed.

Theorem rebuild_settles : forall s, RI s ->
  exists f, (forall f', (f <= f')%nat -> rebuild f' s = rebuild f s) /\
            ((exists s', rebuild f s = Ok (tt, s') /\ RI s' /\ pending s' = []) \/ rebuild f s = Err OutOfFuel).
Proof.
  intros s R.
  destruct (rb_settles handle_pending RI rk) with (s := s) as (f & Hf).
  - intros s0 sh ty rest u s' R0 P H. split; [exact (RI_round s0 sh ty rest u s' R0 P H)|].
    destruct R0 as (J0 & K0 & _ & SX0). exact (round_measure_x s0 sh ty rest u s' J0 K0 SX0 P H).
  - exact R.
  - exists f. split; [intros f' L; rewrite !rebuild_rb; apply Hf; exact L|].
    destruct (rebuild f s) as [[[] s']|e] eqn:E.
    + left. exists s'. split; [reflexivity|]. exact (RI_rebuild f s tt s' R E).
    + right. destruct R as (J & K & _). rewrite (nf_rebuild HC_hit_proved f s J K e E). reflexivity.
Qed.

(* the measure statement in the form of Termination.round_measure_from_cap, unconditional *)
Theorem round_measure : forall s sh ty rest u s', RI s -> pending s = (sh, ty) :: rest ->
  handle_pending sh ty (set_pending s rest) = Ok (u, s') ->
  RI s' /\ ((rk s' < rk s)%nat \/ (rk s' = rk s /\ (List.length (pending s') <= List.length rest)%nat)).
Proof.
  intros s sh ty rest u s' R P H. split; [exact (RI_round s sh ty rest u s' R P H)|].
  destruct R as (J & K & _ & SX). exact (round_measure_x s sh ty rest u s' J K SX P H).
Qed.

(* ------------------------------------------------------------------ *)
(* 4. the hp_loop inside a round of the worklist: its own fuel settles *)

Theorem handle_pending_hp_settles : forall s sh i c bij0 src nd u1 sA cA enode0 i0,
  Jm (fun y => y = sh) s -> Kx s -> srcx noex s -> na_get (pending s) sh = None ->
  na_get (hashcons s) sh = Some i -> get_class s i = Ok c -> na_get (c_nodes c) sh = Some (bij0, src) ->
  apply_slotmap false bij0 sh = Ok nd -> raw_remove_from_class i sh s = Ok (u1, sA) -> get_class sA i = Ok cA ->
  find_enode sA nd = Ok enode0 -> find_applied_id sA {| aid := i; am := identity (c_slots cA) |} = Ok i0 ->
  exists f, (forall f', (f <= f')%nat -> hp_loop f' src enode0 i0 sA = hp_loop f src enode0 i0 sA) /\
            ((exists r, hp_loop f src enode0 i0 sA = Ok r) \/ hp_loop f src enode0 i0 sA = Err OutOfFuel).
Proof.
  intros s sh i c bij0 src nd u1 sA cA enode0 i0 J KX SX Pn Hi Hc St Hnd HA HcA Hen Hi0.
  apply hp_loop_settled_value_x.
  apply (hpIx_of_context s sh i c bij0 src nd u1 sA cA enode0 i0 J KX Pn Hi Hc St Hnd HA HcA Hen Hi0).
  destruct (SX i sh bij0 src (get_stored s i c sh _ Hc St)) as [[]|SO]. exact SO.
Qed.

(* ------------------------------------------------------------------ *)
(* 5. reachable states *)

Theorem RI_reachable : forall terms ops hs s, Forall term_static terms ->
  run_ops terms ops [] empty_egraph = Ok (hs, s) -> RI s /\ pending s = [] /\ Forall (covers s) hs.
Proof.
  intros terms ops hs s HT H.
  destruct (B_reachable_static terms ops hs s HT H) as [(J & K & P & _) Cv].
  destruct (reachable_sse_srcx terms ops hs s (ops_pre_static terms ops HT) H) as (_ & SS & SX).
  split; [|split; assumption]. repeat (split; [assumption|]). assumption.
Qed.

Theorem rebuild_settles_reachable : forall terms ops hs s, Forall term_static terms ->
  run_ops terms ops [] empty_egraph = Ok (hs, s) ->
  exists f, (forall f', (f <= f')%nat -> rebuild f' s = rebuild f s) /\
            ((exists s', rebuild f s = Ok (tt, s') /\ RI s' /\ pending s' = []) \/ rebuild f s = Err OutOfFuel).
Proof. intros terms ops hs s HT H. exact (rebuild_settles s (proj1 (RI_reachable terms ops hs s HT H))). Qed.

(* the state in which eg_union calls rebuild: after synify_app_id (twice) and uint on a reachable state *)
Theorem RI_uint : forall l r s b s', RI s -> covers s l -> covers s r -> uint l r s = Ok (b, s') -> RI s'.
Proof.
  intros l r s b s' (J & K & SS & SX) Cl Cr H.
  pose proof (jm_kinv _ _ J) as (I3 & M & _). pose proof (jm_hce _ _ J) as Hh.
  split; [exact (proj1 (Jm_uint _ _ _ _ _ _ J Cl Cr H))|].
  split; [exact (Kx_uint _ _ _ _ _ _ J K Cl Cr H)|].
  split.
  - exact (sse_uint noex _ _ _ _ _ I3 (proj1 Hh) Cl Cr H SS).
  - exact (SelfSymUnion.src_uint noex _ _ _ _ _ I3 M (proj1 Hh) Cl Cr H SX).
Qed.

Theorem RI_synify : forall a s a1 s1, RI s -> synify_app_id a s = Ok (a1, s1) -> RI s1 /\ ext s s1.
Proof.
  intros a s a1 s1 (J & K & SS & SX) H.
  pose proof (jm_kinv _ _ J) as (I3 & M & _). pose proof (jm_hce _ _ J) as Hh.
  destruct (Jm_synify_app_id _ _ _ _ _ J H) as (J1 & X1 & _).
  pose proof (Kx_synify_app_id _ _ _ _ (jm_kinv _ _ J) K H) as K1.
  assert (CO : ctr_only s s1).
  { apply (pres_synify_app_id ctr_only ctr_only_refl ctr_only_trans) in H; [assumption|].
    intros s0 y s0' H0. inversion H0. eexists; reflexivity. }
  destruct (semR_step4 _ _ (s_synify_app_id _ _ _ _ H) (proj1 I3)) as [G1 XX].
  split; [|exact X1]. split; [exact J1|]. split; [exact K1|]. split.
  - apply (sse_via _ s s1 I3 (proj1 Hh) G1 XX); [apply (frx_ctr_only noex s s s1 CO), frx_refl|exact SS].
  - apply (srcx_semR noex s s1 (proj1 I3) (s_synify_app_id _ _ _ _ H)); [intros j y q; apply stored_ctr_only; exact CO|exact SX].
Qed.

Theorem eg_union_rebuild_settles : forall terms ops hs s l r l1 s1 r1 s2 out s3, Forall term_static terms ->
  run_ops terms ops [] empty_egraph = Ok (hs, s) -> covers s l -> covers s r ->
  synify_app_id l s = Ok (l1, s1) -> synify_app_id r s1 = Ok (r1, s2) -> uint l r s2 = Ok (out, s3) ->
  exists f, (forall f', (f <= f')%nat -> rebuild f' s3 = rebuild f s3) /\
            ((exists s', rebuild f s3 = Ok (tt, s') /\ RI s' /\ pending s' = []) \/ rebuild f s3 = Err OutOfFuel).
Proof.
  intros terms ops hs s l r l1 s1 r1 s2 out s3 HT H Cl Cr H1 H2 H3.
  destruct (RI_reachable terms ops hs s HT H) as (R & _ & _).
  destruct (RI_synify l s l1 s1 R H1) as [R1 X1]. destruct (RI_synify r s1 r1 s2 R1 H2) as [R2 X2].
  pose proof (ext_trans _ _ _ X1 X2) as X02.
  exact (rebuild_settles s3 (RI_uint l r s2 out s3 R2 (covers_ext _ _ _ X02 Cl) (covers_ext _ _ _ X02 Cr) H3)).
Qed.

(* eg_union as a whole: the rebuild it runs has a settling fuel *)
Theorem eg_union_settles : forall terms ops hs s l r, Forall term_static terms ->
  run_ops terms ops [] empty_egraph = Ok (hs, s) -> In l hs -> In r hs ->
  forall l1 s1 r1 s2 out s3, synify_app_id l s = Ok (l1, s1) -> synify_app_id r s1 = Ok (r1, s2) -> uint l r s2 = Ok (out, s3) ->
  exists f, (forall f', (f <= f')%nat -> rebuild f' s3 = rebuild f s3) /\
            ((exists s', rebuild f s3 = Ok (tt, s') /\ RI s' /\ pending s' = []) \/ rebuild f s3 = Err OutOfFuel).
Proof.
  intros terms ops hs s l r HT H Il Ir l1 s1 r1 s2 out s3 H1 H2 H3.
  destruct (RI_reachable terms ops hs s HT H) as (_ & _ & Cv).
  exact (eg_union_rebuild_settles terms ops hs s l r l1 s1 r1 s2 out s3 HT H
           (proj1 (Forall_forall _ _) Cv l Il) (proj1 (Forall_forall _ _) Cv r Ir) H1 H2 H3).
Qed.

Print Assumptions round_quiet_pending_x.
Print Assumptions round_measure_x.
Print Assumptions round_measure.
Print Assumptions RI_rebuild.
Print Assumptions rebuild_settles.
Print Assumptions handle_pending_hp_settles.
Print Assumptions RI_reachable.
Print Assumptions rebuild_settles_reachable.
Print Assumptions eg_union_rebuild_settles.
Print Assumptions eg_union_settles.
