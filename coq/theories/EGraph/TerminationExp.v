(* EGraph/TerminationExp.v — EMPIRICAL data (vm_compute) for a termination argument of `rebuild` and `hp_loop`. *)
From SE Require Import EGraph.Model EGraph.ModelMachine EGraph.AddCoversFacts EGraph.NoErrorFuel EGraph.NoErrorFuelHp
  EGraph.ModelFuel EGraph.OpsPreFacts EGraph.CongruenceFacts.
Require Import ZArith List Bool.
Import ListNotations.

Definition pg (s : egraph) : option (N * N * N * N) := match progress s with Ok t => Some t | Err _ => None end.

(* ---------------------------------------------------------------- *)
(* 1. rebuild, round by round *)

Record rrec := { r_p0 : option (N * N * N * N); r_p1 : option (N * N * N * N);
                 r_pend0 : nat; r_pend1 : nat; r_hc : nat; r_hp : option nat }.

(* rounds of hp_loop = first_fuel - 1 *)
Definition hp_rounds_of (sh : node) (ty : bool) (s0 : egraph) : option nat :=
  if negb ty then Some 0%nat else
  match hp_args sh s0 with
  | Ok ((src, en, i1), s1) => option_map pred (first_fuel (fun f => hp_loop f src en i1 s1) 40 0)
  | Err _ => None
  end.

(* (trace, finished without error) *)
Fixpoint rb_trace_g (whp : bool) (n : nat) (s : egraph) : list rrec * bool :=
  match n with
  | O => ([], false)
  | S n' =>
      match pending s with
      | [] => ([], true)
      | (sh, ty) :: rest =>
          let s0 := set_pending s rest in
          match handle_pending sh ty s0 with
          | Ok (_, s2) =>
              let r := {| r_p0 := pg s0; r_p1 := pg s2; r_pend0 := List.length rest; r_pend1 := List.length (pending s2);
                          r_hc := List.length (hashcons s0); r_hp := if whp then hp_rounds_of sh ty s0 else None |} in
              let '(l, b) := rb_trace_g whp n' s2 in (r :: l, b)
          | Err _ => ([], false)
          end
      end
  end.

Definition rb_trace := rb_trace_g true.

Definition popt_eqb (a b : option (N * N * N * N)) : bool :=
  match a, b with
  | Some (a1, a2, a3, a4), Some (b1, b2, b3, b4) => (a1 =? b1)%N && (a2 =? b2)%N && (a3 =? b3)%N && (a4 =? b4)%N
  | _, _ => false
  end.

(* claim (a): progress changed OR pending did not grow beyond the pop *)
Definition claim_a (r : rrec) : bool := negb (popt_eqb (r_p0 r) (r_p1 r)) || Nat.leb (r_pend1 r) (r_pend0 r).
(* stronger: progress unchanged -> pending after = pending before *)
Definition claim_a_eq (r : rrec) : bool := negb (popt_eqb (r_p0 r) (r_p1 r)) || Nat.eqb (r_pend1 r) (r_pend0 r).

Definition show (r : rrec) := (r_p0 r, r_p1 r, (r_pend0 r, r_pend1 r, r_hc r), r_hp r).

(* summary: (finished, rounds, pending0, hashcons0, progress0, progress_end, claim a on all rounds, sum of hp rounds) *)
Definition summarize (st : res (bool * egraph)) :=
  match st with
  | Ok (_, s) =>
      let '(l, b) := rb_trace 200 s in
      Some (b, List.length l, List.length (pending s), List.length (hashcons s), pg s,
            match rev l with r :: _ => r_p1 r | [] => pg s end,
            forallb claim_a l, forallb claim_a_eq l,
            fold_left (fun acc r => match r_hp r with Some k => (acc + k)%nat | None => (acc + 1000)%nat end) l 0%nat)
  | Err _ => None
  end.

Definition trace_of (st : res (bool * egraph)) :=
  match st with Ok (_, s) => Some (map show (fst (rb_trace 200 s))) | Err _ => None end.

(* data for claim (b): (rounds, pending0, hashcons0, progress0, progress_end, moves = rounds in which progress changed,
   max growth of |pending| in one round, max |pending| seen) *)
Definition bsum (st : res (bool * egraph)) :=
  match st with
  | Ok (_, s) =>
      let '(l, b) := rb_trace 400 s in
      Some (b, List.length l, List.length (pending s), List.length (hashcons s), pg s,
            match rev l with r :: _ => r_p1 r | [] => pg s end,
            List.length (filter (fun r => negb (popt_eqb (r_p0 r) (r_p1 r))) l),
            fold_left (fun acc r => Nat.max acc (r_pend1 r - r_pend0 r)) l 0%nat,
            fold_left (fun acc r => Nat.max acc (r_pend1 r)) l (List.length (pending s)))
  | Err _ => None
  end.

(* classification of a round: 0 = progress unchanged, 1 = live count decreased, 2 = live same, slot total decreased,
   3 = live and slot total same, symmetry total increased, 4 = anything else *)
Definition kind (r : rrec) : nat :=
  match r_p0 r, r_p1 r with
  | Some (a1, a2, a3, a4), Some (b1, b2, b3, b4) =>
      if negb (a1 =? b1)%N then 4%nat
      else if (b2 <? a2)%N then (if (b3 <=? a3)%N then 1%nat else 4%nat)
      else if negb (a2 =? b2)%N then 4%nat
      else if (b3 <? a3)%N then 2%nat
      else if negb (a3 =? b3)%N then 4%nat
      else if (a4 <? b4)%N then 3%nat
      else if (a4 =? b4)%N then 0%nat else 4%nat
  | _, _ => 4%nat
  end.
Definition cnt (k : nat) (l : list rrec) : nat := List.length (filter (fun r => Nat.eqb (kind r) k) l).
(* (finished, rounds, pending0, hashcons0, [#kind0; #kind1; #kind2; #kind3; #kind4], claim a_eq on all rounds,
    bound: rounds <= pending0 + hashcons0 * (#kind1 + #kind2 + #kind3)) *)
Definition ksum (st : res (bool * egraph)) :=
  match st with
  | Ok (_, s) =>
      let '(l, b) := rb_trace 400 s in
      let p0 := List.length (pending s) in let h0 := List.length (hashcons s) in
      Some (b, List.length l, p0, h0, map (fun k => cnt k l) (seq 0 5), forallb claim_a_eq l,
            Nat.leb (List.length l) (p0 + h0 * (cnt 1 l + cnt 2 l + cnt 3 l)))
  | Err _ => None
  end.

Definition statics (ts : list rterm) : bool := forallb term_staticb ts.

(* existing families *)
Definition st_fan1 n := pre_union 0 1 (adds (fan1_terms n)).
Definition st_fan n m := pre_union 0 1 (adds (fan_terms n m)).
Definition st_hp k := pre_union 0 1 (adds (hp_terms k)).
Definition st_cyc k := pre_union 0 1 (adds (cyc_terms k)).


(* ---------------------------------------------------------------- *)
(* 2. hp_loop, round by round: the body of Model.hp_loop replicated *)
Definition hp_body (src : N) (enode : node) (i : appid) : M (node * appid) :=
  dom _ <- handle_shrink_in_upwards_merge src;
  dom enode' <- reads (fun s => find_enode s enode);
  dom i' <- reads (fun s => find_applied_id s i);
  ret (enode', i').

(* (progress after each round in which the subset test failed, outcome: 0 = loop ended, 1 = out of fuel, 2 = error) *)
Fixpoint hp_trace (fuel : nat) (src : N) (enode : node) (i : appid) (s : egraph) : list (option (N * N * N * N)) * nat :=
  match fuel with
  | O => ([], 1%nat)
  | S f =>
      if sset_subset (values (am i)) (slots enode) then ([], 0%nat)
      else match hp_body src enode i s with
           | Ok ((e', i'), s') => let '(l, b) := hp_trace f src e' i' s' in (pg s' :: l, b)
           | Err _ => ([], 2%nat)
           end
  end.

(* claim (c): slot total (3rd) strictly decreases, or live count (2nd) strictly decreases *)
Definition dec_c (a b : option (N * N * N * N)) : bool :=
  match a, b with
  | Some (_, a2, a3, _), Some (_, b2, b3, _) => (b3 <? a3)%N || (b2 <? a2)%N
  | _, _ => false
  end.
Definition dec_slots (a b : option (N * N * N * N)) : bool :=
  match a, b with
  | Some (_, _, a3, _), Some (_, _, b3, _) => (b3 <? a3)%N
  | _, _ => false
  end.
Fixpoint chain {A} (f : A -> A -> bool) (a : A) (l : list A) : bool :=
  match l with [] => true | b :: t => f a b && chain f b t end.

(* for every popped worklist entry: (progress at loop entry, progress after each hp round, outcome) *)
Fixpoint hp_traces (n : nat) (s : egraph) : list (option (N * N * N * N) * list (option (N * N * N * N)) * nat) :=
  match n with
  | O => []
  | S n' =>
      match pending s with
      | [] => []
      | (sh, ty) :: rest =>
          let s0 := set_pending s rest in
          let here := if negb ty then (pg s0, [], 0%nat) else
                      match hp_args sh s0 with
                      | Ok ((src, en, i1), s1) => let '(l, b) := hp_trace 200 src en i1 s1 in (pg s1, l, b)
                      | Err _ => (pg s0, [], 2%nat)
                      end in
          match handle_pending sh ty s0 with
          | Ok (_, s2) => here :: hp_traces n' s2
          | Err _ => [here]
          end
      end
  end.
Definition hp_sum (st : res (bool * egraph)) :=
  match st with
  | Ok (_, s) =>
      let l := hp_traces 200 s in
      (* (entries, max rounds, all ended, claim c (slots or live), claim c' (slots alone)) *)
      Some (List.length l, fold_left (fun acc t => Nat.max acc (List.length (snd (fst t)))) l 0%nat,
            forallb (fun t => Nat.eqb (snd t) 0) l,
            forallb (fun t => chain dec_c (fst (fst t)) (snd (fst t))) l,
            forallb (fun t => chain dec_slots (fst (fst t)) (snd (fst t))) l)
  | Err _ => None
  end.
Definition hp_show (st : res (bool * egraph)) :=
  match st with Ok (_, s) => Some (filter (fun t => negb (Nat.eqb (List.length (snd (fst t))) 0)) (hp_traces 200 s)) | Err _ => None end.

(* a history: terms, ops before the last union, the last union (i, j) *)
Definition st_of (ts : list rterm) (ops : list hop) (i j : nat) : res (bool * egraph) :=
  pre_union i j (run_ops ts ops [] empty_egraph).
Definition addall (ts : list rterm) : list hop := map HAdd (seq 0 (List.length ts)).

(* search harness: run the whole history on the parametric model with all three fuels = k; 1 = OutOfFuel, 0 = Ok, 2 = other *)
Definition oof (k : nat) (ts : list rterm) (ops : list hop) : nat :=
  match run_ops_f (fuel1 k) ts ops [] empty_egraph with
  | Ok _ => 0%nat | Err OutOfFuel => 1%nat | Err _ => 2%nat end.


(* ---------------------------------------------------------------- *)
(* 3. exhaustive search over sequences of unions on a pool of terms *)
Definition sfuel : fuels := {| f_ui := 40; f_hp := 40; f_rb := 300 |}.
Definition un_f (hs : list appid) (p : nat * nat) (s : egraph) : res egraph :=
  match nth_opt hs (fst p), nth_opt hs (snd p) with
  | Some a, Some b => match eg_union_f sfuel a b s with Ok (_, s') => Ok s' | Err e => Err e end
  | _, _ => Err OutOfBounds
  end.
Definition pairs (n : nat) : list (nat * nat) :=
  flat_map (fun i => map (fun j => (i, j)) (seq (S i) (n - S i))) (seq 0 n).
(* all sequences of two unions; returns the sequences that end in an error, with 1 = OutOfFuel, 2 = other *)
Definition code (e : site) : nat := match e with OutOfFuel => 1%nat | _ => 2%nat end.
Definition search2 (ts : list rterm) : option (nat * list (list (nat * nat) * nat)) :=
  match run_ops_f sfuel ts (addall ts) [] empty_egraph with
  | Err _ => None
  | Ok (hs, s0) =>
      let ps := pairs (List.length ts) in
      Some (List.length ps * List.length ps,
      flat_map (fun p1 =>
        match un_f hs p1 s0 with
        | Err e => [([p1], code e)]
        | Ok s1 => flat_map (fun p2 => match un_f hs p2 s1 with Err e => [([p1; p2], code e)] | Ok _ => [] end) ps
        end) ps)%nat
  end.
Definition search3 (ts : list rterm) (third : list (nat * nat)) : option (nat * list (list (nat * nat) * nat)) :=
  match run_ops_f sfuel ts (addall ts) [] empty_egraph with
  | Err _ => None
  | Ok (hs, s0) =>
      let ps := pairs (List.length ts) in
      Some (List.length ps * List.length ps * List.length third,
      flat_map (fun p1 =>
        match un_f hs p1 s0 with
        | Err e => [([p1], code e)]
        | Ok s1 => flat_map (fun p2 => match un_f hs p2 s1 with Err e => [([p1; p2], code e)]
           | Ok s2 => flat_map (fun p3 => match un_f hs p3 s2 with Err e => [([p1; p2; p3], code e)] | Ok _ => [] end) third end) ps
        end) ps)%nat
  end.

(* the same with re-adds: add all; union p1; add all again; union p2 (over all handles of the first round); add all again; union p3 in `third` *)
Definition readd (ts : list rterm) (s : egraph) : res egraph :=
  match run_ops_f sfuel ts (addall ts) [] s with Ok (_, s') => Ok s' | Err e => Err e end.
Definition searchR (ts : list rterm) (first third : list (nat * nat)) : option (nat * list (list (nat * nat) * nat)) :=
  match run_ops_f sfuel ts (addall ts) [] empty_egraph with
  | Err _ => None
  | Ok (hs, s0) =>
      let ps := pairs (List.length ts) in
      Some (List.length first * List.length ps * (1 + List.length third),
      flat_map (fun p1 =>
        match (do s <- un_f hs p1 s0; readd ts s) with
        | Err e => [([p1], code e)]
        | Ok s1 => flat_map (fun p2 => match (do s <- un_f hs p2 s1; readd ts s) with Err e => [([p1; p2], code e)]
           | Ok s2 => flat_map (fun p3 => match (do s <- un_f hs p3 s2; readd ts s) with Err e => [([p1; p2; p3], code e)] | Ok _ => [] end) third end) ps
        end) first)%nat
  end.

Definition pool1 : list rterm :=
  [xs2 5 2 6; xs2 5 6 2; xc0 6; xun 7 (xs2 5 2 6); xun 7 (xs2 5 6 2); xbin 4 (xs2 5 2 6) (xs2 5 6 2);
   xbin 4 (xs2 5 2 6) (xs2 5 6 10); xlam 2 (xs2 5 2 6); xs2 5 2 2; xs1 8 2; xun 7 (xun 7 (xs2 5 2 6)); xs2 5 6 10].
Example pool1_static : statics pool1 = true. Proof. vm_compute. reflexivity. Qed.


(* ---------------------------------------------------------------- *)
(* 4. walking a whole history: at every HUnion, the summaries of the rebuild that follows its uint *)
Fixpoint walk {A} (f : res (bool * egraph) -> A) (ts : list rterm) (ops : list hop) (hs : list appid) (s : egraph) : list (option A) :=
  match ops with
  | [] => []
  | HAdd k :: t =>
      match nth_opt ts k with
      | None => [None]
      | Some tm => match add_expr tm s with Ok (a, s') => walk f ts t (hs ++ [a]) s' | Err _ => [None] end
      end
  | HUnion i j _ :: t =>
      match nth_opt hs i, nth_opt hs j with
      | Some a, Some b =>
          Some (f (pre_union i j (Ok (hs, s)))) ::
          match eg_union a b s with Ok (_, s') => walk f ts t hs s' | Err _ => [None] end
      | _, _ => [None]
      end
  end.
Definition walk0 {A} (f : res (bool * egraph) -> A) (h : list rterm * list hop) := walk f (fst h) (snd h) [] empty_egraph.

(* NEW families *)
Fixpoint nest (v : nat) (d : nat) (t : rterm) : rterm := match d with O => t | S d' => xun v (nest v d' t) end.
(* deep congruence cascade: f^d(g(s1..sk)), f^d(c); union g(..) = c *)
Definition casc_terms d k := [xsk 5 (sl_k k); xc0 6; nest 7 d (xsk 5 (sl_k k)); nest 7 d (xc0 6)].
(* the same where the right side keeps all but one slot *)
Definition casc2_terms d k := [xsk 5 (sl_k k); xsk 6 (tl (sl_k k)); nest 7 d (xsk 5 (sl_k k)); nest 7 d (xsk 6 (tl (sl_k k)))].
(* self-loop class with the full symmetric group *)
Definition cycsym_terms k := [xsk 5 (sl_k k); xsk 5 (swap01 (sl_k k)); xsk 5 (rot (sl_k k)); xun 7 (xsk 5 (tl (sl_k k) ++ [4002%N]))].
Definition cycsym_ops := [HAdd 0; HAdd 1; HAdd 2; HAdd 3; xU 0 1; xU 0 2; xU 0 3].
(* self-loop with only the transposition of the first two slots *)
Definition cycswap_ops := [HAdd 0; HAdd 1; HAdd 2; HAdd 3; xU 0 1; xU 0 3].
(* self-loop through two children: g(x1..xk) = b(g(x2..xk,q), g(x3..xk,q,r)) *)
Definition cyc2_terms k := [xsk 5 (sl_k k); xbin 4 (xsk 5 (tl (sl_k k) ++ [4002%N])) (xsk 5 (tl (tl (sl_k k)) ++ [4002; 4006]%N))].
(* self-loop through a binder: g(x1..xk) = lam x1. g(x2..xk,x1) *)
Definition cycb_terms k := [xsk 5 (sl_k k); xlam 2 (xsk 5 (rot (sl_k k)))].
(* self-loop + parents (fan-in on the cyclic class) *)
Definition cycfan_terms k n := cyc_terms k ++ map (fun i => xun (10 + i) (xsk 5 (sl_k k))) (seq 0 n).
(* wide fan-in with redundant slots, unary and binary parents (the binary ones use the class twice with different maps) *)
Definition fan2_terms (n : nat) : list rterm :=
  [xs2 5 2 6; xs1 6 2] ++ map (fun i => xun (10 + i) (xs2 5 2 6)) (seq 0 n) ++ map (fun i => xbin (100 + i) (xs2 5 2 6) (xs2 5 6 2)) (seq 0 n)
  ++ map (fun i => xlam 6 (xun (10 + i) (xs2 5 2 6))) (seq 0 n).
(* symmetric class (S_k) with n parents and a grand-parent, then one slot is lost (so the whole orbit is lost) *)
Definition symfan_terms k n := ui_terms k ++ map (fun i => xun (10 + i) (xsk 5 (sl_k k))) (seq 0 n) ++ [xun 9 (xun 10 (xsk 5 (sl_k k)))].
Definition symfan_ops k n := addall (symfan_terms k n) ++ [xU 0 1; xU 0 2; xU 0 3].
(* swap-symmetric class with parents f(C(x,y)), b(C(x,y),C(y,z)); then C loses y *)
Definition symloss_terms := [xs2 5 2 6; xs2 5 6 2; xs1 6 2; xun 7 (xs2 5 2 6); xbin 4 (xs2 5 2 6) (xs2 5 6 10); xlam 2 (xs2 5 2 6); xun 7 (xbin 4 (xs2 5 2 6) (xs2 5 6 10))].
Definition symloss_ops := addall symloss_terms ++ [xU 0 1; xU 0 2].

(* staircase: p(f(a), f(f(a)), ..., f^d(a)) with a = g(s1..sk); union a = c: level i shrinks in round ~i and re-queues p each time *)
Definition stair_terms d k :=
  let a := xsk 5 (sl_k k) in
  [a; xc0 6; RT {| nvar := 9; nargs := repeat xph d |} (map (fun i => nest 7 (S i) a) (seq 0 d))].
(* two staircases on top of each other: q(p, f(p), .., f^e(p)) *)
Definition stair2_terms d e k :=
  let a := xsk 5 (sl_k k) in
  let p := RT {| nvar := 9; nargs := repeat xph d |} (map (fun i => nest 7 (S i) a) (seq 0 d)) in
  [a; xc0 6; RT {| nvar := 11; nargs := repeat xph e |} (map (fun i => nest 8 i p) (seq 0 e))].
Definition fam_hists : list (list rterm * list hop) :=
  [(casc_terms 3 2, addall (casc_terms 3 2) ++ [xU 0 1]);
   (casc_terms 6 3, addall (casc_terms 6 3) ++ [xU 0 1]);
   (casc2_terms 4 3, addall (casc2_terms 4 3) ++ [xU 0 1]);
   (cycsym_terms 3, cycsym_ops); (cycsym_terms 4, cycsym_ops); (cycsym_terms 5, cycsym_ops);
   (cycsym_terms 4, cycswap_ops); (cycsym_terms 6, cycswap_ops);
   (cyc2_terms 4, [HAdd 0; HAdd 1; xU 0 1]); (cyc2_terms 7, [HAdd 0; HAdd 1; xU 0 1]);
   (cycb_terms 3, [HAdd 0; HAdd 1; xU 0 1]); (cycb_terms 6, [HAdd 0; HAdd 1; xU 0 1]);
   (cycfan_terms 4 3, addall (cycfan_terms 4 3) ++ [xU 0 1]);
   (fan2_terms 3, addall (fan2_terms 3) ++ [xU 0 1]); (fan2_terms 8, addall (fan2_terms 8) ++ [xU 0 1]);
   (symfan_terms 3 2, symfan_ops 3 2); (symfan_terms 4 3, symfan_ops 4 3);
   (symloss_terms, symloss_ops);
   (ui_terms 4, addall (ui_terms 4) ++ [xU 0 1; xU 0 2; xU 0 3]); (ui_terms 5, addall (ui_terms 5) ++ [xU 0 1; xU 0 2; xU 0 3])].
Example fam_static : forallb (fun h => statics (fst h)) fam_hists = true. Proof. vm_compute. reflexivity. Qed.



Definition stair_hists := map (fun d => (stair_terms d 1, [HAdd 0; HAdd 1; HAdd 2; xU 0 1])) [2; 4; 8; 12]%nat
  ++ map (fun d => (stair2_terms d d 1, [HAdd 0; HAdd 1; HAdd 2; xU 0 1])) [2; 3; 4; 6]%nat.


(* 3 slots, self-loops, binders *)
Definition pool2 : list rterm :=
  [xs3 5 2 6 10; xs3 5 6 2 10; xs3 5 6 10 2; xun 7 (xs3 5 6 10 14); xun 7 (xs3 5 2 6 10); xc0 6;
   xbin 4 (xs3 5 2 6 10) (xs3 5 10 6 2); xlam 2 (xs3 5 6 10 2); xlam 2 (xs3 5 2 6 10); xs1 8 2; xs3 5 6 10 14].
Example pool2_static : statics pool2 = true. Proof. vm_compute. reflexivity. Qed.

(* shadowing binders, the same child twice, nested binders *)
Definition xsh (a b : rterm) : rterm := RT {| nvar := 12; nargs := [ABind 2 xph; xph] |} [a; b].
Definition pool3 : list rterm :=
  [xs2 5 2 6; xs2 5 6 2; xs1 8 2; xsh (xs2 5 2 6) (xs1 8 2); xsh (xs2 5 6 2) (xs2 5 2 6); xbin 4 (xs2 5 2 6) (xs2 5 2 6);
   xbin 4 (xs2 5 2 6) (xs2 5 6 2); xun 7 (xbin 4 (xs2 5 2 6) (xs2 5 6 2)); xlam 2 (xlam 6 (xs2 5 2 6)); xlam 6 (xbin 4 (xs2 5 2 6) (xs2 5 6 10));
   xun 7 (xs2 5 6 10); xc0 6].
Example pool3_static : statics pool3 = true. Proof. vm_compute. reflexivity. Qed.
(* three unions on pool1 / pool2, the first restricted *)

(* partial orbits: g(x,y,z) with the transposition (x y) only, two-slot targets t(..) *)
Definition pool4 : list rterm :=
  [xs3 5 2 6 10; xs3 5 6 2 10; xs2 9 6 10; xs2 9 2 6; xun 7 (xs3 5 2 6 10); xbin 4 (xs3 5 2 6 10) (xs3 5 10 6 2); xun 7 (xs3 5 6 10 14);
   xlam 2 (xs3 5 2 6 10); xun 7 (xun 7 (xs3 5 2 6 10)); xbin 4 (xs3 5 2 6 10) (xs2 9 6 10); xc0 6].
Example pool4_static : statics pool4 = true. Proof. vm_compute. reflexivity. Qed.

(* claims (a), (b), (c) on EVERY second union of the search space: add all; union p1; add all; then the rebuild after uint p2.
   Result: (states checked, max rebuild rounds, max hp_loop rounds, violating pairs) *)
Definition ok_k (st : res (bool * egraph)) : bool * nat :=
  match st with
  | Ok (_, s) =>
      let '(l, b) := rb_trace_g false 400 s in
      let p0 := List.length (pending s) in let h0 := List.length (hashcons s) in
      (b && Nat.eqb (cnt 4 l) 0 && forallb claim_a_eq l && Nat.leb (List.length l) (p0 + h0 * (cnt 1 l + cnt 2 l + cnt 3 l)), List.length l)
  | Err _ => (false, 0%nat)
  end.
Definition ok_c (st : res (bool * egraph)) : bool * nat :=
  match st with
  | Ok (_, s) =>
      let l := hp_traces 200 s in
      (forallb (fun t => Nat.eqb (snd t) 0) l && forallb (fun t => chain dec_slots (fst (fst t)) (snd (fst t))) l,
       fold_left (fun acc t => Nat.max acc (List.length (snd (fst t)))) l 0%nat)
  | Err _ => (false, 0%nat)
  end.
Definition checkC (ts : list rterm) : option (nat * nat * nat * list (list (nat * nat))) :=
  match run_ops_f sfuel ts (addall ts) [] empty_egraph with
  | Err _ => None
  | Ok (hs, s0) =>
      let ps := pairs (List.length ts) in
      let one (hs : list appid) (s : egraph) (p : nat * nat) :=
        let st := pre_union (fst p) (snd p) (Ok (hs, s)) in
        let '(b1, r1) := ok_k st in let '(b2, r2) := ok_c st in (b1 && b2, r1, r2) in
      let res := flat_map (fun p1 =>
        let '(b, r1, r2) := one hs s0 p1 in
        (b, r1, r2, [p1]) ::
        match (do s <- un_f hs p1 s0; readd ts s) with
        | Err e => [(false, 0%nat, 0%nat, [p1])]
        | Ok s1 => map (fun p2 => let '(b, r1, r2) := one hs s1 p2 in (b, r1, r2, [p1; p2])) ps
        end) ps in
      Some (List.length res, fold_left (fun acc x => Nat.max acc (snd (fst (fst x)))) res 0%nat,
            fold_left (fun acc x => Nat.max acc (snd (fst x))) res 0%nat,
            map snd (filter (fun x => negb (fst (fst (fst x)))) res))%nat
  end.

Definition old_states : list (res (bool * egraph)) :=
  [st_fan1 0; st_fan1 3; st_fan1 10; st_fan1 20; st_fan 3 4; st_fan 10 11; st_hp 1; st_hp 3; st_hp 5; st_cyc 2; st_cyc 4; st_cyc 8; st_cyc 12].
Definition all_hists := fam_hists ++ stair_hists ++ cong_hists.
Definition flat_ok (f : res (bool * egraph) -> bool * nat) (hs : list (list rterm * list hop)) : bool :=
  forallb (fun h => forallb (fun o => match o with Some (true, _) => true | _ => false end) (walk0 f h)) hs.
(* hp_loop on the self-loop family with different fuels: (rounds, outcome) *)
Definition cyc_hp_rounds (k f : nat) : option (nat * nat) :=
  match pre_union 0 1 (adds (cyc_terms k)) with
  | Ok (_, s) =>
      match pending s with
      | (sh, _) :: rest =>
          match hp_args sh (set_pending s rest) with
          | Ok ((src, en, i1), s1) => let '(l, b) := hp_trace f src en i1 s1 in Some (List.length l, b)
          | Err _ => None
          end
      | [] => None
      end
  | Err _ => None
  end.
Definition last_of {A} (l : list A) : option A := match rev l with x :: _ => Some x | [] => None end.

(* ================================================================ *)
(* DATA (all values computed by vm_compute) *)

(* 0.002 s *)
Example all_static :
  forallb (fun h => statics (fst h)) all_hists =
  true.
Proof. vm_compute. reflexivity. Qed.

(* 0.274 s *)
Example old_bsum :
  map bsum old_states =
  [Some
  (true, 1%nat, 1%nat, 2%nat, Some (2, 1, 0, 1),
  Some (2, 1, 0, 1), 0%nat, 0%nat, 1%nat);
  Some
  (true, 4%nat, 4%nat, 5%nat, Some (5, 4, 3, 4),
  Some (5, 4, 0, 4), 3%nat, 0%nat, 4%nat);
  Some
  (true, 11%nat, 11%nat, 12%nat, Some (12, 11, 10, 11),
  Some (12, 11, 0, 11), 10%nat, 0%nat, 11%nat);
  Some
  (true, 21%nat, 21%nat, 22%nat, Some (22, 21, 20, 21),
  Some (22, 21, 0, 21), 20%nat, 0%nat, 21%nat);
  Some
  (true, 4%nat, 4%nat, 9%nat, Some (9, 8, 0, 8),
  Some (9, 8, 0, 8), 0%nat, 0%nat, 4%nat);
  Some
  (true, 11%nat, 11%nat, 23%nat, Some (23, 22, 0, 22),
  Some (23, 22, 0, 22), 0%nat, 0%nat, 11%nat);
  Some
  (true, 3%nat, 2%nat, 4%nat, Some (4, 3, 2, 3),
  Some (4, 3, 0, 3), 2%nat, 1%nat, 2%nat);
  Some
  (true, 3%nat, 2%nat, 4%nat, Some (4, 3, 6, 3),
  Some (4, 3, 0, 3), 2%nat, 1%nat, 2%nat);
  Some
  (true, 3%nat, 2%nat, 4%nat, Some (4, 3, 10, 3),
  Some (4, 3, 0, 3), 2%nat, 1%nat, 2%nat);
  Some
  (true, 1%nat, 1%nat, 2%nat, Some (2, 1, 1, 1),
  Some (2, 1, 0, 1), 1%nat, 0%nat, 1%nat);
  Some
  (true, 1%nat, 1%nat, 2%nat, Some (2, 1, 3, 1),
  Some (2, 1, 0, 1), 1%nat, 0%nat, 1%nat);
  Some
  (true, 1%nat, 1%nat, 2%nat, Some (2, 1, 7, 1),
  Some (2, 1, 0, 1), 1%nat, 0%nat, 1%nat);
  Some
  (true, 1%nat, 1%nat, 2%nat, Some (2, 1, 11, 1),
  Some (2, 1, 0, 1), 1%nat, 0%nat, 1%nat)].
Proof. vm_compute. reflexivity. Qed.

(* 0.152 s *)
Example old_ksum :
  map ksum old_states =
  [Some
  (true, 1%nat, 1%nat, 2%nat, [1%nat; 0%nat; 0%nat; 0%nat; 0%nat],
  true, true);
  Some
  (true, 4%nat, 4%nat, 5%nat, [1%nat; 0%nat; 3%nat; 0%nat; 0%nat],
  true, true);
  Some
  (true, 11%nat, 11%nat, 12%nat,
  [1%nat; 0%nat; 10%nat; 0%nat; 0%nat], true, true);
  Some
  (true, 21%nat, 21%nat, 22%nat,
  [1%nat; 0%nat; 20%nat; 0%nat; 0%nat], true, true);
  Some
  (true, 4%nat, 4%nat, 9%nat, [4%nat; 0%nat; 0%nat; 0%nat; 0%nat],
  true, true);
  Some
  (true, 11%nat, 11%nat, 23%nat,
  [11%nat; 0%nat; 0%nat; 0%nat; 0%nat], true, true);
  Some
  (true, 3%nat, 2%nat, 4%nat, [1%nat; 0%nat; 2%nat; 0%nat; 0%nat],
  true, true);
  Some
  (true, 3%nat, 2%nat, 4%nat, [1%nat; 0%nat; 2%nat; 0%nat; 0%nat],
  true, true);
  Some
  (true, 3%nat, 2%nat, 4%nat, [1%nat; 0%nat; 2%nat; 0%nat; 0%nat],
  true, true);
  Some
  (true, 1%nat, 1%nat, 2%nat, [0%nat; 0%nat; 1%nat; 0%nat; 0%nat],
  true, true);
  Some
  (true, 1%nat, 1%nat, 2%nat, [0%nat; 0%nat; 1%nat; 0%nat; 0%nat],
  true, true);
  Some
  (true, 1%nat, 1%nat, 2%nat, [0%nat; 0%nat; 1%nat; 0%nat; 0%nat],
  true, true);
  Some
  (true, 1%nat, 1%nat, 2%nat, [0%nat; 0%nat; 1%nat; 0%nat; 0%nat],
  true, true)].
Proof. vm_compute. reflexivity. Qed.

(* 0.066 s *)
Example old_hp :
  map hp_sum old_states =
  [Some (1%nat, 0%nat, true, true, true);
  Some (4%nat, 1%nat, true, true, true);
  Some (11%nat, 1%nat, true, true, true);
  Some (21%nat, 1%nat, true, true, true);
  Some (4%nat, 0%nat, true, true, true);
  Some (11%nat, 0%nat, true, true, true);
  Some (3%nat, 1%nat, true, true, true);
  Some (3%nat, 1%nat, true, true, true);
  Some (3%nat, 1%nat, true, true, true);
  Some (1%nat, 1%nat, true, true, true);
  Some (1%nat, 3%nat, true, true, true);
  Some (1%nat, 7%nat, true, true, true);
  Some (1%nat, 11%nat, true, true, true)].
Proof. vm_compute. reflexivity. Qed.

(* 0.664 s *)
Example fam_bsum :
  map (walk0 bsum) (fam_hists ++ stair_hists) =
  [[Some
  (Some
  (true, 4%nat, 2%nat, 8%nat, Some (8, 7, 6, 7),
  Some (8, 4, 0, 4), 3%nat, 1%nat, 2%nat))];
  [Some
  (Some
  (true, 7%nat, 2%nat, 14%nat, Some (14, 13, 18, 13),
  Some (14, 7, 0, 7), 6%nat, 1%nat, 2%nat))];
  [Some
  (Some
  (true, 5%nat, 2%nat, 10%nat, Some (10, 9, 22, 9),
  Some (10, 5, 10, 5), 4%nat, 1%nat, 2%nat))];
  [Some
  (Some
  (true, 1%nat, 1%nat, 2%nat, Some (2, 2, 6, 3),
  Some (2, 2, 6, 4), 1%nat, 0%nat, 1%nat));
  Some
  (Some
  (true, 1%nat, 1%nat, 2%nat, Some (2, 2, 6, 8),
  Some (2, 2, 6, 12), 1%nat, 0%nat, 1%nat));
  Some
  (Some
  (true, 1%nat, 1%nat, 2%nat, Some (2, 1, 0, 1),
  Some (2, 1, 0, 1), 0%nat, 0%nat, 1%nat))];
  [Some
  (Some
  (true, 1%nat, 1%nat, 2%nat, Some (2, 2, 8, 3),
  Some (2, 2, 8, 4), 1%nat, 0%nat, 1%nat));
  Some
  (Some
  (true, 1%nat, 1%nat, 2%nat, Some (2, 2, 8, 26),
  Some (2, 2, 8, 48), 1%nat, 0%nat, 1%nat));
  Some
  (Some
  (true, 1%nat, 1%nat, 2%nat, Some (2, 1, 0, 1),
  Some (2, 1, 0, 1), 0%nat, 0%nat, 1%nat))];
  [Some
  (Some
  (true, 1%nat, 1%nat, 2%nat, Some (2, 2, 10, 3),
  Some (2, 2, 10, 4), 1%nat, 0%nat, 1%nat));
  Some
  (Some
  (true, 1%nat, 1%nat, 2%nat, Some (2, 2, 10, 122),
  Some (2, 2, 10, 240), 1%nat, 0%nat, 1%nat));
  Some
  (Some
  (true, 1%nat, 1%nat, 2%nat, Some (2, 1, 0, 1),
  Some (2, 1, 0, 1), 0%nat, 0%nat, 1%nat))];
  [Some
  (Some
  (true, 1%nat, 1%nat, 2%nat, Some (2, 2, 8, 3),
  Some (2, 2, 8, 4), 1%nat, 0%nat, 1%nat));
  Some
  (Some
  (true, 1%nat, 1%nat, 2%nat, Some (2, 1, 1, 1),
  Some (2, 1, 0, 1), 1%nat, 0%nat, 1%nat))];
  [Some
  (Some
  (true, 1%nat, 1%nat, 2%nat, Some (2, 2, 12, 3),
  Some (2, 2, 12, 4), 1%nat, 0%nat, 1%nat));
  Some
  (Some
  (true, 1%nat, 1%nat, 2%nat, Some (2, 1, 3, 1),
  Some (2, 1, 0, 1), 1%nat, 0%nat, 1%nat))];
  [Some
  (Some
  (true, 1%nat, 1%nat, 2%nat, Some (2, 1, 3, 1),
  Some (2, 1, 0, 1), 1%nat, 0%nat, 1%nat))];
  [Some
  (Some
  (true, 1%nat, 1%nat, 2%nat, Some (2, 1, 6, 1),
  Some (2, 1, 0, 1), 1%nat, 0%nat, 1%nat))];
  [Some
  (Some
  (true, 2%nat, 2%nat, 2%nat, Some (2, 1, 2, 1),
  Some (2, 1, 0, 1), 1%nat, 0%nat, 2%nat))];
  [Some
  (Some
  (true, 2%nat, 2%nat, 2%nat, Some (2, 1, 5, 1),
  Some (2, 1, 0, 1), 1%nat, 0%nat, 2%nat))];
  [Some
  (Some
  (true, 4%nat, 4%nat, 5%nat, Some (5, 4, 15, 4),
  Some (5, 4, 0, 4), 4%nat, 0%nat, 4%nat))];
  [Some
  (Some
  (true, 10%nat, 7%nat, 11%nat, Some (11, 10, 16, 10),
  Some (11, 10, 13, 10), 3%nat, 1%nat, 7%nat))];
  [Some
  (Some
  (true, 25%nat, 17%nat, 26%nat, Some (26, 25, 41, 25),
  Some (26, 25, 33, 25), 8%nat, 1%nat, 17%nat))];
  [Some
  (Some
  (true, 3%nat, 2%nat, 5%nat, Some (5, 5, 14, 6),
  Some (5, 5, 14, 9), 3%nat, 1%nat, 2%nat));
  Some
  (Some
  (true, 3%nat, 2%nat, 5%nat, Some (5, 5, 14, 13),
  Some (5, 5, 14, 25), 3%nat, 1%nat, 2%nat));
  Some
  (Some
  (true, 4%nat, 3%nat, 5%nat, Some (5, 4, 9, 19),
  Some (5, 4, 0, 4), 3%nat, 1%nat, 3%nat))];
  [Some
  (Some
  (true, 4%nat, 3%nat, 6%nat, Some (6, 6, 23, 7),
  Some (6, 6, 23, 11), 4%nat, 1%nat, 3%nat));
  Some
  (Some
  (true, 4%nat, 3%nat, 6%nat, Some (6, 6, 23, 33),
  Some (6, 6, 23, 121), 4%nat, 1%nat, 3%nat));
  Some
  (Some
  (true, 5%nat, 4%nat, 6%nat, Some (6, 5, 16, 97),
  Some (6, 5, 0, 5), 4%nat, 1%nat, 4%nat))];
  [Some
  (Some
  (true, 3%nat, 3%nat, 6%nat, Some (6, 6, 12, 7),
  Some (6, 6, 12, 8), 1%nat, 0%nat, 3%nat));
  Some
  (Some
  (true, 5%nat, 4%nat, 6%nat, Some (6, 5, 9, 6),
  Some (6, 5, 0, 5), 4%nat, 1%nat, 4%nat))];
  [Some
  (Some
  (true, 0%nat, 0%nat, 2%nat, Some (2, 2, 7, 3),
  Some (2, 2, 7, 3), 0%nat, 0%nat, 0%nat));
  Some
  (Some
  (true, 0%nat, 0%nat, 2%nat, Some (2, 2, 7, 25),
  Some (2, 2, 7, 25), 0%nat, 0%nat, 0%nat));
  Some
  (Some
  (true, 1%nat, 1%nat, 2%nat, Some (2, 1, 0, 1),
  Some (2, 1, 0, 1), 0%nat, 0%nat, 1%nat))];
  [Some
  (Some
  (true, 0%nat, 0%nat, 2%nat, Some (2, 2, 9, 3),
  Some (2, 2, 9, 3), 0%nat, 0%nat, 0%nat));
  Some
  (Some
  (true, 0%nat, 0%nat, 2%nat, Some (2, 2, 9, 121),
  Some (2, 2, 9, 121), 0%nat, 0%nat, 0%nat));
  Some
  (Some
  (true, 1%nat, 1%nat, 2%nat, Some (2, 1, 0, 1),
  Some (2, 1, 0, 1), 0%nat, 0%nat, 1%nat))];
  [Some
  (Some
  (true, 4%nat, 2%nat, 5%nat, Some (5, 4, 3, 4),
  Some (5, 4, 0, 4), 3%nat, 2%nat, 3%nat))];
  [Some
  (Some
  (true, 7%nat, 2%nat, 7%nat, Some (7, 6, 5, 6),
  Some (7, 6, 0, 6), 5%nat, 2%nat, 3%nat))];
  [Some
  (Some
  (true, 13%nat, 2%nat, 11%nat, Some (11, 10, 9, 10),
  Some (11, 10, 0, 10), 9%nat, 2%nat, 3%nat))];
  [Some
  (Some
  (true, 19%nat, 2%nat, 15%nat, Some (15, 14, 13, 14),
  Some (15, 14, 0, 14), 13%nat, 2%nat, 3%nat))];
  [Some
  (Some
  (true, 6%nat, 2%nat, 7%nat, Some (7, 6, 5, 6),
  Some (7, 6, 0, 6), 5%nat, 2%nat, 3%nat))];
  [Some
  (Some
  (true, 10%nat, 2%nat, 9%nat, Some (9, 8, 7, 8),
  Some (9, 8, 0, 8), 7%nat, 2%nat, 3%nat))];
  [Some
  (Some
  (true, 12%nat, 2%nat, 11%nat, Some (11, 10, 9, 10),
  Some (11, 10, 0, 10), 9%nat, 2%nat, 3%nat))];
  [Some
  (Some
  (true, 18%nat, 2%nat, 15%nat, Some (15, 14, 13, 14),
  Some (15, 14, 0, 14), 13%nat, 2%nat, 3%nat))]].
Proof. vm_compute. reflexivity. Qed.

(* 0.282 s *)
Example cong_bsum :
  map (walk0 bsum) cong_hists =
  [[Some
  (Some
  (true, 3%nat, 3%nat, 4%nat, Some (4, 4, 10, 5),
  Some (4, 3, 7, 5), 2%nat, 0%nat, 3%nat));
  Some
  (Some
  (true, 0%nat, 0%nat, 3%nat, Some (4, 3, 7, 5),
  Some (4, 3, 7, 5), 0%nat, 0%nat, 0%nat));
  Some
  (Some
  (true, 0%nat, 0%nat, 3%nat, Some (4, 3, 7, 5),
  Some (4, 3, 7, 5), 0%nat, 0%nat, 0%nat))];
  [Some
  (Some
  (true, 4%nat, 4%nat, 5%nat, Some (5, 5, 7, 5),
  Some (5, 5, 5, 5), 2%nat, 0%nat, 4%nat))];
  [Some
  (Some
  (true, 3%nat, 2%nat, 3%nat, Some (3, 2, 0, 2),
  Some (3, 1, 0, 1), 1%nat, 1%nat, 2%nat));
  Some
  (Some
  (true, 4%nat, 3%nat, 6%nat, Some (7, 4, 4, 4),
  Some (7, 2, 0, 2), 3%nat, 1%nat, 3%nat))];
  [Some
  (Some
  (true, 3%nat, 2%nat, 9%nat, Some (9, 9, 12, 10),
  Some (9, 7, 11, 8), 2%nat, 1%nat, 2%nat));
  Some
  (Some
  (true, 2%nat, 1%nat, 7%nat, Some (9, 7, 9, 7),
  Some (9, 7, 8, 7), 1%nat, 1%nat, 1%nat));
  Some
  (Some
  (true, 0%nat, 0%nat, 7%nat, Some (9, 7, 8, 7),
  Some (9, 7, 8, 7), 0%nat, 0%nat, 0%nat));
  Some
  (Some
  (true, 0%nat, 0%nat, 7%nat, Some (9, 7, 8, 7),
  Some (9, 7, 8, 7), 0%nat, 0%nat, 0%nat))];
  [Some
  (Some
  (true, 2%nat, 2%nat, 4%nat, Some (4, 4, 12, 6),
  Some (4, 4, 12, 10), 2%nat, 0%nat, 2%nat));
  Some
  (Some
  (true, 2%nat, 2%nat, 4%nat, Some (4, 4, 12, 13),
  Some (4, 4, 12, 19), 2%nat, 0%nat, 2%nat));
  Some
  (Some
  (true, 1%nat, 1%nat, 4%nat, Some (4, 3, 9, 13),
  Some (4, 3, 9, 13), 0%nat, 0%nat, 1%nat));
  Some
  (Some
  (true, 1%nat, 1%nat, 4%nat, Some (4, 2, 6, 12),
  Some (4, 2, 6, 12), 0%nat, 0%nat, 1%nat))];
  [Some
  (Some
  (true, 3%nat, 2%nat, 6%nat, Some (6, 5, 0, 5),
  Some (6, 3, 0, 3), 2%nat, 1%nat, 2%nat));
  Some
  (Some
  (true, 4%nat, 4%nat, 12%nat, Some (14, 11, 13, 11),
  Some (14, 11, 12, 11), 1%nat, 0%nat, 4%nat));
  Some
  (Some
  (true, 1%nat, 1%nat, 12%nat, Some (14, 11, 12, 12),
  Some (14, 11, 12, 12), 0%nat, 0%nat, 1%nat));
  Some
  (Some
  (true, 6%nat, 5%nat, 12%nat, Some (14, 10, 9, 10),
  Some (14, 8, 2, 8), 5%nat, 1%nat, 5%nat));
  Some
  (Some
  (true, 4%nat, 4%nat, 10%nat, Some (14, 7, 2, 7),
  Some (14, 7, 2, 7), 0%nat, 0%nat, 4%nat))];
  [Some
  (Some
  (true, 3%nat, 2%nat, 3%nat, Some (3, 2, 0, 2),
  Some (3, 1, 0, 1), 1%nat, 1%nat, 2%nat));
  Some
  (Some
  (true, 4%nat, 3%nat, 6%nat, Some (7, 4, 4, 4),
  Some (7, 3, 3, 3), 1%nat, 1%nat, 3%nat));
  Some
  (Some
  (true, 2%nat, 2%nat, 5%nat, Some (7, 3, 2, 3),
  Some (7, 3, 0, 3), 1%nat, 0%nat, 2%nat))];
  [Some
  (Some
  (true, 3%nat, 3%nat, 7%nat, Some (7, 7, 18, 8),
  Some (7, 5, 12, 6), 2%nat, 0%nat, 3%nat));
  Some
  (Some
  (true, 4%nat, 1%nat, 5%nat, Some (7, 5, 10, 5),
  Some (7, 4, 0, 4), 4%nat, 3%nat, 3%nat));
  Some
  (Some
  (true, 0%nat, 0%nat, 4%nat, Some (7, 4, 0, 4),
  Some (7, 4, 0, 4), 0%nat, 0%nat, 0%nat));
  Some
  (Some
  (true, 0%nat, 0%nat, 4%nat, Some (7, 4, 0, 4),
  Some (7, 4, 0, 4), 0%nat, 0%nat, 0%nat))];
  [Some
  (Some
  (true, 4%nat, 4%nat, 6%nat, Some (6, 6, 19, 8),
  Some (6, 4, 13, 6), 2%nat, 0%nat, 4%nat));
  Some
  (Some
  (true, 3%nat, 2%nat, 4%nat, Some (6, 4, 13, 9),
  Some (6, 4, 13, 12), 3%nat, 1%nat, 2%nat));
  Some
  (Some
  (true, 0%nat, 0%nat, 4%nat, Some (6, 4, 13, 12),
  Some (6, 4, 13, 12), 0%nat, 0%nat, 0%nat));
  Some
  (Some
  (true, 3%nat, 2%nat, 4%nat, Some (6, 4, 10, 7),
  Some (6, 4, 0, 4), 3%nat, 1%nat, 2%nat));
  Some
  (Some
  (true, 0%nat, 0%nat, 4%nat, Some (6, 4, 0, 4),
  Some (6, 4, 0, 4), 0%nat, 0%nat, 0%nat))];
  [Some
  (Some
  (true, 6%nat, 2%nat, 12%nat, Some (12, 11, 10, 11),
  Some (12, 7, 6, 7), 4%nat, 4%nat, 4%nat));
  Some
  (Some
  (true, 6%nat, 1%nat, 8%nat, Some (12, 7, 5, 7),
  Some (12, 7, 0, 7), 4%nat, 3%nat, 3%nat));
  Some
  (Some
  (true, 2%nat, 2%nat, 8%nat, Some (12, 6, 0, 6),
  Some (12, 6, 0, 6), 0%nat, 0%nat, 2%nat))];
  [Some
  (Some
  (true, 5%nat, 4%nat, 5%nat, Some (5, 4, 8, 4),
  Some (5, 2, 4, 2), 2%nat, 1%nat, 4%nat));
  Some
  (Some
  (true, 2%nat, 2%nat, 3%nat, Some (5, 2, 4, 3),
  Some (5, 2, 4, 4), 1%nat, 0%nat, 2%nat));
  Some
  (Some
  (true, 2%nat, 2%nat, 3%nat, Some (5, 2, 2, 3),
  Some (5, 2, 0, 2), 1%nat, 0%nat, 2%nat))];
  [Some
  (Some
  (true, 4%nat, 2%nat, 12%nat, Some (12, 12, 8, 13),
  Some (12, 9, 6, 10), 3%nat, 2%nat, 2%nat));
  Some
  (Some
  (true, 0%nat, 0%nat, 9%nat, Some (12, 9, 6, 10),
  Some (12, 9, 6, 10), 0%nat, 0%nat, 0%nat));
  Some
  (Some
  (true, 3%nat, 3%nat, 9%nat, Some (12, 8, 5, 9),
  Some (12, 6, 4, 7), 2%nat, 0%nat, 3%nat));
  Some
  (Some
  (true, 0%nat, 0%nat, 7%nat, Some (12, 6, 4, 7),
  Some (12, 6, 4, 7), 0%nat, 0%nat, 0%nat));
  Some
  (Some
  (true, 1%nat, 1%nat, 7%nat, Some (12, 5, 4, 6),
  Some (12, 5, 4, 6), 0%nat, 0%nat, 1%nat))];
  [Some
  (Some
  (true, 4%nat, 2%nat, 6%nat, Some (6, 6, 12, 7),
  Some (6, 6, 12, 9), 2%nat, 2%nat, 3%nat));
  Some
  (Some
  (true, 2%nat, 2%nat, 10%nat, Some (10, 10, 24, 15),
  Some (10, 9, 21, 14), 1%nat, 0%nat, 2%nat));
  Some
  (Some
  (true, 1%nat, 1%nat, 9%nat, Some (10, 8, 18, 13),
  Some (10, 8, 18, 13), 0%nat, 0%nat, 1%nat));
  Some
  (Some
  (true, 1%nat, 1%nat, 9%nat, Some (10, 7, 16, 11),
  Some (10, 7, 16, 11), 0%nat, 0%nat, 1%nat));
  Some
  (Some
  (true, 2%nat, 2%nat, 9%nat, Some (10, 6, 13, 10),
  Some (10, 5, 11, 9), 1%nat, 0%nat, 2%nat))]].
Proof. vm_compute. reflexivity. Qed.

(* 0.581 s *)
Example fam_ksum :
  map (walk0 ksum) (fam_hists ++ stair_hists) =
  [[Some
  (Some
  (true, 4%nat, 2%nat, 8%nat,
  [1%nat; 3%nat; 0%nat; 0%nat; 0%nat], true, true))];
  [Some
  (Some
  (true, 7%nat, 2%nat, 14%nat,
  [1%nat; 6%nat; 0%nat; 0%nat; 0%nat], true, true))];
  [Some
  (Some
  (true, 5%nat, 2%nat, 10%nat,
  [1%nat; 4%nat; 0%nat; 0%nat; 0%nat], true, true))];
  [Some
  (Some
  (true, 1%nat, 1%nat, 2%nat,
  [0%nat; 0%nat; 0%nat; 1%nat; 0%nat], true, true));
  Some
  (Some
  (true, 1%nat, 1%nat, 2%nat,
  [0%nat; 0%nat; 0%nat; 1%nat; 0%nat], true, true));
  Some
  (Some
  (true, 1%nat, 1%nat, 2%nat,
  [1%nat; 0%nat; 0%nat; 0%nat; 0%nat], true, true))];
  [Some
  (Some
  (true, 1%nat, 1%nat, 2%nat,
  [0%nat; 0%nat; 0%nat; 1%nat; 0%nat], true, true));
  Some
  (Some
  (true, 1%nat, 1%nat, 2%nat,
  [0%nat; 0%nat; 0%nat; 1%nat; 0%nat], true, true));
  Some
  (Some
  (true, 1%nat, 1%nat, 2%nat,
  [1%nat; 0%nat; 0%nat; 0%nat; 0%nat], true, true))];
  [Some
  (Some
  (true, 1%nat, 1%nat, 2%nat,
  [0%nat; 0%nat; 0%nat; 1%nat; 0%nat], true, true));
  Some
  (Some
  (true, 1%nat, 1%nat, 2%nat,
  [0%nat; 0%nat; 0%nat; 1%nat; 0%nat], true, true));
  Some
  (Some
  (true, 1%nat, 1%nat, 2%nat,
  [1%nat; 0%nat; 0%nat; 0%nat; 0%nat], true, true))];
  [Some
  (Some
  (true, 1%nat, 1%nat, 2%nat,
  [0%nat; 0%nat; 0%nat; 1%nat; 0%nat], true, true));
  Some
  (Some
  (true, 1%nat, 1%nat, 2%nat,
  [0%nat; 0%nat; 1%nat; 0%nat; 0%nat], true, true))];
  [Some
  (Some
  (true, 1%nat, 1%nat, 2%nat,
  [0%nat; 0%nat; 0%nat; 1%nat; 0%nat], true, true));
  Some
  (Some
  (true, 1%nat, 1%nat, 2%nat,
  [0%nat; 0%nat; 1%nat; 0%nat; 0%nat], true, true))];
  [Some
  (Some
  (true, 1%nat, 1%nat, 2%nat,
  [0%nat; 0%nat; 1%nat; 0%nat; 0%nat], true, true))];
  [Some
  (Some
  (true, 1%nat, 1%nat, 2%nat,
  [0%nat; 0%nat; 1%nat; 0%nat; 0%nat], true, true))];
  [Some
  (Some
  (true, 2%nat, 2%nat, 2%nat,
  [1%nat; 0%nat; 1%nat; 0%nat; 0%nat], true, true))];
  [Some
  (Some
  (true, 2%nat, 2%nat, 2%nat,
  [1%nat; 0%nat; 1%nat; 0%nat; 0%nat], true, true))];
  [Some
  (Some
  (true, 4%nat, 4%nat, 5%nat,
  [0%nat; 0%nat; 4%nat; 0%nat; 0%nat], true, true))];
  [Some
  (Some
  (true, 10%nat, 7%nat, 11%nat,
  [7%nat; 0%nat; 3%nat; 0%nat; 0%nat], true, true))];
  [Some
  (Some
  (true, 25%nat, 17%nat, 26%nat,
  [17%nat; 0%nat; 8%nat; 0%nat; 0%nat], true, true))];
  [Some
  (Some
  (true, 3%nat, 2%nat, 5%nat,
  [0%nat; 0%nat; 0%nat; 3%nat; 0%nat], true, true));
  Some
  (Some
  (true, 3%nat, 2%nat, 5%nat,
  [0%nat; 0%nat; 0%nat; 3%nat; 0%nat], true, true));
  Some
  (Some
  (true, 4%nat, 3%nat, 5%nat,
  [1%nat; 0%nat; 3%nat; 0%nat; 0%nat], true, true))];
  [Some
  (Some
  (true, 4%nat, 3%nat, 6%nat,
  [0%nat; 0%nat; 0%nat; 4%nat; 0%nat], true, true));
  Some
  (Some
  (true, 4%nat, 3%nat, 6%nat,
  [0%nat; 0%nat; 0%nat; 4%nat; 0%nat], true, true));
  Some
  (Some
  (true, 5%nat, 4%nat, 6%nat,
  [1%nat; 0%nat; 4%nat; 0%nat; 0%nat], true, true))];
  [Some
  (Some
  (true, 3%nat, 3%nat, 6%nat,
  [2%nat; 0%nat; 0%nat; 1%nat; 0%nat], true, true));
  Some
  (Some
  (true, 5%nat, 4%nat, 6%nat,
  [1%nat; 0%nat; 4%nat; 0%nat; 0%nat], true, true))];
  [Some
  (Some
  (true, 0%nat, 0%nat, 2%nat,
  [0%nat; 0%nat; 0%nat; 0%nat; 0%nat], true, true));
  Some
  (Some
  (true, 0%nat, 0%nat, 2%nat,
  [0%nat; 0%nat; 0%nat; 0%nat; 0%nat], true, true));
  Some
  (Some
  (true, 1%nat, 1%nat, 2%nat,
  [1%nat; 0%nat; 0%nat; 0%nat; 0%nat], true, true))];
  [Some
  (Some
  (true, 0%nat, 0%nat, 2%nat,
  [0%nat; 0%nat; 0%nat; 0%nat; 0%nat], true, true));
  Some
  (Some
  (true, 0%nat, 0%nat, 2%nat,
  [0%nat; 0%nat; 0%nat; 0%nat; 0%nat], true, true));
  Some
  (Some
  (true, 1%nat, 1%nat, 2%nat,
  [1%nat; 0%nat; 0%nat; 0%nat; 0%nat], true, true))];
  [Some
  (Some
  (true, 4%nat, 2%nat, 5%nat,
  [1%nat; 0%nat; 3%nat; 0%nat; 0%nat], true, true))];
  [Some
  (Some
  (true, 7%nat, 2%nat, 7%nat,
  [2%nat; 0%nat; 5%nat; 0%nat; 0%nat], true, true))];
  [Some
  (Some
  (true, 13%nat, 2%nat, 11%nat,
  [4%nat; 0%nat; 9%nat; 0%nat; 0%nat], true, true))];
  [Some
  (Some
  (true, 19%nat, 2%nat, 15%nat,
  [6%nat; 0%nat; 13%nat; 0%nat; 0%nat], true, true))];
  [Some
  (Some
  (true, 6%nat, 2%nat, 7%nat,
  [1%nat; 0%nat; 5%nat; 0%nat; 0%nat], true, true))];
  [Some
  (Some
  (true, 10%nat, 2%nat, 9%nat,
  [3%nat; 0%nat; 7%nat; 0%nat; 0%nat], true, true))];
  [Some
  (Some
  (true, 12%nat, 2%nat, 11%nat,
  [3%nat; 0%nat; 9%nat; 0%nat; 0%nat], true, true))];
  [Some
  (Some
  (true, 18%nat, 2%nat, 15%nat,
  [5%nat; 0%nat; 13%nat; 0%nat; 0%nat], true, true))]].
Proof. vm_compute. reflexivity. Qed.

(* 0.767 s *)
Example all_claims_ab :
  flat_ok ok_k all_hists && forallb (fun st => fst (ok_k st)) old_states =
  true.
Proof. vm_compute. reflexivity. Qed.

(* 0.653 s *)
Example fam_hp :
  map (walk0 hp_sum) (fam_hists ++ stair_hists) =
  [[Some (Some (4%nat, 1%nat, true, true, true))];
  [Some (Some (7%nat, 1%nat, true, true, true))];
  [Some (Some (5%nat, 1%nat, true, true, true))];
  [Some (Some (1%nat, 0%nat, true, true, true));
  Some (Some (1%nat, 0%nat, true, true, true));
  Some (Some (1%nat, 0%nat, true, true, true))];
  [Some (Some (1%nat, 0%nat, true, true, true));
  Some (Some (1%nat, 0%nat, true, true, true));
  Some (Some (1%nat, 0%nat, true, true, true))];
  [Some (Some (1%nat, 0%nat, true, true, true));
  Some (Some (1%nat, 0%nat, true, true, true));
  Some (Some (1%nat, 0%nat, true, true, true))];
  [Some (Some (1%nat, 0%nat, true, true, true));
  Some (Some (1%nat, 1%nat, true, true, true))];
  [Some (Some (1%nat, 0%nat, true, true, true));
  Some (Some (1%nat, 3%nat, true, true, true))];
  [Some (Some (1%nat, 3%nat, true, true, true))];
  [Some (Some (1%nat, 6%nat, true, true, true))];
  [Some (Some (2%nat, 2%nat, true, true, true))];
  [Some (Some (2%nat, 5%nat, true, true, true))];
  [Some (Some (4%nat, 3%nat, true, true, true))];
  [Some (Some (10%nat, 1%nat, true, true, true))];
  [Some (Some (25%nat, 1%nat, true, true, true))];
  [Some (Some (3%nat, 0%nat, true, true, true));
  Some (Some (3%nat, 0%nat, true, true, true));
  Some (Some (4%nat, 1%nat, true, true, true))];
  [Some (Some (4%nat, 0%nat, true, true, true));
  Some (Some (4%nat, 0%nat, true, true, true));
  Some (Some (5%nat, 1%nat, true, true, true))];
  [Some (Some (3%nat, 0%nat, true, true, true));
  Some (Some (5%nat, 1%nat, true, true, true))];
  [Some (Some (0%nat, 0%nat, true, true, true));
  Some (Some (0%nat, 0%nat, true, true, true));
  Some (Some (1%nat, 0%nat, true, true, true))];
  [Some (Some (0%nat, 0%nat, true, true, true));
  Some (Some (0%nat, 0%nat, true, true, true));
  Some (Some (1%nat, 0%nat, true, true, true))];
  [Some (Some (4%nat, 1%nat, true, true, true))];
  [Some (Some (7%nat, 1%nat, true, true, true))];
  [Some (Some (13%nat, 1%nat, true, true, true))];
  [Some (Some (19%nat, 1%nat, true, true, true))];
  [Some (Some (6%nat, 1%nat, true, true, true))];
  [Some (Some (10%nat, 1%nat, true, true, true))];
  [Some (Some (12%nat, 1%nat, true, true, true))];
  [Some (Some (18%nat, 1%nat, true, true, true))]].
Proof. vm_compute. reflexivity. Qed.

(* 0.784 s *)
Example all_claim_c :
  flat_ok ok_c all_hists && forallb (fun st => fst (ok_c st)) old_states =
  true.
Proof. vm_compute. reflexivity. Qed.

(* 0.004 s *)
Example hp_show_cyc4 :
  hp_show (st_cyc 4) =
  Some
  [(Some (2, 1, 3, 1),
  [Some (2, 1, 2, 1); Some (2, 1, 1, 1); Some (2, 1, 0, 1)], 0%nat)].
Proof. vm_compute. reflexivity. Qed.

(* 0.012 s *)
Example hp_show_cyc2 :
  hp_show (st_of (cyc2_terms 7) [HAdd 0; HAdd 1] 0 1) =
  Some
  [(Some (2, 1, 6, 1),
  [Some (2, 1, 5, 1); Some (2, 1, 4, 1);
  Some (2, 1, 3, 1); Some (2, 1, 2, 1);
  Some (2, 1, 1, 1); Some (2, 1, 0, 1)], 0%nat)].
Proof. vm_compute. reflexivity. Qed.

(* 0.005 s *)
Example hp_show_cycb :
  hp_show (st_of (cycb_terms 4) [HAdd 0; HAdd 1] 0 1) =
  Some
  [(Some (2, 1, 3, 1),
  [Some (2, 1, 2, 1); Some (2, 1, 1, 1); Some (2, 1, 0, 1)], 0%nat)].
Proof. vm_compute. reflexivity. Qed.

(* 0.008 s *)
Example hp_show_cycswap :
  hp_show (st_of (cycsym_terms 6) [HAdd 0; HAdd 1; HAdd 2; HAdd 3; xU 0 1] 0 3) =
  Some
  [(Some (2, 1, 3, 1),
  [Some (2, 1, 2, 1); Some (2, 1, 1, 1); Some (2, 1, 0, 1)], 0%nat)].
Proof. vm_compute. reflexivity. Qed.

(* 0.005 s *)
Example hp_show_hp3 :
  hp_show (st_hp 3) =
  Some
  [(Some (4, 3, 6, 3), [Some (4, 3, 3, 3)], 0%nat);
  (Some (4, 3, 3, 3), [Some (4, 3, 0, 3)], 0%nat)].
Proof. vm_compute. reflexivity. Qed.

(* 0.058 s *)
Example hp_show_symfan :
  hp_show (st_of (symfan_terms 4 3) (addall (symfan_terms 4 3) ++ [xU 0 1; xU 0 2]) 0 3) =
  Some
  [(Some (6, 5, 16, 97), [Some (6, 5, 12, 74)], 0%nat);
  (Some (6, 5, 12, 74), [Some (6, 5, 8, 51)], 0%nat);
  (Some (6, 5, 8, 51), [Some (6, 5, 4, 28)], 0%nat);
  (Some (6, 5, 4, 28), [Some (6, 5, 0, 5)], 0%nat)].
Proof. vm_compute. reflexivity. Qed.

(* 0.018 s *)
Example trace_stair4 :
  trace_of (st_of (stair_terms 4 1) [HAdd 0; HAdd 1; HAdd 2] 0 1) =
  Some
  [(Some (7, 6, 5, 6), Some (7, 6, 4, 6), (
  1%nat, 3%nat, 7%nat), Some 1%nat);
  (Some (7, 6, 4, 6), Some (7, 6, 4, 6), (
  2%nat, 2%nat, 7%nat), Some 0%nat);
  (Some (7, 6, 4, 6), Some (7, 6, 3, 6), (
  1%nat, 2%nat, 7%nat), Some 1%nat);
  (Some (7, 6, 3, 6), Some (7, 6, 3, 6), (
  1%nat, 1%nat, 7%nat), Some 0%nat);
  (Some (7, 6, 3, 6), Some (7, 6, 2, 6), (
  0%nat, 2%nat, 7%nat), Some 1%nat);
  (Some (7, 6, 2, 6), Some (7, 6, 1, 6), (
  1%nat, 1%nat, 7%nat), Some 1%nat);
  (Some (7, 6, 1, 6), Some (7, 6, 0, 6), (
  0%nat, 0%nat, 7%nat), Some 1%nat)].
Proof. vm_compute. reflexivity. Qed.

(* 0.035 s *)
Example trace_fan2 :
  trace_of (st_of (fan2_terms 3) (addall (fan2_terms 3)) 0 1) =
  Some
  [(Some (11, 10, 16, 10), Some (11, 10, 15, 10),
  (6%nat, 7%nat, 11%nat), Some 1%nat);
  (Some (11, 10, 15, 10), Some (11, 10, 14, 10),
  (6%nat, 7%nat, 11%nat), Some 1%nat);
  (Some (11, 10, 14, 10), Some (11, 10, 13, 10),
  (6%nat, 7%nat, 11%nat), Some 1%nat);
  (Some (11, 10, 13, 10), Some (11, 10, 13, 10),
  (6%nat, 6%nat, 11%nat), Some 0%nat);
  (Some (11, 10, 13, 10), Some (11, 10, 13, 10),
  (5%nat, 5%nat, 11%nat), Some 0%nat);
  (Some (11, 10, 13, 10), Some (11, 10, 13, 10),
  (4%nat, 4%nat, 11%nat), Some 0%nat);
  (Some (11, 10, 13, 10), Some (11, 10, 13, 10),
  (3%nat, 3%nat, 11%nat), Some 0%nat);
  (Some (11, 10, 13, 10), Some (11, 10, 13, 10),
  (2%nat, 2%nat, 11%nat), Some 0%nat);
  (Some (11, 10, 13, 10), Some (11, 10, 13, 10),
  (1%nat, 1%nat, 11%nat), Some 0%nat);
  (Some (11, 10, 13, 10), Some (11, 10, 13, 10),
  (0%nat, 0%nat, 11%nat), Some 0%nat)].
Proof. vm_compute. reflexivity. Qed.

(* 2.101 s *)
Example cyc_fuel_indep :
  map (cyc_hp_rounds 45) [40; 50; 100; 200]%nat =
  [Some (40%nat, 1%nat); Some (44%nat, 0%nat);
  Some (44%nat, 0%nat); Some (44%nat, 0%nat)].
Proof. vm_compute. reflexivity. Qed.

(* 1.017 s *)
Example harness_sees_fuel :
  (oof 40 (cyc_terms 45) [HAdd 0; HAdd 1; xU 0 1], oof 50 (cyc_terms 45) [HAdd 0; HAdd 1; xU 0 1]) =
  (1%nat, 0%nat).
Proof. vm_compute. reflexivity. Qed.

(* 6.359 s *)
Example search_pool1 :
  searchR pool1 (pairs 12) [] =
  Some (4356%nat, []).
Proof. vm_compute. reflexivity. Qed.

(* 4.378 s *)
Example search_pool2 :
  searchR pool2 (pairs 11) [] =
  Some (3025%nat, []).
Proof. vm_compute. reflexivity. Qed.

(* 8.594 s *)
Example search_pool3 :
  searchR pool3 (pairs 12) [] =
  Some (4356%nat, []).
Proof. vm_compute. reflexivity. Qed.

(* 5.438 s *)
Example search_pool4 :
  searchR pool4 (pairs 11) [] =
  Some (3025%nat, []).
Proof. vm_compute. reflexivity. Qed.

(* 3.797 s *)
Example search3_pool1 :
  searchR pool1 [(0,1); (0,2); (0,8); (0,9); (3,4); (0,11)]%nat [(0,1); (0,2); (0,9); (3,4); (5,6); (0,11); (3,10); (0,7)]%nat =
  Some (3564%nat, []).
Proof. vm_compute. reflexivity. Qed.

(* 4.013 s *)
Example search3_pool2 :
  searchR pool2 [(0,1); (0,2); (0,3); (0,7); (0,9); (0,10)]%nat [(0,1); (0,2); (0,3); (0,4); (0,5); (0,7); (0,9); (0,10); (3,4)]%nat =
  Some (3300%nat, []).
Proof. vm_compute. reflexivity. Qed.

(* 4.906 s *)
Example search3_pool4 :
  searchR pool4 [(0,1); (0,2); (0,3); (0,6); (4,6); (0,7)]%nat [(0,1); (0,2); (0,3); (0,6); (4,6); (0,7); (2,3); (0,4); (5,9)]%nat =
  Some (3300%nat, []).
Proof. vm_compute. reflexivity. Qed.

(* 7.567 s *)
Example check_pool1 :
  checkC pool1 =
  Some (4422%nat, 10%nat, 1%nat, []).
Proof. vm_compute. reflexivity. Qed.

(* 5.696 s *)
Example check_pool2 :
  checkC pool2 =
  Some (3080%nat, 9%nat, 2%nat, []).
Proof. vm_compute. reflexivity. Qed.

(* 9.849 s *)
Example check_pool3 :
  checkC pool3 =
  Some (4422%nat, 28%nat, 2%nat, []).
Proof. vm_compute. reflexivity. Qed.

(* 6.306 s *)
Example check_pool4 :
  checkC pool4 =
  Some (3080%nat, 16%nat, 2%nat, []).
Proof. vm_compute. reflexivity. Qed.
