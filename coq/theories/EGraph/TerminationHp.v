(* EGraph/TerminationHp.v — TERMINATION of the `while !i.slots().is_subset(&enode.slots())` loop of handle_pending
   (Model.hp_loop), C08 termination half, RELATIVE TO ONE PRECISELY STATED SLOT-LEVEL FACT (`HP_cap_proper`).

   hpI s src en i   : (s, en, i) is a state of the loop: reached from the entry context of handle_pending (the premises of
                      NoErrorBase.HC_hit: `hp_entry`) by rounds whose subset test failed (`hp_step`).
                      (entry) `hpI_entry`, (step) `hpI_step` hold by construction; `hpI_K` gives the invariants that are
                      available in every such state (kinv, hce noex, syn_wf, src in range, lcanon i, covers of the node).
   HP_cap_proper    : in a loop state whose subset test FAILS, the `cap` computed by handle_shrink_in_upwards_merge is a
                      PROPER subset of the slots of the invocation `a` (some slot of the leader class of src does not occur in
                      the re-found syntactic node of src).  Pure: no shrink_slots, no weight, only pc_from_src_id / find_enode /
                      pc_congruence on the SAME state.  This is the only missing fact (not derivable from Jm / Kx: they relate
                      the stored node and the syntactic node of its source only up to an UNSPECIFIED renaming, `nc`).
   Proved from it:
     hp_round_strict  : a round strictly decreases the weight Aw (TerminationMeasure.v)    [(strict) of the task]
     hp_loop_settles  : exists f, forall f' >= f, hp_loop f' .. s = hp_loop f .. s        (f = Aw s + 1)
     hp_loop_settled_value : the settled value is Ok _ or Err OutOfFuel (the latter only from the constant of `uint`)
     hp_loop_terminates_small : if Aw s <= ui_fuel, some fuel gives Ok (no OutOfFuel at all)
     HP_quiet_proved  : HP_cap_proper -> HP_quiet   (equal weight at exit = no round happened). *)
From SE Require Import Slots.SlotMapFacts Group.GroupSound Lang.LangFacts Lang.ShapeFacts
  EGraph.Model EGraph.ModelFacts EGraph.ModelMachine EGraph.UnionFindFacts EGraph.InvariantFacts
  EGraph.UnionInvariantFacts EGraph.AddCoversFacts EGraph.Mod4Facts EGraph.MatchDefs EGraph.HashconsFacts
  EGraph.KidsFacts EGraph.SoundFacts EGraph.SoundSyn EGraph.SoundUnion EGraph.SoundStruct EGraph.UsesConvDef EGraph.SoundClosed
  EGraph.UsesConv EGraph.PendingFacts EGraph.NoErrorBase EGraph.NoErrorShape EGraph.NoErrorInv EGraph.NoErrorUnion
  EGraph.NoErrorPendingSH EGraph.NoErrorPending EGraph.NoErrorFuel EGraph.MonotoneFacts EGraph.ProgressFacts
  EGraph.TerminationMeasure EGraph.TerminationBase EGraph.TerminationUnion.
Require Import ZArith Lia List.
Import ListNotations.

Local Notation ectr := Model.ctr.

(* ------------------------------------------------------------------ *)
(* 0. one unfolding of the loop *)

Lemma hp_loop_S : forall f src en i s,
  hp_loop (S f) src en i s =
  if sset_subset (values (am i)) (slots en) then Ok ((en, i), s)
  else match handle_shrink_in_upwards_merge src s with
       | Err e => Err e
       | Ok (_, s1) =>
           match find_enode s1 en with
           | Err e => Err e
           | Ok en' => match find_applied_id s1 i with
                       | Err e => Err e
                       | Ok i' => hp_loop f src en' i' s1
                       end
           end
       end.
Proof.
  intros f src en i s. cbn [hp_loop].
  destruct (sset_subset (values (am i)) (slots en)); [reflexivity|].
  unfold mbind at 1. destruct (handle_shrink_in_upwards_merge src s) as [[u s1]|e]; [|reflexivity].
  unfold mbind at 1. unfold reads at 1. destruct (find_enode s1 en) as [en'|e]; [|reflexivity].
  unfold mbind at 1. unfold reads at 1. destruct (find_applied_id s1 i) as [i'|e]; reflexivity.
Qed.

(* ------------------------------------------------------------------ *)
(* 1. the states of the loop *)

(* one round: the test fails, the body succeeds *)
Definition hp_step (src : N) (s : egraph) (en : node) (i : appid) (s1 : egraph) (en' : node) (i' : appid) : Prop :=
  sset_subset (values (am i)) (slots en) = false /\
  exists u, handle_shrink_in_upwards_merge src s = Ok (u, s1) /\ find_enode s1 en = Ok en' /\ find_applied_id s1 i = Ok i'.

(* the context in which handle_pending calls the loop (= the premises of NoErrorBase.HC_hit up to the call) *)
Definition hp_entry (sA : egraph) (src : N) (enode0 : node) (i0 : appid) : Prop :=
  exists s sh i c bij0 nd u1 cA,
    Jm (fun y => y = sh) s /\ Kx s /\ na_get (pending s) sh = None /\
    na_get (hashcons s) sh = Some i /\ get_class s i = Ok c /\ na_get (c_nodes c) sh = Some (bij0, src) /\
    apply_slotmap false bij0 sh = Ok nd /\ raw_remove_from_class i sh s = Ok (u1, sA) /\ get_class sA i = Ok cA /\
    find_enode sA nd = Ok enode0 /\ find_applied_id sA {| aid := i; am := identity (c_slots cA) |} = Ok i0.

Inductive hpI : egraph -> N -> node -> appid -> Prop :=
| hpI_entry : forall sA src en0 i0, hp_entry sA src en0 i0 -> hpI sA src en0 i0
| hpI_step : forall s src en i s1 en' i', hpI s src en i -> hp_step src s en i s1 en' i' -> hpI s1 src en' i'.

(* the invariants available in every state of the loop *)
Record hpK (s : egraph) (src : N) (en : node) (i : appid) : Prop := {
  hk_kinv : kinv s;
  hk_hce  : hce noex s;
  hk_syn  : syn_wf s;
  hk_src  : (N.to_nat src < lc s)%nat;
  hk_lc   : lcanon s i;
  hk_cov  : Forall (covers s) (app_occ en) }.

Lemma hpK_entry : forall sA src en0 i0, hp_entry sA src en0 i0 -> hpK sA src en0 i0.
Proof.
  intros sA src enode0 i0 (s & sh & i & c & bij0 & nd & u1 & cA & J & KX & Pn & Hi & Hc & St & Hnd & HA & HcA & Hen & Hi0).
  pose proof (jm_kinv _ _ J) as Kv. pose proof (jm_hce _ _ J) as Hs.
  pose proof Kv as (I3 & M & K).
  pose proof (na_get_in _ _ _ St) as Hin.
  assert (Knd : Forall (kid_ok s) (app_occ nd)).
  { eapply kids_apply; [exact (K _ _ _ Hc Hin)| | |exact Hnd].
    - exact (proj1 (proj2 (proj2 I3 _ _ _ Hc Hin))).
    - intros k v G. exact (m4_bij4 _ M _ _ _ _ _ _ _ Hc Hin G). }
  pose proof (jm_src _ _ J _ _ _ _ _ Hc Hin) as Lsrc.
  assert (IA : inv3 sA /\ ext s sA).
  { destruct I3 as [Hs2 HN]. destruct (semR_step2 _ _ (s_raw_remove _ _ _ _ _ HA) Hs2) as [HsA EA].
    split; [|exact EA]. split; [exact HsA|eapply nodes_raw_remove; eauto]. }
  destruct IA as [IA EA].
  pose proof (proj1 (h_raw_remove _ _ _ _ _ HA M)) as MA.
  assert (KA : kids_ok sA) by (eapply kids_ok_frame; [eapply ssub_raw_remove; exact HA|exact EA|exact K]).
  assert (KvA : kinv sA) by (split; [exact IA|split; [exact MA|exact KA]]).
  destruct (hce_raw_remove noex i sh s _ sA HA) as (HA' & _ & _).
  { eapply hce_weaken; [|exact Hs]. intros y ->. right. reflexivity. }
  pose proof (syn_wf_ext _ _ EA (jm_syn _ _ J)) as SyA.
  pose proof EA as (_ & LcA & _).
  constructor.
  - exact KvA.
  - exact HA'.
  - exact SyA.
  - rewrite LcA. exact Lsrc.
  - exact (covers_lcanon sA _ i0 (proj1 (proj1 IA)) (covers_identity sA i cA HcA) Hi0).
  - eapply find_enode_covers; [exact (proj1 (proj1 IA))| |exact Hen].
    revert Knd. apply Forall_impl. intros a [Ca _]. eapply covers_ext; eauto.
Qed.

(* the weight does not change along pc_congruence *)
Lemma Aw_pc_congruence : forall a b s ab s', kinv s -> pc_congruence a b s = Ok (ab, s') -> (Aw s' <= Aw s)%nat.
Proof.
  intros a b s ab s' Hk H. destruct (kinv_pc_congruence _ _ _ _ _ Hk H) as (Hk' & X & _).
  apply Aw_ext_le; [exact (kinv_eg_inv s Hk)|exact (kinv_eg_inv s' Hk')|exact X|].
  apply lmono_sem. exact (s_pc_congruence _ _ _ _ _ H).
Qed.

Lemma hpK_step : forall s src en i s1 en' i', hpK s src en i -> hp_step src s en i s1 en' i' ->
  hpK s1 src en' i' /\ ext s s1 /\ (Aw s1 <= Aw s)%nat.
Proof.
  intros s src en i s1 en' i' [Ks Hh SW L Li Cv] (_ & u & H1 & He & Hi).
  destruct (K_handle_shrink noex _ _ _ _ Ks Hh SW H1) as (K1 & Hh1 & SW1 & E1).
  pose proof E1 as (_ & Lc & _).
  assert (Cv1 : Forall (covers s1) (app_occ en)).
  { revert Cv. apply Forall_impl. intros a. apply covers_ext. exact E1. }
  split; [|split; [exact E1|]].
  - constructor.
    + exact K1.
    + exact Hh1.
    + exact SW1.
    + rewrite Lc. exact L.
    + eapply lcanon_ext_find; [exact (kinv_eg_inv s1 K1)|exact E1|exact Li|exact Hi].
    + eapply find_enode_covers; [exact (kinv_eg_inv s1 K1)|exact Cv1|exact He].
  - apply Aw_ext_le; [exact (kinv_eg_inv s Ks)|exact (kinv_eg_inv s1 K1)|exact E1|exact (l_handle_shrink src s u s1 H1)].
Qed.

Theorem hpI_K : forall s src en i, hpI s src en i -> hpK s src en i.
Proof.
  intros s src en i H. induction H as [sA src en0 i0 He|s src en i s1 en' i' _ IH St].
  - apply hpK_entry. exact He.
  - exact (proj1 (hpK_step _ _ _ _ _ _ _ IH St)).
Qed.

(* ------------------------------------------------------------------ *)
(* 2. the missing fact, and strictness of a round from it *)

Definition HP_cap_proper : Prop :=
  forall s src en i pc1 n2 a b s', hpI s src en i ->
    sset_subset (values (am i)) (slots en) = false ->
    pc_from_src_id s src = Ok pc1 -> find_enode s (fst pc1) = Ok n2 ->
    pc_congruence pc1 (n2, snd pc1) s = Ok ((a, b), s') ->
    exists x, In x (values (am a)) /\ ~ In x (values (am b)).

(* shrink_slots with the model's constant, on a proper subset: if it returns Ok, the weight strictly decreases *)
Lemma shrink_uint_strict : forall E from cap s x0 u s1, kinv s -> hce E s -> lcanon s from -> cap_ok from cap ->
  In x0 (values (am from)) -> ~ In x0 cap -> shrink_slots uint from cap s = Ok (u, s1) -> (Aw s1 < Aw s)%nat.
Proof.
  intros E from cap s x0 u s1 Hk Hh L Hc Hx Nx H.
  destruct (shrink_slots_total_proper E (Nat.max ui_fuel (Aw s)) from cap s x0 Hk Hh L Hc Hx Nx ltac:(lia)) as (s' & H' & W).
  assert (F : fle (shrink_slots uint from cap) (shrink_slots (union_internal (Nat.max ui_fuel (Aw s))) from cap)).
  { apply fle_shrink_slots. intros l r. unfold uint. apply fle_union_internal. lia. }
  pose proof (fle_ok _ _ _ _ _ F H) as H2. rewrite H' in H2. inversion H2; subst. exact W.
Qed.

Section Strict.
  Hypothesis cap_proper : HP_cap_proper.

  Theorem hp_round_strict : forall s src en i u s1, hpI s src en i ->
    sset_subset (values (am i)) (slots en) = false ->
    handle_shrink_in_upwards_merge src s = Ok (u, s1) -> (Aw s1 < Aw s)%nat.
  Proof.
    intros s src en i u s1 HI Tf H. pose proof (hpI_K _ _ _ _ HI) as [Ks Hh SW L Li Cv].
    unfold handle_shrink_in_upwards_merge in H.
    apply bind_reads_inv in H. destruct H as (pc1 & P1 & H).
    apply bind_reads_inv in H. destruct H as (n2 & F2 & H).
    apply mbind_inv in H. destruct H as ([a b] & s' & HP & H).
    destruct (cap_proper s src en i pc1 n2 a b s' HI Tf P1 F2 HP) as (x & Hx & Nx).
    pose proof (pc_congruence_fst _ _ _ _ _ HP) as Fa. cbn [fst] in Fa. subst a.
    destruct (pc_props s src pc1 (kinv_eg_inv s Ks) P1) as (L1 & _).
    destruct (kinv_pc_congruence _ _ _ _ _ Ks HP) as (K1 & E1 & S1).
    pose proof (Aw_pc_congruence _ _ _ _ _ Ks HP) as W1.
    assert (W2 : (Aw s1 < Aw s')%nat).
    { eapply (shrink_uint_strict noex (snd pc1) _ s' x); [exact K1| |exact (lcanon_sem _ _ _ S1 L1)|apply cap_inter_ok|exact Hx| |exact H].
      - eapply hce_pc_congruence; [exact HP|exact Hh].
      - intros Hin. apply Nx. unfold sset_inter in Hin. apply filter_In in Hin. destruct Hin as [_ Hm].
        apply sset_mem_in. exact Hm. }
    lia.
  Qed.

  (* ------------------------------------------------------------------ *)
  (* 3. the loop's own fuel is never the binding constraint *)

  Lemma hp_loop_settles_gen : forall n s src en i, hpI s src en i -> (Aw s <= n)%nat ->
    forall f', (S n <= f')%nat -> hp_loop f' src en i s = hp_loop (S n) src en i s.
  Proof.
    induction n as [|n IH]; intros s src en i HI Hw f' Hf; (destruct f' as [|f'']; [lia|]); rewrite !hp_loop_S.
    - destruct (sset_subset (values (am i)) (slots en)) eqn:Tf; [reflexivity|].
      destruct (handle_shrink_in_upwards_merge src s) as [[u s1]|e] eqn:H1; [|reflexivity].
      pose proof (hp_round_strict s src en i u s1 HI Tf H1). lia.
    - destruct (sset_subset (values (am i)) (slots en)) eqn:Tf; [reflexivity|].
      destruct (handle_shrink_in_upwards_merge src s) as [[u s1]|e] eqn:H1; [|reflexivity].
      destruct (find_enode s1 en) as [en'|e] eqn:He; [|reflexivity].
      destruct (find_applied_id s1 i) as [i'|e] eqn:Hi; [|reflexivity].
      pose proof (hp_round_strict s src en i u s1 HI Tf H1) as W.
      apply IH; [|lia|lia].
      eapply hpI_step; [exact HI|]. split; [exact Tf|]. exists u. split; [exact H1|]. split; [exact He|exact Hi].
  Qed.

  Theorem hp_loop_settles : forall s src en i, hpI s src en i ->
    exists f, forall f', (f <= f')%nat -> hp_loop f' src en i s = hp_loop f src en i s.
  Proof.
    intros s src en i HI. exists (S (Aw s)). intros f' Hf. apply hp_loop_settles_gen; [exact HI|lia|exact Hf].
  Qed.

  (* the settled value is Ok or OutOfFuel *)
  Theorem hp_loop_settled_value : forall s src en i, hpI s src en i ->
    exists f, (forall f', (f <= f')%nat -> hp_loop f' src en i s = hp_loop f src en i s) /\
              ((exists r, hp_loop f src en i s = Ok r) \/ hp_loop f src en i s = Err OutOfFuel).
  Proof.
    intros s src en i HI. destruct (hp_loop_settles s src en i HI) as (f & Hf). exists f. split; [exact Hf|].
    pose proof (hpI_K _ _ _ _ HI) as [Ks Hh SW L Li Cv].
    pose proof (nfK_hp_loop nf_shrink_slots_uint_if noex f src en i s Ks Hh SW L Li Cv) as N. unfold nf in N.
    destruct (hp_loop f src en i s) as [r|e]; [left; exists r; reflexivity|right].
    rewrite (N e eq_refl). reflexivity.
  Qed.

  (* ------------------------------------------------------------------ *)
  (* 4. the weight at the exit *)

  Lemma hp_loop_Aw : forall f s src en i r sB, hpI s src en i -> hp_loop f src en i s = Ok (r, sB) ->
    (Aw sB <= Aw s)%nat /\ (Aw sB = Aw s -> sB = s /\ r = (en, i)).
  Proof.
    induction f as [|f IH]; intros s src en i r sB HI H; [discriminate H|]. rewrite hp_loop_S in H.
    destruct (sset_subset (values (am i)) (slots en)) eqn:Tf.
    - inversion H; subst. split; [lia|]. intros _. split; reflexivity.
    - destruct (handle_shrink_in_upwards_merge src s) as [[u s1]|e] eqn:H1; [|discriminate H].
      destruct (find_enode s1 en) as [en'|e] eqn:He; [|discriminate H].
      destruct (find_applied_id s1 i) as [i'|e] eqn:Hi; [|discriminate H].
      pose proof (hp_round_strict s src en i u s1 HI Tf H1) as W.
      assert (HI1 : hpI s1 src en' i').
      { eapply hpI_step; [exact HI|]. split; [exact Tf|]. exists u. split; [exact H1|]. split; [exact He|exact Hi]. }
      destruct (IH s1 src en' i' r sB HI1 H) as [A _]. split; [lia|]. intros Q. lia.
  Qed.
  (* ------------------------------------------------------------------ *)
  (* 5. genuine termination on states of weight <= ui_fuel: no OutOfFuel at all *)

  Lemma tt_pc_congruence : forall a b s, totM (pc_congruence a b) s.
  Proof.
    intros a b s. unfold pc_congruence.
    apply tt_bind_lift; [apply wshape_tot|]. intros sa _.
    apply tt_bind_lift; [apply wshape_tot|]. intros sb _.
    apply tt_bind; [apply tt_with_ctr|]. intros m s1 _.
    apply tt_bind; [apply tt_with_ctr|]. intros x s2 _.
    apply tt_bind; [apply tt_with_ctr|]. intros bm s3 _. apply tt_ret.
  Qed.

  (* a round whose test fails is total when the weight is below the constant of uint *)
  Lemma tt_handle_shrink_small : forall s src en i, hpI s src en i ->
    sset_subset (values (am i)) (slots en) = false -> (Aw s <= ui_fuel)%nat ->
    totM (handle_shrink_in_upwards_merge src) s.
  Proof.
    intros s src en i HI Tf Hw. pose proof (hpI_K _ _ _ _ HI) as [Ks Hh SW L Li Cv].
    pose proof (kinv_uf_ok s Ks) as U. unfold handle_shrink_in_upwards_merge.
    apply tt_bind_reads; [apply pc_from_src_id_tot; assumption|]. intros pc1 P1.
    apply tt_bind_reads.
    { apply find_enode_tot; [exact U|]. exact (pc_from_src_ids_lt s src pc1 U P1). }
    intros n2 F2.
    apply tt_bind; [apply tt_pc_congruence|]. intros [a b] s' HP.
    destruct (cap_proper s src en i pc1 n2 a b s' HI Tf P1 F2 HP) as (x & Hx & Nx).
    pose proof (pc_congruence_fst _ _ _ _ _ HP) as Fa. cbn [fst] in Fa. subst a.
    destruct (pc_props s src pc1 (kinv_eg_inv s Ks) P1) as (L1 & _).
    destruct (kinv_pc_congruence _ _ _ _ _ Ks HP) as (K1 & E1 & S1).
    pose proof (Aw_pc_congruence _ _ _ _ _ Ks HP) as W1.
    destruct (shrink_slots_total_proper noex ui_fuel (snd pc1) (sset_inter (values (am (snd pc1))) (values (am b))) s' x K1
                (hce_pc_congruence _ _ _ _ _ _ HP Hh) (lcanon_sem _ _ _ S1 L1) (cap_inter_ok _ _) Hx) as (s1 & H1 & _).
    - intros Hin. apply Nx. unfold sset_inter in Hin. apply filter_In in Hin. destruct Hin as [_ Hm].
      apply sset_mem_in. exact Hm.
    - lia.
    - exists (tt, s1). exact H1.
  Qed.

  Lemma hp_loop_total_gen : forall n s src en i, hpI s src en i -> (Aw s <= n)%nat -> (Aw s <= ui_fuel)%nat ->
    exists r, hp_loop (S n) src en i s = Ok r.
  Proof.
    induction n as [|n IH]; intros s src en i HI Hn Hw; rewrite hp_loop_S;
      (destruct (sset_subset (values (am i)) (slots en)) eqn:Tf; [eexists; reflexivity|]);
      destruct (tt_handle_shrink_small s src en i HI Tf Hw) as [[u s1] H1]; rewrite H1;
      pose proof (hp_round_strict s src en i u s1 HI Tf H1) as W; [lia|].
    pose proof (hpI_K _ _ _ _ HI) as HK.
    assert (T1 : tot (find_enode s1 en) /\ tot (find_applied_id s1 i)).
    { destruct HK as [Ks Hh SW L Li Cv].
      destruct (K_handle_shrink noex _ _ _ _ Ks Hh SW H1) as (K1 & Hh1 & SW1 & E1).
      pose proof (kinv_uf_ok s1 K1) as U1. pose proof (kinv_wf s1 K1) as W1. unfold eg_wf in W1.
      assert (Cv1 : Forall (covers s1) (app_occ en)).
      { revert Cv. apply Forall_impl. intros a. apply covers_ext. exact E1. }
      split.
      - apply find_enode_tot; [exact U1|]. intros j Hj. rewrite W1. exact (ids_of_covers s1 en Cv1 j Hj).
      - apply find_applied_id_tot; [exact U1|]. rewrite W1. apply covers_lt.
        eapply covers_ext; [exact E1|]. apply canon_covers. exact (proj2 Li). }
    destruct T1 as [[en' He] [i' Hi]]. rewrite He, Hi.
    apply IH; [|lia|lia].
    eapply hpI_step; [exact HI|]. split; [exact Tf|]. exists u. split; [exact H1|]. split; [exact He|exact Hi].
  Qed.

  Theorem hp_loop_terminates_small : forall s src en i, hpI s src en i -> (Aw s <= ui_fuel)%nat ->
    exists r, forall f, (S (Aw s) <= f)%nat -> hp_loop f src en i s = Ok r.
  Proof.
    intros s src en i HI Hw. destruct (hp_loop_total_gen (Aw s) s src en i HI ltac:(lia) Hw) as [r Hr].
    exists r. intros f Hf. rewrite (hp_loop_settles_gen (Aw s) s src en i HI ltac:(lia) f Hf). exact Hr.
  Qed.
End Strict.

Definition HP_quiet : Prop := forall s sh i c bij0 src nd u1 sA cA enode0 i0 fuel enode i1 sB,
  Jm (fun y => y = sh) s -> Kx s -> na_get (pending s) sh = None ->
  na_get (hashcons s) sh = Some i -> get_class s i = Ok c -> na_get (c_nodes c) sh = Some (bij0, src) ->
  apply_slotmap false bij0 sh = Ok nd -> raw_remove_from_class i sh s = Ok (u1, sA) -> get_class sA i = Ok cA ->
  find_enode sA nd = Ok enode0 -> find_applied_id sA {| aid := i; am := identity (c_slots cA) |} = Ok i0 ->
  hp_loop fuel src enode0 i0 sA = Ok ((enode, i1), sB) ->
  Aw sB = Aw sA -> sB = sA /\ enode = enode0 /\ i1 = i0.

Theorem HP_quiet_proved : HP_cap_proper -> HP_quiet.
Proof.
  intros CP s sh i c bij0 src nd u1 sA cA enode0 i0 fuel enode i1 sB J KX Pn Hi Hc St Hnd HA HcA Hen Hi0 HB Q.
  assert (HI : hpI sA src enode0 i0).
  { apply hpI_entry. exists s, sh, i, c, bij0, nd, u1, cA. repeat (split; [assumption|]). assumption. }
  destruct (hp_loop_Aw CP fuel sA src enode0 i0 (enode, i1) sB HI HB) as [_ E].
  destruct (E Q) as [-> R]. inversion R. auto.
Qed.

Print Assumptions hpI_K.
Print Assumptions hp_round_strict.
Print Assumptions hp_loop_settles.
Print Assumptions hp_loop_settled_value.
Print Assumptions hp_loop_terminates_small.
Print Assumptions HP_quiet_proved.
