(* EGraph/TerminationHpChk.v — EMPIRICAL check (vm_compute) of TerminationHp.HP_cap_proper, the one fact that the
   termination proof of hp_loop is relative to: in every round of every hp_loop of the rebuilds of the history families of
   TerminationExp.v, the cap of handle_shrink_in_upwards_merge is a proper subset of the slots of the invocation. *)
From SE Require Import EGraph.Model EGraph.ModelMachine EGraph.AddCoversFacts EGraph.NoErrorFuel EGraph.NoErrorFuelHp
  EGraph.CongruenceFacts EGraph.TerminationExp.
Require Import ZArith List Bool.
Import ListNotations.

(* the boolean form of the conclusion of HP_cap_proper on the state s *)
Definition cap_proper_b (src : N) (s : egraph) : option bool :=
  match pc_from_src_id s src with
  | Ok pc1 =>
      match find_enode s (fst pc1) with
      | Ok n2 =>
          match pc_congruence pc1 (n2, snd pc1) s with
          | Ok ((a, b), _) => Some (existsb (fun x => negb (sset_mem x (values (am b)))) (values (am a)))
          | Err _ => None
          end
      | Err _ => None
      end
  | Err _ => None
  end.

(* (every failing test met a proper cap, number of rounds) *)
Fixpoint hp_chk (fuel : nat) (src : N) (en : node) (i : appid) (s : egraph) : bool * nat :=
  match fuel with
  | O => (true, 0%nat)
  | S f =>
      if sset_subset (values (am i)) (slots en) then (true, 0%nat)
      else match cap_proper_b src s with
           | Some true =>
               match hp_body src en i s with
               | Ok ((e', i'), s') => let '(b, n) := hp_chk f src e' i' s' in (b, S n)
               | Err _ => (true, 0%nat)
               end
           | _ => (false, 0%nat)
           end
  end.

Fixpoint chk_all (n : nat) (s : egraph) : bool * nat :=
  match n with
  | O => (true, 0%nat)
  | S n' =>
      match pending s with
      | [] => (true, 0%nat)
      | (sh, ty) :: rest =>
          let s0 := set_pending s rest in
          let here := if negb ty then (true, 0%nat) else
                      match hp_args sh s0 with
                      | Ok ((src, en, i1), s1) => hp_chk 60 src en i1 s1
                      | Err _ => (true, 0%nat)
                      end in
          match handle_pending sh ty s0 with
          | Ok (_, s2) => let '(b, k) := chk_all n' s2 in (fst here && b, (snd here + k)%nat)
          | Err _ => here
          end
      end
  end.

Definition chk_st (st : res (bool * egraph)) : option (bool * nat) :=
  match st with Ok (_, s) => Some (chk_all 200 s) | Err _ => None end.

(* every entry of a walk is Some (Some (true, _)) *)
Definition all_ok (l : list (list (option (option (bool * nat))))) : bool :=
  forallb (forallb (fun o => match o with Some (Some (true, _)) => true | _ => false end)) l.
Definition rounds (l : list (list (option (option (bool * nat))))) : nat :=
  fold_left (fun acc o => match o with Some (Some (_, n)) => (acc + n)%nat | _ => acc end) (concat l) 0%nat.

(* the history families of TerminationExp.v (cascades, self-loops with and without symmetries, fan-in, symmetric loss)
   and the congruence histories of CongruenceFacts.v: the cap is proper in every round (61 rounds in the families) *)
Example cap_proper_fam : all_ok (map (walk0 chk_st) fam_hists) = true /\ rounds (map (walk0 chk_st) fam_hists) = 61%nat.
Proof. vm_compute. split; reflexivity. Qed.
Example cap_proper_cong : all_ok (map (walk0 chk_st) cong_hists) = true.
Proof. vm_compute. reflexivity. Qed.
Example cap_proper_cyc : map (fun n => chk_st (st_cyc n)) [2; 4; 8; 12]%nat =
  [Some (true, 1%nat); Some (true, 3%nat); Some (true, 7%nat); Some (true, 11%nat)].
Proof. vm_compute. reflexivity. Qed.

(* all sequences of two unions over the 12 terms of pool1 (66 * 66 histories) *)
Definition two_unions : list (list hop) :=
  flat_map (fun p => map (fun q => addall pool1 ++ [xU (fst p) (snd p); xU (fst q) (snd q)]) (pairs (List.length pool1)))
           (pairs (List.length pool1)).
Definition pool_res := map (fun ops => walk0 chk_st (pool1, ops)) two_unions.
Example cap_proper_pool : (List.length two_unions, all_ok pool_res, rounds pool_res) = (4356%nat, true, 10953%nat).
Proof. vm_compute. reflexivity. Qed.

Print Assumptions cap_proper_fam.
Print Assumptions cap_proper_cong.
Print Assumptions cap_proper_pool.
