(* EGraph/TerminationHpFacts.v — what the run invariants of SoundClosed.v give in every state of the hp_loop
   (TerminationHp.hpI): the in-flight node is nc-related to the syntactic node of the source (`flight`), KS holds, the binders
   of the in-flight node are pairwise distinct.  These are the facts from which TerminationHp.HP_cap_proper would have to be
   proved; they fix the stored node only up to an UNSPECIFIED chain of renamings (nc), which is why they do not suffice. *)
From SE Require Import Slots.SlotMapFacts Group.GroupSound Lang.LangFacts Lang.ShapeFacts Lang.RenameFacts
  EGraph.Model EGraph.ModelFacts EGraph.ModelMachine EGraph.UnionFindFacts EGraph.InvariantFacts
  EGraph.UnionInvariantFacts EGraph.AddCoversFacts EGraph.MonotoneFacts EGraph.SoundFacts EGraph.SoundUnion EGraph.SoundSyn EGraph.SoundNode EGraph.SoundStruct EGraph.NodePass EGraph.SoundBase EGraph.SoundAddNew EGraph.SoundVals EGraph.SoundAddExpr EGraph.SoundPending.
From SE Require Import EGraph.SoundReadd EGraph.KidsCov EGraph.SoundRebuild EGraph.SoundFinal.
From SE Require Import EGraph.HashconsShape EGraph.NodeCong EGraph.KidEqFacts EGraph.ShapeCong EGraph.EntriesPersist EGraph.SynNodup.
From SE Require Import EGraph.SoundClosed EGraph.NoErrorBase EGraph.TerminationHp.
Require Import ZArith Lia List.
Import ListNotations.

Record hpF (s : egraph) (src : N) (en : node) : Prop := {
  hf_inv : eg_inv2 s;
  hf_ks  : KS s;
  hf_fl  : flight s src en;
  hf_cov : Forall (covers s) (app_occ en);
  hf_nd  : NoDup (binders en) }.

Lemma hpF_entry : forall sA src en0 i0, hp_entry sA src en0 i0 -> hpF sA src en0.
Proof.
  intros sA src enode0 i0 (s & sh & i & c & bij0 & nd & u1 & cA & J & (M & _ & (Kc & SO & K)) & Pn & Hh & Hc & Hp0 & Hnd & HA & HcA & Hen & Hi0).
  pose proof (kinv_inv3 _ (jm_kinv _ _ J)) as I3.
  pose proof (na_get_in _ _ _ Hp0) as Hin. pose proof (proj1 I3) as Hs.
  destruct (stored_ren_ok s i c sh bij0 src I3 M SO Hc Hin) as [RO ND].
  pose proof (kids_cov_apply s i c sh bij0 src nd I3 M Kc Hc Hin Hnd) as Cv.
  pose proof (apply_slotmap_ren _ _ _ Hnd) as Rn.
  assert (Fl : flight s src nd).
  { destruct (K sh src (ex_intro _ i (ex_intro _ c (ex_intro _ bij0 (conj Hc Hin))))) as (csrc & Hcs & Hnc).
    exists csrc. split; [exact Hcs|]. rewrite Rn. apply nc_ren; assumption. }
  assert (NDn : NoDup (binders nd)).
  { rewrite Rn, ren_binders. unfold asm_g. rewrite map_id. exact ND. }
  destruct (semR_step4 _ _ (s_raw_remove _ _ _ _ _ HA) Hs) as [HsA XA].
  pose proof (KS_mext_EP s sA XA (raw_remove_entries _ _ _ _ _ HA) K) as KA.
  destruct (find_enode_nc sA nd enode0 (proj1 HsA) (covers_all_ext _ _ _ (proj1 XA) Cv) Hen) as [Nc0 Cv0].
  pose proof (flight_nc _ _ _ _ (flight_mext _ _ _ _ XA Fl) Nc0) as Fl0.
  constructor; [exact HsA|exact KA|exact Fl0|exact Cv0|].
  rewrite (find_enode_binders _ _ _ Hen). exact NDn.
Qed.

Lemma hpF_step : forall s src en i s1 en' i', hpF s src en -> hp_step src s en i s1 en' i' -> hpF s1 src en'.
Proof.
  intros s src en i s1 en' i' [Hs K Fl Cv ND] (_ & u & H1 & He & Hi).
  destruct (inv4_handle_shrink src s u s1 H1 Hs) as [Hs1 X1].
  pose proof (KS_mext_EP s s1 X1 (pE_handle_shrink src s u s1 H1) K) as K1.
  destruct (find_enode_nc s1 en en' (proj1 Hs1) (covers_all_ext _ _ _ (proj1 X1) Cv) He) as [Nc1 Cv1].
  pose proof (flight_nc _ _ _ _ (flight_mext _ _ _ _ X1 Fl) Nc1) as Fl1.
  constructor; [exact Hs1|exact K1|exact Fl1|exact Cv1|].
  rewrite (find_enode_binders _ _ _ He). exact ND.
Qed.

Theorem hpI_F : forall s src en i, hpI s src en i -> hpF s src en.
Proof.
  intros s src en i H. induction H as [sA src en0 i0 He|s src en i s1 en' i' _ IH St].
  - eapply hpF_entry. exact He.
  - exact (hpF_step _ _ _ _ _ _ _ IH St).
Qed.

Print Assumptions hpI_F.
