(* EGraph/TerminationMeasure.v — the WEIGHT of a state (C08, termination half):

     cw s k  = 1 + |slots of class k|   if k is a leader of the union-find,   0 otherwise
     Aw s    = sum of cw s k over the allocated class ids k < lc s

   Along `pext` (ProgressFacts.v: classes persist with a subset of their slots, leaders only die) with no class
   allocated, the weight is pointwise non-increasing (`cw_pext`), hence `Aw_pext`; a strict pointwise decrease gives
   a strict decrease (`Aw_pext_strict`); equal weight means pointwise equal (`Aw_eq_pointwise`).
   Unlike the tuple `progress` (live, slots) this is ONE number that decreases whenever a class dies or loses a slot. *)
From SE Require Import Slots.SlotMapFacts Lang.RenameFacts EGraph.Model EGraph.ModelFacts EGraph.UnionFindFacts EGraph.InvariantFacts
  EGraph.UnionInvariantFacts EGraph.MonotoneFacts EGraph.ProgressFacts.
Require Import ZArith Lia List.
Import ListNotations.

Definition is_lead (s : egraph) (k : nat) : bool :=
  match nth_opt (unionfind s) k with Some e => aid e =? N.of_nat k | None => false end.

Definition cslots (s : egraph) (k : nat) : nat :=
  match nth_opt (classes s) k with Some c => List.length (c_slots c) | None => O end.

Definition cw (s : egraph) (k : nat) : nat := if is_lead s k then S (cslots s k) else O.

Fixpoint sumto (f : nat -> nat) (n : nat) : nat :=
  match n with O => O | S m => (sumto f m + f m)%nat end.

Definition Aw (s : egraph) : nat := sumto (cw s) (lc s).

(* ------------------------------------------------------------------ *)
(* sums *)

Lemma sumto_le : forall f g n, (forall k, (k < n)%nat -> (f k <= g k)%nat) -> (sumto f n <= sumto g n)%nat.
Proof.
  intros f g. induction n as [|n IH]; intros H; cbn [sumto]; [lia|].
  pose proof (H n ltac:(lia)). pose proof (IH (fun k Hk => H k ltac:(lia))). lia.
Qed.

Lemma sumto_lt : forall f g n k, (forall j, (j < n)%nat -> (f j <= g j)%nat) -> (k < n)%nat -> (f k < g k)%nat ->
  (sumto f n < sumto g n)%nat.
Proof.
  intros f g. induction n as [|n IH]; intros k H Hk Hlt; [lia|]. cbn [sumto].
  pose proof (H n ltac:(lia)) as Hn. pose proof (sumto_le f g n (fun j Hj => H j ltac:(lia))) as Hs.
  destruct (Nat.eq_dec k n) as [->|Hne]; [lia|].
  pose proof (IH k (fun j Hj => H j ltac:(lia)) ltac:(lia) Hlt). lia.
Qed.

Lemma sumto_eq_pointwise : forall f g n, (forall j, (j < n)%nat -> (f j <= g j)%nat) -> sumto f n = sumto g n ->
  forall k, (k < n)%nat -> f k = g k.
Proof.
  intros f g n H E k Hk. pose proof (H k Hk) as L.
  destruct (Nat.eq_dec (f k) (g k)) as [Q|Q]; [exact Q|].
  pose proof (sumto_lt f g n k H Hk ltac:(lia)). lia.
Qed.

Lemma sumto_ext : forall f g n, (forall k, (k < n)%nat -> f k = g k) -> sumto f n = sumto g n.
Proof.
  intros f g. induction n as [|n IH]; intros H; cbn [sumto]; [reflexivity|].
  rewrite (H n ltac:(lia)), (IH (fun k Hk => H k ltac:(lia))). reflexivity.
Qed.

(* ------------------------------------------------------------------ *)
(* leaders, classes *)

Lemma is_lead_iff : forall s k, is_lead s k = true <-> leader s (N.of_nat k).
Proof.
  intros s k. unfold is_lead, leader, uleader, uentry. rewrite Nnat.Nat2N.id. split.
  - destruct (nth_opt (unionfind s) k) as [e|]; [|discriminate]. intros H. apply N.eqb_eq in H. exists e. split; [reflexivity|exact H].
  - intros (e & -> & H). apply N.eqb_eq. exact H.
Qed.

Lemma cslots_class : forall s k c, get_class s (N.of_nat k) = Ok c -> cslots s k = List.length (c_slots c).
Proof.
  intros s k c H. unfold get_class in H. rewrite Nnat.Nat2N.id in H. unfold cslots.
  destruct (nth_opt (classes s) k) as [c0|]; [|discriminate]. inversion H. reflexivity.
Qed.

Lemma cw_leader : forall s k c, leader s (N.of_nat k) -> get_class s (N.of_nat k) = Ok c -> cw s k = S (List.length (c_slots c)).
Proof. intros s k c L Hc. unfold cw. rewrite (proj2 (is_lead_iff s k) L), (cslots_class s k c Hc). reflexivity. Qed.

Lemma cw_dead : forall s k, ~ leader s (N.of_nat k) -> cw s k = O.
Proof.
  intros s k H. unfold cw. destruct (is_lead s k) eqn:E; [|reflexivity]. exfalso. apply H. apply is_lead_iff. exact E.
Qed.

Lemma cw_pos_leader : forall s k, (0 < cw s k)%nat -> leader s (N.of_nat k).
Proof. intros s k H. unfold cw in H. destruct (is_lead s k) eqn:E; [apply is_lead_iff; exact E|lia]. Qed.

(* ------------------------------------------------------------------ *)
(* pointwise motion *)

Section Step.
  Variables s s' : egraph.
  (* classes persist with a subset of their slots *)
  Hypothesis Hcls : forall i c, get_class s i = Ok c -> exists c', get_class s' i = Ok c' /\ incl (c_slots c') (c_slots c).
  Hypothesis Hnd : forall i c', get_class s' i = Ok c' -> NoDup (c_slots c').
  Hypothesis Hl : lmono s s'.
  Hypothesis Hwf : lu s = lc s.

  Lemma cw_step : forall k, (k < lc s)%nat -> (cw s' k <= cw s k)%nat.
  Proof.
    intros k Hk. destruct (is_lead s' k) eqn:E.
    - apply is_lead_iff in E. assert (L : leader s (N.of_nat k)) by (apply (proj2 Hl); [lia|exact E]).
      destruct (get_class_ok s (N.of_nat k)) as (c & Hc); [lia|].
      destruct (Hcls _ _ Hc) as (c' & Hc' & I).
      rewrite (cw_leader s' k c' E Hc'), (cw_leader s k c L Hc).
      pose proof (NoDup_incl_length (Hnd _ _ Hc') I). lia.
    - unfold cw. rewrite E. lia.
  Qed.

  Lemma Aw_step : lc s' = lc s -> (Aw s' <= Aw s)%nat.
  Proof. intros E. unfold Aw. rewrite E. apply sumto_le. exact cw_step. Qed.

  Lemma Aw_step_strict : forall k, lc s' = lc s -> (k < lc s)%nat -> (cw s' k < cw s k)%nat -> (Aw s' < Aw s)%nat.
  Proof. intros k E Hk Hlt. unfold Aw. rewrite E. apply (sumto_lt _ _ _ k); [exact cw_step|exact Hk|exact Hlt]. Qed.

  Lemma Aw_step_eq : lc s' = lc s -> Aw s' = Aw s -> forall k, (k < lc s)%nat -> cw s' k = cw s k.
  Proof. intros E Q. unfold Aw in Q. rewrite E in Q. apply sumto_eq_pointwise; [exact cw_step|exact Q]. Qed.
End Step.

Lemma pext_step_premises : forall s s', pext s s' ->
  (forall i c, get_class s i = Ok c -> exists c', get_class s' i = Ok c' /\ incl (c_slots c') (c_slots c)) /\
  (forall i c', get_class s' i = Ok c' -> NoDup (c_slots c')) /\ lmono s s' /\ lu s = lc s.
Proof.
  intros s s' (Hs & Hs' & [[_ E] _] & L). split; [|split; [|split]].
  - intros i c Hc. destruct (E _ _ Hc) as (c' & Hc' & I & _). exists c'. split; assumption.
  - intros i c' Hc'. destruct (ei_cls s' Hs' _ _ Hc') as (W & _). apply swf_NoDup. exact W.
  - exact L.
  - exact (uso_wf s (ei_slots s Hs)).
Qed.

Theorem cw_pext : forall s s' k, pext s s' -> (k < lc s)%nat -> (cw s' k <= cw s k)%nat.
Proof. intros s s' k X. destruct (pext_step_premises s s' X) as (A & B & C & D). apply cw_step; assumption. Qed.

Theorem Aw_pext : forall s s', pext s s' -> lc s' = lc s -> (Aw s' <= Aw s)%nat.
Proof. intros s s' X. destruct (pext_step_premises s s' X) as (A & B & C & D). apply Aw_step; assumption. Qed.

Theorem Aw_pext_strict : forall s s' k, pext s s' -> lc s' = lc s -> (k < lc s)%nat -> (cw s' k < cw s k)%nat -> (Aw s' < Aw s)%nat.
Proof. intros s s' k X. destruct (pext_step_premises s s' X) as (A & B & C & D). apply Aw_step_strict; assumption. Qed.

Theorem Aw_eq_pointwise : forall s s', pext s s' -> lc s' = lc s -> Aw s' = Aw s -> forall k, (k < lc s)%nat -> cw s' k = cw s k.
Proof. intros s s' X. destruct (pext_step_premises s s' X) as (A & B & C & D). apply Aw_step_eq; assumption. Qed.

Print Assumptions Aw_pext.
Print Assumptions Aw_pext_strict.
Print Assumptions Aw_eq_pointwise.
