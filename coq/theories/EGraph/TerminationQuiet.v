(* EGraph/TerminationQuiet.v — ROUND_QUIET (TerminationRound.v) from ONE hypothesis about the hp_loop (HPQ):
   a successful round of the worklist that leaves the progress measure unchanged does not touch `pending`.

   Pieces: uint_quiet (a uint call that leaves the measure unchanged is the identity), the quiet lemmas for
   pc_congruence;uint, handle_congruence and determine_self_symmetries, the frame facts for raw_remove_from_class /
   raw_add_to_class / fill_fresh (pending untouched), and the assembly along the walk of handle_pending. *)
From SE Require Import Slots.SlotMapFacts Group.GroupSound Lang.LangFacts Lang.ShapeFacts
  EGraph.Model EGraph.ModelMachine EGraph.ModelFacts EGraph.PendingFacts EGraph.UnionFindFacts
  EGraph.InvariantFacts EGraph.UnionInvariantFacts EGraph.AddCoversFacts EGraph.MonotoneFacts EGraph.HashconsFacts EGraph.ProgressFacts
  EGraph.KidsFacts EGraph.NoErrorBase EGraph.NoErrorShape EGraph.NoErrorInv EGraph.NoErrorPendingA EGraph.NoErrorPendingHP EGraph.NoErrorPendingNB
  EGraph.TerminationMeasure EGraph.TerminationRank EGraph.TerminationRound.
Require Import ZArith Lia List.
Import ListNotations.

Local Notation ectr := Model.ctr.
Local Notation "a ** b" := (compose_partial a b) (at level 40, left associativity).
Local Notation inv := inverse_nocheck.

(* ------------------------------------------------------------------ *)
(* 0. the relation "pending untouched" and its frame facts *)

Definition pkeep (s s' : egraph) : Prop := pending s' = pending s.
Lemma pkeep_refl : forall s, pkeep s s.
Proof. intros s. reflexivity. Qed.
Lemma pkeep_trans : forall a b c, pkeep a b -> pkeep b c -> pkeep a c.
Proof. unfold pkeep. intros a b c H1 H2. congruence. Qed.

Lemma pkeep_with_ctr : forall A (f : N -> A * N), pres pkeep (with_ctr f).
Proof. intros A f s x s' H. apply with_ctr_spec in H. subst s'. reflexivity. Qed.
Lemma pkeep_fresh : pres pkeep fresh.
Proof. intros s x s' H. inversion H. reflexivity. Qed.

Lemma pkeep_raw_remove : forall id sh, pres pkeep (raw_remove_from_class id sh).
Proof.
  apply (pres_raw_remove_from_class pkeep pkeep_refl pkeep_trans); intros; reflexivity.
Qed.
Lemma pkeep_raw_add : forall id t src, pres pkeep (raw_add_to_class id t src).
Proof.
  apply (pres_raw_add_to_class pkeep pkeep_refl pkeep_trans); intros; reflexivity.
Qed.
Lemma pkeep_pc_congruence : forall a b, pres pkeep (pc_congruence a b).
Proof.
  apply (pres_pc_congruence pkeep pkeep_refl pkeep_trans); intros; apply pkeep_with_ctr.
Qed.
Lemma pkeep_fill_fresh : forall l m, pres pkeep (fill_fresh l m).
Proof. apply (pres_fill_fresh pkeep pkeep_refl pkeep_trans pkeep_fresh). Qed.

(* ------------------------------------------------------------------ *)
(* 1. squeezing, pext of the pieces *)

Lemma squeeze2 : forall a b c, pext a b -> pext b c -> progress c = progress a ->
  progress b = progress a /\ progress c = progress b.
Proof.
  intros a b c X1 X2 E. destruct (proj1 (pext_progress_total a b X1)) as (p & Pa).
  rewrite Pa in E. pose proof (progress_squeeze a b c p X1 X2 Pa E) as Pb.
  rewrite Pa, Pb, E. split; reflexivity.
Qed.

Lemma pext_semR : forall s s', inv3 s -> inv3 s' -> semR s s' -> pext s s'.
Proof.
  intros s s' I I' S. destruct (semR_step4 _ _ S (inv3_eg_inv2 s I)) as [_ X].
  split; [apply inv3_eg_inv; assumption|]. split; [apply inv3_eg_inv; assumption|].
  split; [apply mext_mext0; assumption|apply lmono_sem; assumption].
Qed.

Lemma pext_uint : forall l r s b s', inv3 s -> covers s l -> covers s r -> uint l r s = Ok (b, s') ->
  pext s s' /\ inv3 s' /\ ext s s'.
Proof.
  intros l r s b s' I3 Cl Cr H. destruct (inv3_uint l r s b s' I3 Cl Cr H) as [I3' E].
  destruct (inv4_uint l r s b s' (inv3_eg_inv s I3) Cl Cr H) as (Hs' & X & Q).
  split; [|split; assumption].
  split; [apply inv3_eg_inv; assumption|]. split; [assumption|]. split; [apply mext_mext0; assumption|exact (l_uint l r s b s' H)].
Qed.

(* (1) a uint call that leaves the measure unchanged is the identity *)
Theorem uint_quiet : forall l r s b s', inv3 s -> covers s l -> covers s r -> uint l r s = Ok (b, s') ->
  progress s' = progress s -> s' = s.
Proof.
  intros l r s b s' I3 Cl Cr H E.
  destruct (inv4_uint l r s b s' (inv3_eg_inv s I3) Cl Cr H) as (Hs' & X & Q).
  destruct (pext_uint l r s b s' I3 Cl Cr H) as (PX & _ & _).
  destruct (proj1 (pext_progress_total s s' PX)) as (p & P). rewrite P in E.
  destruct (progress_equal_obs_same s s' p PX P E) as (_ & EQ & _).
  rewrite (EQ l r Cl Cr) in Q.
  destruct (uint_noop ui_fuel l r s b s' (inv3_eg_inv s I3) H Q) as [_ ->]. reflexivity.
Qed.

(* ------------------------------------------------------------------ *)
(* 2. pc_congruence ; uint *)

Lemma pcc_uint_quiet : forall s0 s i pc1 pc2 u s', inv3 s0 -> ext s0 s -> inv3 s ->
  pc_from_src_id s0 i = Ok pc1 -> lcanon s0 (snd pc2) ->
  (dom ab <- pc_congruence pc1 pc2; dom _ <- uint (fst ab) (snd ab); ret tt) s = Ok (u, s') ->
  pext s s' /\ inv3 s' /\ ext s s' /\ (progress s' = progress s -> pending s' = pending s).
Proof.
  intros s0 s i pc1 pc2 u s' I0 X0 I3 P1 L2 H.
  apply mbind_inv in H. destruct H as (ab & s1 & H1 & H).
  apply mbind_inv in H. destruct H as (b & s2 & H2 & H). inversion H; subst u s2; clear H.
  destruct (pcc_covers s0 s i pc1 pc2 ab s1 I0 X0 I3 P1 L2 H1) as [C1 C2].
  destruct (semn_step3 _ _ (s_pc_congruence _ _ _ _ _ H1) (n_pc_congruence _ _ _ _ _ H1) I3) as [I1 E1].
  pose proof (pext_semR s s1 I3 I1 (s_pc_congruence _ _ _ _ _ H1)) as PX1.
  destruct (pext_uint _ _ _ _ _ I1 C1 C2 H2) as (PX2 & I2 & E2).
  split; [eapply pext_trans; eauto|]. split; [exact I2|]. split; [eapply ext_trans; eauto|].
  intros E. destruct (squeeze2 s s1 s' PX1 PX2 E) as [_ E'].
  rewrite (uint_quiet _ _ _ _ _ I1 C1 C2 H2 E'). exact (pkeep_pc_congruence _ _ _ _ _ H1).
Qed.

(* (2a) handle_congruence *)
Theorem handle_congruence_quiet : forall pc1 src s x s', inv3 s -> pc_from_src_id s src = Ok pc1 ->
  handle_congruence pc1 s = Ok (x, s') ->
  pext s s' /\ inv3 s' /\ ext s s' /\ (progress s' = progress s -> pending s' = pending s).
Proof.
  intros pc1 src s x s' I3 P H. unfold handle_congruence in H.
  apply bind_reads_inv in H. destruct H as (t1 & Ht1 & H).
  apply bind_reads_inv in H. destruct H as (pc2 & P2 & H).
  assert (L2 : lcanon s (snd pc2)).
  { unfold pc_from_shape in P2. destruct (na_get (hashcons s) (fst t1)) as [i2|]; [|discriminate].
    destruct (get_class s i2) as [c2|]; cbn [bind] in P2; [|discriminate].
    destruct (na_get (c_nodes c2) (fst t1)) as [[bj src2]|]; [|discriminate].
    exact (proj1 (pc_props s src2 pc2 (inv3_eg_inv s I3) P2)). }
  exact (pcc_uint_quiet s s src pc1 pc2 x s' I3 (ext_refl s) I3 P L2 H).
Qed.

(* (2b) determine_self_symmetries *)
Theorem determine_self_symmetries_quiet : forall src s x s', inv3 s ->
  determine_self_symmetries src s = Ok (x, s') ->
  pext s s' /\ inv3 s' /\ ext s s' /\ (progress s' = progress s -> pending s' = pending s).
Proof.
  intros src s x s' I3 H. unfold determine_self_symmetries in H.
  apply bind_reads_inv in H. destruct H as (pc1 & P1 & H).
  apply mbind_inv in H. destruct H as (w & s9 & Hw & H). apply lift_inv in Hw. destruct Hw as [_ ->]. cbv zeta in H.
  apply bind_reads_inv in H. destruct H as (vs & _ & H).
  pose proof (proj1 (pc_props s src pc1 (inv3_eg_inv s I3) P1)) as L1.
  match type of H with iterM ?f vs s = _ => set (F := f) in * end.
  assert (G : forall x s' s0, inv3 s0 -> ext s s0 -> iterM F vs s0 = Ok (x, s') ->
              pext s0 s' /\ inv3 s' /\ ext s0 s' /\ (progress s' = progress s0 -> pending s' = pending s0));
    [|exact (G x s' s I3 (ext_refl s) H)].
  clear H x s'.
  induction vs as [|pn2 vs IH]; intros x s' s0 I0 X0 H; cbn [iterM] in H.
  - inversion H; subst. split; [apply pext_refl, inv3_eg_inv; assumption|]. split; [assumption|]. split; [apply ext_refl|]. auto.
  - apply mbind_inv in H. destruct H as (u1 & s1 & H1 & H).
    assert (S1 : pext s0 s1 /\ inv3 s1 /\ ext s0 s1 /\ (progress s1 = progress s0 -> pending s1 = pending s0)).
    { unfold F in H1. apply mbind_inv in H1. destruct H1 as (w2 & s8 & Hw2 & H1). apply lift_inv in Hw2. destruct Hw2 as [_ ->].
      destruct (node_eqb (fst w) (fst w2)).
      - exact (pcc_uint_quiet s s0 src pc1 (pn2, snd pc1) u1 s1 I3 X0 I0 P1 L1 H1).
      - inversion H1; subst. split; [apply pext_refl, inv3_eg_inv; assumption|]. split; [assumption|]. split; [apply ext_refl|]. auto. }
    destruct S1 as (PX1 & I1 & E1 & Q1).
    destruct (IH _ _ s1 I1 (ext_trans _ _ _ X0 E1) H) as (PX2 & I2 & E2 & Q2).
    split; [eapply pext_trans; eauto|]. split; [exact I2|]. split; [eapply ext_trans; eauto|].
    intros E. destruct (squeeze2 s0 s1 s' PX1 PX2 E) as [Ea Eb]. rewrite (Q2 Eb). exact (Q1 Ea).
Qed.

Print Assumptions uint_quiet.
Print Assumptions handle_congruence_quiet.
Print Assumptions determine_self_symmetries_quiet.

(* ------------------------------------------------------------------ *)
(* 3. the None branch: the states after fill_fresh and raw_add_to_class keep inv3 (copied from
   AddCoversFacts.inv3_handle_pending) *)

Lemma none_branch_inv3 : forall sB n0 enode i1 src_id sh' bij m sC u2 sD,
  inv3 sB -> lcanon sB i1 -> find_enode sB n0 = Ok enode ->
  sset_subset (values (am i1)) (slots enode) = true ->
  shape sB enode = Ok (sh', bij) ->
  fill_fresh (values bij) (inv (am i1)) sB = Ok (m, sC) ->
  raw_add_to_class (aid i1) (sh', bij ** m) src_id sC = Ok (u2, sD) ->
  inv3 sC /\ ext sB sC /\ inv3 sD /\ ext sC sD.
Proof.
  intros sB n0 enode i1 src_id sh' bij m sC u2 sD IB L1 Fn Sub Ht Hm HD.
  pose proof IB as [[HsB HbB] NB].
  destruct L1 as [Ld1 (cB & HcB & G1 & W1 & B1 & K1)].
  pose proof (proj1 (is_bijection_injective _ W1) B1) as Inj1.
  unfold shape in Ht. destruct (pre_shape sB enode) as [p|] eqn:Pp; cbn [bind] in Ht; [|discriminate].
  destruct (shape_bij_props _ _ _ Ht) as (Wb & Bb & _). destruct (shape_bij _ _ _ Ht) as (Sb1 & Sb2 & _).
  pose proof (proj1 (is_bijection_injective _ Wb) Bb) as Injb.
  pose proof (s_fill_fresh _ _ _ _ _ Hm) as SfC.
  destruct (fill_fresh_spec _ _ _ _ _ (inverse_wf (am i1)) Hm) as (Wm & _ & Keep & (cC & ->)).
  assert (Bnd : forall k v, get (inv (am i1)) k = Some v -> v < ectr sB).
  { intros k v G. apply (get_inverse _ _ _ W1 B1) in G.
    assert (Hv : In v (c_slots cB)) by (rewrite <- K1; apply keys_spec; congruence).
    destruct (ei_cls sB HsB _ _ HcB) as (_ & _ & Isyn). apply Isyn, slots_spec, pub_occ_all_occ in Hv.
    exact (HbB _ _ _ HcB Hv). }
  destruct (fill_fresh_inj _ _ _ _ _ (inverse_wf (am i1)) (inv_injective _ W1 Inj1) Bnd Hm) as [Injm _].
  assert (IC : inv3 (set_ctr sB cC) /\ ext sB (set_ctr sB cC)).
  { apply (semn_step3 sB (set_ctr sB cC)); [|apply nsame_ctr|exact IB]. exact SfC. }
  destruct IC as [IC EC].
  assert (EO : entry_ok (c_slots cB) (sh', (bij ** m, src_id))).
  { unfold entry_ok. cbn [fst snd]. split; [apply compose_partial_wf|]. split; [apply compose_injective; assumption|]. split.
    - intros k Hk. apply Sb2. rewrite get_compose_partial in Hk by assumption. destruct (get bij k); congruence.
    - intros y Hy. rewrite <- K1 in Hy. apply keys_spec in Hy. destruct (get (am i1) y) as [v|] eqn:Gy; [|congruence].
      assert (Hv : In v (slots enode)).
      { apply mem_in. unfold sset_subset in Sub. apply (proj1 (forallb_forall _ _) Sub). apply values_spec; eauto. }
      apply (pre_shape_keeps_proved sB n0 enode p HsB Fn Pp), slots_spec, Sb1 in Hv. destruct Hv as (k & Gk). exists k.
      rewrite get_compose_partial by assumption. rewrite Gk.
      assert (Gi : get (inv (am i1)) v = Some y) by (apply (get_inverse _ _ _ W1 B1); exact Gy).
      rewrite Keep by congruence. exact Gi. }
  assert (ID : inv3 sD /\ ext (set_ctr sB cC) sD).
  { pose proof IC as [Hs2 HN]. destruct (semR_step2 _ _ (s_raw_add _ _ _ _ _ _ HD) Hs2) as [HsD ED].
    split; [|exact ED]. split; [exact HsD|]. eapply nodes_raw_add; [exact HN| |exact EO|exact HD]. exact HcB. }
  destruct ID as [ID ED]. auto.
Qed.

(* ------------------------------------------------------------------ *)
(* 4. the assembly *)

Section Quiet.
  Hypothesis HPQ : forall s sh i c bij0 src nd u1 sA cA enode0 i0 fuel enode i1 sB,
        Jm (fun y => y = sh) s -> Kx s -> na_get (pending s) sh = None ->
        na_get (hashcons s) sh = Some i -> get_class s i = Ok c -> na_get (c_nodes c) sh = Some (bij0, src) ->
        apply_slotmap false bij0 sh = Ok nd -> raw_remove_from_class i sh s = Ok (u1, sA) -> get_class sA i = Ok cA ->
        find_enode sA nd = Ok enode0 -> find_applied_id sA {| aid := i; am := identity (c_slots cA) |} = Ok i0 ->
        hp_loop fuel src enode0 i0 sA = Ok ((enode, i1), sB) ->
        Aw sB = Aw sA -> sB = sA /\ enode = enode0 /\ i1 = i0.

  (* a quiet round does not touch the worklist at all *)
  Theorem round_quiet_pending : forall sh ty s u s', Jm (fun y => y = sh /\ ty = true) s -> Kx s -> na_get (pending s) sh = None ->
    handle_pending sh ty s = Ok (u, s') -> progress s' = progress s -> pending s' = pending s.
  Proof.
    intros sh ty s u s' J KX Pn H EP. unfold handle_pending in H.
    apply bind_reads_inv in H. destruct H as (i & Hi & H).
    destruct (na_get (hashcons s) sh) as [i'|] eqn:Hi'; [|discriminate]. inversion Hi; subst i'; clear Hi. rename Hi' into Hi.
    destruct ty; cbn [negb] in H; [|inversion H; reflexivity].
    pose proof (jm_kinv _ _ J) as Kv. pose proof (jm_hce _ _ J) as Hs.
    pose proof Kv as (I3 & M & K).
    assert (Hs1 : hce (fun y => y = sh) s).
    { eapply hce_weaken; [|exact Hs]. intros y [-> _]. reflexivity. }
    assert (J1 : Jm (fun y => y = sh) s).
    { constructor; [exact Kv|exact Hs1|exact (jm_uc _ _ J)|exact (jm_st2 _ _ J)|exact (jm_syn _ _ J)
                   |exact (jm_src _ _ J)|exact (jm_pend _ _ J)]. }
    apply bind_reads_inv in H. destruct H as (c & Hc & H).
    apply mbind_inv in H. destruct H as ([bij0 src] & s0 & Hp & H). apply lift_inv in Hp. destruct Hp as [St ->].
    destruct (na_get (c_nodes c) sh) as [psn|] eqn:St'; [|discriminate]. inversion St; subst psn; clear St. rename St' into St.
    apply mbind_inv in H. destruct H as (nd & s0 & Hnd & H). apply lift_inv in Hnd. destruct Hnd as [Hnd ->].
    apply mbind_inv in H. destruct H as (u1 & sA & HA & H).
    assert (IA : inv3 sA /\ ext s sA).
    { pose proof I3 as [Hs2 HN]. destruct (semR_step2 _ _ (s_raw_remove _ _ _ _ _ HA) Hs2) as [HsA EA].
      split; [|exact EA]. split; [exact HsA|eapply nodes_raw_remove; eauto]. }
    destruct IA as [IA EA].
    pose proof (pext_semR s sA I3 IA (s_raw_remove _ _ _ _ _ HA)) as PXA.
    pose proof (pkeep_raw_remove _ _ _ _ _ HA) as PA. unfold pkeep in PA.
    apply bind_reads_inv in H. destruct H as (sl & Hsl & H). cbv zeta in H.
    apply bind_reads_inv in H. destruct H as (enode0 & Hen & H).
    apply bind_reads_inv in H. destruct H as (i0 & Hi0 & H).
    unfold class_slots in Hsl. destruct (get_class sA i) as [cA|] eqn:HcA; cbn [bind] in Hsl; [|discriminate].
    inversion Hsl; subst sl; clear Hsl.
    pose proof (covers_lcanon sA _ i0 (proj1 (proj1 IA)) (covers_identity sA i cA HcA) Hi0) as L0.
    apply mbind_inv in H. destruct H as ([enode i1] & sB & HB & H).
    destruct (inv3_hp_loop _ _ _ _ _ _ _ IA L0 (ex_intro _ nd Hen) HB) as (IB & EB & L1 & (n0 & Fn) & Sub). cbn [fst snd] in *.
    assert (PXB : pext sA sB).
    { destruct (inv4_hp_loop _ _ _ _ _ _ _ HB (inv3_eg_inv2 sA IA)) as [_ X].
      split; [apply inv3_eg_inv; assumption|]. split; [apply inv3_eg_inv; assumption|].
      split; [apply mext_mext0; assumption|exact (l_hp_loop _ _ _ _ _ _ _ HB)]. }
    pose proof EB as (_ & LcB & _).
    (* the common end of both branches *)
    assert (Fin : pext sB s' -> (progress s' = progress sB -> pending s' = pending sB) -> pending s' = pending s).
    { intros PXC Q.
      destruct (squeeze2 s sA s' PXA (pext_trans _ _ _ PXB PXC) EP) as [EA1 EA2].
      destruct (squeeze2 sA sB s' PXB PXC EA2) as [EB1 EB2].
      assert (AE : Aw sB = Aw sA).
      { pose proof (Aw_pext sA sB PXB LcB) as Le.
        destruct (Nat.eq_dec (Aw sB) (Aw sA)) as [Q0|Q0]; [exact Q0|].
        exfalso. apply (Aw_progress sA sB PXB LcB); [lia|exact EB1]. }
      destruct (HPQ s sh i c bij0 src nd u1 sA cA enode0 i0 100%nat enode i1 sB J1 KX Pn Hi Hc St Hnd HA HcA Hen Hi0 HB AE)
        as (EqS & _ & _).
      rewrite (Q EB2), EqS. exact PA. }
    apply bind_reads_inv in H. destruct H as (t & Ht & H).
    apply bind_reads_inv in H. destruct H as (lk & _ & H).
    destruct lk as [hit|].
    - apply bind_reads_inv in H. destruct H as (pc & P & H).
      destruct (handle_congruence_quiet pc src sB u s' IB P H) as (PXC & _ & _ & Q). exact (Fin PXC Q).
    - destruct t as [sh' bij].
      apply mbind_inv in H. destruct H as (m & sC & Hm & H).
      change (fill_fresh (values bij) (inv (am i1)) sB = Ok (m, sC)) in Hm. cbv zeta in H.
      apply mbind_inv in H. destruct H as (u2 & sD & HD & H).
      destruct (none_branch_inv3 sB n0 enode i1 src sh' bij m sC u2 sD IB L1 Fn Sub Ht Hm HD) as (IC & EC & ID & ED).
      pose proof (pext_semR sB sC IB IC (s_fill_fresh _ _ _ _ _ Hm)) as PX1.
      pose proof (pext_semR sC sD IC ID (s_raw_add _ _ _ _ _ _ HD)) as PX2.
      destruct (determine_self_symmetries_quiet src sD u s' ID H) as (PX3 & _ & _ & Q3).
      pose proof (pext_trans _ _ _ PX1 PX2) as PX12.
      apply Fin; [eapply pext_trans; eauto|]. intros E.
      destruct (squeeze2 sB sD s' PX12 PX3 E) as [_ E3].
      rewrite (Q3 E3). rewrite (pkeep_raw_add _ _ _ _ _ _ HD). exact (pkeep_fill_fresh _ _ _ _ _ Hm).
  Qed.

  Theorem round_quiet_proved : ROUND_QUIET.
  Proof.
    intros sh ty s u s' J KX Pn H EP. rewrite (round_quiet_pending sh ty s u s' J KX Pn H EP). lia.
  Qed.
End Quiet.

Print Assumptions none_branch_inv3.
Print Assumptions round_quiet_pending.
Print Assumptions round_quiet_proved.
Check round_quiet_proved.
