(* EGraph/TerminationRank.v — a natural-number RANK that strictly decreases whenever the progress measure moves
   (C08, termination half), for states related by `pext` without class allocation (lc s' = lc s).

     csym s k  = order of the symmetry group of class k   if k is a leader, 0 otherwise        Bw s = sum over k < lc s
     cfact s k = (number of slots of class k)!            if k is a leader, 0 otherwise        Bm s = sum over k < lc s
     rk s      = Aw s * (Bm s + 1) + (Bm s - Bw s)

   Bw s <= Bm s (`Bw_le_Bm`, by TerminationSym.gcount_fact); along pext: Aw and Bm do not increase; with equal Aw the
   slot sets are the same, Bm is the same and Bw does not decrease.  Hence rk does not increase (`rk_pext`), and
   strictly decreases whenever `progress` changes (`rk_progress`); `Aw_progress` is the converse for the weight. *)
From SE Require Import Slots.SlotMap Slots.SlotMapFacts Group.Group Group.GroupSound Lang.RenameFacts
  EGraph.Model EGraph.ModelFacts EGraph.UnionFindFacts EGraph.InvariantFacts
  EGraph.UnionInvariantFacts EGraph.MonotoneFacts EGraph.ProgressFacts EGraph.TerminationMeasure EGraph.TerminationSym.
From Coq Require Import ZArith Lia List Arith Factorial.
Import ListNotations.

Definition cgrp (s : egraph) (k : nat) : nat :=
  match nth_opt (classes s) k with Some c => N.to_nat (gcount (c_group c)) | None => O end.

Definition csym (s : egraph) (k : nat) : nat := if is_lead s k then cgrp s k else O.
Definition cfact (s : egraph) (k : nat) : nat := if is_lead s k then fact (cslots s k) else O.

Definition Bw (s : egraph) : nat := sumto (csym s) (lc s).
Definition Bm (s : egraph) : nat := sumto (cfact s) (lc s).

Definition rk (s : egraph) : nat := (Aw s * (Bm s + 1) + (Bm s - Bw s))%nat.

(* ------------------------------------------------------------------ *)
(* classes, leaders *)

Lemma cgrp_class : forall s k c, get_class s (N.of_nat k) = Ok c -> cgrp s k = N.to_nat (gcount (c_group c)).
Proof.
  intros s k c H. unfold get_class in H. rewrite Nnat.Nat2N.id in H. unfold cgrp.
  destruct (nth_opt (classes s) k) as [c0|]; [|discriminate]. inversion H. reflexivity.
Qed.

Lemma is_lead_false : forall s k, is_lead s k = false <-> ~ leader s (N.of_nat k).
Proof.
  intros s k. rewrite <- is_lead_iff. destruct (is_lead s k); split; intros H.
  - discriminate H.
  - exfalso. apply H. reflexivity.
  - intros Q. discriminate Q.
  - reflexivity.
Qed.

Lemma cw_is_lead : forall s k, is_lead s k = true <-> (0 < cw s k)%nat.
Proof. intros s k. unfold cw. destruct (is_lead s k); split; intros H; try reflexivity; try discriminate; lia. Qed.

(* (1) the symmetry total is bounded by the factorial total *)
Theorem Bw_le_Bm : forall s, eg_inv s -> (Bw s <= Bm s)%nat.
Proof.
  intros s Hs. unfold Bw, Bm. apply sumto_le. intros k Hk. unfold csym, cfact.
  destruct (is_lead s k) eqn:L; [|lia]. apply is_lead_iff in L.
  destruct (get_class_ok s (N.of_nat k)) as (c & Hc); [lia|].
  rewrite (cgrp_class s k c Hc), (cslots_class s k c Hc).
  apply gcount_fact. exact (uso_grp s (ei_slots s Hs) _ c L Hc).
Qed.

(* ------------------------------------------------------------------ *)
(* one step *)

Section Rank.
  Variables s s' : egraph.
  Hypothesis X : pext s s'.
  Hypothesis E : lc s' = lc s.

  Lemma lead_back : forall k, (k < lc s)%nat -> leader s' (N.of_nat k) -> leader s (N.of_nat k).
  Proof.
    intros k Hk L'. destruct X as (Hs & _ & _ & [_ LM]). pose proof (uso_wf s (ei_slots s Hs)) as W. unfold eg_wf in W.
    apply LM; [lia|exact L'].
  Qed.

  (* a class that is a leader before and after, in numbers *)
  Lemma both_leader : forall k, (k < lc s)%nat -> leader s (N.of_nat k) -> leader s' (N.of_nat k) ->
    exists c c', get_class s (N.of_nat k) = Ok c /\ get_class s' (N.of_nat k) = Ok c' /\
      cslots s k = List.length (c_slots c) /\ cslots s' k = List.length (c_slots c') /\
      cgrp s k = N.to_nat (gcount (c_group c)) /\ cgrp s' k = N.to_nat (gcount (c_group c')) /\
      (cslots s' k <= cslots s k)%nat /\
      (cslots s' k = cslots s k -> c_slots c' = c_slots c /\ (cgrp s k <= cgrp s' k)%nat).
  Proof.
    intros k Hk L L'. destruct (get_class_ok s (N.of_nat k)) as (c & Hc); [lia|].
    destruct (pext_leader_class s s' _ c X L L' Hc) as (c' & Hc' & I & W & W' & G & G' & Sub).
    exists c, c'. rewrite (cslots_class s k c Hc), (cslots_class s' k c' Hc'), (cgrp_class s k c Hc), (cgrp_class s' k c' Hc').
    destruct (slots_sub_count _ _ W W' I) as [Le Eq].
    repeat (split; [first [assumption|reflexivity]|]).
    intros Q. specialize (Eq Q). split; [exact Eq|].
    pose proof (proj1 (grp_sub_count c c' G G' Eq (Sub Eq))) as Q2. lia.
  Qed.

  (* (2) the factorial total does not increase *)
  Lemma cfact_pext : forall k, (k < lc s)%nat -> (cfact s' k <= cfact s k)%nat.
  Proof.
    intros k Hk. unfold cfact. destruct (is_lead s' k) eqn:L'; [|lia]. apply is_lead_iff in L'.
    pose proof (lead_back k Hk L') as L. rewrite (proj2 (is_lead_iff s k) L).
    destruct (both_leader k Hk L L') as (c & c' & _ & _ & _ & _ & _ & _ & Le & _). apply fact_le. exact Le.
  Qed.

  Theorem Bm_pext : (Bm s' <= Bm s)%nat.
  Proof. unfold Bm. rewrite E. apply sumto_le. exact cfact_pext. Qed.

  Theorem Aw_pext_le : (Aw s' <= Aw s)%nat.
  Proof. apply Aw_pext; assumption. Qed.

  (* (3) equal weight: the same leaders with the same slot sets *)
  Section EqualWeight.
    Hypothesis EA : Aw s' = Aw s.

    Lemma eqA_cw : forall k, (k < lc s)%nat -> cw s' k = cw s k.
    Proof. apply Aw_eq_pointwise; assumption. Qed.

    Lemma eqA_lead : forall k, (k < lc s)%nat -> is_lead s' k = is_lead s k.
    Proof.
      intros k Hk. pose proof (eqA_cw k Hk) as Q. pose proof (cw_is_lead s k) as A. pose proof (cw_is_lead s' k) as A'.
      rewrite Q in A'. destruct (is_lead s k), (is_lead s' k); try reflexivity.
      - apply (proj2 A'). apply (proj1 A). reflexivity.
      - symmetry. apply (proj2 A). apply (proj1 A'). reflexivity.
    Qed.

    Lemma eqA_cslots : forall k, (k < lc s)%nat -> is_lead s k = true -> cslots s' k = cslots s k.
    Proof.
      intros k Hk L. pose proof (eqA_cw k Hk) as Q. pose proof (eqA_lead k Hk) as L'. unfold cw in Q. rewrite L', L in Q. lia.
    Qed.

    Lemma eqA_cfact : forall k, (k < lc s)%nat -> cfact s' k = cfact s k.
    Proof.
      intros k Hk. unfold cfact. rewrite (eqA_lead k Hk). destruct (is_lead s k) eqn:L; [|reflexivity].
      rewrite (eqA_cslots k Hk L). reflexivity.
    Qed.

    Theorem eqA_Bm : Bm s' = Bm s.
    Proof. unfold Bm. rewrite E. apply sumto_ext. exact eqA_cfact. Qed.

    Lemma eqA_csym : forall k, (k < lc s)%nat -> (csym s k <= csym s' k)%nat.
    Proof.
      intros k Hk. unfold csym. rewrite (eqA_lead k Hk). destruct (is_lead s k) eqn:L; [|lia].
      pose proof (eqA_lead k Hk) as L'. rewrite L in L'. pose proof (eqA_cslots k Hk L) as Q.
      apply is_lead_iff in L, L'.
      destruct (both_leader k Hk L L') as (c & c' & _ & _ & _ & _ & _ & _ & _ & Eq). apply (Eq Q).
    Qed.

    Theorem eqA_Bw : (Bw s <= Bw s')%nat.
    Proof. unfold Bw. rewrite E. apply sumto_le. exact eqA_csym. Qed.

    (* the slot sets of the live classes are the same *)
    Lemma eqA_slots : forall k c c', (k < lc s)%nat -> is_lead s k = true ->
      get_class s (N.of_nat k) = Ok c -> get_class s' (N.of_nat k) = Ok c' -> c_slots c' = c_slots c.
    Proof.
      intros k c c' Hk L Hc Hc'. pose proof (eqA_lead k Hk) as L'. rewrite L in L'. pose proof (eqA_cslots k Hk L) as Q.
      apply is_lead_iff in L, L'.
      destruct (both_leader k Hk L L') as (c0 & c0' & H0 & H0' & _ & _ & _ & _ & _ & Eq).
      rewrite Hc in H0. rewrite Hc' in H0'. inversion H0; inversion H0'; subst c0 c0'. apply (Eq Q).
    Qed.

    (* the live ids are the same *)
    Lemma eqA_ids : ids s' = ids s.
    Proof.
      destruct (pext_ids s s' X E) as [Le Eq]. apply Eq. apply Nat.le_antisymm; [exact Le|].
      destruct X as (Hs & Hs' & _ & _).
      pose proof (uso_wf s (ei_slots s Hs)) as W. pose proof (uso_wf s' (ei_slots s' Hs')) as W'. unfold eg_wf in W, W'.
      rewrite !ids_eq. apply (ids_go_sub (unionfind s') (unionfind s) 0); [lia|].
      intros k e He Ee. pose proof (nth_opt_Some_lt _ _ _ He) as Hk.
      assert (L : is_lead s k = true) by (unfold is_lead; rewrite He; apply N.eqb_eq; lia).
      rewrite <- (eqA_lead k ltac:(lia)) in L. unfold is_lead in L.
      destruct (nth_opt (unionfind s') k) as [e'|]; [|discriminate]. apply N.eqb_eq in L. exists e'. split; [reflexivity|lia].
    Qed.
  End EqualWeight.

  (* (4) the rank does not increase *)
  Theorem rk_pext : (rk s' <= rk s)%nat.
  Proof.
    pose proof Aw_pext_le as A. pose proof Bm_pext as B.
    pose proof (Bw_le_Bm s (proj1 X)) as C. pose proof (Bw_le_Bm s' (proj1 (proj2 X))) as C'. unfold rk.
    destruct (Nat.eq_dec (Aw s') (Aw s)) as [EA|NA].
    - pose proof (eqA_Bm EA) as B1. pose proof (eqA_Bw EA) as B2. rewrite EA, B1. lia.
    - assert (M : ((Aw s' + 1) * (Bm s' + 1) <= Aw s * (Bm s + 1))%nat) by (apply Nat.mul_le_mono; lia). lia.
  Qed.

  (* (5) strict decrease *)
  Theorem rk_pext_strict_A : (Aw s' < Aw s)%nat -> (rk s' < rk s)%nat.
  Proof.
    intros A. pose proof Bm_pext as B.
    pose proof (Bw_le_Bm s (proj1 X)) as C. pose proof (Bw_le_Bm s' (proj1 (proj2 X))) as C'. unfold rk.
    assert (M : ((Aw s' + 1) * (Bm s' + 1) <= Aw s * (Bm s + 1))%nat) by (apply Nat.mul_le_mono; lia). lia.
  Qed.

  Theorem rk_pext_strict_B : Aw s' = Aw s -> (Bw s < Bw s')%nat -> (rk s' < rk s)%nat.
  Proof.
    intros EA B2. pose proof (eqA_Bm EA) as B1.
    pose proof (Bw_le_Bm s (proj1 X)) as C. pose proof (Bw_le_Bm s' (proj1 (proj2 X))) as C'. unfold rk. rewrite EA, B1. lia.
  Qed.
End Rank.

(* ------------------------------------------------------------------ *)
(* (6) the link to `progress` *)

Lemma Nsum_ext : forall f g l, (forall i, In i l -> f i = g i) -> Nsum f l = Nsum g l.
Proof.
  intros f g. induction l as [|x t IH]; intros H; cbn [Nsum]; [reflexivity|].
  rewrite (H x (or_introl eq_refl)), (IH (fun i Hi => H i (or_intror Hi))). reflexivity.
Qed.

Lemma slotn_cslots : forall s k, (k < lc s)%nat -> slotn s (N.of_nat k) = N.of_nat (cslots s k).
Proof.
  intros s k Hk. destruct (get_class_ok s (N.of_nat k)) as (c & Hc); [lia|].
  unfold slotn. rewrite Hc, (cslots_class s k c Hc). reflexivity.
Qed.

Lemma symn_cgrp : forall s k, (k < lc s)%nat -> symn s (N.of_nat k) = N.of_nat (cgrp s k).
Proof.
  intros s k Hk. destruct (get_class_ok s (N.of_nat k)) as (c & Hc); [lia|].
  unfold symn. rewrite Hc, (cgrp_class s k c Hc), Nnat.N2Nat.id. reflexivity.
Qed.

Lemma ids_is_lead : forall s i, eg_inv s -> In i (ids s) ->
  exists k, i = N.of_nat k /\ (k < lc s)%nat /\ is_lead s k = true.
Proof.
  intros s i Hs Hi. apply ids_leader in Hi. pose proof Hi as (e & He & _). apply uentry_lt in He.
  pose proof (uso_wf s (ei_slots s Hs)) as W. unfold eg_wf in W.
  exists (N.to_nat i). rewrite Nnat.N2Nat.id. split; [reflexivity|]. split; [lia|].
  apply is_lead_iff. rewrite Nnat.N2Nat.id. exact Hi.
Qed.

Theorem rk_link : forall s s', pext s s' -> lc s' = lc s -> Aw s' = Aw s -> Bw s' = Bw s -> progress s' = progress s.
Proof.
  intros s s' X E EA EB. pose proof X as (Hs & Hs' & _).
  destruct (progress_total s (uso_wf s (ei_slots s Hs))) as (p & P).
  destruct (progress_total s' (uso_wf s' (ei_slots s' Hs'))) as (p' & P').
  rewrite P, P'. f_equal. apply progress_spec in P, P'. subst p p'.
  rewrite (eqA_ids s s' X E EA), E.
  assert (CS : forall k, (k < lc s)%nat -> csym s k = csym s' k).
  { apply sumto_eq_pointwise; [exact (eqA_csym s s' X E EA)|]. unfold Bw in EB. rewrite E in EB. symmetry. exact EB. }
  f_equal; [f_equal|]; apply Nsum_ext; intros i Hi; destruct (ids_is_lead s i Hs Hi) as (k & -> & Hk & L).
  - rewrite (slotn_cslots s k Hk), (slotn_cslots s' k ltac:(lia)), (eqA_cslots s s' X E EA k Hk L). reflexivity.
  - rewrite (symn_cgrp s k Hk), (symn_cgrp s' k ltac:(lia)). f_equal.
    pose proof (CS k Hk) as Q. unfold csym in Q. rewrite (eqA_lead s s' X E EA k Hk), L in Q. symmetry. exact Q.
Qed.

(* (7) the rank strictly decreases whenever the progress measure moves *)
Theorem rk_progress : forall s s', pext s s' -> lc s' = lc s -> progress s' <> progress s -> (rk s' < rk s)%nat.
Proof.
  intros s s' X E NP. pose proof (Aw_pext s s' X E) as A.
  destruct (Nat.eq_dec (Aw s') (Aw s)) as [EA|NA]; [|apply rk_pext_strict_A; [assumption|assumption|lia]].
  pose proof (eqA_Bw s s' X E EA) as B.
  destruct (Nat.eq_dec (Bw s') (Bw s)) as [EB|NB]; [|apply rk_pext_strict_B; [assumption|assumption|assumption|lia]].
  exfalso. apply NP. apply rk_link; assumption.
Qed.

(* (8) a strict decrease of the weight moves the progress measure *)
Theorem Aw_progress : forall s s', pext s s' -> lc s' = lc s -> (Aw s' < Aw s)%nat -> progress s' <> progress s.
Proof.
  intros s s' X E A EP. pose proof X as (Hs & Hs' & _).
  destruct (progress_total s (uso_wf s (ei_slots s Hs))) as (p & P). rewrite P in EP.
  destruct (progress_equal_same_live s s' p X P EP) as (_ & Hids & SL).
  assert (Q : Aw s' = Aw s); [|lia]. unfold Aw. rewrite E. apply sumto_ext. intros k Hk.
  destruct (is_lead s k) eqn:L.
  - apply is_lead_iff in L. assert (L' : leader s' (N.of_nat k)) by (apply ids_leader; rewrite Hids; apply ids_leader; exact L).
    destruct (get_class_ok s (N.of_nat k)) as (c & Hc); [lia|].
    destruct (SL _ c L Hc) as (c' & Hc' & S & _).
    rewrite (cw_leader s k c L Hc), (cw_leader s' k c' L' Hc'), S. reflexivity.
  - apply is_lead_false in L. assert (L' : ~ leader s' (N.of_nat k)).
    { intros Q. apply L. apply ids_leader. rewrite <- Hids. apply ids_leader. exact Q. }
    rewrite (cw_dead s k L), (cw_dead s' k L'). reflexivity.
Qed.

Print Assumptions Bw_le_Bm.
Print Assumptions Bm_pext.
Print Assumptions rk_pext.
Print Assumptions rk_pext_strict_A.
Print Assumptions rk_pext_strict_B.
Print Assumptions rk_link.
Print Assumptions rk_progress.
Print Assumptions Aw_progress.
