(* EGraph/TerminationRebuild.v — TERMINATION of the worklist loop `rebuild` (C08, termination half).

   1. A generic worklist loop `rb hp fuel` (Model.rebuild with an arbitrary round function hp) and the schema
      `rb_settles` / `rb_total`: if every successful round keeps an invariant and decreases the pair
      (rk, number of pending entries) LEXICOGRAPHICALLY, the loop's own fuel is never the binding constraint:
        rb_settles : Inv s -> exists f, forall f', f <= f' -> rb f' s = rb f s
        rb_total   : (rounds are total) -> Inv s -> exists f u s', rb f s = Ok (u, s') /\ Inv s'
      (no bound on the growth of the worklist is needed for existence).
   2. Instance for Model.v's `rebuild` (inner constants hp_loop 100 / uint): Section RebuildModel, hypothesis
      `round_measure` (one precisely stated measure lemma) ->
        rebuild_settles : Jm noex s -> Kx s -> exists f, forall f', f <= f' -> rebuild f' s = rebuild f s
        rebuild_settled_value : ... the settled value is Ok or Err OutOfFuel (the latter only from the inner constants).
      All invariants needed (Jm_pop, Kx_pop, Jm_handle_pending, Kx_handle_pending) are the proved ones of NoErrorPending*.v.
   3. Instance for the fuel-parametric `rebuild_f` (ModelFuel.v): Section RebuildParam, hypothesis `round_f`
      (one round succeeds for SOME fuel assignment, keeps the invariant, decreases the measure) ->
        rebuild_f_terminates : Inv s -> exists ph f u s', rebuild_f ph f s = Ok (u, s') /\ Inv s' /\ pending s' = []
      (the fuels of the finitely many rounds are combined by `fuels_max` and fuel monotonicity). *)
From SE Require Import EGraph.Model EGraph.ModelMachine EGraph.ModelFacts EGraph.PendingFacts EGraph.HashconsFacts
  EGraph.NoErrorBase EGraph.NoErrorKey EGraph.NoErrorPending EGraph.NoErrorPendingKx EGraph.NoErrorFuel EGraph.ModelFuel.
Require Import ZArith Lia List.
Import ListNotations.

(* ------------------------------------------------------------------ *)
(* 1. the generic worklist loop *)

Section Worklist.
  Variable hp : node -> bool -> M unit.

  Fixpoint rb (fuel : nat) : M unit :=
    match fuel with
    | O => fail OutOfFuel
    | S f =>
        dom p <- gets pending;
        match p with
        | [] => ret tt
        | (sh, ty) :: rest =>
            dom _ <- modify (fun s => set_pending s rest);
            dom _ <- hp sh ty;
            rb f
        end
    end.

  Lemma rb_nil : forall f s, pending s = [] -> rb (S f) s = Ok (tt, s).
  Proof. intros f s P. cbn [rb]. unfold mbind, gets. rewrite P. reflexivity. Qed.

  Lemma rb_cons_ok : forall f s sh ty rest u s', pending s = (sh, ty) :: rest ->
    hp sh ty (set_pending s rest) = Ok (u, s') -> rb (S f) s = rb f s'.
  Proof. intros f s sh ty rest u s' P H. cbn [rb]. unfold mbind, gets, modify. rewrite P, H. reflexivity. Qed.

  Lemma rb_cons_err : forall f s sh ty rest e, pending s = (sh, ty) :: rest ->
    hp sh ty (set_pending s rest) = Err e -> rb (S f) s = Err e.
  Proof. intros f s sh ty rest e P H. cbn [rb]. unfold mbind, gets, modify. rewrite P, H. reflexivity. Qed.

  Variable Inv : egraph -> Prop.
  Variable rk : egraph -> nat.

  Definition settles (s : egraph) : Prop := exists f, forall f', (f <= f')%nat -> rb f' s = rb f s.

  Section Settles.
    (* every successful round keeps the invariant and decreases (rk, |pending|) lexicographically *)
    Hypothesis round : forall s sh ty rest u s', Inv s -> pending s = (sh, ty) :: rest ->
      hp sh ty (set_pending s rest) = Ok (u, s') ->
      Inv s' /\ ((rk s' < rk s)%nat \/ (rk s' = rk s /\ (List.length (pending s') <= List.length rest)%nat)).

    Lemma rb_settles_aux : forall n m s, Inv s -> (rk s < n)%nat -> (List.length (pending s) < m)%nat -> settles s.
    Proof.
      induction n as [|n IHn]; [intros m s _ Hn; lia|].
      induction m as [|m IHm]; [intros s _ _ Hm; lia|].
      intros s Hs Hn Hm. destruct (pending s) as [|[sh ty] rest] eqn:P.
      - exists 1%nat. intros f' L. destruct f' as [|f']; [lia|]. rewrite (rb_nil f' s P), (rb_nil 0 s P). reflexivity.
      - destruct (hp sh ty (set_pending s rest)) as [[u s']|e] eqn:H.
        + destruct (round s sh ty rest u s' Hs P H) as [Hs' D].
          assert (S' : settles s').
          { destruct D as [D|[D1 D2]].
            - apply (IHn (S (List.length (pending s'))) s' Hs'); lia.
            - apply (IHm s' Hs'); [lia|]. cbn [List.length] in Hm. lia. }
          destruct S' as (f1 & Hf1). exists (S f1). intros f' L. destruct f' as [|f']; [lia|].
          rewrite (rb_cons_ok f' s sh ty rest u s' P H), (rb_cons_ok f1 s sh ty rest u s' P H). apply Hf1. lia.
        + exists 1%nat. intros f' L. destruct f' as [|f']; [lia|].
          rewrite (rb_cons_err f' s sh ty rest e P H), (rb_cons_err 0 s sh ty rest e P H). reflexivity.
    Qed.

    Theorem rb_settles : forall s, Inv s -> settles s.
    Proof. intros s Hs. apply (rb_settles_aux (S (rk s)) (S (List.length (pending s))) s Hs); lia. Qed.

    (* if moreover every round is total, the loop is *)
    Hypothesis round_tot : forall s sh ty rest, Inv s -> pending s = (sh, ty) :: rest ->
      exists r, hp sh ty (set_pending s rest) = Ok r.

    Lemma rb_total_aux : forall n m s, Inv s -> (rk s < n)%nat -> (List.length (pending s) < m)%nat ->
      exists f s', rb f s = Ok (tt, s') /\ Inv s' /\ pending s' = [].
    Proof.
      induction n as [|n IHn]; [intros m s _ Hn; lia|].
      induction m as [|m IHm]; [intros s _ _ Hm; lia|].
      intros s Hs Hn Hm. destruct (pending s) as [|[sh ty] rest] eqn:P.
      - exists 1%nat, s. split; [apply rb_nil; exact P|]. split; [exact Hs|exact P].
      - destruct (round_tot s sh ty rest Hs P) as [[u s'] H].
        destruct (round s sh ty rest u s' Hs P H) as [Hs' D].
        assert (S' : exists f s'', rb f s' = Ok (tt, s'') /\ Inv s'' /\ pending s'' = []).
        { destruct D as [D|[D1 D2]].
          - apply (IHn (S (List.length (pending s'))) s' Hs'); lia.
          - apply (IHm s' Hs'); [lia|]. cbn [List.length] in Hm. lia. }
        destruct S' as (f1 & s'' & E & I'' & P''). exists (S f1), s''.
        split; [rewrite (rb_cons_ok f1 s sh ty rest u s' P H); exact E|]. split; assumption.
    Qed.

    Theorem rb_total : forall s, Inv s -> exists f s', rb f s = Ok (tt, s') /\ Inv s' /\ pending s' = [].
    Proof. intros s Hs. apply (rb_total_aux (S (rk s)) (S (List.length (pending s))) s Hs); lia. Qed.
  End Settles.
End Worklist.

(* Model.v's rebuild and ModelFuel.v's rebuild_f are instances *)
Lemma rebuild_rb : forall f s, rebuild f s = rb handle_pending f s.
Proof.
  induction f as [|f IH]; intros s; [reflexivity|]. rewrite rebuild_step. cbn [rb]. unfold mbind, gets, modify.
  destruct (pending s) as [|[sh ty] rest]; [reflexivity|].
  destruct (handle_pending sh ty (set_pending s rest)) as [[u s']|e]; [apply IH|reflexivity].
Qed.

Lemma rebuild_f_rb : forall ph f s, rebuild_f ph f s = rb (handle_pending_f ph) f s.
Proof.
  intros ph. induction f as [|f IH]; intros s; [reflexivity|]. rewrite rebuild_f_S. cbn [rb]. unfold mbind, gets, modify.
  destruct (pending s) as [|[sh ty] rest]; [reflexivity|].
  destruct (handle_pending_f ph sh ty (set_pending s rest)) as [[u s']|e]; [apply IH|reflexivity].
Qed.

(* ------------------------------------------------------------------ *)
(* 2. Model.v's rebuild (inner constants): the worklist loop settles *)

Section RebuildModel.
  Variable rk : egraph -> nat.
  (* THE MEASURE LEMMA (hypothesis): a successful round of the worklist decreases (rk, |pending|) lexicographically *)
  Hypothesis round_measure : forall s sh ty rest u s', Jm noex s -> Kx s -> pending s = (sh, ty) :: rest ->
    handle_pending sh ty (set_pending s rest) = Ok (u, s') ->
    (rk s' < rk s)%nat \/ (rk s' = rk s /\ (List.length (pending s') <= List.length rest)%nat).

  Theorem rebuild_settles : forall s, Jm noex s -> Kx s -> exists f, forall f', (f <= f')%nat -> rebuild f' s = rebuild f s.
  Proof.
    intros s J K.
    destruct (rb_settles handle_pending (fun s0 => Jm noex s0 /\ Kx s0) rk) with (s := s) as (f & Hf).
    - intros s0 sh ty rest u s' [J0 K0] P H.
      destruct (Jm_pop s0 sh ty rest J0 P) as [J1 Nn]. pose proof (Kx_pop s0 sh ty rest J0 K0 P) as K1.
      split; [split|].
      + exact (proj1 (Jm_handle_pending sh ty _ _ _ J1 Nn H)).
      + exact (Kx_handle_pending sh ty _ _ _ J1 K1 H).
      + exact (round_measure s0 sh ty rest u s' J0 K0 P H).
    - split; assumption.
    - exists f. intros f' L. rewrite !rebuild_rb. apply Hf. exact L.
  Qed.

  (* the settled value: Ok, or OutOfFuel of an INNER constant (hp_loop 100 / uint = union_internal 400) *)
  Theorem rebuild_settled_value : forall s, Jm noex s -> Kx s ->
    exists f, (forall f', (f <= f')%nat -> rebuild f' s = rebuild f s) /\
              ((exists s', rebuild f s = Ok (tt, s') /\ Jm noex s' /\ Kx s' /\ pending s' = []) \/ rebuild f s = Err OutOfFuel).
  Proof.
    intros s J K. destruct (rebuild_settles s J K) as (f & Hf). exists f. split; [exact Hf|].
    destruct (rebuild f s) as [[[] s']|e] eqn:E.
    - left. exists s'. split; [reflexivity|].
      destruct (Jm_rebuild f s tt s' J E) as (J' & P' & _). split; [exact J'|]. split; [|exact P'].
      exact (NoErrorPending.Kx_rebuild f s tt s' J K E).
    - right. rewrite (nf_rebuild HC_hit_proved f s J K e E). reflexivity.
  Qed.
End RebuildModel.

(* ------------------------------------------------------------------ *)
(* 3. the fuel-parametric rebuild_f: existence of a sufficient fuel assignment *)

Section RebuildParam.
  Variable Inv : egraph -> Prop.
  Variable rk : egraph -> nat.
  (* one round succeeds for SOME fuel assignment, keeps the invariant, decreases the measure *)
  Hypothesis round_f : forall s sh ty rest, Inv s -> pending s = (sh, ty) :: rest ->
    exists ph u s', handle_pending_f ph sh ty (set_pending s rest) = Ok (u, s') /\ Inv s' /\
      ((rk s' < rk s)%nat \/ (rk s' = rk s /\ (List.length (pending s') <= List.length rest)%nat)).

  Lemma rebuild_f_terminates_aux : forall n m s, Inv s -> (rk s < n)%nat -> (List.length (pending s) < m)%nat ->
    exists ph f s', rebuild_f ph f s = Ok (tt, s') /\ Inv s' /\ pending s' = [].
  Proof.
    induction n as [|n IHn]; [intros m s _ Hn; lia|].
    induction m as [|m IHm]; [intros s _ _ Hm; lia|].
    intros s Hs Hn Hm. destruct (pending s) as [|[sh ty] rest] eqn:P.
    - exists (fuel1 0), 1%nat, s. split; [rewrite rebuild_f_rb; apply rb_nil; exact P|]. split; [exact Hs|exact P].
    - destruct (round_f s sh ty rest Hs P) as (ph0 & u & s' & H & Hs' & D).
      assert (S' : exists ph f s'', rebuild_f ph f s' = Ok (tt, s'') /\ Inv s'' /\ pending s'' = []).
      { destruct D as [D|[D1 D2]].
        - apply (IHn (S (List.length (pending s'))) s' Hs'); lia.
        - apply (IHm s' Hs'); [lia|]. cbn [List.length] in Hm. lia. }
      destruct S' as (ph1 & f1 & s'' & E & I'' & P'').
      exists (fuels_max ph0 ph1), (S f1), s''. split; [|split; assumption].
      rewrite rebuild_f_rb.
      assert (H' : handle_pending_f (fuels_max ph0 ph1) sh ty (set_pending s rest) = Ok (u, s')).
      { eapply fle_ok; [apply fle_handle_pending_f; apply fuels_max_l|exact H]. }
      rewrite (rb_cons_ok _ f1 s sh ty rest u s' P H'). rewrite <- rebuild_f_rb.
      eapply fle_ok; [apply (fle_rebuild_f ph1 (fuels_max ph0 ph1) (fuels_max_r ph0 ph1) f1 f1); lia|exact E].
  Qed.

  Theorem rebuild_f_terminates : forall s, Inv s -> exists ph f s', rebuild_f ph f s = Ok (tt, s') /\ Inv s' /\ pending s' = [].
  Proof. intros s Hs. apply (rebuild_f_terminates_aux (S (rk s)) (S (List.length (pending s))) s Hs); lia. Qed.

  (* with ONE number for all three fuels and as the loop fuel *)
  Corollary rebuild_f_terminates1 : forall s, Inv s -> exists k s', rebuild_f (fuel1 k) k s = Ok (tt, s') /\ Inv s' /\ pending s' = [].
  Proof.
    intros s Hs. destruct (rebuild_f_terminates s Hs) as (ph & f & s' & E & I' & P').
    set (k := Nat.max f (Nat.max (f_ui ph) (Nat.max (f_hp ph) (f_rb ph)))).
    exists k, s'. split; [|split; assumption].
    eapply fle_ok; [apply (fle_rebuild_f ph (fuel1 k)) with (f := f) (f' := k)|exact E].
    - unfold fuels_le, fuel1. cbn [f_ui f_hp f_rb]. unfold k. lia.
    - unfold k. lia.
  Qed.
End RebuildParam.

Print Assumptions rb_settles.
Print Assumptions rb_total.
Print Assumptions rebuild_settles.
Print Assumptions rebuild_settled_value.
Print Assumptions rebuild_f_terminates.
Print Assumptions rebuild_f_terminates1.
