(* EGraph/TerminationRound.v — the measure lemma of `rebuild`, reduced to ONE statement about a quiet round.

   rk (TerminationRank.v) strictly decreases whenever the progress measure moves (rk_progress); a round of the worklist
   moves along pext without allocating a class (pext_handle_pending, from the proved inv3/inv4/lmono lemmas).  Hence the
   measure lemma `round_measure` of TerminationRebuild.v follows from
     ROUND_QUIET : a successful round that leaves the progress measure unchanged does not enlarge the worklist
   (every insertion into the worklist — touched_class in shrink_slots / move_to / the symmetry branch of union_leaders,
   pending_insert in move_to — happens in a step that changes the measure, PROVIDED each round of the hp_loop changes it:
   that is the open lemma HP_quiet of TerminationHp.v). *)
From SE Require Import EGraph.Model EGraph.ModelMachine EGraph.ModelFacts EGraph.PendingFacts EGraph.UnionFindFacts
  EGraph.InvariantFacts EGraph.UnionInvariantFacts EGraph.AddCoversFacts EGraph.MonotoneFacts EGraph.HashconsFacts EGraph.ProgressFacts
  EGraph.NoErrorBase EGraph.NoErrorKey EGraph.NoErrorPending EGraph.NoErrorPendingKx EGraph.NoErrorFuel EGraph.ModelFuel
  EGraph.TerminationMeasure EGraph.TerminationSym EGraph.TerminationRank EGraph.TerminationRebuild.
Require Import ZArith Lia List.
Import ListNotations.

(* a round of the worklist moves along pext and allocates no class *)
Theorem pext_handle_pending : forall sh ty s x s', inv3 s -> handle_pending sh ty s = Ok (x, s') ->
  pext s s' /\ lc s' = lc s /\ inv3 s'.
Proof.
  intros sh ty s x s' I3 H.
  destruct (inv3_handle_pending pre_shape_keeps_proved sh ty s x s' H I3) as [I3' E].
  destruct (inv4_handle_pending sh ty s x s' H (inv3_eg_inv2 s I3)) as [_ X].
  split; [|split; [exact (proj1 (proj2 E))|exact I3']].
  split; [apply inv3_eg_inv; assumption|]. split; [apply inv3_eg_inv; assumption|].
  split; [apply mext_mext0; assumption|exact (l_handle_pending sh ty s x s' H)].
Qed.

Lemma rk_set_pending : forall s p, rk (set_pending s p) = rk s.
Proof. intros s p. reflexivity. Qed.

Definition ROUND_QUIET : Prop :=
  forall sh ty s u s', Jm (fun y => y = sh /\ ty = true) s -> Kx s -> na_get (pending s) sh = None ->
    handle_pending sh ty s = Ok (u, s') -> progress s' = progress s ->
    (List.length (pending s') <= List.length (pending s))%nat.

Section FromQuiet.
  Hypothesis round_quiet : ROUND_QUIET.

  Theorem round_measure_rk : forall s sh ty rest u s', Jm noex s -> Kx s -> pending s = (sh, ty) :: rest ->
    handle_pending sh ty (set_pending s rest) = Ok (u, s') ->
    (rk s' < rk s)%nat \/ (rk s' = rk s /\ (List.length (pending s') <= List.length rest)%nat).
  Proof.
    intros s sh ty rest u s' J K P H.
    destruct (Jm_pop s sh ty rest J P) as [J1 Nn]. pose proof (Kx_pop s sh ty rest J K P) as K1.
    destruct (pext_handle_pending sh ty _ u s' (Jm_inv3 _ _ J1) H) as (X & L & _).
    rewrite <- (rk_set_pending s rest).
    pose proof (rk_pext _ _ X L) as Le.
    destruct (Nat.eq_dec (rk s') (rk (set_pending s rest))) as [Q|Q]; [|left; lia].
    right. split; [exact Q|].
    assert (PE : progress s' = progress (set_pending s rest)).
    { destruct (proj1 (pext_progress_total _ _ X)) as (p & Pp). destruct (proj2 (pext_progress_total _ _ X)) as (p' & Pp').
      assert (D : {p' = p} + {p' <> p}) by (repeat decide equality).
      destruct D as [D|D]; [rewrite Pp, Pp', D; reflexivity|].
      assert (E : progress s' <> progress (set_pending s rest)) by (rewrite Pp, Pp'; intros E; inversion E; contradiction).
      pose proof (rk_progress _ _ X L E). lia. }
    exact (round_quiet sh ty _ u s' J1 K1 Nn H PE).
  Qed.

  Theorem rebuild_settles_quiet : forall s, Jm noex s -> Kx s ->
    exists f, (forall f', (f <= f')%nat -> rebuild f' s = rebuild f s) /\
              ((exists s', rebuild f s = Ok (tt, s') /\ Jm noex s' /\ Kx s' /\ pending s' = []) \/ rebuild f s = Err OutOfFuel).
  Proof. exact (rebuild_settled_value rk round_measure_rk). Qed.
End FromQuiet.

Print Assumptions pext_handle_pending.
Print Assumptions round_measure_rk.
Print Assumptions rebuild_settles_quiet.
