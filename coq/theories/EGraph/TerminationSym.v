(* EGraph/TerminationSym.v — a combinatorial bound on the order of the symmetry group of an e-class:
   the group of a class with n slots has at most n! elements (`gcount_fact`).

   Route: `ProgressFacts.grp_enum` enumerates the group as a duplicate-free list of permutations of the
   slot set; `perm_on_count` bounds the length of any such list by the factorial of the number of slots.
   The latter is pure list combinatorics: a permutation is determined by the list of its images
   (`GroupSound.po_ext`), the image lists are duplicate-free lists of length n over the slot set, and a
   duplicate-free list of such lists has at most n! elements (`inj_lists_count`, by splitting on the head
   element, `split_count`). *)
From SE Require Import Slots.SlotMap Slots.SlotMapFacts Group.Group Group.GroupSound
  EGraph.Model EGraph.UnionFindFacts EGraph.ProgressFacts.
From Coq Require Import List Arith Factorial Lia ZArith ZifyBool ZifyN ZifyNat.
Import ListNotations.

(* ------------------------------------------------------------------ *)
(* list helpers *)

Lemma NoDup_map_in {X Y : Type} (g : X -> Y) : forall M : list X,
  (forall x y, In x M -> In y M -> g x = g y -> x = y) -> NoDup M -> NoDup (map g M).
Proof.
  induction M as [|a M IH]; intros Inj ND; [constructor|].
  inversion ND as [|a' M' Ha NDM]; subst. cbn [map]. constructor.
  - intro Hin. apply in_map_iff in Hin. destruct Hin as (y & Ey & Hy).
    assert (y = a) by (apply Inj; [right; assumption|left; reflexivity|assumption]). subst. contradiction.
  - apply IH; [|assumption]. intros x y Hx Hy. apply Inj; right; assumption.
Qed.

Lemma NoDup_const_length {X : Type} (c : X) : forall L : list X,
  NoDup L -> (forall x, In x L -> x = c) -> (length L <= 1)%nat.
Proof.
  intros [|a [|b r]] ND Hc; cbn [length]; [lia|lia|]. exfalso.
  assert (a = c) by (apply Hc; left; reflexivity).
  assert (b = c) by (apply Hc; right; left; reflexivity). subst.
  inversion ND as [|a' M' Ha NDM]; subst. apply Ha. left; reflexivity.
Qed.

Lemma filter_split_length {X : Type} (q : X -> bool) : forall L : list X,
  length L = (length (filter q L) + length (filter (fun x => negb (q x)) L))%nat.
Proof.
  induction L as [|a L IH]; [reflexivity|]. cbn [filter]. destruct (q a); cbn [negb length]; lia.
Qed.

(* a duplicate-free list whose elements are classified by `f` into the classes `univ`, each class having
   at most B members, has at most |univ| * B elements *)
Lemma split_count {X : Type} (f : X -> N) : forall (univ : list N) (L : list X) (B : nat),
  NoDup L -> (forall x, In x L -> In (f x) univ) ->
  (forall h M, NoDup M -> incl M L -> (forall x, In x M -> f x = h) -> (length M <= B)%nat) ->
  (length L <= length univ * B)%nat.
Proof.
  induction univ as [|h u IH]; intros L B ND Hin HB.
  - destruct L as [|x L]; [cbn; lia|]. exfalso. apply (Hin x). left; reflexivity.
  - rewrite (filter_split_length (fun x => N.eqb (f x) h) L).
    assert (H1 : (length (filter (fun x => N.eqb (f x) h) L) <= B)%nat).
    { apply (HB h).
      - apply NoDup_filter; assumption.
      - intros x Hx. apply filter_In in Hx. apply Hx.
      - intros x Hx. apply filter_In in Hx. destruct Hx as [_ Hx]. apply N.eqb_eq in Hx. assumption. }
    assert (H2 : (length (filter (fun x => negb (N.eqb (f x) h)) L) <= length u * B)%nat).
    { apply IH.
      - apply NoDup_filter; assumption.
      - intros x Hx. apply filter_In in Hx. destruct Hx as [HxL Hx].
        destruct (Hin x HxL) as [E|I]; [|assumption].
        exfalso. rewrite <- E, N.eqb_refl in Hx. discriminate.
      - intros h' M NDM IM HM. apply (HB h'); [assumption| |assumption].
        intros x Hx. apply IM in Hx. apply filter_In in Hx. apply Hx. }
    cbn [length]. lia.
Qed.

(* ------------------------------------------------------------------ *)
(* the number of duplicate-free lists of length n over a set of n elements is at most n! *)

Lemma inj_lists_count : forall (n : nat) (univ : list N) (L : list (list N)),
  length univ = n -> NoDup univ -> NoDup L ->
  (forall x, In x L -> NoDup x /\ length x = n /\ incl x univ) ->
  (length L <= fact n)%nat.
Proof.
  induction n as [|n IH]; intros univ L Hlen NDu NDL HL.
  - cbn [fact]. apply (NoDup_const_length (@nil N)); [assumption|].
    intros x Hx. destruct (HL x Hx) as (_ & Lx & _). destruct x; [reflexivity|discriminate].
  - assert (Hb : (length L <= length univ * fact n)%nat).
    { apply (split_count (fun x => hd 0%N x)); [assumption| |].
      - intros x Hx. destruct (HL x Hx) as (_ & Lx & Ix). destruct x as [|a t]; [discriminate|].
        cbn [hd]. apply Ix. left; reflexivity.
      - intros h M NDM IM HM.
        destruct M as [|x0 M0] eqn:EM; [cbn [length]; pose proof (lt_O_fact n); lia|]. rewrite <- EM in *.
        (* h is in univ *)
        assert (Hh : In h univ).
        { assert (Hx0 : In x0 M) by (rewrite EM; left; reflexivity).
          pose proof (HM x0 Hx0) as Eh. destruct (HL x0 (IM x0 Hx0)) as (_ & Lx & Ix).
          destruct x0 as [|a t]; [discriminate|]. cbn [hd] in Eh. subst a. apply Ix. left; reflexivity. }
        destruct (in_split h univ Hh) as (u1 & u2 & Eu). subst univ.
        apply NoDup_remove in NDu. destruct NDu as [NDu' Hnh].
        (* every member of M is h :: t *)
        assert (Hshape : forall x, In x M -> exists t, x = h :: t /\ NoDup t /\ length t = n /\ incl t (u1 ++ u2)).
        { intros x Hx. pose proof (HM x Hx) as Eh. destruct (HL x (IM x Hx)) as (NDx & Lx & Ix).
          destruct x as [|a t]; [discriminate|]. cbn [hd] in Eh. subst a. exists t.
          inversion NDx as [|a' M' Ha NDt]; subst. cbn [length] in Lx.
          split; [reflexivity|]. split; [assumption|]. split; [lia|].
          intros y Hy. assert (Hyu : In y (u1 ++ h :: u2)) by (apply Ix; right; assumption).
          apply in_app_or in Hyu. apply in_or_app. destruct Hyu as [A|[A|A]]; [left; assumption| |right; assumption].
          subst y. contradiction. }
        rewrite <- (map_length (@tl N) M). apply (IH (u1 ++ u2)).
        + rewrite app_length in *. cbn [length] in Hlen. lia.
        + assumption.
        + apply NoDup_map_in; [|assumption]. intros x y Hx Hy E.
          destruct (Hshape x Hx) as (tx & Ex & _). destruct (Hshape y Hy) as (ty & Ey & _). subst x y.
          cbn [tl] in E. subst. reflexivity.
        + intros t Ht. apply in_map_iff in Ht. destruct Ht as (x & Ex & Hx).
          destruct (Hshape x Hx) as (tx & Ex' & A & B & C). subst x. cbn [tl] in Ex. subst tx.
          split; [assumption|]. split; assumption. }
    rewrite Hlen in Hb. cbn [fact]. lia.
Qed.

(* ------------------------------------------------------------------ *)
(* permutations of a slot set *)

(* the list of images of p along sl *)
Definition img (sl : sset) (p : perm) : list N :=
  map (fun k => match get p k with Some v => v | None => 0%N end) sl.

Lemma perm_on_equiv : forall (a b : sset) (p : perm),
  (forall k, In k a <-> In k b) -> perm_on a p -> perm_on b p.
Proof.
  intros a b p E (W & K & V & I & S). split; [assumption|]. split; [|split; [|split]].
  - intro k. rewrite K. apply E.
  - intros k v H. apply E. eapply V; eauto.
  - assumption.
  - intros v Hv. apply S. apply E. assumption.
Qed.

Lemma perm_on_count_nodup : forall (sl : sset) (l : list perm),
  NoDup sl -> NoDup l -> (forall p, In p l -> perm_on sl p) -> (length l <= fact (length sl))%nat.
Proof.
  intros sl l NDs NDl Hl. rewrite <- (map_length (img sl) l).
  apply (inj_lists_count (length sl) sl); [reflexivity|assumption| |].
  - apply NoDup_map_in; [|assumption]. intros p q Hp Hq E.
    apply (po_ext sl); [apply Hl; assumption|apply Hl; assumption|].
    intros k Hk. unfold img in E.
    pose proof (proj1 map_ext_in_iff E k Hk) as Ek. cbv beta in Ek.
    destruct (po_get sl p k (Hl p Hp) Hk) as (v & Ev & _).
    destruct (po_get sl q k (Hl q Hq) Hk) as (w & Ew & _).
    rewrite Ev, Ew in *. congruence.
  - intros x Hx. apply in_map_iff in Hx. destruct Hx as (p & Ex & Hp). subst x.
    pose proof (Hl p Hp) as Pp. split; [|split].
    + unfold img. apply NoDup_map_in; [|assumption]. intros k1 k2 H1 H2 E.
      destruct (po_get sl p k1 Pp H1) as (v & Ev & _).
      destruct (po_get sl p k2 Pp H2) as (w & Ew & _).
      rewrite Ev, Ew in E. subst w.
      destruct Pp as (_ & _ & _ & I & _). eapply I; eauto.
    + unfold img. apply map_length.
    + intros y Hy. unfold img in Hy. apply in_map_iff in Hy. destruct Hy as (k & Ey & Hk).
      destruct (po_get sl p k Pp Hk) as (v & Ev & Hv). rewrite Ev in Ey. subst y. assumption.
Qed.

(* no premise on sl: duplicates in sl only weaken the bound *)
Lemma perm_on_count : forall (sl : sset) (l : list perm),
  NoDup l -> (forall p, In p l -> perm_on sl p) -> (length l <= fact (length sl))%nat.
Proof.
  intros sl l NDl Hl.
  assert (H : (length l <= fact (length (nodup N.eq_dec sl)))%nat).
  { apply perm_on_count_nodup; [apply NoDup_nodup|assumption|].
    intros p Hp. apply (perm_on_equiv sl); [|apply Hl; assumption].
    intro k. symmetry. apply nodup_In. }
  assert (Hle : (length (nodup N.eq_dec sl) <= length sl)%nat).
  { apply NoDup_incl_length; [apply NoDup_nodup|]. intros k Hk. apply nodup_In in Hk. assumption. }
  pose proof (fact_le _ _ Hle). lia.
Qed.

(* ------------------------------------------------------------------ *)
(* the order of the symmetry group of a class is at most (number of slots)! *)

Theorem gcount_fact : forall c, grp_ok c ->
  (N.to_nat (gcount (c_group c)) <= fact (List.length (c_slots c)))%nat.
Proof.
  intros c G. destruct (grp_enum c G) as (l & ND & IN & CNT).
  rewrite CNT, Nat2N.id. apply perm_on_count; [assumption|].
  intros p Hp. apply IN in Hp. apply Hp.
Qed.

Print Assumptions gcount_fact.
