(* EGraph/TerminationTotal.v — C08, TERMINATION HALF: the fuel-parametric model is TOTAL on well-formed histories,
   REDUCED to five precisely stated transfer statements about the parametric functions of ModelFuel.v.

   DEPENDENCY PICTURE (why there is no cheap transfer).  `Print Opaque Dependencies` of RI_round, round_measure_x, nf_rebuild
   and hp_loop_settled_value_x lists 169 opaque lemmas whose STATEMENT mentions one of Model.v's constant-bearing functions:
     uint (= union_internal 400)                       ~45 lemmas (X_uint, X_pcc_uint, X_shrink_slots at uint)
     handle_shrink_in_upwards_merge / handle_congruence / determine_self_symmetries   ~20 lemmas each
     hp_loop (its OWN fuel is a parameter everywhere; the uint inside handle_shrink is not)   ~25 lemmas
     handle_pending (hp_loop 100 inside)               ~30 lemmas
   spread over ~45 files (AddCoversFacts, EntriesPersist, HashconsFacts, KidsCov, KidsFacts, Mod4Facts, ModelFacts,
   MonotoneFacts, NoErrorInv, NoErrorPending{A,SH,NB,HP,Kx}, ProgressFacts, SelfSym{Defs,Cond,Dss,Union,Facts}, SoundBase,
   SoundClosed, SoundStruct, SoundUnion, UsesConv, TerminationHp, TerminationQuiet, TerminationRound, TerminationCap, TerminationCapRebuild).
   - Everything about `union_internal f`, `shrink_slots ui`, `move_to ui`, `union_leaders ui` is stated for all f / in
     Sections parametric in ui; each X_uint is the instance at ui_fuel of a lemma X_union_internal stated for all fuels.
   - Everything about `rebuild f` and `hp_loop f` is for an arbitrary OUTER fuel; but the statements are about Model.v's
     rebuild/hp_loop, i.e. with `uint` and `hp_loop 100` INSIDE handle_shrink_in_upwards_merge / handle_pending.
   - A run of the parametric function at fuels above the constants either equals Model.v's run or Model.v's run is
     Err OutOfFuel (the fle lemmas of ModelFuel.v); in the second case NO existing lemma says anything about the parametric result
     (the lemmas speak about final states of successful Model.v runs only; no intermediate state is exposed).  So the
     Ok-direction invariants of the middle layer (handle_shrink / handle_congruence / determine_self_symmetries / hp_loop /
     handle_pending) do not transfer without replaying those ~125 lemmas with `uint_f ph`, `hp_loop_f ph` substituted
     (a textual replay: the proofs never use the values 400/100/2000).
   The five transfer statements below are the interface of that replay.

   PROVED HERE from the Section hypotheses
     round_inv_f  (parametric analogue of TerminationCapRebuild.round_measure [= RI_round + round_measure_x] and of the
                   `ext` half of NoErrorPending.Jm_handle_pending)
     round_nf_f   (parametric analogue of NoErrorPending.nf_handle_pending, at the popped RI state as in nf_rebuild)
     round_fuel_f (parametric analogue of TerminationCap.hp_loop_settles_gen_x / hp_loop_terminates_small_x with the bound
                   f_ui instead of ui_fuel, and of TerminationUnion.union_internal_terminates_bound /
                   shrink_slots_total_proper at the three call sites of uint_f: no OutOfFuel when both fuels exceed Aw s)
     uint_inv_f   (general-fuel form of TerminationCapRebuild.RI_uint [Jm_uint, Kx_uint, sse_uint, src_uint])
     op_add_f     (parametric analogue of NoErrorAdd.nf_add_expr + B_add_expr + SelfSymFacts (sse/srcx along add_expr),
                   exactly the hypothesis of Termination.operations_terminate_f at Bp := BX)
   :
     handle_pending_f_total   one round of the parametric worklist from an RI state succeeds at fuel1 (S (Aw s)), keeps RI,
                              extends the state, decreases (rk, |pending|) lexicographically
     rebuild_f_terminates_RI  RI s -> exists ph f s', rebuild_f ph f s = Ok (tt, s') /\ RI s' /\ ext s s' /\ pending s' = []
     op_union_f_BX            eg_union_f is total on BX states with covered arguments and keeps BX (UNCONDITIONAL parts:
                              synify_app_id total, union_internal total by union_internal_terminates_bound)
     operations_terminate, operations_terminate1.
   UNCONDITIONAL: BX_empty, BX_B (BX s := RI s /\ pending s = [] implies NoErrorAddDef.B s: ctr mod 4 = 1 is part of m4),
   tt_synify_app_id. *)
From SE Require Import EGraph.Model EGraph.ModelFacts EGraph.ModelMachine EGraph.UnionFindFacts EGraph.UnionInvariantFacts
  EGraph.Mod4Facts EGraph.KidsFacts EGraph.RepFacts EGraph.HashconsFacts EGraph.OpsPreFacts
  EGraph.NoErrorBase EGraph.NoErrorShape EGraph.NoErrorInv EGraph.NoErrorTop EGraph.NoErrorAddDef EGraph.NoError EGraph.NoErrorFuel
  EGraph.ModelFuel EGraph.TerminationMeasure EGraph.TerminationRank EGraph.TerminationBase EGraph.TerminationUnion
  EGraph.TerminationRebuild EGraph.SelfSymDefs EGraph.Termination EGraph.TerminationCapRebuild.
Require Import ZArith Lia List.
Import ListNotations.

Local Notation ectr := Model.ctr.

(* ------------------------------------------------------------------ *)
(* 1. the boundary invariant *)

Definition BX (s : egraph) : Prop := RI s /\ pending s = [].

Lemma BX_B : forall s, BX s -> B s.
Proof.
  intros s [(J & K & _ & _) P]. apply B_intro; [exact J|exact K|exact P|].
  destruct (jm_kinv _ _ J) as (_ & M & _). exact (proj1 M).
Qed.

Lemma BX_empty : BX empty_egraph.
Proof.
  destruct (RI_reachable [] [] [] empty_egraph (Forall_nil _) eq_refl) as (R & P & _). split; assumption.
Qed.

(* ------------------------------------------------------------------ *)
(* 2. synify_app_id is total on ids in range (no fuel involved) *)

Fixpoint ffill (l : list slot) (m : slotmap) : M slotmap :=
  match l with
  | [] => ret m
  | x :: t => if contains_key m x then ffill t m else dom f <- fresh; ffill t (insert x f m)
  end.

Lemma tt_ffill : forall l m s, totM (ffill l m) s.
Proof.
  induction l as [|x t IH]; intros m s; cbn [ffill]; [apply tt_ret|].
  destruct (contains_key m x); [apply IH|].
  apply tt_bind; [apply tt_fresh|]. intros f s1 _. apply IH.
Qed.

Lemma tt_synify_app_id : forall a s, (N.to_nat (aid a) < lc s)%nat -> totM (synify_app_id a) s.
Proof.
  intros a s L. unfold synify_app_id.
  apply tt_bind_reads.
  - unfold syn_slots. destruct (get_class_tot s (aid a) L) as [c ->]. cbn [bind]. apply tot_ok.
  - intros ss _. apply tt_bind; [|intros; apply tt_ret].
    exact (tt_ffill ss (am a) s).
Qed.

(* ------------------------------------------------------------------ *)
(* 3. totality from the transfer statements *)

Section Transfer.
  (* every successful parametric round keeps RI, extends the state and decreases the measure *)
  Hypothesis round_inv_f : forall ph s sh ty rest u s', RI s -> pending s = (sh, ty) :: rest ->
    handle_pending_f ph sh ty (set_pending s rest) = Ok (u, s') ->
    RI s' /\ ext s s' /\ ((rk s' < rk s)%nat \/ (rk s' = rk s /\ (List.length (pending s') <= List.length rest)%nat)).
  (* a parametric round never fails with a non-fuel error *)
  Hypothesis round_nf_f : forall ph s sh ty rest e, RI s -> pending s = (sh, ty) :: rest ->
    handle_pending_f ph sh ty (set_pending s rest) = Err e -> e = OutOfFuel.
  (* fuels above the weight are sufficient for one round *)
  Hypothesis round_fuel_f : forall ph s sh ty rest, RI s -> pending s = (sh, ty) :: rest ->
    (Aw s < f_ui ph)%nat -> (Aw s < f_hp ph)%nat ->
    handle_pending_f ph sh ty (set_pending s rest) <> Err OutOfFuel.

  Theorem handle_pending_f_total : forall s sh ty rest, RI s -> pending s = (sh, ty) :: rest ->
    exists u s', handle_pending_f (fuel1 (S (Aw s))) sh ty (set_pending s rest) = Ok (u, s') /\ RI s' /\ ext s s' /\
      ((rk s' < rk s)%nat \/ (rk s' = rk s /\ (List.length (pending s') <= List.length rest)%nat)).
  Proof.
    intros s sh ty rest R P.
    destruct (handle_pending_f (fuel1 (S (Aw s))) sh ty (set_pending s rest)) as [[u s']|e] eqn:H.
    - exists u, s'. split; [reflexivity|]. exact (round_inv_f _ s sh ty rest u s' R P H).
    - exfalso. pose proof (round_nf_f _ s sh ty rest e R P H) as Ee. subst e.
      apply (round_fuel_f (fuel1 (S (Aw s))) s sh ty rest R P); [cbn [fuel1 f_ui]; lia|cbn [fuel1 f_hp]; lia|exact H].
  Qed.

  Theorem rebuild_f_terminates_RI : forall s, RI s ->
    exists ph f s', rebuild_f ph f s = Ok (tt, s') /\ RI s' /\ ext s s' /\ pending s' = [].
  Proof.
    intros s R.
    destruct (rebuild_f_terminates (fun x => RI x /\ ext s x) rk) with (s := s) as (ph & f & s' & H & [R' X'] & P').
    - intros s0 sh ty rest [R0 X0] P0.
      destruct (handle_pending_f_total s0 sh ty rest R0 P0) as (u & s1 & H1 & R1 & X1 & D).
      exists (fuel1 (S (Aw s0))), u, s1. split; [exact H1|]. split; [|exact D].
      split; [exact R1|exact (ext_trans _ _ _ X0 X1)].
    - split; [exact R|apply ext_refl].
    - exists ph, f, s'. split; [exact H|]. split; [exact R'|]. split; [exact X'|exact P'].
  Qed.

  (* with the loop fuel taken from the fuel assignment *)
  Corollary rebuild_f_terminates_RI_top : forall s, RI s ->
    exists ph s', rebuild_f ph (f_rb ph) s = Ok (tt, s') /\ RI s' /\ ext s s' /\ pending s' = [].
  Proof.
    intros s R. destruct (rebuild_f_terminates_RI s R) as (ph & f & s' & H & Q).
    exists {| f_ui := f_ui ph; f_hp := f_hp ph; f_rb := Nat.max f (f_rb ph) |}, s'. split; [|exact Q].
    cbn [f_rb]. eapply fle_ok; [|exact H]. apply fle_rebuild_f; [|lia].
    unfold fuels_le. cbn [f_ui f_hp f_rb]. lia.
  Qed.

  (* union_internal at an arbitrary fuel keeps RI *)
  Hypothesis uint_inv_f : forall f l r s b s', RI s -> covers s l -> covers s r ->
    union_internal f l r s = Ok (b, s') -> RI s' /\ ext s s'.

  Theorem op_union_f_BX : forall l r s, BX s -> covers s l -> covers s r ->
    exists ph b s', eg_union_f ph l r s = Ok (b, s') /\ BX s' /\ ext s s'.
  Proof.
    intros l r s [R _] Cl Cr.
    destruct (tt_synify_app_id l s (covers_lt _ _ Cl)) as [[l1 s1] H1].
    destruct (RI_synify l s l1 s1 R H1) as [R1 X1].
    pose proof (covers_ext _ _ _ X1 Cl) as Cl1. pose proof (covers_ext _ _ _ X1 Cr) as Cr1.
    destruct (tt_synify_app_id r s1 (covers_lt _ _ Cr1)) as [[r1 s2] H2].
    destruct (RI_synify r s1 r1 s2 R1 H2) as [R2 X2].
    pose proof (covers_ext _ _ _ X2 Cl1) as Cl2. pose proof (covers_ext _ _ _ X2 Cr1) as Cr2.
    pose proof R2 as (J2 & _).
    destruct (union_internal_terminates_bound noex (S (Aw s2)) l r s2 (jm_kinv _ _ J2) (jm_hce _ _ J2) Cl2 Cr2 (Nat.lt_succ_diag_r _))
      as [[out s3] H3].
    destruct (uint_inv_f _ l r s2 out s3 R2 Cl2 Cr2 H3) as [R3 X3].
    destruct (rebuild_f_terminates_RI_top s3 R3) as (ph1 & s4 & H4 & R4 & X4 & P4).
    set (ph := {| f_ui := Nat.max (S (Aw s2)) (f_ui ph1); f_hp := f_hp ph1; f_rb := f_rb ph1 |}).
    assert (L1 : fuels_le ph1 ph) by (unfold fuels_le, ph; cbn [f_ui f_hp f_rb]; lia).
    assert (H3' : uint_f ph l r s2 = Ok (out, s3)).
    { unfold uint_f. apply (union_internal_fuel_mono (S (Aw s2))); [unfold ph; cbn [f_ui]; lia|exact H3]. }
    assert (H4' : rebuild_f ph (f_rb ph) s3 = Ok (tt, s4)).
    { eapply fle_ok; [|exact H4]. apply fle_rebuild_f; [exact L1|unfold ph; cbn [f_rb]; lia]. }
    exists ph, out, s4. split; [|split].
    - unfold eg_union_f, mbind. rewrite H1, H2, H3', H4'. reflexivity.
    - split; assumption.
    - exact (ext_trans _ _ _ X1 (ext_trans _ _ _ X2 (ext_trans _ _ _ X3 X4))).
  Qed.

  (* insertion *)
  Hypothesis op_add_f : forall t s, BX s -> twf t -> rt_pre (ectr s) t ->
    exists ph a s', add_expr_f ph t s = Ok (a, s') /\ BX s' /\ ext0 s s' /\ covers s' a.

  Theorem operations_terminate : forall terms ops, Forall term_static terms -> ops_in_range terms ops ->
    exists ph hs s, run_ops_f ph terms ops [] empty_egraph = Ok (hs, s).
  Proof. exact (operations_terminate_f BX BX_empty op_add_f op_union_f_BX). Qed.

  Corollary operations_terminate1 : forall terms ops, Forall term_static terms -> ops_in_range terms ops ->
    exists k hs s, forall k', (k <= k')%nat -> run_ops_f (fuel1 k') terms ops [] empty_egraph = Ok (hs, s).
  Proof. exact (operations_terminate_f1 BX BX_empty op_add_f op_union_f_BX). Qed.
End Transfer.

Print Assumptions BX_B.
Print Assumptions BX_empty.
Print Assumptions tt_synify_app_id.
Print Assumptions handle_pending_f_total.
Print Assumptions rebuild_f_terminates_RI.
Print Assumptions op_union_f_BX.
Print Assumptions operations_terminate.
Print Assumptions operations_terminate1.
