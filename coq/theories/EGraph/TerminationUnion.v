(* EGraph/TerminationUnion.v — TERMINATION of union_internal (C08, termination half).

   Theorem union_internal_terminates_bound :
     kinv s -> hce E s -> covers s l -> covers s r -> (Aw s < f)%nat -> exists res, union_internal f l r s = Ok res
   (Aw = TerminationMeasure.v: number of live classes + total number of their slots), hence
   `union_internal_terminates` (exists f res, ...), for EVERY state satisfying the invariants (no fuel constant involved:
   union_internal passes its own fuel down).  Reason: union_internal recurses only after shrink_slots has removed at
   least one slot from a leader class (`cap` is a proper subset), and every step moves along `ext` + `lmono`, along
   which Aw does not increase.
   The walk replays NoErrorUnion.v with `totM` (Ok) instead of `nf` (no non-fuel error). *)
From SE Require Import Slots.SlotMapFacts Group.GroupSound Lang.LangFacts Lang.ShapeFacts Lang.RenameFacts
  EGraph.Model EGraph.ModelFacts EGraph.ModelMachine EGraph.UnionFindFacts EGraph.InvariantFacts
  EGraph.UnionInvariantFacts EGraph.AddCoversFacts EGraph.Mod4Facts EGraph.MatchDefs EGraph.HashconsFacts
  EGraph.KidsFacts EGraph.SelfSymUnion EGraph.MonotoneFacts EGraph.ProgressFacts EGraph.NoErrorBase EGraph.NoErrorUnion
  EGraph.TerminationMeasure EGraph.TerminationBase.
From SE Require EGraph.NoErrorPendingSH.
Require Import ZArith Lia List.
Import ListNotations.

Local Notation "a ** b" := (compose_partial a b) (at level 40, left associativity).
Local Notation inv := inverse_nocheck.
Local Notation ectr := Model.ctr.

Local Ltac neq := repeat match goal with
  | H : (_ =? _) = true |- _ => apply N.eqb_eq in H
  | H : (_ =? _) = false |- _ => apply N.eqb_neq in H
  end.

(* ------------------------------------------------------------------ *)
(* 1. primitives, move_to, the prefix of shrink_slots: total (replay of NoErrorUnion.v sections 3-5) *)

Lemma tt_touched_class : forall i ty s, (N.to_nat i < lc s)%nat -> totM (touched_class i ty) s.
Proof.
  intros i ty s L. unfold touched_class.
  apply tt_bind_reads; [apply get_class_tot; exact L|]. intros c _.
  apply (tt_iterM_inv _ _ (fun _ => True)); [exact I| |auto]. intros x s0 _ _. apply tt_pending_touch.
Qed.

Lemma touched_class_lc : forall i ty s x s', touched_class i ty s = Ok (x, s') -> lc s' = lc s.
Proof. intros i ty s x s' H. apply s_touched_class in H. exact (proj2 (sem_eq_lengths _ _ (proj1 H))). Qed.

Lemma tt_usages_iter : forall (F : eclass -> list node) l s, (forall r, In r l -> (N.to_nat r < lc s)%nat) ->
  totM (iterM (fun r => upd_class r (fun c => with_usages c (F c))) l) s.
Proof.
  intros F l s Hl. apply (tt_iterM_inv _ _ (fun s0 => lc s0 = lc s)); [reflexivity| |].
  - intros r s0 Hr E. apply tt_upd_class. rewrite E. apply Hl. exact Hr.
  - intros r s0 u s1 _ E H. destruct (upd_class_lc _ _ _ _ _ H) as [A _]. congruence.
Qed.

Lemma tt_raw_add : forall id sh bij src s, (N.to_nat id < lc s)%nat ->
  (forall r, In r (node_ids sh) -> (N.to_nat r < lc s)%nat) -> totM (raw_add_to_class id (sh, bij) src) s.
Proof.
  intros id sh bij src s L Hl. unfold raw_add_to_class.
  apply tt_bind; [apply tt_upd_class; exact L|]. intros u1 s1 H1. destruct (upd_class_lc _ _ _ _ _ H1) as [E1 _].
  apply tt_bind; [apply tt_modify|]. intros u2 s2 H2. inversion H2; subst u2 s2; clear H2.
  apply (tt_usages_iter (fun c => ns_add (c_usages c) sh)). intros r Hr. cbn [classes set_hashcons]. rewrite E1. apply Hl. exact Hr.
Qed.

Lemma tt_raw_remove : forall id sh s, (N.to_nat id < lc s)%nat ->
  (forall r, In r (node_ids sh) -> (N.to_nat r < lc s)%nat) -> na_get (cnodes s id) sh <> None ->
  totM (raw_remove_from_class id sh) s.
Proof.
  intros id sh s L Hl Hg. unfold raw_remove_from_class.
  apply tt_bind_reads; [apply get_class_tot; exact L|]. intros c Hc. cbv zeta.
  apply tt_bind; [apply tt_upd_class; exact L|]. intros u1 s1 H1. destruct (upd_class_lc _ _ _ _ _ H1) as [E1 _].
  apply tt_bind; [apply tt_modify|]. intros u2 s2 H2. inversion H2; subst u2 s2; clear H2.
  apply tt_bind.
  { apply (tt_usages_iter (fun c => ns_remove (c_usages c) sh)). intros r Hr. cbn [classes set_hashcons]. rewrite E1. apply Hl. exact Hr. }
  intros u3 s3 _. unfold cnodes in Hg. rewrite Hc in Hg.
  destruct (na_get (c_nodes c) sh) as [p|]; [apply tt_ret|congruence].
Qed.

(* ------------------------------------------------------------------ *)
(* 4. move_to *)

Lemma tt_move_loop : forall idf idt mi l s,
  idt <> idf -> (N.to_nat idf < lc s)%nat -> (N.to_nat idt < lc s)%nat ->
  na_nodup l ->
  (forall sh p, In (sh, p) l -> na_get (cnodes s idf) sh <> None) ->
  (forall sh p r, In (sh, p) l -> In r (node_ids sh) -> (N.to_nat r < lc s)%nat) ->
  totM (iterM (fun e => let '(sh, (bij, src_id)) := e in
                  dom _ <- raw_remove_from_class idf sh;
                  dom new_bij <- with_ctr (compose_fresh bij mi);
                  dom _ <- raw_add_to_class idt (sh, new_bij) src_id;
                  pending_insert sh true) l) s.
Proof.
  intros idf idt mi. induction l as [|[sh [bij src]] t IH]; intros s Hn Lf Lt Nd Hin Hr; cbn [iterM]; [apply tt_ret|].
  assert (Hsh : forall r, In r (node_ids sh) -> (N.to_nat r < lc s)%nat).
  { intros r Hr0. eapply Hr; [left; reflexivity|exact Hr0]. }
  apply tt_bind.
  - apply tt_bind; [apply tt_raw_remove; [exact Lf|exact Hsh|eapply Hin; left; reflexivity]|].
    intros p s1 H1. pose proof (proj2 (sem_eq_lengths _ _ (proj1 (s_raw_remove _ _ _ _ _ H1)))) as E1.
    apply tt_bind; [apply tt_with_ctr|]. intros nb s2 H2. apply with_ctr_spec in H2. subst s2.
    apply tt_bind; [|intros; apply tt_pending_insert].
    apply tt_raw_add; cbn [classes set_ctr]; rewrite E1; [exact Lt|exact Hsh].
  - intros u s4 H.
    apply mbind_inv in H. destruct H as (p & s1 & H1 & H).
    apply mbind_inv in H. destruct H as (nb & s2 & H2 & H).
    apply mbind_inv in H. destruct H as (u3 & s3 & H3 & H). inversion H; subst u s4; clear H.
    pose proof (proj2 (sem_eq_lengths _ _ (proj1 (s_raw_remove _ _ _ _ _ H1)))) as E1.
    pose proof (proj2 (sem_eq_lengths _ _ (proj1 (s_compose_fresh _ _ _ _ _ H2)))) as E2.
    pose proof (proj2 (sem_eq_lengths _ _ (proj1 (s_raw_add _ _ _ _ _ _ H3)))) as E3.
    destruct (raw_remove_views _ _ _ _ _ H1) as (_ & _ & _ & _ & R1 & _).
    apply with_ctr_spec in H2. subst s2.
    destruct (raw_add_views _ _ _ _ _ _ _ H3) as (_ & _ & _ & _ & A2 & _).
    assert (CN : cnodes (set_pending s3 (na_set (pending s3) sh true)) idf = na_remove (cnodes s idf) sh).
    { change (cnodes s3 idf = na_remove (cnodes s idf) sh). rewrite (A2 idf (not_eq_sym Hn)).
      change (cnodes s1 idf = na_remove (cnodes s idf) sh). exact R1. }
    assert (LC : lc (set_pending s3 (na_set (pending s3) sh true)) = lc s).
    { cbn [classes set_pending]. cbn [classes set_ctr] in E3. congruence. }
    destruct Nd as [Nsh Nt].
    apply IH; [exact Hn|rewrite LC; exact Lf|rewrite LC; exact Lt|exact Nt| |].
    + intros sh' p' Hin'. rewrite CN.
      assert (sh' <> sh) by (intros ->; exact (ms_in_get_none _ _ _ Hin' Nsh)).
      rewrite na_get_remove_other by assumption. eapply Hin. right. exact Hin'.
    + intros sh' p' r Hin' Hr'. rewrite LC. eapply Hr; [right; exact Hin'|exact Hr'].
Qed.

Theorem tt_move_to : forall E from to s, kinv s -> hce E s -> lcanon s from -> lcanon s to ->
  aid to <> aid from -> values (am from) = values (am to) -> totM (move_to from to) s.
Proof.
  intros E from to s Hk [T _] [Lf Cf] [Lt Ct] Hn V. unfold move_to. cbv zeta.
  pose proof Cf as (cf & Hcf & Gf & Wf & Bf & Kf). pose proof Ct as (ct & Hct & Gt & Wt & Bt & Kt).
  pose proof (get_class_lt _ _ _ Hcf) as Lcf. pose proof (get_class_lt _ _ _ Hct) as Lct.
  apply tt_bind.
  { apply tt_unionfind_set. destruct Lf as (e & He & _). pose proof (uentry_lt _ _ _ He). lia. }
  intros u1 s1 H1.
  pose proof (unionfind_set_classes _ _ _ _ _ H1) as Cl1.
  assert (GC : forall j, get_class s1 j = get_class s j) by (intros j; unfold get_class; rewrite Cl1; reflexivity).
  apply tt_bind_reads; [rewrite GC, Hcf; apply tot_ok|]. intros cf1 Hcf1. rewrite GC, Hcf in Hcf1. inversion Hcf1; subst cf1; clear Hcf1.
  apply tt_bind.
  { apply tt_move_loop.
    - exact Hn.
    - rewrite Cl1; exact Lcf.
    - rewrite Cl1; exact Lct.
    - pose proof (tb_cn s T (aid from)) as Nd. unfold cnodes in Nd. rewrite Hcf in Nd. exact Nd.
    - intros sh p Hin G. unfold cnodes in G. rewrite GC, Hcf in G. exact (ms_in_get_none _ _ _ Hin G).
    - intros sh p r Hin Hr. rewrite Cl1.
      destruct (kinv_kids s Hk _ _ _ Hcf Hin) as [_ KF]. cbn [fst] in KF.
      unfold node_ids in Hr. apply in_map_iff in Hr. destruct Hr as (a & <- & Ha).
      apply covers_lt. exact (proj1 (proj1 (Forall_forall _ _) KF a Ha)). }
  intros u2 s2 H2.
  assert (S2 : semR s1 s2).
  { revert H2. apply s_iterM. intros [sh [bij src]].
    apply s_bind; [apply s_raw_remove|]. intros _. apply s_bind; [apply s_compose_fresh|]. intros nb.
    apply s_bind; [apply s_raw_add|]. intros _. apply s_pending_insert. }
  pose proof (proj2 (sem_eq_lengths _ _ (proj1 S2))) as E2. rewrite Cl1 in E2.
  rewrite <- GC in Hcf, Hct.
  destruct (get_class_sem_ok s1 s2 _ _ (proj1 S2) Hcf) as (cf2 & Hcf2 & Csf).
  destruct (get_class_sem_ok s1 s2 _ _ (proj1 S2) Hct) as (ct2 & Hct2 & Cst).
  apply tt_bind_reads; [rewrite Hcf2; apply tot_ok|]. intros cf2' Ef. rewrite Hcf2 in Ef. inversion Ef; subst cf2'; clear Ef.
  apply tt_bind_reads; [rewrite Hct2; apply tot_ok|]. intros ct2' Et. rewrite Hct2 in Et. inversion Et; subst ct2'; clear Et.
  pose proof (grp_ok_csem _ _ (eq_sym Csf) Gf) as Gf2. pose proof (grp_ok_csem _ _ (eq_sym Cst) Gt) as Gt2.
  apply csem_inv in Csf. destruct Csf as (SLf & _ & _). apply csem_inv in Cst. destruct Cst as (SLt & _ & _).
  apply tt_bind_lift.
  { apply gadd_set_tot; [exact Gt2|].
    apply Forall_forall. intros q Hq. apply in_map_iff in Hq. destruct Hq as (pp & <- & Hpp).
    destruct (quot_bij (am from) (am to) (c_slots cf) (c_slots ct) Wf Wt Bf Bt Kf Kt V) as (F1 & F2 & F3 & F4 & F5).
    rewrite SLt. apply (conj_by_perm_on (c_slots cf) (c_slots ct)); try assumption.
    rewrite <- SLf. exact (proj1 (Forall_forall _ _) (grp_ok_generators cf2 Gf2) pp Hpp). }
  intros r _.
  apply tt_bind; [apply tt_upd_class; rewrite E2; exact Lct|]. intros u3 s3 H3.
  destruct (upd_class_lc _ _ _ _ _ H3) as [E3 _].
  apply tt_bind.
  { destruct (snd r); [apply tt_touched_class; rewrite E3, E2; exact Lct|apply tt_ret]. }
  intros u4 s4 H4.
  assert (E4 : lc s4 = lc s3).
  { destruct (snd r); [eapply touched_class_lc; exact H4|inversion H4; reflexivity]. }
  apply tt_touched_class. rewrite E4, E3, E2. exact Lcf.
Qed.
Lemma tt_shrink_pre : forall from cap s, eg_inv s -> lcanon s from -> cap_ok from cap -> totM (shrink_pre from cap) s.
Proof.
  intros from cap s Hs [Ld (c & Hc & Gc & Wf & Bf & Kf)] Hcap. unfold shrink_pre. cbv zeta.
  pose proof (get_class_lt _ _ _ Hc) as Lc.
  apply tt_bind_lift.
  { apply tot_mapr. intros x Hx. apply Hcap in Hx. apply values_spec in Hx; [|exact Wf]. destruct Hx as (k & Gk).
    unfold index. rewrite (proj2 (get_inverse _ _ _ Wf Bf) Gk). eexists; reflexivity. }
  intros ocl Hoc.
  set (oc := sset_of_list ocl).
  destruct (sset_of_list_spec ocl) as [Woc Ioc]. fold oc in Woc, Ioc.
  assert (Ic : incl oc (c_slots c)).
  { intros y Hy. apply Ioc in Hy. destruct (mapr_in _ _ _ Hoc y Hy) as (x0 & _ & E). unfold index in E.
    destruct (get (inv (am from)) x0) as [y'|] eqn:G; [|discriminate]. inversion E; subst y'.
    apply (get_inverse _ _ _ Wf Bf) in G. rewrite <- Kf. apply keys_spec. congruence. }
  apply tt_bind.
  { unfold record_redundancy_witness. apply tt_bind_reads.
    - unfold syn_slots. rewrite Hc. apply tot_ok.
    - intros ss _. apply tt_unionfind_set. destruct Ld as (el & Hel & _). pose proof (uentry_lt _ _ _ Hel). lia. }
  intros u1 s1 H1.
  assert (Cl1 : classes s1 = classes s).
  { unfold record_redundancy_witness in H1. apply bind_reads_inv in H1. destruct H1 as (ss & _ & H1).
    eapply unionfind_set_classes; eauto. }
  assert (GC : forall j, get_class s1 j = get_class s j) by (intros j; unfold get_class; rewrite Cl1; reflexivity).
  apply tt_bind_reads; [rewrite GC, Hc; apply tot_ok|].
  intros c1 Hc1. rewrite GC, Hc in Hc1. inversion Hc1; subst c1; clear Hc1.
  pose proof (grp_ok_generators c Gc) as Gens.
  apply tt_bind_lift.
  { apply tot_mapr. intros pp Hpp. apply tot_allr. intros x Hx.
    destruct (po_get (c_slots c) pp x (proj1 (Forall_forall _ _) Gens pp Hpp) (Ic x Hx)) as (v & Gv & _).
    unfold index. rewrite Gv. cbn [bind]. eexists; reflexivity. }
  intros flags Hfl.
  apply tt_bind_lift.
  { idtac.
    match goal with |- tot (group_new _ _ ?r) =>
      destruct (group_new_ok oc (identity oc) r (identity_is_id oc)) as [g Hg]; [|exists g; exact Hg] end.
    apply Forall_forall. intros q Hq. apply in_map_iff in Hq. destruct Hq as (pp & <- & Hpp).
    apply in_map_iff in Hpp. destruct Hpp as ([pp' b] & Epp & Hin). cbn [fst] in Epp. subst pp'.
    apply filter_In in Hin. destruct Hin as [Hin Hb]. cbn [snd] in Hb. subst b.
    destruct (mapr_combine _ _ _ Hfl _ _ Hin) as [Hall Hflag].
    apply (restrict_perm_on (c_slots c)).
    + exact (proj1 (Forall_forall _ _) Gens pp Hall).
    + apply swf_NoDup. assumption.
    + intros x0 Hx0. pose proof (allr_true _ _ Hflag x0 Hx0) as T. cbv beta in T. unfold index in T.
      destruct (get pp x0) as [y|]; cbn [bind] in T; [|discriminate]. exists y. split; [reflexivity|].
      apply mem_in. inversion T. reflexivity. }
  intros g Hg.
  apply tt_bind; [apply tt_upd_class; rewrite Cl1; exact Lc|]. intros u2 s2 H2. destruct (upd_class_lc _ _ _ _ _ H2) as [E2 _].
  apply tt_bind; [apply tt_touched_class; rewrite E2, Cl1; exact Lc|]. intros; apply tt_ret.
Qed.

(* ------------------------------------------------------------------ *)
(* 2. the weight along ext + lmono *)

Lemma Aw_ext_le : forall s s', eg_inv s -> eg_inv s' -> ext s s' -> lmono s s' -> (Aw s' <= Aw s)%nat.
Proof.
  intros s s' Hs Hs' (_ & L & E) Lm. apply Aw_step; [ | |exact Lm|exact (uso_wf s (ei_slots s Hs))|exact L].
  - intros i c Hc. destruct (E _ _ Hc) as (c' & Hc' & I & _). exists c'. split; assumption.
  - intros i c' Hc'. destruct (ei_cls s' Hs' _ _ Hc') as (W & _). apply swf_NoDup. exact W.
Qed.

Lemma Aw_ext_lt : forall s s' k, eg_inv s -> eg_inv s' -> ext s s' -> lmono s s' ->
  (k < lc s)%nat -> (cw s' k < cw s k)%nat -> (Aw s' < Aw s)%nat.
Proof.
  intros s s' k Hs Hs' (_ & L & E) Lm Hk Hlt.
  apply (Aw_step_strict s s') with (k := k); [ | |exact Lm|exact (uso_wf s (ei_slots s Hs))|exact L|exact Hk|exact Hlt].
  - intros i c Hc. destruct (E _ _ Hc) as (c' & Hc' & I & _). exists c'. split; assumption.
  - intros i c' Hc'. destruct (ei_cls s' Hs' _ _ Hc') as (W & _). apply swf_NoDup. exact W.
Qed.

Lemma Aw_union_internal : forall fu l r s b s', kinv s -> covers s l -> covers s r ->
  union_internal fu l r s = Ok (b, s') -> (Aw s' <= Aw s)%nat.
Proof.
  intros fu l r s b s' Hk Cl Cr H. destruct (kinv_union_internal fu _ _ _ _ _ Hk Cl Cr H) as [Hk' X].
  apply Aw_ext_le; [exact (kinv_eg_inv s Hk)|exact (kinv_eg_inv s' Hk')|exact X|exact (l_union_internal fu l r s b s' H)].
Qed.

(* a loop that is total with an invariant and a transitive relation between the states *)
Lemma iterM_tot_post : forall A (f : A -> M unit) (I : egraph -> Prop) (R : egraph -> egraph -> Prop),
  (forall s, R s s) -> (forall a b c, R a b -> R b c -> R a c) ->
  forall l, (forall x s0, In x l -> I s0 -> exists s1, f x s0 = Ok (tt, s1) /\ I s1 /\ R s0 s1) ->
  forall s, I s -> exists s', iterM f l s = Ok (tt, s') /\ I s' /\ R s s'.
Proof.
  intros A f I R Rr Rt. induction l as [|x t IH]; intros Hf s Hs; cbn [iterM].
  - exists s. split; [reflexivity|]. split; [exact Hs|apply Rr].
  - destruct (Hf x s (or_introl eq_refl) Hs) as (s1 & E1 & I1 & R1).
    destruct (IH (fun y s0 Hy => Hf y s0 (or_intror Hy)) s1 I1) as (s' & E' & I' & R').
    exists s'. split; [unfold mbind; rewrite E1; exact E'|]. split; [exact I'|eapply Rt; eauto].
Qed.

(* ------------------------------------------------------------------ *)
(* 3. the core, relative to the recursive call: total below the weight `fu` *)

Definition ui_tot (fu : nat) : Prop :=
  forall E l r s, kinv s -> hce E s -> covers s l -> covers s r -> (Aw s < fu)%nat -> totM (union_internal fu l r) s.

Section Core.
  Variable fu : nat.
  Hypothesis H_tot : ui_tot fu.

  Lemma tt_sloop : forall E id cap moved, NoDup cap ->
    (forall pp, In pp moved -> injective pp) ->
    (forall pp x, In pp moved -> In x cap -> get pp x <> None) ->
    forall s, kinv s -> hce E s -> (exists c, get_class s id = Ok c /\ incl (c_slots c) cap) -> (Aw s < fu)%nat ->
    exists s', sloop (union_internal fu) id cap moved s = Ok (tt, s') /\ (Aw s' <= Aw s)%nat.
  Proof.
    intros E id cap moved Nd Hinj Hm s Hk Hh Hc0 Hw.
    pose (I := fun s0 : egraph => kinv s0 /\ hce E s0 /\ (exists c, get_class s0 id = Ok c /\ incl (c_slots c) cap) /\ (Aw s0 <= Aw s)%nat).
    destruct (iterM_tot_post _ (fun pp =>
           dom sl <- reads (fun s => class_slots s id);
           let l := {| aid := id; am := identity sl |} in
           dom ps <- Model.lift (mapr (fun x => do y <- index pp x; Ok (x, y)) cap);
           let r := {| aid := id; am := from_iter ps |} in
           dom _ <- union_internal fu l r;
           ret tt) I (fun a b => (Aw b <= Aw a)%nat)) with (l := moved) (s := s) as (s' & E' & _ & R').
    - intros a. lia.
    - intros a b c. lia.
    - intros pp s0 Hpp (Hk0 & Hh0 & (c & Hc & Ic) & Hw0).
      pose proof (covers_identity s0 id c Hc) as C1.
      assert (TP : tot (mapr (fun x => do y <- index pp x; Ok (x, y)) cap)).
      { apply tot_mapr. intros x Hx. unfold index. destruct (get pp x) as [y|] eqn:G; [cbn [bind]; eexists; reflexivity|].
        exfalso. eapply Hm; [exact Hpp|exact Hx|exact G]. }
      destruct TP as [ps Hps].
      assert (C2 : covers s0 {| aid := id; am := from_iter ps |}).
      { eapply moved_covers; [exact Nd|apply Hinj; exact Hpp|exact Hc|exact Ic|exact Hps]. }
      destruct (H_tot E _ _ s0 Hk0 Hh0 C1 C2 ltac:(lia)) as [[b s1] H1].
      exists s1. split.
      { unfold mbind, reads, class_slots. rewrite Hc. cbn [bind]. unfold Model.lift. rewrite Hps. rewrite H1. reflexivity. }
      destruct (kinv_union_internal fu _ _ _ _ _ Hk0 C1 C2 H1) as [Hk1 E1].
      pose proof (hce_union_internal fu E _ _ _ _ _ H1 Hh0) as Hh1.
      destruct (proj2 (proj2 E1) _ _ Hc) as (c1 & Hc1 & I1 & _).
      pose proof (Aw_union_internal fu _ _ _ _ _ Hk0 C1 C2 H1) as W1.
      split; [|exact W1]. split; [exact Hk1|]. split; [exact Hh1|]. split; [|lia].
      exists c1. split; [exact Hc1|]. eapply incl_tran; eauto.
    - split; [exact Hk|]. split; [exact Hh|]. split; [exact Hc0|lia].
    - exists s'. split; [exact E'|exact R'].
  Qed.

  (* shrink_slots with a PROPER subset: total, and the weight strictly decreases *)
  Theorem tt_shrink_slots : forall E from cap s x0, kinv s -> hce E s -> lcanon s from -> cap_ok from cap ->
    In x0 (values (am from)) -> ~ In x0 cap -> (Aw s <= fu)%nat ->
    exists s', shrink_slots (union_internal fu) from cap s = Ok (tt, s') /\ (Aw s' < Aw s)%nat.
  Proof.
    intros E from cap s x0 Hk Hh L Hcap Hx0 Nx0 Hw.
    pose proof (kinv_eg_inv s Hk) as Hs.
    destruct (tt_shrink_pre from cap s Hs L Hcap) as [[[oc0 moved0] s3] Hpre].
    pose proof L as [Ld (c & Hc & Gc & Wf & Bf & Kf)].
    pose proof Hpre as Hpre0.
    unfold shrink_pre in Hpre. cbv zeta in Hpre.
    apply mbind_inv in Hpre. destruct Hpre as (ocl & s0 & Hoc & Hpre). apply lift_inv in Hoc. destruct Hoc as [Hoc ->].
    destruct (sset_of_list_spec ocl) as [Woc Ioc].
    apply mbind_inv in Hpre. destruct Hpre as (u1 & s1 & H1 & Hpre).
    unfold record_redundancy_witness in H1. apply bind_reads_inv in H1. destruct H1 as (ss & Hss & H1).
    pose proof (unionfind_set_classes _ _ _ _ _ H1) as Cl1.
    apply bind_reads_inv in Hpre. destruct Hpre as (c1 & Hc1 & Hpre).
    assert (c1 = c). { unfold get_class in Hc1, Hc. rewrite Cl1 in Hc1. congruence. } subst c1.
    apply mbind_inv in Hpre. destruct Hpre as (flags & s0 & Hfl & Hpre). apply lift_inv in Hfl. destruct Hfl as [Hfl ->].
    apply mbind_inv in Hpre. destruct Hpre as (g & s0 & Hg & Hpre). apply lift_inv in Hg. destruct Hg as [Hg ->].
    apply mbind_inv in Hpre. destruct Hpre as (u2 & s2 & H2 & Hpre).
    apply mbind_inv in Hpre. destruct Hpre as (u3 & s3' & H3 & Hpre). inversion Hpre; subst oc0 moved0 s3'; clear Hpre.
    set (oc := sset_of_list ocl) in *.
    assert (Ic : incl oc (c_slots c)).
    { intros y Hy. apply Ioc in Hy. destruct (mapr_in _ _ _ Hoc y Hy) as (x1 & _ & E0). unfold index in E0.
      destruct (get (inv (am from)) x1) as [y'|] eqn:G; [|discriminate]. inversion E0; subst y'.
      apply (get_inverse _ _ _ Wf Bf) in G. rewrite <- Kf. apply keys_spec. congruence. }
    (* a slot of the class that is not kept *)
    assert (Hlt : (List.length oc < List.length (c_slots c))%nat).
    { apply values_spec in Hx0; [|exact Wf]. destruct Hx0 as (k0 & Gk0).
      assert (Hk0 : In k0 (c_slots c)) by (rewrite <- Kf; apply keys_spec; congruence).
      assert (Nk0 : ~ In k0 oc).
      { intros Hin. apply Ioc in Hin. destruct (mapr_in _ _ _ Hoc k0 Hin) as (x1 & Hx1 & E0). unfold index in E0.
        destruct (get (inv (am from)) x1) as [y'|] eqn:G; [|discriminate]. inversion E0; subst y'.
        apply (get_inverse _ _ _ Wf Bf) in G. rewrite Gk0 in G. inversion G; subst x1. exact (Nx0 Hx1). }
      assert (NDk : NoDup (k0 :: oc)) by (constructor; [exact Nk0|apply swf_NoDup; exact Woc]).
      assert (Ik : incl (k0 :: oc) (c_slots c)) by (intros y [<-|Hy]; [exact Hk0|apply Ic; exact Hy]).
      pose proof (NoDup_incl_length NDk Ik) as Len. cbn [List.length] in Len. lia. }
    (* the class of `from` before the loop *)
    destruct (upd_class_views _ _ _ _ _ H2) as (c2 & Hc2 & Hc2' & _).
    rewrite Hc1 in Hc2. inversion Hc2; subst c2; clear Hc2.
    assert (Hc3 : get_class s3 (aid from) = Ok (with_group (with_slots c oc) g)).
    { pose proof H3 as H3'. unfold touched_class in H3'. apply bind_reads_inv in H3'. destruct H3' as (c0 & _ & H3').
      destruct (touch_list_spec _ _ _ _ H3') as (p' & -> & _). exact Hc2'. }
    assert (Sub : forall j y p, stored s3 j y p -> stored s j y p).
    { intros j y p S. eapply stored_unionfind_set; [exact H1|].
      eapply stored_upd_class; [|exact H2|]; [intros c0; reflexivity|].
      eapply stored_touched_class; [exact H3|exact S]. }
    pose proof (grp_ok_generators c Gc) as Gens.
    set (moved := map fst (filter (fun p => negb (snd p)) (combine (ggenerators (c_group c)) flags))) in *.
    assert (MP : forall pp, In pp moved -> perm_on (c_slots c) pp).
    { intros pp Hpp. unfold moved in Hpp.
      apply in_map_iff in Hpp. destruct Hpp as ([pp' b0] & Epp & Hin). cbn [fst] in Epp. subst pp'.
      apply filter_In in Hin. destruct Hin as [Hin _].
      destruct (mapr_combine _ _ _ Hfl _ _ Hin) as [Hall _].
      exact (proj1 (Forall_forall _ _) Gens pp Hall). }
    assert (MI : forall pp, In pp moved -> injective pp).
    { intros pp Hpp. exact (proj1 (proj2 (proj2 (proj2 (MP pp Hpp))))). }
    assert (MG : forall pp x, In pp moved -> In x oc -> get pp x <> None).
    { intros pp x Hpp Hx. destruct (po_get (c_slots c) pp x (MP pp Hpp) (Ic x Hx)) as (v & Gv & _). congruence. }
    assert (D : shrink_slots ui0 from cap s = Ok (tt, s3)).
    { rewrite shrink_split. unfold mbind. rewrite Hpre0. cbn [fst snd]. eapply dummy_loop0; [exact Hc3|exact MG]. }
    destruct Hk as (I3 & M4 & K). pose proof I3 as [[Hs' Hbl] HN].
    assert (U0 : ui_spec ui0).
    { intros l0 r0 s4 b4 s4' Hs4 _ _ E4. inversion E4; subst. split; [exact Hs4|apply ext_refl]. }
    destruct (inv_shrink_slots ui0 U0 from cap s tt s3 Hs L D) as [Hs3 E3].
    assert (M43 : m4 s3).
    { refine (proj1 (h_shrink_slots ui0 _ from cap (lcanon_K1 _ _ M4 L) s tt s3 D M4)).
      intros l0 r0. apply h_ret. exact Logic.I. }
    assert (Hh3 : hce E s3).
    { refine (hce_shrink_slots ui0 _ E from cap s tt s3 D Hh).
      intros E0 l0 r0 s4 b4 s4' E4 H4. inversion E4; subst. exact H4. }
    pose proof (proj1 Hh3) as T3.
    assert (N3 : nodes_ok s3).
    { intros i c3 e Hc3i Hin. destruct e as [sh p].
      pose proof (ms_nodup_in_get _ _ _ (tb_cn s3 T3 i) ltac:(unfold cnodes; rewrite Hc3i; exact Hin)) as G3.
      assert (S3 : stored s3 i sh p) by exact G3.
      pose proof (Sub _ _ _ S3) as S0. destruct (SelfSymDefs.stored_get _ _ _ _ S0) as (c0 & Hc0 & G0).
      destruct (proj2 (proj2 E3) _ _ Hc0) as (c3' & Hc3' & Inc & _). rewrite Hc3i in Hc3'. inversion Hc3'; subst c3'.
      destruct (HN i c0 (sh, p) Hc0 (na_get_in _ _ _ G0)) as (A1 & A2 & A3 & A4).
      split; [exact A1|]. split; [exact A2|]. split; [exact A3|]. intros x1 Hx1. apply A4. apply Inc. exact Hx1. }
    assert (I33 : inv3 s3) by (eapply inv3_intro; [exact (conj Hs' Hbl)|exact Hs3|exact E3|exact N3]).
    assert (K3 : kids_ok s3).
    { eapply kids_ok_frame; [|exact E3|exact K].
      refine (ssub_shrink_slots ui0 _ from cap s tt s3 D).
      intros l0 r0 s4 b4 s4' E4. inversion E4; subst. apply ssub_refl. }
    (* the weight strictly decreases in the prefix *)
    assert (Lm3 : lmono s s3).
    { refine (l_shrink_slots ui0 _ from cap s tt s3 Ld D). intros l0 r0 s4 b4 s4' E4. inversion E4; subst. apply lmono_refl. }
    assert (W3 : (Aw s3 < Aw s)%nat).
    { pose proof (get_class_lt _ _ _ Hc) as Lc.
      apply (Aw_ext_lt s s3 (N.to_nat (aid from))); [exact Hs|exact Hs3|exact E3|exact Lm3|exact Lc|].
      assert (Hcs : cw s (N.to_nat (aid from)) = S (List.length (c_slots c))).
      { apply cw_leader; rewrite Nnat.N2Nat.id; assumption. }
      rewrite Hcs. unfold cw. destruct (is_lead s3 (N.to_nat (aid from))); [|lia].
      rewrite (cslots_class s3 (N.to_nat (aid from)) (with_group (with_slots c oc) g)); [|rewrite Nnat.N2Nat.id; exact Hc3].
      cbn [c_slots with_group with_slots]. lia. }
    destruct (tt_sloop E (aid from) oc moved (swf_NoDup _ Woc) MI MG s3 (conj I33 (conj M43 K3)) Hh3) as (s' & Es' & Ws').
    { eexists. split; [exact Hc3|]. cbn [c_slots with_group with_slots]. apply incl_refl. }
    { lia. }
    exists s'. split; [|lia].
    rewrite shrink_split. unfold mbind. rewrite Hpre0. cbn [fst snd]. exact Es'.
  Qed.

  (* an element of a and not of a ∩ b *)
  Lemma filter_all_id : forall (f : slot -> bool) (l : list slot), (forall x, In x l -> f x = true) -> filter f l = l.
  Proof.
    intros f. induction l as [|x t IH]; intros H; cbn [filter]; [reflexivity|].
    rewrite (H x (or_introl eq_refl)). f_equal. apply IH. intros y Hy. apply H. right. exact Hy.
  Qed.

  Lemma inter_proper : forall a b : sset, sset_eqb a (sset_inter a b) = false -> exists x, In x a /\ ~ In x (sset_inter a b).
  Proof.
    intros a b H.
    destruct (existsb (fun x => negb (sset_mem x b)) a) eqn:Ex.
    - apply existsb_exists in Ex. destruct Ex as (x & Hx & Nb). exists x. split; [exact Hx|].
      intros Hin. unfold sset_inter in Hin. apply filter_In in Hin. destruct Hin as [_ Hm]. rewrite Hm in Nb. discriminate.
    - exfalso. assert (E : sset_inter a b = a).
      { unfold sset_inter. apply filter_all_id. intros x Hx.
        destruct (sset_mem x b) eqn:Mb; [reflexivity|]. exfalso.
        assert (X : existsb (fun x => negb (sset_mem x b)) a = true) by (apply existsb_exists; exists x; split; [exact Hx|rewrite Mb; reflexivity]).
        congruence. }
      rewrite E in H. rewrite (proj2 (sset_eqb_eq a a) eq_refl) in H. discriminate.
  Qed.
  Lemma inter_proper_r : forall a b : sset, swf b -> swf (sset_inter a b) ->
    sset_eqb b (sset_inter a b) = false -> exists x, In x b /\ ~ In x (sset_inter a b).
  Proof.
    intros a b Wb Wi H.
    destruct (existsb (fun x => negb (sset_mem x (sset_inter a b))) b) eqn:Ex.
    - apply existsb_exists in Ex. destruct Ex as (x & Hx & Nb). exists x. split; [exact Hx|].
      intros Hin. apply sset_mem_in in Hin. rewrite Hin in Nb. discriminate.
    - exfalso. assert (E : b = sset_inter a b).
      { apply sset_ext; [exact Wb|exact Wi|]. intros x. split.
        - intros Hx. destruct (sset_mem x (sset_inter a b)) eqn:Mb; [apply sset_mem_in; exact Mb|]. exfalso.
          assert (X : existsb (fun x => negb (sset_mem x (sset_inter a b))) b = true)
            by (apply existsb_exists; exists x; split; [exact Hx|rewrite Mb; reflexivity]).
          congruence.
        - intros Hx. unfold sset_inter in Hx. apply filter_In in Hx. apply sset_mem_in. exact (proj2 Hx). }
      rewrite <- E in H. rewrite (proj2 (sset_eqb_eq b b) eq_refl) in H. discriminate.
  Qed.

  Theorem tt_union_leaders : forall E l r s, kinv s -> hce E s -> lcanon s l -> lcanon s r -> (Aw s <= fu)%nat ->
    totM (union_leaders (union_internal fu) l r) s.
  Proof.
    intros E l r s Hk Hh Ll Lr Hw. unfold union_leaders.
    pose proof (kinv_eg_inv s Hk) as Hs.
    pose proof (canon_covers _ _ (proj2 Ll)) as Cl. pose proof (canon_covers _ _ (proj2 Lr)) as Cr.
    apply tt_bind_reads.
    { destruct (eg_eq_sym_inv s l r (ei_uf s Hs) (ei_slots s Hs) Cl Cr) as (x & Hx & _). rewrite Hx. apply tot_ok. }
    intros e _. destruct e; [apply tt_ret|]. cbv zeta.
    destruct (negb (sset_eqb (values (am l)) _)) eqn:E1.
    { apply negb_true_iff in E1. destruct (inter_proper _ _ E1) as (x0 & Hx0 & Nx0).
      destruct (tt_shrink_slots E l _ s x0 Hk Hh Ll (cap_inter_ok l r) Hx0 Nx0 Hw) as (s1 & H1 & W1).
      apply tt_bind; [exists (tt, s1); exact H1|].
      intros u1 s1' H1'. rewrite H1 in H1'. inversion H1'; subst u1 s1'; clear H1'.
      destruct (kinv_shrink_slots fu _ _ _ _ _ Hk Ll H1) as [Hk1 X1].
      pose proof (hce_shrink_slots (union_internal fu) (hce_union_internal fu) E _ _ _ _ _ H1 Hh) as Hh1.
      apply tt_bind; [|intros; apply tt_ret].
      apply (H_tot E); [exact Hk1|exact Hh1|exact (covers_ext _ _ _ X1 Cl)|exact (covers_ext _ _ _ X1 Cr)|lia]. }
    destruct (negb (sset_eqb (values (am r)) _)) eqn:E2.
    { apply negb_true_iff in E2.
      destruct (inter_proper_r (values (am l)) (values (am r))) as (x0 & Hx0 & Nx0);
        [exact (proj1 (sset_of_list_spec _))|apply NoErrorPendingSH.sset_inter_values_swf|exact E2|].
      destruct (tt_shrink_slots E r _ s x0 Hk Hh Lr (cap_inter_ok_r l r) Hx0 Nx0 Hw) as (s1 & H1 & W1).
      apply tt_bind; [exists (tt, s1); exact H1|].
      intros u1 s1' H1'. rewrite H1 in H1'. inversion H1'; subst u1 s1'; clear H1'.
      destruct (kinv_shrink_slots fu _ _ _ _ _ Hk Lr H1) as [Hk1 X1].
      pose proof (hce_shrink_slots (union_internal fu) (hce_union_internal fu) E _ _ _ _ _ H1 Hh) as Hh1.
      apply tt_bind; [|intros; apply tt_ret].
      apply (H_tot E); [exact Hk1|exact Hh1|exact (covers_ext _ _ _ X1 Cl)|exact (covers_ext _ _ _ X1 Cr)|lia]. }
    apply negb_false_iff in E1, E2. apply sset_eqb_eq in E1, E2.
    assert (V : values (am l) = values (am r)) by congruence.
    destruct (aid l =? aid r) eqn:E3; neq.
    - destruct Ll as [_ (cl & Hcl & Gl & Wl & Bl & Kl)]. destruct Lr as [_ (cr & Hcr & _ & Wr & Br & Kr)].
      rewrite <- E3, Hcl in Hcr. inversion Hcr; subst cr; clear Hcr.
      pose proof (get_class_lt _ _ _ Hcl) as Lcl.
      apply tt_bind_reads; [rewrite Hcl; apply tot_ok|]. intros c Hc. rewrite Hcl in Hc; inversion Hc; subst c; clear Hc.
      assert (PO : perm_on (c_slots cl) (am r ** inv (am l))) by (apply quot_perm_on; auto).
      apply tt_bind_lift; [apply gcontains_tot; assumption|]. intros b _. destruct b; [apply tt_ret|].
      apply tt_bind_lift; [apply gadd_set_tot; [exact Gl|constructor; [exact PO|constructor]]|]. intros g _.
      apply tt_bind; [apply tt_upd_class; exact Lcl|]. intros u1 s1 H1. destruct (upd_class_lc _ _ _ _ _ H1) as [X1 _].
      apply tt_bind; [apply tt_touched_class; rewrite X1; exact Lcl|]. intros; apply tt_ret.
    - apply tt_bind_reads; [apply get_class_tot, covers_lt; exact Cl|]. intros cl _.
      apply tt_bind_reads; [apply get_class_tot, covers_lt; exact Cr|]. intros cr _. cbv zeta.
      apply tt_bind; [|intros; apply tt_ret].
      match goal with |- totM (if ?b then _ else _) _ => destruct b end.
      + eapply tt_move_to; [exact Hk|exact Hh|exact Ll|exact Lr| |exact V]. congruence.
      + eapply tt_move_to; [exact Hk|exact Hh|exact Lr|exact Ll| | ]; congruence.
  Qed.

  Theorem tt_union_internal_body : forall E l r s, kinv s -> hce E s -> covers s l -> covers s r -> (Aw s <= fu)%nat ->
    totM (union_internal_body (union_internal fu) l r) s.
  Proof.
    intros E l r s Hk Hh Cl Cr Hw. unfold union_internal_body. pose proof (kinv_eg_inv s Hk) as Hs.
    destruct (covers_find_ok s l (ei_uf s Hs) (ei_slots s Hs) Cl) as (l' & Fl & _).
    destruct (covers_find_ok s r (ei_uf s Hs) (ei_slots s Hs) Cr) as (r' & Fr & _).
    apply tt_bind_reads; [rewrite Fl; apply tot_ok|]. intros l0 E0. rewrite Fl in E0; inversion E0; subst l0; clear E0.
    apply tt_bind_reads; [rewrite Fr; apply tot_ok|]. intros r0 E0. rewrite Fr in E0; inversion E0; subst r0; clear E0.
    apply (tt_union_leaders E); [exact Hk|exact Hh|exact (covers_lcanon s l l' Hs Cl Fl)|exact (covers_lcanon s r r' Hs Cr Fr)|exact Hw].
  Qed.
End Core.

(* ------------------------------------------------------------------ *)
(* 4. closing the recursion: fuel above the weight suffices *)

Theorem ui_tot_all : forall fuel, ui_tot fuel.
Proof.
  induction fuel as [|f IH]; [intros E l r s _ _ _ _ Hw; lia|].
  intros E l r s Hk Hh Cl Cr Hw. unfold totM. rewrite union_internal_S.
  apply (tt_union_internal_body f IH E); [exact Hk|exact Hh|exact Cl|exact Cr|lia].
Qed.

Theorem union_internal_terminates_bound : forall E f l r s, kinv s -> hce E s -> covers s l -> covers s r ->
  (Aw s < f)%nat -> exists res, union_internal f l r s = Ok res.
Proof. intros E f l r s Hk Hh Cl Cr Hw. exact (ui_tot_all f E l r s Hk Hh Cl Cr Hw). Qed.

Theorem union_internal_terminates : forall E l r s, kinv s -> hce E s -> covers s l -> covers s r ->
  exists f res, union_internal f l r s = Ok res.
Proof.
  intros E l r s Hk Hh Cl Cr. exists (S (Aw s)).
  apply (union_internal_terminates_bound E); [exact Hk|exact Hh|exact Cl|exact Cr|lia].
Qed.

(* with the Ok-direction facts: the result keeps the invariants and does not increase the weight *)
Theorem union_internal_total_post : forall E f l r s, kinv s -> hce E s -> covers s l -> covers s r -> (Aw s < f)%nat ->
  exists b s', union_internal f l r s = Ok (b, s') /\ kinv s' /\ hce E s' /\ ext s s' /\ (Aw s' <= Aw s)%nat.
Proof.
  intros E f l r s Hk Hh Cl Cr Hw.
  destruct (union_internal_terminates_bound E f l r s Hk Hh Cl Cr Hw) as [[b s'] H].
  exists b, s'. split; [exact H|].
  destruct (kinv_union_internal f _ _ _ _ _ Hk Cl Cr H) as [Hk' X].
  split; [exact Hk'|]. split; [exact (hce_union_internal f E _ _ _ _ _ H Hh)|]. split; [exact X|].
  exact (Aw_union_internal f _ _ _ _ _ Hk Cl Cr H).
Qed.

(* shrink_slots with any sufficient fuel (proper or improper cap): total.  The improper case (cap = all slots of the
   invocation) is needed for handle_shrink_in_upwards_merge, which calls shrink_slots unconditionally. *)
Theorem shrink_slots_total_proper : forall E f from cap s x0, kinv s -> hce E s -> lcanon s from -> cap_ok from cap ->
  In x0 (values (am from)) -> ~ In x0 cap -> (Aw s <= f)%nat ->
  exists s', shrink_slots (union_internal f) from cap s = Ok (tt, s') /\ (Aw s' < Aw s)%nat.
Proof. intros E f. exact (tt_shrink_slots f (ui_tot_all f) E). Qed.

(* the model's constant: uint = union_internal 400 is total on every state of weight < 400 *)
Corollary uint_total_small : forall E l r s, kinv s -> hce E s -> covers s l -> covers s r -> (Aw s < ui_fuel)%nat ->
  exists res, uint l r s = Ok res.
Proof. intros E l r s. unfold uint. apply (union_internal_terminates_bound E). Qed.

Print Assumptions union_internal_terminates_bound.
Print Assumptions union_internal_terminates.
Print Assumptions union_internal_total_post.
Print Assumptions shrink_slots_total_proper.
Print Assumptions uint_total_small.
