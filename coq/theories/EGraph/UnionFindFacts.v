(* EGraph/UnionFindFacts.v — unbounded facts about the union-find of the e-graph model
   (EGraph/Model.v: uf_get_go, unionfind_get, find_applied_id, eg_eq), for every state that
   satisfies the invariant `uf_ok`, and preservation of `uf_ok` by every operation of the model.

   1. `uf_ok s`: every entry of `unionfind s` points to an allocated id, all slot maps of the
      table are key-sorted (`wf`), the map of a leader is a partial identity (`pid`), and the
      parent graph is acyclic: some rank N -> nat strictly decreases along every non-leader entry.
   2. `find_no_fuel_exhaustion`: with the fuel the model uses (S |unionfind|, state dependent,
      no constant involved) `unionfind_get` / `find_applied_id` never run out of fuel.
   3. `find_is_leader`, `find_idempotent`: the result of `find_applied_id` is a leader
      invocation and a fixed point of `find_applied_id` (plain equality of records).
   4. `eg_eq_refl`, `eg_eq_sym`: `eg_eq` is reflexive and symmetric on invocations whose
      canonical form is a bijection defined exactly on the slots of its class, when the class
      group is a Schreier–Sims chain built by `group_new` (Group/GroupSound.v).
      `uf_slots_ok` is a local invariant of the table that yields this from a premise on the
      invocation itself (`eg_eq_refl_inv`, `eg_eq_sym_inv`).
   5. `uf_ok` holds of `empty_egraph` and is preserved by `alloc_eclass`, `move_to` (between
      distinct leaders), `union_internal`, `rebuild`, `eg_union`, `eg_add`, `add_expr`. *)
From SE Require Import Slots.SlotMapFacts Group.GroupSound EGraph.Model EGraph.ModelFacts EGraph.ModelMachine.
Require Import ZArith Lia ZifyBool ZifyN ZifyNat.

Local Notation "a ** b" := (compose_partial a b) (at level 40, left associativity).
Local Notation inv := inverse_nocheck.

Local Ltac neq := repeat match goal with
  | H : (_ =? _) = true |- _ => apply N.eqb_eq in H
  | H : (_ =? _) = false |- _ => apply N.eqb_neq in H
  end.

(* ------------------------------------------------------------------ *)
(* list facts *)

Lemma nth_opt_none_ge : forall {A} (l : list A) n, (List.length l <= n)%nat -> nth_opt l n = None.
Proof. induction l as [|x t IH]; destruct n as [|n]; cbn; intros H; try reflexivity; try lia. apply IH. lia. Qed.

Lemma nth_opt_some_lt : forall {A} (l : list A) n, (n < List.length l)%nat -> exists x, nth_opt l n = Some x.
Proof.
  induction l as [|x t IH]; destruct n as [|n]; cbn; intros H; try lia; [eauto|]. apply IH. lia.
Qed.

Lemma nth_opt_app1 : forall {A} (l r : list A) n, (n < List.length l)%nat -> nth_opt (l ++ r) n = nth_opt l n.
Proof. induction l as [|x t IH]; destruct n as [|n]; cbn; intros H; try lia; [reflexivity|]. apply IH. lia. Qed.

Lemma nth_opt_app_last : forall {A} (l : list A) x, nth_opt (l ++ [x]) (List.length l) = Some x.
Proof. induction l as [|y t IH]; cbn; intros; auto. Qed.

Lemma nth_opt_set_same : forall {A} (l : list A) n x, (n < List.length l)%nat -> nth_opt (set_nth l n x) n = Some x.
Proof. induction l as [|y t IH]; destruct n as [|n]; cbn; intros x H; try lia; [reflexivity|]. apply IH. lia. Qed.

Lemma nth_opt_set_other : forall {A} (l : list A) n m x, n <> m -> nth_opt (set_nth l n x) m = nth_opt l m.
Proof.
  induction l as [|y t IH]; destruct n as [|n]; destruct m as [|m]; cbn; intros x H; try reflexivity; try lia.
  apply IH. lia.
Qed.

(* ------------------------------------------------------------------ *)
(* 1. the invariant *)

Definition uentry (u : list appid) (i : N) : option appid := nth_opt u (N.to_nat i).
Definition uleader (u : list appid) (i : N) : Prop := exists e, uentry u i = Some e /\ aid e = i.

(* a partial identity: every pair of the map is (k, k) *)
Definition pid (m : slotmap) : Prop := forall k v, get m k = Some v -> v = k.

Record ufl_ok (u : list appid) : Prop := {
  ufl_bound : forall i e, uentry u i = Some e -> (N.to_nat (aid e) < List.length u)%nat;
  ufl_wf    : forall i e, uentry u i = Some e -> wf (am e);
  ufl_pid   : forall i e, uentry u i = Some e -> aid e = i -> pid (am e);
  ufl_rank  : exists rank : N -> nat,
                forall i e, uentry u i = Some e -> aid e <> i -> (rank (aid e) < rank i)%nat }.

Definition uf_ok (s : egraph) : Prop := ufl_ok (unionfind s).
Definition leader (s : egraph) (i : N) : Prop := uleader (unionfind s) i.

Lemma uentry_lt : forall u i e, uentry u i = Some e -> (N.to_nat i < List.length u)%nat.
Proof. unfold uentry. intros u i e H. eapply nth_opt_Some_lt; eauto. Qed.

Lemma leader_is_alive : forall s i, leader s i <-> is_alive s i = Ok true.
Proof.
  intros s i. unfold leader, uleader, uentry, is_alive. split.
  - intros (e & He & Hi). rewrite He, Hi, N.eqb_refl. reflexivity.
  - destruct (nth_opt (unionfind s) (N.to_nat i)) as [e|]; [|discriminate].
    intros H. inversion H as [E]. neq. eauto.
Qed.

(* ------------------------------------------------------------------ *)
(* 2. no fuel exhaustion.  A rank that decreases along the edges can be normalised to one
   that is bounded by the table size: the number of ids of strictly smaller rank. *)

Section Count.
  Variable rank : N -> nat.
  Variable n : nat.

  Definition below (i : N) : nat :=
    List.length (filter (fun j => Nat.ltb (rank (N.of_nat j)) (rank i)) (seq 0 n)).

  Lemma below_lt_n : forall i, (N.to_nat i < n)%nat -> (below i < n)%nat.
  Proof.
    intros i Hi. unfold below.
    pose proof (filter_len_all (fun _ : nat => true) (seq 0 n)) as H2. rewrite seq_length in H2.
    pose proof (filter_len_lt (fun j => Nat.ltb (rank (N.of_nat j)) (rank i)) (fun _ => true)
                  (seq 0 n) (N.to_nat i)) as H.
    assert (H3 : (List.length (filter (fun j => Nat.ltb (rank (N.of_nat j)) (rank i)) (seq 0 n))
                  < List.length (filter (fun _ : nat => true) (seq 0 n)))%nat).
    { apply H; [auto| |reflexivity|].
      - apply in_seq. lia.
      - rewrite N2Nat.id. apply Nat.ltb_ge. lia. }
    lia.
  Qed.

  Lemma below_edge : forall i p, (N.to_nat p < n)%nat -> (rank p < rank i)%nat -> (below p < below i)%nat.
  Proof.
    intros i p Hp Hr. unfold below.
    apply (filter_len_lt _ _ (seq 0 n) (N.to_nat p)).
    - intros y Hy. apply Nat.ltb_lt in Hy. apply Nat.ltb_lt. lia.
    - apply in_seq. lia.
    - rewrite N2Nat.id. apply Nat.ltb_lt. exact Hr.
    - rewrite N2Nat.id. apply Nat.ltb_ge. lia.
  Qed.
End Count.

Lemma uf_get_go_fuel : forall u (rank : N -> nat),
  (forall i e, uentry u i = Some e -> (N.to_nat (aid e) < List.length u)%nat) ->
  (forall i e, uentry u i = Some e -> aid e <> i -> (rank (aid e) < rank i)%nat) ->
  forall fuel i, (N.to_nat i < List.length u)%nat -> (below rank (List.length u) i < fuel)%nat ->
  exists p, uf_get_go fuel u i = Ok p.
Proof.
  intros u rank Hb Hr. induction fuel as [|f IH]; intros i Hi Hf; [lia|].
  cbn [uf_get_go]. destruct (nth_opt_some_lt u _ Hi) as [e He]. rewrite He.
  destruct (aid e =? i) eqn:E; [eauto|]. neq.
  destruct (IH (aid e)) as [l Hl].
  - eapply Hb; eauto.
  - pose proof (below_edge rank (List.length u) i (aid e) (Hb _ _ He) (Hr _ _ He E)). lia.
  - rewrite Hl. cbn [bind]. eauto.
Qed.

Lemma uf_get_go_oob : forall u fuel i, (List.length u <= N.to_nat i)%nat ->
  uf_get_go (S fuel) u i = Err OutOfBounds.
Proof. intros u fuel i H. cbn [uf_get_go]. rewrite nth_opt_none_ge by assumption. reflexivity. Qed.

(* any fuel >= the number of classes (and > 0) suffices; the model uses S (number of classes) *)
Theorem uf_get_go_total : forall u, ufl_ok u -> forall fuel i,
  (0 < fuel)%nat -> (List.length u <= fuel)%nat ->
  if Nat.ltb (N.to_nat i) (List.length u)
  then exists p, uf_get_go fuel u i = Ok p
  else uf_get_go fuel u i = Err OutOfBounds.
Proof.
  intros u [Hb _ _ [rank Hr]] fuel i H0 Hf.
  destruct (Nat.ltb (N.to_nat i) (List.length u)) eqn:E.
  - apply Nat.ltb_lt in E. apply (uf_get_go_fuel u rank Hb Hr); [assumption|].
    pose proof (below_lt_n rank (List.length u) i E). lia.
  - apply Nat.ltb_ge in E. destruct fuel as [|f]; [lia|]. apply uf_get_go_oob. assumption.
Qed.

Theorem unionfind_get_ok : forall s i, uf_ok s -> (N.to_nat i < lu s)%nat ->
  exists p, unionfind_get s i = Ok p.
Proof.
  intros s i H Hi. unfold unionfind_get.
  pose proof (uf_get_go_total _ H (S (lu s)) i ltac:(lia) ltac:(lia)) as T.
  apply Nat.ltb_lt in Hi. rewrite Hi in T. exact T.
Qed.

Theorem find_applied_id_ok : forall s a, uf_ok s -> (N.to_nat (aid a) < lu s)%nat ->
  exists b, find_applied_id s a = Ok b.
Proof.
  intros s a H Hi. unfold find_applied_id. destruct (unionfind_get_ok s (aid a) H Hi) as [p ->].
  cbn [bind]. eauto.
Qed.

Theorem find_no_fuel_exhaustion : forall s, uf_ok s ->
  (forall fuel i, (0 < fuel)%nat -> (lu s <= fuel)%nat -> uf_get_go fuel (unionfind s) i <> Err OutOfFuel) /\
  (forall i, unionfind_get s i <> Err OutOfFuel) /\
  (forall a, find_applied_id s a <> Err OutOfFuel).
Proof.
  intros s H.
  assert (G : forall fuel i, (0 < fuel)%nat -> (lu s <= fuel)%nat ->
              uf_get_go fuel (unionfind s) i <> Err OutOfFuel).
  { intros fuel i H0 Hf. pose proof (uf_get_go_total _ H fuel i H0 Hf) as T.
    destruct (Nat.ltb _ _); [destruct T as [p ->]|rewrite T]; discriminate. }
  assert (G2 : forall i, unionfind_get s i <> Err OutOfFuel).
  { intros i. unfold unionfind_get. apply G; lia. }
  split; [exact G|]. split; [exact G2|].
  intros a. unfold find_applied_id. specialize (G2 (aid a)).
  destruct (unionfind_get s (aid a)) as [p|e]; cbn [bind]; [discriminate|congruence].
Qed.

(* the only possible failure of a lookup is an unallocated id *)
Corollary find_applied_id_err : forall s a e, uf_ok s -> find_applied_id s a = Err e ->
  e = OutOfBounds /\ (lu s <= N.to_nat (aid a))%nat.
Proof.
  intros s a e H E. destruct (Nat.ltb (N.to_nat (aid a)) (lu s)) eqn:L.
  - apply Nat.ltb_lt in L. destruct (find_applied_id_ok s a H L) as [b Hb]. congruence.
  - apply Nat.ltb_ge in L. unfold find_applied_id, unionfind_get in E.
    rewrite uf_get_go_oob in E by assumption. cbn in E. inversion E. auto.
Qed.

(* ------------------------------------------------------------------ *)
(* 3. the result of find is a leader invocation, and a fixed point of find *)

Lemma uf_get_go_spec : forall u, (forall i e, uentry u i = Some e -> wf (am e)) ->
  forall fuel i p, uf_get_go fuel u i = Ok p ->
  wf (am p) /\
  exists el, uentry u (aid p) = Some el /\ aid el = aid p /\
             forall k, get (am p) k <> None -> get (am el) k <> None.
Proof.
  intros u Hw. induction fuel as [|f IH]; intros i p H; [discriminate|].
  cbn [uf_get_go] in H. destruct (nth_opt u (N.to_nat i)) as [e|] eqn:He; [|discriminate].
  destruct (aid e =? i) eqn:E.
  - neq. inversion H; subst p. split; [eapply Hw; eauto|].
    exists e. rewrite E. auto.
  - destruct (uf_get_go f u (aid e)) as [l|] eqn:Hl; [|discriminate]. cbn [bind] in H.
    inversion H; subst p. cbn [aid am].
    destruct (IH _ _ Hl) as (Wl & el & Hel & Hael & Hk).
    split; [apply compose_partial_wf|]. exists el. split; [assumption|]. split; [assumption|].
    intros k. rewrite get_compose_partial by assumption.
    destruct (get (am l) k) eqn:G; [|congruence]. intros _. apply Hk. congruence.
Qed.

Theorem find_is_leader : forall s a b, find_applied_id s a = Ok b -> leader s (aid b).
Proof.
  unfold find_applied_id, unionfind_get. intros s a b H.
  destruct (uf_get_go _ _ _) as [p|] eqn:Hp; [|discriminate]. cbn [bind] in H. inversion H; subst b.
  cbn [aid]. clear H. revert Hp. generalize (S (lu s)) as fuel. generalize (aid a) as i.
  intros i fuel. revert i p. induction fuel as [|f IH]; intros i p H; [discriminate|].
  cbn [uf_get_go] in H. destruct (nth_opt (unionfind s) (N.to_nat i)) as [e|] eqn:He; [|discriminate].
  destruct (aid e =? i) eqn:E.
  - neq. inversion H; subst p. exists e. rewrite E. auto.
  - destruct (uf_get_go f (unionfind s) (aid e)) as [l|] eqn:Hl; [|discriminate]. cbn [bind] in H.
    inversion H; subst p. cbn [aid]. eapply IH; eauto.
Qed.

Lemma unionfind_get_leader : forall s i e, uentry (unionfind s) i = Some e -> aid e = i ->
  unionfind_get s i = Ok e.
Proof.
  intros s i e He Hi. unfold unionfind_get. cbn [uf_get_go]. unfold uentry in He. rewrite He.
  rewrite Hi, N.eqb_refl. reflexivity.
Qed.

Theorem find_idempotent : forall s a b, uf_ok s -> find_applied_id s a = Ok b ->
  find_applied_id s b = Ok b.
Proof.
  intros s a b [_ Hw Hp _] H. unfold find_applied_id in H.
  destruct (unionfind_get s (aid a)) as [p|] eqn:Hg; [|discriminate]. cbn [bind] in H.
  inversion H; subst b; clear H.
  destruct (uf_get_go_spec _ Hw _ _ _ Hg) as (Wp & el & Hel & Hael & Hk).
  unfold find_applied_id. cbn [aid am]. rewrite (unionfind_get_leader s (aid p) el Hel Hael). cbn [bind].
  rewrite Hael. f_equal. f_equal.
  apply ext_eq; try apply compose_partial_wf.
  intros k. rewrite get_compose_partial by (eapply Hw; eauto).
  destruct (get (am el) k) as [y|] eqn:G.
  - rewrite (Hp _ _ Hel Hael _ _ G). reflexivity.
  - rewrite get_compose_partial by assumption.
    destruct (get (am p) k) eqn:G2; [|reflexivity]. exfalso. apply (Hk k); congruence.
Qed.

(* a leader invocation whose map only uses keys of the leader's entry is its own canonical form *)
Theorem find_leader_fixed : forall s a e, uf_ok s ->
  uentry (unionfind s) (aid a) = Some e -> aid e = aid a -> wf (am a) ->
  (forall k, get (am a) k <> None -> get (am e) k <> None) ->
  find_applied_id s a = Ok a.
Proof.
  intros s [i m] e [_ Hw Hp _] He Hi Wm Hk. cbn [aid am] in *.
  unfold find_applied_id. cbn [aid am]. rewrite (unionfind_get_leader s i e He Hi). cbn [bind].
  rewrite Hi. f_equal. f_equal. apply ext_eq; [apply compose_partial_wf|assumption|].
  intros k. rewrite get_compose_partial by (eapply Hw; eauto).
  destruct (get (am e) k) as [y|] eqn:G.
  - rewrite (Hp _ _ He Hi _ _ G). reflexivity.
  - destruct (get m k) eqn:G2; [|reflexivity]. exfalso. apply (Hk k); congruence.
Qed.

(* ------------------------------------------------------------------ *)
(* 4. eg_eq: reflexivity and symmetry *)

(* the class group is a chain built by group_new from permutations of the class slots *)
Definition grp_ok (c : eclass) : Prop :=
  exists gens, Forall (perm_on (c_slots c)) gens /\
               group_new false (identity (c_slots c)) gens = Ok (c_group c).

(* a canonical invocation: its class exists, and its map is a bijection defined exactly on
   the slots of the class *)
Definition canon_ok (s : egraph) (a : appid) : Prop :=
  exists c, get_class s (aid a) = Ok c /\ grp_ok c /\
            wf (am a) /\ is_bijection (am a) = true /\ keys (am a) = c_slots c.

Lemma map_eq_some : forall a b : slotmap, wf a -> wf b ->
  (forall k v, get a k = Some v <-> get b k = Some v) -> a = b.
Proof.
  intros a b Wa Wb H. apply ext_eq; try assumption. intros k.
  destruct (get a k) as [v|] eqn:Ea.
  - symmetry. apply H. assumption.
  - destruct (get b k) as [v|] eqn:Eb; [|reflexivity]. apply H in Eb. congruence.
Qed.

Lemma sset_eqb_refl : forall a, sset_eqb a a = true.
Proof. intros a. apply sset_eqb_eq. reflexivity. Qed.

Lemma sset_eqb_sym : forall a b, sset_eqb a b = sset_eqb b a.
Proof.
  intros a b. destruct (sset_eqb a b) eqn:E1, (sset_eqb b a) eqn:E2; try reflexivity.
  - apply sset_eqb_eq in E1. subst. rewrite sset_eqb_refl in E2. discriminate.
  - apply sset_eqb_eq in E2. subst. rewrite sset_eqb_refl in E1. discriminate.
Qed.

Section Quot.
  Variables (om : sset) (a b : slotmap).
  Hypothesis Wa : wf a.
  Hypothesis Wb : wf b.
  Hypothesis Ba : is_bijection a = true.
  Hypothesis Bb : is_bijection b = true.

  Lemma quot_get : forall k v,
    get (a ** inv b) k = Some v <-> exists y, get a k = Some y /\ get b v = Some y.
  Proof.
    intros k v. rewrite get_compose_partial by assumption. split.
    - destruct (get a k) as [y|] eqn:E; [|discriminate]. intros H.
      apply (get_inverse b y v Wb Bb) in H. eauto.
    - intros (y & -> & H). apply (get_inverse b y v Wb Bb). assumption.
  Qed.

  Hypothesis Ka : keys a = om.
  Hypothesis Kb : keys b = om.
  Hypothesis V : values a = values b.

  Lemma quot_perm_on : perm_on om (a ** inv b).
  Proof.
    pose proof (proj1 (is_bijection_injective a Wa) Ba) as Ia.
    split; [apply compose_partial_wf|]. split; [|split; [|split]].
    - intros k. split.
      + intros H. destruct (get (a ** inv b) k) as [v|] eqn:E; [|congruence].
        apply quot_get in E. destruct E as (y & Ey & _). rewrite <- Ka. apply keys_spec. congruence.
      + intros H. rewrite <- Ka in H. apply keys_spec in H.
        destruct (get a k) as [y|] eqn:Ey; [|congruence].
        assert (Hy : In y (values b)). { rewrite <- V. apply values_spec; eauto. }
        apply values_spec in Hy; [|assumption]. destruct Hy as (x & Ex).
        assert (E : get (a ** inv b) k = Some x) by (apply quot_get; eauto). congruence.
    - intros k v H. apply quot_get in H. destruct H as (y & _ & Ey).
      rewrite <- Kb. apply keys_spec. congruence.
    - intros k1 k2 v H1 H2. apply quot_get in H1, H2.
      destruct H1 as (y1 & E1 & F1), H2 as (y2 & E2 & F2).
      assert (y1 = y2) by congruence. subst. eapply Ia; eauto.
    - intros v Hv. rewrite <- Kb in Hv. apply keys_spec in Hv.
      destruct (get b v) as [y|] eqn:Ey; [|congruence].
      assert (Hy : In y (values a)). { rewrite V. apply values_spec; eauto. }
      apply values_spec in Hy; [|assumption]. destruct Hy as (k & Ek).
      exists k. apply quot_get. eauto.
  Qed.
End Quot.

Lemma quot_inverse : forall om a b, wf a -> wf b -> is_bijection a = true -> is_bijection b = true ->
  keys a = om -> keys b = om -> values a = values b ->
  b ** inv a = inv (a ** inv b).
Proof.
  intros om a b Wa Wb Ba Bb Ka Kb V.
  pose proof (quot_perm_on om a b Wa Wb Ba Bb Ka Kb V) as P.
  apply map_eq_some; [apply compose_partial_wf|apply inverse_wf|].
  intros k v. rewrite (quot_get b a Wb Wa Ba), (po_get_inv om _ v k P), (quot_get a b Wa Wb Bb).
  split; intros (y & H1 & H2); eauto.
Qed.

(* membership in a class group is closed under inverse (exactness of the Schreier–Sims model) *)
Lemma gcontains_inv_closed : forall c p x, grp_ok c -> perm_on (c_slots c) p ->
  gcontains false (c_group c) p = Ok x -> gcontains false (c_group c) (inv p) = Ok x.
Proof.
  intros c p x (gens & HG & Hg) Hp H.
  pose proof (identity_is_id (c_slots c)) as Hid.
  pose proof (po_inv _ p Hp) as Hpi.
  destruct x.
  - apply (gcontains_complete _ _ gens Hid HG _ _ Hg). apply gen_inv.
    apply (gcontains_sound _ _ gens Hid HG _ _ Hp Hg H).
  - destruct (gcontains_no_err _ _ gens Hid HG _ _ Hg Hpi) as [[|] Hb]; [|assumption].
    exfalso. pose proof (gcontains_sound _ _ gens Hid HG _ _ Hpi Hg Hb) as G.
    apply gen_inv in G. rewrite inverse_involutive in G by (eapply po_wf || eapply po_bij; eauto).
    pose proof (gcontains_complete _ _ gens Hid HG _ _ Hg G). congruence.
Qed.

Lemma gcontains_identity : forall c, grp_ok c ->
  gcontains false (c_group c) (identity (c_slots c)) = Ok true.
Proof.
  intros c (gens & HG & Hg).
  apply (gcontains_complete _ _ gens (identity_is_id (c_slots c)) HG _ _ Hg). apply gen_id.
Qed.

Theorem eg_eq_refl : forall s a a', find_applied_id s a = Ok a' -> canon_ok s a' ->
  eg_eq s a a = Ok true.
Proof.
  intros s a a' H (c & Hc & G & W & B & K). unfold eg_eq. rewrite H. cbn [bind].
  rewrite N.eqb_refl, sset_eqb_refl. cbn [negb]. rewrite Hc. cbn [bind].
  rewrite compose_inverse by assumption. rewrite K. apply gcontains_identity. assumption.
Qed.

Theorem eg_eq_sym : forall s a b a' b' x,
  find_applied_id s a = Ok a' -> find_applied_id s b = Ok b' -> canon_ok s a' -> canon_ok s b' ->
  eg_eq s a b = Ok x -> eg_eq s b a = Ok x.
Proof.
  intros s a b a' b' x Ha Hb (c & Hc & G & Wa & Ba & Ka) (c' & Hc' & _ & Wb & Bb & Kb) H.
  unfold eg_eq in *. rewrite Ha, Hb in *. cbn [bind] in *.
  rewrite (N.eqb_sym (aid b') (aid a')), (sset_eqb_sym (values (am b')) (values (am a'))).
  destruct (aid a' =? aid b') eqn:E; cbn [negb] in *; [|assumption]. neq.
  destruct (sset_eqb (values (am a')) (values (am b'))) eqn:V; cbn [negb] in *; [|assumption].
  apply sset_eqb_eq in V. rewrite <- E, Hc in *. cbn [bind] in *.
  inversion Hc'; subst c'.
  rewrite (quot_inverse (c_slots c) (am a') (am b')) by assumption.
  apply gcontains_inv_closed; [assumption| |assumption].
  apply quot_perm_on; assumption.
Qed.

(* a total version: when both canonical forms are well formed, eg_eq answers *)
Theorem eg_eq_total : forall s a b a' b',
  find_applied_id s a = Ok a' -> find_applied_id s b = Ok b' -> canon_ok s a' -> canon_ok s b' ->
  exists x, eg_eq s a b = Ok x.
Proof.
  intros s a b a' b' Ha Hb (c & Hc & G & Wa & Ba & Ka) (c' & Hc' & _ & Wb & Bb & Kb).
  unfold eg_eq. rewrite Ha, Hb. cbn [bind].
  destruct (aid a' =? aid b') eqn:E; cbn [negb]; [|eauto]. neq.
  destruct (sset_eqb (values (am a')) (values (am b'))) eqn:V; cbn [negb]; [|eauto].
  apply sset_eqb_eq in V. rewrite Hc. cbn [bind]. rewrite <- E, Hc in Hc'. inversion Hc'; subst c'.
  destruct G as (gens & HG & Hg).
  apply (gcontains_no_err _ _ gens (identity_is_id (c_slots c)) HG _ _ Hg).
  apply quot_perm_on; assumption.
Qed.

(* ------------------------------------------------------------------ *)
(* 5. preservation of uf_ok *)

(* 5a. the table updates *)

Lemma uentry_app_inv : forall u x i e, uentry (u ++ [x]) i = Some e ->
  uentry u i = Some e \/ (i = N.of_nat (List.length u) /\ e = x).
Proof.
  unfold uentry. intros u x i e H.
  destruct (Nat.lt_trichotomy (N.to_nat i) (List.length u)) as [L|[L|L]].
  - left. rewrite nth_opt_app1 in H; assumption.
  - right. rewrite L, nth_opt_app_last in H. inversion H. split; [lia|reflexivity].
  - apply nth_opt_Some_lt in H. rewrite app_length in H. cbn in H. lia.
Qed.

Lemma uentry_set_inv : forall u j p i e, uentry (set_nth u (N.to_nat j) p) i = Some e ->
  (i = j /\ e = p) \/ (i <> j /\ uentry u i = Some e).
Proof.
  unfold uentry. intros u j p i e H. destruct (N.eq_dec i j) as [->|Hn].
  - left. pose proof (nth_opt_Some_lt _ _ _ H) as L. rewrite set_nth_length in L.
    rewrite nth_opt_set_same in H by assumption. inversion H. auto.
  - right. rewrite nth_opt_set_other in H by lia. auto.
Qed.

Lemma uentry_set_other : forall u j p i, i <> j -> uentry (set_nth u (N.to_nat j) p) i = uentry u i.
Proof. unfold uentry. intros. apply nth_opt_set_other. lia. Qed.

(* appending a fresh leader *)
Lemma ufl_ok_snoc : forall u m, ufl_ok u -> wf m -> pid m ->
  ufl_ok (u ++ [{| aid := N.of_nat (List.length u); am := m |}]).
Proof.
  intros u m [Hb Hw Hp [rank Hr]] Wm Pm. constructor.
  - intros i e H. rewrite app_length. cbn [List.length].
    apply uentry_app_inv in H. destruct H as [H|[_ ->]]; [apply Hb in H; lia|cbn [aid]; lia].
  - intros i e H. apply uentry_app_inv in H. destruct H as [H|[_ ->]]; [eapply Hw; eauto|exact Wm].
  - intros i e H. apply uentry_app_inv in H. destruct H as [H|[_ ->]]; [eapply Hp; eauto|intros _; exact Pm].
  - exists rank. intros i e H. apply uentry_app_inv in H. destruct H as [H|[-> ->]]; [eapply Hr; eauto|].
    cbn [aid]. congruence.
Qed.

(* overwriting an entry by a leader entry *)
Lemma ufl_ok_set_self : forall u j m, ufl_ok u -> wf m -> pid m ->
  ufl_ok (set_nth u (N.to_nat j) {| aid := j; am := m |}).
Proof.
  intros u j m [Hb Hw Hp [rank Hr]] Wm Pm. constructor.
  - intros i e H. pose proof (uentry_lt _ _ _ H) as L. rewrite set_nth_length in *.
    apply uentry_set_inv in H. destruct H as [[-> ->]|[_ H]]; [exact L|eapply Hb; eauto].
  - intros i e H. apply uentry_set_inv in H. destruct H as [[-> ->]|[_ H]]; [exact Wm|eapply Hw; eauto].
  - intros i e H. apply uentry_set_inv in H. destruct H as [[-> ->]|[_ H]]; [intros _; exact Pm|eapply Hp; eauto].
  - exists rank. intros i e H. apply uentry_set_inv in H. destruct H as [[-> ->]|[_ H]]; [|eapply Hr; eauto].
    cbn [aid]. congruence.
Qed.

(* redirecting an entry to a leader other than itself *)
Lemma ufl_ok_set_leader : forall u j t m, ufl_ok u -> uleader u t -> t <> j -> wf m ->
  ufl_ok (set_nth u (N.to_nat j) {| aid := t; am := m |}).
Proof.
  intros u j t m [Hb Hw Hp [rank Hr]] (et & Het & Hat) Hn Wm. constructor.
  - intros i e H. rewrite set_nth_length.
    apply uentry_set_inv in H. destruct H as [[-> ->]|[_ H]]; [|eapply Hb; eauto].
    cbn [aid]. eapply uentry_lt; eauto.
  - intros i e H. apply uentry_set_inv in H. destruct H as [[-> ->]|[_ H]]; [exact Wm|eapply Hw; eauto].
  - intros i e H. apply uentry_set_inv in H. destruct H as [[-> ->]|[_ H]]; [|eapply Hp; eauto].
    cbn [aid]. congruence.
  - exists (fun x => if x =? t then rank t else (rank x + rank t + 1)%nat).
    intros i e H. apply uentry_set_inv in H. destruct H as [[-> ->]|[Hij H]].
    + cbn [aid]. intros _. rewrite N.eqb_refl. destruct (j =? t) eqn:E; neq; [congruence|lia].
    + intros Hne. assert (Hit : i <> t). { intros ->. rewrite Het in H. inversion H; subst. congruence. }
      pose proof (Hr _ _ H Hne) as R.
      destruct (i =? t) eqn:E1; neq; [congruence|]. destruct (aid e =? t) eqn:E2; neq; [subst; lia|lia].
Qed.

Lemma unionfind_set_uf : forall i p s x s', unionfind_set i p s = Ok (x, s') ->
  (N.to_nat i = lu s /\ unionfind s' = unionfind s ++ [p]) \/
  ((N.to_nat i < lu s)%nat /\ unionfind s' = set_nth (unionfind s) (N.to_nat i) p).
Proof.
  unfold unionfind_set. intros i p s x s' H.
  destruct (Nat.eqb _ _) eqn:E1.
  - inversion H; subst; cbn. apply Nat.eqb_eq in E1. left. auto.
  - destruct (Nat.ltb _ _) eqn:E2; [|discriminate].
    inversion H; subst; cbn. apply Nat.ltb_lt in E2. right. auto.
Qed.

(* the two uses of unionfind_set in the model *)
Theorem uf_ok_ufset_self : forall i m s x s', uf_ok s -> wf m -> pid m ->
  unionfind_set i {| aid := i; am := m |} s = Ok (x, s') -> uf_ok s'.
Proof.
  unfold uf_ok. intros i m s x s' H Wm Pm E. apply unionfind_set_uf in E.
  destruct E as [[Ei ->]|[_ ->]].
  - replace i with (N.of_nat (lu s)) by lia. apply ufl_ok_snoc; assumption.
  - apply ufl_ok_set_self; assumption.
Qed.

Theorem uf_ok_ufset_leader : forall i t m s x s', uf_ok s -> leader s t -> t <> i -> wf m ->
  (N.to_nat i < lu s)%nat ->
  unionfind_set i {| aid := t; am := m |} s = Ok (x, s') -> uf_ok s'.
Proof.
  unfold uf_ok, leader. intros i t m s x s' H Ht Hn Wm Li E. apply unionfind_set_uf in E.
  destruct E as [[Ei _]|[_ ->]]; [lia|]. apply ufl_ok_set_leader; assumption.
Qed.

Lemma pid_identity : forall sl, pid (identity sl).
Proof. intros sl k v. rewrite get_identity. destruct (sset_mem k sl); congruence. Qed.

Lemma pid_compose : forall a b, wf a -> pid a -> pid b -> pid (a ** b).
Proof.
  intros a b Wa Pa Pb k v. rewrite get_compose_partial by assumption.
  destruct (get a k) as [y|] eqn:E; [|discriminate]. apply Pa in E. subst y. apply Pb.
Qed.

Theorem uf_ok_empty : uf_ok empty_egraph.
Proof.
  constructor; cbn; unfold uentry; cbn.
  - intros i e H. destruct (N.to_nat i); discriminate.
  - intros i e H. destruct (N.to_nat i); discriminate.
  - intros i e H. destruct (N.to_nat i); discriminate.
  - exists (fun _ => 0%nat). intros i e H. destruct (N.to_nat i); discriminate.
Qed.

(* 5b. the pass over the model.  ufR is not preserved by an arbitrary unionfind_set, so the
   generic pass of ModelFacts.v (whose hypothesis ok_ufset quantifies over every new entry)
   does not apply; the lemmas of ModelFacts.v that do not touch the union-find are reused, the
   ones downstream of unionfind_set are redone with the facts about the written entry. *)

Definition ufR (s s' : egraph) : Prop := uf_ok s -> uf_ok s'.
Local Notation upres := (pres ufR).

Lemma ufR_refl : forall s, ufR s s.
Proof. unfold ufR; auto. Qed.
Lemma ufR_trans : forall a b c, ufR a b -> ufR b c -> ufR a c.
Proof. unfold ufR; auto. Qed.
Lemma ufR_pend : forall s p, ufR s (set_pending s p).
Proof. unfold ufR, uf_ok; cbn; auto. Qed.
Lemma ufR_hc : forall s h, ufR s (set_hashcons s h).
Proof. unfold ufR, uf_ok; cbn; auto. Qed.
Lemma ufR_cls : forall s c, ufR s (set_classes s c).
Proof. unfold ufR, uf_ok; cbn; auto. Qed.
Lemma ufR_cls' : forall s c, List.length c = lc s -> ufR s (set_classes s c).
Proof. intros; apply ufR_cls. Qed.
Lemma ufR_ctr : forall s c, ufR s (set_ctr s c).
Proof. unfold ufR, uf_ok; cbn; auto. Qed.

Lemma u_bind : forall A C (m : M A) (k : A -> M C), upres m -> (forall a, upres (k a)) -> upres (mbind m k).
Proof. apply (pres_bind ufR ufR_trans). Qed.
Lemma u_ret : forall A (a : A), upres (ret a).
Proof. apply (pres_ret ufR ufR_refl). Qed.
Lemma u_fail : forall A e, upres (@fail A e).
Proof. apply (pres_fail ufR). Qed.
Lemma u_lift : forall A (r : res A), upres (Model.lift r).
Proof. apply (pres_lift ufR ufR_refl). Qed.
Lemma u_reads : forall A (f : egraph -> res A), upres (reads f).
Proof. apply (pres_reads ufR ufR_refl). Qed.
Lemma u_gets : forall A (f : egraph -> A), upres (gets f).
Proof. apply (pres_gets ufR ufR_refl). Qed.
Lemma u_iterM : forall A (f : A -> M unit) l, (forall x, upres (f x)) -> upres (iterM f l).
Proof. apply (pres_iterM ufR ufR_refl ufR_trans). Qed.
Lemma u_mapM : forall A C (f : A -> M C) l, (forall x, upres (f x)) -> upres (mapM f l).
Proof. apply (pres_mapM ufR ufR_refl ufR_trans). Qed.
Lemma u_upd_class : forall i f, upres (upd_class i f).
Proof. apply (pres_upd_class ufR ufR_cls'). Qed.
Lemma u_pending_insert : forall sh ty, upres (pending_insert sh ty).
Proof. apply (pres_pending_insert ufR ufR_pend). Qed.
Lemma u_pending_touch : forall sh ty, upres (pending_touch sh ty).
Proof. apply (pres_pending_touch ufR ufR_pend). Qed.
Lemma u_modify_pend : forall f, upres (modify (fun s => set_pending s (f s))).
Proof. intros f. apply pres_modify. intros; apply ufR_pend. Qed.
Lemma u_modify_hc : forall f, upres (modify (fun s => set_hashcons s (f s))).
Proof. intros f. apply pres_modify. intros; apply ufR_hc. Qed.
Lemma u_fresh : upres fresh.
Proof. apply (anyctr_fresh ufR ufR_ctr). Qed.
Lemma u_with_ctr : forall A (f : N -> A * N), upres (with_ctr f).
Proof. apply (anyctr_with_ctr ufR ufR_ctr). Qed.
Lemma u_refresh : forall n, upres (refresh_step n).
Proof. apply (anyctr_refresh ufR ufR_ctr). Qed.
Lemma u_raw_add_to_class : forall id t src, upres (raw_add_to_class id t src).
Proof. apply (pres_raw_add_to_class ufR ufR_refl ufR_trans ufR_hc ufR_cls'). Qed.
Lemma u_raw_remove_from_class : forall id sh, upres (raw_remove_from_class id sh).
Proof. apply (pres_raw_remove_from_class ufR ufR_refl ufR_trans ufR_hc ufR_cls'). Qed.
Lemma u_touched_class : forall i ty, upres (touched_class i ty).
Proof. apply (pres_touched_class ufR ufR_refl ufR_trans ufR_pend). Qed.
Lemma u_pc_congruence : forall a b, upres (pc_congruence a b).
Proof.
  apply (pres_pc_congruence ufR ufR_refl ufR_trans); intros; apply u_with_ctr.
Qed.
Lemma u_fill_fresh : forall l m, upres (fill_fresh l m).
Proof. apply (pres_fill_fresh ufR ufR_refl ufR_trans u_fresh). Qed.
Lemma u_synify_app_id : forall a, upres (synify_app_id a).
Proof. apply (pres_synify_app_id ufR ufR_refl ufR_trans u_fresh). Qed.
Lemma u_synify_enode : forall n, upres (synify_enode n).
Proof. apply (pres_synify_enode ufR ufR_refl ufR_trans u_fresh). Qed.

Local Ltac ustep :=
  cbv beta zeta;
  match goal with
  | |- pres ufR (mbind _ _) => apply u_bind; [| intros ?]
  | |- pres ufR (ret _) => apply u_ret
  | |- pres ufR (fail _) => apply u_fail
  | |- pres ufR (Model.lift _) => apply u_lift
  | |- pres ufR (reads _) => apply u_reads
  | |- pres ufR (gets _) => apply u_gets
  | |- pres ufR (iterM _ _) => apply u_iterM; intros ?
  | |- pres ufR (mapM _ _) => apply u_mapM; intros ?
  | |- pres ufR (upd_class _ _) => apply u_upd_class
  | |- pres ufR (pending_insert _ _) => apply u_pending_insert
  | |- pres ufR (pending_touch _ _) => apply u_pending_touch
  | |- pres ufR (modify (fun s => set_pending s _)) => apply pres_modify; intros; apply ufR_pend
  | |- pres ufR (modify (fun s => set_hashcons s _)) => apply pres_modify; intros; apply ufR_hc
  | |- pres ufR fresh => apply u_fresh
  | |- pres ufR (with_ctr _) => apply u_with_ctr
  | |- pres ufR (raw_add_to_class _ _ _) => apply u_raw_add_to_class
  | |- pres ufR (raw_remove_from_class _ _) => apply u_raw_remove_from_class
  | |- pres ufR (touched_class _ _) => apply u_touched_class
  | |- pres ufR (pc_congruence _ _) => apply u_pc_congruence
  | |- pres ufR (synify_app_id _) => apply u_synify_app_id
  | |- pres ufR (synify_enode _) => apply u_synify_enode
  | |- pres ufR (match ?x with _ => _ end) => destruct x
  | |- pres ufR _ => solve [auto]
  end.
Local Ltac usolve := repeat ustep.

(* conclude from a run of a ufR-preserving computation *)
Local Ltac by_upres H :=
  match type of H with
  | ?m ?s = Ok _ =>
      let U := fresh "U" in
      assert (U : pres ufR m); [ | exact (U _ _ _ H ltac:(assumption)) ]
  end.

Lemma bind_reads_inv : forall A C (f : egraph -> res A) (k : A -> M C) s r,
  mbind (reads f) k s = Ok r -> exists a, f s = Ok a /\ k a s = Ok r.
Proof. unfold mbind, reads. intros A C f k s r H. destruct (f s); [eauto|discriminate]. Qed.

Lemma u_record_redundancy_witness : forall i cap, upres (record_redundancy_witness i cap).
Proof.
  intros i cap s x s' H Hok. unfold record_redundancy_witness in H.
  apply bind_reads_inv in H. destruct H as (ss & _ & H).
  eapply uf_ok_ufset_self; [exact Hok| | |exact H].
  - apply compose_partial_wf.
  - apply pid_compose; [apply from_iter_wf|apply pid_identity|apply pid_identity].
Qed.

Theorem uf_ok_alloc_eclass : forall sl syn, upres (alloc_eclass sl syn).
Proof.
  intros sl syn s i s' H Hok. unfold alloc_eclass, mbind, gets, Model.lift, modify, ret in H.
  destruct (group_new false (identity sl) []); [|discriminate].
  match type of H with match ?u with _ => _ end = _ => destruct u as [[[] s1]|] eqn:E end; [|discriminate].
  inversion H; subst. eapply uf_ok_ufset_self; [| | |exact E].
  - exact Hok.
  - apply from_iter_wf.
  - apply pid_identity.
Qed.

(* move_to between two distinct leaders *)
Theorem uf_ok_move_to : forall from to s x s', uf_ok s ->
  leader s (aid from) -> leader s (aid to) -> aid to <> aid from ->
  move_to from to s = Ok (x, s') -> uf_ok s'.
Proof.
  intros from to s x s' Hok Lf Lt Hn H. unfold move_to in H. cbv zeta in H.
  apply mbind_inv in H. destruct H as (u & s1 & H1 & H).
  assert (Hok1 : uf_ok s1).
  { eapply uf_ok_ufset_leader; [exact Hok|exact Lt|exact Hn|apply compose_partial_wf| |exact H1].
    destruct Lf as (e & He & _). eapply uentry_lt; eauto. }
  clear Hok. by_upres H. usolve.
Qed.

Section UfUi.
  Variable ui : appid -> appid -> M bool.
  Hypothesis H_ui : forall l r, upres (ui l r).

  Lemma u_shrink_slots : forall from cap, upres (shrink_slots ui from cap).
  Proof.
    intros from cap. unfold shrink_slots. pose proof u_record_redundancy_witness. usolve.
  Qed.

  (* union_leaders, called on two leaders *)
  Lemma uf_ok_union_leaders : forall l r s x s', uf_ok s -> leader s (aid l) -> leader s (aid r) ->
    union_leaders ui l r s = Ok (x, s') -> uf_ok s'.
  Proof.
    intros l r s x s' Hok Ll Lr H. unfold union_leaders in H.
    apply bind_reads_inv in H. destruct H as (e & _ & H).
    destruct e; [inversion H; subst; assumption|]. cbv zeta in H.
    pose proof u_shrink_slots as USS.
    destruct (negb (sset_eqb (values (am l)) _)); [by_upres H; usolve|].
    destruct (negb (sset_eqb (values (am r)) _)); [by_upres H; usolve|].
    destruct (aid l =? aid r) eqn:E; [by_upres H; usolve|]. neq.
    apply bind_reads_inv in H. destruct H as (cl & _ & H).
    apply bind_reads_inv in H. destruct H as (cr & _ & H).
    apply mbind_inv in H. destruct H as (u & s1 & H1 & H). inversion H; subst; clear H.
    match type of H1 with (if ?b then _ else _) _ = _ => destruct b end.
    - eapply uf_ok_move_to; [exact Hok|exact Ll|exact Lr| |exact H1]. congruence.
    - eapply uf_ok_move_to; [exact Hok|exact Lr|exact Ll| |exact H1]. congruence.
  Qed.

  Lemma u_union_internal_body : forall l r, upres (union_internal_body ui l r).
  Proof.
    intros l r s x s' H Hok. unfold union_internal_body in H.
    apply bind_reads_inv in H. destruct H as (l' & Hl & H).
    apply bind_reads_inv in H. destruct H as (r' & Hr & H).
    eapply uf_ok_union_leaders; [exact Hok| | |exact H]; eapply find_is_leader; eauto.
  Qed.
End UfUi.

Lemma u_union_internal : forall fuel l r, upres (union_internal fuel l r).
Proof.
  induction fuel; intros l r; cbn [union_internal]; [apply u_fail|].
  apply u_union_internal_body. exact IHfuel.
Qed.
Lemma u_uint : forall l r, upres (uint l r).
Proof. intros; apply u_union_internal. Qed.

Lemma u_handle_shrink : forall src, upres (handle_shrink_in_upwards_merge src).
Proof.
  intros src. unfold handle_shrink_in_upwards_merge.
  pose proof (u_shrink_slots uint u_uint). usolve.
Qed.
Lemma u_handle_congruence : forall pc, upres (handle_congruence pc).
Proof. intros pc. unfold handle_congruence. pose proof u_uint. usolve. Qed.
Lemma u_determine_self_symmetries : forall src, upres (determine_self_symmetries src).
Proof. intros src. unfold determine_self_symmetries. pose proof u_uint. usolve. Qed.
Lemma u_hp_loop : forall fuel src enode i, upres (hp_loop fuel src enode i).
Proof.
  induction fuel; intros src enode i; cbn [hp_loop]; [apply u_fail|].
  pose proof u_handle_shrink. usolve.
Qed.
Lemma u_handle_pending : forall sh ty, upres (handle_pending sh ty).
Proof.
  intros sh ty. unfold handle_pending.
  pose proof u_hp_loop. pose proof u_handle_congruence. pose proof u_determine_self_symmetries.
  pose proof u_fill_fresh as Hff. unfold fill_fresh in Hff. usolve.
Qed.
Lemma u_rebuild : forall fuel, upres (rebuild fuel).
Proof.
  induction fuel; cbn [rebuild]; [apply u_fail|].
  pose proof u_handle_pending. usolve.
Qed.
Lemma u_eg_union : forall l r, upres (eg_union l r).
Proof. intros l r. unfold eg_union. pose proof u_uint. pose proof u_rebuild. usolve. Qed.

Lemma u_mk_singleton_class : forall n, upres (mk_singleton_class n).
Proof.
  intros n. unfold mk_singleton_class. pose proof u_rebuild. pose proof uf_ok_alloc_eclass. usolve.
Qed.
Lemma u_add_internal : forall t, upres (add_internal t).
Proof.
  intros t. unfold add_internal. pose proof u_mk_singleton_class.
  pose proof u_refresh as Hr. unfold refresh_step in Hr. usolve.
Qed.
Lemma u_eg_add : forall n, upres (eg_add n).
Proof. intros n. unfold eg_add. pose proof u_add_internal. usolve. Qed.
Lemma u_add_expr : forall t, upres (add_expr t).
Proof.
  fix IH 1. intros [n ch]. cbn [add_expr]. apply u_bind.
  - induction ch as [|c r IHr]; [apply u_ret|].
    apply u_bind; [apply IH|]. intros a. apply u_bind; [apply IHr|]. intros; apply u_ret.
  - intros l. destruct (Nat.ltb _ _); [apply u_fail | apply u_eg_add].
Qed.

Theorem uf_ok_union_internal : forall fuel l r s b s', uf_ok s ->
  union_internal fuel l r s = Ok (b, s') -> uf_ok s'.
Proof. intros fuel l r s b s' Hok H. exact (u_union_internal fuel l r _ _ _ H Hok). Qed.
Theorem uf_ok_rebuild : forall fuel s x s', uf_ok s -> rebuild fuel s = Ok (x, s') -> uf_ok s'.
Proof. intros fuel s x s' Hok H. exact (u_rebuild fuel _ _ _ H Hok). Qed.
Theorem uf_ok_eg_union : forall l r s b s', uf_ok s -> eg_union l r s = Ok (b, s') -> uf_ok s'.
Proof. intros l r s b s' Hok H. exact (u_eg_union l r _ _ _ H Hok). Qed.
Theorem uf_ok_eg_add : forall n s a s', uf_ok s -> eg_add n s = Ok (a, s') -> uf_ok s'.
Proof. intros n s a s' Hok H. exact (u_eg_add n _ _ _ H Hok). Qed.
Theorem uf_ok_add_expr : forall t s a s', uf_ok s -> add_expr t s = Ok (a, s') -> uf_ok s'.
Proof. intros t s a s' Hok H. exact (u_add_expr t _ _ _ H Hok). Qed.

(* every state reached from the empty e-graph by a history of the correspondence machine *)
Theorem uf_ok_run_ops : forall terms ops hs s hs' s', uf_ok s ->
  run_ops terms ops hs s = Ok (hs', s') -> uf_ok s'.
Proof.
  intros terms ops. induction ops as [|o t IH]; intros hs s hs' s' Hok H; cbn [run_ops] in H.
  - inversion H; subst; assumption.
  - destruct o as [k|i j just].
    + destruct (nth_opt terms k) as [tm|]; [|discriminate].
      apply mbind_inv in H. destruct H as (a & s1 & H1 & H).
      eapply IH; [|exact H]. eapply uf_ok_add_expr; eauto.
    + destruct (nth_opt hs i) as [a|]; [|discriminate]. destruct (nth_opt hs j) as [b|]; [|discriminate].
      apply mbind_inv in H. destruct H as (u & s1 & H1 & H).
      eapply IH; [|exact H]. eapply uf_ok_eg_union; eauto.
Qed.

Corollary uf_ok_reachable : forall terms ops hs s,
  run_ops terms ops [] empty_egraph = Ok (hs, s) -> uf_ok s.
Proof. intros terms ops hs s H. eapply uf_ok_run_ops; [apply uf_ok_empty|exact H]. Qed.

(* ------------------------------------------------------------------ *)
(* 4'. eg_eq from a premise on the invocation itself.
   `uf_slots_ok` is a local invariant relating each entry of the table to the slots of the two
   classes it connects (the Rust code maintains `unionfind[i] = (p, m)` with m : slots(p) -> slots(i)).
   It is decidable given the group witnesses (`uf_slots_okb`); its preservation by rebuild would
   need the well-formedness of every invocation built inside rebuild and is not proved here. *)

Definition sub_keys (sl : sset) (m : slotmap) : Prop := forall k, In k sl -> get m k <> None.
Definition vals_in (m : slotmap) (sl : sset) : Prop := forall k v, get m k = Some v -> In v sl.

Record uf_slots_ok (s : egraph) : Prop := {
  uso_wf : eg_wf s;
  uso_grp : forall i c, leader s i -> get_class s i = Ok c -> grp_ok c;
  uso_leader : forall i e c, uentry (unionfind s) i = Some e -> aid e = i ->
     get_class s i = Ok c -> keys (am e) = c_slots c;
  uso_edge : forall i e ci cp, uentry (unionfind s) i = Some e -> aid e <> i ->
     get_class s i = Ok ci -> get_class s (aid e) = Ok cp ->
     injective (am e) /\ sub_keys (c_slots cp) (am e) /\ vals_in (am e) (c_slots ci) }.

(* the premise on an invocation: its class exists, its map is injective and defined on (at
   least) the slots of the class *)
Definition covers (s : egraph) (a : appid) : Prop :=
  exists c, get_class s (aid a) = Ok c /\ injective (am a) /\ sub_keys (c_slots c) (am a).

Lemma get_class_ok : forall s i, (N.to_nat i < lc s)%nat -> exists c, get_class s i = Ok c.
Proof. intros s i H. unfold get_class. destruct (nth_opt_some_lt _ _ H) as [c ->]. eauto. Qed.

Lemma comp_props : forall l e, wf l -> injective l -> injective e ->
  (forall k v, get l k = Some v -> get e v <> None) ->
  injective (l ** e) /\ (forall k, get (l ** e) k <> None <-> get l k <> None).
Proof.
  intros l e Wl Il Ie Hd. split.
  - intros k1 k2 v. rewrite !get_compose_partial by assumption.
    destruct (get l k1) as [y1|] eqn:E1; [|discriminate]. destruct (get l k2) as [y2|] eqn:E2; [|discriminate].
    intros H1 H2. pose proof (Ie _ _ _ H1 H2). subst. eapply Il; eauto.
  - intros k. rewrite get_compose_partial by assumption.
    destruct (get l k) as [y|] eqn:E; [|tauto]. split; [congruence|]. intros _. eapply Hd; eauto.
Qed.

Lemma pid_injective : forall m, pid m -> injective m.
Proof. intros m P k1 k2 v H1 H2. apply P in H1, H2. congruence. Qed.

Lemma uf_get_go_canon : forall s, uf_ok s -> uf_slots_ok s ->
  forall fuel i p ci, uf_get_go fuel (unionfind s) i = Ok p -> get_class s i = Ok ci ->
  exists cl, get_class s (aid p) = Ok cl /\ wf (am p) /\ injective (am p) /\
             (forall k, get (am p) k <> None <-> In k (c_slots cl)) /\ vals_in (am p) (c_slots ci).
Proof.
  intros s [Hb Hw Hp _] [Wf _ HL HE]. induction fuel as [|f IH]; intros i p ci H Hci; [discriminate|].
  cbn [uf_get_go] in H. destruct (nth_opt (unionfind s) (N.to_nat i)) as [e|] eqn:He; [|discriminate].
  destruct (aid e =? i) eqn:E.
  - neq. inversion H; subst p. rewrite E. exists ci. split; [assumption|].
    pose proof (Hp _ _ He E) as P. pose proof (HL _ _ _ He E Hci) as K.
    split; [eapply Hw; eauto|]. split; [apply pid_injective; assumption|]. split.
    + intros k. rewrite <- K. symmetry. apply keys_spec.
    + intros k v G. pose proof (P _ _ G). subst v. rewrite <- K. apply keys_spec. congruence.
  - neq. destruct (uf_get_go f (unionfind s) (aid e)) as [l|] eqn:Hl; [|discriminate]. cbn [bind] in H.
    inversion H; subst p. cbn [aid am].
    destruct (get_class_ok s (aid e)) as [cq Hcq]. { rewrite <- Wf. eapply Hb; eauto. }
    destruct (IH _ _ _ Hl Hcq) as (cl & Hcl & Wl & Il & Kl & Vl).
    destruct (HE _ _ _ _ He E Hci Hcq) as (Ie & Se & Ve).
    destruct (comp_props (am l) (am e) Wl Il Ie) as [I2 K2].
    { intros k v G. apply Se. eapply Vl; eauto. }
    exists cl. split; [assumption|]. split; [apply compose_partial_wf|]. split; [assumption|]. split.
    + intros k. rewrite K2. apply Kl.
    + intros k v. rewrite get_compose_partial by assumption.
      destruct (get (am l) k); [|discriminate]. apply Ve.
Qed.

(* the canonical form of a covering invocation is canonical *)
Theorem find_canon : forall s a a', uf_ok s -> uf_slots_ok s -> covers s a ->
  find_applied_id s a = Ok a' -> canon_ok s a'.
Proof.
  intros s a a' Hok Hs (c & Hc & Ia & Sa) H.
  pose proof (find_is_leader _ _ _ H) as L.
  unfold find_applied_id, unionfind_get in H.
  destruct (uf_get_go _ _ _) as [p|] eqn:Hp; [|discriminate]. cbn [bind] in H. inversion H; subst a'.
  cbn [aid am] in *.
  destruct (uf_get_go_canon s Hok Hs _ _ _ _ Hp Hc) as (cl & Hcl & Wl & Il & Kl & Vl).
  destruct (comp_props (am p) (am a) Wl Il Ia) as [I2 K2].
  { intros k v G. apply Sa. eapply Vl; eauto. }
  exists cl. cbn [aid am]. split; [assumption|]. split; [eapply uso_grp; eauto|].
  split; [apply compose_partial_wf|]. split; [apply is_bijection_injective; [apply compose_partial_wf|assumption]|].
  destruct L as (el & Hel & Hael).
  rewrite <- (uso_leader s Hs _ _ _ Hel Hael Hcl).
  apply sset_ext; try apply sset_of_list_spec.
  intros k. rewrite !keys_spec, K2, Kl. rewrite <- (uso_leader s Hs _ _ _ Hel Hael Hcl). apply keys_spec.
Qed.

Lemma covers_find_ok : forall s a, uf_ok s -> uf_slots_ok s -> covers s a ->
  exists a', find_applied_id s a = Ok a' /\ canon_ok s a'.
Proof.
  intros s a Hok Hs Hc. pose proof Hc as (c & Hcl & _).
  destruct (find_applied_id_ok s a Hok) as [a' Ha'].
  { rewrite (uso_wf s Hs). eapply get_class_lt; eauto. }
  exists a'. split; [assumption|]. eapply find_canon; eauto.
Qed.

Theorem eg_eq_refl_inv : forall s a, uf_ok s -> uf_slots_ok s -> covers s a -> eg_eq s a a = Ok true.
Proof.
  intros s a Hok Hs Hc. destruct (covers_find_ok s a Hok Hs Hc) as (a' & Ha & Ca).
  eapply eg_eq_refl; eauto.
Qed.

Theorem eg_eq_sym_inv : forall s a b, uf_ok s -> uf_slots_ok s -> covers s a -> covers s b ->
  exists x, eg_eq s a b = Ok x /\ eg_eq s b a = Ok x.
Proof.
  intros s a b Hok Hs Ha Hb.
  destruct (covers_find_ok s a Hok Hs Ha) as (a' & Fa & Ca).
  destruct (covers_find_ok s b Hok Hs Hb) as (b' & Fb & Cb).
  destruct (eg_eq_total s a b a' b' Fa Fb Ca Cb) as [x Hx].
  exists x. split; [assumption|]. eapply eg_eq_sym; eauto.
Qed.

(* an executable check of the table part of uf_slots_ok *)
Definition entry_okb (s : egraph) (i : N) (e : appid) : bool :=
  match get_class s i, get_class s (aid e) with
  | Ok ci, Ok cp =>
      if aid e =? i then sset_eqb (keys (am e)) (c_slots ci)
      else is_bijection (am e) && forallb (contains_key (am e)) (c_slots cp)
           && forallb (fun kv => sset_mem (snd kv) (c_slots ci)) (am e)
  | _, _ => false
  end.

Definition uf_slots_okb (s : egraph) : bool :=
  eg_wfb s &&
  forallb (fun j => match nth_opt (unionfind s) j with
                    | Some e => entry_okb s (N.of_nat j) e
                    | None => false
                    end) (seq 0 (lu s)).

Theorem uf_slots_okb_sound : forall s, uf_ok s -> uf_slots_okb s = true ->
  (forall i c, leader s i -> get_class s i = Ok c -> grp_ok c) -> uf_slots_ok s.
Proof.
  intros s [_ Hw _ _] H HG. unfold uf_slots_okb in H. apply andb_true_iff in H. destruct H as [H1 H2].
  apply eg_wfb_spec in H1.
  assert (K : forall i e, uentry (unionfind s) i = Some e -> entry_okb s i e = true).
  { intros i e He. pose proof (uentry_lt _ _ _ He) as L.
    pose proof (proj1 (forallb_forall _ _) H2 (N.to_nat i)) as T. cbv beta in T.
    unfold uentry in He. rewrite He, N2Nat.id in T. apply T. apply in_seq. lia. }
  constructor; [assumption|assumption| |].
  - intros i e c He Hi Hc. apply K in He. unfold entry_okb in He. rewrite Hi, Hc, N.eqb_refl in He.
    apply sset_eqb_eq. assumption.
  - intros i e ci cp He Hn Hci Hcp. pose proof (Hw _ _ He) as W. apply K in He. unfold entry_okb in He.
    rewrite Hci, Hcp in He. rewrite (proj2 (N.eqb_neq _ _) Hn) in He.
    apply andb_true_iff in He. destruct He as [He V]. apply andb_true_iff in He. destruct He as [B S].
    split; [apply is_bijection_injective; assumption|]. split.
    + intros k Hk. pose proof (proj1 (forallb_forall _ _) S k Hk) as T. unfold contains_key in T.
      destruct (get (am e) k); [discriminate|discriminate T].
    + intros k v G. apply get_in in G. pose proof (proj1 (forallb_forall _ _) V _ G) as T.
      cbn [snd] in T. apply sset_mem_in. assumption.
Qed.

(* an executable check of `covers` *)
Fixpoint sortedb (m : slotmap) : bool :=
  match m with
  | [] => true
  | (k, _) :: t => match t with [] => true | (k', _) :: _ => (k <? k') && sortedb t end
  end.

Lemma sortedb_wf : forall m, sortedb m = true -> wf m.
Proof.
  induction m as [|[k v] t IH]; [exact (fun _ => I)|].
  cbn [sortedb wf]. destruct t as [|[k' v'] t'].
  - intros _. split; exact I.
  - intros H. apply andb_true_iff in H. destruct H as [H1 H2]. apply N.ltb_lt in H1.
    split; [exact H1|apply IH; exact H2].
Qed.

Definition coversb (s : egraph) (a : appid) : bool :=
  match get_class s (aid a) with
  | Ok c => sortedb (am a) && is_bijection (am a) && forallb (contains_key (am a)) (c_slots c)
  | Err _ => false
  end.

Lemma coversb_sound : forall s a, coversb s a = true -> covers s a.
Proof.
  unfold coversb, covers. intros s a H. destruct (get_class s (aid a)) as [c|]; [|discriminate].
  apply andb_true_iff in H. destruct H as [H S]. apply andb_true_iff in H. destruct H as [W B].
  apply sortedb_wf in W. exists c. split; [reflexivity|]. split; [apply is_bijection_injective; assumption|].
  intros k Hk. pose proof (proj1 (forallb_forall _ _) S k Hk) as T. unfold contains_key in T.
  destruct (get (am a) k); [discriminate|discriminate T].
Qed.

(* ------------------------------------------------------------------ *)
(* Examples: the hypotheses are satisfiable on a non-trivial reachable state.
   Five terms f(x,y), f(y,x), g(y,x), h(x,y), k(x,y); unions f(x,y)=f(y,x) (a symmetry),
   f=g, h=k, g=k.  Result: 4 classes, parent chains 0 -> 1 -> 3 and 2 -> 3, the leader 3 has a
   symmetry group of order 2. *)

Definition ex_t (v : nat) (a b : slot) : rterm := RT {| nvar := v; nargs := [ASlot a; ASlot b] |} [].
Definition ex_terms : list rterm := [ex_t 2 4 8; ex_t 2 8 4; ex_t 3 8 4; ex_t 4 4 8; ex_t 5 4 8].
Definition ex_ops : list hop :=
  [HAdd 0; HAdd 1; HAdd 2; HAdd 3; HAdd 4;
   HUnion 0 1 None; HUnion 0 2 None; HUnion 3 4 None; HUnion 2 4 None].
Definition ex_run := run_ops ex_terms ex_ops [] empty_egraph.
Definition ex_state : egraph := match ex_run with Ok (_, s) => s | Err _ => empty_egraph end.

Definition ex_h0 := {| aid := 0; am := [(1, 4); (5, 8)] |}.
Definition ex_h1 := {| aid := 0; am := [(1, 8); (5, 4)] |}.
Definition ex_h2 := {| aid := 1; am := [(9, 4); (13, 8)] |}.
Definition ex_h3 := {| aid := 2; am := [(17, 4); (21, 8)] |}.
Definition ex_h4 := {| aid := 3; am := [(25, 4); (29, 8)] |}.

Example ex_run_ok : ex_run = Ok ([ex_h0; ex_h1; ex_h2; ex_h3; ex_h4], ex_state).
Proof. vm_compute. reflexivity. Qed.

Example ex_table :
  unionfind ex_state =
    [{| aid := 1; am := [(9, 1); (13, 5)] |};   {| aid := 3; am := [(25, 9); (29, 13)] |};
     {| aid := 3; am := [(25, 17); (29, 21)] |}; {| aid := 3; am := [(25, 25); (29, 29)] |}] /\
  map c_slots (classes ex_state) = [[1; 5]; [9; 13]; [17; 21]; [25; 29]] /\
  map (fun c => gcount (c_group c)) (classes ex_state) = [2; 2; 1; 2].
Proof. vm_compute. auto. Qed.

(* 1./5. the invariant holds of the example state (by the preservation theorems, not by
   inspection), and of no cyclic table *)
Example ex_uf_ok : uf_ok ex_state.
Proof. eapply uf_ok_reachable. exact ex_run_ok. Qed.

Definition ex_cyclic : egraph :=
  set_uf empty_egraph [{| aid := 1; am := [] |}; {| aid := 0; am := [] |}].
Example ex_cyclic_out_of_fuel : find_applied_id ex_cyclic {| aid := 0; am := [] |} = Err OutOfFuel.
Proof. vm_compute. reflexivity. Qed.
Example ex_cyclic_not_ok : ~ uf_ok ex_cyclic.
Proof.
  intros H. apply (proj2 (proj2 (find_no_fuel_exhaustion _ H)) {| aid := 0; am := [] |}).
  exact ex_cyclic_out_of_fuel.
Qed.

(* 2. find on the deepest id of the example: two steps, no fuel problem *)
Example ex_find : find_applied_id ex_state ex_h0 = Ok {| aid := 3; am := [(25, 4); (29, 8)] |}.
Proof. vm_compute. reflexivity. Qed.
Example ex_find_no_fuel_exhaustion : forall a, find_applied_id ex_state a <> Err OutOfFuel.
Proof. apply (find_no_fuel_exhaustion _ ex_uf_ok). Qed.

(* 3. *)
Example ex_find_is_leader : leader ex_state 3.
Proof. exact (find_is_leader _ _ _ ex_find). Qed.
Example ex_find_idempotent :
  find_applied_id ex_state {| aid := 3; am := [(25, 4); (29, 8)] |} = Ok {| aid := 3; am := [(25, 4); (29, 8)] |}.
Proof. exact (find_idempotent _ _ _ ex_uf_ok ex_find). Qed.

(* 4. the slot invariant holds of the example state *)
Example ex_uf_slots_ok : uf_slots_ok ex_state.
Proof.
  apply uf_slots_okb_sound; [exact ex_uf_ok|vm_compute; reflexivity|].
  intros i c (e & He & Hi) Hc. unfold uentry in He. rewrite (proj1 ex_table) in He.
  destruct (N.to_nat i) as [|[|[|[|n]]]] eqn:En; cbn in He; inversion He; subst e; cbn [aid] in Hi; try lia.
  subst i. vm_compute in Hc. inversion Hc; subst c; clear Hc.
  exists [[(25, 29); (29, 25)]]. split; [|vm_compute; reflexivity].
  constructor; [|constructor]. apply perm_on_iff; [vm_compute; repeat split|].
  split; [vm_compute; repeat split|]. split; vm_compute; reflexivity.
Qed.

Example ex_covers : covers ex_state ex_h0 /\ covers ex_state ex_h1 /\ covers ex_state ex_h3.
Proof. repeat split; apply coversb_sound; vm_compute; reflexivity. Qed.

Example ex_canon : canon_ok ex_state {| aid := 3; am := [(25, 4); (29, 8)] |}.
Proof. exact (find_canon _ _ _ ex_uf_ok ex_uf_slots_ok (proj1 ex_covers) ex_find). Qed.

Example ex_eg_eq_refl : eg_eq ex_state ex_h0 ex_h0 = Ok true.
Proof. exact (eg_eq_refl_inv _ _ ex_uf_ok ex_uf_slots_ok (proj1 ex_covers)). Qed.

(* f(x,y) = f(y,x) through the symmetry of class 3, in both directions; f(x,y) = h(x,y) *)
Example ex_eg_eq_sym :
  eg_eq ex_state ex_h0 ex_h1 = Ok true /\ eg_eq ex_state ex_h1 ex_h0 = Ok true /\
  eg_eq ex_state ex_h3 ex_h0 = Ok true.
Proof.
  assert (E : eg_eq ex_state ex_h0 ex_h1 = Ok true) by (vm_compute; reflexivity).
  assert (E3 : eg_eq ex_state ex_h0 ex_h3 = Ok true) by (vm_compute; reflexivity).
  destruct ex_covers as (C0 & C1 & C3).
  destruct (eg_eq_sym_inv _ _ _ ex_uf_ok ex_uf_slots_ok C0 C1) as (x & H1 & H2).
  destruct (eg_eq_sym_inv _ _ _ ex_uf_ok ex_uf_slots_ok C0 C3) as (y & H3 & H4).
  split; [assumption|]. split; congruence.
Qed.

(* the premise `covers` is needed: on the same state, an invocation of the leader whose map
   misses a class slot makes eg_eq fail, and a non-injective map makes it answer false *)
Example ex_eg_eq_not_refl_partial :
  eg_eq ex_state {| aid := 3; am := [(29, 8)] |} {| aid := 3; am := [(29, 8)] |} = Err SlotMapIndexMissing.
Proof. vm_compute. reflexivity. Qed.
Example ex_eg_eq_not_refl_noninj :
  eg_eq ex_state {| aid := 3; am := [(25, 4); (29, 4)] |} {| aid := 3; am := [(25, 4); (29, 4)] |} = Ok false.
Proof. vm_compute. reflexivity. Qed.

(* 5. the primitive steps, on the example state: class 2 is not a leader, 3 is *)
Example ex_leaders : map (fun i => is_alive ex_state i) [0; 1; 2; 3] = [Ok false; Ok false; Ok false; Ok true].
Proof. vm_compute. reflexivity. Qed.

(* ------------------------------------------------------------------ *)
Print Assumptions uf_get_go_total.
Print Assumptions find_no_fuel_exhaustion.
Print Assumptions find_applied_id_ok.
Print Assumptions find_applied_id_err.
Print Assumptions find_is_leader.
Print Assumptions find_idempotent.
Print Assumptions find_leader_fixed.
Print Assumptions eg_eq_refl.
Print Assumptions eg_eq_sym.
Print Assumptions eg_eq_total.
Print Assumptions find_canon.
Print Assumptions eg_eq_refl_inv.
Print Assumptions eg_eq_sym_inv.
Print Assumptions uf_slots_okb_sound.
Print Assumptions uf_ok_empty.
Print Assumptions uf_ok_ufset_self.
Print Assumptions uf_ok_ufset_leader.
Print Assumptions uf_ok_alloc_eclass.
Print Assumptions uf_ok_move_to.
Print Assumptions uf_ok_union_internal.
Print Assumptions uf_ok_rebuild.
Print Assumptions uf_ok_eg_union.
Print Assumptions uf_ok_eg_add.
Print Assumptions uf_ok_add_expr.
Print Assumptions uf_ok_reachable.
Print Assumptions ex_uf_slots_ok.
Print Assumptions ex_eg_eq_sym.
