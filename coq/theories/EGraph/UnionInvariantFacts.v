(* EGraph/UnionInvariantFacts.v — the slot invariant of the union-find (`uf_slots_ok`, including
   `grp_ok` of every class) through unions and rebuilds.

   Invariant.  `eg_inv s` = `uf_ok s` /\ `uf_slots_ok s` /\ every class is `class_ok` (its slot set is
   sorted, its group is a chain built by `group_new` from permutations of its slots, its slots are
   slots of its syntactic node).  `eg_inv2 s` = `eg_inv s` /\ `syn_below s` (every slot of a syntactic
   node is older than the fresh-slot counter).  `ext s s'`: no class is added or removed, class
   slots only shrink, syntactic nodes are fixed, the counter grows (`covers` is monotone along it).

   Proved (all closed):
   - `gadd_set_grp_ok`: `gadd_set` on a `grp_ok` class with permutations of its slots is `grp_ok`.
   - `inv_shrink_slots`, `inv_move_to`, `inv_union_leaders`, `inv_union_internal` / `inv_uint`:
     `eg_inv` is kept, with `ext`, when the invocations are canonical leaders / `covers` their class.
   - `compose_fresh_inj`, `pre_shape_all_occ`, `pcc_injective`: the invocations built by
     `pc_congruence` are injective and cover the class (by `syn_below`).
   - `inv_handle_shrink`, `inv_handle_congruence`, `inv_determine_self_symmetries`,
     `inv_handle_pending`, `inv_rebuild`: `eg_inv2` is kept unconditionally.
   - `inv_eg_union`: `eg_inv2` is kept by `eg_union l r` when `l` and `r` cover their classes.
   - `inv_mk_singleton`, `inv_add_internal`, `inv_eg_add`, `inv_add_expr`: `eg_inv2` is kept by
     insertions unconditionally (`ext0`: classes may be appended).
   - `eg_eq_trans_inv`: `eg_eq` is transitive on covered invocations of any `uf_ok`/`uf_slots_ok` state.
   - `reachable_checked_equivalence`: for every run in which each union is applied to handles
     that pass the executable `coversb` (`unions_coveredb`), `eg_inv2` holds and `eg_eq` is an
     equivalence relation on covered invocations.
   - `eg_invb_sound`: executable check of the decidable part of `eg_inv2`.
   Conditional: `reachable_eq_refl_sym`, `reachable_eq_equivalence` assume `add_covers_ok terms`
   (the invocation returned by `add_expr` on a reachable state covers its class) — see section 10. *)
From SE Require Import Slots.SlotMapFacts Group.GroupSound Lang.LangFacts Lang.ShapeFacts Lang.RenameFacts
  Base.TextFacts EGraph.Model EGraph.ModelFacts EGraph.ModelMachine EGraph.UnionFindFacts EGraph.InvariantFacts.
Require Import ZArith Lia ZifyBool ZifyN ZifyNat.

Local Notation "a ** b" := (compose_partial a b) (at level 40, left associativity).
Local Notation inv := inverse_nocheck.
Local Notation ectr := Model.ctr.

Local Ltac neq := repeat match goal with
  | H : (_ =? _) = true |- _ => apply N.eqb_eq in H
  | H : (_ =? _) = false |- _ => apply N.eqb_neq in H
  end.

(* ------------------------------------------------------------------ *)
(* 1. the invariant *)

Definition class_ok (c : eclass) : Prop :=
  swf (c_slots c) /\ grp_ok c /\ incl (c_slots c) (slots (c_syn c)).

Definition cls_ok (s : egraph) : Prop := forall i c, get_class s i = Ok c -> class_ok c.

Record eg_inv (s : egraph) : Prop := {
  ei_uf : uf_ok s;
  ei_slots : uf_slots_ok s;
  ei_cls : cls_ok s }.

(* classes are never removed, their slot sets only shrink, their syntactic node is fixed, the
   counter only grows *)
Definition ext (s s' : egraph) : Prop :=
  ectr s <= ectr s' /\ lc s' = lc s /\
  forall i c, get_class s i = Ok c ->
    exists c', get_class s' i = Ok c' /\ incl (c_slots c') (c_slots c) /\ c_syn c' = c_syn c.

Lemma ext_refl : forall s, ext s s.
Proof. intros s. split; [lia|]. split; [reflexivity|]. intros i c H. exists c. split; [assumption|]. split; [apply incl_refl|reflexivity]. Qed.

Lemma ext_trans : forall a b c, ext a b -> ext b c -> ext a c.
Proof.
  intros a b c (L1 & N1 & H1) (L2 & N2 & H2). split; [lia|]. split; [lia|]. intros i x Hx.
  destruct (H1 _ _ Hx) as (y & Hy & I1 & S1). destruct (H2 _ _ Hy) as (z & Hz & I2 & S2).
  exists z. split; [assumption|]. split; [eapply incl_tran; eauto|congruence].
Qed.

Lemma covers_ext : forall s s' a, ext s s' -> covers s a -> covers s' a.
Proof.
  intros s s' a (_ & _ & E) (c & Hc & I & S). destruct (E _ _ Hc) as (c' & Hc' & Hi & _).
  exists c'. split; [assumption|]. split; [assumption|]. intros k Hk. apply S. apply Hi. assumption.
Qed.

Lemma sem_ext : forall s s', sem_eq s s' -> ectr s <= ectr s' -> ext s s'.
Proof.
  intros s s' E L. split; [assumption|]. split; [apply (sem_eq_lengths _ _ E)|]. intros i c Hc.
  destruct (get_class_sem_ok s s' i c E Hc) as (c' & Hc' & Cs). apply csem_inv in Cs. destruct Cs as (A & _ & B).
  exists c'. split; [assumption|]. rewrite A, B. split; [apply incl_refl|reflexivity].
Qed.

Lemma class_ok_csem : forall c c', csem c = csem c' -> class_ok c -> class_ok c'.
Proof.
  intros c c' E (W & G & I). pose proof (grp_ok_csem c c' E G) as G'.
  apply csem_inv in E. destruct E as (A & _ & B). unfold class_ok. rewrite <- A, <- B. auto.
Qed.

Lemma uf_ok_sem : forall s s', sem_eq s s' -> uf_ok s -> uf_ok s'.
Proof. intros s s' [U _] H. unfold uf_ok in *. rewrite <- U. assumption. Qed.

Lemma eg_inv_sem : forall s s', sem_eq s s' -> eg_inv s -> eg_inv s'.
Proof.
  intros s s' E [A B C]. constructor.
  - eapply uf_ok_sem; eauto.
  - eapply uf_slots_ok_sem; eauto.
  - intros i c' Hc'. destruct (get_class_sem_ok s' s i c' (sem_eq_sym _ _ E) Hc') as (c & Hc & Cs).
    eapply class_ok_csem; [exact Cs|]. eapply C; eauto.
Qed.

(* the step relation of the pass *)
Definition stepR (s s' : egraph) : Prop := eg_inv s -> eg_inv s' /\ ext s s'.

Lemma stepR_refl : forall s, stepR s s.
Proof. intros s H. split; [assumption|apply ext_refl]. Qed.
Lemma stepR_trans : forall a b c, stepR a b -> stepR b c -> stepR a c.
Proof.
  intros a b c H1 H2 Ha. destruct (H1 Ha) as [Hb E1]. destruct (H2 Hb) as [Hc E2].
  split; [assumption|eapply ext_trans; eauto].
Qed.
Lemma sem_step : forall s s', sem_eq s s' -> ectr s <= ectr s' -> stepR s s'.
Proof. intros s s' E L H. split; [eapply eg_inv_sem; eauto|apply sem_ext; assumption]. Qed.

(* steps that keep the semantic part and do not decrease the counter *)
Definition semR (s s' : egraph) : Prop := sem_eq s s' /\ ectr s <= ectr s'.
Lemma semR_refl : forall s, semR s s.
Proof. intros s. split; [apply sem_eq_refl|lia]. Qed.
Lemma semR_trans : forall a b c, semR a b -> semR b c -> semR a c.
Proof. intros a b c [A1 A2] [B1 B2]. split; [eapply sem_eq_trans; eauto|lia]. Qed.
Lemma semR_step : forall s s', semR s s' -> stepR s s'.
Proof. intros s s' [A B]. apply sem_step; assumption. Qed.

Local Notation spres := (pres semR).

Lemma s_bind : forall A C (m : M A) (k : A -> M C), spres m -> (forall a, spres (k a)) -> spres (mbind m k).
Proof. apply (pres_bind semR semR_trans). Qed.
Lemma s_ret : forall A (a : A), spres (ret a).
Proof. apply (pres_ret semR semR_refl). Qed.
Lemma s_reads : forall A (f : egraph -> res A), spres (reads f).
Proof. apply (pres_reads semR semR_refl). Qed.
Lemma s_lift : forall A (r : res A), spres (Model.lift r).
Proof. apply (pres_lift semR semR_refl). Qed.
Lemma s_iterM : forall A (f : A -> M unit) l, (forall x, spres (f x)) -> spres (iterM f l).
Proof. apply (pres_iterM semR semR_refl semR_trans). Qed.
Lemma s_upd_class : forall i f, (forall c, csem (f c) = csem c) -> spres (upd_class i f).
Proof. intros i f Hf s x s' H. split; [eapply sem_upd_class; eauto|]. apply upd_class_inv in H. destruct H as (c & _ & ->). cbn. lia. Qed.
Lemma s_pending_insert : forall sh ty, spres (pending_insert sh ty).
Proof. intros sh ty s x s' H. inversion H. split; [apply sem_set_pending|cbn; lia]. Qed.
Lemma s_pending_touch : forall sh ty, spres (pending_touch sh ty).
Proof. intros sh ty s x s' H. inversion H. split; [apply sem_set_pending|cbn; lia]. Qed.
Lemma s_modify_pend : forall f, spres (modify (fun s => set_pending s (f s))).
Proof. intros f s x s' H. inversion H. split; [apply sem_set_pending|cbn; lia]. Qed.
Lemma s_modify_hc : forall f, spres (modify (fun s => set_hashcons s (f s))).
Proof. intros f s x s' H. inversion H. split; [apply sem_set_hashcons|cbn; lia]. Qed.
Lemma s_fresh : spres fresh.
Proof. intros s x s' H. inversion H. split; [apply sem_set_ctr|cbn; lia]. Qed.
Lemma s_with_ctr : forall A (f : N -> A * N), (forall c, c <= snd (f c)) -> spres (with_ctr f).
Proof. intros A f Hf s x s' H. apply with_ctr_spec in H. subst s'. split; [apply sem_set_ctr|cbn; apply Hf]. Qed.
Lemma s_compose_fresh : forall a b, spres (with_ctr (compose_fresh a b)).
Proof. intros a b. apply s_with_ctr. intros c. apply ctr_step_le, compose_fresh_step. Qed.
Lemma s_asf : forall lg m n, spres (with_ctr (apply_slotmap_fresh lg m n)).
Proof. intros lg m n. apply s_with_ctr. intros c. apply ctr_step_le, apply_slotmap_fresh_step. Qed.
Lemma s_touched_class : forall i ty, spres (touched_class i ty).
Proof.
  intros i ty. unfold touched_class. apply s_bind; [apply s_reads|]. intros c.
  apply s_iterM. intros sh. apply s_pending_touch.
Qed.
Lemma s_raw_add : forall id t src, spres (raw_add_to_class id t src).
Proof.
  intros id [sh bij] src. unfold raw_add_to_class.
  apply s_bind; [apply s_upd_class; reflexivity|]. intros _.
  apply s_bind; [apply s_modify_hc|]. intros _. apply s_iterM. intros r. apply s_upd_class. reflexivity.
Qed.
Lemma s_raw_remove : forall id sh, spres (raw_remove_from_class id sh).
Proof.
  intros id sh. unfold raw_remove_from_class. apply s_bind; [apply s_reads|]. intros c.
  apply s_bind; [apply s_upd_class; reflexivity|]. intros _.
  apply s_bind; [apply s_modify_hc|]. intros _.
  apply s_bind; [apply s_iterM; intros r; apply s_upd_class; reflexivity|]. intros _.
  destruct (na_get (c_nodes c) sh); [apply s_ret|]. intros s x s' H. discriminate.
Qed.
Lemma s_pc_congruence : forall a b, spres (pc_congruence a b).
Proof.
  intros a b. unfold pc_congruence. apply s_bind; [apply s_lift|]. intros sa.
  apply s_bind; [apply s_lift|]. intros sb. cbv zeta.
  apply s_bind; [apply s_compose_fresh|]. intros m.
  apply s_bind; [apply s_asf|]. intros _.
  apply s_bind; [apply s_compose_fresh|]. intros bm. apply s_ret.
Qed.

(* ------------------------------------------------------------------ *)
(* 2. groups: the identity of a chain, its generators, gadd_set *)

Lemma gnew_identity : forall fuel idp gens g, gnew false fuel idp gens = Ok g -> gidentity g = idp.
Proof.
  intros [|f] idp gens g H; [discriminate|]. cbn [gnew] in H.
  destruct (find_lowest_nonstab gens) as [st|]; [|inversion H; reflexivity].
  destruct (build_ot false st idp gens) as [o|]; cbn [bind] in H; [|discriminate].
  destruct (schreier false st o gens) as [sg|]; cbn [bind] in H; [|discriminate].
  destruct (gnew false f idp sg); cbn [bind] in H; [|discriminate]. inversion H. reflexivity.
Qed.

Lemma grp_ok_identity : forall c, grp_ok c -> gidentity (c_group c) = identity (c_slots c).
Proof. intros c (gens & _ & H). unfold group_new in H. eapply gnew_identity; eauto. Qed.

Lemma chain_ok_gens : forall om g, chain_ok om g -> Forall (perm_on om) (ggens_impl g).
Proof.
  intros om g H. induction H as [i|i s o g Hs Ho Hc IH]; cbn [ggens_impl]; [constructor|].
  apply Forall_forall. intros x Hx. apply (proj1 (punion_in _ _ _)) in Hx. destruct Hx as [Hx|Hx].
  - apply (proj1 (pdedup_in _ _)) in Hx. apply in_map_iff in Hx. destruct Hx as ([k r] & <- & Hin). eapply Ho; eauto.
  - exact (proj1 (Forall_forall _ _) IH x Hx).
Qed.

Lemma grp_ok_generators : forall c, grp_ok c -> Forall (perm_on (c_slots c)) (ggenerators (c_group c)).
Proof.
  intros c (gens & HG & H).
  pose proof (gnew_chain_ok (c_slots c) (identity (c_slots c)) (identity_is_id _) _ _ _
                (pdedup_po _ _ HG) H) as CK.
  pose proof (chain_ok_gens _ _ CK) as F. unfold ggenerators, premove.
  apply Forall_forall. intros x Hx. apply filter_In in Hx. exact (proj1 (Forall_forall _ _) F x (proj1 Hx)).
Qed.

Lemma gadd_keep : forall (P : perm -> Prop) g ps acc keep, Forall P ps -> Forall P acc ->
  fold_left (fun (acc : res (list perm)) p =>
               do acc <- acc; do c <- gcontains false g p; Ok (if c then acc else padd p acc)) ps (Ok acc) = Ok keep ->
  Forall P keep.
Proof.
  intros P g ps. induction ps as [|p t IH]; intros acc keep Hps Hacc H; cbn [fold_left] in H.
  - inversion H; subst. assumption.
  - inversion Hps as [|? ? Hp Ht]; subst. cbn [bind] in H.
    destruct (gcontains false g p) as [b|e]; cbn [bind] in H.
    + eapply IH; [exact Ht| |exact H]. destruct b; [assumption|].
      apply Forall_forall. intros x Hx. apply (proj1 (padd_in _ _ _)) in Hx. destruct Hx as [->|Hx]; [assumption|].
      exact (proj1 (Forall_forall _ _) Hacc x Hx).
    + exfalso. clear -H. induction t as [|q t IH]; cbn [fold_left] in H; [discriminate|]. apply IH. exact H.
Qed.

Theorem gadd_set_grp_ok : forall c ps g' b, grp_ok c -> Forall (perm_on (c_slots c)) ps ->
  gadd_set false (c_group c) ps = Ok (g', b) -> grp_ok (with_group c g').
Proof.
  intros c ps g' b G Hps H. unfold gadd_set in H.
  match type of H with bind ?f _ = _ => destruct f as [keep|] eqn:K end; cbn [bind] in H; [|discriminate].
  apply (gadd_keep (perm_on (c_slots c))) in K; [|assumption|constructor].
  destruct keep as [|k0 kt].
  - inversion H; subst. destruct G as (gens & A & B). exists gens. cbn [c_slots c_group with_group]. auto.
  - match type of H with bind ?f _ = _ => destruct f as [g2|] eqn:E end; cbn [bind] in H; [|discriminate].
    inversion H; subst g2 b; clear H. rewrite (grp_ok_identity c G) in E.
    exists (punion (ggenerators (c_group c)) (k0 :: kt)). cbn [c_slots c_group with_group]. split; [|exact E].
    apply Forall_forall. intros x Hx. apply (proj1 (punion_in _ _ _)) in Hx. destruct Hx as [Hx|Hx].
    + exact (proj1 (Forall_forall _ _) (grp_ok_generators c G) x Hx).
    + exact (proj1 (Forall_forall _ _) K x Hx).
Qed.

(* ------------------------------------------------------------------ *)
(* 3. slot-map facts used by shrink_slots and move_to *)

Lemma mem_in : forall x s, sset_mem x s = true <-> In x s.
Proof. intros; apply sset_mem_in. Qed.

(* a permutation that maps a subset into itself, restricted to the subset *)
Lemma restrict_perm_on : forall sl cap pp, perm_on sl pp -> NoDup cap ->
  (forall x, In x cap -> exists y, get pp x = Some y /\ In y cap) ->
  perm_on cap (filter (fun kv => sset_mem (fst kv) cap) pp).
Proof.
  intros sl cap pp Hpp Nd Hcl.
  pose proof (get_filter_key (fun k => sset_mem k cap) pp) as G.
  pose proof Hpp as (W & K & V & I & S).
  split; [apply (filter_key_wf (fun k => sset_mem k cap)); assumption|]. split; [|split; [|split]].
  - intros k. rewrite G. destruct (sset_mem k cap) eqn:E.
    + apply mem_in in E. split; [auto|]. intros _. destruct (Hcl k E) as (y & -> & _). discriminate.
    + split; [congruence|]. intros H. apply mem_in in H. congruence.
  - intros k v. rewrite G. destruct (sset_mem k cap) eqn:E; [|discriminate]. apply mem_in in E.
    intros H. destruct (Hcl k E) as (y & Hy & Hin). congruence.
  - intros k1 k2 v. rewrite !G. destruct (sset_mem k1 cap); [|discriminate]. destruct (sset_mem k2 cap); [|discriminate].
    apply I.
  - intros v Hv. destruct (inj_surj_on sl pp cap Hpp Nd Hcl v Hv) as (y & Hy & Gy).
    exists y. rewrite G. apply mem_in in Hy. rewrite Hy. assumption.
Qed.

Lemma mapr_in : forall {A B} (f : A -> res B) l r, mapr f l = Ok r ->
  forall y, In y r -> exists x, In x l /\ f x = Ok y.
Proof.
  intros A B f l r H. apply mapr_ok in H. induction H as [|x y l r Hxy _ IH]; intros z Hz; [contradiction|].
  destruct Hz as [<-|Hz]; [exists x; split; [left; reflexivity|assumption]|].
  destruct (IH z Hz) as (x' & Hx' & E). exists x'. split; [right; assumption|assumption].
Qed.

Lemma mapr_combine : forall {A B} (f : A -> res B) l r, mapr f l = Ok r ->
  forall x b, In (x, b) (combine l r) -> In x l /\ f x = Ok b.
Proof.
  intros A B f l r H. apply mapr_ok in H. induction H as [|x y l r Hxy _ IH]; intros z b Hz; [contradiction|].
  cbn [combine] in Hz. destruct Hz as [Hz|Hz].
  - inversion Hz; subst. split; [left; reflexivity|assumption].
  - destruct (IH z b Hz) as [A1 A2]. split; [right; assumption|assumption].
Qed.

Lemma allr_true : forall {A} (f : A -> res bool) l, allr f l = Ok true -> forall x, In x l -> f x = Ok true.
Proof.
  intros A f. induction l as [|y t IH]; intros H x Hx; [contradiction|]. cbn [allr] in H.
  destruct (f y) as [b|] eqn:E; cbn [bind] in H; [|discriminate]. destruct b; [|discriminate].
  destruct Hx as [<-|Hx]; [assumption|apply IH; assumption].
Qed.

Lemma mapr_pairs : forall (pp : slotmap) cap ps,
  mapr (fun x => do y <- index pp x; Ok (x, y)) cap = Ok ps ->
  map fst ps = cap /\ forall k v, In (k, v) ps <-> (In k cap /\ get pp k = Some v).
Proof.
  intros pp. induction cap as [|x t IH]; intros ps H; cbn [mapr] in H.
  - inversion H; subst. split; [reflexivity|]. intros k v. split; [contradiction|intros [[] _]].
  - unfold index in H at 1. destruct (get pp x) as [y|] eqn:E; cbn [bind] in H; [|discriminate].
    destruct (mapr _ t) as [r|] eqn:Er; cbn [bind] in H; [|discriminate]. inversion H; subst ps; clear H.
    destruct (IH r eq_refl) as [A B]. split; [cbn [map fst]; rewrite A; reflexivity|].
    intros k v. split.
    + intros [Hk|Hk]; [inversion Hk; subst; split; [left; reflexivity|assumption]|].
      apply B in Hk. destruct Hk. split; [right; assumption|assumption].
    + intros [[<-|Hk] Hv]; [left; congruence|right; apply B; auto].
Qed.

Lemma get_from_pairs : forall (pp : slotmap) cap ps, NoDup cap ->
  mapr (fun x => do y <- index pp x; Ok (x, y)) cap = Ok ps ->
  forall k v, get (from_iter ps) k = Some v <-> (In k cap /\ get pp k = Some v).
Proof.
  intros pp cap ps Nd H k v. destruct (mapr_pairs pp cap ps H) as [A B]. rewrite get_from_iter. split.
  - intros G. apply assoc_last_in in G. apply B. assumption.
  - intros G. apply in_assoc_last; [rewrite A; assumption|]. apply B. assumption.
Qed.

(* the conjugation of move_to: x |-> f x f^-1 for a bijection f : A -> B *)
Definition conj_by (f : slotmap) (x : perm) : perm :=
  from_iter (flat_map (fun kv => match get f (fst kv), get f (snd kv) with
                                 | Some a, Some b => [(a, b)]
                                 | _, _ => []
                                 end) x).

Lemma conj_by_get : forall f x, wf x -> injective f -> forall a b,
  get (conj_by f x) a = Some b <-> exists k v, get x k = Some v /\ get f k = Some a /\ get f v = Some b.
Proof.
  intros f x W If a b. unfold conj_by. rewrite get_from_iter.
  set (F := fun kv : slot * slot => match get f (fst kv), get f (snd kv) with
                                     | Some a, Some b => [(a, b)] | _, _ => [] end).
  assert (IN : forall a b, In (a, b) (flat_map F x) <->
                 exists k v, get x k = Some v /\ get f k = Some a /\ get f v = Some b).
  { intros a0 b0. rewrite in_flat_map. split.
    - intros ([k v] & Hin & Hf). unfold F in Hf. cbn [fst snd] in Hf.
      destruct (get f k) as [a1|] eqn:E1; [|contradiction]. destruct (get f v) as [b1|] eqn:E2; [|contradiction].
      destruct Hf as [Hf|[]]. inversion Hf; subst. exists k, v. split; [apply in_get; assumption|auto].
    - intros (k & v & G & E1 & E2). exists (k, v). split; [apply get_in; assumption|].
      unfold F. cbn [fst snd]. rewrite E1, E2. left. reflexivity. }
  assert (ND : NoDup (map fst (flat_map F x))).
  { pose proof (wf_nodup_keys x W) as Nd. clear IN. induction x as [|[k v] t IH]; [constructor|].
    cbn [flat_map]. rewrite map_app. inversion Nd as [|? ? Hn Nt]; subst.
    assert (Wt : wf t) by (destruct t as [|[k' v'] t']; [exact I|apply W]).
    specialize (IH Wt Nt). unfold F at 1. cbn [fst snd].
    destruct (get f k) as [a1|] eqn:E1; [|exact IH]. destruct (get f v) as [b1|] eqn:E2; [|exact IH].
    cbn [map fst app]. constructor; [|exact IH]. intros Hin. apply in_map_iff in Hin.
    destruct Hin as ([a2 b2] & Ea & Hin). cbn [fst] in Ea. subst a2.
    apply in_flat_map in Hin. destruct Hin as ([k' v'] & Hk' & Hf). unfold F in Hf. cbn [fst snd] in Hf.
    destruct (get f k') as [a3|] eqn:E3; [|contradiction]. destruct (get f v') as [b3|]; [|contradiction].
    destruct Hf as [Hf|[]]. inversion Hf; subst a3 b3. pose proof (If _ _ _ E1 E3). subst k'.
    apply Hn. change k with (fst (k, v')). apply in_map. assumption. }
  split.
  - intros G. apply assoc_last_in in G. apply IN. assumption.
  - intros G. apply in_assoc_last; [assumption|]. apply IN. assumption.
Qed.

(* conjugating a permutation of A by a bijection f : A -> B gives a permutation of B *)
Lemma conj_by_perm_on : forall A B f x, perm_on A x -> wf f -> injective f ->
  (forall k, get f k <> None <-> In k A) -> (forall k v, get f k = Some v -> In v B) ->
  (forall v, In v B -> exists k, get f k = Some v) ->
  perm_on B (conj_by f x).
Proof.
  intros A B f x Hx Wf If Kf Vf Sf. pose proof Hx as (W & K & V & I & S).
  pose proof (conj_by_get f x W If) as G.
  assert (FA : forall k, In k A -> exists a, get f k = Some a).
  { intros k Hk. apply Kf in Hk. destruct (get f k); [eauto|congruence]. }
  split; [apply from_iter_wf|]. split; [|split; [|split]].
  - intros a. split.
    + intros H. destruct (get (conj_by f x) a) as [b|] eqn:E; [|congruence]. apply G in E.
      destruct E as (k & v & _ & E1 & _). eapply Vf; eauto.
    + intros Ha. destruct (Sf a Ha) as (k & Ek).
      assert (Hk : In k A) by (apply Kf; congruence). destruct (po_get A x k Hx Hk) as (v & Gv & Hv).
      destruct (FA v Hv) as (b & Eb).
      assert (E : get (conj_by f x) a = Some b) by (apply G; eauto). congruence.
  - intros a b H. apply G in H. destruct H as (k & v & _ & _ & E2). eapply Vf; eauto.
  - intros a1 a2 b H1 H2. apply G in H1, H2.
    destruct H1 as (k1 & v1 & G1 & E1 & F1), H2 as (k2 & v2 & G2 & E2 & F2).
    pose proof (If _ _ _ F1 F2). subst v2. pose proof (I _ _ _ G1 G2). subst k2. congruence.
  - intros b Hb. destruct (Sf b Hb) as (v & Ev).
    assert (Hv : In v A) by (apply Kf; congruence). destruct (S v Hv) as (k & Gk).
    assert (Hk : In k A) by (apply K; congruence). destruct (FA k Hk) as (a & Ea).
    exists a. apply G. eauto.
Qed.

(* ------------------------------------------------------------------ *)
(* 4. shrink_slots *)

Definition lcanon (s : egraph) (a : appid) : Prop := leader s (aid a) /\ canon_ok s a.

(* what the recursive calls of union_internal must satisfy *)
Definition ui_spec (ui : appid -> appid -> M bool) : Prop :=
  forall l r s b s', eg_inv s -> covers s l -> covers s r -> ui l r s = Ok (b, s') -> eg_inv s' /\ ext s s'.

Lemma covers_lcanon : forall s a a', eg_inv s -> covers s a -> find_applied_id s a = Ok a' -> lcanon s a'.
Proof.
  intros s a a' [U S _] C H. split; [eapply find_is_leader; eauto|eapply find_canon; eauto].
Qed.

Lemma canon_covers : forall s a, canon_ok s a -> covers s a.
Proof.
  intros s a (c & Hc & _ & W & B & K). exists c. split; [assumption|].
  split; [apply is_bijection_injective; assumption|]. intros k Hk. rewrite <- K in Hk. apply keys_spec. assumption.
Qed.

Lemma get_class_set_nth : forall s cl i cn j, classes cl = set_nth (classes s) (N.to_nat i) cn ->
  (N.to_nat i < lc s)%nat ->
  get_class cl j = if j =? i then Ok cn else get_class s j.
Proof.
  intros s cl i cn j H L. unfold get_class. rewrite H. destruct (j =? i) eqn:E; neq.
  - subst. rewrite nth_opt_set_same by assumption. reflexivity.
  - rewrite nth_opt_set_other by lia. reflexivity.
Qed.

(* the combined effect of record_redundancy_witness and the class update of shrink_slots *)
Lemma shrink_state : forall s s' id c e' cap g,
  eg_inv s -> leader s id -> get_class s id = Ok c ->
  swf cap -> incl cap (c_slots c) -> grp_ok (with_group (with_slots c cap) g) ->
  wf (am e') -> pid (am e') -> aid e' = id -> keys (am e') = cap ->
  unionfind s' = set_nth (unionfind s) (N.to_nat id) e' ->
  classes s' = set_nth (classes s) (N.to_nat id) (with_group (with_slots c cap) g) ->
  ectr s <= ectr s' ->
  eg_inv s' /\ ext s s'.
Proof.
  intros s s' id c e' cap g [Hok [W HG HL HE] HC] Ld Hc Wc Ic Gn We Pe Ae Ke U Cl Lc.
  pose proof (get_class_lt _ _ _ Hc) as Lid.
  pose proof (fun j => get_class_set_nth s s' id _ j Cl Lid) as GC.
  destruct e' as [ei em]. cbn [aid am] in *. subst ei.
  assert (CO : class_ok (with_group (with_slots c cap) g)).
  { destruct (HC _ _ Hc) as (_ & _ & I). split; [assumption|]. split; [assumption|].
    cbn [c_slots c_syn with_group with_slots]. eapply incl_tran; eauto. }
  split.
  - constructor.
    + unfold uf_ok. rewrite U. apply ufl_ok_set_self; assumption.
    + constructor.
      * unfold eg_wf in *. rewrite U, Cl, !set_nth_length. assumption.
      * intros j cj _ Hj. rewrite GC in Hj. destruct (j =? id) eqn:E; neq.
        -- inversion Hj; subst cj. apply CO.
        -- destruct (HC _ _ Hj) as (_ & G & _). assumption.
      * intros j e cj He Hi Hj. rewrite U in He. apply uentry_set_inv in He. rewrite GC in Hj.
        destruct He as [[-> ->]|[Hn He]].
        -- rewrite N.eqb_refl in Hj. inversion Hj; subst cj. cbn [am c_slots with_group with_slots]. assumption.
        -- rewrite (proj2 (N.eqb_neq _ _) Hn) in Hj. eapply HL; eauto.
      * intros j e ci cp He Hi Hci Hcp. rewrite U in He. apply uentry_set_inv in He. rewrite GC in Hci, Hcp.
        destruct He as [[-> ->]|[Hn He]]; [cbn [aid] in Hi; congruence|].
        rewrite (proj2 (N.eqb_neq _ _) Hn) in Hci.
        destruct (aid e =? id) eqn:E; neq.
        -- inversion Hcp; subst cp. rewrite <- E in Hc. destruct (HE _ _ _ _ He Hi Hci Hc) as (I1 & S1 & V1).
           split; [assumption|]. split; [|assumption]. intros k Hk. apply S1. apply Ic. exact Hk.
        -- eapply HE; eauto.
    + intros j cj Hj. rewrite GC in Hj. destruct (j =? id) eqn:E; neq.
      * inversion Hj; subst cj. assumption.
      * eapply HC; eauto.
  - split; [assumption|]. split; [rewrite Cl; apply set_nth_length|].
    intros j cj Hj. rewrite GC. destruct (j =? id) eqn:E; neq.
    + subst j. rewrite Hc in Hj. inversion Hj; subst cj. eexists. split; [reflexivity|].
      cbn [c_slots c_syn with_group with_slots]. auto.
    + exists cj. split; [assumption|]. split; [apply incl_refl|reflexivity].
Qed.

Lemma covers_identity : forall s id c, get_class s id = Ok c ->
  covers s {| aid := id; am := identity (c_slots c) |}.
Proof.
  intros s id c Hc. exists c. cbn [aid am]. split; [assumption|]. split; [apply pid_injective, pid_identity|].
  intros k Hk. rewrite get_identity. apply mem_in in Hk. rewrite Hk. discriminate.
Qed.

Section Shrink.
  Variable ui : appid -> appid -> M bool.
  Hypothesis H_ui : ui_spec ui.

  Lemma shrink_moved : forall id cap moved, NoDup cap -> (forall pp, In pp moved -> injective pp) ->
    forall s x s', eg_inv s -> (exists c, get_class s id = Ok c /\ incl (c_slots c) cap) ->
    iterM (fun pp =>
             dom sl <- reads (fun s => class_slots s id);
             let l := {| aid := id; am := identity sl |} in
             dom ps <- Model.lift (mapr (fun x => do y <- index pp x; Ok (x, y)) cap);
             let r := {| aid := id; am := from_iter ps |} in
             dom _ <- ui l r;
             ret tt) moved s = Ok (x, s') ->
    eg_inv s' /\ ext s s'.
  Proof.
    intros id cap moved Nd. induction moved as [|pp t IH]; intros Hinj s x s' Hs Hcl H; cbn [iterM] in H.
    - inversion H; subst. split; [assumption|apply ext_refl].
    - apply mbind_inv in H. destruct H as (u & s1 & H1 & H).
      apply bind_reads_inv in H1. destruct H1 as (sl & Hsl & H1). cbv zeta in H1.
      apply mbind_inv in H1. destruct H1 as (ps & s0 & Hps & H1). apply lift_inv in Hps. destruct Hps as [Hps ->].
      apply mbind_inv in H1. destruct H1 as (b & s2 & H1 & H2). inversion H2; subst u s2; clear H2.
      destruct Hcl as (c & Hc & Ic). unfold class_slots in Hsl. rewrite Hc in Hsl. cbn [bind] in Hsl.
      inversion Hsl; subst sl; clear Hsl.
      pose proof (get_from_pairs pp cap ps Nd Hps) as G.
      assert (C2 : covers s {| aid := id; am := from_iter ps |}).
      { exists c. cbn [aid am]. split; [assumption|]. split.
        - intros k1 k2 v A1 A2. apply G in A1, A2. destruct A1 as [_ A1], A2 as [_ A2].
          eapply (Hinj pp); [left; reflexivity| |]; eassumption.
        - intros k Hk. apply Ic in Hk. destruct (mapr_pairs pp cap ps Hps) as [A B].
          rewrite <- A in Hk. apply in_map_iff in Hk. destruct Hk as ([k' v] & Ek & Hin). cbn [fst] in Ek. subst k'.
          assert (E : get (from_iter ps) k = Some v) by (apply G; apply B; assumption). congruence. }
      destruct (H_ui _ _ _ _ _ Hs (covers_identity s id c Hc) C2 H1) as [Hs1 E1].
      destruct (proj2 (proj2 E1) _ _ Hc) as (c1 & Hc1 & I1 & _).
      destruct (IH (fun q Hq => Hinj q (or_intror Hq)) s1 x s' Hs1) as [Hs' E2]; [|exact H|].
      + exists c1. split; [assumption|]. eapply incl_tran; eauto.
      + split; [assumption|eapply ext_trans; eauto].
  Qed.

  Theorem inv_shrink_slots : forall from cap s x s', eg_inv s -> lcanon s from ->
    shrink_slots ui from cap s = Ok (x, s') -> eg_inv s' /\ ext s s'.
  Proof.
    intros from cap s x s' Hs [Ld (c & Hc & Gc & Wf & Bf & Kf)] H. unfold shrink_slots in H.
    apply mbind_inv in H. destruct H as (ocl & s0 & Hoc & H). apply lift_inv in Hoc. destruct Hoc as [Hoc ->].
    set (oc := sset_of_list ocl) in *.
    destruct (sset_of_list_spec ocl) as [Woc Ioc]. fold oc in Woc, Ioc.
    assert (Ic : incl oc (c_slots c)).
    { intros y Hy. apply Ioc in Hy. destruct (mapr_in _ _ _ Hoc y Hy) as (x0 & _ & E). unfold index in E.
      destruct (get (inv (am from)) x0) as [y'|] eqn:G; [|discriminate]. inversion E; subst y'.
      apply (get_inverse _ _ _ Wf Bf) in G. rewrite <- Kf. apply keys_spec. congruence. }
    apply mbind_inv in H. destruct H as (u1 & s1 & H1 & H).
    unfold record_redundancy_witness in H1. apply bind_reads_inv in H1. destruct H1 as (ss & Hss & H1).
    unfold syn_slots in Hss. rewrite Hc in Hss. cbn [bind] in Hss. inversion Hss; subst ss; clear Hss.
    pose proof (unionfind_set_classes _ _ _ _ _ H1) as Cl1.
    pose proof (unionfind_set_spec _ _ _ _ _ H1) as (_ & Ct1 & _).
    apply unionfind_set_uf in H1. destruct Ld as (el & Hel & Hal). pose proof (uentry_lt _ _ _ Hel) as Lid.
    destruct H1 as [[Ei _]|[_ U1]]; [lia|].
    cbv zeta in H. apply bind_reads_inv in H. destruct H as (c1 & Hc1 & H).
    assert (c1 = c). { unfold get_class in Hc1, Hc. rewrite Cl1 in Hc1. congruence. } subst c1.
    apply mbind_inv in H. destruct H as (flags & s0 & Hfl & H). apply lift_inv in Hfl. destruct Hfl as [Hfl ->].
    apply mbind_inv in H. destruct H as (g & s0 & Hg & H). apply lift_inv in Hg. destruct Hg as [Hg ->].
    apply mbind_inv in H. destruct H as (u2 & s2 & H2 & H). apply upd_class_inv in H2. destruct H2 as (c2 & Hc2 & ->).
    assert (c2 = c). { unfold get_class in Hc2, Hc. rewrite Cl1 in Hc2. congruence. } subst c2.
    apply mbind_inv in H. destruct H as (u3 & s3 & H3 & H). apply s_touched_class in H3.
    pose proof (ei_cls s Hs _ _ Hc) as (Wc & _ & Isyn).
    pose proof (grp_ok_generators c Gc) as Gens.
    set (gsel := fun pp : perm => allr (fun x => do y <- index pp x; Ok (sset_mem y oc)) oc) in *.
    (* the state after the class update *)
    match type of H3 with semR ?st _ => set (s2 := st) in * end.
    assert (S2 : eg_inv s2 /\ ext s s2).
    { apply (shrink_state s s2 (aid from) c {| aid := aid from; am := identity (slots (c_syn c)) ** identity oc |} oc g);
        try assumption.
      - exists el. auto.
      - (* the restricted generators are permutations of the new slot set *)
        match type of Hg with group_new _ _ ?r = _ => exists r end.
        cbn [c_slots c_group with_group with_slots]. split; [|exact Hg].
        apply Forall_forall. intros q Hq. apply in_map_iff in Hq. destruct Hq as (pp & <- & Hpp).
        apply in_map_iff in Hpp. destruct Hpp as ([pp' b] & Epp & Hin). cbn [fst] in Epp. subst pp'.
        apply filter_In in Hin. destruct Hin as [Hin Hb]. cbn [snd] in Hb. subst b.
        destruct (mapr_combine _ _ _ Hfl _ _ Hin) as [Hall Hflag].
        apply (restrict_perm_on (c_slots c)).
        + exact (proj1 (Forall_forall _ _) Gens pp Hall).
        + apply swf_NoDup. assumption.
        + intros x0 Hx0. pose proof (allr_true _ _ Hflag x0 Hx0) as T. cbv beta in T. unfold index in T.
          destruct (get pp x0) as [y|]; cbn [bind] in T; [|discriminate]. exists y. split; [reflexivity|].
          apply mem_in. inversion T. reflexivity.
      - apply compose_partial_wf.
      - apply pid_compose; [apply identity_wf|apply pid_identity|apply pid_identity].
      - reflexivity.
      - cbn [am]. apply sset_ext; [apply sset_of_list_spec|assumption|]. intros k. rewrite keys_spec.
        rewrite get_compose_partial by apply identity_wf. rewrite get_identity.
        destruct (sset_mem k (slots (c_syn c))) eqn:E.
        + rewrite get_identity. destruct (sset_mem k oc) eqn:E2.
          * apply mem_in in E2. split; [auto|discriminate].
          * split; [congruence|]. intros Hk. apply mem_in in Hk. congruence.
        + split; [congruence|]. intros Hk. apply Ic, Isyn, mem_in in Hk. congruence.
      - unfold s2. cbn [classes set_classes]. rewrite Cl1. reflexivity.
      - unfold s2. cbn [Model.ctr set_classes]. rewrite Ct1. lia. }
    destruct S2 as [Hs2 E2]. destruct (semR_step _ _ H3 Hs2) as [Hs3 E3].
    destruct (proj2 (proj2 (ext_trans _ _ _ E2 E3)) _ _ Hc) as (c3 & Hc3 & I3 & _).
    assert (Hc3' : exists c3, get_class s3 (aid from) = Ok c3 /\ incl (c_slots c3) oc).
    { destruct (proj2 (proj2 E3) (aid from) (with_group (with_slots c oc) g)) as (c4 & Hc4 & I4 & _).
      - unfold s2, get_class. cbn [classes set_classes]. rewrite nth_opt_set_same; [reflexivity|].
        rewrite Cl1. eapply get_class_lt; eauto.
      - exists c4. split; [assumption|]. exact I4. }
    match type of H with iterM _ ?mv _ = _ => set (moved := mv) in * end.
    assert (MI : forall pp, In pp moved -> injective pp).
    { intros pp Hpp. unfold moved in Hpp.
      apply in_map_iff in Hpp. destruct Hpp as ([pp' b] & Epp & Hin). cbn [fst] in Epp. subst pp'.
      apply filter_In in Hin. destruct Hin as [Hin _].
      destruct (mapr_combine _ _ _ Hfl _ _ Hin) as [Hall _].
      exact (proj1 (proj2 (proj2 (proj2 (proj1 (Forall_forall _ _) Gens pp Hall))))). }
    destruct (shrink_moved (aid from) oc moved (swf_NoDup _ Woc) MI s3 x s' Hs3 Hc3' H) as [Hs' E'].
    split; [assumption|]. eapply ext_trans; [exact E2|]. eapply ext_trans; eauto.
  Qed.
End Shrink.

(* ------------------------------------------------------------------ *)
(* 5. replacing a group; move_to *)

Lemma inv_set_group : forall s i c g x s', eg_inv s -> get_class s i = Ok c -> grp_ok (with_group c g) ->
  upd_class i (fun c => with_group c g) s = Ok (x, s') -> eg_inv s' /\ ext s s'.
Proof.
  intros s i c g x s' [Hok Hsl HC] Hc Gn H.
  pose proof (uf_slots_ok_set_group s i c g x s' Hsl Hc Gn H) as Hsl'.
  apply upd_class_inv in H. destruct H as (c0 & Hc0 & ->). rewrite Hc in Hc0. inversion Hc0; subst c0; clear Hc0.
  pose proof (get_class_lt _ _ _ Hc) as Lid.
  set (s' := set_classes s _) in *.
  pose proof (fun j => get_class_set_nth s s' i _ j eq_refl Lid) as GC.
  split.
  - constructor; [exact Hok|exact Hsl'|].
    intros j cj Hj. rewrite GC in Hj. destruct (j =? i) eqn:E; neq; [|eapply HC; eauto].
    inversion Hj; subst cj. destruct (HC _ _ Hc) as (W & _ & I). split; [exact W|]. split; [exact Gn|exact I].
  - split; [cbn; lia|]. split; [unfold s'; cbn [classes set_classes]; apply set_nth_length|].
    intros j cj Hj. rewrite GC. destruct (j =? i) eqn:E; neq.
    + subst j. rewrite Hc in Hj. inversion Hj; subst cj. eexists. split; [reflexivity|].
      cbn [c_slots c_syn with_group]. split; [apply incl_refl|reflexivity].
    + exists cj. split; [assumption|]. split; [apply incl_refl|reflexivity].
Qed.

(* a ** b^-1 for two bijections with the same value set: a bijection keys a -> keys b *)
Lemma quot_bij : forall a b A B, wf a -> wf b -> is_bijection a = true -> is_bijection b = true ->
  keys a = A -> keys b = B -> values a = values b ->
  let f := a ** inv b in
  wf f /\ injective f /\ (forall k, get f k <> None <-> In k A) /\
  (forall k v, get f k = Some v -> In v B) /\ (forall v, In v B -> exists k, get f k = Some v).
Proof.
  intros a b A B Wa Wb Ba Bb Ka Kb V f.
  pose proof (proj1 (is_bijection_injective a Wa) Ba) as Ia.
  pose proof (quot_get a b Wa Wb Bb) as Q.
  split; [apply compose_partial_wf|]. split; [|split; [|split]].
  - intros k1 k2 v H1 H2. apply Q in H1, H2. destruct H1 as (y1 & E1 & F1), H2 as (y2 & E2 & F2).
    assert (y1 = y2) by congruence. subst. eapply Ia; eauto.
  - intros k. split.
    + intros H. destruct (get f k) as [v|] eqn:E; [|congruence]. apply Q in E. destruct E as (y & Ey & _).
      rewrite <- Ka. apply keys_spec. congruence.
    + intros H. rewrite <- Ka in H. apply keys_spec in H. destruct (get a k) as [y|] eqn:Ey; [|congruence].
      assert (Hy : In y (values b)) by (rewrite <- V; apply values_spec; eauto).
      apply values_spec in Hy; [|assumption]. destruct Hy as (x & Ex).
      assert (E : get f k = Some x) by (apply Q; eauto). congruence.
  - intros k v H. apply Q in H. destruct H as (y & _ & Ey). rewrite <- Kb. apply keys_spec. congruence.
  - intros v Hv. rewrite <- Kb in Hv. apply keys_spec in Hv. destruct (get b v) as [y|] eqn:Ey; [|congruence].
    assert (Hy : In y (values a)) by (rewrite V; apply values_spec; eauto).
    apply values_spec in Hy; [|assumption]. destruct Hy as (k & Ek). exists k. apply Q. eauto.
Qed.

Theorem inv_move_to : forall from to s x s', eg_inv s -> lcanon s from -> lcanon s to ->
  aid to <> aid from -> values (am from) = values (am to) ->
  move_to from to s = Ok (x, s') -> eg_inv s' /\ ext s s'.
Proof.
  intros from to s x s' Hs [Lf Cf] [Lt Ct] Hn V H. unfold move_to in H. cbv zeta in H.
  pose proof Cf as (cf & Hcf & Gf & Wf & Bf & Kf). pose proof Ct as (ct & Hct & Gt & Wt & Bt & Kt).
  destruct (move_map_ok s from to cf ct Hcf Hct Cf Ct V) as (Wm & Im & Sm & Vm).
  apply mbind_inv in H. destruct H as (u1 & s1 & H1 & H).
  assert (S1 : eg_inv s1 /\ ext s s1).
  { destruct Hs as [Hok Hsl HC].
    pose proof (unionfind_set_classes _ _ _ _ _ H1) as Cl1.
    pose proof (unionfind_set_spec _ _ _ _ _ H1) as (_ & Ct1 & _).
    assert (GC : forall j, get_class s1 j = get_class s j) by (intros j; unfold get_class; rewrite Cl1; reflexivity).
    split.
    - constructor.
      + eapply uf_ok_ufset_leader; [exact Hok|exact Lt|exact Hn|exact Wm| |exact H1].
        destruct Lf as (e & He & _). eapply uentry_lt; eauto.
      + eapply uf_slots_ok_redirect; [exact Hsl|exact Lf|exact Lt|exact Hn|exact Hcf|exact Hct| | | |exact H1]; assumption.
      + intros j cj Hj. rewrite GC in Hj. eapply HC; eauto.
    - split; [lia|]. split; [rewrite Cl1; reflexivity|].
      intros j cj Hj. exists cj. rewrite GC. split; [assumption|]. split; [apply incl_refl|reflexivity]. }
  destruct S1 as [Hs1 E1].
  apply bind_reads_inv in H. destruct H as (cf1 & Hcf1 & H).
  apply mbind_inv in H. destruct H as (u2 & s2 & H2 & H).
  assert (S2 : semR s1 s2).
  { revert H2. apply s_iterM. intros [sh [bij src]].
    apply s_bind; [apply s_raw_remove|]. intros _. apply s_bind; [apply s_compose_fresh|]. intros nb.
    apply s_bind; [apply s_raw_add|]. intros _. apply s_pending_insert. }
  destruct (semR_step _ _ S2 Hs1) as [Hs2 E2]. pose proof (ext_trans _ _ _ E1 E2) as E02.
  apply bind_reads_inv in H. destruct H as (cf2 & Hcf2 & H).
  apply bind_reads_inv in H. destruct H as (ct2 & Hct2 & H).
  apply mbind_inv in H. destruct H as (r & s0 & Hr & H). apply lift_inv in Hr. destruct Hr as [Hr ->].
  apply mbind_inv in H. destruct H as (u3 & s3 & H3 & H).
  (* the slots of both classes are unchanged *)
  assert (SL : c_slots cf2 = c_slots cf /\ c_slots ct2 = c_slots ct).
  { assert (T : forall j c, get_class s j = Ok c -> forall c2, get_class s2 j = Ok c2 -> c_slots c2 = c_slots c).
    { intros j c Hc c2 Hc2. assert (Hc1 : get_class s1 j = Ok c).
      { unfold get_class in *. rewrite (unionfind_set_classes _ _ _ _ _ H1). assumption. }
      destruct (get_class_sem_ok s1 s2 j c (proj1 S2) Hc1) as (c' & Hc' & Cs). rewrite Hc2 in Hc'. inversion Hc'; subst c'.
      apply csem_inv in Cs. tauto. }
    split; eapply T; eauto. }
  destruct SL as [SLf SLt].
  pose proof (ei_cls s2 Hs2 _ _ Hcf2) as (_ & Gf2 & _). pose proof (ei_cls s2 Hs2 _ _ Hct2) as (_ & Gt2 & _).
  destruct r as [g' bg]. cbn [fst snd] in *.
  assert (Gn : grp_ok (with_group ct2 g')).
  { eapply gadd_set_grp_ok; [exact Gt2| |exact Hr].
    apply Forall_forall. intros q Hq. apply in_map_iff in Hq. destruct Hq as (pp & <- & Hpp).
    destruct (quot_bij (am from) (am to) (c_slots cf) (c_slots ct) Wf Wt Bf Bt Kf Kt V) as (F1 & F2 & F3 & F4 & F5).
    rewrite SLt. apply (conj_by_perm_on (c_slots cf) (c_slots ct)); try assumption.
    rewrite <- SLf. exact (proj1 (Forall_forall _ _) (grp_ok_generators cf2 Gf2) pp Hpp). }
  destruct (inv_set_group s2 (aid to) ct2 g' u3 s3 Hs2 Hct2 Gn H3) as [Hs3 E3].
  assert (S4 : semR s3 s').
  { revert H. apply s_bind; [destruct bg; [apply s_touched_class|apply s_ret]|]. intros _. apply s_touched_class. }
  destruct (semR_step _ _ S4 Hs3) as [Hs' E4].
  split; [assumption|]. eapply ext_trans; [exact E02|]. eapply ext_trans; eauto.
Qed.

(* ------------------------------------------------------------------ *)
(* 6. union_leaders, union_internal *)

Section Leaders.
  Variable ui : appid -> appid -> M bool.
  Hypothesis H_ui : ui_spec ui.

  Theorem inv_union_leaders : forall l r s b s', eg_inv s -> lcanon s l -> lcanon s r ->
    union_leaders ui l r s = Ok (b, s') -> eg_inv s' /\ ext s s'.
  Proof.
    intros l r s b s' Hs Ll Lr H. unfold union_leaders in H.
    apply bind_reads_inv in H. destruct H as (e & _ & H).
    destruct e; [inversion H; subst; split; [assumption|apply ext_refl]|]. cbv zeta in H.
    pose proof (canon_covers _ _ (proj2 Ll)) as Cl. pose proof (canon_covers _ _ (proj2 Lr)) as Cr.
    destruct (negb (sset_eqb (values (am l)) _)) eqn:E1.
    { apply mbind_inv in H. destruct H as (u1 & s1 & H1 & H).
      destruct (inv_shrink_slots ui H_ui _ _ _ _ _ Hs Ll H1) as [Hs1 X1].
      apply mbind_inv in H. destruct H as (b2 & s2 & H2 & H). inversion H; subst b s2; clear H.
      destruct (H_ui _ _ _ _ _ Hs1 (covers_ext _ _ _ X1 Cl) (covers_ext _ _ _ X1 Cr) H2) as [Hs2 X2].
      split; [assumption|eapply ext_trans; eauto]. }
    destruct (negb (sset_eqb (values (am r)) _)) eqn:E2.
    { apply mbind_inv in H. destruct H as (u1 & s1 & H1 & H).
      destruct (inv_shrink_slots ui H_ui _ _ _ _ _ Hs Lr H1) as [Hs1 X1].
      apply mbind_inv in H. destruct H as (b2 & s2 & H2 & H). inversion H; subst b s2; clear H.
      destruct (H_ui _ _ _ _ _ Hs1 (covers_ext _ _ _ X1 Cl) (covers_ext _ _ _ X1 Cr) H2) as [Hs2 X2].
      split; [assumption|eapply ext_trans; eauto]. }
    apply negb_false_iff in E1, E2. apply sset_eqb_eq in E1, E2.
    assert (V : values (am l) = values (am r)) by congruence.
    destruct (aid l =? aid r) eqn:E3; neq.
    - apply bind_reads_inv in H. destruct H as (c & Hc & H).
      apply mbind_inv in H. destruct H as (bc & s0 & Hb & H). apply lift_inv in Hb. destruct Hb as [Hb ->].
      destruct bc; [inversion H; subst; split; [assumption|apply ext_refl]|].
      apply mbind_inv in H. destruct H as ([g' bg] & s0 & Hg & H). apply lift_inv in Hg. destruct Hg as [Hg ->].
      cbn [fst] in H.
      apply mbind_inv in H. destruct H as (u1 & s1 & H1 & H).
      apply mbind_inv in H. destruct H as (u2 & s2 & H2 & H). inversion H; subst b s2; clear H.
      destruct Ll as [_ (cl & Hcl & Gl & Wl & Bl & Kl)]. destruct Lr as [_ (cr & Hcr & _ & Wr & Br & Kr)].
      rewrite Hc in Hcl. inversion Hcl; subst cl. rewrite <- E3, Hc in Hcr. inversion Hcr; subst cr.
      assert (Gn : grp_ok (with_group c g')).
      { eapply gadd_set_grp_ok; [exact Gl| |exact Hg]. constructor; [|constructor].
        apply quot_perm_on; auto. }
      destruct (inv_set_group s (aid l) c g' u1 s1 Hs Hc Gn H1) as [Hs1 X1].
      destruct (semR_step _ _ (s_touched_class _ _ _ _ _ H2) Hs1) as [Hs2 X2].
      split; [assumption|eapply ext_trans; eauto].
    - apply bind_reads_inv in H. destruct H as (cl & Hcl & H).
      apply bind_reads_inv in H. destruct H as (cr & Hcr & H). cbv zeta in H.
      apply mbind_inv in H. destruct H as (u1 & s1 & H1 & H). inversion H; subst b s1; clear H.
      match type of H1 with (if ?b then _ else _) _ = _ => destruct b end.
      + eapply inv_move_to; [exact Hs|exact Ll|exact Lr| |exact V|exact H1]. congruence.
      + eapply inv_move_to; [exact Hs|exact Lr|exact Ll| | |exact H1]; congruence.
  Qed.

  Theorem inv_union_internal_body : ui_spec (union_internal_body ui).
  Proof.
    intros l r s b s' Hs Cl Cr H. unfold union_internal_body in H.
    apply bind_reads_inv in H. destruct H as (l' & Hl & H).
    apply bind_reads_inv in H. destruct H as (r' & Hr & H).
    eapply inv_union_leaders; [exact Hs| | |exact H].
    - exact (covers_lcanon s l l' Hs Cl Hl).
    - exact (covers_lcanon s r r' Hs Cr Hr).
  Qed.
End Leaders.

Theorem inv_union_internal : forall fuel, ui_spec (union_internal fuel).
Proof.
  induction fuel as [|f IH]; [intros l r s b s' _ _ _ H; discriminate|].
  intros l r. rewrite union_internal_S. apply inv_union_internal_body. exact IH.
Qed.

Corollary inv_uint : ui_spec uint.
Proof. apply inv_union_internal. Qed.

(* ------------------------------------------------------------------ *)
(* 7. compose_fresh is injective when the fresh names are new *)

Lemma compose_fresh_go_inj : forall a b c out, wf out -> NoDup (map fst a) ->
  (forall x y x', In (x, y) a -> In (x', y) a -> x = x') ->
  injective b -> (forall k v, get b k = Some v -> v < c) ->
  (forall x, In x (map fst a) -> get out x = None) ->
  injective out -> (forall k v, get out k = Some v -> v < c) ->
  (forall k v x y, get out k = Some v -> In (x, y) a -> get b y <> Some v) ->
  injective (fst (compose_fresh_go a b c out)) /\
  (forall k v, get (fst (compose_fresh_go a b c out)) k = Some v -> v < snd (compose_fresh_go a b c out)).
Proof.
  induction a as [|[x y] t IH]; intros b c out Wo Nk Iv Ib Fb Ko Io Vo D; cbn [compose_fresh_go].
  - cbn [fst snd]. auto.
  - cbn [map fst] in Nk. inversion Nk as [|? ? Hx Nt]; subst.
    assert (Iv' : forall x0 y0 x', In (x0, y0) t -> In (x', y0) t -> x0 = x').
    { intros x0 y0 x' A1 A2. eapply Iv; right; eassumption. }
    destruct (get b y) as [z|] eqn:Eb.
    + apply IH; try assumption.
      * apply insert_wf. assumption.
      * intros x0 Hx0. rewrite get_insert by assumption. destruct (x0 =? x) eqn:E; neq; [subst; contradiction|].
        apply Ko. right. assumption.
      * intros k1 k2 v. rewrite !get_insert by assumption.
        destruct (k1 =? x) eqn:E1, (k2 =? x) eqn:E2; neq; intros A1 A2.
        -- congruence.
        -- inversion A1; subst v. exfalso. apply (D k2 z x y A2); [left; reflexivity|assumption].
        -- inversion A2; subst v. exfalso. apply (D k1 z x y A1); [left; reflexivity|assumption].
        -- eapply Io; eauto.
      * intros k v. rewrite get_insert by assumption. destruct (k =? x); [|apply Vo].
        intros A. inversion A; subst v. eapply Fb; eauto.
      * intros k v x0 y0. rewrite get_insert by assumption. destruct (k =? x) eqn:E; neq.
        -- intros A Hin Hb. inversion A; subst v k. pose proof (Ib _ _ _ Eb Hb). subst y0.
           apply Hx. assert (x = x0) by (eapply Iv; [left; reflexivity|right; exact Hin]). subst x0.
           change x with (fst (x, y)). apply in_map. assumption.
        -- intros A Hin. eapply D; [exact A|right; exact Hin].
    + apply IH; try assumption.
      * apply insert_wf. assumption.
      * intros k v A. apply Fb in A. lia.
      * intros x0 Hx0. rewrite get_insert by assumption. destruct (x0 =? x) eqn:E; neq; [subst; contradiction|].
        apply Ko. right. assumption.
      * intros k1 k2 v. rewrite !get_insert by assumption.
        destruct (k1 =? x) eqn:E1, (k2 =? x) eqn:E2; neq; intros A1 A2.
        -- congruence.
        -- inversion A1; subst v. apply Vo in A2. lia.
        -- inversion A2; subst v. apply Vo in A1. lia.
        -- eapply Io; eauto.
      * intros k v. rewrite get_insert by assumption. destruct (k =? x).
        -- intros A. inversion A; subst v. lia.
        -- intros A. apply Vo in A. lia.
      * intros k v x0 y0. rewrite get_insert by assumption. destruct (k =? x) eqn:E; neq.
        -- intros A Hin Hb. inversion A; subst v. apply Fb in Hb. lia.
        -- intros A Hin. eapply D; [exact A|right; exact Hin].
Qed.

Theorem compose_fresh_inj : forall a b c, wf a -> injective a -> injective b ->
  (forall k v, get b k = Some v -> v < c) ->
  injective (fst (compose_fresh a b c)) /\
  (forall k v, get (fst (compose_fresh a b c)) k = Some v -> v < snd (compose_fresh a b c)).
Proof.
  intros a b c Wa Ia Ib Fb. unfold compose_fresh. apply compose_fresh_go_inj; try assumption.
  - exact I.
  - apply wf_nodup_keys. assumption.
  - intros x y x' A1 A2. apply in_get in A1, A2; try assumption. eapply Ia; eauto.
  - intros; reflexivity.
  - intros k1 k2 v A. discriminate.
  - intros k v A. discriminate.
  - intros k v x y A. discriminate.
Qed.

(* ------------------------------------------------------------------ *)
(* 8. the slots of a pre-shape are slots of the node *)

Lemma compose_values_sub' : forall a m, incl (values_vec (a ** m)) (values_vec m).
Proof.
  intros a m v H. unfold values_vec in H. apply in_map_iff in H. destruct H as ([k v'] & Hv & Hin).
  cbn [snd] in Hv. subst v'. apply in_get in Hin; [|apply compose_partial_wf].
  unfold compose_partial in Hin. rewrite get_from_iter in Hin. apply assoc_last_in in Hin.
  apply in_flat_map in Hin. destruct Hin as ([k0 y] & _ & Hin). cbn [fst snd] in Hin.
  destruct (get m y) as [z|] eqn:G; [|contradiction]. destruct Hin as [Hin|[]]. inversion Hin; subst.
  apply get_in in G. unfold values_vec. apply in_map_iff. exists (y, v). auto.
Qed.

Lemma find_enode_all_occ' : forall s n n1, find_enode s n = Ok n1 ->
  incl (all_occ n1) (all_occ n) /\ List.length (app_occ n1) = List.length (app_occ n).
Proof.
  intros s n n1 H. unfold find_enode in H.
  destruct (mapr (find_applied_id s) (app_occ n)) as [l|] eqn:E; cbn [bind] in H; [|discriminate].
  inversion H; subst n1; clear H. apply mapr_ok in E. pose proof (Forall2_length' _ _ _ E) as Len. split.
  - unfold all_occ, set_apps. cbn [nargs]. apply set_apps_args_all_occ. fold (app_occ n).
    revert E. apply Forall2_imp. intros a b Hab. unfold find_applied_id in Hab.
    destruct (unionfind_get s (aid a)) as [p|]; cbn [bind] in Hab; [|discriminate]. inversion Hab; subst b.
    unfold vals_sub. cbn [am]. apply compose_values_sub'.
  - rewrite app_occ_set_apps by assumption. assumption.
Qed.

Lemma cartesian_len : forall {A} (gs : list (list A)) l, In l (cartesian gs) -> List.length l = List.length gs.
Proof.
  intros A. induction gs as [|g gs IH]; intros l H; cbn [cartesian] in H.
  - destruct H as [<-|[]]. reflexivity.
  - apply in_flat_map in H. destruct H as (rest & Hr & H). apply in_map_iff in H. destruct H as (x & <- & _).
    cbn [List.length]. rewrite (IH rest Hr). reflexivity.
Qed.

Lemma zip_vals_sub : forall apps (l : list perm), List.length l = List.length apps ->
  Forall2 vals_sub apps (zip_with (fun a pp => {| aid := aid a; am := pp ** am a |}) apps l).
Proof.
  induction apps as [|a t IH]; intros [|p l] H; cbn [zip_with List.length] in *; try discriminate; constructor.
  - unfold vals_sub. cbn [am]. apply compose_values_sub'.
  - apply IH. lia.
Qed.

Lemma mapr_length : forall {A B} (f : A -> res B) l r, mapr f l = Ok r -> List.length r = List.length l.
Proof. intros A B f l r H. apply mapr_ok in H. eapply Forall2_length'; eauto. Qed.

Lemma variants_all_occ : forall s n vs, variants s n = Ok vs -> forall v, In v vs -> incl (all_occ v) (all_occ n).
Proof.
  intros s n vs H v Hv. unfold variants in H.
  destruct (mapr (fun a => get_class s (aid a)) (app_occ n)) as [cls|] eqn:Ec; cbn [bind] in H; [|discriminate].
  destruct (forallb _ cls).
  - inversion H; subst vs. destruct Hv as [<-|[]]. apply incl_refl.
  - destruct (mapr _ cls) as [groups|] eqn:Eg; cbn [bind] in H; [|discriminate]. inversion H; subst vs; clear H.
    apply in_map_iff in Hv. destruct Hv as (l & <- & Hl). apply cartesian_len in Hl.
    unfold all_occ, set_apps. cbn [nargs]. apply set_apps_args_all_occ. fold (app_occ n).
    apply zip_vals_sub. etransitivity; [exact Hl|]. etransitivity; [exact (mapr_length _ _ _ Eg)|]. exact (mapr_length _ _ _ Ec).
Qed.

Lemma min_variant_in : forall l best n, min_variant l best = Ok n ->
  In n l \/ exists k, best = Some (n, k).
Proof.
  induction l as [|v t IH]; intros best n H; cbn [min_variant] in H.
  - destruct best as [[m k]|]; [|discriminate]. inversion H; subst. right. eauto.
  - destruct (wshape v) as [sh|]; cbn [bind] in H; [|discriminate].
    destruct best as [[m bk]|].
    + destruct (cmp_slots _ bk); apply IH in H; destruct H as [H|[k H]]; try (left; right; assumption);
        try (right; eauto; fail); inversion H; subst; left; left; reflexivity.
    + apply IH in H. destruct H as [H|[k H]]; [left; right; assumption|]. inversion H; subst. left; left; reflexivity.
Qed.

Theorem pre_shape_all_occ : forall s n p, pre_shape s n = Ok p -> incl (all_occ p) (all_occ n).
Proof.
  intros s n p H. unfold pre_shape in H.
  destruct (find_enode s n) as [n1|] eqn:E1; cbn [bind] in H; [|discriminate].
  destruct (variants s n1) as [vs|] eqn:E2; cbn [bind] in H; [|discriminate].
  apply min_variant_in in H. destruct H as [H|[k H]]; [|discriminate].
  eapply incl_tran; [eapply variants_all_occ; eauto|]. apply (find_enode_all_occ' _ _ _ E1).
Qed.

(* ------------------------------------------------------------------ *)
(* 9. rebuild.  The congruence proofs built by pc_congruence are invocations with fresh slots for
   the redundant positions; they are injective because every slot of a syntactic node is older
   than the counter (`syn_below`). *)

Definition syn_below (s : egraph) : Prop :=
  forall i c x, get_class s i = Ok c -> In x (all_occ (c_syn c)) -> x < ectr s.

Lemma syn_below_ext : forall s s', ext s s' -> syn_below s -> syn_below s'.
Proof.
  intros s s' (L & N & E) H i c' x Hc' Hx. pose proof (get_class_lt _ _ _ Hc') as Li. rewrite N in Li.
  destruct (get_class_ok s i Li) as [c Hc]. destruct (E _ _ Hc) as (c2 & Hc2 & _ & Sy).
  rewrite Hc' in Hc2. inversion Hc2; subst c2. rewrite Sy in Hx. pose proof (H _ _ _ Hc Hx). lia.
Qed.

Definition eg_inv2 (s : egraph) : Prop := eg_inv s /\ syn_below s.
Definition stepR2 (s s' : egraph) : Prop := eg_inv2 s -> eg_inv2 s' /\ ext s s'.

Lemma stepR2_refl : forall s, stepR2 s s.
Proof. intros s H. split; [assumption|apply ext_refl]. Qed.
Lemma stepR2_trans : forall a b c, stepR2 a b -> stepR2 b c -> stepR2 a c.
Proof.
  intros a b c H1 H2 Ha. destruct (H1 Ha) as [Hb E1]. destruct (H2 Hb) as [Hc E2].
  split; [assumption|eapply ext_trans; eauto].
Qed.
Lemma step_step2 : forall s s', stepR s s' -> stepR2 s s'.
Proof.
  intros s s' H [A B]. destruct (H A) as [A' E]. split; [|assumption]. split; [assumption|eapply syn_below_ext; eauto].
Qed.
Lemma semR_step2 : forall s s', semR s s' -> stepR2 s s'.
Proof. intros s s' H. apply step_step2, semR_step. assumption. Qed.

Lemma lcanon_sem : forall s s' a, sem_eq s s' -> lcanon s a -> lcanon s' a.
Proof.
  intros s s' a E [L (c & Hc & G & W & B & K)]. pose proof E as [U _]. split.
  - unfold leader in *. rewrite <- U. assumption.
  - destruct (get_class_sem_ok s s' _ c E Hc) as (c' & Hc' & Cs). exists c'. split; [assumption|].
    split; [eapply grp_ok_csem; [symmetry; exact Cs|assumption]|]. apply csem_inv in Cs. destruct Cs as (-> & _). auto.
Qed.

Lemma pc_from_src_spec : forall s i pc, pc_from_src_id s i = Ok pc ->
  exists c, get_class s i = Ok c /\ pre_shape s (c_syn c) = Ok (fst pc) /\
            find_applied_id s {| aid := i; am := identity (slots (c_syn c)) |} = Ok (snd pc).
Proof.
  intros s i pc H. unfold pc_from_src_id in H. destruct (get_class s i) as [c|] eqn:Hc; cbn [bind aid am] in H; [|discriminate].
  destruct (apply_slotmap false (identity (slots (c_syn c))) (c_syn c)) as [n0|] eqn:A; cbn [bind] in H; [|discriminate].
  apply apply_identity in A. subst n0.
  destruct (pre_shape s (c_syn c)) as [nd|] eqn:P; cbn [bind] in H; [|discriminate].
  destruct (find_applied_id s _) as [pai|] eqn:F; cbn [bind] in H; [|discriminate].
  inversion H; subst pc. exists c. cbn [fst snd]. auto.
Qed.

Lemma pc_props : forall s i pc, eg_inv s -> pc_from_src_id s i = Ok pc ->
  lcanon s (snd pc) /\ exists c, get_class s i = Ok c /\ incl (all_occ (fst pc)) (all_occ (c_syn c)).
Proof.
  intros s i pc Hs H. destruct (pc_from_src_spec _ _ _ H) as (c & Hc & P & F). split.
  - eapply covers_lcanon; [exact Hs| |exact F]. exists c. cbn [aid am]. split; [assumption|].
    split; [apply pid_injective, pid_identity|]. intros k Hk. destruct (ei_cls s Hs _ _ Hc) as (_ & _ & I).
    apply I, mem_in in Hk. rewrite get_identity, Hk. discriminate.
  - exists c. split; [assumption|]. eapply pre_shape_all_occ; eauto.
Qed.

Lemma pc_congruence_dec : forall a b s ab s', pc_congruence a b s = Ok (ab, s') ->
  exists sa sb m c1 x c2 bm c3,
    wshape (fst a) = Ok sa /\ wshape (fst b) = Ok sb /\
    compose_fresh (inv (snd sb)) (snd sa) (ectr s) = (m, c1) /\
    apply_slotmap_fresh false m (fst b) c1 = (x, c2) /\
    compose_fresh (am (snd b)) m c2 = (bm, c3) /\
    ab = (snd a, {| aid := aid (snd b); am := bm |}).
Proof.
  intros a b s ab s' H. unfold pc_congruence in H.
  apply mbind_inv in H. destruct H as (sa & s0 & Hsa & H). apply lift_inv in Hsa. destruct Hsa as [Hsa ->].
  apply mbind_inv in H. destruct H as (sb & s0 & Hsb & H). apply lift_inv in Hsb. destruct Hsb as [Hsb ->].
  cbv zeta in H.
  apply mbind_inv in H. destruct H as (m & s1 & H1 & H). unfold with_ctr in H1.
  destruct (compose_fresh (inv (snd sb)) (snd sa) (ectr s)) as [m' c1] eqn:E1. inversion H1; subst m' s1; clear H1.
  apply mbind_inv in H. destruct H as (u & s2 & H2 & H). unfold with_ctr in H2. cbn [Model.ctr set_ctr] in H2.
  destruct (apply_slotmap_fresh false m (fst b) c1) as [x c2] eqn:E2. inversion H2; subst u s2; clear H2.
  apply mbind_inv in H. destruct H as (bm & s3 & H3 & H). unfold with_ctr in H3. cbn [Model.ctr set_ctr] in H3.
  destruct (compose_fresh (am (snd b)) m c2) as [bm' c3] eqn:E3. inversion H3; subst bm' s3; clear H3.
  inversion H; subst ab s'. exists sa, sb, m, c1, x, c2, bm, c3. auto 10.
Qed.

Lemma pc_congruence_fst : forall a b s ab s', pc_congruence a b s = Ok (ab, s') -> fst ab = snd a.
Proof.
  intros a b s ab s' H. destruct (pc_congruence_dec _ _ _ _ _ H) as (sa & sb & m & c1 & x & c2 & bm & c3 & _ & _ & _ & _ & _ & ->).
  reflexivity.
Qed.

(* the second invocation built by pc_congruence *)
Theorem pcc_injective : forall s pc1 pc2 ab s',
  (forall x, In x (pub_occ (fst pc1)) -> x < ectr s) ->
  wf (am (snd pc2)) -> injective (am (snd pc2)) ->
  pc_congruence pc1 pc2 s = Ok (ab, s') ->
  fst ab = snd pc1 /\ aid (snd ab) = aid (snd pc2) /\ injective (am (snd ab)) /\
  (forall k, get (am (snd pc2)) k <> None -> get (am (snd ab)) k <> None).
Proof.
  intros s pc1 pc2 ab s' Fr Wa Ia H.
  destruct (pc_congruence_dec _ _ _ _ _ H) as ([sh1 bij1] & [sh2 bij2] & m & c1 & x & c2 & bm & c3 & S1 & S2 & E1 & E2 & E3 & ->).
  cbn [fst snd aid am] in *.
  destruct (shape_bij_props _ _ _ S1) as (W1 & B1 & P1). destruct (shape_bij_props _ _ _ S2) as (W2 & B2 & P2).
  pose proof (proj1 (is_bijection_injective _ W1) B1) as I1.
  assert (Ii2 : injective (inv bij2)).
  { apply is_bijection_injective; [apply inverse_wf|]. apply inverse_bijection; assumption. }
  destruct (compose_fresh_inj (inv bij2) bij1 (ectr s) (inverse_wf _) Ii2 I1) as [Im Vm].
  { intros k v G. apply Fr. apply P1. eauto. }
  rewrite E1 in Im, Vm. cbn [fst snd] in Im, Vm.
  assert (L12 : c1 <= c2).
  { pose proof (apply_slotmap_fresh_step false m (fst pc2) c1) as T. rewrite E2 in T. apply ctr_step_le in T. exact T. }
  destruct (compose_fresh_inj (am (snd pc2)) m c2 Wa Ia Im) as [Ib _].
  { intros k v G. apply Vm in G. lia. }
  rewrite E3 in Ib. cbn [fst] in Ib.
  split; [reflexivity|]. split; [reflexivity|]. split; [exact Ib|].
  intros k Hk. pose proof (compose_fresh_spec (am (snd pc2)) m c2 k Wa) as (_ & _ & T). rewrite E3 in T. cbn [fst snd] in T.
  destruct (get (am (snd pc2)) k) as [y|]; [|congruence]. destruct (get m y) as [z|]; [congruence|].
  destruct T as (z & -> & _). discriminate.
Qed.

Lemma canon_wf_inj : forall s a, canon_ok s a -> wf (am a) /\ injective (am a).
Proof. intros s a (c & _ & _ & W & B & _). split; [assumption|apply is_bijection_injective; assumption]. Qed.

(* the union performed on the result of pc_congruence; the two proven-contains may have been
   computed in an earlier state s0 *)
Lemma inv_pcc_uint : forall s0 s i pc1 pc2 ab s1 b s', eg_inv2 s0 -> ext s0 s -> eg_inv2 s ->
  pc_from_src_id s0 i = Ok pc1 -> lcanon s0 (snd pc2) ->
  pc_congruence pc1 pc2 s = Ok (ab, s1) -> uint (fst ab) (snd ab) s1 = Ok (b, s') ->
  eg_inv2 s' /\ ext s s'.
Proof.
  intros s0 s i pc1 pc2 ab s1 b s' [Hs0 Hb0] E0 Hs2 P1 L2 H U.
  destruct (pc_props s0 i pc1 Hs0 P1) as (L1 & c & Hc & Oc).
  destruct (canon_wf_inj _ _ (proj2 L2)) as [W2 I2].
  destruct (pcc_injective s pc1 pc2 ab s1) as (F1 & F2 & F3 & F4); try assumption.
  { intros x Hx. assert (x < ectr s0) by (apply (Hb0 i c x Hc); apply Oc; apply pub_occ_all_occ; assumption).
    destruct E0 as (L & _). lia. }
  pose proof (s_pc_congruence _ _ _ _ _ H) as S1. destruct (semR_step2 _ _ S1 Hs2) as [Hs1 E1].
  pose proof (ext_trans _ _ _ E0 E1) as E01.
  assert (C1 : covers s1 (fst ab)).
  { rewrite F1. apply (covers_ext s0 s1); [assumption|]. apply canon_covers. apply L1. }
  assert (C2 : covers s1 (snd ab)).
  { pose proof (canon_covers _ _ (proj2 L2)) as C. apply (covers_ext s0 s1 _ E01) in C.
    destruct C as (c2 & Hc2 & _ & Sk). exists c2. rewrite F2. split; [assumption|]. split; [assumption|].
    intros k Hk. apply F4. apply Sk. assumption. }
  destruct (step_step2 _ _ (fun Hx => inv_uint _ _ _ _ _ Hx C1 C2 U) Hs1) as [Hs' E2].
  split; [assumption|eapply ext_trans; eauto].
Qed.

Local Notation ppres := (pres stepR2).
Lemma p_bind : forall A C (m : M A) (k : A -> M C), ppres m -> (forall a, ppres (k a)) -> ppres (mbind m k).
Proof. apply (pres_bind stepR2 stepR2_trans). Qed.
Lemma p_ret : forall A (a : A), ppres (ret a).
Proof. apply (pres_ret stepR2 stepR2_refl). Qed.
Lemma p_reads : forall A (f : egraph -> res A), ppres (reads f).
Proof. apply (pres_reads stepR2 stepR2_refl). Qed.
Lemma p_lift : forall A (r : res A), ppres (Model.lift r).
Proof. apply (pres_lift stepR2 stepR2_refl). Qed.
Lemma p_sem : forall A (m : M A), spres m -> ppres m.
Proof. intros A m H s x s' E. apply semR_step2. eapply H; eauto. Qed.
Lemma p_fail : forall A e, ppres (@fail A e).
Proof. apply (pres_fail stepR2). Qed.

Theorem inv_handle_shrink : forall src, ppres (handle_shrink_in_upwards_merge src).
Proof.
  intros src s x s' H Hs2. pose proof Hs2 as [Hs Hb]. unfold handle_shrink_in_upwards_merge in H.
  apply bind_reads_inv in H. destruct H as (pc1 & P1 & H).
  apply bind_reads_inv in H. destruct H as (n2 & _ & H).
  apply mbind_inv in H. destruct H as ([a b] & s1 & H1 & H).
  pose proof (pc_congruence_fst _ _ _ _ _ H1) as Fa. cbn [fst] in Fa. subst a.
  destruct (pc_props s src pc1 Hs P1) as (L1 & _).
  pose proof (s_pc_congruence _ _ _ _ _ H1) as S1. destruct (semR_step2 _ _ S1 Hs2) as [Hs1 E1].
  destruct (step_step2 _ _ (fun Hx => inv_shrink_slots uint inv_uint _ _ _ _ _ Hx (lcanon_sem _ _ _ (proj1 S1) L1) H) Hs1)
    as [Hs' E2].
  split; [assumption|eapply ext_trans; eauto].
Qed.

Theorem inv_handle_congruence : forall src s pc1 x s', eg_inv2 s -> pc_from_src_id s src = Ok pc1 ->
  handle_congruence pc1 s = Ok (x, s') -> eg_inv2 s' /\ ext s s'.
Proof.
  intros src s pc1 x s' Hs2 P1 H. unfold handle_congruence in H.
  apply bind_reads_inv in H. destruct H as (sh & _ & H).
  apply bind_reads_inv in H. destruct H as (pc2 & P2 & H).
  apply mbind_inv in H. destruct H as (ab & s1 & H1 & H).
  apply mbind_inv in H. destruct H as (b & s2 & H2 & H). inversion H; subst x s2; clear H.
  unfold pc_from_shape in P2. destruct (na_get (hashcons s) (fst sh)) as [i2|]; [|discriminate].
  destruct (get_class s i2) as [c2|]; cbn [bind] in P2; [|discriminate].
  destruct (na_get (c_nodes c2) (fst sh)) as [[bj src2]|]; [|discriminate].
  destruct (pc_props s src2 pc2 (proj1 Hs2) P2) as (L2 & _).
  exact (inv_pcc_uint s s src pc1 pc2 ab s1 b s' Hs2 (ext_refl s) Hs2 P1 L2 H1 H2).
Qed.

Theorem inv_determine_self_symmetries : forall src, ppres (determine_self_symmetries src).
Proof.
  intros src s x s' H Hs2. unfold determine_self_symmetries in H.
  apply bind_reads_inv in H. destruct H as (pc1 & P1 & H).
  apply mbind_inv in H. destruct H as (w & s0 & Hw & H). apply lift_inv in Hw. destruct Hw as [Hw ->].
  cbv zeta in H. apply bind_reads_inv in H. destruct H as (vs & _ & H).
  destruct (pc_props s src pc1 (proj1 Hs2) P1) as (L1 & _).
  assert (G : forall vs s1 x s', eg_inv2 s1 -> ext s s1 ->
            iterM (fun pn2 => dom w2 <- Model.lift (wshape pn2);
                     if node_eqb (fst w) (fst w2) then
                       dom ab <- pc_congruence pc1 (pn2, snd pc1); dom _ <- uint (fst ab) (snd ab); ret tt
                     else ret tt) vs s1 = Ok (x, s') -> eg_inv2 s' /\ ext s1 s').
  { clear H vs x s'. induction vs as [|pn2 t IH]; intros s1 x s' Hs1 E01 H; cbn [iterM] in H.
    - inversion H; subst. split; [assumption|apply ext_refl].
    - apply mbind_inv in H. destruct H as (u & s2 & H1 & H).
      assert (S12 : eg_inv2 s2 /\ ext s1 s2).
      { apply mbind_inv in H1. destruct H1 as (w2 & s0 & Hw2 & H1). apply lift_inv in Hw2. destruct Hw2 as [_ ->].
        destruct (node_eqb (fst w) (fst w2)); [|inversion H1; subst; split; [assumption|apply ext_refl]].
        apply mbind_inv in H1. destruct H1 as (ab & s3 & H3 & H1).
        apply mbind_inv in H1. destruct H1 as (b & s4 & H4 & H1). inversion H1; subst u s4; clear H1.
        exact (inv_pcc_uint s s1 src pc1 (pn2, snd pc1) ab s3 b s2 Hs2 E01 Hs1 P1 L1 H3 H4). }
      destruct S12 as [Hs2' E12]. destruct (IH s2 x s' Hs2' (ext_trans _ _ _ E01 E12) H) as [Hs' E2].
      split; [assumption|eapply ext_trans; eauto]. }
  exact (G vs s x s' Hs2 (ext_refl s) H).
Qed.

Lemma p_gets : forall A (f : egraph -> A), ppres (gets f).
Proof. apply (pres_gets stepR2 stepR2_refl). Qed.

Lemma s_fill_fresh : forall l m, spres (fill_fresh l m).
Proof. apply (pres_fill_fresh semR semR_refl semR_trans s_fresh). Qed.
Lemma s_synify_app_id : forall a, spres (synify_app_id a).
Proof. apply (pres_synify_app_id semR semR_refl semR_trans s_fresh). Qed.

Lemma inv_hp_loop : forall fuel src enode i, ppres (hp_loop fuel src enode i).
Proof.
  induction fuel as [|f IH]; intros src enode i; cbn [hp_loop]; [apply p_fail|].
  destruct (sset_subset _ _); [apply p_ret|].
  apply p_bind; [apply inv_handle_shrink|]. intros _.
  apply p_bind; [apply p_reads|]. intros enode'. apply p_bind; [apply p_reads|]. intros i'. apply IH.
Qed.

Theorem inv_handle_pending : forall sh ty, ppres (handle_pending sh ty).
Proof.
  intros sh ty. unfold handle_pending.
  apply p_bind; [apply p_reads|]. intros i. destruct (negb ty); [apply p_ret|].
  apply p_bind; [apply p_reads|]. intros c.
  apply p_bind; [apply p_lift|]. intros [bij0 src_id].
  apply p_bind; [apply p_lift|]. intros nd.
  apply p_bind; [apply p_sem, s_raw_remove|]. intros _.
  apply p_bind; [apply p_reads|]. intros sl. cbv zeta.
  apply p_bind; [apply p_reads|]. intros enode.
  apply p_bind; [apply p_reads|]. intros i1.
  apply p_bind; [apply inv_hp_loop|]. intros [enode' i1'].
  apply p_bind; [apply p_reads|]. intros t.
  apply p_bind; [apply p_reads|]. intros lk.
  destruct lk as [hit|].
  - intros s x s' H Hs. apply bind_reads_inv in H. destruct H as (pc & P & H).
    eapply inv_handle_congruence; eauto.
  - destruct t as [sh' bij].
    pose proof s_fill_fresh as Hff. unfold fill_fresh in Hff.
    apply p_bind; [apply p_sem, Hff|]. intros m. cbv zeta.
    apply p_bind; [apply p_sem, s_raw_add|]. intros _. apply inv_determine_self_symmetries.
Qed.

Theorem inv_rebuild : forall fuel, ppres (rebuild fuel).
Proof.
  induction fuel as [|f IH]; [apply p_fail|]. rewrite rebuild_S.
  apply p_bind; [apply p_gets|]. intros p. destruct p as [|[sh ty] rest]; [apply p_ret|].
  apply p_bind; [apply p_sem, (s_modify_pend (fun _ => rest))|]. intros _.
  apply p_bind; [apply inv_handle_pending|]. intros _. apply IH.
Qed.

Theorem inv_eg_union : forall l r s b s', eg_inv2 s -> covers s l -> covers s r ->
  eg_union l r s = Ok (b, s') -> eg_inv2 s' /\ ext s s'.
Proof.
  intros l r s b s' Hs Cl Cr H. unfold eg_union in H.
  apply mbind_inv in H. destruct H as (l1 & s1 & H1 & H).
  destruct (semR_step2 _ _ (s_synify_app_id _ _ _ _ H1) Hs) as [Hs1 E1].
  apply mbind_inv in H. destruct H as (r1 & s2 & H2 & H).
  destruct (semR_step2 _ _ (s_synify_app_id _ _ _ _ H2) Hs1) as [Hs2 E2].
  pose proof (ext_trans _ _ _ E1 E2) as E02.
  apply mbind_inv in H. destruct H as (out & s3 & H3 & H).
  destruct (step_step2 _ _ (fun Hx => inv_uint _ _ _ _ _ Hx (covers_ext _ _ _ E02 Cl) (covers_ext _ _ _ E02 Cr) H3) Hs2)
    as [Hs3 E3].
  apply mbind_inv in H. destruct H as (u & s4 & H4 & H). inversion H; subst b s4; clear H.
  destruct (inv_rebuild _ _ _ _ H4 Hs3) as [Hs4 E4].
  split; [assumption|]. eapply ext_trans; [exact E02|]. eapply ext_trans; eauto.
Qed.

Theorem eg_inv2_empty : eg_inv2 empty_egraph.
Proof.
  split.
  - constructor; [apply uf_ok_empty|apply flat_uf_slots_ok, flat_empty|].
    intros i c H. unfold get_class in H. cbn in H. destruct (N.to_nat i); discriminate.
  - intros i c x H. unfold get_class in H. cbn in H. destruct (N.to_nat i); discriminate.
Qed.

(* ------------------------------------------------------------------ *)
(* 9b. the insertion side: add_expr keeps the invariant; classes persist (with the same
   syntactic node and a subset of their slots), new classes may be appended *)

Definition ext0 (s s' : egraph) : Prop :=
  ectr s <= ectr s' /\
  forall i c, get_class s i = Ok c ->
    exists c', get_class s' i = Ok c' /\ incl (c_slots c') (c_slots c) /\ c_syn c' = c_syn c.

Lemma ext_ext0 : forall s s', ext s s' -> ext0 s s'.
Proof. intros s s' (A & _ & B). split; assumption. Qed.
Lemma ext0_refl : forall s, ext0 s s.
Proof. intros s. apply ext_ext0, ext_refl. Qed.
Lemma ext0_trans : forall a b c, ext0 a b -> ext0 b c -> ext0 a c.
Proof.
  intros a b c [L1 H1] [L2 H2]. split; [lia|]. intros i x Hx.
  destruct (H1 _ _ Hx) as (y & Hy & I1 & S1). destruct (H2 _ _ Hy) as (z & Hz & I2 & S2).
  exists z. split; [assumption|]. split; [eapply incl_tran; eauto|congruence].
Qed.
Lemma covers_ext0 : forall s s' a, ext0 s s' -> covers s a -> covers s' a.
Proof.
  intros s s' a (_ & E) (c & Hc & I & S). destruct (E _ _ Hc) as (c' & Hc' & Hi & _).
  exists c'. split; [assumption|]. split; [assumption|]. intros k Hk. apply S. apply Hi. assumption.
Qed.

Definition stepR3 (s s' : egraph) : Prop := eg_inv2 s -> eg_inv2 s' /\ ext0 s s'.
Lemma stepR3_refl : forall s, stepR3 s s.
Proof. intros s H. split; [assumption|apply ext0_refl]. Qed.
Lemma stepR3_trans : forall a b c, stepR3 a b -> stepR3 b c -> stepR3 a c.
Proof.
  intros a b c H1 H2 Ha. destruct (H1 Ha) as [Hb E1]. destruct (H2 Hb) as [Hc E2].
  split; [assumption|eapply ext0_trans; eauto].
Qed.
Lemma step2_step3 : forall s s', stepR2 s s' -> stepR3 s s'.
Proof. intros s s' H Hs. destruct (H Hs) as [A B]. split; [assumption|apply ext_ext0; assumption]. Qed.

Local Notation apres := (pres stepR3).
Lemma a_bind : forall A C (m : M A) (k : A -> M C), apres m -> (forall a, apres (k a)) -> apres (mbind m k).
Proof. apply (pres_bind stepR3 stepR3_trans). Qed.
Lemma a_ret : forall A (a : A), apres (ret a).
Proof. apply (pres_ret stepR3 stepR3_refl). Qed.
Lemma a_reads : forall A (f : egraph -> res A), apres (reads f).
Proof. apply (pres_reads stepR3 stepR3_refl). Qed.
Lemma a_fail : forall A e, apres (@fail A e).
Proof. apply (pres_fail stepR3). Qed.

(* private occurrences carry binder names *)
Lemma flags_false_binders : forall a bound s, In (s, false) (occ_flags_f bound a) ->
  In s (binders_f a) \/ In s bound.
Proof.
  induction a as [s0|x|s0 b IH|p]; intros bound s H; cbn [binders_f occ_flags_f In] in *.
  - destruct H as [H|[]]. inversion H as [[E1 E2]]. subst s0. right.
    apply negb_false_iff in E2. apply existsb_exists in E2. destruct E2 as (y & Hy & E). neq. subst. assumption.
  - apply in_map_iff in H. destruct H as (v & H & _). inversion H as [[E1 E2]]. subst v. right.
    apply negb_false_iff in E2. apply existsb_exists in E2. destruct E2 as (y & Hy & E). neq. subst. assumption.
  - destruct H as [H|H]; [inversion H; left; left; reflexivity|].
    apply IH in H. destruct H as [H|[H|H]]; [left; right; assumption|left; left; assumption|right; assumption].
  - contradiction.
Qed.

Lemma prv_binders : forall n s, In s (prv_occ n) -> In s (binders n).
Proof.
  intros n s H. unfold prv_occ in H. apply in_map_iff in H. destruct H as ([s' b] & Es & H). cbn [fst] in Es. subst s'.
  apply filter_In in H. destruct H as [H Hb]. cbn [snd] in Hb. apply negb_true_iff in Hb. subst b.
  unfold occ_flags in H. apply in_flat_map in H. destruct H as (a & Ha & H).
  apply flags_false_binders in H. destruct H as [H|[]]. unfold binders. apply in_flat_map. eauto.
Qed.

Lemma mapM_length : forall {A C} (f : A -> M C) l s r s', mapM f l s = Ok (r, s') -> List.length r = List.length l.
Proof.
  intros A C f. induction l as [|x t IH]; intros s r s' H; cbn [mapM] in H.
  - inversion H. reflexivity.
  - apply mbind_inv in H. destruct H as (y & s1 & _ & H). apply mbind_inv in H. destruct H as (r2 & s2 & H2 & H).
    inversion H; subst. cbn [List.length]. rewrite (IH _ _ _ H2). reflexivity.
Qed.

Lemma synify_enode_binders : forall n s n' s', synify_enode n s = Ok (n', s') -> binders n' = binders n.
Proof.
  intros n s n' s' H. unfold synify_enode in H. apply mbind_inv in H. destruct H as (l & s1 & H1 & H).
  inversion H; subst. apply binders_set_apps. eapply mapM_length; eauto.
Qed.

Theorem inv_mk_singleton : forall en s a s', eg_inv2 s -> Forall (fun b => b < ectr s) (binders en) ->
  mk_singleton_class en s = Ok (a, s') -> eg_inv2 s' /\ ext0 s s'.
Proof.
  intros en s a s' Hs Hb H. unfold mk_singleton_class in H.
  apply mbind_inv in H. destruct H as (f2o & s1 & H1 & H).
  unfold with_ctr in H1. destruct (bijection_from_fresh_to (slots en) (ectr s)) as [f2o' c2] eqn:BF.
  inversion H1; subst f2o' s1; clear H1.
  apply mbind_inv in H. destruct H as (syn0 & s2 & H2 & H). unfold with_ctr in H2. cbn [Model.ctr set_ctr] in H2.
  pose proof (fresh_rename_spec en (ectr s) f2o c2 Hb BF) as R. cbv zeta in R.
  destruct (apply_slotmap_fresh false (inv f2o) en c2) as [synf c3] eqn:ASF. cbn [fst snd] in R.
  inversion H2; subst syn0 s2; clear H2.
  destruct R as (Ec3 & _ & Bi & Sl & _ & Pb & _). subst c3.
  pose proof (bijection_from_fresh_to_step (slots en) (ectr s)) as St. rewrite BF in St. cbn [snd] in St. apply ctr_step_le in St.
  set (s2 := set_ctr (set_ctr s c2) c2) in *.
  assert (S02 : semR s s2).
  { split; [|unfold s2; cbn [Model.ctr set_ctr]; lia]. split; reflexivity. }
  destruct (semR_step2 _ _ S02 Hs) as [Hs2 E02].
  apply mbind_inv in H. destruct H as (i & s3 & H3 & H).
  assert (S3 : eg_inv2 s3 /\ ext0 s2 s3).
  { destruct Hs2 as [[Hok Hsl HC] Hbl].
    pose proof (alloc_eclass_exact _ _ _ _ _ H3) as (Hi & U & C & _ & _ & Ct).
    assert (Wsl : swf (values (inv f2o))) by apply sset_of_list_spec.
    split; [split|].
    - constructor.
      + exact (uf_ok_alloc_eclass _ _ _ _ _ H3 Hok).
      + eapply uf_slots_ok_alloc_eclass; [exact Hok|exact Hsl|exact Wsl|exact Sl|exact H3].
      + intros j c Hc. apply (get_class_ext_inv s2 s3 _ C) in Hc. destruct Hc as [Hc|[_ ->]]; [eapply HC; eauto|].
        split; [exact Wsl|]. split.
        * apply class_flat_grp_ok. unfold class_flat. cbn [c_slots c_group c_syn]. auto.
        * cbn [c_slots c_syn]. rewrite Sl. apply incl_refl.
    - intros j c x Hc Hx. rewrite Ct. apply (get_class_ext_inv s2 s3 _ C) in Hc. destruct Hc as [Hc|[_ ->]]; [eapply Hbl; eauto|].
      cbn [c_syn] in Hx. unfold s2. cbn [Model.ctr set_ctr].
      apply (Permutation.Permutation_in _ (occ_partition synf)) in Hx. apply in_app_or in Hx. destruct Hx as [Hx|Hx].
      + apply Pb in Hx. lia.
      + apply prv_binders in Hx. rewrite Bi in Hx. pose proof (proj1 (Forall_forall _ _) Hb x Hx) as T. cbv beta in T. lia.
    - split; [rewrite Ct; lia|]. intros j c Hc. exists c. split; [eapply get_class_ext_old; eauto|].
      split; [apply incl_refl|reflexivity]. }
  destruct S3 as [Hs3 E23].
  apply mbind_inv in H. destruct H as (t & s0 & Ht & H). apply lift_inv in Ht. destruct Ht as [_ ->].
  apply mbind_inv in H. destruct H as (u4 & s4 & H4 & H).
  destruct (semR_step2 _ _ (s_raw_add _ _ _ _ _ _ H4) Hs3) as [Hs4 E34].
  apply mbind_inv in H. destruct H as (u5 & s5 & H5 & H).
  destruct (semR_step2 _ _ (s_pending_insert _ _ _ _ _ H5) Hs4) as [Hs5 E45].
  apply mbind_inv in H. destruct H as (u6 & s6 & H6 & H). inversion H; subst a s6; clear H.
  destruct (inv_rebuild _ _ _ _ H6 Hs5) as [Hs6 E56].
  split; [assumption|].
  eapply ext0_trans; [apply ext_ext0; exact E02|]. eapply ext0_trans; [exact E23|].
  apply ext_ext0. eapply ext_trans; [exact E34|]. eapply ext_trans; eauto.
Qed.

Lemma s_synify_enode : forall n, spres (synify_enode n).
Proof. apply (pres_synify_enode semR semR_refl semR_trans s_fresh). Qed.

Theorem inv_add_internal : forall t, apres (add_internal t).
Proof.
  intros t s a s' H Hs. unfold add_internal in H.
  apply bind_reads_inv in H. destruct H as (lk & _ & H).
  destruct lk as [hit|]; [inversion H; subst; split; [assumption|apply ext0_refl]|].
  apply mbind_inv in H. destruct H as (en1 & s1 & H1 & H).
  destruct (refresh_private (fst t) (ectr s)) as [[r|e] c1] eqn:RP; [|discriminate]. inversion H1; subst r s1; clear H1.
  pose proof (refresh_private_step (fst t) (ectr s)) as St1. rewrite RP in St1. cbn [snd] in St1. apply ctr_step_le in St1.
  destruct (refresh_private_spec _ _ _ _ RP) as (_ & Bi1 & _).
  set (s1 := set_ctr s c1) in *.
  assert (S01 : semR s s1) by (split; [apply sem_set_ctr|unfold s1; cbn [Model.ctr set_ctr]; lia]).
  destruct (semR_step2 _ _ S01 Hs) as [Hs1 E01].
  apply mbind_inv in H. destruct H as (en2 & s2 & H2 & H). apply lift_inv in H2. destruct H2 as [H2 ->].
  pose proof (apply_slotmap_ren _ _ _ H2) as R2.
  assert (Bi2 : binders en2 = binders en1) by (rewrite R2, ren_binders; unfold asm_g; apply map_id).
  apply mbind_inv in H. destruct H as (en3 & s3 & H3 & H).
  pose proof (s_synify_enode _ _ _ _ H3) as S13. destruct (semR_step2 _ _ S13 Hs1) as [Hs3 E13].
  pose proof (synify_enode_binders _ _ _ _ H3) as Bi3.
  apply mbind_inv in H. destruct H as (syn & s4 & H4 & H).
  destruct (inv_mk_singleton en3 s3 syn s4 Hs3) as [Hs4 E34]; [|exact H4|].
  { rewrite Bi3, Bi2. revert Bi1. apply Forall_impl. intros b ((_ & Hb) & _).
    destruct S13 as [_ L13]. unfold s1 in L13. cbn [Model.ctr set_ctr] in L13. lia. }
  unfold reads in H. destruct (semify_app_id s4 syn); [|discriminate]. inversion H; subst s'.
  split; [assumption|]. eapply ext0_trans; [apply ext_ext0; exact E01|]. eapply ext0_trans; [apply ext_ext0; exact E13|exact E34].
Qed.

Theorem inv_eg_add : forall n, apres (eg_add n).
Proof. intros n. unfold eg_add. apply a_bind; [apply a_reads|]. intros t. apply inv_add_internal. Qed.

Theorem inv_add_expr : forall t, apres (add_expr t).
Proof.
  fix IH 1. intros [n ch]. cbn [add_expr]. apply a_bind.
  - induction ch as [|c r IHr]; [apply a_ret|].
    apply a_bind; [apply IH|]. intros a. apply a_bind; [apply IHr|]. intros; apply a_ret.
  - intros l. destruct (Nat.ltb _ _); [apply a_fail | apply inv_eg_add].
Qed.

(* ------------------------------------------------------------------ *)
(* 10. every reachable state.  The union side (`inv_eg_union`) and the preservation of the invariant
   by insertions (`inv_add_expr`) are proved above.  What is NOT proved is that the invocation
   returned by `add_expr` covers its class (needed because a later `eg_union` is applied to the
   handles): this is the hypothesis `add_covers_ok`, stated for reachable states only.  For a new
   node the returned invocation is the restriction of the fresh-to-old bijection of the new class;
   for a node that is found by `lookup_internal` it is `cn_bij^-1 ; n_bij` restricted to the class
   slots, and covering needs an invariant on the stored node bijections (for every entry
   `shape |-> (bij, src)` of a class: `bij` sorted, and every class slot is a value of `bij`). *)

Definition reach (terms : list rterm) (hs : list appid) (s : egraph) : Prop :=
  exists ops, run_ops terms ops [] empty_egraph = Ok (hs, s).

Lemma run_ops_app : forall terms o1 o2 hs s hs1 s1, run_ops terms o1 hs s = Ok (hs1, s1) ->
  run_ops terms (o1 ++ o2) hs s = run_ops terms o2 hs1 s1.
Proof.
  intros terms. induction o1 as [|o t IH]; intros o2 hs s hs1 s1 H; cbn [run_ops app] in *.
  - inversion H. reflexivity.
  - destruct o as [k|i j just].
    + destruct (nth_opt terms k) as [tm|]; [|discriminate]. unfold mbind in *.
      destruct (add_expr tm s) as [[a s2]|]; [|discriminate]. apply IH. assumption.
    + destruct (nth_opt hs i) as [a|]; [|discriminate]. destruct (nth_opt hs j) as [b|]; [|discriminate].
      unfold mbind in *. destruct (eg_union a b s) as [[u s2]|]; [|discriminate]. apply IH. assumption.
Qed.

Lemma nth_opt_In : forall {A} (l : list A) n x, nth_opt l n = Some x -> In x l.
Proof.
  induction l as [|y t IH]; destruct n as [|n]; cbn; intros x H; try discriminate.
  - inversion H. left. reflexivity.
  - right. eapply IH; eauto.
Qed.

Definition add_covers_ok (terms : list rterm) : Prop :=
  forall hs s k t a s', reach terms hs s -> eg_inv2 s -> Forall (covers s) hs ->
    nth_opt terms k = Some t -> add_expr t s = Ok (a, s') -> covers s' a.

Section Reachable.
  Variable terms : list rterm.
  Hypothesis add_ok : add_covers_ok terms.

  Lemma inv_run_ops : forall ops hs s hs' s', reach terms hs s -> eg_inv2 s -> Forall (covers s) hs ->
    run_ops terms ops hs s = Ok (hs', s') -> eg_inv2 s' /\ Forall (covers s') hs'.
  Proof.
    induction ops as [|o t IH]; intros hs s hs' s' R Hs Hc H; cbn [run_ops] in H.
    - inversion H; subst. auto.
    - destruct R as [ops0 R0]. destruct o as [k|i j just].
      + destruct (nth_opt terms k) as [tm|] eqn:Ek; [|discriminate].
        apply mbind_inv in H. destruct H as (a & s1 & H1 & H).
        destruct (inv_add_expr tm s a s1 H1 Hs) as [Hs1 E01].
        pose proof (add_ok hs s k tm a s1 (ex_intro _ ops0 R0) Hs Hc Ek H1) as Ca.
        assert (Hc1 : Forall (covers s1) hs).
        { revert Hc. apply Forall_impl. intros x. apply covers_ext0. assumption. }
        eapply IH; [| | |exact H].
        * exists (ops0 ++ [HAdd k]). rewrite (run_ops_app _ _ _ _ _ _ _ R0). cbn [run_ops]. rewrite Ek.
          unfold mbind. rewrite H1. reflexivity.
        * assumption.
        * apply Forall_app. split; [assumption|constructor; [assumption|constructor]].
      + destruct (nth_opt hs i) as [a|] eqn:Ei; [|discriminate]. destruct (nth_opt hs j) as [b|] eqn:Ej; [|discriminate].
        apply mbind_inv in H. destruct H as (u & s1 & H1 & H).
        pose proof (proj1 (Forall_forall _ _) Hc a (nth_opt_In _ _ _ Ei)) as Ca.
        pose proof (proj1 (Forall_forall _ _) Hc b (nth_opt_In _ _ _ Ej)) as Cb.
        destruct (inv_eg_union a b s u s1 Hs Ca Cb H1) as [Hs1 E1].
        eapply IH; [| | |exact H].
        * exists (ops0 ++ [HUnion i j just]). rewrite (run_ops_app _ _ _ _ _ _ _ R0). cbn [run_ops]. rewrite Ei, Ej.
          unfold mbind. rewrite H1. reflexivity.
        * assumption.
        * revert Hc. apply Forall_impl. intros x. apply covers_ext. assumption.
  Qed.

  Theorem reachable_inv : forall ops hs s, run_ops terms ops [] empty_egraph = Ok (hs, s) ->
    eg_inv2 s /\ Forall (covers s) hs.
  Proof.
    intros ops hs s H. eapply inv_run_ops; [| | |exact H].
    - exists []. reflexivity.
    - apply eg_inv2_empty.
    - constructor.
  Qed.

  Theorem reachable_eq_refl_sym : forall ops hs s, run_ops terms ops [] empty_egraph = Ok (hs, s) ->
    (forall a, covers s a -> eg_eq s a a = Ok true) /\
    (forall a b, covers s a -> covers s b -> exists x, eg_eq s a b = Ok x /\ eg_eq s b a = Ok x).
  Proof.
    intros ops hs s H. destruct (reachable_inv ops hs s H) as [[[U S _] _] _]. split.
    - intros a Ca. apply eg_eq_refl_inv; assumption.
    - intros a b Ca Cb. apply eg_eq_sym_inv; assumption.
  Qed.
End Reachable.

(* ------------------------------------------------------------------ *)
(* 11. transitivity of eg_eq on covered invocations (closure of the class group under composition) *)

Lemma quot_compose : forall a b c, wf a -> wf b -> wf c ->
  is_bijection a = true -> is_bijection b = true -> is_bijection c = true ->
  values a = values b ->
  (a ** inv b) ** (b ** inv c) = a ** inv c.
Proof.
  intros a b c Wa Wb Wc Ba Bb Bc V.
  pose proof (proj1 (is_bijection_injective b Wb) Bb) as Ib.
  apply map_eq_some; [apply compose_partial_wf|apply compose_partial_wf|].
  intros k v. rewrite (quot_get a c Wa Wc Bc). rewrite get_compose_partial by apply compose_partial_wf. split.
  - destruct (get (a ** inv b) k) as [m|] eqn:E; [|discriminate]. intros H.
    apply (quot_get a b Wa Wb Bb) in E. apply (quot_get b c Wb Wc Bc) in H.
    destruct E as (y & E1 & E2), H as (y' & F1 & F2). exists y. split; [assumption|congruence].
  - intros (y & E1 & E2).
    assert (Hy : In y (values b)) by (rewrite <- V; apply values_spec; eauto).
    apply values_spec in Hy; [|assumption]. destruct Hy as (m & Em).
    assert (E : get (a ** inv b) k = Some m) by (apply (quot_get a b Wa Wb Bb); eauto).
    rewrite E. apply (quot_get b c Wb Wc Bc). eauto.
Qed.

Theorem eg_eq_trans_inv : forall s a b c, uf_ok s -> uf_slots_ok s ->
  covers s a -> covers s b -> covers s c ->
  eg_eq s a b = Ok true -> eg_eq s b c = Ok true -> eg_eq s a c = Ok true.
Proof.
  intros s a b c Hok Hsl Ca Cb Cc H1 H2.
  destruct (covers_find_ok s a Hok Hsl Ca) as (a' & Fa & (ca & Hca & Ga & Wa & Ba & Ka)).
  destruct (covers_find_ok s b Hok Hsl Cb) as (b' & Fb & (cb & Hcb & _ & Wb & Bb & Kb)).
  destruct (covers_find_ok s c Hok Hsl Cc) as (c' & Fc & (cc & Hcc & _ & Wc & Bc & Kc)).
  unfold eg_eq in *. rewrite Fa, Fb in H1. rewrite Fb, Fc in H2. rewrite Fa, Fc. cbn [bind] in *.
  destruct (aid a' =? aid b') eqn:E1; cbn [negb] in H1; [|discriminate].
  destruct (aid b' =? aid c') eqn:E2; cbn [negb] in H2; [|discriminate]. neq.
  destruct (sset_eqb (values (am a')) (values (am b'))) eqn:V1; cbn [negb] in H1; [|discriminate].
  destruct (sset_eqb (values (am b')) (values (am c'))) eqn:V2; cbn [negb] in H2; [|discriminate].
  apply sset_eqb_eq in V1, V2.
  rewrite Hca in H1. rewrite <- E1, Hca in H2. cbn [bind] in H1, H2.
  rewrite <- E1, Hca in Hcb. inversion Hcb; subst cb. rewrite <- E2, <- E1, Hca in Hcc. inversion Hcc; subst cc.
  replace (aid a' =? aid c') with true by (symmetry; apply N.eqb_eq; congruence).
  replace (sset_eqb (values (am a')) (values (am c'))) with true by (symmetry; apply sset_eqb_eq; congruence).
  cbn [negb]. rewrite Hca. cbn [bind].
  destruct Ga as (gens & HG & Hg). pose proof (identity_is_id (c_slots ca)) as Hid.
  assert (P1 : perm_on (c_slots ca) (am a' ** inv (am b'))) by (apply quot_perm_on; assumption).
  assert (P2 : perm_on (c_slots ca) (am b' ** inv (am c'))) by (apply quot_perm_on; assumption).
  pose proof (gcontains_sound _ _ gens Hid HG _ _ P1 Hg H1) as G1.
  pose proof (gcontains_sound _ _ gens Hid HG _ _ P2 Hg H2) as G2.
  apply (gcontains_complete _ _ gens Hid HG _ _ Hg).
  rewrite <- (quot_compose (am a') (am b') (am c')) by assumption. apply gen_comp; assumption.
Qed.

Corollary reachable_eq_equivalence : forall terms, add_covers_ok terms ->
  forall ops hs s, run_ops terms ops [] empty_egraph = Ok (hs, s) ->
  (forall a, covers s a -> eg_eq s a a = Ok true) /\
  (forall a b, covers s a -> covers s b -> exists x, eg_eq s a b = Ok x /\ eg_eq s b a = Ok x) /\
  (forall a b c, covers s a -> covers s b -> covers s c ->
     eg_eq s a b = Ok true -> eg_eq s b c = Ok true -> eg_eq s a c = Ok true).
Proof.
  intros terms A ops hs s H. destruct (reachable_inv terms A ops hs s H) as [[[U S _] _] _].
  destruct (reachable_eq_refl_sym terms A ops hs s H) as [R Sy]. split; [exact R|]. split; [exact Sy|].
  intros a b c Ca Cb Cc. apply eg_eq_trans_inv; assumption.
Qed.

(* ------------------------------------------------------------------ *)
(* 12. an executable check of the decidable part of the invariant: the table (`uf_slots_okb`),
   the slot set of every class (sorted, contained in the slots of the syntactic node) and the age
   of every slot of a syntactic node.  The group part (`grp_ok`: the chain was built by group_new
   from permutations of the class slots) is a premise of the soundness lemma. *)

Definition class_okb (c : eclass) : bool :=
  swfb (c_slots c) && sset_subset (c_slots c) (slots (c_syn c)).

Definition syn_belowb (s : egraph) : bool :=
  forallb (fun c => forallb (fun x => x <? ectr s) (all_occ (c_syn c))) (classes s).

Definition eg_invb (s : egraph) : bool :=
  uf_slots_okb s && forallb class_okb (classes s) && syn_belowb s.

Lemma get_class_In : forall s i c, get_class s i = Ok c -> In c (classes s).
Proof.
  intros s i c H. unfold get_class in H. destruct (nth_opt (classes s) (N.to_nat i)) eqn:E; [|discriminate].
  inversion H; subst. eapply nth_opt_In; eauto.
Qed.

Theorem eg_invb_sound : forall s, uf_ok s -> eg_invb s = true ->
  (forall i c, get_class s i = Ok c -> grp_ok c) -> eg_inv2 s.
Proof.
  intros s Hok H HG. unfold eg_invb in H. apply andb_true_iff in H. destruct H as [H H3].
  apply andb_true_iff in H. destruct H as [H1 H2]. split.
  - constructor; [assumption| |].
    + apply uf_slots_okb_sound; try assumption. intros i c _ Hc. eapply HG; eauto.
    + intros i c Hc. pose proof (proj1 (forallb_forall _ _) H2 c (get_class_In _ _ _ Hc)) as T.
      unfold class_okb in T. apply andb_true_iff in T. destruct T as [T1 T2].
      split; [apply swfb_sound; assumption|]. split; [eapply HG; eauto|].
      intros x Hx. apply mem_in. exact (proj1 (forallb_forall _ _) T2 x Hx).
  - intros i c x Hc Hx. pose proof (proj1 (forallb_forall _ _) H3 c (get_class_In _ _ _ Hc)) as T. cbv beta in T.
    apply N.ltb_lt. exact (proj1 (forallb_forall _ _) T x Hx).
Qed.

(* the example state of UnionFindFacts.v (4 classes, chains 0 -> 1 -> 3, 2 -> 3, a symmetry) *)
Example ex_eg_invb : eg_invb ex_state = true.
Proof. vm_compute. reflexivity. Qed.

(* ------------------------------------------------------------------ *)
(* 13. an unconditional version with an executable side condition: a run in which every union is
   applied to two handles that pass `coversb` in the state of the union *)

Fixpoint unions_coveredb (terms : list rterm) (ops : list hop) (hs : list appid) (s : egraph) : bool :=
  match ops with
  | [] => true
  | HAdd k :: t =>
      match nth_opt terms k with
      | Some tm => match add_expr tm s with Ok (a, s1) => unions_coveredb terms t (hs ++ [a]) s1 | Err _ => true end
      | None => true
      end
  | HUnion i j _ :: t =>
      match nth_opt hs i, nth_opt hs j with
      | Some a, Some b =>
          coversb s a && coversb s b &&
          match eg_union a b s with Ok (_, s1) => unions_coveredb terms t hs s1 | Err _ => true end
      | _, _ => true
      end
  end.

Theorem inv_run_ops_checked : forall terms ops hs s hs' s', eg_inv2 s ->
  unions_coveredb terms ops hs s = true ->
  run_ops terms ops hs s = Ok (hs', s') -> eg_inv2 s'.
Proof.
  intros terms. induction ops as [|o t IH]; intros hs s hs' s' Hs Hc H; cbn [run_ops unions_coveredb] in *.
  - inversion H; subst. assumption.
  - destruct o as [k|i j just].
    + destruct (nth_opt terms k) as [tm|]; [|discriminate].
      apply mbind_inv in H. destruct H as (a & s1 & H1 & H). rewrite H1 in Hc.
      eapply IH; [|exact Hc|exact H]. exact (proj1 (inv_add_expr tm s a s1 H1 Hs)).
    + destruct (nth_opt hs i) as [a|]; [|discriminate]. destruct (nth_opt hs j) as [b|]; [|discriminate].
      apply mbind_inv in H. destruct H as (u & s1 & H1 & H). rewrite H1 in Hc.
      apply andb_true_iff in Hc. destruct Hc as [Hc Hr]. apply andb_true_iff in Hc. destruct Hc as [Ca Cb].
      eapply IH; [|exact Hr|exact H].
      exact (proj1 (inv_eg_union a b s u s1 Hs (coversb_sound _ _ Ca) (coversb_sound _ _ Cb) H1)).
Qed.

Theorem reachable_checked_equivalence : forall terms ops hs s,
  run_ops terms ops [] empty_egraph = Ok (hs, s) ->
  unions_coveredb terms ops [] empty_egraph = true ->
  eg_inv2 s /\
  (forall a, covers s a -> eg_eq s a a = Ok true) /\
  (forall a b, covers s a -> covers s b -> exists x, eg_eq s a b = Ok x /\ eg_eq s b a = Ok x) /\
  (forall a b c, covers s a -> covers s b -> covers s c ->
     eg_eq s a b = Ok true -> eg_eq s b c = Ok true -> eg_eq s a c = Ok true).
Proof.
  intros terms ops hs s H C.
  pose proof (inv_run_ops_checked terms ops [] empty_egraph hs s eg_inv2_empty C H) as Hs.
  split; [assumption|]. destruct Hs as [[U S _] _]. split; [|split].
  - intros a Ca. apply eg_eq_refl_inv; assumption.
  - intros a b Ca Cb. apply eg_eq_sym_inv; assumption.
  - intros a b c Ca Cb Cc. apply eg_eq_trans_inv; assumption.
Qed.

(* the example run of UnionFindFacts.v passes the executable side condition *)
Example ex_unions_covered : unions_coveredb ex_terms ex_ops [] empty_egraph = true.
Proof. vm_compute. reflexivity. Qed.

Example ex_eg_inv2 : eg_inv2 ex_state.
Proof. exact (proj1 (reachable_checked_equivalence _ _ _ _ ex_run_ok ex_unions_covered)). Qed.

(* a natural statement that is FALSE: `record_redundancy_witness` alone does not keep
   `uf_slots_ok` (the leader entry is narrowed before the class slots are): the invariant is
   re-established only by the class update that follows it in `shrink_slots` (`shrink_state`). *)
Example ex_witness_breaks_table :
  match record_redundancy_witness 3 [25] ex_state with
  | Ok (_, s1) => uf_slots_okb ex_state = true /\ uf_slots_okb s1 = false
  | Err _ => False
  end.
Proof. vm_compute. split; reflexivity. Qed.

(* ------------------------------------------------------------------ *)
Print Assumptions gadd_set_grp_ok.
Print Assumptions inv_shrink_slots.
Print Assumptions inv_move_to.
Print Assumptions inv_union_leaders.
Print Assumptions inv_union_internal.
Print Assumptions compose_fresh_inj.
Print Assumptions pre_shape_all_occ.
Print Assumptions pcc_injective.
Print Assumptions inv_handle_shrink.
Print Assumptions inv_handle_congruence.
Print Assumptions inv_determine_self_symmetries.
Print Assumptions inv_handle_pending.
Print Assumptions inv_rebuild.
Print Assumptions inv_eg_union.
Print Assumptions inv_mk_singleton.
Print Assumptions inv_add_expr.
Print Assumptions eg_inv2_empty.
Print Assumptions reachable_inv.
Print Assumptions reachable_eq_refl_sym.
Print Assumptions eg_eq_trans_inv.
Print Assumptions reachable_eq_equivalence.
Print Assumptions eg_invb_sound.
Print Assumptions inv_run_ops_checked.
Print Assumptions reachable_checked_equivalence.
Print Assumptions ex_eg_inv2.
Print Assumptions ex_witness_breaks_table.
