(* EGraph/UsesConv.v — THE USAGES LISTS ONLY MENTION HASHCONS KEYS THAT MENTION THE CLASS.

   `uses_conv s` (EGraph/UsesConvDef.v): every entry sh of the usages list of class j has j among
   `node_ids sh` and is a key of the hashcons.  It is the converse of `tb_use` (HashconsFacts.v).

   Why: `c_usages` is written only by `raw_add_to_class` (sets the hashcons key, then `ns_add`s it to
   the usages of its ids), `raw_remove_from_class` (removes the key, then `ns_remove`s it from the
   usages of its ids) and `alloc_eclass` (usages []); the hashcons is written only by the first two.
   Every other step keeps both tables (`fr`).

   Proved, all closed under the global context, with NO premise on the state nor on the arguments:
   - `uses_convb`, `uses_convb_sound`, `uses_conv_histories_checked` (after every operation of 12
     histories), `uses_conv_histories_have_usages`, `uses_convb_rejects`;
   - `uc_raw_add`, `uc_raw_remove` (the composite steps; inside them the invariant is violated),
     `uc_move_to`, `uc_shrink_slots`, `uc_union_leaders`, `uses_conv_union_internal` (any fuel),
     `uc_handle_shrink`, `uc_handle_congruence`, `uc_determine_self_symmetries`, `uc_hp_loop`,
     `uses_conv_handle_pending`, `uses_conv_rebuild` (any fuel), `uses_conv_eg_union`, `uc_alloc`,
     `uc_mk_singleton`, `uc_add_internal`, `uses_conv_eg_add`, `uses_conv_add_expr`,
     `uses_conv_run_ops`, `uses_conv_reachable`. *)
From SE Require Import Slots.SlotMapFacts Group.GroupSound Lang.LangFacts
  EGraph.Model EGraph.ModelFacts EGraph.ModelMachine EGraph.PendingFacts EGraph.UnionFindFacts
  EGraph.InvariantFacts EGraph.HashconsFacts EGraph.ProgressFacts EGraph.AddCoversFacts
  EGraph.UsesConvDef.
Require Import ZArith Lia ZifyBool ZifyN ZifyNat.

Local Notation ectr := Model.ctr.

Local Ltac neq := repeat match goal with
  | H : (_ =? _) = true |- _ => apply N.eqb_eq in H
  | H : (_ =? _) = false |- _ => apply N.eqb_neq in H
  end.

(* ------------------------------------------------------------------ *)
(* 1. executable check *)

Definition uc_entryb (s : egraph) (i : N) (sh : node) : bool :=
  in_keys (hashcons s) sh && existsb (N.eqb i) (node_ids sh).

Fixpoint ucb_go (s : egraph) (l : list eclass) (i : N) : bool :=
  match l with
  | [] => true
  | c :: t => forallb (uc_entryb s i) (c_usages c) && ucb_go s t (i + 1)
  end.
Definition uses_convb (s : egraph) : bool := ucb_go s (classes s) 0.

Lemma ucb_go_sound : forall s l i, ucb_go s l i = true ->
  forall k c sh, nth_opt l k = Some c -> In sh (c_usages c) -> uc_entryb s (i + N.of_nat k) sh = true.
Proof.
  intros s. induction l as [|c0 t IH]; intros i H k c sh Hk Hin; [destruct k; discriminate|].
  cbn [ucb_go] in H. apply andb_true_iff in H. destruct H as [H1 H2].
  destruct k as [|k]; cbn [nth_opt] in Hk.
  - inversion Hk; subst c0. replace (i + N.of_nat 0) with i by lia.
    rewrite forallb_forall in H1. apply H1. exact Hin.
  - replace (i + N.of_nat (S k)) with ((i + 1) + N.of_nat k) by lia. eapply IH; eauto.
Qed.

Theorem uses_convb_sound : forall s, uses_convb s = true -> uses_conv s.
Proof.
  intros s H j sh Hin. unfold cusages in Hin. destruct (get_class s j) as [c|] eqn:Hc; [|destruct Hin].
  unfold get_class in Hc.
  destruct (nth_opt (classes s) (N.to_nat j)) as [c'|] eqn:E; [|discriminate]. inversion Hc; subst c'.
  pose proof (ucb_go_sound s _ 0 H _ _ _ E Hin) as A. rewrite N.add_0_l, N2Nat.id in A.
  unfold uc_entryb in A. apply andb_true_iff in A. destruct A as [A1 A2]. split.
  - apply existsb_exists in A2. destruct A2 as (z & Hz & Ez). apply N.eqb_eq in Ez. subst z. exact Hz.
  - unfold in_keys in A1. destruct (na_get (hashcons s) sh) as [i|]; [exists i; reflexivity|discriminate].
Qed.

(* the check after every operation of a history *)
Fixpoint run_ucb (terms : list rterm) (ops : list hop) (hs : list appid) (s : egraph) : bool :=
  match ops with
  | [] => true
  | o :: t =>
    let r := match o with
      | HAdd k => match nth_opt terms k with None => Err OutOfBounds
                  | Some tm => match add_expr tm s with Ok (a, s') => Ok (hs ++ [a], s') | Err e => Err e end end
      | HUnion i j _ => match nth_opt hs i, nth_opt hs j with
                  | Some a, Some b => match eg_union a b s with Ok (_, s') => Ok (hs, s') | Err e => Err e end
                  | _, _ => Err OutOfBounds end
      end in
    match r with
    | Err e => false
    | Ok (hs', s') => uses_convb s' && run_ucb terms t hs' s'
    end
  end.

Example uses_conv_histories_checked :
  map (fun p => run_ucb (fst p) (snd p) [] empty_egraph)
    [(xT1, xO1); (xT2, xO2); (xT3, xO3); (xT4, xO4); (xT5, xO5); (xT6, xO6);
     (yT7, yO7); (yT8, yO8); (yT9, yO9); (yT10, yO10); (yT11, yO11); (yT12, yO12)]
  = [true; true; true; true; true; true; true; true; true; true; true; true].
Proof. vm_compute. reflexivity. Qed.

(* the check is not vacuous: the usages lists of the final states are not all empty *)
Definition usage_count (ts : list rterm) (os : list hop) : option nat :=
  match run_ops ts os [] empty_egraph with
  | Ok (_, s) => Some (List.length (flat_map c_usages (classes s)))
  | Err _ => None
  end.
Example uses_conv_histories_have_usages :
  forallb (fun p => match usage_count (fst p) (snd p) with Some (S _) => true | _ => false end)
    [(xT1, xO1); (xT2, xO2); (xT3, xO3); (xT4, xO4); (xT5, xO5); (xT6, xO6);
     (yT7, yO7); (yT8, yO8); (yT9, yO9); (yT10, yO10); (yT11, yO11); (yT12, yO12)] = true.
Proof. vm_compute. reflexivity. Qed.

(* a usages entry that is no key of the hashcons (the state inside raw_remove_from_class, between the
   hashcons removal and the usages removal) is rejected; so is an entry that does not mention the class *)
Definition rej_class : eclass :=
  {| c_nodes := []; c_slots := []; c_usages := [{| nvar := 3; nargs := [] |}];
     c_group := Grp [] None; c_syn := {| nvar := 5; nargs := [] |} |}.
Example uses_convb_rejects :
  (uses_convb {| unionfind := [{| aid := 0; am := [] |}]; classes := [rej_class];
                 hashcons := []; pending := []; Model.ctr := 1 |} = false) /\
  (uses_convb {| unionfind := [{| aid := 0; am := [] |}]; classes := [rej_class];
                 hashcons := [({| nvar := 3; nargs := [] |}, 0)]; pending := []; Model.ctr := 1 |} = false).
Proof. vm_compute. split; reflexivity. Qed.

(* ------------------------------------------------------------------ *)
(* 2. steps that keep the hashcons and every usages list *)

Definition fr (s s' : egraph) : Prop :=
  hashcons s' = hashcons s /\ forall j, cusages s' j = cusages s j.

Lemma fr_refl : forall s, fr s s.
Proof. intros s. split; auto. Qed.
Lemma fr_trans : forall a b c, fr a b -> fr b c -> fr a c.
Proof. intros a b c [A1 A2] [B1 B2]. split; [congruence|intros j; rewrite B2; apply A2]. Qed.

Lemma uc_fr : forall s s', fr s s' -> uses_conv s -> uses_conv s'.
Proof. intros s s' [A B] H j sh Hin. rewrite B in Hin. rewrite A. apply H. exact Hin. Qed.

Lemma fr_same_tabs : forall s s', same_tabs s s' -> fr s s'.
Proof. intros s s' (A & _ & C). split; assumption. Qed.

Lemma fr_mod_at : forall i s s', mod_at i s s' -> fr s s'.
Proof. intros i s s' (T & _). apply fr_same_tabs. exact T. Qed.

Lemma fr_ctr_only : forall s s', ctr_only s s' -> fr s s'.
Proof. intros s s' [c ->]. split; reflexivity. Qed.

Lemma fr_with_ctr : forall A (f : N -> A * N) s x s', with_ctr f s = Ok (x, s') -> fr s s'.
Proof. intros A f s x s' H. apply fr_ctr_only. eapply with_ctr_only; eauto. Qed.

Lemma fr_fill_fresh : forall l m s m' s', fill_fresh l m s = Ok (m', s') -> fr s s'.
Proof.
  intros l m s m' s' H. apply fr_ctr_only.
  apply (pres_fill_fresh ctr_only ctr_only_refl ctr_only_trans) in H; [assumption|].
  intros s0 x s0' H0. inversion H0. eexists; reflexivity.
Qed.

Lemma fr_pc_congruence : forall a b s x s', pc_congruence a b s = Ok (x, s') -> fr s s'.
Proof.
  intros a b s x s' H. apply fr_ctr_only.
  apply (pres_pc_congruence ctr_only ctr_only_refl ctr_only_trans) in H; [assumption| |];
    intros; intros s0 y s0' H0; eapply with_ctr_only; eauto.
Qed.

Lemma fr_synify_app_id : forall a s x s', synify_app_id a s = Ok (x, s') -> fr s s'.
Proof.
  intros a s x s' H. apply fr_ctr_only.
  apply (pres_synify_app_id ctr_only ctr_only_refl ctr_only_trans) in H; [assumption|].
  intros s0 y s0' H0. inversion H0. eexists; reflexivity.
Qed.

Lemma fr_synify_enode : forall n s x s', synify_enode n s = Ok (x, s') -> fr s s'.
Proof.
  intros n s x s' H. apply fr_ctr_only.
  apply (pres_synify_enode ctr_only ctr_only_refl ctr_only_trans) in H; [assumption|].
  intros s0 y s0' H0. inversion H0. eexists; reflexivity.
Qed.

Lemma fr_set_pending : forall s p, fr s (set_pending s p).
Proof. intros s p. split; reflexivity. Qed.

Lemma fr_pending_insert : forall sh ty s x s', pending_insert sh ty s = Ok (x, s') -> fr s s'.
Proof. intros sh ty s x s' H. inversion H. apply fr_set_pending. Qed.

Lemma fr_touched_class : forall i s x s', touched_class i true s = Ok (x, s') -> fr s s'.
Proof.
  intros i s x s' H. unfold touched_class in H.
  apply bind_reads_inv in H. destruct H as (c & Hc & H).
  destruct (touch_list_spec _ _ _ _ H) as (p' & -> & _). apply fr_set_pending.
Qed.

Lemma fr_upd_class : forall i f s x s', (forall c, c_usages (f c) = c_usages c) ->
  upd_class i f s = Ok (x, s') -> fr s s'.
Proof.
  intros i f s x s' Hf H. destruct (upd_class_views _ _ _ _ _ H) as (c & Hc & Hc' & Ho & _ & Hh & _).
  split; [exact Hh|].
  intros j. unfold cusages. destruct (N.eq_dec j i) as [->|Hj]; [rewrite Hc, Hc'; apply Hf|rewrite (Ho j Hj); reflexivity].
Qed.

Lemma fr_ufset : forall i p s x s', unionfind_set i p s = Ok (x, s') -> fr s s'.
Proof. intros i p s x s' H. eapply fr_mod_at. eapply unionfind_set_mod_at; eauto. Qed.

(* ------------------------------------------------------------------ *)
(* 3. the usage updates: where does an entry of the final lists come from *)

Lemma usages_iter_conv : forall (F : list node -> list node) (R Q : node -> Prop),
  (forall u y, In y (F u) -> (In y u /\ R y) \/ Q y) ->
  forall l s x s',
  iterM (fun r => upd_class r (fun c => with_usages c (F (c_usages c)))) l s = Ok (x, s') ->
  hashcons s' = hashcons s /\
  (forall j y, In y (cusages s' j) -> (In y (cusages s j) /\ (In j l -> R y)) \/ (In j l /\ Q y)).
Proof.
  intros F R Q HF. induction l as [|r t IH]; intros s x s' H; cbn [iterM] in H.
  - inversion H; subst x s'. split; [reflexivity|]. intros j y Hy. left. split; [exact Hy|intros []].
  - apply mbind_inv in H. destruct H as (u & s1 & H1 & H).
    destruct (upd_class_views _ _ _ _ _ H1) as (c & Hc & Hc' & Ho & _ & Hh1 & _).
    destruct (IH _ _ _ H) as (Hh & Cv).
    split; [congruence|]. intros j y Hy.
    destruct (Cv j y Hy) as [[Hy1 Rt]|[Jt Qy]]; [|right; split; [right; exact Jt|exact Qy]].
    destruct (N.eq_dec j r) as [->|Hj].
    + unfold cusages in Hy1. rewrite Hc' in Hy1. cbn [c_usages with_usages] in Hy1.
      destruct (HF _ _ Hy1) as [[Hy0 Ry]|Qy].
      * left. split; [unfold cusages; rewrite Hc; exact Hy0|intros _; exact Ry].
      * right. split; [left; reflexivity|exact Qy].
    + left. split.
      * unfold cusages in *. rewrite (Ho j Hj) in Hy1. exact Hy1.
      * intros [E|Jt]; [exfalso; apply Hj; symmetry; exact E|apply Rt; exact Jt].
Qed.

Lemma uc_raw_add : forall id sh bij src s x s', raw_add_to_class id (sh, bij) src s = Ok (x, s') ->
  uses_conv s -> uses_conv s'.
Proof.
  intros id sh bij src s x s' H Hs. unfold raw_add_to_class in H.
  apply mbind_inv in H. destruct H as (u1 & s1 & H1 & H).
  assert (F1 : fr s s1) by (eapply fr_upd_class; [|exact H1]; intros c; reflexivity).
  destruct F1 as [Hh1 Hu1].
  apply mbind_inv in H. destruct H as (u2 & s2 & H2 & H). inversion H2; subst u2 s2; clear H2.
  apply (usages_iter_conv (fun u => ns_add u sh) (fun _ => True) (fun y => y = sh)) in H.
  2:{ intros u y Hy. apply ns_add_in in Hy. destruct Hy as [E|Hy]; [right; exact E|left; split; [exact Hy|exact I]]. }
  destruct H as (Hh & Cv). cbn [hashcons set_hashcons] in Hh.
  assert (G : forall j, cusages (set_hashcons s1 (na_set (hashcons s1) sh id)) j = cusages s j).
  { intros j. rewrite <- Hu1. reflexivity. }
  intros j y Hy. rewrite Hh, Hh1.
  destruct (Cv j y Hy) as [[Hy0 _]|[Jl ->]].
  - rewrite G in Hy0. destruct (Hs j y Hy0) as (Jy & i & Hi). split; [exact Jy|].
    destruct (node_dec y sh) as [->|Ne].
    + exists id. apply na_get_set_same.
    + exists i. rewrite na_get_set_other by exact Ne. exact Hi.
  - split; [exact Jl|]. exists id. apply na_get_set_same.
Qed.

Lemma uc_raw_remove : forall id sh s p s', raw_remove_from_class id sh s = Ok (p, s') ->
  uses_conv s -> uses_conv s'.
Proof.
  intros id sh s p s' H Hs. unfold raw_remove_from_class in H.
  apply bind_reads_inv in H. destruct H as (c0 & Hc0 & H).
  apply mbind_inv in H. destruct H as (u1 & s1 & H1 & H).
  assert (F1 : fr s s1) by (eapply fr_upd_class; [|exact H1]; intros c; reflexivity).
  destruct F1 as [Hh1 Hu1].
  apply mbind_inv in H. destruct H as (u2 & s2 & H2 & H). inversion H2; subst u2 s2; clear H2.
  apply mbind_inv in H. destruct H as (u3 & s3 & H3 & H).
  destruct (na_get (c_nodes c0) sh) as [q|]; [|discriminate]. inversion H; subst q s3; clear H.
  apply (usages_iter_conv (fun u => ns_remove u sh) (fun y => y <> sh) (fun _ => False)) in H3.
  2:{ intros u y Hy. apply ns_remove_in in Hy. destruct Hy as [Ne Hy]. left. split; assumption. }
  destruct H3 as (Hh & Cv). cbn [hashcons set_hashcons] in Hh.
  assert (G : forall j, cusages (set_hashcons s1 (na_remove (hashcons s1) sh)) j = cusages s j).
  { intros j. rewrite <- Hu1. reflexivity. }
  intros j y Hy. rewrite Hh, Hh1.
  destruct (Cv j y Hy) as [[Hy0 Rn]|[_ []]].
  rewrite G in Hy0. destruct (Hs j y Hy0) as (Jy & i & Hi). split; [exact Jy|].
  assert (Ne : y <> sh).
  { intros E. subst y. exact (Rn Jy eq_refl). }
  exists i. rewrite na_get_remove_other by exact Ne. exact Hi.
Qed.

(* ------------------------------------------------------------------ *)
(* 4. move_to *)

Lemma uc_move_loop : forall idf idt mi l s x s',
  iterM (fun e : node * (slotmap * N) =>
           let '(sh, (bij, src_id)) := e in
           dom _ <- raw_remove_from_class idf sh;
           dom new_bij <- with_ctr (compose_fresh bij mi);
           dom _ <- raw_add_to_class idt (sh, new_bij) src_id;
           pending_insert sh true) l s = Ok (x, s') ->
  uses_conv s -> uses_conv s'.
Proof.
  intros idf idt mi. induction l as [|[sh [bij src]] t IH]; intros s x s' H Hs; cbn [iterM] in H.
  - inversion H; subst. exact Hs.
  - apply mbind_inv in H. destruct H as (u & s4 & H1 & H).
    apply mbind_inv in H1. destruct H1 as (p & s1 & Hr & H1).
    apply mbind_inv in H1. destruct H1 as (nb & s2 & Hc & H1).
    apply mbind_inv in H1. destruct H1 as (u3 & s3 & Ha & H1).
    eapply IH; [exact H|].
    eapply uc_fr; [eapply fr_pending_insert; exact H1|].
    eapply uc_raw_add; [exact Ha|].
    eapply uc_fr; [eapply fr_with_ctr; exact Hc|].
    eapply uc_raw_remove; [exact Hr|exact Hs].
Qed.

Lemma uc_move_to : forall from to s x s', uses_conv s -> move_to from to s = Ok (x, s') -> uses_conv s'.
Proof.
  intros from to s x s' Hs H. unfold move_to in H. cbv zeta in H.
  apply mbind_inv in H. destruct H as (u1 & s1 & H1 & H).
  pose proof (uc_fr _ _ (fr_ufset _ _ _ _ _ H1) Hs) as I1.
  apply bind_reads_inv in H. destruct H as (cf & Hcf & H).
  apply mbind_inv in H. destruct H as (u2 & s2 & H2 & H).
  pose proof (uc_move_loop _ _ _ _ _ _ _ H2 I1) as I2.
  apply bind_reads_inv in H. destruct H as (cf2 & Hcf2 & H).
  apply bind_reads_inv in H. destruct H as (ct & Hct & H).
  apply mbind_inv in H. destruct H as ([g' fl] & s3 & H3 & H). apply lift_inv in H3. destruct H3 as [H3 ->].
  apply mbind_inv in H. destruct H as (u4 & s4 & H4 & H). cbn [fst snd] in *.
  apply mbind_inv in H. destruct H as (u5 & s5 & H5 & H).
  eapply uc_fr; [eapply fr_touched_class; exact H|].
  assert (I4 : uses_conv s4).
  { eapply uc_fr; [eapply fr_upd_class; [|exact H4]; intros c0; reflexivity|exact I2]. }
  destruct fl.
  - eapply uc_fr; [eapply fr_touched_class; exact H5|exact I4].
  - inversion H5; subst. exact I4.
Qed.

(* ------------------------------------------------------------------ *)
(* 5. unions *)

Definition ui_specU (ui : appid -> appid -> M bool) : Prop :=
  forall l r s b s', uses_conv s -> ui l r s = Ok (b, s') -> uses_conv s'.

Section UiU.
  Variable ui : appid -> appid -> M bool.
  Hypothesis HU : ui_specU ui.

  Lemma uc_shrink_slots : forall from cap s x s', uses_conv s -> shrink_slots ui from cap s = Ok (x, s') -> uses_conv s'.
  Proof.
    intros from cap s x s' Hs H. unfold shrink_slots in H. cbv zeta in H.
    apply mbind_inv in H. destruct H as (oc & s0 & H0 & H). apply lift_inv in H0. destruct H0 as [_ ->].
    apply mbind_inv in H. destruct H as (u1 & s1 & H1 & H).
    unfold record_redundancy_witness in H1. apply bind_reads_inv in H1. destruct H1 as (ss & _ & H1).
    pose proof (uc_fr _ _ (fr_ufset _ _ _ _ _ H1) Hs) as I1.
    apply bind_reads_inv in H. destruct H as (c & Hc & H).
    apply mbind_inv in H. destruct H as (flags & s0 & H0 & H). apply lift_inv in H0. destruct H0 as [_ ->].
    apply mbind_inv in H. destruct H as (g & s0 & H0 & H). apply lift_inv in H0. destruct H0 as [_ ->].
    apply mbind_inv in H. destruct H as (u2 & s2 & H2 & H).
    assert (I2 : uses_conv s2).
    { eapply uc_fr; [eapply fr_upd_class; [|exact H2]; intros c0; reflexivity|exact I1]. }
    apply mbind_inv in H. destruct H as (u3 & s3 & H3 & H).
    pose proof (uc_fr _ _ (fr_touched_class _ _ _ _ H3) I2) as I3.
    clear - HU H I3. revert s3 x s' H I3.
    match goal with |- forall s3 x s', iterM ?f ?l s3 = _ -> _ => generalize l end.
    induction l as [|pp t IH]; intros s3 x s' H I3; cbn [iterM] in H.
    - inversion H; subst. assumption.
    - apply mbind_inv in H. destruct H as (u & s4 & H4 & H). eapply IH; [exact H|]. clear H IH.
      apply bind_reads_inv in H4. destruct H4 as (sl & _ & H4).
      apply mbind_inv in H4. destruct H4 as (ps & s0 & H0 & H4). apply lift_inv in H0. destruct H0 as [_ ->].
      apply mbind_inv in H4. destruct H4 as (b & s5 & H5 & H4). inversion H4; subst u s5.
      eapply HU; eauto.
  Qed.

  Lemma uc_union_leaders : forall l r s b s', uses_conv s -> union_leaders ui l r s = Ok (b, s') -> uses_conv s'.
  Proof.
    intros l r s b s' Hs H. unfold union_leaders in H.
    apply bind_reads_inv in H. destruct H as (e & _ & H). destruct e; [inversion H; subst; assumption|].
    cbv zeta in H.
    destruct (negb (sset_eqb (values (am l)) _)).
    { apply mbind_inv in H. destruct H as (u1 & s1 & H1 & H).
      apply mbind_inv in H. destruct H as (u2 & s2 & H2 & H). inversion H; subst b s2.
      eapply HU; [|exact H2]. eapply uc_shrink_slots; eauto. }
    destruct (negb (sset_eqb (values (am r)) _)).
    { apply mbind_inv in H. destruct H as (u1 & s1 & H1 & H).
      apply mbind_inv in H. destruct H as (u2 & s2 & H2 & H). inversion H; subst b s2.
      eapply HU; [|exact H2]. eapply uc_shrink_slots; eauto. }
    destruct (aid l =? aid r) eqn:E; neq.
    - apply bind_reads_inv in H. destruct H as (c & Hc & H).
      apply mbind_inv in H. destruct H as (bb & s0 & H0 & H). apply lift_inv in H0. destruct H0 as [_ ->].
      destruct bb; [inversion H; subst; assumption|].
      apply mbind_inv in H. destruct H as (g & s0 & H0 & H). apply lift_inv in H0. destruct H0 as [_ ->].
      apply mbind_inv in H. destruct H as (u2 & s2 & H2 & H).
      apply mbind_inv in H. destruct H as (u3 & s3 & H3 & H). inversion H; subst b s3.
      eapply uc_fr; [eapply fr_touched_class; exact H3|].
      eapply uc_fr; [eapply fr_upd_class; [|exact H2]; intros c0; reflexivity|exact Hs].
    - apply bind_reads_inv in H. destruct H as (cl & _ & H).
      apply bind_reads_inv in H. destruct H as (cr & _ & H).
      apply mbind_inv in H. destruct H as (u1 & s1 & H1 & H). inversion H; subst b s1.
      match type of H1 with (if ?c then _ else _) _ = _ => destruct c end.
      + eapply uc_move_to; [exact Hs|exact H1].
      + eapply uc_move_to; [exact Hs|exact H1].
  Qed.

  Lemma uc_union_internal_body : ui_specU (union_internal_body ui).
  Proof.
    intros l r s b s' Hs H. unfold union_internal_body in H.
    apply bind_reads_inv in H. destruct H as (l1 & Hl & H).
    apply bind_reads_inv in H. destruct H as (r1 & Hr & H).
    eapply uc_union_leaders; [exact Hs|exact H].
  Qed.
End UiU.

Theorem uc_union_internal : forall fuel, ui_specU (union_internal fuel).
Proof.
  induction fuel as [|f IH]; intros l r s b s' Hs H; [discriminate H|].
  rewrite union_internal_S in H. eapply uc_union_internal_body; eauto.
Qed.

Corollary uc_uint : ui_specU uint.
Proof. exact (uc_union_internal ui_fuel). Qed.

(* ------------------------------------------------------------------ *)
(* 6. rebuild *)

Lemma uc_handle_shrink : forall src s x s', uses_conv s -> handle_shrink_in_upwards_merge src s = Ok (x, s') -> uses_conv s'.
Proof.
  intros src s x s' Hs H. unfold handle_shrink_in_upwards_merge in H.
  apply bind_reads_inv in H. destruct H as (pc1 & _ & H).
  apply bind_reads_inv in H. destruct H as (n2 & _ & H).
  apply mbind_inv in H. destruct H as ([a b] & s1 & H1 & H).
  eapply (uc_shrink_slots uint uc_uint); [|exact H]. eapply uc_fr; [eapply fr_pc_congruence; exact H1|exact Hs].
Qed.

Lemma uc_handle_congruence : forall pc1 s x s', uses_conv s -> handle_congruence pc1 s = Ok (x, s') -> uses_conv s'.
Proof.
  intros pc1 s x s' Hs H. unfold handle_congruence in H.
  apply bind_reads_inv in H. destruct H as (sh & _ & H).
  apply bind_reads_inv in H. destruct H as (pc2 & _ & H).
  apply mbind_inv in H. destruct H as (ab & s1 & H1 & H).
  apply mbind_inv in H. destruct H as (b & s2 & H2 & H). inversion H; subst x s2; clear H.
  eapply uc_uint; [|exact H2]. eapply uc_fr; [eapply fr_pc_congruence; exact H1|exact Hs].
Qed.

Lemma uc_determine_self_symmetries : forall src s x s', uses_conv s -> determine_self_symmetries src s = Ok (x, s') -> uses_conv s'.
Proof.
  intros src s x s' Hs H. unfold determine_self_symmetries in H.
  apply bind_reads_inv in H. destruct H as (pc1 & _ & H).
  apply mbind_inv in H. destruct H as (w & s0 & Hw & H). apply lift_inv in Hw. destruct Hw as [_ ->].
  cbv zeta in H. apply bind_reads_inv in H. destruct H as (vs & _ & H).
  revert s x s' H Hs. induction vs as [|pn2 t IH]; intros s x s' H Hs; cbn [iterM] in H.
  - inversion H; subst. assumption.
  - apply mbind_inv in H. destruct H as (u & s2 & H1 & H). eapply IH; [exact H|]. clear H IH.
    apply mbind_inv in H1. destruct H1 as (w2 & s0 & Hw2 & H1). apply lift_inv in Hw2. destruct Hw2 as [_ ->].
    destruct (node_eqb (fst w) (fst w2)); [|inversion H1; subst; assumption].
    apply mbind_inv in H1. destruct H1 as (ab & s3 & H3 & H1).
    apply mbind_inv in H1. destruct H1 as (b & s4 & H4 & H1). inversion H1; subst u s4; clear H1.
    eapply uc_uint; [|exact H4]. eapply uc_fr; [eapply fr_pc_congruence; exact H3|exact Hs].
Qed.

Lemma uc_hp_loop : forall fuel src enode i s r s', uses_conv s ->
  hp_loop fuel src enode i s = Ok (r, s') -> uses_conv s'.
Proof.
  induction fuel as [|f IH]; intros src enode i s r s' Hs H; cbn [hp_loop] in H; [discriminate|].
  destruct (sset_subset (values (am i)) (slots enode)).
  - inversion H; subst. assumption.
  - apply mbind_inv in H. destruct H as (u & s1 & H1 & H).
    apply bind_reads_inv in H. destruct H as (enode' & _ & H).
    apply bind_reads_inv in H. destruct H as (i' & Hi' & H).
    eapply IH; [|exact H]. eapply uc_handle_shrink; eauto.
Qed.

Theorem uc_handle_pending : forall sh ty s x s', uses_conv s -> handle_pending sh ty s = Ok (x, s') -> uses_conv s'.
Proof.
  intros sh ty s x s' Hs H. unfold handle_pending in H.
  apply bind_reads_inv in H. destruct H as (i & _ & H).
  destruct ty; cbn [negb] in H.
  2:{ inversion H; subst. exact Hs. }
  apply bind_reads_inv in H. destruct H as (c & Hc & H).
  apply mbind_inv in H. destruct H as ([bij0 src_id] & s0 & Hp & H). apply lift_inv in Hp. destruct Hp as [_ ->].
  apply mbind_inv in H. destruct H as (nd & s0 & Hnd & H). apply lift_inv in Hnd. destruct Hnd as [Hnd ->].
  apply mbind_inv in H. destruct H as (u1 & sA & HA & H).
  pose proof (uc_raw_remove _ _ _ _ _ HA Hs) as IA.
  apply bind_reads_inv in H. destruct H as (sl & Hsl & H). cbv zeta in H.
  apply bind_reads_inv in H. destruct H as (enode0 & Hen & H).
  apply bind_reads_inv in H. destruct H as (i0 & Hi0 & H).
  apply mbind_inv in H. destruct H as ([enode i1] & sB & HB & H).
  pose proof (uc_hp_loop _ _ _ _ _ _ _ IA HB) as IB.
  apply bind_reads_inv in H. destruct H as (t & Ht & H).
  apply bind_reads_inv in H. destruct H as (lk & Hlk & H).
  destruct lk as [hit|].
  - apply bind_reads_inv in H. destruct H as (pc & P & H). eapply uc_handle_congruence; eauto.
  - destruct t as [sh' bij].
    apply mbind_inv in H. destruct H as (m & sC & Hm & H).
    change (fill_fresh (values bij) (inverse_nocheck (am i1)) sB = Ok (m, sC)) in Hm. cbv zeta in H.
    apply mbind_inv in H. destruct H as (u2 & sD & HD & H).
    pose proof (fr_fill_fresh _ _ _ _ _ Hm) as FC.
    eapply uc_determine_self_symmetries; [|exact H].
    eapply uc_raw_add; [exact HD|]. eapply uc_fr; [exact FC|exact IB].
Qed.

Theorem uc_rebuild : forall fuel s x s', uses_conv s -> rebuild fuel s = Ok (x, s') -> uses_conv s'.
Proof.
  induction fuel as [|f IH]; intros s x s' Hs H; [discriminate H|]. rewrite rebuild_S in H.
  apply mbind_inv in H. destruct H as (p & s0 & Hp & H). inversion Hp; subst p s0; clear Hp.
  destruct (pending s) as [|[sh ty] rest] eqn:Ep; [inversion H; subst; assumption|].
  apply mbind_inv in H. destruct H as (u1 & s1 & H1 & H).
  apply mbind_inv in H. destruct H as (u2 & s2 & H2 & H).
  inversion H1; subst u1 s1; clear H1.
  eapply IH; [|exact H]. eapply uc_handle_pending; [|exact H2].
  eapply uc_fr; [apply fr_set_pending|exact Hs].
Qed.

Theorem uc_eg_union : forall l r s b s', uses_conv s -> eg_union l r s = Ok (b, s') -> uses_conv s'.
Proof.
  intros l r s b s' Hs H. unfold eg_union in H.
  apply mbind_inv in H. destruct H as (l1 & s1 & H1 & H).
  apply mbind_inv in H. destruct H as (r1 & s2 & H2 & H).
  apply mbind_inv in H. destruct H as (out & s3 & H3 & H).
  apply mbind_inv in H. destruct H as (u & s4 & H4 & H). inversion H; subst b s4; clear H.
  eapply uc_rebuild; [|exact H4]. eapply uc_uint; [|exact H3].
  eapply uc_fr; [eapply fr_synify_app_id; exact H2|]. eapply uc_fr; [eapply fr_synify_app_id; exact H1|exact Hs].
Qed.

(* ------------------------------------------------------------------ *)
(* 7. insertion *)

Lemma uc_alloc : forall sl syn s i s', alloc_eclass sl syn s = Ok (i, s') -> uses_conv s -> uses_conv s'.
Proof.
  intros sl syn s i s' H Hs.
  destruct (alloc_eclass_exact _ _ _ _ _ H) as (Hi & U & C & Hh & _).
  set (cn := {| c_nodes := []; c_slots := sl; c_usages := []; c_group := Grp (identity sl) None; c_syn := syn |}) in *.
  intros j sh Hin. rewrite Hh. unfold cusages in Hin.
  destruct (get_class s' j) as [c|] eqn:E; [|destruct Hin].
  destruct (get_class_ext_inv s s' cn C j c E) as [A|[_ ->]].
  - apply Hs. unfold cusages. rewrite A. exact Hin.
  - destruct Hin.
Qed.

Lemma uc_mk_singleton : forall en s a s', uses_conv s -> mk_singleton_class en s = Ok (a, s') -> uses_conv s'.
Proof.
  intros en s a s' Hs H. unfold mk_singleton_class in H. cbv zeta in H.
  apply mbind_inv in H. destruct H as (f2o & s1 & H1 & H).
  apply mbind_inv in H. destruct H as (synf & s2 & H2 & H).
  apply mbind_inv in H. destruct H as (i & s3 & H3 & H).
  apply mbind_inv in H. destruct H as ([sh bij] & s0 & Hw & H). apply lift_inv in Hw. destruct Hw as [_ ->].
  apply mbind_inv in H. destruct H as (u4 & s4 & H4 & H).
  apply mbind_inv in H. destruct H as (u5 & s5 & H5 & H).
  apply mbind_inv in H. destruct H as (u6 & s6 & H6 & H). inversion H; subst a s6; clear H.
  assert (I2 : uses_conv s2).
  { eapply uc_fr; [eapply fr_with_ctr; exact H2|]. eapply uc_fr; [eapply fr_with_ctr; exact H1|exact Hs]. }
  pose proof (uc_alloc _ _ _ _ _ H3 I2) as I3.
  pose proof (uc_raw_add _ _ _ _ _ _ _ H4 I3) as I4.
  eapply uc_rebuild; [|exact H6]. eapply uc_fr; [eapply fr_pending_insert; exact H5|exact I4].
Qed.

Lemma uc_add_internal : forall t s a s', uses_conv s -> add_internal t s = Ok (a, s') -> uses_conv s'.
Proof.
  intros t s a s' Hs H. unfold add_internal in H.
  apply bind_reads_inv in H. destruct H as (lk & Hlk & H).
  destruct lk as [hit|]; [inversion H; subst; assumption|].
  apply mbind_inv in H. destruct H as (en1 & s1 & H1 & H).
  destruct (refresh_private (fst t) (ectr s)) as [[r|e] c1] eqn:RP; [|discriminate]. inversion H1; subst r s1; clear H1.
  apply mbind_inv in H. destruct H as (en2 & s2 & H2 & H). apply lift_inv in H2. destruct H2 as [H2 ->].
  apply mbind_inv in H. destruct H as (en3 & s3 & H3 & H).
  apply mbind_inv in H. destruct H as (syn & s4 & H4 & H).
  apply reads_state in H. subst s'.
  eapply uc_mk_singleton; [|exact H4]. eapply uc_fr; [eapply fr_synify_enode; exact H3|].
  eapply uc_fr; [apply fr_ctr_only; eexists; reflexivity|exact Hs].
Qed.

Lemma uc_eg_add : forall n s a s', uses_conv s -> eg_add n s = Ok (a, s') -> uses_conv s'.
Proof.
  intros n s a s' Hs H. unfold eg_add in H. apply bind_reads_inv in H. destruct H as (t & Ht & H).
  eapply uc_add_internal; eauto.
Qed.

Lemma uc_add_expr : forall t s a s', uses_conv s -> add_expr t s = Ok (a, s') -> uses_conv s'.
Proof.
  fix IH 1. intros [n ch] s a s' Hs H. cbn [add_expr] in H.
  apply mbind_inv in H. destruct H as (l & s1 & Hgo & H).
  assert (Hs1 : uses_conv s1).
  { clear H. revert s l s1 Hs Hgo. induction ch as [|c r IHr]; intros s l s1 Hs Hgo.
    - unfold ret in Hgo. injection Hgo as _ E. subst s1. exact Hs.
    - apply mbind_inv in Hgo. destruct Hgo as (a0 & s2 & Ha & Hgo).
      apply mbind_inv in Hgo. destruct Hgo as (r' & s3 & Hr & Hgo).
      unfold ret in Hgo. injection Hgo as _ E. subst s1.
      eapply IHr; [|exact Hr]. eapply IH; eassumption. }
  destruct (Nat.ltb (List.length (app_occ n)) (List.length l)); [discriminate H|].
  eapply uc_eg_add; eassumption.
Qed.

Lemma uc_run_ops : forall terms ops hs0 s hs s', uses_conv s -> run_ops terms ops hs0 s = Ok (hs, s') -> uses_conv s'.
Proof.
  intros terms ops. induction ops as [|o t IHo]; intros hs0 s hs s' Hp H; cbn [run_ops] in H.
  - unfold ret in H. injection H as _ E. subst s'. exact Hp.
  - destruct o as [k|i j jj].
    + destruct (nth_opt terms k) as [tm|]; [|discriminate H].
      apply mbind_inv in H. destruct H as (a & s1 & Ha & H).
      eapply IHo; [|exact H]. eapply uc_add_expr; eassumption.
    + destruct (nth_opt hs0 i) as [a|]; [|discriminate H].
      destruct (nth_opt hs0 j) as [b|]; [|discriminate H].
      apply mbind_inv in H. destruct H as (u & s1 & Hu & H).
      eapply IHo; [|exact H]. eapply uc_eg_union; eassumption.
Qed.

(* ------------------------------------------------------------------ *)
(* 8. the theorems *)

Theorem uses_conv_union_internal : forall fuel l r s b s', uses_conv s -> union_internal fuel l r s = Ok (b, s') -> uses_conv s'.
Proof. intros fuel l r s b s' Hs H. eapply uc_union_internal; eauto. Qed.

Theorem uses_conv_handle_pending : forall sh ty s x s', uses_conv s -> handle_pending sh ty s = Ok (x, s') -> uses_conv s'.
Proof. exact uc_handle_pending. Qed.

Theorem uses_conv_rebuild : forall fuel s x s', uses_conv s -> rebuild fuel s = Ok (x, s') -> uses_conv s'.
Proof. exact uc_rebuild. Qed.

Theorem uses_conv_eg_union : forall l r s b s', uses_conv s -> eg_union l r s = Ok (b, s') -> uses_conv s'.
Proof. exact uc_eg_union. Qed.

Theorem uses_conv_eg_add : forall n s a s', uses_conv s -> eg_add n s = Ok (a, s') -> uses_conv s'.
Proof. exact uc_eg_add. Qed.

Theorem uses_conv_add_expr : forall t s a s', uses_conv s -> add_expr t s = Ok (a, s') -> uses_conv s'.
Proof. exact uc_add_expr. Qed.

Lemma uses_conv_empty : uses_conv empty_egraph.
Proof.
  intros j sh Hin. unfold cusages, get_class in Hin. cbn [classes empty_egraph] in Hin.
  destruct (N.to_nat j); destruct Hin.
Qed.

Theorem uses_conv_run_ops : forall terms ops hs0 s hs s', uses_conv s -> run_ops terms ops hs0 s = Ok (hs, s') -> uses_conv s'.
Proof. exact uc_run_ops. Qed.

Theorem uses_conv_reachable : forall terms ops hs s, run_ops terms ops [] empty_egraph = Ok (hs, s) -> uses_conv s.
Proof. intros terms ops hs s H. eapply uses_conv_run_ops; [exact uses_conv_empty|exact H]. Qed.

(* ------------------------------------------------------------------ *)
Print Assumptions uses_convb_sound.
Print Assumptions uses_conv_histories_checked.
Print Assumptions uses_conv_histories_have_usages.
Print Assumptions uses_convb_rejects.
Print Assumptions uses_conv_union_internal.
Print Assumptions uses_conv_handle_pending.
Print Assumptions uses_conv_rebuild.
Print Assumptions uses_conv_eg_union.
Print Assumptions uses_conv_add_expr.
Print Assumptions uses_conv_run_ops.
Print Assumptions uses_conv_reachable.
