(* EGraph/UsesConvDef.v — the converse of `tb_use` (HashconsFacts.v): every entry of a usages list is a key of the
   hashcons and mentions the class.  Definition + executable form only; reachability: EGraph/UsesConv.v. *)
From SE Require Import EGraph.Model EGraph.ModelFacts EGraph.HashconsFacts.
Require Import ZArith List. Import ListNotations.

Definition uses_conv (s : egraph) : Prop :=
  forall j sh, In sh (cusages s j) -> In j (node_ids sh) /\ exists i, na_get (hashcons s) sh = Some i.
