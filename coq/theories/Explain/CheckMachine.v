(* Explain/CheckMachine.v — run the verified proof checker on explanations exported by the
   implementation.  Input: (chk (terms ...) (ops ...) (expl (i j (proof (pn L R step) ...)) ...)).
   Output: (chk (i j ok) | (i j (rejected k)) | (i j bad-input) ...). *)
From SE Require Export Explain.Checker Sem.EgMachine.

Definition dec_idx (e : sexp) : option nat := match e with Num n => Some (N.to_nat n) | _ => None end.
Fixpoint dec_idxs (l : list sexp) : option (list nat) :=
  match l with
  | [] => Some []
  | e :: t => match dec_idx e, dec_idxs t with Some i, Some r => Some (i :: r) | _, _ => None end
  end.

Definition dec_step (e : sexp) : option pstep :=
  match e with
  | Lst [Sym "explicit"] => Some (PExplicit None)
  | Lst [Sym "explicit"; t] => match dec_text_sexp t with Some t => Some (PExplicit (Some t)) | None => None end
  | Lst [Sym "refl"] => Some PRefl
  | Lst [Sym "sym"; Num p] => Some (PSymm (N.to_nat p))
  | Lst [Sym "trans"; Num p; Num q] => Some (PTrans (N.to_nat p) (N.to_nat q))
  | Lst (Sym "cong" :: ps) => match dec_idxs ps with Some l => Some (PCong l) | None => None end
  | _ => None
  end.

Definition dec_pnode (e : sexp) : option pnode :=
  match e with
  | Lst [Sym "pn"; l; r; st] =>
      match dec_rterm 64 l, dec_rterm 64 r, dec_step st with
      | Some l, Some r, Some st => Some {| pl := canon0 l; pr := canon0 r; pst := st |}
      | _, _, _ => None
      end
  | _ => None
  end.
Fixpoint dec_pnodes (l : list sexp) : option proof :=
  match l with
  | [] => Some []
  | e :: t => match dec_pnode e, dec_pnodes t with Some n, Some r => Some (n :: r) | _, _ => None end
  end.

(* the justification the harness attaches to the n-th justified union is the text "j<n>" *)
Definition just_text (n : N) : text := 106 :: dec_text n.

Definition asserted_of (cts : list cterm) (ops : list hop) : asserted :=
  let hs := handle_terms ops in
  flat_map (fun o => match o with
                     | HUnion i j jn =>
                         match nth_opt hs i, nth_opt hs j with
                         | Some a, Some b =>
                             match nth_opt cts a, nth_opt cts b with
                             | Some s, Some t => [(s, t, match jn with Some n => Some (just_text n) | None => None end)]
                             | _, _ => []
                             end
                         | _, _ => []
                         end
                     | _ => [] end) ops.

(* index of the first node that does not check, for the replay *)
Fixpoint first_bad (A : asserted) (done todo : list pnode) (i : N) : option N :=
  match todo with
  | [] => None
  | n :: t => if check_node A done n then first_bad A (done ++ [n]) t (i + 1) else Some i
  end.

Definition run_chk (args : list sexp) : sexp :=
  match args with
  | [Lst (Sym "terms" :: ts); Lst (Sym "ops" :: os); Lst (Sym "expl" :: es)] =>
      match dec_rterms ts, dec_hops os with
      | Some rts, Some ops =>
          let cts := map canon0 rts in
          let A := asserted_of cts ops in
          let hs := handle_terms ops in
          Lst (Sym "chk" ::
               map (fun e =>
                      match e with
                      | Lst [Num i; Num j; Lst (Sym "proof" :: ns)] =>
                          match dec_pnodes ns, nth_opt hs (N.to_nat i), nth_opt hs (N.to_nat j) with
                          | Some p, Some a, Some b =>
                              match nth_opt cts a, nth_opt cts b with
                              | Some ql, Some qr =>
                                  if check_proof A p ql qr then Lst [Num i; Num j; Sym "ok"]
                                  else Lst [Num i; Num j;
                                            match first_bad A [] p 0 with
                                            | Some k => Lst [Sym "rejected"; Num k]
                                            | None => Lst [Sym "rejected"; Sym "conclusion"]
                                            end]
                              | _, _ => Lst [Num i; Num j; Sym "bad-input"]
                              end
                          | _, _, _ => Lst [Num i; Num j; Sym "bad-input"]
                          end
                      | Lst [Num i; Num j; _] => Lst [Num i; Num j; Sym "no-proof"]
                      | _ => Sym "bad-input"
                      end) es)
      | _, _ => Sym "bad-case"
      end
  | _ => Sym "bad-case"
  end.

(* C01: both certificates for one history: (c01 cfg (terms ..) (ops ..) motif (expl ..)) *)
Definition run_c01 (args : list sexp) : sexp :=
  match args with
  | cfg :: ts :: os :: motif :: ex :: _ => Lst [Sym "c01"; run_eg 2 8 [cfg; ts; os; motif]; run_chk [ts; os; ex]]
  | _ => Sym "bad-case"
  end.
