(* Explain/Checker.v — an independent checker for explanations, working on terms.
   A proof is a list of nodes in dependency order; node i may refer to nodes j < i.  Every node
   carries its equation as a pair of canonical terms at depth 0 (the harness obtains them from
   `ProvenEqRaw::equ()` through `get_syn_expr`).  A premise is used up to a renaming that is
   injective on each side of the premise (`sidewise`), exactly as C07 states.  Definitions only;
   soundness w.r.t. Deriv is in Explain/CheckerFacts.v. *)
From SE Require Export Sem.Deriv.

Inductive pstep :=
| PExplicit (j : option text)
| PRefl
| PSymm (p : nat)
| PTrans (p q : nat)
| PCong (ps : list nat).

Record pnode := { pl : cterm; pr : cterm; pst : pstep }.
Definition proof := list pnode.

(* ---- matching a premise term against a target term living under d binders ----
   theta maps the premise's user names to target names; the premise's own bound levels are shifted by d *)
Definition theta := list (N * N).

Fixpoint th_get (m : theta) (x : N) : option N :=
  match m with [] => None | (k, v) :: t => if x =? k then Some v else th_get t x end.

Definition bind_name (d : nat) (m : theta) (x y : N) : option theta :=
  if is_B x then (if y =? shift_B d x then Some m else None)
  else match th_get m x with
       | Some y' => if y =? y' then Some m else None
       | None =>
           (* a user name may go to a user name or to one of the d enclosing binders *)
           if is_B y && negb (y <? 4 * N.of_nat d + 3) then None else Some ((x, y) :: m)
       end.

Fixpoint match_t (fuel : nat) (d : nat) (m : theta) (p t : cterm) : option theta :=
  match fuel with
  | O => None
  | S f =>
      match p, t with
      | CT v a, CT w b =>
          if negb (Nat.eqb v w) then None else
          (fix go (m : theta) (l l' : list carg) : option theta :=
             match l, l' with
             | [], [] => Some m
             | x :: r, y :: r' => match match_a f d m x y with Some m' => go m' r r' | None => None end
             | _, _ => None
             end) m a b
      end
  end
with match_a (fuel : nat) (d : nat) (m : theta) (p t : carg) : option theta :=
  match fuel with
  | O => None
  | S f =>
      match p, t with
      | CSlot x, CSlot y => bind_name d m x y
      | CPay a, CPay b => if pval_eqb a b then Some m else None
      | CChild s, CChild u => match_t f d m s u
      | CBind x, CBind y => match_a f d m x y
      | _, _ => None
      end
  end.

Definition tfuel (t : cterm) : nat := 2 * List.length (cnames t) + 2 * (fix sz (t : cterm) : nat :=
  match t with CT _ args => S ((fix go (l : list carg) : nat :=
     match l with [] => O | a :: l' => ((fix sa (a : carg) : nat := match a with CChild t => S (sz t) | CBind b => S (sa b) | _ => 1 end) a + go l')%nat end) args) end) t + 4.

Fixpoint nodupN (l : list N) : bool :=
  match l with [] => true | x :: t => negb (existsb (N.eqb x) t) && nodupN t end.
Definition dedup (l : list N) : list N :=
  fold_right (fun x acc => if existsb (N.eqb x) acc then acc else x :: acc) [] l.

(* theta is injective on the user names of a term *)
Definition inj_on (m : theta) (t : cterm) : bool :=
  let names := dedup (filter (fun x => negb (is_B x)) (cnames t)) in
  nodupN (flat_map (fun x => match th_get m x with Some y => [y] | None => [] end) names).

(* (l, r) instantiates to (l', r') under d binders by one renaming, injective on each side *)
Definition match2 (d : nat) (l r l' r' : cterm) : bool :=
  match match_t (tfuel l) d [] l l' with
  | None => false
  | Some m1 =>
      match match_t (tfuel r) d m1 r r' with
      | None => false
      | Some m2 => inj_on m2 l && inj_on m2 r
      end
  end.

(* the same with a globally injective renaming (used for the conclusion) *)
Definition match2_strict (l r l' r' : cterm) : bool :=
  match match_t (tfuel l) 0 [] l l' with
  | None => false
  | Some m1 =>
      match match_t (tfuel r) 0 m1 r r' with
      | None => false
      | Some m2 => nodupN (map snd m2) && forallb (fun p => negb (is_B (snd p))) m2
      end
  end.

(* ---- transitivity: find the middle term ----
   theta1 from l1 -> target left, theta2 from r2 -> target right, then walk r1 and l2 together *)
Definition mid_name (d : nat) (st : theta * theta * N) (x y : N) : option (theta * theta * N) :=
  let '(m1, m2, fresh) := st in
  if is_B x || is_B y then (if x =? y then Some st else None) else
  match th_get m1 x, th_get m2 y with
  | Some a, Some b => if a =? b then Some st else None
  | Some a, None => Some (m1, (y, a) :: m2, fresh)
  | None, Some b => Some ((x, b) :: m1, m2, fresh)
  | None, None => Some ((x, fresh) :: m1, (y, fresh) :: m2, fresh + 4)
  end.

Fixpoint mid_t (fuel : nat) (st : theta * theta * N) (p q : cterm) : option (theta * theta * N) :=
  match fuel with
  | O => None
  | S f =>
      match p, q with
      | CT v a, CT w b =>
          if negb (Nat.eqb v w) then None else
          (fix go (st : theta * theta * N) (l l' : list carg) : option (theta * theta * N) :=
             match l, l' with
             | [], [] => Some st
             | x :: r, y :: r' => match mid_a f st x y with Some st' => go st' r r' | None => None end
             | _, _ => None
             end) st a b
      end
  end
with mid_a (fuel : nat) (st : theta * theta * N) (p q : carg) : option (theta * theta * N) :=
  match fuel with
  | O => None
  | S f =>
      match p, q with
      | CSlot x, CSlot y => mid_name 0 st x y
      | CPay a, CPay b => if pval_eqb a b then Some st else None
      | CChild s, CChild u => mid_t f st s u
      | CBind x, CBind y => mid_a f st x y
      | _, _ => None
      end
  end.

Definition max_name (l : list N) : N := fold_left N.max l 0.

Definition check_trans (l1 r1 l2 r2 tl tr : cterm) : bool :=
  match match_t (tfuel l1) 0 [] l1 tl, match_t (tfuel r2) 0 [] r2 tr with
  | Some m1, Some m2 =>
      (* a fresh user name above everything in sight (residue 1 = the "fresh" family) *)
      let top := max_name (cnames l1 ++ cnames r1 ++ cnames l2 ++ cnames r2 ++ cnames tl ++ cnames tr) in
      let fresh := 4 * (top / 4 + 1) + 1 in
      match mid_t (tfuel r1) (m1, m2, fresh) r1 l2 with
      | Some (m1', m2', _) => inj_on m1' l1 && inj_on m1' r1 && inj_on m2' l2 && inj_on m2' r2
      | None => false
      end
  | _, _ => false
  end.

(* ---- congruence: children pairwise justified by the premises, in order ---- *)
Fixpoint cong_a (fuel : nat) (d : nat) (prems : list (cterm * cterm)) (a b : carg) : option (list (cterm * cterm)) :=
  match fuel with
  | O => None
  | S f =>
      match a, b with
      | CSlot x, CSlot y => if x =? y then Some prems else None
      | CPay p, CPay q => if pval_eqb p q then Some prems else None
      | CBind x, CBind y => cong_a f (S d) prems x y
      | CChild s, CChild t =>
          match prems with
          | (l, r) :: rest => if match2 d l r s t then Some rest else None
          | [] => None
          end
      | _, _ => None
      end
  end.

Fixpoint cong_args (d : nat) (prems : list (cterm * cterm)) (l l' : list carg) : option (list (cterm * cterm)) :=
  match l, l' with
  | [], [] => Some prems
  | a :: r, b :: r' =>
      match cong_a (S (List.length (cnames_arg a))  + 8) d prems a b with
      | Some rest => cong_args d rest r r'
      | None => None
      end
  | _, _ => None
  end.

Definition check_cong (prems : list (cterm * cterm)) (tl tr : cterm) : bool :=
  match tl, tr with
  | CT v a, CT w b => Nat.eqb v w && match cong_args 0 prems a b with Some [] => true | _ => false end
  end.

(* ---- the checker ---- *)
Definition asserted := list (cterm * cterm * option text).

Definition opt_text_eqb (a b : option text) : bool :=
  match a, b with
  | None, None => true
  | Some x, Some y => text_eqb x y
  | _, _ => false
  end.

Definition eq_of (done : list pnode) (i : nat) : option (cterm * cterm) :=
  match nth_opt done i with Some n => Some (pl n, pr n) | None => None end.

Fixpoint eqs_of (done : list pnode) (l : list nat) : option (list (cterm * cterm)) :=
  match l with
  | [] => Some []
  | i :: t => match eq_of done i, eqs_of done t with Some e, Some r => Some (e :: r) | _, _ => None end
  end.

(* `done` = the already checked prefix of the proof, in order *)
Definition check_node (A : asserted) (done : list pnode) (n : pnode) : bool :=
  match pst n with
  | PExplicit j => existsb (fun a => let '(l, r, j') := a in opt_text_eqb j j' && match2 0 l r (pl n) (pr n)) A
  | PRefl => cterm_eqb (pl n) (pr n)
  | PSymm p => match eq_of done p with Some (l, r) => match2 0 r l (pl n) (pr n) | None => false end
  | PTrans p q =>
      match eq_of done p, eq_of done q with
      | Some (l1, r1), Some (l2, r2) => check_trans l1 r1 l2 r2 (pl n) (pr n)
      | _, _ => false
      end
  | PCong ps => match eqs_of done ps with Some prems => check_cong prems (pl n) (pr n) | None => false end
  end.

Fixpoint check_nodes (A : asserted) (done todo : list pnode) : bool :=
  match todo with
  | [] => true
  | n :: t => check_node A done n && check_nodes A (done ++ [n]) t
  end.

(* the last node must prove the queried equation up to a (globally) injective renaming *)
Definition check_proof (A : asserted) (p : proof) (ql qr : cterm) : bool :=
  check_nodes A [] p &&
  match rev p with
  | n :: _ => match2_strict (pl n) (pr n) ql qr
  | [] => false
  end.

Definition eqs_of_asserted (A : asserted) : equations := map (fun a => (fst (fst a), snd (fst a))) A.
