(* Explain/CheckerFacts.v — soundness of the explanation checker of Explain/Checker.v with respect
   to [Deriv].  The mathematical core is [Deriv_inst]: derived equations may be instantiated by a
   renaming that is injective on each SIDE separately (not necessarily on both sides together). *)
From SE Require Import Explain.Checker.
From SE Require Import Sem.AlgebraFacts Sem.ClosureFacts.
From SE Require Import Base.Text Base.TextFacts.
From Coq Require Import ZArith Lia ZifyBool ZifyN ZifyNat.
Ltac Zify.zify_post_hook ::= Z.div_mod_to_equations.

(* ====================================================================== *)
(* 1. renaming of canonical terms                                          *)
(* ====================================================================== *)

Lemma in_cnames_CT : forall v args a x, In a args -> In x (cnames_arg a) -> In x (cnames (CT v args)).
Proof.
  intros v args a x Ha Hx. rewrite cnames_CT. apply in_flat_map. exists a. split; assumption.
Qed.

Lemma cren_ext : forall t f g, (forall x, In x (cnames t) -> f x = g x) -> cren f t = cren g t.
Proof.
  apply (cterm_ind2
    (fun t => forall f g, (forall x, In x (cnames t) -> f x = g x) -> cren f t = cren g t)
    (fun a => forall f g, (forall x, In x (cnames_arg a) -> f x = g x) -> cren_arg f a = cren_arg g a)).
  - intros v args HF f g H. rewrite !cren_CT. f_equal. apply map_ext_in. intros a Ha.
    rewrite Forall_forall in HF. apply (HF a Ha). intros x Hx. apply H.
    apply (in_cnames_CT v args a x Ha Hx).
  - intros x f g H. cbn [cren_arg]. f_equal. apply H. cbn [cnames_arg]. left. reflexivity.
  - intros t IH f g H. cbn [cren_arg]. f_equal. apply IH. exact H.
  - intros a IH f g H. cbn [cren_arg]. f_equal. apply IH. exact H.
  - intros p f g _. reflexivity.
Qed.

Lemma cren_cren : forall t f g, cren f (cren g t) = cren (fun x => f (g x)) t.
Proof.
  apply (cterm_ind2
    (fun t => forall f g, cren f (cren g t) = cren (fun x => f (g x)) t)
    (fun a => forall f g, cren_arg f (cren_arg g a) = cren_arg (fun x => f (g x)) a)).
  - intros v args HF f g. rewrite !cren_CT, map_map. f_equal. apply map_ext_in. intros a Ha.
    rewrite Forall_forall in HF. apply (HF a Ha).
  - intros x f g. reflexivity.
  - intros t IH f g. cbn [cren_arg]. f_equal. apply IH.
  - intros a IH f g. cbn [cren_arg]. f_equal. apply IH.
  - intros p f g. reflexivity.
Qed.

Lemma cren_id : forall t f, (forall x, In x (cnames t) -> f x = x) -> cren f t = t.
Proof.
  apply (cterm_ind2
    (fun t => forall f, (forall x, In x (cnames t) -> f x = x) -> cren f t = t)
    (fun a => forall f, (forall x, In x (cnames_arg a) -> f x = x) -> cren_arg f a = a)).
  - intros v args HF f H. rewrite cren_CT. f_equal. rewrite <- (map_id args) at 2.
    apply map_ext_in. intros a Ha.
    rewrite Forall_forall in HF. apply (HF a Ha). intros x Hx. apply H.
    apply (in_cnames_CT v args a x Ha Hx).
  - intros x f H. cbn [cren_arg]. f_equal. apply H. cbn [cnames_arg]. left. reflexivity.
  - intros t IH f H. cbn [cren_arg]. f_equal. apply IH. exact H.
  - intros a IH f H. cbn [cren_arg]. f_equal. apply IH. exact H.
  - intros p f _. reflexivity.
Qed.

(* ====================================================================== *)
(* 2. names that are free at a depth; good renamings                       *)
(* ====================================================================== *)

(* x is a user name or the name of one of the j enclosing binders *)
Definition fr (j : nat) (x : N) : Prop := is_B x = false \/ x < 4 * N.of_nat j + 3.

Lemma range_fr : forall j y,
  (is_B y = false \/ exists k, (k < j)%nat /\ y = B k) -> fr j y.
Proof.
  intros j y [H | [k [Hk H]]]; [left; exact H|]. right. subst y. unfold B. lia.
Qed.

Lemma fr_range : forall j y, fr j y ->
  is_B y = false \/ exists k, (k < j)%nat /\ y = B k.
Proof.
  intros j y H. destruct (is_B y) eqn:Hb; [|left; reflexivity]. right.
  exists (N.to_nat (y / 4)). unfold fr in H. rewrite Hb in H.
  destruct H as [H | H]; [discriminate|]. unfold B, is_B in *. split; lia.
Qed.

Lemma fr_0 : forall x, fr 0 x <-> is_B x = false.
Proof.
  intro x. unfold fr, is_B. split; intro H; lia.
Qed.

Lemma fr_S : forall j x, fr (S j) x -> fr j x \/ x = 4 * N.of_nat j + 3.
Proof.
  intros j x H. unfold fr, is_B in *. lia.
Qed.

(* sigma takes terms living under j binders to terms living under d binders:
   own bound levels (>= j) are re-based at d; the other names (user names and the names of the j
   enclosing binders) are mapped injectively to user names or names of the d enclosing binders *)
Definition good (j d : nat) (sg : N -> N) : Prop :=
  (forall x, is_B x = true -> 4 * N.of_nat j + 3 <= x -> sg x = x + 4 * N.of_nat d - 4 * N.of_nat j) /\
  (forall x, fr j x -> fr d (sg x)) /\
  (forall x y, fr j x -> fr j y -> sg x = sg y -> x = y).

Lemma good_S : forall j d sg, good j d sg -> good (S j) (S d) sg.
Proof.
  intros j d sg [H1 [H2 H3]]. split; [|split].
  - intros x Hb Hx. rewrite H1; [lia|exact Hb|lia].
  - intros x Hf. destruct (fr_S j x Hf) as [Hj | Hj].
    + specialize (H2 x Hj). unfold fr, is_B in *. lia.
    + assert (Hb : is_B x = true) by (unfold is_B; lia).
      rewrite (H1 x Hb) by lia. right. lia.
  - intros x y Hx Hy Heq.
    destruct (fr_S j x Hx) as [Hjx | Hjx]; destruct (fr_S j y Hy) as [Hjy | Hjy].
    + apply H3; assumption.
    + assert (Hb : is_B y = true) by (unfold is_B; lia).
      rewrite (H1 y Hb) in Heq by lia. specialize (H2 x Hjx). unfold fr, is_B in H2. lia.
    + assert (Hb : is_B x = true) by (unfold is_B; lia).
      rewrite (H1 x Hb) in Heq by lia. specialize (H2 y Hjy). unfold fr, is_B in H2. lia.
    + lia.
Qed.

Lemma lift_good : forall d rho,
  (forall x y, is_B x = false -> is_B y = false -> rho x = rho y -> x = y) ->
  (forall x, is_B x = false -> fr d (rho x)) ->
  good 0 d (lift d rho).
Proof.
  intros d rho Hinj Hrng. split; [|split].
  - intros x Hb _. unfold lift. rewrite Hb. unfold shift_B. lia.
  - intros x Hf. apply fr_0 in Hf. unfold lift. rewrite Hf. apply Hrng. exact Hf.
  - intros x y Hx Hy. apply fr_0 in Hx, Hy. unfold lift. rewrite Hx, Hy. apply Hinj; assumption.
Qed.

(* ====================================================================== *)
(* 3. Deriv is closed under good renamings                                 *)
(* ====================================================================== *)

Lemma Deriv_ren_all : forall E,
  (forall j s t, Deriv E j s t -> forall d sg, good j d sg -> Deriv E d (cren sg s) (cren sg t)) /\
  (forall j a b, DerivArg E j a b -> forall d sg, good j d sg ->
     DerivArg E d (cren_arg sg a) (cren_arg sg b)) /\
  (forall j l l', DerivArgs E j l l' -> forall d sg, good j d sg ->
     DerivArgs E d (map (cren_arg sg) l) (map (cren_arg sg) l')).
Proof.
  intro E.
  apply (Deriv_mutind E
    (fun j s t _ => forall d sg, good j d sg -> Deriv E d (cren sg s) (cren sg t))
    (fun j a b _ => forall d sg, good j d sg -> DerivArg E d (cren_arg sg a) (cren_arg sg b))
    (fun j l l' _ => forall d sg, good j d sg ->
       DerivArgs E d (map (cren_arg sg) l) (map (cren_arg sg) l'))).
  - (* D_ax *)
    intros j l r rho Hin [Hinj Hrng] d sg Hg. rewrite !cren_cren.
    assert (Hext : forall t, cren (fun x => sg (lift j rho x)) t
                             = cren (lift d (fun x => sg (rho x))) t).
    { intro t. apply cren_ext. intros x _. unfold lift. destruct (is_B x) eqn:Hb; [|reflexivity].
      destruct Hg as [H1 _]. rewrite H1.
      - unfold shift_B. lia.
      - unfold is_B, shift_B in *. lia.
      - unfold is_B, shift_B in *. lia. }
    rewrite !Hext. apply D_ax; [exact Hin|]. destruct Hg as [_ [H2 H3]]. split.
    + intros x y Hx Hy Hbx Hby Heq. apply Hinj; try assumption.
      apply H3; try assumption; apply range_fr; apply Hrng; assumption.
    + intros x Hx Hb. apply fr_range. apply H2. apply range_fr. apply Hrng; assumption.
  - intros; apply D_refl.
  - intros j s t _ IH d sg Hg. apply D_sym. apply IH. exact Hg.
  - intros j s t u _ IH1 _ IH2 d sg Hg. eapply D_trans; [apply IH1|apply IH2]; exact Hg.
  - intros j v args args' _ IH d sg Hg. rewrite !cren_CT. apply D_cong. apply IH. exact Hg.
  - intros; cbn [cren_arg]; apply DA_slot.
  - intros; cbn [cren_arg]; apply DA_pay.
  - intros j s t _ IH d sg Hg. cbn [cren_arg]. apply DA_child. apply IH. exact Hg.
  - intros j a b _ IH d sg Hg. cbn [cren_arg]. apply DA_bind. apply IH. apply good_S. exact Hg.
  - intros; cbn [map]; apply DAs_nil.
  - intros j a b l l' _ IHa _ IHl d sg Hg. cbn [map]. apply DAs_cons; [apply IHa|apply IHl]; exact Hg.
Qed.

Lemma Deriv_ren : forall E j s t d sg,
  Deriv E j s t -> good j d sg -> Deriv E d (cren sg s) (cren sg t).
Proof.
  intros E j s t d sg H Hg. exact (proj1 (Deriv_ren_all E) j s t H d sg Hg).
Qed.

(* ====================================================================== *)
(* 4. globally injective maps from finite tables                           *)
(* ====================================================================== *)

Definition tabf (f g : N -> N) (l : list N) (K : N) (y : N) : N :=
  match find (fun x => f x =? y) l with Some x => g x | None => 4 * (y + K) + 1 end.

Lemma tabf_spec : forall f g l K y,
  (exists x, In x l /\ f x = y /\ tabf f g l K y = g x) \/
  ((forall x, In x l -> f x <> y) /\ tabf f g l K y = 4 * (y + K) + 1).
Proof.
  intros f g l K y. unfold tabf. destruct (find (fun x => f x =? y) l) as [x|] eqn:E.
  - left. apply find_some in E. destruct E as [Hi Hf]. apply N.eqb_eq in Hf.
    exists x. repeat split; assumption.
  - right. split; [|reflexivity]. intros x Hx Heq.
    pose proof (find_none _ _ E x Hx) as Hn. cbn beta in Hn. apply N.eqb_neq in Hn. contradiction.
Qed.

Lemma tabf_hit : forall f g l K x, In x l ->
  (forall x', In x' l -> f x' = f x -> g x' = g x) -> tabf f g l K (f x) = g x.
Proof.
  intros f g l K x Hx Hu. destruct (tabf_spec f g l K (f x)) as [[x' [Hi [Hf He]]] | [Hn _]].
  - rewrite He. apply Hu; assumption.
  - exfalso. apply (Hn x Hx). reflexivity.
Qed.

Lemma tabf_inj : forall f g l K,
  (forall x x', In x l -> In x' l -> g x = g x' -> f x = f x') ->
  (forall x, In x l -> is_B (g x) = true \/ g x < 4 * K) ->
  forall y y', tabf f g l K y = tabf f g l K y' -> y = y'.
Proof.
  intros f g l K Hinj Hb y y' Heq.
  destruct (tabf_spec f g l K y) as [[x [Hi [Hf He]]] | [Hn He]];
  destruct (tabf_spec f g l K y') as [[x' [Hi' [Hf' He']]] | [Hn' He']];
  rewrite He, He' in Heq.
  - subst y y'. apply Hinj; assumption.
  - specialize (Hb x Hi). unfold is_B in Hb. lia.
  - specialize (Hb x' Hi'). unfold is_B in Hb. lia.
  - lia.
Qed.

Definition bnd (l : list N) : N := fold_right N.max 0 l.

Lemma bnd_ge : forall l x, In x l -> x <= bnd l.
Proof.
  induction l as [|a l IH]; intros x Hx; [destruct Hx|].
  cbn [bnd fold_right]. fold (bnd l). destruct Hx as [Hx | Hx].
  - subst. lia.
  - specialize (IH x Hx). lia.
Qed.

(* a renaming at depth d: own bound levels fixed, the rest given by a table with fresh fallback *)
Definition kap (d : nat) (f g : N -> N) (l : list N) (K : N) (y : N) : N :=
  if is_B y && (4 * N.of_nat d + 3 <=? y) then y else tabf f g l K y.

Lemma kap_free : forall d f g l K y, fr d y -> kap d f g l K y = tabf f g l K y.
Proof.
  intros d f g l K y Hf. unfold kap.
  assert (H : is_B y && (4 * N.of_nat d + 3 <=? y) = false) by (unfold fr, is_B in *; lia).
  rewrite H. reflexivity.
Qed.

Lemma kap_bound : forall d f g l K y, is_B y = true -> 4 * N.of_nat d + 3 <= y -> kap d f g l K y = y.
Proof.
  intros d f g l K y Hb Hy. unfold kap.
  assert (H : is_B y && (4 * N.of_nat d + 3 <=? y) = true) by (unfold is_B in *; lia).
  rewrite H. reflexivity.
Qed.

Lemma kap_good : forall d f g l K,
  (forall x x', In x l -> In x' l -> g x = g x' -> f x = f x') ->
  (forall x, In x l -> is_B (g x) = true \/ g x < 4 * K) ->
  (forall x, In x l -> fr d (g x)) ->
  good d d (kap d f g l K).
Proof.
  intros d f g l K Hinj Hb Hfr. split; [|split].
  - intros x Hbx Hx. rewrite kap_bound by assumption. lia.
  - intros x Hx. rewrite kap_free by exact Hx.
    destruct (tabf_spec f g l K x) as [[x' [Hi [Hf He]]] | [Hn He]]; rewrite He.
    + apply Hfr. exact Hi.
    + left. unfold is_B. lia.
  - intros x y Hx Hy. rewrite !kap_free by assumption. apply tabf_inj; assumption.
Qed.

(* ====================================================================== *)
(* 5. side-wise injective instantiation is admissible                      *)
(* ====================================================================== *)

Definition usr (l : list N) : list N := filter (fun x => negb (is_B x)) l.

Lemma usr_In : forall l x, In x (usr l) <-> In x l /\ is_B x = false.
Proof.
  intros l x. unfold usr. rewrite filter_In, negb_true_iff. reflexivity.
Qed.

Lemma Deriv_inst : forall E l r, Deriv E 0 l r ->
  forall d rho,
    (forall x, In x (cnames l ++ cnames r) -> is_B x = false ->
       is_B (rho x) = false \/ exists k, (k < d)%nat /\ rho x = B k) ->
    (forall x y, In x (cnames l) -> In y (cnames l) -> is_B x = false -> is_B y = false ->
       rho x = rho y -> x = y) ->
    (forall x y, In x (cnames r) -> In y (cnames r) -> is_B x = false -> is_B y = false ->
       rho x = rho y -> x = y) ->
    Deriv E d (cren (lift d rho) l) (cren (lift d rho) r).
Proof.
  intros E l r HD d rho Hrng HL HR.
  set (Lu := usr (cnames l)). set (Ru := usr (cnames r)).
  assert (HfrL : forall x, In x Lu -> fr d (rho x)).
  { intros x Hx. apply usr_In in Hx. apply range_fr. apply Hrng; [apply in_or_app; left|]; tauto. }
  assert (HfrR : forall x, In x Ru -> fr d (rho x)).
  { intros x Hx. apply usr_In in Hx. apply range_fr. apply Hrng; [apply in_or_app; right|]; tauto. }
  (* sigma1: agrees with rho on the left side, globally injective *)
  set (K := bnd (map rho Lu) + 1).
  assert (HK : forall x, In x Lu -> rho x < K).
  { intros x Hx. pose proof (bnd_ge (map rho Lu) (rho x) (in_map rho _ _ Hx)). subst K. lia. }
  set (rho1 := tabf (fun x => x) rho Lu K).
  assert (Hrho1_inj : forall y y', rho1 y = rho1 y' -> y = y').
  { apply tabf_inj.
    - intros x x' Hx Hx' Heq. apply usr_In in Hx, Hx'. apply HL; tauto.
    - intros x Hx. right. specialize (HK x Hx). lia. }
  assert (Hrho1_L : forall x, In x Lu -> rho1 x = rho x).
  { intros x Hx. apply (tabf_hit (fun x => x) rho Lu K x Hx). intros x' _ Heq. subst x'. reflexivity. }
  assert (Hrho1_fr : forall x, fr d (rho1 x)).
  { intro x. destruct (tabf_spec (fun x => x) rho Lu K x) as [[x' [Hi [Hf He]]] | [_ He]];
      fold rho1 in He; rewrite He.
    - apply HfrL. exact Hi.
    - left. unfold is_B. lia. }
  assert (Hg1 : good 0 d (lift d rho1)).
  { apply lift_good.
    - intros x y _ _. apply Hrho1_inj.
    - intros x _. apply Hrho1_fr. }
  pose proof (Deriv_ren E 0 l r d _ HD Hg1) as D1.
  assert (El : cren (lift d rho1) l = cren (lift d rho) l).
  { apply cren_ext. intros x Hx. unfold lift. destruct (is_B x) eqn:Hb; [reflexivity|].
    apply Hrho1_L. apply usr_In. split; assumption. }
  rewrite El in D1.
  (* kappa1 : sigma1 r |-> rho r ; kappa2 fixes sigma1 r ; both agree on rho l *)
  set (K' := bnd (map rho Ru ++ map rho1 Ru) + 1).
  assert (HK'a : forall x, In x Ru -> rho x < K').
  { intros x Hx.
    pose proof (bnd_ge (map rho Ru ++ map rho1 Ru) (rho x)
                  (in_or_app _ _ _ (or_introl (in_map rho _ _ Hx)))). subst K'. lia. }
  assert (HK'b : forall x, In x Ru -> rho1 x < K').
  { intros x Hx.
    pose proof (bnd_ge (map rho Ru ++ map rho1 Ru) (rho1 x)
                  (in_or_app _ _ _ (or_intror (in_map rho1 _ _ Hx)))). subst K'. lia. }
  set (k1 := kap d rho1 rho Ru K'). set (k2 := kap d rho1 rho1 Ru K').
  assert (Hk1 : good d d k1).
  { apply kap_good.
    - intros x x' Hx Hx' Heq. f_equal. apply usr_In in Hx, Hx'. apply HR; tauto.
    - intros x Hx. right. specialize (HK'a x Hx). lia.
    - exact HfrR. }
  assert (Hk2 : good d d k2).
  { apply kap_good.
    - intros x x' _ _ Heq. exact Heq.
    - intros x Hx. right. specialize (HK'b x Hx). lia.
    - intros x _. apply Hrho1_fr. }
  pose proof (Deriv_ren E d _ _ d k1 D1 Hk1) as D3.
  pose proof (Deriv_ren E d _ _ d k2 D1 Hk2) as D4.
  assert (Ea : cren k1 (cren (lift d rho1) r) = cren (lift d rho) r).
  { rewrite cren_cren. apply cren_ext. intros x Hx. unfold lift. destruct (is_B x) eqn:Hb.
    - unfold k1. apply kap_bound; unfold shift_B, is_B in *; lia.
    - unfold k1. rewrite kap_free by apply Hrho1_fr. apply tabf_hit.
      + apply usr_In. split; assumption.
      + intros x' _ Heq. apply Hrho1_inj in Heq. subst x'. reflexivity. }
  assert (Eb : cren k2 (cren (lift d rho1) r) = cren (lift d rho1) r).
  { rewrite cren_cren. apply cren_ext. intros x Hx. unfold lift. destruct (is_B x) eqn:Hb.
    - unfold k2. apply kap_bound; unfold shift_B, is_B in *; lia.
    - unfold k2. rewrite kap_free by apply Hrho1_fr. apply tabf_hit.
      + apply usr_In. split; assumption.
      + intros x' _ Heq. exact Heq. }
  assert (Ec : cren k2 (cren (lift d rho) l) = cren k1 (cren (lift d rho) l)).
  { rewrite !cren_cren. apply cren_ext. intros x Hx. unfold lift. destruct (is_B x) eqn:Hb.
    - unfold k1, k2. rewrite !kap_bound by (unfold shift_B, is_B in *; lia). reflexivity.
    - assert (HxL : In x Lu) by (apply usr_In; split; assumption).
      unfold k1, k2. rewrite !kap_free by (apply HfrL; exact HxL).
      unfold tabf. destruct (find (fun x0 => rho1 x0 =? rho x) Ru) as [x'|] eqn:Ef; [|reflexivity].
      apply find_some in Ef. destruct Ef as [Hi Hf]. apply N.eqb_eq in Hf.
      destruct (tabf_spec (fun x => x) rho Lu K x') as [[x'' [Hi'' [Hf'' He]]] | [_ He]];
        fold rho1 in He.
      + subst x''. exact He.
      + exfalso. specialize (HK x HxL). lia. }
  rewrite Ea in D3. rewrite Eb in D4. rewrite Ec in D4.
  eapply D_trans; [exact D1|]. eapply D_trans; [apply D_sym; exact D4|exact D3].
Qed.

(* ====================================================================== *)
(* 6. association lists as renamings                                       *)
(* ====================================================================== *)

Definition th_fun (m : theta) (x : N) : N := match th_get m x with Some y => y | None => x end.
Definition th_ok (d : nat) (m : theta) : Prop := forall x y, th_get m x = Some y -> fr d y.
Definition th_ext (m m' : theta) : Prop := forall x y, th_get m x = Some y -> th_get m' x = Some y.
Definition th_bound (m : theta) (names : list N) : Prop :=
  forall x, In x names -> is_B x = false -> exists y, th_get m x = Some y.
Definition inj_prop (m : theta) (names : list N) : Prop :=
  forall x y a, In x names -> In y names -> is_B x = false -> is_B y = false ->
    th_get m x = Some a -> th_get m y = Some a -> x = y.

Lemma th_ext_refl : forall m, th_ext m m.
Proof. intros m x y H. exact H. Qed.

Lemma th_ext_trans : forall m1 m2 m3, th_ext m1 m2 -> th_ext m2 m3 -> th_ext m1 m3.
Proof. intros m1 m2 m3 H1 H2 x y H. apply H2, H1, H. Qed.

Lemma th_bound_ext : forall m m' ns, th_bound m ns -> th_ext m m' -> th_bound m' ns.
Proof.
  intros m m' ns Hb He x Hx Hu. destruct (Hb x Hx Hu) as [y Hy]. exists y. apply He. exact Hy.
Qed.

Lemma th_ok_nil : forall d, th_ok d [].
Proof. intros d x y H. discriminate H. Qed.

Lemma th_ok_cons : forall d m k v, th_ok d m -> fr d v -> th_ok d ((k, v) :: m).
Proof.
  intros d m k v Hok Hv x y H. cbn [th_get] in H. destruct (x =? k).
  - injection H as <-. exact Hv.
  - apply (Hok x y H).
Qed.

Lemma th_ext_cons : forall m k v, th_get m k = None -> th_ext m ((k, v) :: m).
Proof.
  intros m k v Hn x y H. cbn [th_get]. destruct (x =? k) eqn:He; [|exact H].
  apply N.eqb_eq in He. subst x. rewrite Hn in H. discriminate H.
Qed.

Lemma th_get_cons_same : forall m k v, th_get ((k, v) :: m) k = Some v.
Proof. intros m k v. cbn [th_get]. rewrite N.eqb_refl. reflexivity. Qed.

Lemma th_fun_ext : forall m n x y, th_ext m n -> th_get m x = Some y -> th_fun n x = y.
Proof. intros m n x y He H. unfold th_fun. rewrite (He x y H). reflexivity. Qed.

Lemma th_get_In : forall m x a, th_get m x = Some a -> In (x, a) m.
Proof.
  induction m as [|[k v] m IH]; intros x a H; [discriminate H|].
  cbn [th_get] in H. destruct (x =? k) eqn:He.
  - apply N.eqb_eq in He. injection H as <-. subst k. left. reflexivity.
  - right. apply IH. exact H.
Qed.

(* a derived equation instantiated by the renaming read off an association list *)
Lemma inst_by_theta : forall E d l r m, Deriv E 0 l r ->
  th_ok d m -> th_bound m (cnames l) -> th_bound m (cnames r) ->
  inj_prop m (cnames l) -> inj_prop m (cnames r) ->
  Deriv E d (cren (lift d (th_fun m)) l) (cren (lift d (th_fun m)) r).
Proof.
  intros E d l r m HD Hok Hbl Hbr Hil Hir. apply Deriv_inst; [exact HD| | |].
  - intros x Hx Hu. apply fr_range.
    assert (Hex : exists y, th_get m x = Some y).
    { apply in_app_or in Hx. destruct Hx as [Hx | Hx]; [apply Hbl|apply Hbr]; assumption. }
    destruct Hex as [y Hy]. unfold th_fun. rewrite Hy. apply (Hok x y Hy).
  - intros x y Hx Hy Hux Huy Heq.
    destruct (Hbl x Hx Hux) as [a Ha]. destruct (Hbl y Hy Huy) as [b Hb].
    unfold th_fun in Heq. rewrite Ha, Hb in Heq. subst b. apply (Hil x y a); assumption.
  - intros x y Hx Hy Hux Huy Heq.
    destruct (Hbr x Hx Hux) as [a Ha]. destruct (Hbr y Hy Huy) as [b Hb].
    unfold th_fun in Heq. rewrite Ha, Hb in Heq. subst b. apply (Hir x y a); assumption.
Qed.

(* ====================================================================== *)
(* 7. matching                                                             *)
(* ====================================================================== *)

Definition fold2 {S : Type} (step : S -> carg -> carg -> option S) :=
  fix go (st : S) (l l' : list carg) : option S :=
    match l, l' with
    | [], [] => Some st
    | x :: r, y :: r' => match step st x y with Some st' => go st' r r' | None => None end
    | _, _ => None
    end.

Lemma match_t_S : forall f d m v a w b,
  match_t (S f) d m (CT v a) (CT w b)
  = if negb (Nat.eqb v w) then None else fold2 (match_a f d) m a b.
Proof. reflexivity. Qed.

Lemma mid_t_S : forall f st v a w b,
  mid_t (S f) st (CT v a) (CT w b)
  = if negb (Nat.eqb v w) then None else fold2 (mid_a f) st a b.
Proof. reflexivity. Qed.

Definition mres_t (d : nat) (m m' : theta) (p t : cterm) : Prop :=
  th_ok d m' /\ th_ext m m' /\ th_bound m' (cnames p) /\
  forall m'', th_ext m' m'' -> cren (lift d (th_fun m'')) p = t.
Definition mres_a (d : nat) (m m' : theta) (p t : carg) : Prop :=
  th_ok d m' /\ th_ext m m' /\ th_bound m' (cnames_arg p) /\
  forall m'', th_ext m' m'' -> cren_arg (lift d (th_fun m'')) p = t.
Definition mres_l (d : nat) (m m' : theta) (p t : list carg) : Prop :=
  th_ok d m' /\ th_ext m m' /\ th_bound m' (flat_map cnames_arg p) /\
  forall m'', th_ext m' m'' -> map (cren_arg (lift d (th_fun m''))) p = t.

Lemma bind_name_sound : forall d m x y m',
  bind_name d m x y = Some m' -> th_ok d m -> mres_a d m m' (CSlot x) (CSlot y).
Proof.
  intros d m x y m' H Hok. unfold bind_name in H. destruct (is_B x) eqn:Hb.
  - destruct (y =? shift_B d x) eqn:He; [|discriminate H]. injection H as <-.
    apply N.eqb_eq in He. split; [exact Hok|]. split; [apply th_ext_refl|]. split.
    + intros x' Hx' Hu. cbn [cnames_arg] in Hx'. destruct Hx' as [<- | []]. congruence.
    + intros m'' _. cbn [cren_arg]. unfold lift. rewrite Hb. congruence.
  - destruct (th_get m x) as [y'|] eqn:Hg.
    + destruct (y =? y') eqn:He; [|discriminate H]. injection H as <-.
      apply N.eqb_eq in He. subst y'. split; [exact Hok|]. split; [apply th_ext_refl|]. split.
      * intros x' Hx' Hu. cbn [cnames_arg] in Hx'. destruct Hx' as [<- | []]. exists y. exact Hg.
      * intros m'' He. cbn [cren_arg]. unfold lift. rewrite Hb. f_equal.
        apply (th_fun_ext m m'' x y He Hg).
    + destruct (is_B y && negb (y <? 4 * N.of_nat d + 3)) eqn:Hc; [discriminate H|].
      injection H as <-. split; [|split; [|split]].
      * apply th_ok_cons; [exact Hok|]. unfold fr, is_B in *. lia.
      * apply th_ext_cons. exact Hg.
      * intros x' Hx' Hu. cbn [cnames_arg] in Hx'. destruct Hx' as [<- | []]. exists y.
        apply th_get_cons_same.
      * intros m'' He. cbn [cren_arg]. unfold lift. rewrite Hb. f_equal.
        apply (th_fun_ext _ m'' x y He). apply th_get_cons_same.
Qed.

Lemma match_list_sound : forall d ma,
  (forall m p t m', ma m p t = Some m' -> th_ok d m -> mres_a d m m' p t) ->
  forall a m b m', fold2 ma m a b = Some m' -> th_ok d m -> mres_l d m m' a b.
Proof.
  intros d ma Hma. induction a as [|x r IH]; intros m b m' H Hok.
  - destruct b as [|y r']; cbn [fold2] in H; [|discriminate H]. injection H as <-.
    split; [exact Hok|]. split; [apply th_ext_refl|]. split.
    + intros x [] _.
    + intros m'' _. reflexivity.
  - destruct b as [|y r']; cbn [fold2] in H; [discriminate H|].
    destruct (ma m x y) as [m1|] eqn:Hx; [|discriminate H].
    destruct (Hma m x y m1 Hx Hok) as [Hok1 [He1 [Hb1 Ha1]]].
    destruct (IH m1 r' m' H Hok1) as [Hok2 [He2 [Hb2 Ha2]]].
    split; [exact Hok2|]. split; [eapply th_ext_trans; eassumption|]. split.
    + intros z Hz Hu. cbn [flat_map] in Hz. apply in_app_or in Hz. destruct Hz as [Hz | Hz].
      * apply (th_bound_ext m1 m' _ Hb1 He2 z Hz Hu).
      * apply (Hb2 z Hz Hu).
    + intros m'' He. cbn [map]. f_equal.
      * apply Ha1. eapply th_ext_trans; eassumption.
      * apply Ha2. exact He.
Qed.

Lemma match_sound : forall fuel d,
  (forall m p t m', match_t fuel d m p t = Some m' -> th_ok d m -> mres_t d m m' p t) /\
  (forall m p t m', match_a fuel d m p t = Some m' -> th_ok d m -> mres_a d m m' p t).
Proof.
  induction fuel as [|f IH]; intro d; [split; intros; discriminate|].
  destruct (IH d) as [IHt IHa]. split.
  - intros m [v a] [w b] m' H Hok. rewrite match_t_S in H.
    destruct (Nat.eqb v w) eqn:Hv; cbn [negb] in H; [|discriminate H].
    apply Nat.eqb_eq in Hv. subst w.
    destruct (match_list_sound d (match_a f d) IHa a m b m' H Hok) as [H1 [H2 [H3 H4]]].
    split; [exact H1|]. split; [exact H2|]. split.
    + rewrite cnames_CT. exact H3.
    + intros m'' He. rewrite cren_CT. f_equal. apply H4. exact He.
  - intros m p t m' H Hok.
    destruct p as [x|s|x|a]; destruct t as [y|u|y|b]; cbn [match_a] in H; try discriminate H.
    + apply bind_name_sound; assumption.
    + destruct (IHt m s u m' H Hok) as [H1 [H2 [H3 H4]]].
      split; [exact H1|]. split; [exact H2|]. split; [exact H3|].
      intros m'' He. cbn [cren_arg]. f_equal. apply H4. exact He.
    + destruct (IHa m x y m' H Hok) as [H1 [H2 [H3 H4]]].
      split; [exact H1|]. split; [exact H2|]. split; [exact H3|].
      intros m'' He. cbn [cren_arg]. f_equal. apply H4. exact He.
    + destruct (pval_eqb a b) eqn:Hp; [|discriminate H]. injection H as <-.
      apply pval_eqb_eq in Hp. subst b.
      split; [exact Hok|]. split; [apply th_ext_refl|]. split.
      * intros z [] _.
      * intros m'' _. reflexivity.
Qed.

Lemma match_t_sound : forall fuel d m p t m',
  match_t fuel d m p t = Some m' -> th_ok d m -> mres_t d m m' p t.
Proof. intros fuel d. exact (proj1 (match_sound fuel d)). Qed.

(* ====================================================================== *)
(* 8. the injectivity checks                                               *)
(* ====================================================================== *)

Lemma existsb_eqb_In : forall x l, existsb (N.eqb x) l = true <-> In x l.
Proof.
  intros x l. rewrite existsb_exists. split.
  - intros [y [Hy He]]. apply N.eqb_eq in He. subst y. exact Hy.
  - intro H. exists x. split; [exact H|apply N.eqb_refl].
Qed.

Lemma nodupN_NoDup : forall l, nodupN l = true -> NoDup l.
Proof.
  induction l as [|x t IH]; intro H; [constructor|].
  cbn [nodupN] in H. apply andb_true_iff in H. destruct H as [H1 H2].
  constructor; [|apply IH; exact H2].
  intro Hin. apply existsb_eqb_In in Hin. rewrite Hin in H1. discriminate H1.
Qed.

Lemma dedup_In : forall l x, In x l -> In x (dedup l).
Proof.
  induction l as [|a l IH]; intros x Hx; [destruct Hx|].
  unfold dedup. cbn [fold_right]. fold (dedup l).
  destruct (existsb (N.eqb a) (dedup l)) eqn:He.
  - destruct Hx as [<- | Hx]; [apply existsb_eqb_In; exact He|apply IH; exact Hx].
  - destruct Hx as [<- | Hx]; [left; reflexivity|right; apply IH; exact Hx].
Qed.

Lemma NoDup_app_disj : forall (l1 l2 : list N) a, NoDup (l1 ++ l2) -> In a l1 -> In a l2 -> False.
Proof.
  induction l1 as [|z l1 IH]; intros l2 a H H1 H2; [destruct H1|].
  cbn [app] in H. inversion H as [|? ? Hn Hd]; subst. destruct H1 as [<- | H1].
  - apply Hn. apply in_or_app. right. exact H2.
  - apply (IH l2 a Hd H1 H2).
Qed.

Lemma NoDup_app_r : forall (l1 l2 : list N), NoDup (l1 ++ l2) -> NoDup l2.
Proof.
  induction l1 as [|z l1 IH]; intros l2 H; [exact H|].
  cbn [app] in H. inversion H; subst. apply IH. assumption.
Qed.

Lemma flat_map_nodup_inj : forall (F : N -> list N) l x y a,
  NoDup (flat_map F l) -> In x l -> In y l -> In a (F x) -> In a (F y) -> x = y.
Proof.
  intros F. induction l as [|z l IH]; intros x y a H Hx Hy Hax Hay; [destruct Hx|].
  cbn [flat_map] in H. destruct Hx as [<- | Hx]; destruct Hy as [<- | Hy].
  - reflexivity.
  - exfalso. apply (NoDup_app_disj _ _ a H Hax). apply in_flat_map. exists y. split; assumption.
  - exfalso. apply (NoDup_app_disj _ _ a H Hay). apply in_flat_map. exists x. split; assumption.
  - apply (IH x y a (NoDup_app_r _ _ H) Hx Hy Hax Hay).
Qed.

Lemma inj_on_sound : forall m t, inj_on m t = true -> inj_prop m (cnames t).
Proof.
  intros m t H x y a Hx Hy Hux Huy Hax Hay. unfold inj_on in H. apply nodupN_NoDup in H.
  apply (flat_map_nodup_inj _ _ x y a H).
  - apply dedup_In. apply filter_In. split; [exact Hx|]. rewrite Hux. reflexivity.
  - apply dedup_In. apply filter_In. split; [exact Hy|]. rewrite Huy. reflexivity.
  - rewrite Hax. left. reflexivity.
  - rewrite Hay. left. reflexivity.
Qed.

Lemma NoDup_snd_inj : forall (m : theta) x y a,
  NoDup (map snd m) -> In (x, a) m -> In (y, a) m -> x = y.
Proof.
  induction m as [|[k v] m IH]; intros x y a H Hx Hy; [destruct Hx|].
  cbn [map snd] in H. inversion H as [|? ? Hn Hd]; subst.
  destruct Hx as [Hx | Hx]; destruct Hy as [Hy | Hy].
  - congruence.
  - exfalso. injection Hx as -> ->. apply Hn. apply (in_map snd _ _ Hy).
  - exfalso. injection Hy as -> ->. apply Hn. apply (in_map snd _ _ Hx).
  - apply (IH x y a Hd Hx Hy).
Qed.

(* ====================================================================== *)
(* 9. match2 / match2_strict                                               *)
(* ====================================================================== *)

Lemma match2_core : forall E d f1 f2 l r l' r' m1 m2,
  match_t f1 d [] l l' = Some m1 -> match_t f2 d m1 r r' = Some m2 ->
  inj_prop m2 (cnames l) -> inj_prop m2 (cnames r) ->
  Deriv E 0 l r -> Deriv E d l' r'.
Proof.
  intros E d f1 f2 l r l' r' m1 m2 M1 M2 Il Ir HD.
  destruct (match_t_sound _ _ _ _ _ _ M1 (th_ok_nil d)) as [Hok1 [_ [Hb1 Ha1]]].
  destruct (match_t_sound _ _ _ _ _ _ M2 Hok1) as [Hok2 [He2 [Hb2 Ha2]]].
  rewrite <- (Ha1 m2 He2). rewrite <- (Ha2 m2 (th_ext_refl m2)).
  apply inst_by_theta; try assumption.
  apply (th_bound_ext m1 m2 _ Hb1 He2).
Qed.

Lemma match2_sound : forall E d l r l' r',
  match2 d l r l' r' = true -> Deriv E 0 l r -> Deriv E d l' r'.
Proof.
  intros E d l r l' r' H HD. unfold match2 in H.
  destruct (match_t (tfuel l) d [] l l') as [m1|] eqn:M1; [|discriminate H].
  destruct (match_t (tfuel r) d m1 r r') as [m2|] eqn:M2; [|discriminate H].
  apply andb_true_iff in H. destruct H as [Hl Hr].
  apply (match2_core E d _ _ l r l' r' m1 m2 M1 M2); [apply inj_on_sound; exact Hl|apply inj_on_sound; exact Hr|exact HD].
Qed.

Lemma match2_strict_sound : forall E l r l' r',
  match2_strict l r l' r' = true -> Deriv E 0 l r -> Deriv E 0 l' r'.
Proof.
  intros E l r l' r' H HD. unfold match2_strict in H.
  destruct (match_t (tfuel l) 0 [] l l') as [m1|] eqn:M1; [|discriminate H].
  destruct (match_t (tfuel r) 0 m1 r r') as [m2|] eqn:M2; [|discriminate H].
  apply andb_true_iff in H. destruct H as [Hn _]. apply nodupN_NoDup in Hn.
  assert (Hi : forall ns, inj_prop m2 ns).
  { intros ns x y a _ _ _ _ Hx Hy. apply (NoDup_snd_inj m2 x y a Hn); apply th_get_In; assumption. }
  apply (match2_core E 0 _ _ l r l' r' m1 m2 M1 M2 (Hi _) (Hi _) HD).
Qed.

(* ====================================================================== *)
(* 10. transitivity: the middle term                                       *)
(* ====================================================================== *)

Definition mstate := (theta * theta * N)%type.
Definition st1 (st : mstate) : theta := fst (fst st).
Definition st2 (st : mstate) : theta := snd (fst st).
Definition st3 (st : mstate) : N := snd st.

Definition mid_inv (st : mstate) : Prop :=
  th_ok 0 (st1 st) /\ th_ok 0 (st2 st) /\ is_B (st3 st) = false.

Definition mid_res_t (st st' : mstate) (p q : cterm) : Prop :=
  mid_inv st' /\ th_ext (st1 st) (st1 st') /\ th_ext (st2 st) (st2 st') /\
  th_bound (st1 st') (cnames p) /\ th_bound (st2 st') (cnames q) /\
  forall n1 n2, th_ext (st1 st') n1 -> th_ext (st2 st') n2 ->
    cren (lift 0 (th_fun n1)) p = cren (lift 0 (th_fun n2)) q.
Definition mid_res_a (st st' : mstate) (p q : carg) : Prop :=
  mid_inv st' /\ th_ext (st1 st) (st1 st') /\ th_ext (st2 st) (st2 st') /\
  th_bound (st1 st') (cnames_arg p) /\ th_bound (st2 st') (cnames_arg q) /\
  forall n1 n2, th_ext (st1 st') n1 -> th_ext (st2 st') n2 ->
    cren_arg (lift 0 (th_fun n1)) p = cren_arg (lift 0 (th_fun n2)) q.
Definition mid_res_l (st st' : mstate) (p q : list carg) : Prop :=
  mid_inv st' /\ th_ext (st1 st) (st1 st') /\ th_ext (st2 st) (st2 st') /\
  th_bound (st1 st') (flat_map cnames_arg p) /\ th_bound (st2 st') (flat_map cnames_arg q) /\
  forall n1 n2, th_ext (st1 st') n1 -> th_ext (st2 st') n2 ->
    map (cren_arg (lift 0 (th_fun n1))) p = map (cren_arg (lift 0 (th_fun n2))) q.

Lemma bound_single : forall m x y, th_get m x = Some y -> th_bound m (cnames_arg (CSlot x)).
Proof.
  intros m x y H x' Hx' _. cbn [cnames_arg] in Hx'. destruct Hx' as [<- | []]. exists y. exact H.
Qed.

Lemma mid_name_sound : forall d0 st x y st',
  mid_name d0 st x y = Some st' -> mid_inv st -> mid_res_a st st' (CSlot x) (CSlot y).
Proof.
  intros d0 [[m1 m2] fresh] x y st' H [Hok1 [Hok2 Hfr]].
  unfold st1, st2, st3 in Hok1, Hok2, Hfr. cbn [fst snd] in Hok1, Hok2, Hfr.
  unfold mid_name in H. destruct (is_B x || is_B y) eqn:Hb.
  - destruct (x =? y) eqn:He; [|discriminate H]. injection H as <-. apply N.eqb_eq in He. subst y.
    assert (Hbx : is_B x = true) by (destruct (is_B x); [reflexivity|discriminate Hb]).
    split; [repeat split; assumption|]. split; [apply th_ext_refl|]. split; [apply th_ext_refl|].
    split; [|split].
    + intros x' Hx' Hu. cbn [cnames_arg] in Hx'. destruct Hx' as [<- | []]. congruence.
    + intros x' Hx' Hu. cbn [cnames_arg] in Hx'. destruct Hx' as [<- | []]. congruence.
    + intros n1 n2 _ _. cbn [cren_arg]. unfold lift. rewrite Hbx. reflexivity.
  - apply orb_false_elim in Hb. destruct Hb as [Hbx Hby].
    assert (Hagree : forall (k1 k2 : theta) a, th_get k1 x = Some a -> th_get k2 y = Some a ->
              forall n1 n2, th_ext k1 n1 -> th_ext k2 n2 ->
              cren_arg (lift 0 (th_fun n1)) (CSlot x) = cren_arg (lift 0 (th_fun n2)) (CSlot y)).
    { intros k1 k2 a H1 H2 n1 n2 E1 E2. cbn [cren_arg]. unfold lift. rewrite Hbx, Hby. f_equal.
      rewrite (th_fun_ext k1 n1 x a E1 H1), (th_fun_ext k2 n2 y a E2 H2). reflexivity. }
    destruct (th_get m1 x) as [a|] eqn:G1; destruct (th_get m2 y) as [b|] eqn:G2.
    + destruct (a =? b) eqn:He; [|discriminate H]. injection H as <-. apply N.eqb_eq in He. subst b.
      split; [repeat split; assumption|]. split; [apply th_ext_refl|]. split; [apply th_ext_refl|].
      split; [apply (bound_single _ _ _ G1)|]. split; [apply (bound_single _ _ _ G2)|].
      apply (Hagree m1 m2 a G1 G2).
    + injection H as <-. unfold mid_res_a, mid_inv, st1, st2, st3. cbn [fst snd].
      split; [split; [exact Hok1|split; [|exact Hfr]]|].
      { apply th_ok_cons; [exact Hok2|]. apply (Hok1 x a G1). }
      split; [apply th_ext_refl|]. split; [apply th_ext_cons; exact G2|].
      split; [apply (bound_single _ _ _ G1)|].
      split; [apply (bound_single _ _ a (th_get_cons_same m2 y a))|].
      apply (Hagree m1 ((y, a) :: m2) a G1 (th_get_cons_same m2 y a)).
    + injection H as <-. unfold mid_res_a, mid_inv, st1, st2, st3. cbn [fst snd].
      split; [split; [|split; [exact Hok2|exact Hfr]]|].
      { apply th_ok_cons; [exact Hok1|]. apply (Hok2 y b G2). }
      split; [apply th_ext_cons; exact G1|]. split; [apply th_ext_refl|].
      split; [apply (bound_single _ _ b (th_get_cons_same m1 x b))|].
      split; [apply (bound_single _ _ _ G2)|].
      apply (Hagree ((x, b) :: m1) m2 b (th_get_cons_same m1 x b) G2).
    + injection H as <-. unfold mid_res_a, mid_inv, st1, st2, st3. cbn [fst snd].
      assert (Hf0 : fr 0 fresh) by (apply fr_0; exact Hfr).
      split; [split; [|split]|].
      { apply th_ok_cons; assumption. }
      { apply th_ok_cons; assumption. }
      { unfold is_B in *. lia. }
      split; [apply th_ext_cons; exact G1|]. split; [apply th_ext_cons; exact G2|].
      split; [apply (bound_single _ _ fresh (th_get_cons_same m1 x fresh))|].
      split; [apply (bound_single _ _ fresh (th_get_cons_same m2 y fresh))|].
      apply (Hagree ((x, fresh) :: m1) ((y, fresh) :: m2) fresh
               (th_get_cons_same m1 x fresh) (th_get_cons_same m2 y fresh)).
Qed.

Lemma mid_list_sound : forall (ma : mstate -> carg -> carg -> option mstate),
  (forall st p q st', ma st p q = Some st' -> mid_inv st -> mid_res_a st st' p q) ->
  forall a st b st', fold2 ma st a b = Some st' -> mid_inv st -> mid_res_l st st' a b.
Proof.
  intros ma Hma. induction a as [|x r IH]; intros st b st' H Hinv.
  - destruct b as [|y r']; cbn [fold2] in H; [|discriminate H]. injection H as <-.
    split; [exact Hinv|]. split; [apply th_ext_refl|]. split; [apply th_ext_refl|].
    split; [intros z [] _|]. split; [intros z [] _|]. intros; reflexivity.
  - destruct b as [|y r']; cbn [fold2] in H; [discriminate H|].
    destruct (ma st x y) as [s1|] eqn:Hx; [|discriminate H].
    destruct (Hma st x y s1 Hx Hinv) as [Hi1 [E1 [F1 [B1 [C1 A1]]]]].
    destruct (IH s1 r' st' H Hi1) as [Hi2 [E2 [F2 [B2 [C2 A2]]]]].
    split; [exact Hi2|]. split; [eapply th_ext_trans; eassumption|].
    split; [eapply th_ext_trans; eassumption|]. split; [|split].
    + intros z Hz Hu. cbn [flat_map] in Hz. apply in_app_or in Hz. destruct Hz as [Hz | Hz].
      * apply (th_bound_ext _ _ _ B1 E2 z Hz Hu).
      * apply (B2 z Hz Hu).
    + intros z Hz Hu. cbn [flat_map] in Hz. apply in_app_or in Hz. destruct Hz as [Hz | Hz].
      * apply (th_bound_ext _ _ _ C1 F2 z Hz Hu).
      * apply (C2 z Hz Hu).
    + intros n1 n2 G1 G2. cbn [map]. f_equal.
      * apply A1; eapply th_ext_trans; eassumption.
      * apply A2; assumption.
Qed.

Lemma mid_sound : forall fuel,
  (forall st p q st', mid_t fuel st p q = Some st' -> mid_inv st -> mid_res_t st st' p q) /\
  (forall st p q st', mid_a fuel st p q = Some st' -> mid_inv st -> mid_res_a st st' p q).
Proof.
  induction fuel as [|f IH]; [split; intros; discriminate|].
  destruct IH as [IHt IHa]. split.
  - intros st [v a] [w b] st' H Hinv. rewrite mid_t_S in H.
    destruct (Nat.eqb v w) eqn:Hv; cbn [negb] in H; [|discriminate H].
    apply Nat.eqb_eq in Hv. subst w.
    destruct (mid_list_sound (mid_a f) IHa a st b st' H Hinv) as [H1 [H2 [H3 [H4 [H5 H6]]]]].
    split; [exact H1|]. split; [exact H2|]. split; [exact H3|].
    split; [rewrite cnames_CT; exact H4|]. split; [rewrite cnames_CT; exact H5|].
    intros n1 n2 G1 G2. rewrite !cren_CT. f_equal. apply H6; assumption.
  - intros st p q st' H Hinv.
    destruct p as [x|s|x|a]; destruct q as [y|u|y|b]; cbn [mid_a] in H; try discriminate H.
    + apply (mid_name_sound 0); assumption.
    + destruct (IHt st s u st' H Hinv) as [H1 [H2 [H3 [H4 [H5 H6]]]]].
      split; [exact H1|]. split; [exact H2|]. split; [exact H3|]. split; [exact H4|].
      split; [exact H5|]. intros n1 n2 G1 G2. cbn [cren_arg]. f_equal. apply H6; assumption.
    + destruct (IHa st x y st' H Hinv) as [H1 [H2 [H3 [H4 [H5 H6]]]]].
      split; [exact H1|]. split; [exact H2|]. split; [exact H3|]. split; [exact H4|].
      split; [exact H5|]. intros n1 n2 G1 G2. cbn [cren_arg]. f_equal. apply H6; assumption.
    + destruct (pval_eqb a b) eqn:Hp; [|discriminate H]. injection H as <-.
      apply pval_eqb_eq in Hp. subst b.
      split; [exact Hinv|]. split; [apply th_ext_refl|]. split; [apply th_ext_refl|].
      split; [intros z [] _|]. split; [intros z [] _|]. intros; reflexivity.
Qed.

Lemma check_trans_sound : forall E l1 r1 l2 r2 tl tr,
  check_trans l1 r1 l2 r2 tl tr = true ->
  Deriv E 0 l1 r1 -> Deriv E 0 l2 r2 -> Deriv E 0 tl tr.
Proof.
  intros E l1 r1 l2 r2 tl tr H D1 D2. unfold check_trans in H.
  destruct (match_t (tfuel l1) 0 [] l1 tl) as [m1|] eqn:M1; [|discriminate H].
  destruct (match_t (tfuel r2) 0 [] r2 tr) as [m2|] eqn:M2; [|discriminate H].
  cbv zeta in H.
  match type of H with context [mid_t _ (m1, m2, ?c) r1 l2] => set (fresh := c) in H end.
  assert (Hfr : is_B fresh = false) by (subst fresh; unfold is_B; lia).
  destruct (mid_t (tfuel r1) (m1, m2, fresh) r1 l2) as [[[m1' m2'] fresh']|] eqn:Mid; [|discriminate H].
  apply andb_true_iff in H. destruct H as [H Hi4].
  apply andb_true_iff in H. destruct H as [H Hi3].
  apply andb_true_iff in H. destruct H as [Hi1 Hi2].
  apply inj_on_sound in Hi1, Hi2, Hi3, Hi4.
  destruct (match_t_sound _ _ _ _ _ _ M1 (th_ok_nil 0)) as [Hok1 [_ [Hb1 Ha1]]].
  destruct (match_t_sound _ _ _ _ _ _ M2 (th_ok_nil 0)) as [Hok2 [_ [Hb2 Ha2]]].
  assert (Hinv : mid_inv (m1, m2, fresh)) by (repeat split; assumption).
  destruct (proj1 (mid_sound _) _ _ _ _ Mid Hinv) as [[Hok1' [Hok2' _]] [E1 [E2 [B1 [B2 Hmid]]]]].
  unfold st1, st2 in Hok1', Hok2', E1, E2, B1, B2, Hmid. cbn [fst snd] in Hok1', Hok2', E1, E2, B1, B2, Hmid.
  pose proof (inst_by_theta E 0 l1 r1 m1' D1 Hok1' (th_bound_ext _ _ _ Hb1 E1) B1 Hi1 Hi2) as Da.
  pose proof (inst_by_theta E 0 l2 r2 m2' D2 Hok2' B2 (th_bound_ext _ _ _ Hb2 E2) Hi3 Hi4) as Db.
  rewrite (Ha1 m1' E1) in Da. rewrite (Ha2 m2' E2) in Db.
  rewrite (Hmid m1' m2' (th_ext_refl _) (th_ext_refl _)) in Da.
  eapply D_trans; eassumption.
Qed.

(* ====================================================================== *)
(* 11. congruence                                                          *)
(* ====================================================================== *)

Definition all_deriv (E : equations) (prems : list (cterm * cterm)) : Prop :=
  forall l r, In (l, r) prems -> Deriv E 0 l r.

Lemma cong_a_sound : forall E fuel d prems a b rest,
  cong_a fuel d prems a b = Some rest -> all_deriv E prems ->
  DerivArg E d a b /\ all_deriv E rest.
Proof.
  intros E. induction fuel as [|f IH]; intros d prems a b rest H Hp; [discriminate H|].
  destruct a as [x|s|x|p]; destruct b as [y|t|y|q]; cbn [cong_a] in H; try discriminate H.
  - destruct (x =? y) eqn:He; [|discriminate H]. injection H as <-. apply N.eqb_eq in He. subst y.
    split; [apply DA_slot|exact Hp].
  - destruct prems as [|[l r] rest0]; [discriminate H|].
    destruct (match2 d l r s t) eqn:Hm; [|discriminate H]. injection H as <-. split.
    + apply DA_child. apply (match2_sound E d l r s t Hm). apply Hp. left. reflexivity.
    + intros l0 r0 Hin. apply Hp. right. exact Hin.
  - destruct (IH (S d) prems x y rest H Hp) as [Hd Hr]. split; [apply DA_bind; exact Hd|exact Hr].
  - destruct (pval_eqb p q) eqn:He; [|discriminate H]. injection H as <-.
    apply pval_eqb_eq in He. subst q. split; [apply DA_pay|exact Hp].
Qed.

Lemma cong_args_sound : forall E d l prems l' rest,
  cong_args d prems l l' = Some rest -> all_deriv E prems ->
  DerivArgs E d l l' /\ all_deriv E rest.
Proof.
  intros E d. induction l as [|a r IH]; intros prems l' rest H Hp.
  - destruct l' as [|b r']; cbn [cong_args] in H; [|discriminate H]. injection H as <-.
    split; [apply DAs_nil|exact Hp].
  - destruct l' as [|b r']; cbn [cong_args] in H; [discriminate H|].
    destruct (cong_a (S (length (cnames_arg a)) + 8) d prems a b) as [rest1|] eqn:Ha; [|discriminate H].
    destruct (cong_a_sound E _ d prems a b rest1 Ha Hp) as [Hd Hp1].
    destruct (IH rest1 r' rest H Hp1) as [Hds Hp2].
    split; [apply DAs_cons; assumption|exact Hp2].
Qed.

Lemma check_cong_sound : forall E prems tl tr,
  check_cong prems tl tr = true -> all_deriv E prems -> Deriv E 0 tl tr.
Proof.
  intros E prems [v a] [w b] H Hp. unfold check_cong in H.
  apply andb_true_iff in H. destruct H as [Hv H]. apply Nat.eqb_eq in Hv. subst w.
  destruct (cong_args 0 prems a b) as [rest|] eqn:Hc; [|discriminate H].
  apply D_cong. apply (cong_args_sound E 0 a prems b rest Hc Hp).
Qed.

(* ====================================================================== *)
(* 12. the checker                                                         *)
(* ====================================================================== *)

Lemma nth_opt_In : forall (A : Type) (l : list A) i x, nth_opt l i = Some x -> In x l.
Proof.
  intros A. induction l as [|a l IH]; intros i x H; [discriminate H|].
  destruct i as [|i]; cbn [nth_opt] in H.
  - injection H as <-. left. reflexivity.
  - right. apply (IH i x H).
Qed.

Lemma eq_of_sound : forall E done i l r,
  (forall n, In n done -> Deriv E 0 (pl n) (pr n)) ->
  eq_of done i = Some (l, r) -> Deriv E 0 l r.
Proof.
  intros E done i l r Hd H. unfold eq_of in H.
  destruct (nth_opt done i) as [n|] eqn:Hn; [|discriminate H].
  injection H as <- <-. apply Hd. apply (nth_opt_In _ _ _ _ Hn).
Qed.

Lemma eqs_of_sound : forall E done,
  (forall n, In n done -> Deriv E 0 (pl n) (pr n)) ->
  forall ps prems, eqs_of done ps = Some prems -> all_deriv E prems.
Proof.
  intros E done Hd. induction ps as [|i t IH]; intros prems H.
  - cbn [eqs_of] in H. injection H as <-. intros l r [].
  - cbn [eqs_of] in H. destruct (eq_of done i) as [[l0 r0]|] eqn:He; [|discriminate H].
    destruct (eqs_of done t) as [rest|] eqn:Hr; [|discriminate H]. injection H as <-.
    intros l r [Hin | Hin].
    + injection Hin as <- <-. apply (eq_of_sound E done i _ _ Hd He).
    + apply (IH rest eq_refl l r Hin).
Qed.

Lemma lift0_id : forall t, cren (lift 0 (fun x => x)) t = t.
Proof.
  intro t. apply cren_id. intros x _. unfold lift, shift_B. destruct (is_B x); [lia|reflexivity].
Qed.

Lemma Deriv_asserted : forall E l r, In (l, r) E -> Deriv E 0 l r.
Proof.
  intros E l r Hin. rewrite <- (lift0_id l), <- (lift0_id r). apply D_ax; [exact Hin|]. split.
  - intros x y _ _ _ _ H. exact H.
  - intros x _ Hu. left. exact Hu.
Qed.

Lemma check_node_sound : forall A done n,
  (forall n, In n done -> Deriv (eqs_of_asserted A) 0 (pl n) (pr n)) ->
  check_node A done n = true -> Deriv (eqs_of_asserted A) 0 (pl n) (pr n).
Proof.
  intros A done n Hd H. unfold check_node in H. destruct (pst n) as [j| |p|p q|ps].
  - apply existsb_exists in H. destruct H as [[[l r] j'] [Hin H]].
    apply andb_true_iff in H. destruct H as [_ Hm].
    apply (match2_sound _ 0 l r _ _ Hm). apply Deriv_asserted.
    unfold eqs_of_asserted. apply in_map_iff. exists (l, r, j'). split; [reflexivity|exact Hin].
  - apply cterm_eqb_eq in H. rewrite H. apply D_refl.
  - destruct (eq_of done p) as [[l r]|] eqn:He; [|discriminate H].
    apply (match2_sound _ 0 r l _ _ H). apply D_sym. apply (eq_of_sound _ done p l r Hd He).
  - destruct (eq_of done p) as [[l1 r1]|] eqn:He1; [|discriminate H].
    destruct (eq_of done q) as [[l2 r2]|] eqn:He2; [|discriminate H].
    apply (check_trans_sound _ l1 r1 l2 r2 _ _ H).
    + apply (eq_of_sound _ done p l1 r1 Hd He1).
    + apply (eq_of_sound _ done q l2 r2 Hd He2).
  - destruct (eqs_of done ps) as [prems|] eqn:He; [|discriminate H].
    apply (check_cong_sound _ prems _ _ H). apply (eqs_of_sound _ done Hd ps prems He).
Qed.

Theorem check_nodes_sound : forall A done todo,
  (forall n, In n done -> Deriv (eqs_of_asserted A) 0 (pl n) (pr n)) ->
  check_nodes A done todo = true ->
  forall n, In n todo -> Deriv (eqs_of_asserted A) 0 (pl n) (pr n).
Proof.
  intros A done todo. revert done. induction todo as [|m t IH]; intros done Hd H n Hn; [destruct Hn|].
  cbn [check_nodes] in H. apply andb_true_iff in H. destruct H as [Hm Ht].
  pose proof (check_node_sound A done m Hd Hm) as Dm.
  destruct Hn as [<- | Hn]; [exact Dm|].
  apply (IH (done ++ [m])); [|exact Ht|exact Hn].
  intros n' Hn'. apply in_app_or in Hn'. destruct Hn' as [Hn' | [<- | []]]; [apply Hd; exact Hn'|exact Dm].
Qed.

Theorem check_proof_sound : forall A p ql qr,
  check_proof A p ql qr = true -> Deriv (eqs_of_asserted A) 0 ql qr.
Proof.
  intros A p ql qr H. unfold check_proof in H. apply andb_true_iff in H. destruct H as [Hn Hq].
  destruct (rev p) as [|n t] eqn:Hr; [discriminate Hq|].
  apply (match2_strict_sound _ (pl n) (pr n) ql qr Hq).
  apply (check_nodes_sound A [] p); [intros n' []|exact Hn|].
  apply in_rev. rewrite Hr. left. reflexivity.
Qed.

Print Assumptions Deriv_inst.
Print Assumptions check_nodes_sound.
Print Assumptions check_proof_sound.
