(* Extract/CertMachine.v — machine `egtc`: for one history, build the extractor table of the model for each of the
   three cost functions and evaluate the CERTIFICATE checkers of Extract/ExtractorFacts.v on it:
     table_okb   (sound without any hypothesis on the state: table_okb_sound => the table is exactly the minimum
                  derivation cost of every class of the state's and-or graph),
     extract_okb (=> the cost of every extracted term is the table value: extract_cheapest_checked),
     usages_okb  (the hypothesis of the bridge theorem extractor_new_eq_lazy_run, for information). *)
From SE Require Import EGraph.ModelMachine Extract.Extractor Extract.ExtractMachine Extract.ExtractorFacts.

Definition cert_cf (last : bool) (cf : nat) (s : egraph) : sexp :=
  match extractor_new last cf s with
  | Ok (m, _) => Lst [Sym "cf"; Num (N.of_nat cf); sbool (table_okb s cf m); sbool (extract_okb s cf m)]
  | Err e => Lst [Sym "cf"; Num (N.of_nat cf); Sym "err"; site_sexp e]
  end.

Definition run_egtc (args : list sexp) : sexp :=
  match args with
  | _ :: Lst (Sym "terms" :: ts) :: Lst (Sym "ops" :: os) :: _ =>
      match dec_rterms ts, dec_hops os with
      | Some rts, Some ops =>
          match run_ops rts ops [] empty_egraph with
          | Err e => Lst [Sym "cert"; Sym "history-error"]
          | Ok (hs, s) =>
              Lst [Sym "cert"; Lst [Sym "usages"; sbool (usages_okb s)];
                   cert_cf false 0 s; cert_cf false 1 s; cert_cf false 2 s; cert_cf true 2 s]
          end
      | _, _ => Sym "bad-case"
      end
  | _ => Sym "bad-case"
  end.
