(* Extract/ExtractMachine.v — the extraction model as a correspondence machine: decode a history
   `(egt (cfg c e) (terms T...) (ops OP...) motif)`, run it on EGraph/Model.v, build the extraction
   table for the three cost functions and print the observation line of /verif/harness/src/egt.rs:
   per cost function and handle the best cost and the three validation flags
     (a) cost_rec of the extracted term = best cost,
     (b) the extracted term is looked up to an invocation equal to the handle,
     (c) every free slot of the extracted term is a slot of the handle or fresh.
   The flags are computed here on the MODEL's extracted term (first minimal entry of the queue). *)
From SE Require Export Extract.Extractor EGraph.ModelMachine.

Definition egt_handle (cf : nat) (map : emap) (h : appid) : M sexp :=
  dom f <- reads (fun s => find_applied_id s h);
  dom best <- reads (fun _ => get_best_cost map f);
  dom t <- extract 200 map h;
  dom c <- reads (fun _ => cost_rec cf t);
  dom lk <- reads (fun s => lookup_rec_expr s t);
  dom fb <- match lk with
            | Some x => reads (fun s => eg_eq s x h)
            | None => ret false
            end;
  let hs := values (am h) in
  let fc := forallb (fun x => sset_mem x hs || is_fresh_slot x) (rfree t) in
  (* the cost is rendered by the model (`dec`): the u64 range exceeds the driver's native integers *)
  ret (Lst [Sym "h"; Sym (dec best); sbool (c =? best); sbool fb; sbool fc]).

Definition egt_cf (last : bool) (cf : nat) (hs : list appid) (s : egraph) : sexp :=
  let r := (dom map <- extractor_new last cf; mapM (egt_handle cf map) hs) s in
  match r with
  | Ok (l, _) => Lst (Sym "cf" :: Num (N.of_nat cf) :: l)
  | Err e => Lst [Sym "cf"; Num (N.of_nat cf); Lst [Sym "err"; Sym "model"; site_sexp e]]
  end.

(* case: (egt cfg (terms ...) (ops ...) motif); head symbol `egtl`: the same with the other tie-break *)
Definition run_egt (last : bool) (args : list sexp) : sexp :=
  match args with
  | _ :: Lst (Sym "terms" :: ts) :: Lst (Sym "ops" :: os) :: _ =>
      match dec_rterms ts, dec_hops os with
      | Some rts, Some ops =>
          match run_ops rts ops [] empty_egraph with
          | Err e => Lst [Sym "obs"; Lst [Sym "res"; Sym "err"; Sym "model"; site_sexp e]]
          | Ok (hs, s) =>
              Lst [Sym "obs"; Lst [Sym "res"; Sym "ok"]; egt_cf last 0 hs s; egt_cf last 1 hs s; egt_cf last 2 hs s]
          end
      | _, _ => Sym "bad-case"
      end
  | _ => Sym "bad-case"
  end.
