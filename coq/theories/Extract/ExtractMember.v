(* Extract/ExtractMember.v — C06, MEMBERSHIP OF THE EXTRACTED TERM, for every state that satisfies the reachable-state
   invariants `extract_inv` (Extract/ExtractorReach.v), hence for every reachable state.

   `extract_member_inv`: let (m, s0) = extractor_new last cf s.  For every invocation i that covers its class, whose
   slots are OLDER THAN THE EXTRACTOR (every value of its map is below the counter of s), every fuel and every state s1
   that differs from s only in the counter, with ctr s0 <= ctr s1 (the global fresh-slot counter never goes back):
       extract fuel m i s1 = Ok (t, s1')  ->  rep s t i,
   i.e. (CongruenceFacts.rep)  covers s i /\ exists x, lookup_rec s t = Ok (Some x) /\ eg_eq s x i = Ok true:
   the extracted term is FOUND in the e-graph by `lookup_rec_expr`, and the invocation found is EQUAL to the query.
   The lookup is evaluated in s; s, s0, s1, s1' differ in the fresh-slot counter only and the lookup does not read it
   (`lookup_rec_ctr_only`).  Hence (`extract_reinsert_inv`, by CongruenceFacts.reinsert_equal) re-inserting t creates
   nothing and returns an invocation equal to i.
   `extract_member_general`: the same for queries whose slots are merely below the current counter and AVOID the binder
   names of the table nodes (the premise the induction needs: the child invocations carry binder names of the table).
   `extract_member_reachable`, `extract_member_static`: for every history (`ops_pre` + kids premise / `term_static`).

   Route (induction on the fuel).  find i = i' (a leader's canonical invocation), the table node n of class j = aid i'
   satisfies `nf_facts` (Extract/ExtractMemberTable.v: `tbl_inv`): its lookup is an invocation of j equal to the identity
   invocation.  l = apply_slotmap_fresh (am i') n is a capture-free injective renaming ren g n (NfOk.asf_clean_ren; no
   capture because the query avoids the binder names of n and fresh names are above them), so the lookup of l is an
   invocation equal to i' (Extract/ExtractMemberLookup.v `nf_apply_query`).  The children of l are renamed children of
   n: leaders' invocations that cover (`kids_ren`), of classes tabled strictly earlier (`ti_rank`), whose values are
   query values, fresh names, or binder names of n — all of which avoid the binder names of the earlier table nodes
   (`ti_dis`): the induction hypothesis applies, and RepFacts.node_rep assembles the term. *)
From SE Require Import Slots.SlotMapFacts Lang.LangFacts Lang.RenameFacts
  EGraph.Model EGraph.ModelMachine EGraph.ModelFacts EGraph.UnionFindFacts EGraph.InvariantFacts
  EGraph.UnionInvariantFacts EGraph.AddCoversFacts EGraph.HashconsShape EGraph.HashconsFacts EGraph.Model9
  EGraph.MonotoneFacts EGraph.MatchDefs EGraph.MatchFacts EGraph.CongruenceFacts EGraph.SelfSymFacts EGraph.MatchReprFacts
  EGraph.RepFacts EGraph.OpsPreFacts EGraph.SoundAddExpr EGraph.KidsFacts EGraph.Mod4Facts EGraph.SoundVals
  Extract.Extractor Extract.ExtractorFacts Extract.ExtractorBridgeUp Extract.NfOk Extract.ExtractorReach
  Extract.ExtractMemberDefs Extract.ExtractMemberNf Extract.ExtractMemberLookup Extract.ExtractMemberTable.
Require Import ZArith Lia List.
Import ListNotations.

Local Notation "a ** b" := (compose_partial a b) (at level 40, left associativity).

(* ------------------------------------------------------------------ *)
(* 1. small facts *)

Lemma compose_partial_val : forall a b k v, get (a ** b) k = Some v -> exists y, get b y = Some v.
Proof.
  intros a b k v H. unfold compose_partial in H. rewrite get_from_iter in H. apply assoc_last_in in H.
  apply in_flat_map in H. destruct H as ([k0 y] & _ & H). cbn [fst snd] in H.
  destruct (get b y) as [z|] eqn:E; [|destruct H]. destruct H as [H|[]]. inversion H; subst. exists y. exact E.
Qed.

Lemma find_val : forall s i i' k v, find_applied_id s i = Ok i' -> get (am i') k = Some v -> exists y, get (am i) y = Some v.
Proof.
  intros s i i' k v H G. unfold find_applied_id in H. destruct (unionfind_get s (aid i)) as [p|]; cbn [bind] in H; [|discriminate].
  inversion H; subst i'. cbn [am] in G. exact (compose_partial_val _ _ _ _ G).
Qed.

Lemma find_ctr_only : forall s s1 i, ctr_only s s1 -> find_applied_id s1 i = find_applied_id s i.
Proof. intros s s1 i [c ->]. reflexivity. Qed.

Lemma tbl_inv_of_new : forall s cf last m s0, extract_inv s -> extractor_new last cf s = Ok (m, s0) ->
  tbl_inv s s0 m /\ cup s s0.
Proof.
  intros s cf last m s0 XI H.
  exact (tbl_inv_new0 s cf XI (nf_stored_facts s (xi_match s XI) (xi_ss s XI)) last m s0 H).
Qed.

Lemma good_of_inv : forall s, extract_inv s -> good s.
Proof.
  intros s [[I3 K0 M4 Hhc Hpe Hl] SS _ _]. split; [|exact SS]. split; [exact I3|]. split; [exact Hpe|]. split; [exact Hhc|exact M4].
Qed.

Lemma Forall2_swap : forall (A B : Type) (R : A -> B -> Prop) l l', Forall2 R l l' -> Forall2 (fun y x => R x y) l' l.
Proof. intros A B R l l' F. induction F; constructor; assumption. Qed.

(* the free slots of a term: the public slots of the root over identity invocations on the free slots of the children *)
Definition rfree_kids (ch : list rterm) : list appid := map (fun c => {| aid := 0; am := identity (rfree c) |}) ch.

Lemma rfree_unfold : forall n ch, rfree (RT n ch) = slots (set_apps n (rfree_kids ch)).
Proof.
  intros n ch. cbn [rfree]. reflexivity.
Qed.

(* ------------------------------------------------------------------ *)
(* 2. the induction *)

Section Member.
  Variable s : egraph.
  Hypothesis XI : extract_inv s.
  Variable m : emap.
  Variable s0 : egraph.
  Hypothesis TI : tbl_inv s s0 m.
  Hypothesis C0 : cup s s0.

  (* the values of the map of i are not binder names of the table nodes of index <= k *)
  Definition avoid (k : nat) (i : appid) : Prop :=
    forall j' n' c' k', emap_get m j' = Some (n', c') -> emap_idx m j' = Some k' -> (k' <= k)%nat ->
      forall x v, get (am i) x = Some v -> ~ In v (binders n').

  (* the threaded state: s up to the counter, which is not below the counter after `extractor_new` *)
  Definition cge (s1 : egraph) : Prop := cup s s1 /\ Model.ctr s0 <= Model.ctr s1.

  Lemma extract_member_aux : forall fuel i s1 t s1' i' k,
    cge s1 -> covers s i -> (forall x v, get (am i) x = Some v -> v < Model.ctr s1) ->
    find_applied_id s i = Ok i' -> emap_idx m (aid i') = Some k -> avoid k i ->
    extract fuel m i s1 = Ok (t, s1') ->
    cge s1' /\ Model.ctr s1 <= Model.ctr s1' /\ rep s t i /\
    (forall v, In v (rfree t) -> (exists y, get (am i') y = Some v) \/ Model.ctr s1 <= v).
  Proof.
    pose proof (good_of_inv s XI) as GD.
    destruct (good_parts s GD) as (I3 & EI & NO & Hhc & Hpe & SS).
    pose proof (xi_match s XI) as MI.
    induction fuel as [|f IH]; intros i s1 t s1' i' k CG Ci QB Fi Ik AV H; cbn [extract] in H; [discriminate|].
    destruct CG as [CU LE0].
    apply mbind_inv in H. destruct H as (i1 & s2 & Hf & H). apply reads_inv in Hf. destruct Hf as [Hf ->].
    rewrite (find_ctr_only s s1 i (cup_ctr_only _ _ CU)), Fi in Hf. inversion Hf; subst i1. clear Hf.
    destruct (emap_get m (aid i')) as [[n c0]|] eqn:G; [|discriminate]. cbn beta iota in H.
    apply mbind_inv in H. destruct H as (l & s3 & Hl & H).
    unfold with_ctr in Hl. destruct (apply_slotmap_fresh false (am i') n (Model.ctr s1)) as [l0 c1] eqn:A.
    inversion Hl; subst l0 s3. clear Hl.
    apply mbind_inv in H. destruct H as (ch & s4 & Hm & H). apply ret_inv in H. destruct H as [-> ->].
    (* the table node *)
    set (j := aid i') in *.
    pose proof (ti_nf _ _ _ TI j n c0 (emap_get_in _ _ _ G)) as NF.
    destruct (nf_look _ _ _ NF) as (cj & a & Hc & La & Ea & Eq).
    (* the canonical query *)
    destruct (covers_lcanon s i i' EI Ci Fi) as [Lj CN]. pose proof (canon_covers s i' CN) as Ci'.
    destruct CN as (cj' & Hc' & _ & Wi & Bi & Ki).
    fold j in Lj, Hc'. rewrite Hc in Hc'. inversion Hc'; subst cj'. clear Hc'.
    pose proof (proj1 (is_bijection_injective _ Wi) Bi) as Ii.
    assert (QB' : forall x v, get (am i') x = Some v -> v < Model.ctr s1).
    { intros x v Gx. destruct (find_val s i i' x v Fi Gx) as (y & Gy). exact (QB y v Gy). }
    assert (Kz : forall z, get (am i') z <> None <-> In z (c_slots cj)).
    { intros z. rewrite <- Ki. symmetry. apply keys_spec. }
    (* the renaming *)
    destruct (asf_clean_ren (am i') n (Model.ctr s1) l c1 (nf_clean _ _ _ NF) Ii QB' A)
      as (g & El & Lc1 & Gb & Fl & Inj & Sp).
    assert (BndN : forall b, In b (binders n) -> Model.ctr s <= b < Model.ctr s0).
    { intros b Hb. exact (ti_bnd _ _ _ TI j n c0 (emap_get_in _ _ _ G) b Hb). }
    assert (RO : ren_ok g n).
    { split; [|split].
      - intros x y Hx Hy E. rewrite (Gb x false Hx), (Gb y false Hy) in E. exact E.
      - intros x b Hx Hb E. rewrite (Gb b false Hb) in E. destruct (Sp x Hx) as [Gx|[_ Fr]].
        + rewrite E in Gx. destruct (find_val s i i' x b Fi Gx) as (y & Gy).
          exact (AV j n c0 k G Ik (Nat.le_refl k) y b Gy Hb).
        + pose proof (BndN b Hb). lia.
      - exact Inj. }
    (* the lookup of l *)
    destruct (nf_apply_query s j cj n a g i' MI Hc Lj La Ea Eq RO eq_refl Wi Ii Kz) as (x0 & L0 & E0).
    { intros x Hx Hcs. destruct (Sp x Hx) as [Gx|[Gx _]]; [exact Gx|]. exfalso. exact (proj2 (Kz x) Hcs Gx). }
    rewrite <- El in L0.
    (* the children of l *)
    assert (KD : forall a', In a' (app_occ l) -> lkid s a' /\ kid_ok s a').
    { rewrite El. apply (kids_ren s g n RO). intros a0 Ha0. destruct (nf_kids _ _ _ NF a0 Ha0) as [Lk Cv].
      split; [exact Lk|]. split; [exact Cv|]. destruct Lk as (e & c & _ & _ & _ & _ & _ & Wa & _). exact Wa. }
    assert (VAL : forall a', In a' (app_occ l) -> forall x v, get (am a') x = Some v ->
              (exists y, get (am i) y = Some v) \/ (Model.ctr s1 <= v < c1) \/ In v (binders n)).
    { intros a' Ha' x v Gx. rewrite El in Ha'.
      destruct (ren_kid_vals g n a' v Ha' (get_values_vec _ _ _ Gx)) as (v0 & b & -> & Hfl & Hb). destruct b.
      - apply occ_flags_true_pub in Hfl. destruct (Sp v0 Hfl) as [Gv|[_ Fr]].
        + left. exact (find_val s i i' v0 _ Fi Gv).
        + right. left. exact Fr.
      - right. right. rewrite (Gb v0 false (Hb eq_refl)). exact (Hb eq_refl). }
    assert (RK : forall a', In a' (app_occ l) -> exists k', emap_idx m (aid a') = Some k' /\ (k' < k)%nat).
    { intros a' Ha'. rewrite El in Ha'. destruct (ren_kids g n a' Ha') as (a0 & bd & Ha0 & -> & _ & _). cbn [aid].
      destruct (ti_rank _ _ _ TI j n c0 G a0 Ha0) as (kk & k' & I1 & I2 & Lt).
      rewrite Ik in I1. inversion I1; subst kk. exists k'. split; [exact I2|exact Lt]. }
    pose (P := fun sa : egraph => cge sa /\ c1 <= Model.ctr sa).
    pose (Q := fun (a' : appid) (tc : rterm) => rep s tc a' /\
                 forall v, In v (rfree tc) -> (exists y, get (am a') y = Some v) \/ c1 <= v).
    assert (P3 : P (set_ctr s1 c1)).
    { split; [split|]; cbn [Model.ctr set_ctr]; [apply cup_set; [exact CU|exact Lc1]|lia|lia]. }
    apply (mapM_inv _ _ P Q) in Hm; [| |exact P3].
    - destruct Hm as [[CG4 L4] HF]. split; [exact CG4|]. split; [lia|].
      split; [|].
      2:{ (* the free slots *)
        intros v Hv. rewrite rfree_unfold in Hv. unfold slots in Hv. apply (proj1 (proj2 (sset_of_list_spec _) v)) in Hv.
        assert (V : Forall2 (vals_ext (fun v => c1 <= v)) (app_occ l) (rfree_kids ch)).
        { clear - HF. unfold rfree_kids. induction HF as [|a' tc la lt [_ HQ] _ IHF]; cbn [map]; constructor; [|exact IHF].
          intros v Hv. cbn [am] in Hv. unfold values_vec in Hv. apply in_map_iff in Hv. destruct Hv as ([k0 v0] & <- & Hkv).
          apply in_identity in Hkv. destruct Hkv as [<- Hk]. cbn [snd].
          destruct (HQ k0 Hk) as [(y & Gy)|Fr]; [left; exact (get_values_vec _ _ _ Gy)|right; exact Fr]. }
        destruct (set_apps_pub_rel (fun v => c1 <= v) l (rfree_kids ch) V v Hv) as [Hp|Fr]; [|right; lia].
        destruct RO as (G1 & G2 & _). rewrite El, (ren_pub_occ g n G1 G2) in Hp. apply in_map_iff in Hp.
        destruct Hp as (p & <- & Hp). destruct (Sp p Hp) as [Gp|[_ Fr]]; [left; exists p; exact Gp|right; lia]. }
      split; [exact Ci|].
      assert (F : Forall2 (rep s) ch (app_occ l)).
      { apply Forall2_swap. clear - HF. induction HF as [|a' tc la lt [HR _] _ IHF]; constructor; assumption. }
      assert (NDl : NoDup (binders l)).
      { rewrite El, ren_binders. rewrite (map_ext_in (g false) (fun b => b) (binders n)); [|intros b Hb; exact (Gb b false Hb)].
        rewrite map_id. exact (nf_nodup _ _ _ NF). }
      assert (LEN : List.length ch = List.length (app_occ l)).
      { clear - F. induction F; cbn [List.length]; [reflexivity|f_equal; assumption]. }
      destruct (node_rep s l ch (app_occ l) x0 GD NDl LEN F) as (x2 & L2 & E2).
      { rewrite set_apps_self. exact L0. }
      exists x2. split; [exact L2|].
      pose proof (eg_lookup_covers _ _ _ NO L0) as Cx0.
      pose proof (lookup_rec_covers _ _ _ NO L2) as Cx2.
      assert (Ei : eg_eq s i' i = Ok true).
      { rewrite (eg_eq_find_congr s i' i i i); [apply eg_eq_refl_inv; [exact (ei_uf _ EI)|exact (ei_slots _ EI)|exact Ci]| |reflexivity].
        rewrite Fi. apply lkid_fixed; [exact (ei_uf _ EI)|]. exact (found_lkid s i i' EI Fi). }
      apply (eg_eq_trans_true s x2 x0 i EI Cx2 Cx0 Ci); [apply eg_eq_sym_true; assumption|].
      exact (eg_eq_trans_true s x0 i' i EI Cx0 Ci' Ci E0 Ei).
    - intros a' sa tc sb Ha' [[CUa LEa] L1a] He.
      destruct (KD a' Ha') as [Lk [Cv Wa]].
      destruct (RK a' Ha') as (k' & Ik' & Lt).
      assert (Fa : find_applied_id s a' = Ok a') by (apply lkid_fixed; [exact (ei_uf _ EI)|exact Lk]).
      destruct (IH a' sa tc sb a' k') as (CGb & Lb & Rb & Sb); try assumption.
      + split; assumption.
      + intros x v Gx. destruct (VAL a' Ha' x v Gx) as [(y & Gy)|[Fr|Hb]].
        * pose proof (QB y v Gy). lia.
        * lia.
        * pose proof (BndN v Hb). lia.
      + intros j2 n2 c2 k2 G2 I2 Le2 x v Gx Hin2.
        destruct (VAL a' Ha' x v Gx) as [(y & Gy)|[Fr|Hb]].
        * apply (AV j2 n2 c2 k2 G2 I2) with (x := y) (v := v); [lia|exact Gy|exact Hin2].
        * pose proof (ti_bnd _ _ _ TI j2 n2 c2 (emap_get_in _ _ _ G2) v Hin2). lia.
        * assert (Hne : (j, (n, c0)) <> (j2, (n2, c2))).
          { intros E. inversion E; subst j2. rewrite Ik in I2. inversion I2; subst k2. lia. }
          exact (NoDup_flat_map_disjoint _ _ (fun e : N * (node * N) => binders (fst (snd e))) m (ti_dis _ _ _ TI)
                   (j, (n, c0)) (j2, (n2, c2)) (emap_get_in _ _ _ G) (emap_get_in _ _ _ G2) Hne v Hb Hin2).
      + split; [split; [exact CGb|lia]|]. split; [exact Rb|].
        intros v Hv. destruct (Sb v Hv) as [Hy|Fr]; [left; exact Hy|right; lia].
  Qed.
End Member.

(* ------------------------------------------------------------------ *)
(* 3. the theorems *)

(* general form: the query's slots are below the current counter and avoid the binder names of the table *)
Theorem extract_member_general : forall s cf last m s0, extract_inv s -> extractor_new last cf s = Ok (m, s0) ->
  forall fuel i s1 t s1', ctr_only s s1 -> Model.ctr s0 <= Model.ctr s1 -> covers s i ->
  (forall x v, get (am i) x = Some v -> v < Model.ctr s1) ->
  (forall j n c x v, In (j, (n, c)) m -> get (am i) x = Some v -> ~ In v (binders n)) ->
  extract fuel m i s1 = Ok (t, s1') ->
  rep s t i /\ ctr_only s s1' /\ Model.ctr s1 <= Model.ctr s1' /\
  exists i', find_applied_id s i = Ok i' /\
    forall v, In v (rfree t) -> (exists y, get (am i') y = Some v) \/ Model.ctr s1 <= v.
Proof.
  intros s cf last m s0 XI HN fuel i s1 t s1' [c1 ->] LE Ci QB AV H.
  destruct (tbl_inv_of_new s cf last m s0 XI HN) as [TI C0]. cbn [Model.ctr set_ctr] in LE.
  assert (CG : cge s s0 (set_ctr s c1)).
  { split; [|exact LE]. exists c1. split; [|reflexivity]. pose proof (cup_le _ _ C0). lia. }
  (* extract succeeded: the class of find i is tabled *)
  pose proof H as H'. destruct fuel as [|f]; cbn [extract] in H'; [discriminate|].
  apply mbind_inv in H'. destruct H' as (i' & s2 & Hf & H'). apply reads_inv in Hf. destruct Hf as [Hf ->].
  change (find_applied_id s i = Ok i') in Hf.
  destruct (emap_get m (aid i')) as [[n c0]|] eqn:G; [|discriminate].
  destruct (emap_get_idx _ _ _ G) as (k & Ik).
  destruct (extract_member_aux s XI m s0 TI (S f) i (set_ctr s c1) t s1' i' k CG Ci QB Hf Ik) as ([CU _] & L & R & FS); [|exact H|].
  - intros j' n' c' k' G' _ _ x v Gx. exact (AV j' n' c' x v (emap_get_in _ _ _ G') Gx).
  - split; [exact R|]. split; [exact (cup_ctr_only _ _ CU)|]. split; [exact L|]. exists i'. split; [exact Hf|exact FS].
Qed.

(* THE THEOREM: queries whose slots are older than the extractor *)
Theorem extract_member_inv : forall s cf last m s0, extract_inv s -> extractor_new last cf s = Ok (m, s0) ->
  forall fuel i s1 t s1', ctr_only s s1 -> Model.ctr s0 <= Model.ctr s1 -> covers s i ->
  (forall x v, get (am i) x = Some v -> v < Model.ctr s) ->
  extract fuel m i s1 = Ok (t, s1') ->
  exists x, lookup_rec s t = Ok (Some x) /\ eg_eq s x i = Ok true.
Proof.
  intros s cf last m s0 XI HN fuel i s1 t s1' CO LE Ci QB H.
  destruct (tbl_inv_of_new s cf last m s0 XI HN) as [TI C0]. pose proof (cup_le _ _ C0) as L0.
  destruct (extract_member_general s cf last m s0 XI HN fuel i s1 t s1' CO LE Ci) as ((_ & R) & _); [| |exact H|exact R].
  - intros x v Gx. pose proof (QB x v Gx). lia.
  - intros j n c x v Hin Gx Hb. pose proof (QB x v Gx). pose proof (ti_bnd _ _ _ TI j n c Hin v Hb). lia.
Qed.

(* in particular from the state `extractor_new` returns *)
Corollary extract_member_inv0 : forall s cf last m s0, extract_inv s -> extractor_new last cf s = Ok (m, s0) ->
  forall fuel i t s', covers s i -> (forall x v, get (am i) x = Some v -> v < Model.ctr s) ->
  extract fuel m i s0 = Ok (t, s') ->
  exists x, lookup_rec s t = Ok (Some x) /\ eg_eq s x i = Ok true.
Proof.
  intros s cf last m s0 XI HN fuel i t s' Ci QB H.
  destruct (tbl_inv_of_new s cf last m s0 XI HN) as [_ C0].
  exact (extract_member_inv s cf last m s0 XI HN fuel i s0 t s' (cup_ctr_only _ _ C0) (N.le_refl _) Ci QB H).
Qed.

(* re-inserting the extracted term creates nothing and returns an invocation equal to the query *)
Theorem extract_reinsert_inv : forall s cf last m s0, extract_inv s -> extractor_new last cf s = Ok (m, s0) ->
  forall fuel i s1 t s1', ctr_only s s1 -> Model.ctr s0 <= Model.ctr s1 -> covers s i ->
  (forall x v, get (am i) x = Some v -> v < Model.ctr s) ->
  extract fuel m i s1 = Ok (t, s1') ->
  forall a' s', add_expr t s = Ok (a', s') -> s' = s /\ eg_eq s' i a' = Ok true.
Proof.
  intros s cf last m s0 XI HN fuel i s1 t s1' CO LE Ci QB H a' s' HA.
  pose proof (extract_member_inv s cf last m s0 XI HN fuel i s1 t s1' CO LE Ci QB H) as R.
  exact (reinsert_equal s t i a' s' (mi_inv3 s (xi_match s XI)) (conj Ci R) HA).
Qed.

(* THE FREE SLOTS of the extracted term: every free slot is a slot of the canonical form of the query, or a BRAND-NEW slot
   drawn by this call (not below the counter at the call).  Brand-new free slots do occur (redundant slots of the chosen
   nodes: Extract/ExtractMemberCheck.v `extract_new_free_slot`), so "no brand-new slots" is false as stated. *)
Theorem extract_slots_inv : forall s cf last m s0, extract_inv s -> extractor_new last cf s = Ok (m, s0) ->
  forall fuel i s1 t s1', ctr_only s s1 -> Model.ctr s0 <= Model.ctr s1 -> covers s i ->
  (forall x v, get (am i) x = Some v -> v < Model.ctr s) ->
  extract fuel m i s1 = Ok (t, s1') ->
  exists i', find_applied_id s i = Ok i' /\
    forall v, In v (rfree t) -> (exists y, get (am i') y = Some v) \/ Model.ctr s1 <= v.
Proof.
  intros s cf last m s0 XI HN fuel i s1 t s1' CO LE Ci QB H.
  destruct (tbl_inv_of_new s cf last m s0 XI HN) as [TI C0]. pose proof (cup_le _ _ C0) as L0.
  destruct (extract_member_general s cf last m s0 XI HN fuel i s1 t s1' CO LE Ci) as (_ & _ & _ & R); [| |exact H|exact R].
  - intros x v Gx. pose proof (QB x v Gx). lia.
  - intros j n c x v Hin Gx Hb. pose proof (QB x v Gx). pose proof (ti_bnd _ _ _ TI j n c Hin v Hb). lia.
Qed.

(* the lookup does not read the fresh-slot counter *)
Lemma lookup_rec_ctr_only : forall s s1 t, ctr_only s s1 -> lookup_rec s1 t = lookup_rec s t.
Proof.
  intros s s1 t [c ->]. revert t. fix IH 1. intros [n ch]. cbn [lookup_rec].
  match goal with |- bind (?G1 ch) ?K1 = bind (?G2 ch) ?K2 => assert (E : forall l, G1 l = G2 l) end.
  { induction l as [|x r IHr]; [reflexivity|]. rewrite (IH x). destruct (lookup_rec s x) as [[a|]|]; cbn [bind]; try reflexivity.
    rewrite IHr. reflexivity. }
  rewrite E. reflexivity.
Qed.

Section Reach.
  Variables (terms : list rterm) (ops : list hop) (hs : list appid) (s : egraph).
  Hypothesis OP : ops_pre terms ops [] empty_egraph.
  Hypothesis HT : Forall (fun t => rt_wf t /\ rt_pre 1 t) terms.
  Hypothesis HR : run_ops terms ops [] empty_egraph = Ok (hs, s).

  Theorem extract_member_reachable : forall cf last m s0, extractor_new last cf s = Ok (m, s0) ->
    forall fuel i s1 t s1', ctr_only s s1 -> Model.ctr s0 <= Model.ctr s1 -> covers s i ->
    (forall x v, get (am i) x = Some v -> v < Model.ctr s) ->
    extract fuel m i s1 = Ok (t, s1') ->
    (exists x, lookup_rec s t = Ok (Some x) /\ eg_eq s x i = Ok true) /\
    (forall a' s', add_expr t s = Ok (a', s') -> s' = s /\ eg_eq s' i a' = Ok true) /\
    (exists i', find_applied_id s i = Ok i' /\
       forall v, In v (rfree t) -> (exists y, get (am i') y = Some v) \/ Model.ctr s1 <= v).
  Proof.
    intros cf last m s0 HN fuel i s1 t s1' CO LE Ci QB H.
    pose proof (extract_inv_reachable _ _ _ _ OP HT HR) as XI. split; [|split].
    - exact (extract_member_inv s cf last m s0 XI HN fuel i s1 t s1' CO LE Ci QB H).
    - exact (extract_reinsert_inv s cf last m s0 XI HN fuel i s1 t s1' CO LE Ci QB H).
    - exact (extract_slots_inv s cf last m s0 XI HN fuel i s1 t s1' CO LE Ci QB H).
  Qed.
End Reach.

Print Assumptions extract_member_general.
Print Assumptions extract_member_inv.
Print Assumptions extract_member_inv0.
Print Assumptions extract_reinsert_inv.
Print Assumptions extract_slots_inv.
Print Assumptions lookup_rec_ctr_only.
Print Assumptions extract_member_reachable.
