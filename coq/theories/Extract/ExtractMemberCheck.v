(* Extract/ExtractMemberCheck.v — executable companions of Extract/ExtractMember.v (vm_compute):
   1. the premises of `extract_member_inv` cannot be dropped (counterexamples for the false formulations);
   2. "the extracted term has no brand-new slots" is FALSE as stated (redundant slots);
   3. the conclusions of the theorems evaluated after every operation of the 16 histories of Extract/ExtractRepr.v, for the
      identity invocation of every live class and for a renamed invocation (slots shifted by 4000), extracting from the
      state `extractor_new` returns. *)
From SE Require EGraph.HashconsFacts.
From SE Require Import EGraph.Model EGraph.ModelMachine EGraph.ModelFacts EGraph.InvariantFacts EGraph.AddCoversFacts
  EGraph.UnionFindFacts EGraph.Model9 EGraph.CongruenceFacts Extract.Extractor Extract.ExtractorFacts Extract.ExtractRepr
  Lang.RenameFacts Extract.ExtractMemberDefs.
Require Import ZArith List.
Import ListNotations.

Definition cslots (s : egraph) (j : N) : sset := match get_class s j with Ok c => c_slots c | Err _ => [] end.
Definition idq (s : egraph) (j : N) : appid := {| aid := j; am := identity (cslots s j) |}.

(* ------------------------------------------------------------------ *)
(* 1. counterexamples *)

(* lam x. f(x, y) = lam x. f(x, z): class 1 (the lambda) has no slots; its only e-node has a binder and a redundant slot *)
Definition cT := [xlam 2 (xs2 7 2 6); xlam 2 (xs2 7 2 10)].
Definition cO := [HAdd 0; HAdd 1; xU 0 1].
Definition cS := st_of cT cO.

(* the table: the node of class 1 is  lam 17. c0[1 -> 17, 5 -> 25]  (17 a fresh binder name, 25 a fresh name for the
   redundant slot, both drawn by class_nf from the counter 17 of the state) *)
Example c_table : match extractor_new false 0 cS with Ok (m, s0) => Some (Model.ctr cS, m, Model.ctr s0) | Err _ => None end =
  Some (17, [(0, ({| nvar := 7; nargs := [ASlot 1; ASlot 5] |}, 1));
             (1, ({| nvar := 0; nargs := [ABind 17 (AApp {| aid := 0; am := [(1, 17); (5, 25)] |})] |}, 2))], 29).
Proof. vm_compute. reflexivity. Qed.

(* (a) FALSE FORMULATION "extract fuel m i s" (extraction from the state BEFORE extractor_new, i.e. with the fresh-slot
   counter rolled back): the fresh name for the redundant slot is the binder name: lam 17. f(17, 17), NOT represented.
   From the state extractor_new returns: lam 17. f(17, 29), represented. *)
Example extract_from_rolled_back_counter_not_represented :
  match extractor_new false 0 cS with
  | Ok (m, s0) =>
      (match extract 100 m (idq cS 1) cS with Ok (t, _) => Some (t, repb cS t (idq cS 1)) | Err _ => None end,
       match extract 100 m (idq cS 1) s0 with Ok (t, _) => Some (t, repb cS t (idq cS 1)) | Err _ => None end)
  | Err _ => (None, None) end =
  (Some (RT {| nvar := 0; nargs := [ABind 17 (AApp {| aid := 0; am := [(1, 17); (5, 17)] |})] |}
            [RT {| nvar := 7; nargs := [ASlot 17; ASlot 17] |} []], false),
   Some (RT {| nvar := 0; nargs := [ABind 17 (AApp {| aid := 0; am := [(1, 17); (5, 29)] |})] |}
            [RT {| nvar := 7; nargs := [ASlot 17; ASlot 29] |} []], true)).
Proof. vm_compute. reflexivity. Qed.

(* (b) "NO BRAND-NEW SLOTS" IS FALSE: the term extracted for class 1 (no slots) has the free slot 29 = the counter of the
   state the extraction started from *)
Example extract_new_free_slot :
  match extractor_new false 0 cS with
  | Ok (m, s0) => match extract 100 m (idq cS 1) s0, find_applied_id cS (idq cS 1) with
                  | Ok (t, _), Ok i' => Some (rfree t, values (am i'), Model.ctr s0)
                  | _, _ => None end
  | Err _ => None end = Some ([29], [], 29).
Proof. vm_compute. reflexivity. Qed.

(* (c) THE PREMISE ON THE QUERY (slots older than the extractor / not binder names of the table): lam x. f(x, y), class 1
   has the slot y; the query  1[y -> b]  with b the binder name of the table node is answered by  lam b. f(b, b) *)
Definition dT := [xlam 2 (xs2 7 2 6)].
Definition dO := [HAdd 0].
Definition dS := st_of dT dO.
Definition d_query (m : emap) : option appid :=
  match emap_get m 1 with
  | Some (n, _) => match binders n, cslots dS 1 with
                   | b :: _, y :: _ => Some {| aid := 1; am := [(y, b)] |}
                   | _, _ => None end
  | None => None end.
Example query_with_table_binder_not_represented :
  match extractor_new false 0 dS with
  | Ok (m, s0) => match d_query m with
                  | Some q => match extract 100 m q s0 with
                              | Ok (t, _) => Some (coversb dS q, forallb (fun v => v <? Model.ctr s0) (values (am q)),
                                                   forallb (fun v => v <? Model.ctr dS) (values (am q)), repb dS t q)
                              | Err _ => None end
                  | None => None end
  | Err _ => None end = Some (true, true, false, false).
Proof. vm_compute. reflexivity. Qed.

(* ------------------------------------------------------------------ *)
(* 2. the conclusions of the theorems, per state *)

Definition shift (k : N) (a : appid) : appid := {| aid := aid a; am := map (fun kv => (fst kv, snd kv + k)) (am a) |}.
Definition subset (a b : list N) : bool := forallb (fun x => existsb (N.eqb x) b) a.

(* extraction from s1: represented; free slots = slots of find i + brand-new ones; every slot of find i is free in t *)
Definition q_chk (s s1 : egraph) (m : emap) (i : appid) : bool :=
  match extract 100 m i s1 with
  | Ok (t, _) =>
      repb s t i &&
      match find_applied_id s i with
      | Ok i' => forallb (fun v => existsb (N.eqb v) (values (am i')) || (Model.ctr s1 <=? v)) (rfree t) &&
                 subset (values (am i')) (rfree t)
      | Err _ => false end
  | Err _ => negb (emap_has m (aid i)) end.

Fixpoint nodupb (l : list N) : bool := match l with [] => true | x :: t => negb (existsb (N.eqb x) t) && nodupb t end.
(* the executable part of tbl_inv *)
Definition tbl_chk (s s0 : egraph) (m : emap) : bool :=
  forallb (fun e => match emap_get m (fst e), emap_idx m (fst e) with
     | Some (n, _), Some k => forallb (fun a => match emap_idx m (aid a) with Some k' => Nat.ltb k' k | None => false end) (app_occ n)
     | _, _ => false end) m &&
  nodupb (ebinders m) && forallb (fun b => (Model.ctr s <=? b) && (b <? Model.ctr s0)) (ebinders m) &&
  forallb (fun e => match Extractor.eg_lookup s (fst (snd e)) with
                    | Ok (Some a) => (aid a =? fst e) && eqtb s a (idq s (fst e)) | _ => false end) m.

Definition member_at (s : egraph) (cf : nat) (last : bool) : bool :=
  match extractor_new last cf s with
  | Ok (m, s0) => tbl_chk s s0 m &&
      forallb (fun j => q_chk s s0 m (idq s j) && q_chk s s0 m (shift 4000 (idq s j))) (ids s)
  | Err _ => false end.
Definition memberb (s : egraph) : bool :=
  forallb (fun cf => forallb (member_at s cf) [false; true]) [0%nat; 1%nat; 2%nat].

Fixpoint run_mchk (terms : list rterm) (ops : list hop) (hs : list appid) (s : egraph) : bool :=
  match ops with
  | [] => true
  | o :: t =>
    let r := match o with
      | HAdd k => match nth_opt terms k with None => Err OutOfBounds
                  | Some tm => match add_expr tm s with Ok (a, s') => Ok (hs ++ [a], s') | Err e => Err e end end
      | HUnion i j _ => match nth_opt hs i, nth_opt hs j with
                  | Some a, Some b => match eg_union a b s with Ok (_, s') => Ok (hs, s') | Err e => Err e end
                  | _, _ => Err OutOfBounds end
      end in
    match r with
    | Err e => false
    | Ok (hs', s') => memberb s' && run_mchk terms t hs' s'
    end
  end.

Definition m_all := r_all ++ [(cT, cO); (dT, dO)].

Example member_histories_checked :
  map (fun p => run_mchk (fst p) (snd p) [] empty_egraph) m_all = map (fun _ => true) m_all.
Proof. vm_compute. reflexivity. Qed.

Print Assumptions extract_from_rolled_back_counter_not_represented.
Print Assumptions extract_new_free_slot.
Print Assumptions query_with_table_binder_not_represented.
Print Assumptions member_histories_checked.
