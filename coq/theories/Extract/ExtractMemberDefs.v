(* Extract/ExtractMemberDefs.v — definitions shared by the MEMBERSHIP proof of the extracted term
   (Extract/ExtractMember*.v).

   `nf_facts s j nd`: what `class_nf` establishes for a stored e-node of class j (nd = the class normal form):
     the lookup of nd hits class j with an invocation EQUAL (eg_eq) to the identity invocation of j; the child invocations
     are leaders' invocations that cover their classes; no public name is a binder name; binder names pairwise distinct.
   `emap_idx m j`: the insertion index of the entry of class j in the table.
   `tbl_inv s s0 m`: the table invariant of `extractor_new last cf s = Ok (m, s0)`: every entry satisfies `nf_facts`,
     the binder names of ALL entries are pairwise distinct (also across entries: every `class_nf` draws its own fresh
     names) and in [ctr s, ctr s0), and the child classes of the node of an entry were tabled strictly earlier. *)
From SE Require Import EGraph.Model EGraph.ModelMachine EGraph.ModelFacts EGraph.UnionFindFacts EGraph.InvariantFacts
  EGraph.AddCoversFacts EGraph.HashconsShape Lang.RenameFacts Extract.Extractor Extract.ExtractorFacts.
Require Import ZArith Lia List.
Import ListNotations.

Definition idapp (j : N) (cj : eclass) : appid := {| aid := j; am := identity (c_slots cj) |}.

Record nf_facts (s : egraph) (j : N) (nd : node) : Prop := {
  nf_look : exists cj a, get_class s j = Ok cj /\ Extractor.eg_lookup s nd = Ok (Some a) /\ aid a = j /\
                         eg_eq s a (idapp j cj) = Ok true;
  nf_kids : forall a, In a (app_occ nd) -> lkid s a /\ covers s a;
  nf_clean : forall p, In p (pub_occ nd) -> ~ In p (binders nd);
  nf_nodup : NoDup (binders nd) }.

Fixpoint emap_idx (m : emap) (i : N) : option nat :=
  match m with
  | [] => None
  | (k, _) :: t => if k =? i then Some O else option_map S (emap_idx t i)
  end.

Definition ebinders (m : emap) : list slot := flat_map (fun e : N * (node * N) => binders (fst (snd e))) m.

Record tbl_inv (s s0 : egraph) (m : emap) : Prop := {
  ti_nf : forall j n c, In (j, (n, c)) m -> nf_facts s j n;
  ti_bnd : forall j n c, In (j, (n, c)) m -> forall b, In b (binders n) -> Model.ctr s <= b < Model.ctr s0;
  ti_dis : NoDup (ebinders m);
  ti_rank : forall j n c, emap_get m j = Some (n, c) -> forall a, In a (app_occ n) ->
              exists k k', emap_idx m j = Some k /\ emap_idx m (aid a) = Some k' /\ (k' < k)%nat }.
