(* Extract/ExtractMemberExpr.v — the membership theorem in terms of `Extractor.lookup_rec_expr` (the function the executable
   checker `extract_reprb` of Extract/ExtractRepr.v evaluates; `Model9.lookup_rec` rejects a term with MORE children
   than placeholders, `lookup_rec_expr` ignores the surplus): the two agree on terms with one child per placeholder
   (`tlen`), and `extract` only returns such terms. *)
From SE Require Import EGraph.Model EGraph.ModelMachine EGraph.ModelFacts EGraph.Model9 EGraph.UnionFindFacts EGraph.InvariantFacts
  EGraph.CongruenceFacts EGraph.OpsPreFacts
  Extract.Extractor Extract.ExtractorFacts Extract.ExtractorReach Extract.ExtractMember.
Require Import ZArith Lia List.
Import ListNotations.

(* one child per placeholder, hereditarily *)
Fixpoint tlen (t : rterm) : Prop :=
  match t with
  | RT n ch => List.length ch = List.length (app_occ n) /\
      (fix go (l : list rterm) : Prop := match l with [] => True | c :: r => tlen c /\ go r end) ch
  end.

Lemma tlen_intro : forall n ch, List.length ch = List.length (app_occ n) -> Forall tlen ch -> tlen (RT n ch).
Proof.
  intros n ch L F. cbn [tlen]. split; [exact L|]. clear L. induction F as [|c r Hc _ IH]; [exact I|]. split; [exact Hc|exact IH].
Qed.

Lemma extract_tlen : forall fuel m i s1 t s1', extract fuel m i s1 = Ok (t, s1') -> tlen t.
Proof.
  induction fuel as [|f IH]; intros m i s1 t s1' H; cbn [extract] in H; [discriminate|].
  apply mbind_inv in H. destruct H as (i' & s2 & _ & H).
  destruct (emap_get m (aid i')) as [[n c0]|]; [|discriminate]. cbn beta iota in H.
  apply mbind_inv in H. destruct H as (l & s3 & _ & H).
  apply mbind_inv in H. destruct H as (ch & s4 & Hm & H). apply ret_inv in H. destruct H as [-> _].
  apply (mapM_inv _ _ (fun _ => True) (fun (_ : appid) (tc : rterm) => tlen tc)) in Hm; [| |exact I].
  - destruct Hm as [_ HF]. apply tlen_intro.
    + clear - HF. induction HF; cbn [List.length]; [reflexivity|f_equal; assumption].
    + clear - HF. induction HF; constructor; assumption.
  - intros a sa tc sb _ _ He. split; [exact I|exact (IH _ _ _ _ _ He)].
Qed.

Lemma lookup_rec_expr_tlen : forall s t, tlen t -> lookup_rec_expr s t = lookup_rec s t.
Proof.
  intros s. fix IH 1. intros [n ch] [L T]. cbn [lookup_rec_expr lookup_rec].
  match goal with |- bind (?G1 _ ch) _ = bind (?G2 ch) _ => set (go1 := G1); set (go2 := G2) end.
  assert (E : forall l : list rterm,
             (fix go (l0 : list rterm) : Prop := match l0 with [] => True | c :: r => tlen c /\ go r end) l ->
             go1 (List.length l) l = go2 l /\ forall l', go2 l = Ok (Some l') -> List.length l' = List.length l).
  { induction l as [|c r IHr]; intros Tl.
    - split; [reflexivity|]. intros l' Hl. cbn in Hl. inversion Hl. reflexivity.
    - destruct Tl as [Tc Tr]. destruct (IHr Tr) as [E1 E2]. cbn [List.length]. split.
      + unfold go1, go2. fold go1. fold go2. rewrite (IH c Tc).
        destruct (lookup_rec s c) as [[a|]|]; cbn [bind]; try reflexivity.
        rewrite E1. destruct (go2 r) as [[r'|]|]; cbn [bind]; reflexivity.
      + intros l' Hl. unfold go2 in Hl. fold go2 in Hl.
        destruct (lookup_rec s c) as [[a|]|]; cbn [bind] in Hl; try discriminate.
        destruct (go2 r) as [[r'|]|] eqn:Er; cbn [bind] in Hl; try discriminate.
        inversion Hl; subst l'. cbn [List.length]. f_equal. apply E2. reflexivity. }
  destruct (E ch T) as [E1 E2]. rewrite <- L, E1.
  destruct (go2 ch) as [[l'|]|] eqn:Eg; cbn [bind]; try reflexivity.
  rewrite (E2 l' eq_refl), L, Nat.ltb_irrefl. reflexivity.
Qed.

(* MEMBERSHIP with the lookup function of the executable checker *)
Theorem extract_member_expr_inv : forall s cf last m s0, extract_inv s -> extractor_new last cf s = Ok (m, s0) ->
  forall fuel i s1 t s1', ctr_only s s1 -> Model.ctr s0 <= Model.ctr s1 -> covers s i ->
  (forall x v, get (am i) x = Some v -> v < Model.ctr s) ->
  extract fuel m i s1 = Ok (t, s1') ->
  exists x, lookup_rec_expr s t = Ok (Some x) /\ eg_eq s x i = Ok true.
Proof.
  intros s cf last m s0 XI HN fuel i s1 t s1' CO LE Ci QB H.
  rewrite (lookup_rec_expr_tlen s t (extract_tlen _ _ _ _ _ _ H)).
  exact (extract_member_inv s cf last m s0 XI HN fuel i s1 t s1' CO LE Ci QB H).
Qed.

Theorem extract_member_expr_static : forall terms ops hs s, Forall term_static terms ->
  run_ops terms ops [] empty_egraph = Ok (hs, s) ->
  forall cf last m s0, extractor_new last cf s = Ok (m, s0) ->
  forall fuel i s1 t s1', ctr_only s s1 -> Model.ctr s0 <= Model.ctr s1 -> covers s i ->
  (forall x v, get (am i) x = Some v -> v < Model.ctr s) ->
  extract fuel m i s1 = Ok (t, s1') ->
  exists x, lookup_rec_expr s t = Ok (Some x) /\ eg_eq s x i = Ok true.
Proof.
  intros terms ops hs s HT H cf last m s0.
  exact (extract_member_expr_inv s cf last m s0
           (extract_inv_reachable _ _ _ _ (ops_pre_static terms ops HT) (static_kids_premise terms HT) H)).
Qed.

Print Assumptions extract_tlen.
Print Assumptions lookup_rec_expr_tlen.
Print Assumptions extract_member_expr_inv.
Print Assumptions extract_member_expr_static.
