(* Extract/ExtractMemberLookup.v — the lookup under a capture-free injective renaming, WITH the map of the invocation
   (`lookup_ren_am`, the map-tracking version of NfOk.lookup_ren), and the extract step at node level
   (`nf_apply_query`): if the lookup of n hits the leader class j with an invocation equal to the identity invocation
   of j, and the renaming g agrees with the (total on the class slots, injective) map of an invocation i' of j on the
   public names of n that are class slots, then the lookup of ren g n is an invocation equal to i'. *)
From SE Require Import Slots.SlotMapFacts Group.GroupSound Lang.LangFacts Lang.ShapeFacts Lang.RenameFacts
  Base.TextFacts Parse.Parser EGraph.Model EGraph.ModelFacts EGraph.ModelMachine EGraph.UnionFindFacts
  EGraph.InvariantFacts EGraph.UnionInvariantFacts EGraph.AddCoversFacts EGraph.HashconsShape EGraph.Mod4Facts
  EGraph.HashconsAbs EGraph.HashconsFacts EGraph.Rewrite EGraph.RewriteFacts EGraph.MatchDefs EGraph.MatchMachine
  EGraph.ProgressFacts EGraph.MatchFacts EGraph.SoundUnion EGraph.MonotoneFacts EGraph.MatchLookup
  EGraph.NodeCong EGraph.KidEqFacts EGraph.ShapeCong EGraph.CongruenceFacts EGraph.MatchComplete
  EGraph.MatchReprFix EGraph.MatchReprAlg EGraph.StoredLive EGraph.KidsFacts EGraph.PendingFacts EGraph.MatchReprFacts.
From SE Require Import Extract.Extractor Extract.ExtractorFacts Extract.NfOk Extract.ExtractMemberDefs.
Require Import ZArith Lia ZifyBool ZifyN ZifyNat.

Local Notation "a ** b" := (compose_partial a b) (at level 40, left associativity).
Local Notation inv := inverse_nocheck.

(* ------------------------------------------------------------------ *)
(* 1. the lookup under a renaming, with the map *)

Lemma lookup_ren_am : forall s g n a, ren_ok g n -> Extractor.eg_lookup s n = Ok (Some a) ->
  exists a', Extractor.eg_lookup s (RenameFacts.ren g n) = Ok (Some a') /\ aid a' = aid a /\
    forall z, get (am a') z = option_map (g true) (get (am a) z).
Proof.
  intros s g n a RO H.
  destruct (lookup_hit s n a H) as (sh & bn & i & c & cb & src & Hsh & Hh & Hc & G & ->).
  unfold shape in Hsh. destruct (pre_shape s n) as [p|] eqn:P; cbn [bind] in Hsh; [|discriminate].
  assert (Hp : ren_ok g p).
  { unfold pre_shape in P.
    destruct (find_enode s n) as [n1|] eqn:F; cbn [bind] in P; [|discriminate].
    destruct (variants s n1) as [vs|] eqn:V; cbn [bind] in P; [|discriminate].
    apply min_variant_in in P. destruct P as [P|[k P]]; [|discriminate].
    destruct (find_enode_sub s n n1 F) as (B1 & P1). destruct (variants_sub s n1 vs p V P) as (B2 & P2).
    apply (ren_ok_sub g n); [congruence| |assumption]. intros x Hx. apply P1, P2, Hx. }
  destruct (ren_ok_ws g p sh bn Hp Hsh) as (b' & W' & Gb').
  assert (Hsh' : shape s (RenameFacts.ren g n) = Ok (sh, b')).
  { unfold shape. rewrite (pre_shape_ren s g n p RO P). cbn [bind]. exact W'. }
  exists {| aid := i; am := filt c (inv cb ** b') |}. split; [|split].
  - unfold Extractor.eg_lookup. rewrite Hsh'. cbn [bind]. exact (lookup_internal_intro s sh b' i c cb src Hh Hc G).
  - reflexivity.
  - intros z. cbn [am]. unfold filt. rewrite !(get_filter_key (fun k => sset_mem k (c_slots c))).
    destruct (sset_mem z (c_slots c)); [|reflexivity].
    rewrite !get_compose_partial by apply inverse_wf.
    destruct (get (inv cb) z) as [k|]; [apply Gb'|reflexivity].
Qed.

(* the map of a lookup result is well-formed and its keys are slots of the class *)
Lemma lookup_am_wf_keys : forall s n a, Extractor.eg_lookup s n = Ok (Some a) ->
  wf (am a) /\ forall c, get_class s (aid a) = Ok c -> forall k, get (am a) k <> None -> In k (c_slots c).
Proof.
  intros s n a H.
  destruct (lookup_hit s n a H) as (sh & bn & i & c & cb & src & Hsh & Hh & Hc & G & ->). cbn [aid am]. split.
  - unfold filt. apply (filter_key_wf (fun k => sset_mem k (c_slots c))). apply compose_partial_wf.
  - intros c' Hc' k Hk. rewrite Hc in Hc'. inversion Hc'; subst c'.
    unfold filt in Hk. rewrite (get_filter_key (fun k => sset_mem k (c_slots c))) in Hk.
    destruct (sset_mem k (c_slots c)) eqn:Em; [|congruence]. apply sset_mem_in in Em. exact Em.
Qed.

(* ------------------------------------------------------------------ *)
(* 2. the extract step at node level *)

Lemma nf_apply_query : forall s j cj n a g i',
  match_inv s ->
  get_class s j = Ok cj -> leader s j ->
  Extractor.eg_lookup s n = Ok (Some a) -> aid a = j -> eg_eq s a (idapp j cj) = Ok true ->
  ren_ok g n ->
  aid i' = j -> wf (am i') -> injective (am i') ->
  (forall z, get (am i') z <> None <-> In z (c_slots cj)) ->
  (forall x, In x (pub_occ n) -> In x (c_slots cj) -> get (am i') x = Some (g true x)) ->
  exists x, Extractor.eg_lookup s (RenameFacts.ren g n) = Ok (Some x) /\ eg_eq s x i' = Ok true.
Proof.
  intros s j cj n a g i' MI Hc Lj L Ea E RO Ei Wi Ii Ki Hg.
  destruct MI as [I3 K0 M4' Hhc Hpe Hl].
  assert (EI : eg_inv s) by (destruct I3 as [[EI _] _]; exact EI).
  assert (NO : nodes_ok s) by (destruct I3 as [_ NO]; exact NO).
  destruct (lookup_ren_am s g n a RO L) as (a' & L' & Ea' & Ga').
  destruct (lookup_am_wf_keys s n a L) as (Wa & Ka). rewrite Ea in Ka. specialize (Ka cj Hc).
  destruct (lookup_am_wf_keys s _ a' L') as (Wa' & _).
  destruct (lookup_map_facts s n a NO L) as (Ia & Va).
  (* invocations of the leader class j whose keys are class slots are their own canonical forms *)
  destruct Lj as (e & He & Hae).
  pose proof (uso_leader s (ei_slots _ EI) j e cj He Hae Hc) as Ke.
  assert (Fix : forall m, wf m -> (forall k, get m k <> None -> In k (c_slots cj)) ->
                 find_applied_id s {| aid := j; am := m |} = Ok {| aid := j; am := m |}).
  { intros m Wm Km. apply (find_leader_fixed s _ e (ei_uf _ EI)); cbn [aid am]; [exact He|exact Hae|exact Wm|].
    intros k Hk. apply keys_spec. rewrite Ke. exact (Km k Hk). }
  (* the values of am a are class slots *)
  assert (Vc : forall k v, get (am a) k = Some v -> In v (c_slots cj)).
  { destruct (eg_eq_true_inv _ _ _ E) as (a1 & b1 & c1 & Fa & Fb & _ & Vals & _).
    assert (Era : a = {| aid := j; am := am a |}) by (destruct a as [ia ma]; cbn [aid am] in *; subst; reflexivity).
    rewrite Era, (Fix (am a) Wa Ka) in Fa. unfold idapp in Fb. rewrite (Fix (identity (c_slots cj))) in Fb.
    - inversion Fa; subst a1. inversion Fb; subst b1. cbn [am] in Vals.
      intros k v Gk. assert (Hv : In v (values (am a))) by (apply (values_spec _ _ Wa); eauto).
      rewrite Vals in Hv. apply (values_spec _ _ (identity_wf _)) in Hv. destruct Hv as (y & Gy).
      rewrite get_identity in Gy. destruct (sset_mem y (c_slots cj)) eqn:Em; [|discriminate].
      inversion Gy; subst y. apply sset_mem_in. exact Em.
    - apply identity_wf.
    - intros k Hk. rewrite get_identity in Hk. destruct (sset_mem k (c_slots cj)) eqn:Em; [|congruence].
      apply sset_mem_in. exact Em. }
  (* am a' = am a ** am i' *)
  assert (Ema : am a' = am a ** am i').
  { apply ext_eq; [exact Wa'|apply compose_partial_wf|]. intros z. rewrite Ga', get_compose_partial by exact Wa.
    destruct (get (am a) z) as [v|] eqn:Gz; cbn [option_map]; [|reflexivity].
    symmetry. apply Hg; [exact (Va z v Gz)|exact (Vc z v Gz)]. }
  (* identity ** am i' = am i' *)
  assert (Eid : identity (c_slots cj) ** am i' = am i').
  { apply ext_eq; [apply compose_partial_wf|exact Wi|]. intros z. rewrite get_compose_partial by apply identity_wf.
    rewrite get_identity. destruct (sset_mem z (c_slots cj)) eqn:Em; [reflexivity|].
    destruct (get (am i') z) as [v|] eqn:Gz; [|reflexivity].
    assert (Hz : In z (c_slots cj)) by (apply Ki; congruence). apply sset_mem_in in Hz. congruence. }
  assert (Ca : covers s a) by exact (eg_lookup_covers s n a NO L).
  assert (Cb : covers s (idapp j cj)) by (unfold idapp; apply covers_identity; exact Hc).
  assert (Da : forall k y, get (am a) k = Some y -> get (am i') y <> None).
  { intros k y Gk. apply Ki. exact (Vc k y Gk). }
  pose proof (eg_eq_rename s a (idapp j cj) (am i') EI Ca Cb Wa (identity_wf _) Ii Da E) as R.
  unfold idapp in R. cbn [aid am] in R. rewrite Eid, <- Ema, <- Ea' in R.
  exists a'. split; [exact L'|].
  assert (Era' : a' = {| aid := aid a'; am := am a' |}) by (destruct a' as [ia ma]; reflexivity).
  assert (Eri : i' = {| aid := j; am := am i' |}) by (destruct i' as [ii mi]; cbn [aid am] in *; subst; reflexivity).
  rewrite Era', Eri. exact R.
Qed.

Print Assumptions lookup_ren_am.
Print Assumptions nf_apply_query.
