(* Extract/ExtractMemberNf.v — what `class_nf` establishes for a stored e-node: `nf_facts` (ExtractMemberDefs.v).
   Extension of the proof of `nf_stored` (NfOk.v): the two stages are capture-free injective renamings; the lookup
   follows the renaming of the values (`lookup_ren_map`); the invocation the lookup of a stored node returns is equal
   to the identity invocation of its class (`lookup_stored_id`, self-symmetry completeness). *)
From SE Require Import Slots.SlotMapFacts Group.GroupSound Lang.LangFacts Lang.ShapeFacts Lang.RenameFacts
  Base.TextFacts Parse.Parser EGraph.Model EGraph.ModelFacts EGraph.ModelMachine EGraph.UnionFindFacts
  EGraph.InvariantFacts EGraph.UnionInvariantFacts EGraph.AddCoversFacts EGraph.HashconsShape EGraph.Mod4Facts
  EGraph.HashconsAbs EGraph.HashconsFacts EGraph.Rewrite EGraph.RewriteFacts EGraph.MatchDefs EGraph.MatchMachine
  EGraph.ProgressFacts EGraph.MatchFacts EGraph.SoundUnion EGraph.MonotoneFacts EGraph.MatchLookup
  EGraph.NodeCong EGraph.KidEqFacts EGraph.ShapeCong EGraph.CongruenceFacts EGraph.MatchComplete
  EGraph.MatchReprFix EGraph.MatchReprAlg EGraph.StoredLive EGraph.KidsFacts EGraph.PendingFacts EGraph.MatchReprFacts.
From SE Require Import Extract.Extractor Extract.ExtractorFacts Extract.NfOk Extract.ExtractMemberDefs.
From SE Require Extract.UsagesOk EGraph.SelfSymDss.
Require Import ZArith Lia ZifyBool ZifyN ZifyNat.

Local Notation "a ** b" := (compose_partial a b) (at level 40, left associativity).
Local Notation inv := inverse_nocheck.

Local Ltac neq := repeat match goal with
  | H : (_ =? _) = true |- _ => apply N.eqb_eq in H
  | H : (_ =? _) = false |- _ => apply N.eqb_neq in H
  end.

(* ------------------------------------------------------------------ *)
(* 1. the lookup under a capture-free injective renaming: same class, values renamed *)

Lemma lookup_ren_map : forall s g n a, ren_ok g n -> Extractor.eg_lookup s n = Ok (Some a) ->
  exists a', Extractor.eg_lookup s (RenameFacts.ren g n) = Ok (Some a') /\ aid a' = aid a /\
    forall z, get (am a') z = option_map (g true) (get (am a) z).
Proof.
  intros s g n a RO H.
  destruct (lookup_hit s n a H) as (sh & bn & i & c & cb & src & Hsh & Hh & Hc & G & ->).
  unfold shape in Hsh. destruct (pre_shape s n) as [p|] eqn:P; cbn [bind] in Hsh; [|discriminate].
  assert (Hp : ren_ok g p).
  { pose proof P as P'. unfold pre_shape in P'.
    destruct (find_enode s n) as [n1|] eqn:F; cbn [bind] in P'; [|discriminate].
    destruct (variants s n1) as [vs|] eqn:V; cbn [bind] in P'; [|discriminate].
    apply min_variant_in in P'. destruct P' as [P'|[k P']]; [|discriminate].
    destruct (find_enode_sub s n n1 F) as (B1 & P1). destruct (variants_sub s n1 vs p V P') as (B2 & P2).
    apply (ren_ok_sub g n); [congruence| |assumption]. intros x Hx. apply P1, P2, Hx. }
  destruct (ren_ok_ws g p sh bn Hp Hsh) as (b' & W' & Gb').
  assert (Hsh' : shape s (RenameFacts.ren g n) = Ok (sh, b')).
  { unfold shape. rewrite (pre_shape_ren s g n p RO P). cbn [bind]. exact W'. }
  exists {| aid := i; am := filt c (inv cb ** b') |}. split; [|split].
  - unfold Extractor.eg_lookup. rewrite Hsh'. cbn [bind]. exact (lookup_internal_intro s sh b' i c cb src Hh Hc G).
  - reflexivity.
  - cbn [am]. intros z. unfold filt. rewrite !(get_filter_key (fun k => sset_mem k (c_slots c))).
    destruct (sset_mem z (c_slots c)); [|reflexivity].
    rewrite !get_compose_partial by apply inverse_wf. destruct (get (inv cb) z) as [y|]; [apply Gb'|reflexivity].
Qed.

(* ------------------------------------------------------------------ *)
(* 2. the children of a renamed node *)

Lemma kids_ren : forall s g n, ren_ok g n ->
  (forall a, In a (app_occ n) -> lkid s a /\ kid_ok s a) ->
  forall a, In a (app_occ (RenameFacts.ren g n)) -> lkid s a /\ kid_ok s a.
Proof.
  intros s g n (G1 & G2 & G3) K a Ha. split.
  - rewrite HashconsShape.app_occ_ren in Ha. revert a Ha. apply SelfSymDss.lkid_zip_rv. intros a Ha. exact (proj1 (K a Ha)).
  - assert (F : Forall (kid_ok s) (app_occ (RenameFacts.ren g n))).
    { apply kid_ren; [apply Forall_forall; intros b Hb; exact (proj2 (K b Hb))|exact G1| |exact G3].
      intros x b Hx Hb _. exact (G2 x b Hx Hb). }
    exact (proj1 (Forall_forall _ _) F a Ha).
Qed.

Lemma lookup_wf : forall s n a, Extractor.eg_lookup s n = Ok (Some a) -> wf (am a).
Proof.
  intros s n a H. destruct (lookup_hit s n a H) as (sh & bn & i & c & cb & src & _ & _ & _ & _ & ->). cbn [am].
  unfold filt. apply (filter_key_wf (fun k => sset_mem k (c_slots c))). apply compose_partial_wf.
Qed.

Lemma appid_eta : forall a : appid, a = {| aid := aid a; am := am a |}.
Proof. intros [i m]. reflexivity. Qed.

Lemma find_id_compose : forall s j cj m, eg_inv s -> get_class s j = Ok cj ->
  find_applied_id s {| aid := j; am := m |} = find_applied_id s {| aid := j; am := identity (c_slots cj) ** m |}.
Proof.
  intros s j cj m EI Hc. apply (find_agree s j cj _ _ EI Hc). intros k Hk.
  rewrite get_compose_partial by apply identity_wf. rewrite get_identity, (proj2 (sset_mem_in _ _) Hk). reflexivity.
Qed.

(* ------------------------------------------------------------------ *)
(* 3. the invocation the lookup of a stored e-node returns is EQUAL to the identity invocation of its class *)

Section NfFacts.
  Variable s : egraph.
  Hypothesis MI : match_inv s.
  Hypothesis SS : ss_ok s.

  Lemma lookup_stored_id : forall j cj sh bij src x a0, get_class s j = Ok cj -> In (sh, (bij, src)) (c_nodes cj) ->
    apply_slotmap false bij sh = Ok x -> Extractor.eg_lookup s x = Ok (Some a0) ->
    eg_eq s a0 (idapp j cj) = Ok true.
  Proof.
    intros j cj sh bij src x a0 Hc Hin H1 L0.
    pose proof L0 as L0'.
    destruct (lookup_stored s MI j cj sh bij src x a0 Hc Hin H1 L0) as (bx & Hbx & Ea0).
    destruct (enode_facts s MI j cj sh bij src x Hc Hin H1) as (Ex0 & R0 & Bx & B4x & NDx & P4x & Kids & b1x & W1 & Gb1 & Kb1).
    destruct MI as [I3 K0 M4' Hhc Hpe Hl].
    assert (EI : eg_inv s) by (destruct I3 as [[EI _] _]; exact EI).
    destruct I3 as [_ NO].
    pose proof (in_stored s Hhc _ _ _ _ Hc Hin) as St.
    assert (G : na_get (c_nodes cj) sh = Some (bij, src)) by (unfold stored, cnodes in St; rewrite Hc in St; exact St).
    destruct (NO j cj _ Hc Hin) as (Wb & Inj & Kb & Sb). cbn [fst snd] in Wb, Inj, Kb, Sb.
    pose proof (proj2 (is_bijection_injective bij Wb) Inj) as Bb.
    assert (Fx : find_enode s x = Ok x).
    { unfold find_enode. rewrite (mapr_id (find_applied_id s) (app_occ x)).
      - cbn [bind]. rewrite set_apps_self. reflexivity.
      - intros a Ha. apply lkid_fixed; [exact (ei_uf _ EI)|exact (proj1 (Kids a Ha))]. }
    unfold shape, pre_shape in Hbx. rewrite Fx in Hbx. cbn [bind] in Hbx.
    destruct (variants s x) as [vs|] eqn:V; cbn [bind] in Hbx; [|discriminate].
    destruct (min_variant vs None) as [p|] eqn:P; cbn [bind] in Hbx; [|discriminate].
    apply min_variant_in in P. destruct P as [P|[k0 P]]; [|discriminate].
    destruct (variants_head s x vs (fun a Ha => proj1 (Kids a Ha)) V) as (tl & Evs).
    assert (Ix : In x vs) by (rewrite Evs; left; reflexivity).
    pose proof (ss_ok_var s EI NO Hhc SS sh j cj bij src x vs x p b1x bx Hc G (fun a Ha => proj2 (Kids a Ha)) NDx V Ix P W1 Hbx) as E.
    rewrite <- Ea0 in E.
    assert (E' : eg_eq s (idapp j cj) a0 = Ok true).
    { rewrite <- E. apply eg_eq_find_congr; [|reflexivity]. unfold idapp.
      apply (find_agree s j cj _ _ EI Hc). intros k Hk.
      rewrite get_identity, (proj2 (sset_mem_in _ _) Hk).
      unfold filt. rewrite (get_filter_key (fun k => sset_mem k (c_slots cj))), (proj2 (sset_mem_in _ _) Hk).
      rewrite get_compose_partial by apply inverse_wf.
      destruct (Sb k Hk) as (k' & Gk').
      rewrite (proj2 (get_inverse bij k k' Wb Bb) Gk').
      assert (Hk' : In k' (pub_occ sh)) by (apply Kb; congruence).
      rewrite (Gb1 k' Hk'). unfold asm_g. rewrite Gk'. reflexivity. }
    apply (eg_eq_sym_true s _ _ EI); [apply covers_identity; exact Hc|exact (eg_lookup_covers s x a0 NO L0')|exact E'].
  Qed.

  (* ---------------- class_nf of a stored e-node, from a counter that is not below the counter of the state ---------------- *)
  Theorem nf_stored_full : forall c j cj sh bij src x x' s1', Model.ctr s <= c ->
    get_class s j = Ok cj -> In (sh, (bij, src)) (c_nodes cj) -> apply_slotmap false bij sh = Ok x ->
    class_nf x (set_ctr s c) = Ok (x', s1') ->
    nf_facts s j x' /\ c <= Model.ctr s1' /\ s1' = set_ctr s (Model.ctr s1') /\
    (forall b, In b (binders x') -> c <= b < Model.ctr s1').
  Proof.
    intros c j cj sh bij src x x' s1' Lc Hc Hin H1 H.
    destruct (enode_facts s MI j cj sh bij src x Hc Hin H1) as (Ex0 & R0 & Bx & B4x & NDx & P4x & Kids & _).
    pose proof (mi_inv3 s MI) as I3. pose proof (m4_cls4 _ (mi_m4 s MI)) as M4.
    destruct (class_facts s I3 M4 j cj Hc) as [S1c Below].
    assert (NO : nodes_ok s) by (destruct I3 as [_ NO]; exact NO).
    assert (EI : eg_inv s) by (destruct I3 as [[EI _] _]; exact EI).
    (* unfold class_nf *)
    unfold class_nf in H.
    apply mbind_inv in H. destruct H as (l1 & s1 & Hr & H).
    apply mbind_inv in H. destruct H as (i1 & s2 & H2 & H).
    apply reads_inv in H2. destruct H2 as [H2 ->].
    unfold eg_refresh_internals in Hr. apply mbind_inv in Hr. destruct Hr as (i0 & s0 & H0 & Hr).
    apply reads_inv in H0. destruct H0 as [H0 ->].
    unfold lift_ctr in Hr. cbn [Model.ctr set_ctr] in Hr.
    destruct (refresh_internals (values (am i0)) x c) as [[r|e] c1] eqn:R; [|discriminate].
    inversion Hr; subst l1 s1. clear Hr.
    change (eg_lookup_unwrap s x = Ok i0) in H0. unfold eg_lookup_unwrap in H0.
    destruct (Extractor.eg_lookup s x) as [[a0|]|] eqn:L0; cbn [bind] in H0; try discriminate. inversion H0; subst i0. clear H0.
    destruct (lookup_values_class s MI SS j cj sh bij src x a0 Hc Hin H1 L0) as [Ea0 Kv].
    pose proof (lookup_stored_id j cj sh bij src x a0 Hc Hin H1 L0) as E0.
    (* stage 1 *)
    destruct (refresh_internals_ren _ _ _ _ _ R) as (g1 & El1 & Lc1 & Fl1 & Keep & Fresh & Inj1).
    assert (PubLt : forall a, In a (values (am a0)) -> a < c) by (intros a Ha; pose proof (Below a (Kv a Ha)); lia).
    assert (InjAll : forall a b, In a (all_occ x) -> In b (all_occ x) -> g1 true a = g1 true b -> a = b).
    { intros a b Ha Hb E.
      destruct (sset_mem a (values (am a0))) eqn:Ma, (sset_mem b (values (am a0))) eqn:Mb.
      - apply sset_mem_in in Ma, Mb. rewrite (Keep a Ha Ma), (Keep b Hb Mb) in E. exact E.
      - apply sset_mem_in in Ma. assert (Nb : ~ In b (values (am a0))) by (intros Q; apply sset_mem_in in Q; congruence).
        rewrite (Keep a Ha Ma) in E. pose proof (Fresh b Hb Nb). pose proof (PubLt a Ma). lia.
      - apply sset_mem_in in Mb. assert (Na : ~ In a (values (am a0))) by (intros Q; apply sset_mem_in in Q; congruence).
        rewrite (Keep b Hb Mb) in E. pose proof (Fresh a Ha Na). pose proof (PubLt b Mb). lia.
      - assert (Na : ~ In a (values (am a0))) by (intros Q; apply sset_mem_in in Q; congruence).
        assert (Nb : ~ In b (values (am a0))) by (intros Q; apply sset_mem_in in Q; congruence).
        exact (Inj1 a b Ha Hb Na Nb E). }
    assert (PB : forall a b, In a (pub_occ x) -> In b (binders x) -> a <> b).
    { intros a b Ha Hb ->. pose proof (P4x b Ha). pose proof (B4x b Hb). lia. }
    assert (RO1 : ren_ok g1 x).
    { split; [|split].
      - intros a b Ha Hb E. apply InjAll; [apply binders_all_occ; exact Ha|apply binders_all_occ; exact Hb|].
        rewrite (Fl1 a false), (Fl1 b false) in E. exact E.
      - intros a b Ha Hb E. rewrite (Fl1 b false) in E. apply (PB a b Ha Hb).
        apply InjAll; [apply pub_occ_all_occ; exact Ha|apply binders_all_occ; exact Hb|exact E].
      - intros a b Ha Hb E. apply InjAll; [apply pub_occ_all_occ; exact Ha|apply pub_occ_all_occ; exact Hb|exact E]. }
    destruct (lookup_ren_map s g1 x a0 RO1 L0) as (a1 & L1 & Ea1 & M1). rewrite <- El1 in L1.
    change (eg_lookup_unwrap s r = Ok i1) in H2. unfold eg_lookup_unwrap in H2. rewrite L1 in H2. cbn [bind] in H2.
    inversion H2; subst i1. clear H2.
    (* the slots of r = ren g1 x *)
    pose proof RO1 as RO1'. destruct RO1 as (G11 & G12 & G13).
    assert (Pr : pub_occ r = map (g1 true) (pub_occ x)) by (rewrite El1; apply ren_pub_occ; assumption).
    assert (Br : binders r = map (g1 false) (binders x)) by (rewrite El1; apply ren_binders).
    assert (PrLt : forall v, In v (pub_occ r) -> v < c1).
    { intros v Hv. rewrite Pr in Hv. apply in_map_iff in Hv. destruct Hv as (a & <- & Ha).
      destruct (sset_mem a (values (am a0))) eqn:Ma.
      - apply sset_mem_in in Ma. rewrite (Keep a (pub_occ_all_occ _ _ Ha) Ma). pose proof (PubLt a Ma). lia.
      - assert (Na : ~ In a (values (am a0))) by (intros Q; apply sset_mem_in in Q; congruence).
        pose proof (Fresh a (pub_occ_all_occ _ _ Ha) Na). lia. }
    assert (BrIn : forall b, In b (binders r) -> c <= b < c1).
    { intros v Hv. rewrite Br in Hv. apply in_map_iff in Hv. destruct Hv as (b & <- & Hb). rewrite (Fl1 b false).
      assert (Nb : ~ In b (values (am a0))).
      { intros Q. pose proof (S1c b (Kv b Q)) as Z. unfold ok1 in Z. pose proof (B4x b Hb). lia. }
      exact (Fresh b (binders_all_occ _ _ Hb) Nb). }
    assert (BrLt : forall b, In b (binders r) -> b < c1) by (intros b Hb; pose proof (BrIn b Hb); lia).
    assert (Clr : forall p, In p (pub_occ r) -> ~ In p (binders r)).
    { intros p Hp Hb. rewrite Pr in Hp. rewrite Br in Hb. apply in_map_iff in Hp, Hb.
      destruct Hp as (a & <- & Ha). destruct Hb as (b & E & Hb). rewrite (Fl1 b false) in E.
      apply (PB a b Ha Hb). symmetry.
      apply InjAll; [apply binders_all_occ; exact Hb|apply pub_occ_all_occ; exact Ha|exact E]. }
    (* stage 2 *)
    destruct (lookup_map_facts s r a1 NO L1) as [Im1 Vm1].
    unfold with_ctr in H. cbn [Model.ctr set_ctr] in H.
    destruct (apply_slotmap_fresh false (am a1) r c1) as [x2 c2] eqn:A. inversion H; subst x2 s1'. clear H.
    destruct (asf_clean_ren (am a1) r c1 x' c2 Clr Im1 (fun k v G => PrLt v (Vm1 k v G)) A)
      as (g2 & Ex' & Lc2 & Gb2 & Fl2 & Inj2 & Sp2).
    assert (RO2 : ren_ok g2 r).
    { split; [|split].
      - intros a b Ha Hb E. rewrite (Gb2 a false Ha), (Gb2 b false Hb) in E. exact E.
      - intros a b Ha Hb E. rewrite (Gb2 b false Hb) in E. destruct (Sp2 a Ha) as [Gm|(_ & Lv)].
        + apply (Clr (g2 true a)); [exact (Vm1 a _ Gm)|rewrite E; exact Hb].
        + pose proof (BrLt b Hb). lia.
      - exact Inj2. }
    destruct (lookup_ren_map s g2 r a1 RO2 L1) as (a2 & L2 & Ea2 & M2). rewrite <- Ex' in L2.
    (* the binders of x' *)
    assert (Bx' : binders x' = map (g2 false) (binders r)) by (rewrite Ex'; apply ren_binders).
    assert (Px' : pub_occ x' = map (g2 true) (pub_occ r)) by (rewrite Ex'; apply ren_pub_occ; apply RO2).
    assert (Bfix : forall b, In b (binders x') -> In b (binders r)).
    { intros b Hb. rewrite Bx' in Hb. apply in_map_iff in Hb. destruct Hb as (b' & <- & Hb'). rewrite (Gb2 b' false Hb'). exact Hb'. }
    (* the maps *)
    pose proof (lookup_wf s x a0 L0) as W0. pose proof (lookup_wf s r a1 L1) as W1.
    destruct (lookup_map_facts s x a0 NO L0) as [Im0 Vm0].
    assert (E10 : am a1 = am a0).
    { apply ext_eq; [exact W1|exact W0|]. intros z. rewrite (M1 z). destruct (get (am a0) z) as [v|] eqn:Gz; [|reflexivity].
      cbn [option_map]. f_equal. apply Keep; [apply pub_occ_all_occ; exact (Vm0 z v Gz)|].
      apply (values_spec _ _ W0). exists z. exact Gz. }
    pose proof (eg_lookup_covers s x a0 NO L0) as C0.
    pose proof (eg_lookup_covers s x' a2 NO L2) as C2.
    pose proof (covers_identity s j cj Hc) as Cid. fold (idapp j cj) in Cid.
    assert (Key0 : forall y, In y (c_slots cj) -> get (am a0) y <> None).
    { destruct C0 as (c0 & Hc0 & _ & Sk0). rewrite Ea0, Hc in Hc0. inversion Hc0; subst c0. exact Sk0. }
    assert (Sq : forall z v, get (am a0) z = Some v -> get (am a0) v = Some (g2 true v)).
    { intros z v Gz. assert (Hv : In v (values (am a0))) by (apply (values_spec _ _ W0); exists z; exact Gz).
      assert (Hp : In v (pub_occ r)) by (apply (Vm1 z v); rewrite E10; exact Gz).
      destruct (Sp2 v Hp) as [Gm|(Gn & _)]; [rewrite <- E10; exact Gm|].
      exfalso. apply (Key0 v (Kv v Hv)). rewrite <- E10. exact Gn. }
    assert (E2 : am a2 = am a0 ** am a0).
    { apply ext_eq; [exact (lookup_wf s x' a2 L2)|apply compose_partial_wf|]. intros z.
      rewrite (M2 z), E10, get_compose_partial by exact W0.
      destruct (get (am a0) z) as [v|] eqn:Gz; [|reflexivity]. cbn [option_map]. symmetry. exact (Sq z v Gz). }
    assert (Look : eg_eq s a2 (idapp j cj) = Ok true).
    { assert (Dom : forall k y, get (am a0) k = Some y -> get (am a0) y <> None).
      { intros k y G. rewrite (Sq k y G). discriminate. }
      pose proof (eg_eq_rename s a0 (idapp j cj) (am a0) EI C0 Cid W0 (identity_wf _) Im0 Dom E0) as RN.
      unfold idapp in RN. cbn [aid am] in RN. fold (idapp j cj) in RN.
      apply (eg_eq_trans_true s a2 a0 (idapp j cj) EI C2 C0 Cid); [|exact E0].
      rewrite <- RN. apply eg_eq_find_congr.
      - rewrite (appid_eta a2), E2, Ea2, Ea1. reflexivity.
      - rewrite (appid_eta a0), Ea0. cbn [aid am]. apply (find_id_compose s j cj _ EI Hc). }
    split; [|split; [|split]].
    - constructor.
      + exists cj, a2. split; [exact Hc|]. split; [exact L2|]. split; [congruence|exact Look].
      + assert (K0 : forall a, In a (app_occ x) -> lkid s a /\ kid_ok s a).
        { intros a Ha. destruct (Kids a Ha) as [La [_ Ca]]. split; [exact La|]. split; [apply canon_covers; exact Ca|].
          destruct Ca as (c0 & _ & _ & Wa & _). exact Wa. }
        pose proof (kids_ren s g1 x RO1' K0) as K1. rewrite <- El1 in K1.
        pose proof (kids_ren s g2 r RO2 K1) as K2. rewrite <- Ex' in K2.
        intros a Ha. destruct (K2 a Ha) as [La [Ca _]]. split; assumption.
      + intros p Hp Hb. rewrite Px' in Hp. rewrite Bx' in Hb. apply in_map_iff in Hp, Hb.
        destruct Hp as (a & <- & Ha). destruct Hb as (b & E & Hb).
        destruct RO2 as (_ & Sep & _). exact (Sep a b Ha Hb (eq_sym E)).
      + rewrite Ex'. apply (ren_ok_nodup g2 r RO2). rewrite El1. apply (ren_ok_nodup g1 x RO1' NDx).
    - cbn [Model.ctr set_ctr]. lia.
    - reflexivity.
    - cbn [Model.ctr set_ctr]. intros b Hb. pose proof (BrIn b (Bfix b Hb)). lia.
  Qed.
End NfFacts.

(* ------------------------------------------------------------------ *)
(* 4. for the stored e-nodes as `snodes` lists them *)
Theorem nf_stored_facts : forall s, match_inv s -> ss_ok s ->
  forall c j x x' s1', Model.ctr s <= c -> In (j, x) (snodes s) -> class_nf x (set_ctr s c) = Ok (x', s1') ->
    nf_facts s j x' /\ c <= Model.ctr s1' /\ s1' = set_ctr s (Model.ctr s1') /\
    (forall b, In b (binders x') -> c <= b < Model.ctr s1').
Proof.
  intros s MI SS c j x x' s1' Lc Hin H. apply snodes_in in Hin. destruct Hin as (_ & ns & En & Hx).
  destruct (UsagesOk.enodes_inv s j ns En) as (cj & Hc & Sp). apply Sp in Hx.
  destruct Hx as (sh & bij & src & Hi & Ha).
  exact (nf_stored_full s MI SS c j cj sh bij src x x' s1' Lc Hc Hi Ha H).
Qed.

Print Assumptions lookup_ren_map.
Print Assumptions lookup_stored_id.
Print Assumptions nf_stored_full.
Print Assumptions nf_stored_facts.
