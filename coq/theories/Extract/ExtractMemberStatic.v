(* Extract/ExtractMemberStatic.v — MEMBERSHIP of the extracted term (Extract/ExtractMember.v) for every history over
   `term_static` terms (EGraph/OpsPreFacts.v): no premise on the state. *)
From SE Require Import EGraph.Model EGraph.ModelMachine EGraph.Model9 EGraph.UnionFindFacts EGraph.InvariantFacts
  EGraph.HashconsFacts EGraph.CongruenceFacts EGraph.OpsPreFacts
  Extract.Extractor Extract.ExtractorFacts Extract.ExtractorReach Extract.ExtractMember.
Require Import ZArith List.
Import ListNotations.

(* For every state s of a history over static terms, every table (m, s0) = extractor_new last cf s, every invocation i
   that covers its class and whose slots are older than the extractor (below the counter of s), and every state s1 that
   is s up to the fresh-slot counter with ctr s0 <= ctr s1:  if  extract fuel m i s1 = Ok (t, s1')  then
   (1) t is found by lookup_rec_expr in s (equivalently in s1': `lookup_rec_ctr_only`) and the invocation found is equal
       to the query;
   (2) re-inserting t changes nothing and returns an invocation equal to the query;
   (3) every free slot of t is a slot of the canonical form of the query or a brand-new slot (>= ctr s1). *)
Theorem extract_member_static : forall terms ops hs s, Forall term_static terms ->
  run_ops terms ops [] empty_egraph = Ok (hs, s) ->
  forall cf last m s0, extractor_new last cf s = Ok (m, s0) ->
  forall fuel i s1 t s1', ctr_only s s1 -> Model.ctr s0 <= Model.ctr s1 -> covers s i ->
  (forall x v, get (am i) x = Some v -> v < Model.ctr s) ->
  extract fuel m i s1 = Ok (t, s1') ->
  (exists x, lookup_rec s t = Ok (Some x) /\ eg_eq s x i = Ok true) /\
  (forall a' s', add_expr t s = Ok (a', s') -> s' = s /\ eg_eq s' i a' = Ok true) /\
  (exists i', find_applied_id s i = Ok i' /\
     forall v, In v (rfree t) -> (exists y, get (am i') y = Some v) \/ Model.ctr s1 <= v).
Proof.
  intros terms ops hs s HT H.
  exact (extract_member_reachable terms ops hs s (ops_pre_static terms ops HT) (static_kids_premise terms HT) H).
Qed.

(* in the state the extractor leaves behind, with the lookup evaluated there as well *)
Corollary extract_member_static0 : forall terms ops hs s, Forall term_static terms ->
  run_ops terms ops [] empty_egraph = Ok (hs, s) ->
  forall cf last m s0, extractor_new last cf s = Ok (m, s0) ->
  forall fuel i t s', covers s i -> (forall x v, get (am i) x = Some v -> v < Model.ctr s) ->
  extract fuel m i s0 = Ok (t, s') ->
  exists x, lookup_rec s' t = Ok (Some x) /\ eg_eq s x i = Ok true.
Proof.
  intros terms ops hs s HT H cf last m s0 HN fuel i t s' Ci QB HE.
  pose proof (extract_inv_reachable _ _ _ _ (ops_pre_static terms ops HT) (static_kids_premise terms HT) H) as XI.
  destruct (tbl_inv_of_new s cf last m s0 XI HN) as [_ C0].
  destruct (extract_member_general s cf last m s0 XI HN fuel i s0 t s' (ExtractorBridgeUp.cup_ctr_only _ _ C0) (N.le_refl _) Ci)
    as ((_ & x & L & E) & CO & _); [| |exact HE|].
  - intros x v Gx. pose proof (QB x v Gx) as Q1. pose proof (ExtractMemberTable.cup_le _ _ C0) as Q2. exact (N.lt_le_trans _ _ _ Q1 Q2).
  - intros j n c x v Hin Gx Hb. pose proof (QB x v Gx) as Q1.
    destruct (tbl_inv_of_new s cf last m s0 XI HN) as [TI _].
    pose proof (ExtractMemberDefs.ti_bnd _ _ _ TI j n c Hin v Hb) as [Q2 _]. apply (N.lt_irrefl v). exact (N.lt_le_trans _ _ _ Q1 Q2).
  - exists x. split; [|exact E]. rewrite (lookup_rec_ctr_only s s' t CO). exact L.
Qed.

Print Assumptions extract_member_static.
Print Assumptions extract_member_static0.
