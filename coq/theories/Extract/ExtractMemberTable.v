(* Extract/ExtractMemberTable.v — THE TABLE INVARIANT `tbl_inv s s0 m` (Extract/ExtractMemberDefs.v) of
   `extractor_new last cf s = Ok (m, s0)`, from the class-normal-form facts `nf_stored_facts`
   (Extract/ExtractMemberNf.v) and `usages_ok` (Extract/UsagesOk.v).

   Loop invariant of `worklist` (table m, queue q, threaded state s1 with `cup s s1`):
   - every node of the table / of the queue is the class normal form of a stored e-node (`nf_facts`);
   - the binder names of ALL these nodes together are pairwise distinct and below the counter of s1 (every `class_nf`
     draws its fresh names from the counter, which only moves up);
   - the children classes of a queued node are tabled; of a tabled node: tabled strictly earlier (`emap_idx`). *)
From SE Require Import EGraph.Model EGraph.ModelMachine EGraph.ModelFacts EGraph.UnionFindFacts EGraph.InvariantFacts
  EGraph.AddCoversFacts EGraph.HashconsFacts EGraph.CongruenceFacts EGraph.SelfSymFacts EGraph.MatchReprFacts
  EGraph.StoredLive EGraph.KidsFacts EGraph.HashconsShape Lang.RenameFacts
  Extract.Extractor Extract.ExtractorFacts Extract.ExtractorBridgeUp Extract.UsagesOk Extract.NfOk Extract.ExtractorReach
  Extract.ExtractMemberDefs.
Require Import ZArith Lia List Permutation.
Import ListNotations.

(* ------------------------------------------------------------------ *)
(* 1. lists *)

Lemma NoDup_app_intro : forall (A : Type) (l1 l2 : list A), NoDup l1 -> NoDup l2 ->
  (forall x, In x l1 -> ~ In x l2) -> NoDup (l1 ++ l2).
Proof.
  intros A. induction l1 as [|a t IH]; intros l2 H1 H2 HD; cbn [app]; [exact H2|].
  inversion H1 as [|? ? Ha Ht]; subst. constructor.
  - intros Hin. apply in_app_or in Hin. destruct Hin as [Hin|Hin]; [exact (Ha Hin)|].
    exact (HD a (or_introl eq_refl) Hin).
  - apply IH; [exact Ht|exact H2|]. intros x Hx. apply HD. right. exact Hx.
Qed.

Lemma NoDup_app_remove_l : forall (A : Type) (a b : list A), NoDup (a ++ b) -> NoDup b.
Proof.
  intros A. induction a as [|x a IH]; intros b H; cbn [app] in H; [exact H|].
  inversion H; subst. apply IH. assumption.
Qed.

Lemma NoDup_app_remove_r : forall (A : Type) (a b : list A), NoDup (a ++ b) -> NoDup a.
Proof.
  intros A. induction a as [|x a IH]; intros b H; cbn [app] in H; [constructor|].
  inversion H as [|? ? Hx Ht]; subst. constructor; [|exact (IH b Ht)].
  intros Hin. apply Hx. apply in_or_app. left. exact Hin.
Qed.

Lemma NoDup_app_drop_mid : forall (A : Type) (a b c : list A), NoDup (a ++ b ++ c) -> NoDup (a ++ c).
Proof.
  intros A a b c H. assert (H' : NoDup (b ++ a ++ c)).
  { apply (Permutation_NoDup (l := a ++ b ++ c)); [|exact H].
    rewrite !app_assoc. apply Permutation_app_tail. apply Permutation_app_comm. }
  exact (NoDup_app_remove_l _ _ _ H').
Qed.

Lemma NoDup_flat_map_disjoint : forall (A B : Type) (f : A -> list B) l, NoDup (flat_map f l) ->
  forall x y, In x l -> In y l -> x <> y -> forall b, In b (f x) -> ~ In b (f y).
Proof.
  intros A B f. induction l as [|a t IH]; intros H x y Hx Hy Hxy b Hbx Hby; [destruct Hx|].
  cbn [flat_map] in H.
  assert (Hnd : forall u v, NoDup (u ++ v) -> forall z : B, In z u -> In z v -> False).
  { clear. induction u as [|w u IHu]; intros v Hn z Hu Hv; [destruct Hu|].
    cbn [app] in Hn. inversion Hn as [|? ? Hw Hn']; subst. destruct Hu as [->|Hu].
    - apply Hw. apply in_or_app. right. exact Hv.
    - exact (IHu v Hn' z Hu Hv). }
  destruct Hx as [->|Hx], Hy as [->|Hy].
  - exact (Hxy eq_refl).
  - apply (Hnd _ _ H b Hbx). apply in_flat_map. exists y. split; assumption.
  - apply (Hnd _ _ H b Hby). apply in_flat_map. exists x. split; assumption.
  - exact (IH (NoDup_app_remove_l _ _ _ H) x y Hx Hy Hxy b Hbx Hby).
Qed.

(* ------------------------------------------------------------------ *)
(* 2. the table as an association list *)

Lemma emap_idx_app : forall m k v i,
  emap_idx (m ++ [(k, v)]) i =
  match emap_idx m i with Some x => Some x | None => if k =? i then Some (List.length m) else None end.
Proof.
  induction m as [|[k0 v0] t IH]; intros k v i; cbn [app emap_idx List.length].
  - destruct (k =? i); reflexivity.
  - destruct (k0 =? i); [reflexivity|]. rewrite IH.
    destruct (emap_idx t i); cbn [option_map]; [reflexivity|]. destruct (k =? i); reflexivity.
Qed.

Lemma emap_idx_lt : forall m i k, emap_idx m i = Some k -> (k < List.length m)%nat.
Proof.
  induction m as [|[k0 v0] t IH]; intros i k H; cbn [emap_idx List.length] in *; [discriminate|].
  destruct (k0 =? i); [inversion H; lia|].
  destruct (emap_idx t i) as [k'|] eqn:E; cbn [option_map] in H; [|discriminate].
  inversion H; subst. pose proof (IH i k' E). lia.
Qed.

Lemma emap_has_idx : forall m i, emap_has m i = true -> exists k, emap_idx m i = Some k.
Proof.
  unfold emap_has. induction m as [|[k0 v0] t IH]; intros i H; cbn [emap_get emap_idx] in *; [discriminate|].
  destruct (k0 =? i); [eauto|]. destruct (IH i H) as (k & ->). cbn [option_map]. eauto.
Qed.

Lemma emap_get_idx : forall m i v, emap_get m i = Some v -> exists k, emap_idx m i = Some k.
Proof. intros m i v H. apply emap_has_idx. unfold emap_has. rewrite H. reflexivity. Qed.

Lemma emap_idx_none_get : forall m i, emap_idx m i = None -> emap_get m i = None.
Proof.
  induction m as [|[k0 v0] t IH]; intros i H; cbn [emap_get emap_idx] in *; [reflexivity|].
  destruct (k0 =? i); [discriminate|]. destruct (emap_idx t i) eqn:E; [discriminate|]. apply IH. exact E.
Qed.

Lemma ebinders_app : forall m1 m2, ebinders (m1 ++ m2) = ebinders m1 ++ ebinders m2.
Proof. intros m1 m2. unfold ebinders. apply flat_map_app. Qed.

(* ------------------------------------------------------------------ *)
(* 3. mapM with an invariant on the accumulated output *)

Lemma mapM_acc : forall A C (f : A -> M C) (I : list C -> egraph -> Prop) l,
  (forall x acc s1 y s2, In x l -> I acc s1 -> f x s1 = Ok (y, s2) -> I (acc ++ [y]) s2) ->
  forall acc s1 ys s2, I acc s1 -> mapM f l s1 = Ok (ys, s2) -> I (acc ++ ys) s2.
Proof.
  intros A C f I. induction l as [|x t IH]; intros Hf acc s1 ys s2 HI H; cbn [mapM] in H.
  - apply ret_inv in H. destruct H as [-> ->]. rewrite app_nil_r. exact HI.
  - apply mbind_inv in H. destruct H as (y & s3 & H1 & H).
    apply mbind_inv in H. destruct H as (r & s4 & H2 & H).
    apply ret_inv in H. destruct H as [-> ->].
    pose proof (Hf x acc s1 y s3 (or_introl eq_refl) HI H1) as HI3.
    pose proof (IH (fun x0 a b c d Hin => Hf x0 a b c d (or_intror Hin)) (acc ++ [y]) s3 r s4 HI3 H2) as HI4.
    rewrite <- app_assoc in HI4. exact HI4.
Qed.

(* ------------------------------------------------------------------ *)
(* 4. the invariant *)

Definition qbinders (q : list (node * N)) : list slot := flat_map (fun e : node * N => binders (fst e)) q.

Lemma qbinders_app : forall q1 q2, qbinders (q1 ++ q2) = qbinders q1 ++ qbinders q2.
Proof. intros q1 q2. unfold qbinders. apply flat_map_app. Qed.

(* a list of binder names: pairwise distinct, below the counter *)
Definition bl_ok (lo : N) (BL : list slot) (s1 : egraph) : Prop := NoDup BL /\ forall b, In b BL -> lo <= b < Model.ctr s1.

Lemma bl_push : forall lo BL nb s1 s2, bl_ok lo BL s1 -> NoDup nb -> lo <= Model.ctr s1 ->
  (forall b, In b nb -> Model.ctr s1 <= b < Model.ctr s2) -> Model.ctr s1 <= Model.ctr s2 -> bl_ok lo (BL ++ nb) s2.
Proof.
  intros lo BL nb s1 s2 [ND LT] Hn Hlo Hb Hc. split.
  - apply NoDup_app_intro; [exact ND|exact Hn|]. intros x Hx Hx'. pose proof (LT x Hx). pose proof (Hb x Hx'). lia.
  - intros b Hin. apply in_app_or in Hin. destruct Hin as [Hin|Hin]; [pose proof (LT b Hin); lia|].
    pose proof (Hb b Hin). lia.
Qed.

Lemma cup_le : forall s s1, cup s s1 -> Model.ctr s <= Model.ctr s1.
Proof. intros s s1 (c & L & ->). cbn [Model.ctr set_ctr]. exact L. Qed.

Section Table.
  Variable s : egraph.
  Variable cf : nat.
  Hypothesis XI : extract_inv s.
  (* the class-normal-form facts (Extract/ExtractMemberNf.v `nf_stored_facts`) *)
  Hypothesis NFS : forall c j x x' s1', Model.ctr s <= c -> In (j, x) (snodes s) -> class_nf x (set_ctr s c) = Ok (x', s1') ->
    nf_facts s j x' /\ c <= Model.ctr s1' /\ s1' = set_ctr s (Model.ctr s1') /\
    (forall b, In b (binders x') -> c <= b < Model.ctr s1').

  (* one class_nf step from a state whose counter is not below the counter of s *)
  Lemma nf_step : forall s1 j x x' s2, cup s s1 -> In (j, x) (snodes s) -> class_nf x s1 = Ok (x', s2) ->
    cup s s2 /\ nf_facts s j x' /\ Model.ctr s1 <= Model.ctr s2 /\
    (forall b, In b (binders x') -> Model.ctr s1 <= b < Model.ctr s2) /\ kids x' = kids x.
  Proof.
    intros s1 j x x' s2 (c & Lc & ->) Hin H.
    destruct (NFS c j x x' s2 Lc Hin H) as (NF & L2 & E2 & HB).
    destruct (class_nf_syn _ _ _ _ H) as (_ & K & _).
    cbn [Model.ctr set_ctr]. split; [|split; [exact NF|split; [exact L2|split; [exact HB|exact K]]]].
    exists (Model.ctr s2). split; [lia|exact E2].
  Qed.

  (* ---------------- the queue entries ---------------- *)
  Definition qent_ok (e : node * N) : Prop := exists j, nf_facts s j (fst e).

  (* ---------------- the initial queue ---------------- *)
  Lemma init_inv : forall q0 s1, init_queue cf s = Ok (q0, s1) ->
    cup s s1 /\ bl_ok (Model.ctr s) (qbinders q0) s1 /\ (forall e, In e q0 -> qent_ok e /\ app_occ (fst e) = []).
  Proof.
    intros q0 s1 H. unfold init_queue in H.
    apply mbind_inv in H. destruct H as (live & sa & H0 & H). apply gets_inv in H0. destruct H0 as [-> ->].
    apply mbind_inv in H. destruct H as (ll & s2 & H1 & H). apply ret_inv in H. destruct H as [-> ->].
    pose (I1 := fun (acc : list (list (node * N))) (st : egraph) =>
                  cup s st /\ bl_ok (Model.ctr s) (qbinders (concat acc)) st /\
                  (forall e, In e (concat acc) -> qent_ok e /\ app_occ (fst e) = [])).
    assert (G : I1 ([] ++ ll) s2).
    { refine (mapM_acc _ _ _ I1 (ids s) _ [] s ll s2 _ H1).
      - intros id acc st l st' Hid (HC & HB & HE) Hf.
        apply mbind_inv in Hf. destruct Hf as (ns & s3 & Hr & Hf). apply reads_inv in Hr. destruct Hr as [Hr ->].
        rewrite (enodes_ctr _ _ _ (cup_ctr_only _ _ HC)) in Hr.
        pose (I2 := fun (acc2 : list (node * N)) (st2 : egraph) =>
                      cup s st2 /\ bl_ok (Model.ctr s) (qbinders (concat acc) ++ qbinders acc2) st2 /\
                      (forall e, In e acc2 -> qent_ok e /\ app_occ (fst e) = [])).
        assert (G2 : I2 ([] ++ l) st').
        { refine (mapM_acc _ _ _ I2 (filter (fun x => match app_occ x with [] => true | _ => false end) ns) _ [] st l st' _ Hf).
          - intros x acc2 sc e sd Hx (HCc & HBc & HEc) He.
            apply filter_In in Hx. destruct Hx as [Hx Hleaf].
            apply mbind_inv in He. destruct He as (x' & s4 & Hn & He).
            apply mbind_inv in He. destruct He as (c & s5 & Hc & He). apply ret_inv in He. destruct He as [-> ->].
            apply lift_inv' in Hc. destruct Hc as [Hc ->].
            assert (Hsn : In (id, x) (snodes s)) by (apply snodes_in; split; [exact Hid|exists ns; split; assumption]).
            destruct (nf_step _ _ _ _ _ HCc Hsn Hn) as (HCd & NF & Lc & HBd & K).
            split; [exact HCd|]. split.
            + rewrite qbinders_app, app_assoc. unfold qbinders at 3. cbn [flat_map fst]. rewrite app_nil_r.
              apply (bl_push _ _ _ sc s4 HBc (nf_nodup _ _ _ NF) (cup_le _ _ HCc) HBd Lc).
            + intros e Hin. apply in_app_or in Hin. destruct Hin as [Hin|[<-|[]]]; [exact (HEc e Hin)|].
              cbn [fst]. split; [exists id; exact NF|].
              assert (K0 : kids x' = []) by (rewrite K; unfold kids; destruct (app_occ x); [reflexivity|discriminate]).
              unfold kids in K0. destruct (app_occ x'); [reflexivity|discriminate].
          - split; [exact HC|]. split; [cbn [qbinders flat_map]; rewrite app_nil_r; exact HB|]. intros e []. }
        cbn [app] in G2. destruct G2 as (HC2 & HB2 & HE2).
        split; [exact HC2|]. rewrite concat_app. cbn [concat]. rewrite app_nil_r. split.
        + rewrite qbinders_app. exact HB2.
        + intros e Hin. apply in_app_or in Hin. destruct Hin as [Hin|Hin]; [exact (HE e Hin)|exact (HE2 e Hin)].
      - split; [apply cup_refl|]. split; [split; [constructor|intros b []]|]. intros e []. }
    cbn [app] in G. exact G.
  Qed.

  (* ---------------- the loop invariant ---------------- *)
  Record winv (m : emap) (q : list (node * N)) (s1 : egraph) : Prop := {
    w_cup : cup s s1;
    w_bl : bl_ok (Model.ctr s) (ebinders m ++ qbinders q) s1;
    w_m : forall j n c, In (j, (n, c)) m -> nf_facts s j n;
    w_q : forall e, In e q -> qent_ok e;
    w_qk : forall e, In e q -> forall a, In a (app_occ (fst e)) -> emap_has m (aid a) = true;
    w_rank : forall j n c, emap_get m j = Some (n, c) -> forall a, In a (app_occ n) ->
               exists k k', emap_idx m j = Some k /\ emap_idx m (aid a) = Some k' /\ (k' < k)%nat }.

  Lemma emap_has_app : forall m k v i, emap_has m i = true -> emap_has (m ++ [(k, v)]) i = true.
  Proof.
    intros m k v i H. unfold emap_has in *. rewrite emap_get_app. destruct (emap_get m i); [reflexivity|discriminate].
  Qed.

  (* ---------------- the pushes ---------------- *)
  Lemma push_usage_inv : forall m q x s1 q2 s2, winv m q s1 -> (exists j, In (j, x) (snodes s)) ->
    push_usage cf m q x s1 = Ok (q2, s2) -> winv m q2 s2.
  Proof.
    intros m q x s1 q2 s2 W (j & Hsn) H. unfold push_usage in H.
    destruct (forallb (fun a => emap_has m (aid a)) (app_occ x)) eqn:Hall.
    - apply mbind_inv in H. destruct H as (lk & s3 & Hl & H). apply reads_inv in Hl. destruct Hl as [_ ->].
      destruct (match lk with Some i => emap_has m (aid i) | None => false end).
      + apply ret_inv in H. destruct H as [-> ->]. exact W.
      + apply mbind_inv in H. destruct H as (x' & s4 & Hn & H).
        apply mbind_inv in H. destruct H as (c & s5 & Hc & H). apply ret_inv in H. destruct H as [-> ->].
        apply lift_inv' in Hc. destruct Hc as [Hc ->].
        destruct W as [HC HB HM HQ HQK HR].
        destruct (nf_step _ _ _ _ _ HC Hsn Hn) as (HCd & NF & Lc & HBd & K).
        constructor; try assumption.
        * rewrite qbinders_app, app_assoc. unfold qbinders at 2. cbn [flat_map fst]. rewrite app_nil_r.
          apply (bl_push _ _ _ s1 s4 HB (nf_nodup _ _ _ NF) (cup_le _ _ HC) HBd Lc).
        * intros e Hin. apply in_app_or in Hin. destruct Hin as [Hin|[<-|[]]]; [exact (HQ e Hin)|]. exists j. exact NF.
        * intros e Hin a Ha. apply in_app_or in Hin. destruct Hin as [Hin|[<-|[]]]; [exact (HQK e Hin a Ha)|].
          cbn [fst] in Ha. assert (Hk : In (aid a) (kids x)) by (rewrite <- K; unfold kids; apply in_map; exact Ha).
          unfold kids in Hk. apply in_map_iff in Hk. destruct Hk as (a0 & Ea & Ha0).
          rewrite forallb_forall in Hall. rewrite <- Ea. exact (Hall a0 Ha0).
    - apply ret_inv in H. destruct H as [-> ->]. exact W.
  Qed.

  Lemma push_usages_inv : forall m us q s1 q2 s2, winv m q s1 ->
    (forall x, In x us -> exists j, In (j, x) (snodes s)) ->
    push_usages cf m q us s1 = Ok (q2, s2) -> winv m q2 s2.
  Proof.
    intros m. induction us as [|x t IH]; intros q s1 q2 s2 W Hus H; cbn [push_usages] in H.
    - apply ret_inv in H. destruct H as [-> ->]. exact W.
    - apply mbind_inv in H. destruct H as (q1 & s3 & H1 & H).
      pose proof (push_usage_inv _ _ _ _ _ _ W (Hus x (or_introl eq_refl)) H1) as W1.
      exact (IH _ _ _ _ W1 (fun x0 Hin => Hus x0 (or_intror Hin)) H).
  Qed.

  (* ---------------- the loop ---------------- *)
  Lemma worklist_inv : forall last fuel m q s1 m' s', winv m q s1 ->
    worklist last fuel cf m q s1 = Ok (m', s') -> exists q', winv m' q' s'.
  Proof.
    intros last. induction fuel as [|fu IH]; intros m q s1 m' s' W H; cbn [worklist] in H; [discriminate|].
    destruct (pop_min last q) as [[[enode c] q']|] eqn:Hp.
    - apply mbind_inv in H. destruct H as (i & s2 & Hl & H). apply reads_inv in Hl. destruct Hl as [Hl ->].
      destruct (pop_min_spec _ _ _ _ Hp) as [Hperm _].
      destruct W as [HC HB HM HQ HQK HR].
      assert (Hin0 : In (enode, c) q) by (apply (Permutation_in _ (Permutation_sym Hperm)); left; reflexivity).
      assert (Hsub : forall e, In e q' -> In e q) by (intros e He; apply (Permutation_in _ (Permutation_sym Hperm)); right; exact He).
      assert (HPb : Permutation (qbinders q) (binders enode ++ qbinders q')).
      { unfold qbinders. apply (Permutation_flat_map (fun e : node * N => binders (fst e))) in Hperm. exact Hperm. }
      assert (HB1 : bl_ok (Model.ctr s) (ebinders m ++ binders enode ++ qbinders q') s1).
      { destruct HB as [ND LT]. split.
        - apply (Permutation_NoDup (l := ebinders m ++ qbinders q)); [apply Permutation_app_head; exact HPb|exact ND].
        - intros b Hb. apply LT. apply in_app_or in Hb. apply in_or_app. destruct Hb as [Hb|Hb]; [left; exact Hb|right].
          apply (Permutation_in _ (Permutation_sym HPb)). exact Hb. }
      destruct (emap_has m (aid i)) eqn:Eh.
      + apply (IH m q' s1 m' s'); [|exact H]. constructor; try assumption.
        * destruct HB1 as [ND LT]. split; [exact (NoDup_app_drop_mid _ _ _ _ ND)|].
          intros b Hb. apply LT. apply in_app_or in Hb. apply in_or_app. destruct Hb as [Hb|Hb]; [left; exact Hb|right].
          apply in_or_app. right. exact Hb.
        * intros e He. exact (HQ e (Hsub e He)).
        * intros e He. exact (HQK e (Hsub e He)).
      + apply mbind_inv in H. destruct H as (us & s3 & Hu & H). apply reads_inv in Hu. destruct Hu as [Hu ->].
        rewrite (usages_ctr _ _ _ (cup_ctr_only _ _ HC)) in Hu.
        apply mbind_inv in H. destruct H as (q'' & s4 & Hpu & H).
        set (m2 := m ++ [(aid i, (enode, c))]) in *.
        (* the key of the new entry is the class of its node *)
        destruct (HQ _ Hin0) as (j & NF). cbn [fst] in NF.
        assert (Ej : aid i = j).
        { destruct (nf_look _ _ _ NF) as (cj & a & _ & La & Ea & _).
          unfold eg_lookup_unwrap in Hl. rewrite (lookup_ctr _ _ _ (cup_ctr_only _ _ HC)) in Hl.
          change (Extractor.eg_lookup s enode) with (eg_lookup s enode) in La.
          rewrite La in Hl. cbn [bind] in Hl. inversion Hl; subst i. exact Ea. }
        assert (Hnone : emap_idx m (aid i) = None).
        { destruct (emap_idx m (aid i)) as [k|] eqn:E; [|reflexivity].
          exfalso. unfold emap_has in Eh. destruct (emap_get m (aid i)) as [v|] eqn:G; [discriminate|].
          clear - E G. revert k E G. induction m as [|[k0 v0] t IHt]; intros k E G; cbn [emap_idx emap_get] in *; [discriminate|].
          destruct (k0 =? aid i); [discriminate|]. destruct (emap_idx t (aid i)) as [k'|] eqn:E'; [|discriminate].
          exact (IHt k' eq_refl G). }
        assert (W2 : winv m2 q' s1).
        { constructor.
          - exact HC.
          - unfold m2. rewrite ebinders_app. unfold ebinders at 2. cbn [flat_map fst snd]. rewrite app_nil_r, <- app_assoc. exact HB1.
          - intros j0 n0 c0 Hin. unfold m2 in Hin. apply in_app_or in Hin. destruct Hin as [Hin|[E|[]]]; [exact (HM _ _ _ Hin)|].
            inversion E; subst j0 n0 c0. rewrite Ej. exact NF.
          - intros e He. exact (HQ e (Hsub e He)).
          - intros e He a Ha. unfold m2. apply emap_has_app. exact (HQK e (Hsub e He) a Ha).
          - intros j0 n0 c0 G a Ha. unfold m2 in G |- *. rewrite emap_get_app in G. rewrite !emap_idx_app.
            destruct (emap_get m j0) as [v|] eqn:G0.
            + inversion G; subst v. destruct (HR _ _ _ G0 a Ha) as (k & k' & I1 & I2 & Lt).
              exists k, k'. rewrite I1, I2. auto.
            + destruct (aid i =? j0) eqn:Ek; [|discriminate]. apply N.eqb_eq in Ek. subst j0. inversion G; subst n0 c0.
              rewrite Hnone.
              destruct (emap_has_idx m (aid a) (HQK _ Hin0 a Ha)) as (k' & I2).
              exists (List.length m), k'. rewrite I2. split; [reflexivity|]. split; [reflexivity|].
              exact (emap_idx_lt _ _ _ I2). }
        assert (Hus : forall x, In x us -> exists j0, In (j0, x) (snodes s)).
        { intros x Hx. destruct (usages_ok_inv' s XI) as [_ HA2]. exact (proj1 (proj1 (HA2 _ _ Hu x) Hx)). }
        pose proof (push_usages_inv m2 us q' s1 q'' s4 W2 Hus Hpu) as W4.
        exact (IH _ _ _ _ _ W4 H).
    - apply ret_inv in H. destruct H as [-> ->]. exists q. exact W.
  Qed.

  Theorem tbl_inv_new0 : forall last m s0, extractor_new last cf s = Ok (m, s0) -> tbl_inv s s0 m /\ cup s s0.
  Proof.
    intros last m s0 H. unfold extractor_new in H.
    apply mbind_inv in H. destruct H as (q0 & s1 & Hq & H).
    apply mbind_inv in H. destruct H as (n & s2 & Hn & H). apply gets_inv in Hn. destruct Hn as [-> ->].
    destruct (init_inv _ _ Hq) as (HC & HB & HE).
    assert (W0 : winv [] q0 s1).
    { constructor.
      - exact HC.
      - exact HB.
      - intros j n c [].
      - intros e He. exact (proj1 (HE e He)).
      - intros e He a Ha. rewrite (proj2 (HE e He)) in Ha. destruct Ha.
      - intros j n c G. discriminate G. }
    destruct (worklist_inv _ _ _ _ _ _ _ W0 H) as (q' & [HC' HB' HM' _ _ HR']).
    split; [|exact HC'].
    destruct HB' as [ND LT]. constructor.
    - exact HM'.
    - intros j n c Hin b Hb. apply LT. apply in_or_app. left. unfold ebinders. apply in_flat_map.
      exists (j, (n, c)). split; [exact Hin|exact Hb].
    - exact (NoDup_app_remove_r _ _ _ ND).
    - exact HR'.
  Qed.
End Table.

Print Assumptions tbl_inv_new0.
