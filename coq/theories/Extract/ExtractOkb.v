(* Extract/ExtractOkb.v — the executable premise `extract_okb s cf m` of `extract_cost_rec` / `extract_cheapest_up`
   (Extract/ExtractorFacts.v section 12, Extract/ExtractorBridgeUp.v) HOLDS for the table computed by `extractor_new`
   in every state satisfying `extract_inv` (Extract/ExtractorReach.v), hence in every reachable state.

   `extract_okb s cf m`: every entry (i, (nd, c)) of m has  cost cf nd (emap_cost m) = Ok c  and the child ids of nd
   are live classes.

   Loop invariant of `worklist` (threaded state s1 with `cup s s1`): every entry of the table and every entry of the
   queue is `entry_ok` w.r.t. the CURRENT table.
   - a successful `cost` only reads the costs of the children, and appending to the association list keeps every
     binding (`emap_get_app`): `entry_ok_app`;
   - the initial queue holds class normal forms of leaves (`class_nf_cup`: same child ids, i.e. none);
   - a pushed entry is (x', c') with  class_nf x = x'  and  cost cf x' (emap_cost map') = Ok c'  literally; x is an
     element of `usages s i`, hence a stored node (`usages_sets_ok`), hence  sh[bij]  for a stored shape sh
     (`snodes_stored`), whose child ids are leaders (`stored_canonical`), i.e. alive (`leader_is_alive`).
   No axioms, no Admitted. *)
From SE Require Extract.Knuth Extract.LazyQueue.
From SE Require Import EGraph.Model EGraph.ModelMachine EGraph.ModelFacts EGraph.UnionFindFacts EGraph.InvariantFacts
  EGraph.AddCoversFacts EGraph.HashconsFacts EGraph.CongruenceFacts EGraph.SelfSymFacts EGraph.MatchReprFacts
  EGraph.StoredLive EGraph.KidsFacts EGraph.SoundAddExpr EGraph.UsesConvDef EGraph.UsesConv EGraph.SoundStruct
  Extract.Extractor Extract.ExtractorFacts Extract.ExtractorBridgeUp Extract.UsagesOk Extract.NfOk Extract.ExtractorReach.
Require Import ZArith Lia List Permutation.
Import ListNotations.

(* ------------------------------------------------------------------ *)
(* 1. a successful cost only reads the costs of the children *)

Lemma cost_go_stable : forall cf (f g : N -> res N) l acc c,
  cost_go cf f l acc = Ok c ->
  (forall a, In a l -> forall v, f (aid a) = Ok v -> g (aid a) = Ok v) ->
  cost_go cf g l acc = Ok c.
Proof.
  intros cf f g. induction l as [|x t IH]; intros acc c H Hfg.
  - rewrite cost_go_nil in *. exact H.
  - rewrite cost_go_cons in *. destruct (f (aid x)) as [v|e] eqn:E; cbn [bind] in H; [|discriminate].
    rewrite (Hfg x (or_introl eq_refl) v E). cbn [bind].
    apply IH; [exact H|]. intros a Ha. apply Hfg. right. exact Ha.
Qed.

Lemma cost_stable : forall cf nd (f g : N -> res N) c,
  cost cf nd f = Ok c ->
  (forall k, In k (kids nd) -> forall v, f k = Ok v -> g k = Ok v) ->
  cost cf nd g = Ok c.
Proof.
  intros cf nd f g c H Hfg. rewrite cost_unfold in *. apply (cost_go_stable cf f g _ _ _ H).
  intros a Ha. apply Hfg. unfold kids. apply in_map. exact Ha.
Qed.

Lemma emap_cost_app : forall m k e i v, emap_cost m i = Ok v -> emap_cost (m ++ [(k, e)]) i = Ok v.
Proof.
  intros m k e i v H. unfold emap_cost in *. rewrite emap_get_app.
  destruct (emap_get m i) as [x|]; [exact H|discriminate].
Qed.

(* ------------------------------------------------------------------ *)
(* 2. the invariant *)

Definition entry_ok (s : egraph) (cf : nat) (m : emap) (nd : node) (c : N) : Prop :=
  cost cf nd (emap_cost m) = Ok c /\ forall k, In k (kids nd) -> alive_id s k = true.

Lemma entry_ok_app : forall s cf m k e nd c, entry_ok s cf m nd c -> entry_ok s cf (m ++ [(k, e)]) nd c.
Proof.
  intros s cf m k e nd c [Hc Ha]. split; [|exact Ha].
  apply (cost_stable cf nd (emap_cost m) _ c Hc). intros k0 _ v Hv. apply emap_cost_app. exact Hv.
Qed.

(* the child ids of the usages are live classes *)
Lemma usages_kids_alive : forall s, extract_inv s ->
  forall i us x, usages s i = Ok us -> In x us -> forall k, In k (kids x) -> alive_id s k = true.
Proof.
  intros s XI i us x Hu Hx k Hk. destruct (usages_ok_inv' s XI) as [_ HA2].
  apply (HA2 _ _ Hu) in Hx. destruct Hx as [[j Hj] _].
  apply (snodes_stored s (xi_match s XI) (xi_st2 s XI)) in Hj. destruct Hj as (sh & bij & src & St & Ha).
  rewrite (apply_kids _ _ _ Ha) in Hk.
  destruct (stored_canonical s j sh (bij, src) (mi_hc s (xi_match s XI)) (mi_pend s (xi_match s XI)) St) as [HL _].
  assert (L : leader s k) by (apply HL; exact Hk).
  apply leader_is_alive in L. unfold alive_id. rewrite L. reflexivity.
Qed.

Section Okb.
  Variable s : egraph.
  Variable cf : nat.
  Hypothesis XI : extract_inv s.

  Local Notation eok := (entry_ok s cf).

  (* ---------------- the initial queue ---------------- *)
  Lemma init_ok : forall q0 s1, init_queue cf s = Ok (q0, s1) ->
    cup s s1 /\ forall nd c, In (nd, c) q0 -> eok [] nd c.
  Proof.
    intros q0 s1 H. unfold init_queue in H.
    apply mbind_inv in H. destruct H as (live & s0 & H0 & H). apply gets_inv in H0. destruct H0 as [-> ->].
    apply mbind_inv in H. destruct H as (ll & s2 & H1 & H). apply ret_inv in H. destruct H as [-> ->].
    pose (Qin := fun (x : node) (e : node * N) => eok [] (fst e) (snd e)).
    pose (Qout := fun (id : N) (l : list (node * N)) => forall e, In e l -> eok [] (fst e) (snd e)).
    apply (mapM_inv _ _ (cup s) Qout) in H1; [|clear H1|apply cup_refl].
    - destruct H1 as [HC HF]. split; [exact HC|]. intros nd c Hin.
      apply in_concat in Hin. destruct Hin as (l & Hl & He).
      destruct (F2_in_r _ _ _ _ _ HF _ Hl) as (id & _ & HQ). exact (HQ (nd, c) He).
    - intros id sa l sb Hid HCa Hf.
      apply mbind_inv in Hf. destruct Hf as (ns & s3 & Hr & Hf). apply reads_inv in Hr. destruct Hr as [_ ->].
      pose proof (fun z => proj1 (filter_In (fun x => match app_occ x with [] => true | _ => false end) z ns)) as Hfl.
      apply (mapM_inv _ _ (cup s) Qin) in Hf; [| |exact HCa].
      + destruct Hf as [HCb HF]. split; [exact HCb|]. intros e He.
        destruct (F2_in_r _ _ _ _ _ HF _ He) as (x & _ & HQ). exact HQ.
      + intros x sc e sd Hx HCc He. apply Hfl in Hx. destruct Hx as [_ Hleaf].
        apply mbind_inv in He. destruct He as (x' & s4 & Hn & He).
        apply mbind_inv in He. destruct He as (c & s5 & Hc & He). apply ret_inv in He. destruct He as [-> ->].
        apply lift_inv' in Hc. destruct Hc as [Hc ->].
        destruct (class_nf_cup _ _ _ _ _ HCc Hn) as (HCd & K & _). split; [exact HCd|].
        assert (K0 : kids x' = []).
        { rewrite K. unfold kids. destruct (app_occ x); [reflexivity|discriminate]. }
        unfold Qin. cbn [fst snd]. split.
        * apply (cost_stable cf x' _ _ c Hc). rewrite K0. intros k [].
        * rewrite K0. intros k [].
  Qed.

  (* ---------------- the pushes ---------------- *)
  Lemma push_usage_ok : forall m q x s1 q2 s2, cup s s1 ->
    (forall k, In k (kids x) -> alive_id s k = true) ->
    (forall nd c, In (nd, c) q -> eok m nd c) ->
    push_usage cf m q x s1 = Ok (q2, s2) ->
    cup s s2 /\ forall nd c, In (nd, c) q2 -> eok m nd c.
  Proof.
    intros m q x s1 q2 s2 HC Hal HQ H. unfold push_usage in H.
    destruct (forallb (fun a => emap_has m (aid a)) (app_occ x)).
    - apply mbind_inv in H. destruct H as (lk & s3 & Hl & H). apply reads_inv in Hl. destruct Hl as [_ ->].
      destruct (match lk with Some i => emap_has m (aid i) | None => false end).
      + apply ret_inv in H. destruct H as [-> ->]. split; [exact HC|exact HQ].
      + apply mbind_inv in H. destruct H as (x' & s4 & Hn & H).
        apply mbind_inv in H. destruct H as (c & s5 & Hc & H). apply ret_inv in H. destruct H as [-> ->].
        apply lift_inv' in Hc. destruct Hc as [Hc ->].
        destruct (class_nf_cup _ _ _ _ _ HC Hn) as (HCd & K & _). split; [exact HCd|].
        intros nd c0 Hin. apply in_app_or in Hin. destruct Hin as [Hin|[E|[]]]; [exact (HQ _ _ Hin)|].
        inversion E; subst nd c0. split; [exact Hc|]. rewrite K. exact Hal.
    - apply ret_inv in H. destruct H as [-> ->]. split; [exact HC|exact HQ].
  Qed.

  Lemma push_usages_ok : forall m us q s1 q2 s2, cup s s1 ->
    (forall x, In x us -> forall k, In k (kids x) -> alive_id s k = true) ->
    (forall nd c, In (nd, c) q -> eok m nd c) ->
    push_usages cf m q us s1 = Ok (q2, s2) ->
    cup s s2 /\ forall nd c, In (nd, c) q2 -> eok m nd c.
  Proof.
    intros m. induction us as [|x t IH]; intros q s1 q2 s2 HC Hus HQ H; cbn [push_usages] in H.
    - apply ret_inv in H. destruct H as [-> ->]. split; [exact HC|exact HQ].
    - apply mbind_inv in H. destruct H as (q1 & s3 & H1 & H).
      destruct (push_usage_ok _ _ _ _ _ _ HC (Hus x (or_introl eq_refl)) HQ H1) as [HC3 HQ1].
      exact (IH _ _ _ _ HC3 (fun x0 Hin => Hus x0 (or_intror Hin)) HQ1 H).
  Qed.

  (* ---------------- the loop ---------------- *)
  Lemma worklist_ok : forall last fuel m q s1 m' s', cup s s1 ->
    (forall i nd c, In (i, (nd, c)) m -> eok m nd c) ->
    (forall nd c, In (nd, c) q -> eok m nd c) ->
    worklist last fuel cf m q s1 = Ok (m', s') ->
    forall i nd c, In (i, (nd, c)) m' -> eok m' nd c.
  Proof.
    intros last. induction fuel as [|fu IH]; intros m q s1 m' s' HC HM HQ H; cbn [worklist] in H; [discriminate|].
    destruct (pop_min last q) as [[[enode c] q']|] eqn:Hp.
    - apply mbind_inv in H. destruct H as (i & s2 & Hl & H). apply reads_inv in Hl. destruct Hl as [_ ->].
      destruct (pop_min_spec _ _ _ _ Hp) as [Hperm _].
      assert (He : eok m enode c).
      { apply HQ. apply (Permutation_in _ (Permutation_sym Hperm)). left. reflexivity. }
      assert (HQ' : forall nd c0, In (nd, c0) q' -> eok m nd c0).
      { intros nd c0 Hin. apply HQ. apply (Permutation_in _ (Permutation_sym Hperm)). right. exact Hin. }
      destruct (emap_has m (aid i)) eqn:Eh.
      + exact (IH _ _ _ _ _ HC HM HQ' H).
      + apply mbind_inv in H. destruct H as (us & s3 & Hu & H). apply reads_inv in Hu. destruct Hu as [Hu ->].
        rewrite (usages_ctr _ _ _ (cup_ctr_only _ _ HC)) in Hu.
        apply mbind_inv in H. destruct H as (q'' & s4 & Hpu & H).
        set (m2 := m ++ [(aid i, (enode, c))]) in *.
        assert (HM2 : forall j nd c0, In (j, (nd, c0)) m2 -> eok m2 nd c0).
        { intros j nd c0 Hin. unfold m2 in Hin. apply in_app_or in Hin. destruct Hin as [Hin|[E|[]]].
          - apply entry_ok_app. exact (HM _ _ _ Hin).
          - inversion E; subst j nd c0. apply entry_ok_app. exact He. }
        assert (HQ2 : forall nd c0, In (nd, c0) q' -> eok m2 nd c0).
        { intros nd c0 Hin. apply entry_ok_app. exact (HQ' _ _ Hin). }
        destruct (push_usages_ok m2 us q' s1 q'' s4 HC (fun x => usages_kids_alive s XI (aid i) us x Hu) HQ2 Hpu) as [HC4 HQ4].
        exact (IH _ _ _ _ _ HC4 HM2 HQ4 H).
    - apply ret_inv in H. destruct H as [-> ->]. exact HM.
  Qed.

  Theorem extract_okb_inv0 : forall last m s', extractor_new last cf s = Ok (m, s') -> extract_okb s cf m = true.
  Proof.
    intros last m s' H. unfold extractor_new in H.
    apply mbind_inv in H. destruct H as (q0 & s1 & Hq & H).
    apply mbind_inv in H. destruct H as (n & s2 & Hn & H). apply gets_inv in Hn. destruct Hn as [-> ->].
    destruct (init_ok _ _ Hq) as [HC HQ].
    pose proof (worklist_ok _ _ _ _ _ _ _ HC (fun i nd c (Hin : In (i, (nd, c)) []) => match Hin with end) HQ H) as HM.
    unfold extract_okb. apply forallb_forall. intros [i [nd c]] Hin. cbn [fst snd].
    destruct (HM i nd c Hin) as [Hc Ha]. rewrite Hc. unfold res_N_eqb. rewrite N.eqb_refl. cbn [andb].
    apply forallb_forall. exact Ha.
  Qed.
End Okb.

(* ------------------------------------------------------------------ *)
(* 3. the theorems *)

Theorem extract_okb_inv : forall s cf last m s', extract_inv s ->
  extractor_new last cf s = Ok (m, s') -> extract_okb s cf m = true.
Proof. intros s cf last m s' XI H. exact (extract_okb_inv0 s cf XI last m s' H). Qed.

Theorem extract_cheapest_inv : forall s cf last m s0, extract_inv s -> extractor_new last cf s = Ok (m, s0) ->
  forall fuel i t s', extract fuel m i s = Ok (t, s') ->
  exists i' k, find_applied_id s i = Ok i' /\ cost_rec cf t = Ok k /\ get_best_cost m i' = Ok k /\
    Knuth.derivable (f_cf cf) (agraph cf s) (N.to_nat (aid i')) (N.to_nat k) /\
    (forall k', Knuth.derivable (f_cf cf) (agraph cf s) (N.to_nat (aid i')) k' -> (N.to_nat k <= k')%nat).
Proof.
  intros s cf last m s0 XI HN fuel i t s' H.
  pose proof (extract_okb_inv s cf last m s0 XI HN) as HE.
  destruct (extract_cost s cf m HE fuel i s t s' (ctr_only_refl s) H) as (_ & i' & nd & c & F & G & C).
  exists i', c. split; [assumption|]. split; [assumption|].
  split; [unfold get_best_cost, emap_cost; rewrite G; reflexivity|].
  apply (proj1 (extractor_table_is_minimum_inv s cf XI last m s0 HN)). unfold tbl. rewrite N2Nat.id, G. reflexivity.
Qed.

Section Reach.
  Variables (terms : list rterm) (ops : list hop) (hs : list appid) (s : egraph).
  Hypothesis OP : ops_pre terms ops [] empty_egraph.
  Hypothesis HT : Forall (fun t => rt_wf t /\ rt_pre 1 t) terms.
  Hypothesis HR : run_ops terms ops [] empty_egraph = Ok (hs, s).

  Theorem extract_okb_reachable : forall cf last m s', extractor_new last cf s = Ok (m, s') ->
    extract_okb s cf m = true.
  Proof. intros cf last m s'. exact (extract_okb_inv s cf last m s' (extract_inv_reachable _ _ _ _ OP HT HR)). Qed.

  (* the term returned by `extract` costs the table value of its class, which is the minimum derivation cost *)
  Theorem extract_cheapest_reachable : forall cf last m s0, extractor_new last cf s = Ok (m, s0) ->
    forall fuel i t s', extract fuel m i s = Ok (t, s') ->
    exists i' k, find_applied_id s i = Ok i' /\ cost_rec cf t = Ok k /\ get_best_cost m i' = Ok k /\
      Knuth.derivable (f_cf cf) (agraph cf s) (N.to_nat (aid i')) (N.to_nat k) /\
      (forall k', Knuth.derivable (f_cf cf) (agraph cf s) (N.to_nat (aid i')) k' -> (N.to_nat k <= k')%nat).
  Proof. intros cf last m s0. exact (extract_cheapest_inv s cf last m s0 (extract_inv_reachable _ _ _ _ OP HT HR)). Qed.
End Reach.

Print Assumptions extract_okb_inv.
Print Assumptions extract_cheapest_inv.
Print Assumptions extract_okb_reachable.
Print Assumptions extract_cheapest_reachable.
