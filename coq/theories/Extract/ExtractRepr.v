(* Extract/ExtractRepr.v — MEMBERSHIP of the extracted term, executable (NOT proved): for every live class i, every cost
   function and both tie-breaks, the term returned by `extract` for the identity invocation of class i is found by
   `lookup_rec_expr` in class i, with an invocation equal (`eg_eq`) to the identity invocation; classes without a table
   entry are exactly those on which `extract` fails.  Evaluated after every operation of 16 histories. *)
From SE Require EGraph.HashconsFacts.
From SE Require Import EGraph.Model EGraph.ModelMachine EGraph.ModelFacts EGraph.InvariantFacts EGraph.AddCoversFacts
  Extract.Extractor Extract.ExtractorFacts.
Require Import ZArith List.
Import ListNotations.

Definition extract_repr_at (s : egraph) (cf : nat) (last : bool) : bool :=
  match extractor_new last cf s with
  | Ok (m, s1) =>
      forallb (fun i =>
        match get_class s i with
        | Ok c =>
            let a := {| aid := i; am := identity (c_slots c) |} in
            match extract 100 m a s1 with
            | Ok (t, _) =>
                emap_has m i &&
                match lookup_rec_expr s t with
                | Ok (Some a') => (aid a' =? i) && match eg_eq s a' a with Ok b => b | Err _ => false end
                | _ => false
                end &&
                match cost_rec cf t, get_best_cost m a with Ok k, Ok k' => k =? k' | _, _ => false end
            | Err _ => negb (emap_has m i)
            end
        | Err _ => false
        end) (ids s)
  | Err _ => false
  end.
Definition extract_reprb (s : egraph) : bool :=
  forallb (fun cf => forallb (extract_repr_at s cf) [false; true]) [0%nat; 1%nat; 2%nat].

Fixpoint run_rchk (terms : list rterm) (ops : list hop) (hs : list appid) (s : egraph) : bool :=
  match ops with
  | [] => true
  | o :: t =>
    let r := match o with
      | HAdd k => match nth_opt terms k with None => Err OutOfBounds
                  | Some tm => match add_expr tm s with Ok (a, s') => Ok (hs ++ [a], s') | Err e => Err e end end
      | HUnion i j _ => match nth_opt hs i, nth_opt hs j with
                  | Some a, Some b => match eg_union a b s with Ok (_, s') => Ok (hs, s') | Err e => Err e end
                  | _, _ => Err OutOfBounds end
      end in
    match r with
    | Err e => false
    | Ok (hs', s') => extract_reprb s' && run_rchk terms t hs' s'
    end
  end.

Definition r_all := x_all ++ [(HashconsFacts.yT7, HashconsFacts.yO7); (HashconsFacts.yT8, HashconsFacts.yO8);
  (HashconsFacts.yT9, HashconsFacts.yO9); (HashconsFacts.yT10, HashconsFacts.yO10);
  (HashconsFacts.yT11, HashconsFacts.yO11); (HashconsFacts.yT12, HashconsFacts.yO12)].

Example extracted_terms_represented_checked :
  map (fun p => run_rchk (fst p) (snd p) [] empty_egraph) r_all = map (fun _ => true) r_all.
Proof. vm_compute. reflexivity. Qed.

(* the check is not vacuous: number of (class, extracted term) pairs in the final states, AstSize, first tie-break *)
Definition r_counts := map (fun p => let s := st_of (fst p) (snd p) in
  match extractor_new false 0 s with Ok (m, _) => (List.length (ids s), List.length m) | Err _ => (0, 0)%nat end) r_all.
Eval vm_compute in r_counts.
Print Assumptions extracted_terms_represented_checked.
