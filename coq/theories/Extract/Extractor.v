(* Extract/Extractor.v — executable model of /repo/src/extract/{mod,cost,with_ord}.rs on top of
   EGraph/Model.v: `class_nf`, `refresh_internals`, `usages`, `lookup` (egraph/mod.rs, add.rs), the
   worklist of `Extractor::new`, `Extractor::extract`, `get_best_cost`, `CostFunction::cost_rec`,
   `lookup_rec_expr` (rewrite/pattern.rs) and three cost functions.

   - `BinaryHeap<WithOrdRev<L, Cost>>` is a list; `pop` takes the FIRST element of minimal cost
     (the implementation's choice among equal costs is arbitrary).  The best costs do not depend on
     that choice (Extract/Knuth.v proves it for the abstract algorithm); the extracted terms may.
   - `HashMap<Id, WithOrdRev<L, Cost>>` is an association list.
   - u64 costs are N with saturating addition / multiplication.
   - fresh slots come from the counter of the e-graph state, so the `&self` functions are in M.
   Definitions only. *)
From SE Require Export EGraph.Model.

(* ------------------------------------------------------------------ *)
(* egraph: lookup, refresh_internals, class_nf, usages *)

Definition eg_lookup (s : egraph) (n : node) : res (option appid) :=
  do t <- shape s n; lookup_internal s t.

(* `self.lookup(l).unwrap()` *)
Definition eg_lookup_unwrap (s : egraph) (n : node) : res appid :=
  do o <- eg_lookup s n;
  match o with Some i => Ok i | None => Err UnwrapNone end.

Definition lift_ctr {A} (f : N -> res A * N) : M A :=
  fun s => let '(r, c) := f (ctr s) in
           match r with Ok a => Ok (a, set_ctr s c) | Err e => Err e end.

(* EGraph::refresh_internals: l.refresh_internals(i.slots()) *)
Definition eg_refresh_internals (l : node) : M node :=
  dom i <- reads (fun s => eg_lookup_unwrap s l);
  lift_ctr (refresh_internals (values (am i)) l).

(* EGraph::class_nf *)
Definition class_nf (l : node) : M node :=
  dom l <- eg_refresh_internals l;
  dom i <- reads (fun s => eg_lookup_unwrap s l);
  with_ctr (apply_slotmap_fresh false (am i) l).

(* EGraph::usages: `self.classes[&j].nodes[&x]` *)
Definition usages (s : egraph) (i : N) : res (list node) :=
  do c <- get_class s i;
  mapr (fun x =>
          do a <- eg_lookup_unwrap s x;
          do cj <- get_class s (aid a);
          match na_get (c_nodes cj) x with
          | None => Err ExplicitPanic
          | Some (bij, _) => apply_slotmap false bij x
          end) (c_usages c).

(* ------------------------------------------------------------------ *)
(* costs *)

Definition u64_max : N := 18446744073709551615.
Definition sat_add (a b : N) : N := N.min (a + b) u64_max.
Definition sat_mul (a b : N) : N := N.min (a * b) u64_max.

(* the three cost functions of harness/src/egt.rs:
   0 AstSize        1 + sum of the children
   1 DepthWeighted  1 + sum of 2 * child
   2 OpWeighted     w(op) + sum of the children,  w(op) = 1 + (variant index mod 3) *)
Definition op_weight (n : node) : N := 1 + N.of_nat (nvar n) mod 3.

Definition cost (cf : nat) (n : node) (costs : N -> res N) : res N :=
  let start := match cf with 2%nat => op_weight n | _ => 1 end in
  let step (acc : N) (c : N) := match cf with 1%nat => sat_add acc (sat_mul c 2) | _ => sat_add acc c end in
  (fix go (l : list appid) (acc : N) : res N :=
     match l with
     | [] => Ok acc
     | x :: t => do c <- costs (aid x); go t (step acc c)
     end) (app_occ n) start.

(* ------------------------------------------------------------------ *)
(* Extractor::new *)

Definition emap := list (N * (node * N)).          (* class id -> (normal-form node, cost) *)

Fixpoint emap_get (m : emap) (i : N) : option (node * N) :=
  match m with
  | [] => None
  | (k, v) :: t => if k =? i then Some v else emap_get t i
  end.
Definition emap_has (m : emap) (i : N) : bool :=
  match emap_get m i with Some _ => true | None => false end.
(* `map[&i].1.clone()` *)
Definition emap_cost (m : emap) (i : N) : res N :=
  match emap_get m i with Some (_, c) => Ok c | None => Err ExplicitPanic end.

(* BinaryHeap::pop: the first entry of minimal cost *)
Fixpoint min_cost (q : list (node * N)) (best : N) : N :=
  match q with
  | [] => best
  | (_, c) :: t => min_cost t (N.min c best)
  end.
Fixpoint remove_first (q : list (node * N)) (c : N) : option ((node * N) * list (node * N)) :=
  match q with
  | [] => None
  | (n, c') :: t =>
      if c' =? c then Some ((n, c'), t)
      else match remove_first t c with
           | Some (x, r) => Some (x, (n, c') :: r)
           | None => None
           end
  end.
Definition pop_min_first (q : list (node * N)) : option ((node * N) * list (node * N)) :=
  match q with
  | [] => None
  | (_, c) :: t => remove_first q (min_cost t c)
  end.
(* `last` = true: the LAST entry of minimal cost instead (a second tie-break, used to observe that the
   best costs do not depend on it) *)
Definition pop_min (last : bool) (q : list (node * N)) : option ((node * N) * list (node * N)) :=
  if last then
    match pop_min_first (rev q) with
    | Some (x, r) => Some (x, rev r)
    | None => None
    end
  else pop_min_first q.

(* the initial queue: the nodes without children, class by class *)
Definition init_queue (cf : nat) : M (list (node * N)) :=
  dom live <- gets ids;
  dom ll <- mapM (fun id =>
                    dom ns <- reads (fun s => enodes s id);
                    mapM (fun x =>
                            dom x' <- class_nf x;
                            dom c <- lift (cost cf x' (fun _ => Err ExplicitPanic));
                            ret (x', c))
                         (filter (fun x => match app_occ x with [] => true | _ => false end) ns)) live;
  ret (concat ll).

(* the body of `for x in eg.usages(i.id).clone()` *)
Definition push_usage (cf : nat) (map : emap) (q : list (node * N)) (x : node) : M (list (node * N)) :=
  if forallb (fun a => emap_has map (aid a)) (app_occ x) then
    dom lk <- reads (fun s => eg_lookup s x);
    if match lk with Some i => emap_has map (aid i) | None => false end then ret q
    else
      dom x' <- class_nf x;
      dom c <- lift (cost cf x' (emap_cost map));
      ret (q ++ [(x', c)])
  else ret q.

Fixpoint push_usages (cf : nat) (map : emap) (q : list (node * N)) (l : list node) : M (list (node * N)) :=
  match l with
  | [] => ret q
  | x :: t => dom q' <- push_usage cf map q x; push_usages cf map q' t
  end.

Fixpoint worklist (last : bool) (fuel : nat) (cf : nat) (map : emap) (q : list (node * N)) : M emap :=
  match fuel with
  | O => fail OutOfFuel
  | S f =>
      match pop_min last q with
      | None => ret map
      | Some ((enode, c), q') =>
          dom i <- reads (fun s => eg_lookup_unwrap s enode);
          if emap_has map (aid i) then worklist last f cf map q'
          else
            let map' := map ++ [(aid i, (enode, c))] in
            dom us <- reads (fun s => usages s (aid i));
            dom q'' <- push_usages cf map' q' us;
            worklist last f cf map' q''
      end
  end.

(* every node is pushed at most once (when the last of its child classes gets its entry) *)
Definition extractor_new (last : bool) (cf : nat) : M emap :=
  dom q <- init_queue cf;
  dom n <- gets total_number_of_nodes;
  worklist last (S (2 * n + 8)) cf [] q.

(* ------------------------------------------------------------------ *)
(* Extractor::extract, get_best_cost *)

Fixpoint extract (fuel : nat) (map : emap) (i : appid) : M rterm :=
  match fuel with
  | O => fail OutOfFuel
  | S f =>
      dom i <- reads (fun s => find_applied_id s i);
      match emap_get map (aid i) with
      | None => fail ExplicitPanic                       (* self.map[&i.id] *)
      | Some (n, _) =>
          dom l <- with_ctr (apply_slotmap_fresh false (am i) n);
          dom ch <- mapM (extract f map) (app_occ l);
          ret (RT l ch)
      end
  end.

Definition get_best_cost (map : emap) (i : appid) : res N := emap_cost map (aid i).

(* ------------------------------------------------------------------ *)
(* CostFunction::cost_rec, lookup_rec_expr, free slots of a term *)

Fixpoint cost_rec (cf : nat) (t : rterm) : res N :=
  match t with
  | RT n ch =>
      do cs <- (fix go (l : list rterm) : res (list N) :=
                  match l with
                  | [] => Ok []
                  | c :: r => do x <- cost_rec cf c; do r' <- go r; Ok (x :: r')
                  end) ch;
      let k := List.length (app_occ n) in
      let node := set_apps n (map (fun i => {| aid := N.of_nat i; am := [] |}) (seq 0 k)) in
      cost cf node (fun i => match nth_opt cs (N.to_nat i) with Some c => Ok c | None => Err OutOfBounds end)
  end.

Fixpoint lookup_rec_expr (s : egraph) (t : rterm) : res (option appid) :=
  match t with
  | RT n ch =>
      (* `for i in 0..refs.len() { *(refs[i]) = lookup_rec_expr(&re.children[i], eg)?; }` *)
      do l <- (fix go (k : nat) (l : list rterm) {struct l} : res (option (list appid)) :=
                 match k with
                 | O => Ok (Some [])
                 | S k' =>
                     match l with
                     | [] => Err OutOfBounds                         (* re.children[i] *)
                     | c :: r =>
                         do x <- lookup_rec_expr s c;
                         match x with
                         | None => Ok None
                         | Some a => do r' <- go k' r;
                                     match r' with Some r'' => Ok (Some (a :: r'')) | None => Ok None end
                         end
                     end
                 end) (List.length (app_occ n)) ch;
      match l with
      | None => Ok None
      | Some l => eg_lookup s (set_apps n l)
      end
  end.

(* the applied ids stored in the nodes of a term are place holders: the slots of a child term are
   visible at the child's position, where a binder of the node may bind them *)
Fixpoint rfree (t : rterm) : sset :=
  match t with
  | RT n ch =>
      slots (set_apps n ((fix go (l : list rterm) : list appid :=
                            match l with
                            | [] => []
                            | c :: r => {| aid := 0; am := identity (rfree c) |} :: go r
                            end) ch))
  end.

(* Slot::fresh() hands out the numbers 4k+1 *)
Definition is_fresh_slot (x : slot) : bool := x mod 4 =? 1.
