(* Extract/ExtractorBridgeUp.v — the bridge of Extract/ExtractorFacts.v with a SATISFIABLE gap.

   `nf_ok s` of ExtractorFacts.v quantifies over ALL counters (`ctr_only s s1`), also counters smaller
   than `ctr s`; fresh slots drawn from a too small counter collide with the slots of the classes, and
   `nf_ok` is FALSE on reachable states (`nf_ok_false_on_reachable`).  The extractor only moves the
   counter UP (`class_nf_cup`), so the bridge only needs `nf_ok_up s` (counters >= `ctr s`):
   1  `cup`, `nf_ok_up`, `nf_ok_nf_ok_up`;
   2  `class_nf_cup`;
   3  Section BridgeUp: the bridge with the invariant `cup s` on the threaded state;
      `extractor_new_characterised_up`, `extractor_new_eq_lazy_run_up`, `extractor_new_costs_up`,
      `extractor_new_tie_break_up`, `extract_cheapest_up`;
   4  `nf_okb_at`, `nf_bad_at` by vm_compute on 16 final states; `nf_ok_false_on_reachable`:
      in the final state of history 2 (ctr = 49) the stored node  lam 0. f(.. -> 29)  of class 3 (free
      slot 29) is refreshed at counter 29 to  lam 29. f(.. -> 29): the fresh binder CAPTURES the free
      slot and the result is looked up to class 4.  (At counter 1 `nf_okb_at` is false only because
      `class_nf` returns Err, which is no counterexample to `nf_ok`: hence the second checker.)
   No axioms, no Admitted. *)
From SE Require Extract.Knuth Extract.LazyQueue.
From SE Require EGraph.HashconsFacts.
From SE Require Import EGraph.Model EGraph.ModelMachine EGraph.ModelFacts EGraph.InvariantFacts EGraph.AddCoversFacts
  Extract.Extractor Extract.ExtractorFacts.
Require Import ZArith Lia List Permutation ZifyBool ZifyN ZifyNat.
Import ListNotations.

(* ------------------------------------------------------------------ *)
(* 1. the counter only moves up *)

Definition cup (s s1 : egraph) : Prop := exists c, Model.ctr s <= c /\ s1 = set_ctr s c.

Lemma cup_refl : forall s, cup s s.
Proof. intros s. exists (Model.ctr s). split; [lia|destruct s; reflexivity]. Qed.

Lemma cup_ctr_only : forall s s1, cup s s1 -> ctr_only s s1.
Proof. intros s s1 (c & _ & E). exists c. exact E. Qed.

Lemma cup_set : forall s s1 c, cup s s1 -> Model.ctr s1 <= c -> cup s (set_ctr s1 c).
Proof.
  intros s s1 c (c0 & L & ->) Hc. cbn [Model.ctr set_ctr] in Hc. exists c. split; [lia|reflexivity].
Qed.

Lemma cup_trans : forall a b c, cup a b -> cup b c -> cup a c.
Proof. intros a b c Hab (c1 & L1 & ->). apply cup_set; assumption. Qed.

Definition nf_ok_up (s : egraph) : Prop :=
  forall s1 j x x' s1', cup s s1 -> In (j, x) (snodes s) -> class_nf x s1 = Ok (x', s1') ->
    exists a', eg_lookup s x' = Ok (Some a') /\ aid a' = j.

Lemma nf_ok_nf_ok_up : forall s, nf_ok s -> nf_ok_up s.
Proof. intros s H s1 j x x' s1' HC. apply H. apply cup_ctr_only. assumption. Qed.

(* ------------------------------------------------------------------ *)
(* 2. class_nf only moves the counter up *)

Lemma class_nf_cup : forall x s0 s x' s', cup s0 s -> class_nf x s = Ok (x', s') ->
  cup s0 s' /\ kids x' = kids x /\ nvar x' = nvar x.
Proof.
  intros x s0 s x' s' HC H. destruct (class_nf_syn _ _ _ _ H) as (_ & K & V). split; [|split; assumption].
  unfold class_nf in H.
  apply mbind_inv in H. destruct H as (l1 & s1 & H1 & H).
  apply mbind_inv in H. destruct H as (i & s2 & H2 & H).
  apply reads_inv in H2. destruct H2 as [_ ->].
  unfold eg_refresh_internals in H1. apply mbind_inv in H1. destruct H1 as (i0 & s3 & H0 & H1).
  apply reads_inv in H0. destruct H0 as [_ ->].
  unfold lift_ctr in H1.
  pose proof (refresh_by_step (fun _ sl => sset_mem sl (sset_diff (sset_of_list (all_occ x)) (values (am i0))))
                (sset_diff (sset_of_list (all_occ x)) (values (am i0))) x (Model.ctr s)) as St1.
  fold (refresh_internals (values (am i0)) x (Model.ctr s)) in St1.
  destruct (refresh_internals (values (am i0)) x (Model.ctr s)) as [[r|e] c]; [|discriminate].
  cbn [snd] in St1. inversion H1; subst l1 s1. clear H1.
  apply with_ctr_spec in H. subst s'.
  apply cup_set; [apply cup_set; [assumption|apply ctr_step_le; assumption]|].
  apply ctr_step_le. apply apply_slotmap_fresh_step.
Qed.

(* ------------------------------------------------------------------ *)
(* 3. the bridge, with `cup s` as the invariant on the threaded state *)

Section BridgeUp.
  Variable s : egraph.
  Variable cf : nat.
  Hypothesis HA1 : lookup_ok s.
  Hypothesis HA2 : usages_sets_ok s.
  Hypothesis Hnf : nf_ok_up s.

  Local Notation f := (f_cf cf).
  Local Notation nodes := (agraph cf s).
  Local Notation abs := (ExtractorFacts.abs s cf).
  Local Notation cls0 := (ExtractorFacts.cls0 s).

  (* the entry made from the class normal form of a stored node *)
  Lemma nf_entry_up : forall s1 j x x' s1', cup s s1 -> In (j, x) (snodes s) -> class_nf x s1 = Ok (x', s1') ->
    cup s s1' /\ natkids (app_occ x') = natkids (app_occ x) /\ wt cf x' = wt cf x /\
    forall c, abs (x', c) = (anode cf (j, x), N.to_nat c).
  Proof.
    intros s1 j x x' s1' Hc Hin H. destruct (class_nf_cup _ _ _ _ _ Hc H) as (C1 & K & V).
    destruct (Hnf _ _ _ _ _ Hc Hin H) as (a' & E & Ea).
    assert (HK : natkids (app_occ x') = natkids (app_occ x)) by (rewrite !natkids_kids, K; reflexivity).
    assert (HW : wt cf x' = wt cf x) by (unfold wt, op_weight; rewrite V; reflexivity).
    split; [assumption|]. split; [assumption|]. split; [assumption|].
    intros c. unfold ExtractorFacts.abs, anode, ExtractorFacts.cls0. cbn [fst snd]. rewrite E, Ea, HK, HW. reflexivity.
  Qed.

  (* ---------------- the initial queue ---------------- *)

  Lemma init_spec_up : forall q0 s1, init_queue cf s = Ok (q0, s1) ->
    cup s s1 /\ forall e, In e (map abs q0) <-> In e (LazyQueue.init_queue f nodes).
  Proof.
    intros q0 s1 H. unfold init_queue in H.
    apply mbind_inv in H. destruct H as (live & s0 & H0 & H). apply gets_inv in H0. destruct H0 as [-> ->].
    apply mbind_inv in H. destruct H as (ll & s2 & H1 & H). apply ret_inv in H. destruct H as [-> ->].
    pose (Qin := fun (id : N) (x : node) (e : node * N) => abs e = (anode cf (id, x), f (N.to_nat (wt cf x)) [])).
    pose (Qout := fun (id : N) (l : list (node * N)) =>
                    exists ns, enodes s id = Ok ns /\ Forall2 (Qin id) (filter leafb ns) l).
    apply (mapM_inv _ _ (cup s) Qout) in H1; [|clear H1|apply cup_refl].
    - destruct H1 as [HC HF]. split; [assumption|]. intros e. unfold LazyQueue.init_queue, agraph.
      rewrite in_flat_map. split.
      + intros Hin. apply in_map_iff in Hin. destruct Hin as (e1 & <- & Hin).
        apply in_concat in Hin. destruct Hin as (l & Hl & He1).
        destruct (F2_in_r _ _ _ _ _ HF _ Hl) as (id & Hid & ns & En & HF2).
        destruct (F2_in_r _ _ _ _ _ HF2 _ He1) as (x & Hx & HQ). apply filter_In in Hx. destruct Hx as [Hx Hleaf].
        exists (anode cf (id, x)). split.
        * apply in_map. apply snodes_in. split; [assumption|]. exists ns. split; assumption.
        * unfold Qin in HQ. rewrite HQ. unfold anode, LazyQueue.leaf_entry, leafb in *. cbn [fst snd].
          destruct (app_occ x); [|discriminate]. left. reflexivity.
      + intros (nd & Hnd & He). apply in_map_iff in Hnd. destruct Hnd as ([id x] & <- & Hsn).
        apply snodes_in in Hsn. destruct Hsn as (Hid & ns & En & Hx).
        unfold anode, LazyQueue.leaf_entry in He. cbn [fst snd] in He.
        destruct (app_occ x) as [|a0 r0] eqn:Eocc; [|destruct He]. destruct He as [<-|[]].
        destruct (F2_in_l _ _ _ _ _ HF _ Hid) as (l & Hl & ns' & En' & HF2). rewrite En in En'. inversion En'; subst ns'.
        assert (Hx' : In x (filter leafb ns)) by (apply filter_In; split; [assumption|unfold leafb; rewrite Eocc; reflexivity]).
        destruct (F2_in_l _ _ _ _ _ HF2 _ Hx') as (e1 & He1 & HQ). unfold Qin in HQ.
        apply in_map_iff. exists e1. split; [|apply in_concat; exists l; split; assumption].
        rewrite HQ. unfold anode. cbn [fst snd]. rewrite Eocc. reflexivity.
    - intros id sa l sb Hid HCa Hf.
      apply mbind_inv in Hf. destruct Hf as (ns & s3 & Hr & Hf). apply reads_inv in Hr. destruct Hr as [En ->].
      rewrite (enodes_ctr _ _ _ (cup_ctr_only _ _ HCa)) in En.
      pose proof (fun z => proj1 (filter_In leafb z ns)) as Hfl. fold leafb in Hf.
      apply (mapM_inv _ _ (cup s) (Qin id)) in Hf; [| |assumption].
      + destruct Hf as [HCb HF]. split; [assumption|]. exists ns. split; assumption.
      + intros x sc e sd Hx HCc He. apply Hfl in Hx. destruct Hx as [Hx Hleaf].
        apply mbind_inv in He. destruct He as (x' & s4 & Hn & He).
        apply mbind_inv in He. destruct He as (c & s5 & Hc & He). apply ret_inv in He. destruct He as [-> ->].
        apply lift_inv' in Hc. destruct Hc as [Hc ->].
        assert (Hsn : In (id, x) (snodes s)) by (apply snodes_in; split; [assumption|exists ns; split; assumption]).
        destruct (nf_entry_up _ _ _ _ _ HCc Hsn Hn) as (HCd & HK & HW & HA). split; [assumption|].
        unfold Qin. rewrite HA. f_equal.
        unfold leafb in Hleaf. destruct (app_occ x) eqn:Eocc; [|discriminate].
        assert (Eocc' : app_occ x' = []).
        { unfold natkids in HK. cbn [map] in HK. apply map_eq_nil in HK. assumption. }
        rewrite cost_unfold, Eocc', cost_go_nil in Hc. inversion Hc; subst c.
        rewrite HW. pose proof (f_cf_spec cf (wt cf x) []) as HS. cbn [csum fold_right map] in HS.
        rewrite <- HS. f_equal. pose proof (wt_le cf x). lia.
  Qed.

  (* ---------------- the pushes ---------------- *)
  Lemma push_usage_spec_up : forall ci m q x j s1 q2 s2,
    cup s s1 -> In (j, x) (snodes s) -> In ci (natkids (app_occ x)) ->
    push_usage cf m q x s1 = Ok (q2, s2) ->
    cup s s2 /\ exists new, q2 = q ++ new /\
      map abs new = LazyQueue.push_usage f true (tbl m) ci (anode cf (j, x)).
  Proof.
    intros ci m q x j s1 q2 s2 HC Hsn Hci H. unfold push_usage in H.
    unfold LazyQueue.push_usage, anode. cbn [fst snd].
    assert (Hex : existsb (Nat.eqb ci) (natkids (app_occ x)) = true) by (apply LazyQueue.existsb_eqb_In; assumption).
    rewrite Hex.
    destruct (forallb (fun a => emap_has m (aid a)) (app_occ x)) eqn:F.
    - destruct (child_costs_all _ _ F) as (ks' & _ & Hcc). rewrite Hcc.
      apply mbind_inv in H. destruct H as (lk & s3 & Hl & H). apply reads_inv in Hl. destruct Hl as [Hl ->].
      rewrite (lookup_ctr _ _ _ (cup_ctr_only _ _ HC)) in Hl. destruct (HA1 _ _ Hsn) as (a & Ea & Eaj). rewrite Ea in Hl. inversion Hl; subst lk.
      rewrite Eaj, tbl_has in H. cbn [andb].
      destruct (LazyQueue.tabled (tbl m) (N.to_nat j)) eqn:T.
      + apply ret_inv in H. destruct H as [-> ->]. split; [assumption|]. exists []. rewrite app_nil_r. split; reflexivity.
      + apply mbind_inv in H. destruct H as (x' & s4 & Hn & H).
        apply mbind_inv in H. destruct H as (c & s5 & Hc & H). apply ret_inv in H. destruct H as [-> ->].
        apply lift_inv' in Hc. destruct Hc as [Hc ->].
        destruct (nf_entry_up _ _ _ _ _ HC Hsn Hn) as (HCd & HK & HW & HA). split; [assumption|].
        exists [(x', c)]. split; [reflexivity|]. cbn [map]. rewrite HA. unfold anode. cbn [fst snd].
        rewrite <- HK in Hcc. destruct (cost_tbl cf m x' _ Hcc) as (c' & Ec & Ef). rewrite Hc in Ec. inversion Ec; subst c'.
        rewrite Ef, HW. reflexivity.
    - rewrite (child_costs_notall _ _ F). apply ret_inv in H. destruct H as [-> ->].
      split; [assumption|]. exists []. rewrite app_nil_r. split; reflexivity.
  Qed.

  Lemma push_usages_spec_up : forall ci m us q s1 q2 s2,
    cup s s1 ->
    (forall x, In x us -> exists j, In (j, x) (snodes s) /\ In ci (natkids (app_occ x))) ->
    push_usages cf m q us s1 = Ok (q2, s2) ->
    cup s s2 /\ exists new, q2 = q ++ new /\
      forall e, In e (map abs new) <->
                exists x j, In x us /\ In (j, x) (snodes s) /\
                            In e (LazyQueue.push_usage f true (tbl m) ci (anode cf (j, x))).
  Proof.
    intros ci m. induction us as [|x t IH]; intros q s1 q2 s2 HC Hus H; cbn [push_usages] in H.
    - apply ret_inv in H. destruct H as [-> ->]. split; [assumption|]. exists []. rewrite app_nil_r. split; [reflexivity|].
      intros e. split; [intros []|intros (x & j & [] & _)].
    - apply mbind_inv in H. destruct H as (q1 & s3 & H1 & H).
      destruct (Hus x (or_introl eq_refl)) as (j & Hsn & Hci).
      destruct (push_usage_spec_up _ _ _ _ _ _ _ _ HC Hsn Hci H1) as (HC3 & new1 & -> & Hn1).
      destruct (IH _ _ _ _ HC3 (fun x0 Hin => Hus x0 (or_intror Hin)) H) as (HC2 & new2 & -> & Hn2).
      split; [assumption|]. exists (new1 ++ new2). split; [rewrite app_assoc; reflexivity|].
      intros e. rewrite map_app, in_app_iff, Hn1, Hn2. split.
      + intros [Hin|(x0 & j0 & Hx0 & Hs0 & Hin)].
        * exists x, j. split; [left; reflexivity|]. split; assumption.
        * exists x0, j0. split; [right; assumption|]. split; assumption.
      + intros (x0 & j0 & [<-|Hx0] & Hs0 & Hin).
        * left. rewrite (snodes_class_unique s HA1 _ _ _ Hsn Hs0). assumption.
        * right. exists x0, j0. split; [assumption|]. split; assumption.
  Qed.

  (* ---------------- the loop ---------------- *)
  Lemma worklist_inv_up : forall last fuel m q s1 m' s', cup s s1 ->
    LazyQueue.inv f nodes (tbl m) (map abs q) ->
    worklist last fuel cf m q s1 = Ok (m', s') -> LazyQueue.inv f nodes (tbl m') [].
  Proof.
    intros last. induction fuel as [|fu IH]; intros m q s1 m' s' HC HI H; cbn [worklist] in H; [discriminate|].
    destruct (pop_min last q) as [[[enode c] q']|] eqn:Hp.
    - apply mbind_inv in H. destruct H as (i & s2 & Hl & H). apply reads_inv in Hl. destruct Hl as [Hl ->].
      unfold eg_lookup_unwrap in Hl. rewrite (lookup_ctr _ _ _ (cup_ctr_only _ _ HC)) in Hl.
      destruct (eg_lookup s enode) as [[i0|]|e] eqn:El; cbn [bind] in Hl; try discriminate. inversion Hl; subst i0.
      destruct (pop_min_spec _ _ _ _ Hp) as [Hperm Hmin].
      assert (Hcls : cls0 enode = aid i) by (unfold ExtractorFacts.cls0; rewrite El; reflexivity).
      pose (e0 := abs (enode, c)).
      assert (Hpop : LazyQueue.min_pop (pop_at (map abs q) e0 (map abs q'))).
      { apply pop_at_min.
        - exact (Permutation_map abs Hperm).
        - intros e Hin. apply in_map_iff in Hin. destruct Hin as (e1 & <- & Hin).
          specialize (Hmin _ Hin). unfold e0, ExtractorFacts.abs. cbn [fst snd] in *. lia. }
      pose proof (pop_at_here (map abs q) e0 (map abs q')) as Hhere.
      unfold e0 at 2 in Hhere. unfold ExtractorFacts.abs at 4 in Hhere. cbn [fst snd] in Hhere. rewrite Hcls in Hhere.
      destruct (emap_has m (aid i)) eqn:Eh.
      + rewrite tbl_has in Eh. unfold LazyQueue.tabled in Eh.
        destruct (tbl m (N.to_nat (aid i))) as [k0|] eqn:Et; [|discriminate].
        eapply IH; [exact HC| |exact H].
        exact (LazyQueue.inv_skip f _ Hpop nodes _ _ _ _ _ _ _ k0 HI Hhere Et).
      + pose proof Eh as Eh'. rewrite tbl_has in Eh'. unfold LazyQueue.tabled in Eh'.
        destruct (tbl m (N.to_nat (aid i))) as [k0|] eqn:Et; [discriminate|].
        pose proof (LazyQueue.inv_table f (f_cf_monotone cf) (fun k => (k <= Mx)%nat) (f_cf_good cf) (f_cf_superior cf)
                      true _ Hpop nodes _ _ _ _ _ _ _ HI Hhere Et) as HI2.
        apply mbind_inv in H. destruct H as (us & s3 & Hu & H). apply reads_inv in Hu. destruct Hu as [Hu ->].
        rewrite (usages_ctr _ _ _ (cup_ctr_only _ _ HC)) in Hu.
        apply mbind_inv in H. destruct H as (q'' & s4 & Hpu & H).
        set (m2 := m ++ [(aid i, (enode, c))]) in *.
        assert (Hus : forall x, In x us -> exists j, In (j, x) (snodes s) /\ In (N.to_nat (aid i)) (natkids (app_occ x))).
        { intros x Hx. apply (HA2 _ _ Hu) in Hx. destruct Hx as [[j Hj] Hk]. exists j. split; [assumption|].
          rewrite natkids_kids. apply in_map. assumption. }
        destruct (push_usages_spec_up _ _ _ _ _ _ _ HC Hus Hpu) as (HC4 & new & -> & Hnew).
        eapply IH; [exact HC4| |exact H].
        eapply inv_ext; [| |exact HI2].
        * intros c0. symmetry. apply tbl_app. assumption.
        * intros e. rewrite map_app, !in_app_iff.
          rewrite (pushes_ext f true nodes _ (tbl m2) (N.to_nat (aid i)) (fun c0 => eq_sym (tbl_app m (aid i) enode c Eh c0))).
          rewrite Hnew. unfold LazyQueue.pushes, agraph. rewrite in_flat_map.
          split; (intros [Hin|Hin]; [left; assumption|right]).
          -- destruct Hin as (x & j & Hx & Hsn & Hin). exists (anode cf (j, x)). split; [apply in_map; assumption|assumption].
          -- destruct Hin as (nd & Hnd & Hin). apply in_map_iff in Hnd. destruct Hnd as ([j x] & <- & Hsn).
             exists x, j. split; [|split; assumption].
             apply (HA2 _ _ Hu). split; [exists j; assumption|].
             unfold LazyQueue.push_usage, anode in Hin. cbn [fst snd] in Hin.
             destruct (existsb (Nat.eqb (N.to_nat (aid i))) (natkids (app_occ x))) eqn:Ex; [|destruct Hin].
             apply LazyQueue.existsb_eqb_In in Ex. rewrite natkids_kids in Ex. apply in_map_iff in Ex.
             destruct Ex as (k & Ek & Hk). apply N2Nat.inj in Ek. subst k. assumption.
    - apply ret_inv in H. destruct H as [-> ->]. apply pop_min_none in Hp. subst q. exact HI.
  Qed.

  Theorem extractor_new_characterised_up : forall last m s',
    extractor_new last cf s = Ok (m, s') ->
    (forall c k, tbl m c = Some k ->
       Knuth.derivable f nodes c k /\ (forall k', Knuth.derivable f nodes c k' -> (k <= k')%nat)) /\
    (forall c, tbl m c = None -> forall k, ~ Knuth.derivable f nodes c k).
  Proof.
    intros last m s' H. unfold extractor_new in H.
    apply mbind_inv in H. destruct H as (q0 & s1 & Hq & H).
    apply mbind_inv in H. destruct H as (n & s2 & Hn & H). apply gets_inv in Hn. destruct Hn as [-> ->].
    destruct (init_spec_up _ _ Hq) as [HC Hin].
    apply inv_done. eapply worklist_inv_up; [exact HC| |exact H].
    eapply inv_ext; [| |exact (LazyQueue.inv_init f nodes)].
    - intros c. reflexivity.
    - exact Hin.
  Qed.
End BridgeUp.

(* ------------------------------------------------------------------ *)
(* 3b. the table is the table of the abstract lazy-queue algorithm *)

Theorem extractor_new_eq_lazy_run_up : forall s cf, usages_ok s -> nf_ok_up s ->
  forall last m s', extractor_new last cf s = Ok (m, s') ->
  forall c, tbl m c = LazyQueue.lazy_run (f_cf cf) true (LazyQueue.pop_tb last) (agraph cf s) c.
Proof.
  intros s cf [HA1 HA2] Hnf last m s' H. apply (LazyQueue.characterised_unique (f_cf cf) (agraph cf s)).
  - exact (extractor_new_characterised_up s cf HA1 HA2 Hnf last m s' H).
  - apply (LazyQueue.lazy_min_ranged (f_cf cf) (fun k => (k <= Mx)%nat) (f_cf_monotone cf) (f_cf_good cf)
             (f_cf_superior cf) true (LazyQueue.pop_tb last) (LazyQueue.pop_tb_min_pop last) (agraph cf s)
             (LazyQueue.lazy_fuel (agraph cf s))); [apply le_n|reflexivity].
Qed.

Corollary extractor_new_costs_up : forall s cf, usages_ok s -> nf_ok_up s ->
  forall last m s', extractor_new last cf s = Ok (m, s') ->
  forall i : N, option_map snd (emap_get m i) =
                option_map N.of_nat (LazyQueue.lazy_run (f_cf cf) true (LazyQueue.pop_tb last) (agraph cf s) (N.to_nat i)).
Proof.
  intros s cf HA Hnf last m s' H i.
  rewrite <- (extractor_new_eq_lazy_run_up s cf HA Hnf last m s' H). unfold tbl. rewrite N2Nat.id.
  destruct (emap_get m i) as [[nd c]|]; cbn [option_map snd]; [rewrite N2Nat.id|]; reflexivity.
Qed.

Corollary extractor_new_tie_break_up : forall s cf, usages_ok s -> nf_ok_up s ->
  forall m1 s1 m2 s2, extractor_new false cf s = Ok (m1, s1) -> extractor_new true cf s = Ok (m2, s2) ->
  forall i : N, option_map snd (emap_get m1 i) = option_map snd (emap_get m2 i).
Proof.
  intros s cf [HA1 HA2] Hnf m1 s1 m2 s2 H1 H2 i.
  pose proof (LazyQueue.characterised_unique (f_cf cf) (agraph cf s) _ _
                (extractor_new_characterised_up s cf HA1 HA2 Hnf false m1 s1 H1)
                (extractor_new_characterised_up s cf HA1 HA2 Hnf true m2 s2 H2) (N.to_nat i)) as E.
  unfold tbl in E. rewrite N2Nat.id in E.
  destruct (emap_get m1 i) as [[n1 c1]|]; destruct (emap_get m2 i) as [[n2 c2]|]; cbn [option_map snd] in *;
    try discriminate; [|reflexivity].
  inversion E as [E']. apply N2Nat.inj in E'. subst. reflexivity.
Qed.

Theorem extract_cheapest_up : forall s cf, usages_ok s -> nf_ok_up s ->
  forall last m s0, extractor_new last cf s = Ok (m, s0) -> extract_okb s cf m = true ->
  forall fuel i t s', extract fuel m i s = Ok (t, s') ->
  exists i' k, find_applied_id s i = Ok i' /\ cost_rec cf t = Ok k /\ get_best_cost m i' = Ok k /\
    Knuth.derivable (f_cf cf) (agraph cf s) (N.to_nat (aid i')) (N.to_nat k) /\
    (forall k', Knuth.derivable (f_cf cf) (agraph cf s) (N.to_nat (aid i')) k' -> (N.to_nat k <= k')%nat).
Proof.
  intros s cf [HA1 HA2] Hnf last m s0 HN HE fuel i t s' H.
  destruct (extract_cost s cf m HE fuel i s t s' (ctr_only_refl s) H) as (_ & i' & nd & c & F & G & C).
  exists i', c. split; [assumption|]. split; [assumption|]. split; [unfold get_best_cost, emap_cost; rewrite G; reflexivity|].
  apply (proj1 (extractor_new_characterised_up s cf HA1 HA2 Hnf last m s0 HN)). unfold tbl. rewrite N2Nat.id, G. reflexivity.
Qed.

(* ------------------------------------------------------------------ *)
(* 4. the gap at a given counter, executable; `nf_ok` is false on a reachable state *)

Definition nf_okb_at (s : egraph) (c : N) : bool :=
  forallb (fun p => match class_nf (snd p) (set_ctr s c) with
                    | Ok (x', _) => match eg_lookup s x' with Ok (Some a) => aid a =? fst p | _ => false end
                    | Err _ => false end) (snodes s).

(* a witness against the gap: `class_nf` SUCCEEDS at counter c and its result is not looked up to the class *)
Definition nf_bad_at (s : egraph) (c : N) : bool :=
  existsb (fun p => match class_nf (snd p) (set_ctr s c) with
                    | Ok (x', _) => match eg_lookup s x' with Ok (Some a) => negb (aid a =? fst p) | _ => true end
                    | Err _ => false end) (snodes s).

Lemma nf_bad_at_witness : forall s c, nf_bad_at s c = true ->
  exists j x x' s1', In (j, x) (snodes s) /\ class_nf x (set_ctr s c) = Ok (x', s1') /\
    ~ exists a', eg_lookup s x' = Ok (Some a') /\ aid a' = j.
Proof.
  intros s c H. unfold nf_bad_at in H. apply existsb_exists in H. destruct H as ([j x] & Hin & H). cbn [fst snd] in H.
  destruct (class_nf x (set_ctr s c)) as [[x' s1']|e] eqn:E; [|discriminate].
  exists j, x, x', s1'. split; [assumption|]. split; [exact E|]. intros (a' & El & Ea).
  rewrite El in H. subst j. rewrite N.eqb_refl in H. discriminate.
Qed.

Lemma nf_bad_at_not_nf_ok : forall s c, nf_bad_at s c = true -> ~ nf_ok s.
Proof.
  intros s c H Hnf. destruct (nf_bad_at_witness s c H) as (j & x & x' & s1' & Hin & E & Hno).
  apply Hno. apply (Hnf (set_ctr s c) j x x' s1'); [exists c; reflexivity|assumption|assumption].
Qed.

(* `nf_ok_up` is only refuted by witnesses at counters >= ctr s *)
Lemma nf_bad_at_not_nf_ok_up : forall s c, Model.ctr s <= c -> nf_bad_at s c = true -> ~ nf_ok_up s.
Proof.
  intros s c Hc H Hnf. destruct (nf_bad_at_witness s c H) as (j & x & x' & s1' & Hin & E & Hno).
  apply Hno. apply (Hnf (set_ctr s c) j x x' s1'); [exists c; split; [assumption|reflexivity]|assumption|assumption].
Qed.

Lemma nf_ok_up_okb_at : forall s c, nf_ok_up s -> Model.ctr s <= c -> nf_bad_at s c = false.
Proof.
  intros s c Hnf Hc. destruct (nf_bad_at s c) eqn:E; [|reflexivity].
  exfalso. exact (nf_bad_at_not_nf_ok_up s c Hc E Hnf).
Qed.

Definition nf_states : list egraph :=
  map (fun p => st_of (fst p) (snd p))
    (x_all ++ [(HashconsFacts.yT7, HashconsFacts.yO7); (HashconsFacts.yT8, HashconsFacts.yO8);
               (HashconsFacts.yT9, HashconsFacts.yO9); (HashconsFacts.yT10, HashconsFacts.yO10);
               (HashconsFacts.yT11, HashconsFacts.yO11); (HashconsFacts.yT12, HashconsFacts.yO12)]).

Example nf_states_16 : List.length nf_states = 16%nat.
Proof. vm_compute. reflexivity. Qed.

(* the states are the final states of complete runs (no history fails) *)
Example nf_states_run :
  forallb (fun p => match run_ops (fst p) (snd p) [] empty_egraph with Ok _ => true | Err _ => false end)
    (x_all ++ [(HashconsFacts.yT7, HashconsFacts.yO7); (HashconsFacts.yT8, HashconsFacts.yO8);
               (HashconsFacts.yT9, HashconsFacts.yO9); (HashconsFacts.yT10, HashconsFacts.yO10);
               (HashconsFacts.yT11, HashconsFacts.yO11); (HashconsFacts.yT12, HashconsFacts.yO12)]) = true.
Proof. vm_compute. reflexivity. Qed.

Example nf_ok_counter_false : nf_okb_at (st_of xT2 xO2) 1 = false.
Proof. vm_compute. reflexivity. Qed.
Example nf_ok_counter_false7 : nf_okb_at (st_of xT7 xO7) 1 = false.
Proof. vm_compute. reflexivity. Qed.

Example nf_okb_at_ctr :
  map (fun s => nf_okb_at s (Model.ctr s) && nf_okb_at s (Model.ctr s + 3) && nf_okb_at s (Model.ctr s + 40)) nf_states
  = map (fun _ => true) nf_states.
Proof. vm_compute. reflexivity. Qed.

(* and no witness against `nf_ok_up` at these counters *)
Example nf_bad_at_ctr :
  map (fun s => nf_bad_at s (Model.ctr s) || nf_bad_at s (Model.ctr s + 3) || nf_bad_at s (Model.ctr s + 40)) nf_states
  = map (fun _ => false) nf_states.
Proof. vm_compute. reflexivity. Qed.

(* CAREFUL: at counter 1 `nf_okb_at` fails only because `class_nf` returns Err (UnwrapNone: the
   refreshed node is not found); that does not contradict `nf_ok`.  A genuine witness (class_nf
   succeeds and its result is looked up to no / another class) exists at counter 29 < ctr = 49. *)
Example nf_bad_at_1_false : nf_bad_at (st_of xT2 xO2) 1 = false.
Proof. vm_compute. reflexivity. Qed.
Example st2_ctr : Model.ctr (st_of xT2 xO2) = 49.
Proof. vm_compute. reflexivity. Qed.
Example nf_bad_at_29 : nf_bad_at (st_of xT2 xO2) 29 = true.
Proof. vm_compute. reflexivity. Qed.

(* all counters 0 .. ctr s + 1 of the 16 states: the only genuine witness is (history 2, counter 29) *)
Definition ctrs_upto (s : egraph) : list N := map N.of_nat (seq 0 (N.to_nat (Model.ctr s) + 2)).
Example nf_bad_at_all_counters :
  map (fun s => filter (nf_bad_at s) (ctrs_upto s)) nf_states
  = [[]; [29]; []; []; []; []; []; []; []; []; []; []; []; []; []; []].
Proof. vm_compute. reflexivity. Qed.
(* the counters 0 .. ctr s + 1 at which `nf_okb_at` fails (Err of class_nf included) *)
Example nf_okb_at_all_counters :
  map (fun s => filter (fun c => negb (nf_okb_at s c)) (ctrs_upto s)) nf_states
  = [[]; [1; 29]; []; [49; 53; 69]; []; []; [1]; []; []; [25]; []; []; []; []; []; [29]].
Proof. vm_compute. reflexivity. Qed.

(* the final state of history 2 is a complete run from the empty e-graph *)
Example st2_reachable : exists hs, run_ops xT2 xO2 [] empty_egraph = Ok (hs, st_of xT2 xO2).
Proof. eexists. vm_compute. reflexivity. Qed.

Theorem nf_ok_false_on_reachable : ~ nf_ok (st_of xT2 xO2).
Proof. exact (nf_bad_at_not_nf_ok _ 29 nf_bad_at_29). Qed.

Print Assumptions cup_refl.
Print Assumptions cup_trans.
Print Assumptions cup_ctr_only.
Print Assumptions nf_ok_nf_ok_up.
Print Assumptions class_nf_cup.
Print Assumptions extractor_new_characterised_up.
Print Assumptions extractor_new_eq_lazy_run_up.
Print Assumptions extractor_new_costs_up.
Print Assumptions extractor_new_tie_break_up.
Print Assumptions extract_cheapest_up.
Print Assumptions nf_bad_at_not_nf_ok.
Print Assumptions nf_bad_at_not_nf_ok_up.
Print Assumptions nf_ok_up_okb_at.
Print Assumptions nf_ok_counter_false.
Print Assumptions nf_okb_at_ctr.
Print Assumptions nf_bad_at_ctr.
Print Assumptions nf_bad_at_29.
Print Assumptions nf_bad_at_all_counters.
Print Assumptions nf_okb_at_all_counters.
Print Assumptions nf_ok_false_on_reachable.
