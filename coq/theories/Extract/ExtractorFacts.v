(* Extract/ExtractorFacts.v — the BRIDGE between the concrete extractor model (Extract/Extractor.v, on
   top of EGraph/Model.v) and the abstract theorem of Extract/Knuth.v + Extract/LazyQueue.v.

   1-2  `snodes s` (the stored e-nodes `eg.enodes(id)` of the live ids), `agraph cf s` (class, child
        class ids, weight), the cost functions `f_cf cf` = `saturate u64_max additive/depth_weighted`;
        the invariant `usages_ok s` = `lookup_ok s` (a stored node of class j is looked up to class j)
        /\ `usages_sets_ok s` (`usages s i` = the stored nodes with child class i, as sets), its
        executable form `usages_okb` (`usages_okb_sound`).
   3-7  the concrete cost fold is the saturated abstract cost (`cost_tbl`); `pop_min` pops a minimal
        entry (`pop_min_spec`); the invariant of LazyQueue.v is extensional (`inv_ext`); `class_nf`
        only moves the counter and keeps operator and child ids (`class_nf_syn`).
   8-9  Section Bridge: `extractor_new_characterised` — under `usages_ok s` and the gap `nf_ok s`, the
        cost table of `extractor_new last cf s` holds exactly the minimum derivation cost in
        `agraph cf s` of every derivable class; `extractor_new_eq_lazy_run`, `extractor_new_costs`
        (= `lazy_run (f_cf cf) true (pop_tb last) (agraph cf s)` pointwise), `extractor_new_tie_break`.
        GAP `nf_ok s` (not executable, quantifies over the counter): the class normal form of a stored
        node of class j is looked up to class j.
   10   `table_okb s cf m`: a certificate checker for ANY table (entries derivable in insertion order +
        Bellman condition); `table_okb_sound` gives the same characterisation with NO hypothesis on the
        state (neither `usages_ok` nor `nf_ok`): evaluated per run it closes the gap for that run.
   11   the checkers by vm_compute after every operation of ten histories.
   12   `extract_cost_rec`, `extract_cheapest_checked`, `extract_cheapest`: under the executable
        `extract_okb s cf m`, `cost_rec` of the term returned by `extract` is the tabled cost, hence
        the minimum derivation cost of its class.
   No axioms, no Admitted. *)
From SE Require Extract.Knuth Extract.LazyQueue.
From SE Require Import EGraph.Model EGraph.ModelMachine EGraph.ModelFacts EGraph.InvariantFacts EGraph.AddCoversFacts
  Extract.Extractor.
Require Import ZArith Lia List Permutation ZifyBool ZifyN ZifyNat.
Import ListNotations.

(* ------------------------------------------------------------------ *)
(* 1. the abstract graph of a state *)

Definition kids (x : node) : list N := map aid (app_occ x).
Definition wt (cf : nat) (x : node) : N := match cf with 2%nat => op_weight x | _ => 1 end.

(* the stored e-nodes, class by class, as `eg.enodes(id)` returns them for the live ids *)
Definition snodes (s : egraph) : list (N * node) :=
  flat_map (fun j => match enodes s j with Ok ns => map (pair j) ns | Err _ => [] end) (ids s).

Definition natkids (l : list appid) : list nat := map (fun a => N.to_nat (aid a)) l.
Definition anode (cf : nat) (p : N * node) : Knuth.node :=
  (N.to_nat (fst p), natkids (app_occ (snd p)), N.to_nat (wt cf (snd p))).

Definition agraph (cf : nat) (s : egraph) : list Knuth.node := map (anode cf) (snodes s).

(* the cost functions as instances of the abstract scheme *)
Definition Mx : nat := N.to_nat u64_max.
Definition f_cf (cf : nat) : nat -> list nat -> nat :=
  Knuth.saturate Mx (match cf with 1%nat => Knuth.depth_weighted | _ => Knuth.additive end).

(* ------------------------------------------------------------------ *)
(* 2. the invariant on hashcons / usages, executable *)

Definition pval_eq_dec : forall a b : pval, {a = b} + {a <> b}.
Proof. decide equality; [apply N.eq_dec|apply Bool.bool_dec|apply (list_eq_dec N.eq_dec)]. Defined.
Definition appid_eq_dec : forall a b : appid, {a = b} + {a <> b}.
Proof.
  decide equality; [|apply N.eq_dec].
  apply list_eq_dec. intros [a1 a2] [b1 b2]. decide equality; apply N.eq_dec.
Defined.
Definition farg_eq_dec : forall a b : farg, {a = b} + {a <> b}.
Proof. decide equality; [apply N.eq_dec|apply appid_eq_dec|apply N.eq_dec|apply pval_eq_dec]. Defined.
Definition node_eq_dec : forall a b : node, {a = b} + {a <> b}.
Proof. decide equality; [apply (list_eq_dec farg_eq_dec)|apply Nat.eq_dec]. Defined.
Definition node_eqd (a b : node) : bool := if node_eq_dec a b then true else false.

Definition memN (i : N) (l : list N) : bool := existsb (N.eqb i) l.
Definition memnode (x : node) (l : list node) : bool := existsb (node_eqd x) l.

(* (A1) a stored node of class j is looked up to class j *)
Definition lookup_ok (s : egraph) : Prop :=
  forall j x, In (j, x) (snodes s) -> exists a, eg_lookup s x = Ok (Some a) /\ aid a = j.
(* (A2) the usages of class i are exactly the stored nodes with child class i *)
Definition usages_sets_ok (s : egraph) : Prop :=
  forall i us, usages s i = Ok us ->
    forall x, In x us <-> (exists j, In (j, x) (snodes s)) /\ In i (kids x).
Definition usages_ok (s : egraph) : Prop := lookup_ok s /\ usages_sets_ok s.

Definition lookup_okb (s : egraph) : bool :=
  forallb (fun p => match eg_lookup s (snd p) with Ok (Some a) => aid a =? fst p | _ => false end) (snodes s).
Definition usages_sets_okb (s : egraph) : bool :=
  let sn := map snd (snodes s) in
  forallb (fun i =>
             match usages s i with
             | Ok us => forallb (fun x => memnode x sn && memN i (kids x)) us
                        && forallb (fun x => if memN i (kids x) then memnode x us else true) sn
             | Err _ => true
             end) (map N.of_nat (seq 0 (List.length (classes s)))).
Definition usages_okb (s : egraph) : bool := lookup_okb s && usages_sets_okb s.

(* not needed below, but part of the picture: every child id of a stored node is a live class, and
   `usages` succeeds on every live class *)
Definition kids_liveb (s : egraph) : bool :=
  forallb (fun p => forallb (fun i => memN i (ids s)) (kids (snd p))) (snodes s)
  && forallb (fun i => match usages s i with Ok _ => true | Err _ => false end) (ids s).

(* ------------------------------------------------------------------ *)
(* 3. costs: the concrete fold is the saturated abstract cost *)

Definition cost_go (cf : nat) (costs : N -> res N) : list appid -> N -> res N :=
  fix go (l : list appid) (acc : N) : res N :=
  match l with
  | [] => Ok acc
  | x :: t => do c <- costs (aid x);
              go t (match cf with 1%nat => sat_add acc (sat_mul c 2) | _ => sat_add acc c end)
  end.
Lemma cost_go_nil : forall cf costs acc, cost_go cf costs [] acc = Ok acc.
Proof. reflexivity. Qed.
Lemma cost_go_cons : forall cf costs x t acc, cost_go cf costs (x :: t) acc =
  do c <- costs (aid x);
  cost_go cf costs t (match cf with 1%nat => sat_add acc (sat_mul c 2) | _ => sat_add acc c end).
Proof. reflexivity. Qed.
Lemma cost_unfold : forall cf n costs, cost cf n costs = cost_go cf costs (app_occ n) (wt cf n).
Proof. intros cf n costs. reflexivity. Qed.

Definition cterm (cf : nat) (k : N) : N := match cf with 1%nat => 2 * k | _ => k end.
Definition csum (cf : nat) (ks : list N) : N := fold_right (fun k a => cterm cf k + a) 0 ks.

Lemma sat_step : forall cf A y M,
  (match cf with 1%nat => N.min (N.min A M + N.min (y * 2) M) M | _ => N.min (N.min A M + y) M end)
  = N.min (A + cterm cf y) M.
Proof. intros cf A y M. unfold cterm. destruct cf as [|[|cf]]; lia. Qed.

Lemma cost_go_spec : forall cf costs l ks acc A,
  acc = N.min A u64_max -> mapr costs (map aid l) = Ok ks ->
  cost_go cf costs l acc = Ok (N.min (A + csum cf ks) u64_max).
Proof.
  intros cf costs. induction l as [|x t IH]; intros ks acc A Hacc Hm; cbn [map mapr] in *.
  - rewrite cost_go_nil. inversion Hm; subst ks. cbn [csum fold_right]. rewrite N.add_0_r. subst acc. reflexivity.
  - rewrite cost_go_cons.
    destruct (costs (aid x)) as [y|e] eqn:Ey; cbn [bind] in *; [|discriminate].
    destruct (mapr costs (map aid t)) as [r|e] eqn:Er; cbn [bind] in *; [|discriminate].
    inversion Hm; subst ks. cbn [csum fold_right]. fold (csum cf r).
    rewrite (IH r _ (A + cterm cf y) ); [f_equal; f_equal; lia| |reflexivity].
    subst acc. unfold sat_add, sat_mul. pose proof (sat_step cf A y u64_max) as HS.
    destruct cf as [|[|cf]]; exact HS.
Qed.

Lemma csum_nat : forall cf ks,
  N.to_nat (csum cf ks) =
  match cf with
  | 1%nat => Knuth.sum (map (fun k => (2 * k)%nat) (map N.to_nat ks))
  | _ => Knuth.sum (map N.to_nat ks)
  end.
Proof.
  intros cf. induction ks as [|k r IH]; [destruct cf as [|[|cf]]; reflexivity|].
  cbn [csum fold_right]. fold (csum cf r). rewrite N2Nat.inj_add, IH. unfold cterm.
  unfold Knuth.sum in *. destruct cf as [|[|cf]]; cbn [map fold_right]; lia.
Qed.

Lemma f_cf_spec : forall cf w ks,
  N.to_nat (N.min (w + csum cf ks) u64_max) = f_cf cf (N.to_nat w) (map N.to_nat ks).
Proof.
  intros cf w ks. unfold f_cf, Knuth.saturate, Mx. rewrite N2Nat.inj_min, N2Nat.inj_add, csum_nat.
  destruct cf as [|[|cf]]; reflexivity.
Qed.

Lemma wt_le : forall cf x, wt cf x <= u64_max.
Proof.
  intros cf x. unfold wt, op_weight, u64_max. destruct cf as [|[|[|cf]]]; lia.
Qed.

Lemma f_cf_monotone : forall cf, Knuth.monotone (f_cf cf).
Proof.
  intros cf. unfold f_cf. apply Knuth.saturate_monotone.
  destruct cf as [|[|cf]]; auto using Knuth.additive_monotone, Knuth.depth_weighted_monotone.
Qed.
Lemma f_cf_good : forall cf w ks, (f_cf cf w ks <= Mx)%nat.
Proof. intros cf w ks. unfold f_cf, Knuth.saturate. lia. Qed.
Lemma f_cf_superior : forall cf w ks k, In k ks -> (k <= Mx)%nat -> (k <= f_cf cf w ks)%nat.
Proof.
  intros cf w ks k Hin Hk. unfold f_cf. apply Knuth.saturate_superior_bounded; [|assumption|assumption].
  destruct cf as [|[|cf]]; auto using Knuth.additive_superior, Knuth.depth_weighted_superior.
Qed.

(* ------------------------------------------------------------------ *)
(* 4. the table of a map *)

Definition tbl (m : emap) : Knuth.table :=
  fun i => match emap_get m (N.of_nat i) with Some v => Some (N.to_nat (snd v)) | None => None end.

Lemma tbl_has : forall m i, emap_has m i = LazyQueue.tabled (tbl m) (N.to_nat i).
Proof.
  intros m i. unfold emap_has, LazyQueue.tabled, tbl. rewrite N2Nat.id.
  destruct (emap_get m i); reflexivity.
Qed.

Lemma emap_get_app : forall m k v i,
  emap_get (m ++ [(k, v)]) i =
  match emap_get m i with Some x => Some x | None => if k =? i then Some v else None end.
Proof.
  induction m as [|[k0 v0] t IH]; intros k v i; cbn [emap_get app]; [reflexivity|].
  destruct (k0 =? i); [reflexivity|apply IH].
Qed.

Lemma tbl_app : forall m k nd c, emap_has m k = false ->
  forall i, tbl (m ++ [(k, (nd, c))]) i = Knuth.upd (tbl m) (N.to_nat k) (N.to_nat c) i.
Proof.
  intros m k nd c Hk i. unfold tbl, Knuth.upd. rewrite emap_get_app.
  destruct (Nat.eqb i (N.to_nat k)) eqn:E.
  - apply Nat.eqb_eq in E. subst i. rewrite N2Nat.id. unfold emap_has in Hk.
    destruct (emap_get m k); [discriminate|]. rewrite N.eqb_refl. reflexivity.
  - apply Nat.eqb_neq in E. destruct (emap_get m (N.of_nat i)); [reflexivity|].
    destruct (k =? N.of_nat i) eqn:E2; [|reflexivity]. apply N.eqb_eq in E2. subst k.
    rewrite Nat2N.id in E. congruence.
Qed.

Lemma child_costs_all : forall m l, forallb (fun a => emap_has m (aid a)) l = true ->
  exists ks, mapr (emap_cost m) (map aid l) = Ok ks /\
             Knuth.child_costs (tbl m) (natkids l) = Some (map N.to_nat ks).
Proof.
  intros m. induction l as [|a t IH]; intros H; cbn [forallb map mapr natkids Knuth.child_costs] in *.
  - exists []. split; reflexivity.
  - apply andb_true_iff in H. destruct H as [Ha Ht]. destruct (IH Ht) as (ks & Hm & Hc).
    unfold emap_has in Ha. unfold emap_cost at 1. unfold tbl at 1. rewrite N2Nat.id.
    destruct (emap_get m (aid a)) as [[nd c]|] eqn:G; [|discriminate].
    cbn [bind snd]. rewrite Hm. cbn [bind]. exists (c :: ks). split; [reflexivity|].
    fold (natkids t). rewrite Hc. reflexivity.
Qed.

Lemma child_costs_notall : forall m l, forallb (fun a => emap_has m (aid a)) l = false ->
  Knuth.child_costs (tbl m) (natkids l) = None.
Proof.
  intros m. induction l as [|a t IH]; intros H; cbn [forallb natkids map Knuth.child_costs] in *; [discriminate|].
  apply andb_false_iff in H. destruct H as [Ha|Ht].
  - rewrite tbl_has in Ha. unfold LazyQueue.tabled in Ha.
    destruct (tbl m (N.to_nat (aid a))); [discriminate|reflexivity].
  - fold (natkids t). rewrite (IH Ht). destruct (tbl m (N.to_nat (aid a))); reflexivity.
Qed.

(* the cost of a node whose children are all tabled *)
Lemma cost_tbl : forall cf m x ks, Knuth.child_costs (tbl m) (natkids (app_occ x)) = Some ks ->
  exists c, cost cf x (emap_cost m) = Ok c /\ N.to_nat c = f_cf cf (N.to_nat (wt cf x)) ks.
Proof.
  intros cf m x ks Hc.
  destruct (forallb (fun a => emap_has m (aid a)) (app_occ x)) eqn:F.
  - destruct (child_costs_all _ _ F) as (ks' & Hm & Hc'). rewrite Hc in Hc'. inversion Hc'; subst ks.
    rewrite cost_unfold. rewrite (cost_go_spec cf _ _ ks' (wt cf x) (wt cf x)); [|pose proof (wt_le cf x); lia|exact Hm].
    eexists; split; [reflexivity|]. apply f_cf_spec.
  - rewrite (child_costs_notall _ _ F) in Hc. discriminate.
Qed.

(* ------------------------------------------------------------------ *)
(* 5. pop_min returns an entry of minimal cost and the rest *)

Lemma min_cost_le : forall q b, min_cost q b <= b /\ (forall e, In e q -> min_cost q b <= snd e).
Proof.
  induction q as [|[n c] t IH]; intros b; cbn [min_cost]; [split; [lia|intros e []]|].
  destruct (IH (N.min c b)) as [H1 H2]. split; [lia|].
  intros e [<-|Hin]; [cbn [snd]; lia|apply H2; assumption].
Qed.

Lemma min_cost_in : forall q b, min_cost q b = b \/ exists n, In (n, min_cost q b) q.
Proof.
  induction q as [|[n c] t IH]; intros b; cbn [min_cost]; [left; reflexivity|].
  destruct (IH (N.min c b)) as [H|[n' H]].
  - rewrite H. destruct (N.min_spec c b) as [[_ ->]|[_ ->]]; [right; exists n; left; reflexivity|left; reflexivity].
  - right. exists n'. right. assumption.
Qed.

Lemma remove_first_some : forall q c x r, remove_first q c = Some (x, r) ->
  snd x = c /\ Permutation q (x :: r).
Proof.
  induction q as [|[n c'] t IH]; intros c x r H; cbn [remove_first] in H; [discriminate|].
  destruct (c' =? c) eqn:E.
  - inversion H; subst. apply N.eqb_eq in E. split; [assumption|apply Permutation_refl].
  - destruct (remove_first t c) as [[x' r']|] eqn:R; [|discriminate]. inversion H; subst.
    destruct (IH _ _ _ R) as [H1 H2]. split; [assumption|].
    apply perm_trans with ((n, c') :: x :: r'); [apply perm_skip; assumption|apply perm_swap].
Qed.

Lemma remove_first_none : forall q c, remove_first q c = None -> forall n, ~ In (n, c) q.
Proof.
  induction q as [|[n c'] t IH]; intros c H n0 Hin; cbn [remove_first] in H; [destruct Hin|].
  destruct (c' =? c) eqn:E; [discriminate|]. apply N.eqb_neq in E.
  destruct (remove_first t c) as [[x' r']|] eqn:R; [discriminate|].
  destruct Hin as [Heq|Hin]; [inversion Heq; congruence|exact (IH _ R _ Hin)].
Qed.

Lemma pop_min_first_spec : forall q x r, pop_min_first q = Some (x, r) ->
  Permutation q (x :: r) /\ (forall e, In e q -> snd x <= snd e).
Proof.
  intros [|[n c] t] x r H; cbn [pop_min_first] in H; [discriminate|].
  destruct (remove_first_some _ _ _ _ H) as [H1 H2]. split; [assumption|].
  destruct (min_cost_le t c) as [L1 L2]. rewrite H1.
  intros e [<-|Hin]; [cbn [snd]; assumption|apply L2; assumption].
Qed.

Lemma pop_min_first_none : forall q, pop_min_first q = None -> q = [].
Proof.
  intros [|[n c] t] H; [reflexivity|]. cbn [pop_min_first] in H. exfalso.
  destruct (min_cost_in t c) as [E|[n' Hin]].
  - rewrite E in H. exact (remove_first_none _ _ H n (or_introl eq_refl)).
  - exact (remove_first_none _ _ H n' (or_intror Hin)).
Qed.

Lemma pop_min_spec : forall last q x r, pop_min last q = Some (x, r) ->
  Permutation q (x :: r) /\ (forall e, In e q -> snd x <= snd e).
Proof.
  intros [|] q x r H; unfold pop_min in H; [|apply pop_min_first_spec; assumption].
  destruct (pop_min_first (rev q)) as [[x' r']|] eqn:E; [|discriminate]. inversion H; subst.
  destruct (pop_min_first_spec _ _ _ E) as [H1 H2]. split.
  - apply perm_trans with (rev q); [apply Permutation_rev|].
    apply perm_trans with (x :: r'); [assumption|]. apply perm_skip. apply Permutation_rev.
  - intros e Hin. apply H2. apply -> in_rev. assumption.
Qed.

Lemma pop_min_none : forall last q, pop_min last q = None -> q = [].
Proof.
  intros [|] q H; unfold pop_min in H; [|apply pop_min_first_none; assumption].
  destruct (pop_min_first (rev q)) as [[x' r']|] eqn:E; [discriminate|].
  apply pop_min_first_none in E. rewrite <- (rev_involutive q), E. reflexivity.
Qed.

(* ------------------------------------------------------------------ *)
(* 6. the invariant of LazyQueue.v is extensional in the table and in the SET of queue entries;
      a queue discipline that agrees with a given minimal pop on one queue *)

Definition entry_eq_dec : forall a b : LazyQueue.entry, {a = b} + {a <> b}.
Proof.
  intros [[[c1 l1] w1] k1] [[[c2 l2] w2] k2].
  destruct (Nat.eq_dec c1 c2) as [->|N1]; [|right; congruence].
  destruct (list_eq_dec Nat.eq_dec l1 l2) as [->|N2]; [|right; congruence].
  destruct (Nat.eq_dec w1 w2) as [->|N3]; [|right; congruence].
  destruct (Nat.eq_dec k1 k2) as [->|N4]; [left; reflexivity|right; congruence].
Defined.

Definition pop_at (q0 : LazyQueue.queue) (e0 : LazyQueue.entry) (q0' : LazyQueue.queue)
  : LazyQueue.queue -> option (LazyQueue.entry * LazyQueue.queue) :=
  fun q => if list_eq_dec entry_eq_dec q q0 then Some (e0, q0') else LazyQueue.pop_tb false q.

Lemma pop_at_here : forall q0 e0 q0', pop_at q0 e0 q0' q0 = Some (e0, q0').
Proof. intros. unfold pop_at. destruct (list_eq_dec entry_eq_dec q0 q0); [reflexivity|congruence]. Qed.

Lemma pop_at_min : forall q0 e0 q0', Permutation q0 (e0 :: q0') ->
  (forall e, In e q0 -> (snd e0 <= snd e)%nat) -> LazyQueue.min_pop (pop_at q0 e0 q0').
Proof.
  intros q0 e0 q0' HP HM. destruct (LazyQueue.pop_tb_min_pop false) as [T1 T2]. split.
  - intros q e q' H. unfold pop_at in H. destruct (list_eq_dec entry_eq_dec q q0) as [->|NE].
    + inversion H; subst. split; assumption.
    + apply T1; assumption.
  - intros q H. unfold pop_at in H. destruct (list_eq_dec entry_eq_dec q q0); [discriminate|].
    apply T2; assumption.
Qed.

Lemma child_costs_ext : forall t t', (forall c, t c = t' c) ->
  forall chs, Knuth.child_costs t chs = Knuth.child_costs t' chs.
Proof.
  intros t t' E. induction chs as [|c r IH]; cbn [Knuth.child_costs]; [reflexivity|].
  rewrite E, IH. reflexivity.
Qed.

Lemma inv_ext : forall f nodes t t' q q', (forall c, t c = t' c) -> (forall e, In e q' <-> In e q) ->
  LazyQueue.inv f nodes t q -> LazyQueue.inv f nodes t' q'.
Proof.
  intros f nodes t t' q q' Et Eq (Hs & Hm & He & Hc). split; [|split; [|split]].
  - intros c k H. rewrite <- Et in H. apply Hs; assumption.
  - intros c k H. rewrite <- Et in H. apply Hm; assumption.
  - intros c chs w k Hin. apply Eq in Hin. destruct (He _ _ _ _ Hin) as (H1 & ks & H2 & H3).
    split; [assumption|]. exists ks. rewrite <- (child_costs_ext t t' Et). split; assumption.
  - intros nd c k Hin H. apply Eq. apply (Hc nd c k Hin).
    destruct nd as [[c0 chs] w]. unfold Knuth.cand in *. rewrite Et, (child_costs_ext t t' Et). assumption.
Qed.

Lemma pushes_ext : forall f pr nodes t t' c, (forall c, t c = t' c) ->
  LazyQueue.pushes f pr nodes t c = LazyQueue.pushes f pr nodes t' c.
Proof.
  intros f pr nodes t t' c E. unfold LazyQueue.pushes. apply flat_map_ext. intros [[c0 chs] w].
  unfold LazyQueue.push_usage, LazyQueue.tabled. rewrite (child_costs_ext t t' E), E. reflexivity.
Qed.

(* the final step of `lazy_min_section`: with an empty queue the invariant is the characterisation *)
Lemma inv_done : forall cf nodes t, LazyQueue.inv (f_cf cf) nodes t [] ->
  (forall c k, t c = Some k ->
     Knuth.derivable (f_cf cf) nodes c k /\ (forall k', Knuth.derivable (f_cf cf) nodes c k' -> (k <= k')%nat)) /\
  (forall c, t c = None -> forall k, ~ Knuth.derivable (f_cf cf) nodes c k).
Proof.
  intros cf nodes t (Hs & Hm & _ & Hq). split.
  - intros c k H. split; [apply Hs; assumption|]. intros k' Hd. eapply Hm; eauto.
  - intros c Hc k Hd.
    destruct (proj1 (Knuth.key (f_cf cf) (f_cf_monotone cf) (fun k => (k <= Mx)%nat) (f_cf_good cf) (f_cf_superior cf)
                       nodes t Hm) _ _ Hd Hc) as [cm [m [[nd [Hn Hcand]] _]]].
    exact (Hq _ _ _ Hn Hcand).
Qed.

(* ------------------------------------------------------------------ *)
(* 7. class_nf: changes only the counter, keeps the operator and the child class ids *)

Section TravKids.
  Context {S : Type} (f : bool -> slot -> S -> slot * S).
  Lemma trav_f_kids : forall a bound st, map aid (app_occ_f (fst (trav_f f bound a st))) = map aid (app_occ_f a).
  Proof.
    induction a as [s|x|s b IH|p]; intros bound st; cbn [trav_f].
    - destruct (f _ s st). reflexivity.
    - destruct (trav_vals f bound (am x) st). reflexivity.
    - destruct (f false s st) as [s' st1]. specialize (IH (s :: bound) st1).
      destruct (trav_f f (s :: bound) b st1). exact IH.
    - reflexivity.
  Qed.
  Lemma trav_args_kids : forall l st,
    map aid (flat_map app_occ_f (fst (trav_args f l st))) = map aid (flat_map app_occ_f l).
  Proof.
    induction l as [|a t IH]; intros st; cbn [trav_args]; [reflexivity|].
    pose proof (trav_f_kids a [] st) as H1. destruct (trav_f f [] a st) as [a' st1].
    specialize (IH st1). destruct (trav_args f t st1) as [t' st2]. cbn [fst flat_map] in *.
    rewrite !map_app, H1, IH. reflexivity.
  Qed.
  Lemma trav_kids : forall n st, kids (fst (trav f n st)) = kids n /\ nvar (fst (trav f n st)) = nvar n.
  Proof.
    intros n st. unfold trav, kids, app_occ. pose proof (trav_args_kids (nargs n) st) as H.
    destruct (trav_args f (nargs n) st) as [l st']. cbn [fst nargs nvar] in *. split; [exact H|reflexivity].
  Qed.
End TravKids.

Lemma trav_res_kids : forall f n n', trav_res f n = Ok n' -> kids n' = kids n /\ nvar n' = nvar n.
Proof.
  intros f n n' H. unfold trav_res in H.
  match type of H with context [trav ?F n None] => pose proof (trav_kids F n None) as HK; destruct (trav F n None) as [n1 e] end.
  destruct e; [discriminate|]. inversion H; subst. exact HK.
Qed.

Lemma asf_kids : forall lg m n c, kids (fst (apply_slotmap_fresh lg m n c)) = kids n /\
                                  nvar (fst (apply_slotmap_fresh lg m n c)) = nvar n.
Proof.
  intros lg m n c. unfold apply_slotmap_fresh.
  match goal with |- context [trav ?F n (m, c)] => pose proof (trav_kids F n (m, c)) as HK; destruct (trav F n (m, c)) as [n1 [m1 c1]] end.
  exact HK.
Qed.

Lemma reads_inv : forall A (f : egraph -> res A) s x s', reads f s = Ok (x, s') -> f s = Ok x /\ s' = s.
Proof. unfold reads. intros A f s x s' H. destruct (f s); inversion H; auto. Qed.
Lemma gets_inv : forall A (f : egraph -> A) s x s', gets f s = Ok (x, s') -> x = f s /\ s' = s.
Proof. unfold gets. intros A f s x s' H. inversion H; auto. Qed.
Lemma ret_inv : forall A (a : A) s x s', ret a s = Ok (x, s') -> x = a /\ s' = s.
Proof. unfold ret. intros A a s x s' H. inversion H; auto. Qed.
Lemma lift_inv' : forall A (r : res A) s x s', Model.lift r s = Ok (x, s') -> r = Ok x /\ s' = s.
Proof. unfold Model.lift. intros A r s x s' H. destruct r; inversion H; auto. Qed.

Lemma class_nf_syn : forall x s x' s', class_nf x s = Ok (x', s') ->
  ctr_only s s' /\ kids x' = kids x /\ nvar x' = nvar x.
Proof.
  intros x s x' s' H. unfold class_nf in H.
  apply mbind_inv in H. destruct H as (l1 & s1 & H1 & H).
  apply mbind_inv in H. destruct H as (i & s2 & H2 & H).
  apply reads_inv in H2. destruct H2 as [_ ->].
  unfold eg_refresh_internals in H1. apply mbind_inv in H1. destruct H1 as (i0 & s0 & H0 & H1).
  apply reads_inv in H0. destruct H0 as [_ ->].
  unfold lift_ctr in H1.
  destruct (refresh_internals (values (am i0)) x (ctr s)) as [[r|e] c] eqn:R; [|discriminate].
  inversion H1; subst l1 s1. clear H1.
  pose proof (with_ctr_spec _ _ _ _ _ H) as Hs. unfold with_ctr in H.
  pose proof (asf_kids false (am i) r (ctr (set_ctr s c))) as HK.
  destruct (apply_slotmap_fresh false (am i) r (ctr (set_ctr s c))) as [x2 c2]. inversion H; subst x' s'.
  cbn [fst] in HK.
  unfold refresh_internals, refresh_by in R.
  destruct (bijection_from_fresh_to _ (ctr s)) as [bf c']. inversion R as [[R1 R2]].
  apply trav_res_kids in R1. split; [eexists; reflexivity|].
  destruct HK as [K1 K2]. destruct R1 as [K3 K4]. split; congruence.
Qed.
(* ------------------------------------------------------------------ *)
(* 8. the bridge *)

(* THE GAP (semantic, not executable: it quantifies over the counter): the class normal form of a
   stored node of class j is looked up to class j *)
Definition nf_ok (s : egraph) : Prop :=
  forall s1 j x x' s1', ctr_only s s1 -> In (j, x) (snodes s) -> class_nf x s1 = Ok (x', s1') ->
    exists a', eg_lookup s x' = Ok (Some a') /\ aid a' = j.

Lemma natkids_kids : forall x, natkids (app_occ x) = map N.to_nat (kids x).
Proof. intros x. unfold natkids, kids. rewrite map_map. reflexivity. Qed.

Lemma snodes_in : forall s j x, In (j, x) (snodes s) <-> In j (ids s) /\ exists ns, enodes s j = Ok ns /\ In x ns.
Proof.
  intros s j x. unfold snodes. rewrite in_flat_map. split.
  - intros (j' & Hj & Hin). destruct (enodes s j') as [ns|e] eqn:E; [|destruct Hin].
    apply in_map_iff in Hin. destruct Hin as (x' & Heq & Hx). inversion Heq; subst. eauto.
  - intros (Hj & ns & E & Hx). exists j. split; [assumption|]. rewrite E. apply in_map. assumption.
Qed.

Lemma F2_in_r : forall A B (Q : A -> B -> Prop) l ys, Forall2 Q l ys -> forall y, In y ys -> exists x, In x l /\ Q x y.
Proof. induction 1; intros y0 Hin; [destruct Hin|]. destruct Hin as [<-|Hin]; [eexists; split; [left; reflexivity|assumption]|].
  destruct (IHForall2 _ Hin) as (x0 & H1 & H2). exists x0. split; [right|]; assumption. Qed.
Lemma F2_in_l : forall A B (Q : A -> B -> Prop) l ys, Forall2 Q l ys -> forall x, In x l -> exists y, In y ys /\ Q x y.
Proof. induction 1; intros x0 Hin; [destruct Hin|]. destruct Hin as [<-|Hin]; [eexists; split; [left; reflexivity|assumption]|].
  destruct (IHForall2 _ Hin) as (y0 & H1 & H2). exists y0. split; [right|]; assumption. Qed.

Lemma mapM_inv : forall A C (P : egraph -> Prop) (Q : A -> C -> Prop) (f : A -> M C) l,
  (forall x s1 y s2, In x l -> P s1 -> f x s1 = Ok (y, s2) -> P s2 /\ Q x y) ->
  forall s1 ys s2, P s1 -> mapM f l s1 = Ok (ys, s2) -> P s2 /\ Forall2 Q l ys.
Proof.
  intros A C P Q f. induction l as [|x t IH]; intros Hf s1 ys s2 HP H; cbn [mapM] in H.
  - apply ret_inv in H. destruct H as [-> ->]. split; [assumption|constructor].
  - apply mbind_inv in H. destruct H as (y & s3 & H1 & H).
    apply mbind_inv in H. destruct H as (r & s4 & H2 & H).
    apply ret_inv in H. destruct H as [-> ->].
    destruct (Hf x s1 y s3 (or_introl eq_refl) HP H1) as [HP3 HQ].
    destruct (IH (fun x0 a b c Hin => Hf x0 a b c (or_intror Hin)) s3 r s4 HP3 H2) as [HP4 HF].
    split; [assumption|constructor; assumption].
Qed.

Section Bridge.
  Variable s : egraph.
  Variable cf : nat.
  Hypothesis HA1 : lookup_ok s.
  Hypothesis HA2 : usages_sets_ok s.
  Hypothesis Hnf : nf_ok s.

  Local Notation f := (f_cf cf).
  Local Notation nodes := (agraph cf s).

  Definition cls0 (x : node) : N := match eg_lookup s x with Ok (Some a) => aid a | _ => 0 end.
  Definition abs (e : node * N) : LazyQueue.entry :=
    ((N.to_nat (cls0 (fst e)), natkids (app_occ (fst e)), N.to_nat (wt cf (fst e))), N.to_nat (snd e)).

  Lemma lookup_ctr : forall s1 x, ctr_only s s1 -> eg_lookup s1 x = eg_lookup s x.
  Proof. intros s1 x [c ->]. reflexivity. Qed.
  Lemma usages_ctr : forall s1 i, ctr_only s s1 -> usages s1 i = usages s i.
  Proof. intros s1 i [c ->]. reflexivity. Qed.
  Lemma enodes_ctr : forall s1 i, ctr_only s s1 -> enodes s1 i = enodes s i.
  Proof. intros s1 i [c ->]. reflexivity. Qed.

  Lemma snodes_class_unique : forall j j' x, In (j, x) (snodes s) -> In (j', x) (snodes s) -> j = j'.
  Proof.
    intros j j' x H1 H2. destruct (HA1 _ _ H1) as (a & E & <-). destruct (HA1 _ _ H2) as (a' & E' & <-).
    rewrite E in E'. inversion E'. reflexivity.
  Qed.

  (* the entry made from the class normal form of a stored node *)
  Lemma nf_entry : forall s1 j x x' s1', ctr_only s s1 -> In (j, x) (snodes s) -> class_nf x s1 = Ok (x', s1') ->
    ctr_only s s1' /\ natkids (app_occ x') = natkids (app_occ x) /\ wt cf x' = wt cf x /\
    forall c, abs (x', c) = (anode cf (j, x), N.to_nat c).
  Proof.
    intros s1 j x x' s1' Hc Hin H. destruct (class_nf_syn _ _ _ _ H) as (C1 & K & V).
    destruct (Hnf _ _ _ _ _ Hc Hin H) as (a' & E & Ea).
    assert (HK : natkids (app_occ x') = natkids (app_occ x)) by (rewrite !natkids_kids, K; reflexivity).
    assert (HW : wt cf x' = wt cf x) by (unfold wt, op_weight; rewrite V; reflexivity).
    split; [eapply ctr_only_trans; eassumption|]. split; [assumption|]. split; [assumption|].
    intros c. unfold abs, anode, cls0. cbn [fst snd]. rewrite E, Ea, HK, HW. reflexivity.
  Qed.

  (* ---------------- the initial queue ---------------- *)
  Definition leafb (x : node) : bool := match app_occ x with [] => true | _ => false end.

  Lemma init_spec : forall q0 s1, init_queue cf s = Ok (q0, s1) ->
    ctr_only s s1 /\ forall e, In e (map abs q0) <-> In e (LazyQueue.init_queue f nodes).
  Proof.
    intros q0 s1 H. unfold init_queue in H.
    apply mbind_inv in H. destruct H as (live & s0 & H0 & H). apply gets_inv in H0. destruct H0 as [-> ->].
    apply mbind_inv in H. destruct H as (ll & s2 & H1 & H). apply ret_inv in H. destruct H as [-> ->].
    pose (Qin := fun (id : N) (x : node) (e : node * N) => abs e = (anode cf (id, x), f (N.to_nat (wt cf x)) [])).
    pose (Qout := fun (id : N) (l : list (node * N)) =>
                    exists ns, enodes s id = Ok ns /\ Forall2 (Qin id) (filter leafb ns) l).
    apply (mapM_inv _ _ (ctr_only s) Qout) in H1; [|clear H1|apply ctr_only_refl].
    - destruct H1 as [HC HF]. split; [assumption|]. intros e. unfold LazyQueue.init_queue, agraph.
      rewrite in_flat_map. split.
      + intros Hin. apply in_map_iff in Hin. destruct Hin as (e1 & <- & Hin).
        apply in_concat in Hin. destruct Hin as (l & Hl & He1).
        destruct (F2_in_r _ _ _ _ _ HF _ Hl) as (id & Hid & ns & En & HF2).
        destruct (F2_in_r _ _ _ _ _ HF2 _ He1) as (x & Hx & HQ). apply filter_In in Hx. destruct Hx as [Hx Hleaf].
        exists (anode cf (id, x)). split.
        * apply in_map. apply snodes_in. split; [assumption|]. exists ns. split; assumption.
        * unfold Qin in HQ. rewrite HQ. unfold anode, LazyQueue.leaf_entry, leafb in *. cbn [fst snd].
          destruct (app_occ x); [|discriminate]. left. reflexivity.
      + intros (nd & Hnd & He). apply in_map_iff in Hnd. destruct Hnd as ([id x] & <- & Hsn).
        apply snodes_in in Hsn. destruct Hsn as (Hid & ns & En & Hx).
        unfold anode, LazyQueue.leaf_entry in He. cbn [fst snd] in He.
        destruct (app_occ x) as [|a0 r0] eqn:Eocc; [|destruct He]. destruct He as [<-|[]].
        destruct (F2_in_l _ _ _ _ _ HF _ Hid) as (l & Hl & ns' & En' & HF2). rewrite En in En'. inversion En'; subst ns'.
        assert (Hx' : In x (filter leafb ns)) by (apply filter_In; split; [assumption|unfold leafb; rewrite Eocc; reflexivity]).
        destruct (F2_in_l _ _ _ _ _ HF2 _ Hx') as (e1 & He1 & HQ). unfold Qin in HQ.
        apply in_map_iff. exists e1. split; [|apply in_concat; exists l; split; assumption].
        rewrite HQ. unfold anode. cbn [fst snd]. rewrite Eocc. reflexivity.
    - intros id sa l sb Hid HCa Hf.
      apply mbind_inv in Hf. destruct Hf as (ns & s3 & Hr & Hf). apply reads_inv in Hr. destruct Hr as [En ->].
      rewrite (enodes_ctr _ _ HCa) in En.
      pose proof (fun z => proj1 (filter_In leafb z ns)) as Hfl. fold leafb in Hf.
      apply (mapM_inv _ _ (ctr_only s) (Qin id)) in Hf; [| |assumption].
      + destruct Hf as [HCb HF]. split; [assumption|]. exists ns. split; assumption.
      + intros x sc e sd Hx HCc He. apply Hfl in Hx. destruct Hx as [Hx Hleaf].
        apply mbind_inv in He. destruct He as (x' & s4 & Hn & He).
        apply mbind_inv in He. destruct He as (c & s5 & Hc & He). apply ret_inv in He. destruct He as [-> ->].
        apply lift_inv' in Hc. destruct Hc as [Hc ->].
        assert (Hsn : In (id, x) (snodes s)) by (apply snodes_in; split; [assumption|exists ns; split; assumption]).
        destruct (nf_entry _ _ _ _ _ HCc Hsn Hn) as (HCd & HK & HW & HA). split; [assumption|].
        unfold Qin. rewrite HA. f_equal.
        unfold leafb in Hleaf. destruct (app_occ x) eqn:Eocc; [|discriminate].
        assert (Eocc' : app_occ x' = []).
        { unfold natkids in HK. cbn [map] in HK. apply map_eq_nil in HK. assumption. }
        rewrite cost_unfold, Eocc', cost_go_nil in Hc. inversion Hc; subst c.
        rewrite HW. pose proof (f_cf_spec cf (wt cf x) []) as HS. cbn [csum fold_right map] in HS.
        rewrite <- HS. f_equal. pose proof (wt_le cf x). lia.
  Qed.

  (* ---------------- the pushes ---------------- *)
  Lemma push_usage_spec : forall ci m q x j s1 q2 s2,
    ctr_only s s1 -> In (j, x) (snodes s) -> In ci (natkids (app_occ x)) ->
    push_usage cf m q x s1 = Ok (q2, s2) ->
    ctr_only s s2 /\ exists new, q2 = q ++ new /\
      map abs new = LazyQueue.push_usage f true (tbl m) ci (anode cf (j, x)).
  Proof.
    intros ci m q x j s1 q2 s2 HC Hsn Hci H. unfold push_usage in H.
    unfold LazyQueue.push_usage, anode. cbn [fst snd].
    assert (Hex : existsb (Nat.eqb ci) (natkids (app_occ x)) = true) by (apply LazyQueue.existsb_eqb_In; assumption).
    rewrite Hex.
    destruct (forallb (fun a => emap_has m (aid a)) (app_occ x)) eqn:F.
    - destruct (child_costs_all _ _ F) as (ks' & _ & Hcc). rewrite Hcc.
      apply mbind_inv in H. destruct H as (lk & s3 & Hl & H). apply reads_inv in Hl. destruct Hl as [Hl ->].
      rewrite (lookup_ctr _ _ HC) in Hl. destruct (HA1 _ _ Hsn) as (a & Ea & Eaj). rewrite Ea in Hl. inversion Hl; subst lk.
      rewrite Eaj, tbl_has in H. cbn [andb].
      destruct (LazyQueue.tabled (tbl m) (N.to_nat j)) eqn:T.
      + apply ret_inv in H. destruct H as [-> ->]. split; [assumption|]. exists []. rewrite app_nil_r. split; reflexivity.
      + apply mbind_inv in H. destruct H as (x' & s4 & Hn & H).
        apply mbind_inv in H. destruct H as (c & s5 & Hc & H). apply ret_inv in H. destruct H as [-> ->].
        apply lift_inv' in Hc. destruct Hc as [Hc ->].
        destruct (nf_entry _ _ _ _ _ HC Hsn Hn) as (HCd & HK & HW & HA). split; [assumption|].
        exists [(x', c)]. split; [reflexivity|]. cbn [map]. rewrite HA. unfold anode. cbn [fst snd].
        rewrite <- HK in Hcc. destruct (cost_tbl cf m x' _ Hcc) as (c' & Ec & Ef). rewrite Hc in Ec. inversion Ec; subst c'.
        rewrite Ef, HW. reflexivity.
    - rewrite (child_costs_notall _ _ F). apply ret_inv in H. destruct H as [-> ->].
      split; [assumption|]. exists []. rewrite app_nil_r. split; reflexivity.
  Qed.

  Lemma push_usages_spec : forall ci m us q s1 q2 s2,
    ctr_only s s1 ->
    (forall x, In x us -> exists j, In (j, x) (snodes s) /\ In ci (natkids (app_occ x))) ->
    push_usages cf m q us s1 = Ok (q2, s2) ->
    ctr_only s s2 /\ exists new, q2 = q ++ new /\
      forall e, In e (map abs new) <->
                exists x j, In x us /\ In (j, x) (snodes s) /\
                            In e (LazyQueue.push_usage f true (tbl m) ci (anode cf (j, x))).
  Proof.
    intros ci m. induction us as [|x t IH]; intros q s1 q2 s2 HC Hus H; cbn [push_usages] in H.
    - apply ret_inv in H. destruct H as [-> ->]. split; [assumption|]. exists []. rewrite app_nil_r. split; [reflexivity|].
      intros e. split; [intros []|intros (x & j & [] & _)].
    - apply mbind_inv in H. destruct H as (q1 & s3 & H1 & H).
      destruct (Hus x (or_introl eq_refl)) as (j & Hsn & Hci).
      destruct (push_usage_spec _ _ _ _ _ _ _ _ HC Hsn Hci H1) as (HC3 & new1 & -> & Hn1).
      destruct (IH _ _ _ _ HC3 (fun x0 Hin => Hus x0 (or_intror Hin)) H) as (HC2 & new2 & -> & Hn2).
      split; [assumption|]. exists (new1 ++ new2). split; [rewrite app_assoc; reflexivity|].
      intros e. rewrite map_app, in_app_iff, Hn1, Hn2. split.
      + intros [Hin|(x0 & j0 & Hx0 & Hs0 & Hin)].
        * exists x, j. split; [left; reflexivity|]. split; assumption.
        * exists x0, j0. split; [right; assumption|]. split; assumption.
      + intros (x0 & j0 & [<-|Hx0] & Hs0 & Hin).
        * left. rewrite (snodes_class_unique _ _ _ Hsn Hs0). assumption.
        * right. exists x0, j0. split; [assumption|]. split; assumption.
  Qed.

  (* ---------------- the loop ---------------- *)
  Lemma worklist_inv : forall last fuel m q s1 m' s', ctr_only s s1 ->
    LazyQueue.inv f nodes (tbl m) (map abs q) ->
    worklist last fuel cf m q s1 = Ok (m', s') -> LazyQueue.inv f nodes (tbl m') [].
  Proof.
    intros last. induction fuel as [|fu IH]; intros m q s1 m' s' HC HI H; cbn [worklist] in H; [discriminate|].
    destruct (pop_min last q) as [[[enode c] q']|] eqn:Hp.
    - apply mbind_inv in H. destruct H as (i & s2 & Hl & H). apply reads_inv in Hl. destruct Hl as [Hl ->].
      unfold eg_lookup_unwrap in Hl. rewrite (lookup_ctr _ _ HC) in Hl.
      destruct (eg_lookup s enode) as [[i0|]|e] eqn:El; cbn [bind] in Hl; try discriminate. inversion Hl; subst i0.
      destruct (pop_min_spec _ _ _ _ Hp) as [Hperm Hmin].
      assert (Hcls : cls0 enode = aid i) by (unfold cls0; rewrite El; reflexivity).
      pose (e0 := abs (enode, c)).
      assert (Hpop : LazyQueue.min_pop (pop_at (map abs q) e0 (map abs q'))).
      { apply pop_at_min.
        - exact (Permutation_map abs Hperm).
        - intros e Hin. apply in_map_iff in Hin. destruct Hin as (e1 & <- & Hin).
          specialize (Hmin _ Hin). unfold e0, abs. cbn [fst snd] in *. lia. }
      pose proof (pop_at_here (map abs q) e0 (map abs q')) as Hhere.
      unfold e0 at 2 in Hhere. unfold abs at 4 in Hhere. cbn [fst snd] in Hhere. rewrite Hcls in Hhere.
      destruct (emap_has m (aid i)) eqn:Eh.
      + rewrite tbl_has in Eh. unfold LazyQueue.tabled in Eh.
        destruct (tbl m (N.to_nat (aid i))) as [k0|] eqn:Et; [|discriminate].
        eapply IH; [exact HC| |exact H].
        exact (LazyQueue.inv_skip f _ Hpop nodes _ _ _ _ _ _ _ k0 HI Hhere Et).
      + pose proof Eh as Eh'. rewrite tbl_has in Eh'. unfold LazyQueue.tabled in Eh'.
        destruct (tbl m (N.to_nat (aid i))) as [k0|] eqn:Et; [discriminate|].
        pose proof (LazyQueue.inv_table f (f_cf_monotone cf) (fun k => (k <= Mx)%nat) (f_cf_good cf) (f_cf_superior cf)
                      true _ Hpop nodes _ _ _ _ _ _ _ HI Hhere Et) as HI2.
        apply mbind_inv in H. destruct H as (us & s3 & Hu & H). apply reads_inv in Hu. destruct Hu as [Hu ->].
        rewrite (usages_ctr _ _ HC) in Hu.
        apply mbind_inv in H. destruct H as (q'' & s4 & Hpu & H).
        set (m2 := m ++ [(aid i, (enode, c))]) in *.
        assert (Hus : forall x, In x us -> exists j, In (j, x) (snodes s) /\ In (N.to_nat (aid i)) (natkids (app_occ x))).
        { intros x Hx. apply (HA2 _ _ Hu) in Hx. destruct Hx as [[j Hj] Hk]. exists j. split; [assumption|].
          rewrite natkids_kids. apply in_map. assumption. }
        destruct (push_usages_spec _ _ _ _ _ _ _ HC Hus Hpu) as (HC4 & new & -> & Hnew).
        eapply IH; [exact HC4| |exact H].
        eapply inv_ext; [| |exact HI2].
        * intros c0. symmetry. apply tbl_app. assumption.
        * intros e. rewrite map_app, !in_app_iff.
          rewrite (pushes_ext f true nodes _ (tbl m2) (N.to_nat (aid i)) (fun c0 => eq_sym (tbl_app m (aid i) enode c Eh c0))).
          rewrite Hnew. unfold LazyQueue.pushes, agraph. rewrite in_flat_map.
          split; (intros [Hin|Hin]; [left; assumption|right]).
          -- destruct Hin as (x & j & Hx & Hsn & Hin). exists (anode cf (j, x)). split; [apply in_map; assumption|assumption].
          -- destruct Hin as (nd & Hnd & Hin). apply in_map_iff in Hnd. destruct Hnd as ([j x] & <- & Hsn).
             exists x, j. split; [|split; assumption].
             apply (HA2 _ _ Hu). split; [exists j; assumption|].
             unfold LazyQueue.push_usage, anode in Hin. cbn [fst snd] in Hin.
             destruct (existsb (Nat.eqb (N.to_nat (aid i))) (natkids (app_occ x))) eqn:Ex; [|destruct Hin].
             apply LazyQueue.existsb_eqb_In in Ex. rewrite natkids_kids in Ex. apply in_map_iff in Ex.
             destruct Ex as (k & Ek & Hk). apply N2Nat.inj in Ek. subst k. assumption.
    - apply ret_inv in H. destruct H as [-> ->]. apply pop_min_none in Hp. subst q. exact HI.
  Qed.

  Theorem extractor_new_characterised : forall last m s',
    extractor_new last cf s = Ok (m, s') ->
    (forall c k, tbl m c = Some k ->
       Knuth.derivable f nodes c k /\ (forall k', Knuth.derivable f nodes c k' -> (k <= k')%nat)) /\
    (forall c, tbl m c = None -> forall k, ~ Knuth.derivable f nodes c k).
  Proof.
    intros last m s' H. unfold extractor_new in H.
    apply mbind_inv in H. destruct H as (q0 & s1 & Hq & H).
    apply mbind_inv in H. destruct H as (n & s2 & Hn & H). apply gets_inv in Hn. destruct Hn as [-> ->].
    destruct (init_spec _ _ Hq) as [HC Hin].
    apply inv_done. eapply worklist_inv; [exact HC| |exact H].
    eapply inv_ext; [| |exact (LazyQueue.inv_init f nodes)].
    - intros c. reflexivity.
    - exact Hin.
  Qed.
End Bridge.

(* ------------------------------------------------------------------ *)
(* 9. the table is the table of the abstract lazy-queue algorithm; the checkers are sound *)

Theorem extractor_new_eq_lazy_run : forall s cf, usages_ok s -> nf_ok s ->
  forall last m s', extractor_new last cf s = Ok (m, s') ->
  forall c, tbl m c = LazyQueue.lazy_run (f_cf cf) true (LazyQueue.pop_tb last) (agraph cf s) c.
Proof.
  intros s cf [HA1 HA2] Hnf last m s' H. apply (LazyQueue.characterised_unique (f_cf cf) (agraph cf s)).
  - exact (extractor_new_characterised s cf HA1 HA2 Hnf last m s' H).
  - apply (LazyQueue.lazy_min_ranged (f_cf cf) (fun k => (k <= Mx)%nat) (f_cf_monotone cf) (f_cf_good cf)
             (f_cf_superior cf) true (LazyQueue.pop_tb last) (LazyQueue.pop_tb_min_pop last) (agraph cf s)
             (LazyQueue.lazy_fuel (agraph cf s))); [apply le_n|reflexivity].
Qed.

(* the same, over the class ids and costs of the model (N) *)
Corollary extractor_new_costs : forall s cf, usages_ok s -> nf_ok s ->
  forall last m s', extractor_new last cf s = Ok (m, s') ->
  forall i : N, option_map snd (emap_get m i) =
                option_map N.of_nat (LazyQueue.lazy_run (f_cf cf) true (LazyQueue.pop_tb last) (agraph cf s) (N.to_nat i)).
Proof.
  intros s cf HA Hnf last m s' H i.
  rewrite <- (extractor_new_eq_lazy_run s cf HA Hnf last m s' H). unfold tbl. rewrite N2Nat.id.
  destruct (emap_get m i) as [[nd c]|]; cbn [option_map snd]; [rewrite N2Nat.id|]; reflexivity.
Qed.

(* neither tie-break matters *)
Corollary extractor_new_tie_break : forall s cf, usages_ok s -> nf_ok s ->
  forall m1 s1 m2 s2, extractor_new false cf s = Ok (m1, s1) -> extractor_new true cf s = Ok (m2, s2) ->
  forall i : N, option_map snd (emap_get m1 i) = option_map snd (emap_get m2 i).
Proof.
  intros s cf [HA1 HA2] Hnf m1 s1 m2 s2 H1 H2 i.
  pose proof (LazyQueue.characterised_unique (f_cf cf) (agraph cf s) _ _
                (extractor_new_characterised s cf HA1 HA2 Hnf false m1 s1 H1)
                (extractor_new_characterised s cf HA1 HA2 Hnf true m2 s2 H2) (N.to_nat i)) as E.
  unfold tbl in E. rewrite N2Nat.id in E.
  destruct (emap_get m1 i) as [[n1 c1]|]; destruct (emap_get m2 i) as [[n2 c2]|]; cbn [option_map snd] in *;
    try discriminate; [|reflexivity].
  inversion E as [E']. apply N2Nat.inj in E'. subst. reflexivity.
Qed.

Lemma node_eqd_eq : forall a b, node_eqd a b = true <-> a = b.
Proof. intros a b. unfold node_eqd. destruct (node_eq_dec a b); split; congruence. Qed.
Lemma memnode_in : forall x l, memnode x l = true <-> In x l.
Proof.
  intros x l. unfold memnode. rewrite existsb_exists. split.
  - intros (y & Hin & E). apply node_eqd_eq in E. subst. assumption.
  - intros Hin. exists x. split; [assumption|apply node_eqd_eq; reflexivity].
Qed.
Lemma memN_in : forall i l, memN i l = true <-> In i l.
Proof.
  intros i l. unfold memN. rewrite existsb_exists. split.
  - intros (y & Hin & E). apply N.eqb_eq in E. subst. assumption.
  - intros Hin. exists i. split; [assumption|apply N.eqb_refl].
Qed.

Lemma lookup_okb_sound : forall s, lookup_okb s = true -> lookup_ok s.
Proof.
  intros s H j x Hin. unfold lookup_okb in H. rewrite forallb_forall in H. specialize (H _ Hin). cbn [fst snd] in H.
  destruct (eg_lookup s x) as [[a|]|e]; try discriminate. apply N.eqb_eq in H. eauto.
Qed.

Lemma usages_sets_okb_sound : forall s, usages_sets_okb s = true -> usages_sets_ok s.
Proof.
  intros s H i us Hu x. unfold usages_sets_okb in H. rewrite forallb_forall in H.
  assert (Hi : In i (map N.of_nat (seq 0 (List.length (classes s))))).
  { unfold usages in Hu. destruct (get_class s i) as [c|e] eqn:G; [|discriminate]. unfold get_class in G.
    destruct (nth_opt (classes s) (N.to_nat i)) eqn:E; [|discriminate]. apply nth_opt_Some_lt in E.
    apply in_map_iff. exists (N.to_nat i). split; [apply N2Nat.id|]. apply in_seq. lia. }
  specialize (H _ Hi). rewrite Hu in H. apply andb_true_iff in H. destruct H as [H1 H2].
  rewrite forallb_forall in H1, H2. split.
  - intros Hx. specialize (H1 _ Hx). apply andb_true_iff in H1. destruct H1 as [Ha Hb].
    apply memnode_in in Ha. apply memN_in in Hb. split; [|assumption].
    apply in_map_iff in Ha. destruct Ha as ([j x'] & E & Hin). cbn [snd] in E. subst x'. exists j. assumption.
  - intros [[j Hj] Hk]. assert (Hx : In x (map snd (snodes s))) by (apply in_map_iff; exists (j, x); split; [reflexivity|assumption]).
    specialize (H2 _ Hx). apply memN_in in Hk. rewrite Hk in H2. apply memnode_in. assumption.
Qed.

Theorem usages_okb_sound : forall s, usages_okb s = true -> usages_ok s.
Proof.
  intros s H. unfold usages_okb in H. apply andb_true_iff in H. destruct H as [H1 H2].
  split; [apply lookup_okb_sound|apply usages_sets_okb_sound]; assumption.
Qed.

(* ------------------------------------------------------------------ *)
(* 10. a certificate checker for a table: independent of how the table was computed and of every
       hypothesis on the state (no `usages_ok`, no `nf_ok`).  `table_okb s cf m = true` implies the
       same characterisation of `tbl m`.
       - entries, in insertion order: the class is new, and some stored node of the class has exactly
         this cost under the EARLIER entries (derivability, well-founded by the order);
       - Bellman: every stored node whose children are all tabled has its class tabled with a cost
         not above the node's cost under the table (minimality and completeness, by induction on
         derivations: only monotonicity is needed). *)

Definition res_N_eqb (r : res N) (c : N) : bool := match r with Ok c' => c' =? c | Err _ => false end.

Fixpoint entries_okb (s : egraph) (cf : nat) (m1 rest : emap) : bool :=
  match rest with
  | [] => true
  | (i, (nd, c)) :: t =>
      negb (emap_has m1 i)
      && existsb (fun p => (fst p =? i) && res_N_eqb (cost cf (snd p) (emap_cost m1)) c) (snodes s)
      && entries_okb s cf (m1 ++ [(i, (nd, c))]) t
  end.

Definition bellman_okb (s : egraph) (cf : nat) (m : emap) : bool :=
  forallb (fun p => match cost cf (snd p) (emap_cost m) with
                    | Ok c => match emap_get m (fst p) with Some (_, c0) => c0 <=? c | None => false end
                    | Err _ => true
                    end) (snodes s).

Definition table_okb (s : egraph) (cf : nat) (m : emap) : bool := entries_okb s cf [] m && bellman_okb s cf m.

Lemma cost_go_err : forall cf m l acc, forallb (fun a => emap_has m (aid a)) l = false ->
  exists e, cost_go cf (emap_cost m) l acc = Err e.
Proof.
  intros cf m. induction l as [|a t IH]; intros acc H; cbn [forallb] in H; [discriminate|].
  rewrite cost_go_cons. unfold emap_has in H at 1. unfold emap_cost at 1.
  destruct (emap_get m (aid a)) as [[nd c]|]; cbn [bind andb] in *; [apply IH; assumption|eexists; reflexivity].
Qed.

Lemma cost_ok_tbl : forall cf m x c, cost cf x (emap_cost m) = Ok c ->
  exists ks, Knuth.child_costs (tbl m) (natkids (app_occ x)) = Some ks /\
             N.to_nat c = f_cf cf (N.to_nat (wt cf x)) ks.
Proof.
  intros cf m x c H. destruct (forallb (fun a => emap_has m (aid a)) (app_occ x)) eqn:F.
  - destruct (child_costs_all _ _ F) as (ks' & _ & Hcc). exists (map N.to_nat ks'). split; [assumption|].
    destruct (cost_tbl cf m x _ Hcc) as (c' & Ec & Ef). rewrite H in Ec. inversion Ec; subst. assumption.
  - rewrite cost_unfold in H. destruct (cost_go_err cf m _ (wt cf x) F) as [e E]. rewrite E in H. discriminate.
Qed.

Lemma sound_ext : forall f nodes t t', (forall c, t c = t' c) -> Knuth.sound f nodes t -> Knuth.sound f nodes t'.
Proof. intros f nodes t t' E H c k Hc. rewrite <- E in Hc. apply H; assumption. Qed.

Lemma entries_okb_sound : forall s cf rest m1, Knuth.sound (f_cf cf) (agraph cf s) (tbl m1) ->
  entries_okb s cf m1 rest = true -> Knuth.sound (f_cf cf) (agraph cf s) (tbl (m1 ++ rest)).
Proof.
  intros s cf. induction rest as [|[i [nd c]] t IH]; intros m1 Hs H; cbn [entries_okb] in H.
  - rewrite app_nil_r. assumption.
  - apply andb_true_iff in H. destruct H as [H H3]. apply andb_true_iff in H. destruct H as [H1 H2].
    apply negb_true_iff in H1. apply existsb_exists in H2. destruct H2 as ([j x] & Hsn & H2). cbn [fst snd] in H2.
    apply andb_true_iff in H2. destruct H2 as [Ej Ec]. apply N.eqb_eq in Ej. subst j.
    unfold res_N_eqb in Ec. destruct (cost cf x (emap_cost m1)) as [c'|e] eqn:Ecost; [|discriminate].
    apply N.eqb_eq in Ec. subst c'. destruct (cost_ok_tbl _ _ _ _ Ecost) as (ks & Hcc & Hf).
    replace (m1 ++ (i, (nd, c)) :: t) with ((m1 ++ [(i, (nd, c))]) ++ t) by (rewrite <- app_assoc; reflexivity).
    apply IH; [|assumption].
    apply (sound_ext _ _ (Knuth.upd (tbl m1) (N.to_nat i) (N.to_nat c))); [intros c0; symmetry; apply tbl_app; assumption|].
    intros c0 k0. unfold Knuth.upd. destruct (Nat.eqb c0 (N.to_nat i)) eqn:E; [|apply Hs].
    apply Nat.eqb_eq in E. subst c0. intros Hk. inversion Hk; subst k0. rewrite Hf.
    apply Knuth.der with (chs := natkids (app_occ x)).
    + unfold agraph. apply in_map_iff. exists (i, x). split; [reflexivity|assumption].
    + eapply Knuth.child_costs_derivables; eassumption.
Qed.

Lemma bellman_okb_min : forall s cf m, bellman_okb s cf m = true ->
  forall c k, Knuth.derivable (f_cf cf) (agraph cf s) c k -> exists k0, tbl m c = Some k0 /\ (k0 <= k)%nat.
Proof.
  intros s cf m H. unfold bellman_okb in H. rewrite forallb_forall in H.
  set (P := fun (c k : nat) (_ : Knuth.derivable (f_cf cf) (agraph cf s) c k) =>
              exists k0, tbl m c = Some k0 /\ (k0 <= k)%nat).
  set (P0 := fun (chs ks : list nat) (_ : Knuth.derivables (f_cf cf) (agraph cf s) chs ks) =>
               exists ts, Knuth.child_costs (tbl m) chs = Some ts /\ Forall2 le ts ks).
  cut ((forall n n0 d, P n n0 d) /\ (forall l l0 d, P0 l l0 d)); [intros [A _] c k d; exact (A c k d)|].
  apply Knuth.derivable_mutind; unfold P, P0; clear P P0.
  - intros c chs w ks Hin _ (ts & Hcc & Hle).
    unfold agraph in Hin. apply in_map_iff in Hin. destruct Hin as ([j x] & E & Hsn). unfold anode in E. cbn [fst snd] in E.
    inversion E; subst c chs w. clear E.
    destruct (cost_tbl cf m x _ Hcc) as (c' & Ec & Ef). specialize (H _ Hsn). cbn [fst snd] in H. rewrite Ec in H.
    unfold tbl. rewrite N2Nat.id. destruct (emap_get m j) as [[nd c0]|]; [|discriminate]. apply N.leb_le in H.
    exists (N.to_nat c0). split; [reflexivity|]. cbn [snd].
    pose proof (f_cf_monotone cf (N.to_nat (wt cf x)) ts ks Hle). lia.
  - exists []. split; [reflexivity|constructor].
  - intros c k cs ks _ (k0 & Ek & Hle) _ (ts & Hcc & HF). exists (k0 :: ts). split; [|constructor; assumption].
    cbn [Knuth.child_costs]. rewrite Ek, Hcc. reflexivity.
Qed.

Theorem table_okb_sound : forall s cf m, table_okb s cf m = true ->
  (forall c k, tbl m c = Some k ->
     Knuth.derivable (f_cf cf) (agraph cf s) c k /\
     (forall k', Knuth.derivable (f_cf cf) (agraph cf s) c k' -> (k <= k')%nat)) /\
  (forall c, tbl m c = None -> forall k, ~ Knuth.derivable (f_cf cf) (agraph cf s) c k).
Proof.
  intros s cf m H. unfold table_okb in H. apply andb_true_iff in H. destruct H as [H1 H2].
  assert (Hs : Knuth.sound (f_cf cf) (agraph cf s) (tbl m)).
  { apply (entries_okb_sound s cf m []); [intros c k Hc; discriminate|assumption]. }
  pose proof (bellman_okb_min _ _ _ H2) as Hb. split.
  - intros c k Hc. split; [apply Hs; assumption|]. intros k' Hd. destruct (Hb _ _ Hd) as (k0 & E & Hle).
    rewrite Hc in E. inversion E; subst. assumption.
  - intros c Hc k Hd. destruct (Hb _ _ Hd) as (k0 & E & _). rewrite Hc in E. discriminate.
Qed.

(* hence a checked table IS the table of the abstract algorithm *)
Corollary table_okb_eq_lazy_run : forall s cf m, table_okb s cf m = true ->
  forall prune pop, LazyQueue.min_pop pop ->
  forall c, tbl m c = LazyQueue.lazy_run (f_cf cf) prune pop (agraph cf s) c.
Proof.
  intros s cf m H prune pop Hpop. apply (LazyQueue.characterised_unique (f_cf cf) (agraph cf s)).
  - exact (table_okb_sound s cf m H).
  - apply (LazyQueue.lazy_min_ranged (f_cf cf) (fun k => (k <= Mx)%nat) (f_cf_monotone cf) (f_cf_good cf)
             (f_cf_superior cf) prune pop Hpop (agraph cf s) (LazyQueue.lazy_fuel (agraph cf s))); [apply le_n|reflexivity].
Qed.

(* ------------------------------------------------------------------ *)
(* 11. the checkers, by computation, on the states after EVERY operation of hand-written histories
       (symmetric classes, redundant slots, binders, self-referential and mutually recursive classes):
       `usages_okb` (the hypothesis of the bridge), `kids_liveb`, and `table_okb` on the table of
       `extractor_new` for the three cost functions and both tie-breaks *)

Definition tables_okb (s : egraph) : bool :=
  forallb (fun cf => forallb (fun last => match extractor_new last cf s with
                                          | Ok (m, _) => table_okb s cf m
                                          | Err _ => false
                                          end) [false; true]) [0%nat; 1%nat; 2%nat].

Fixpoint run_xchk (terms : list rterm) (ops : list hop) (hs : list appid) (s : egraph) : bool :=
  match ops with
  | [] => true
  | o :: t =>
    let r := match o with
      | HAdd k => match nth_opt terms k with None => Err OutOfBounds
                  | Some tm => match add_expr tm s with Ok (a, s') => Ok (hs ++ [a], s') | Err e => Err e end end
      | HUnion i j _ => match nth_opt hs i, nth_opt hs j with
                  | Some a, Some b => match eg_union a b s with Ok (_, s') => Ok (hs, s') | Err e => Err e end
                  | _, _ => Err OutOfBounds end
      end in
    match r with
    | Err e => false
    | Ok (hs', s') => usages_okb s' && kids_liveb s' && tables_okb s' && run_xchk terms t hs' s'
    end
  end.

(* 7: f(x,y) = f(x,z) (a redundant slot);  8: c = u(c) = u(u(c)) (a class that contains itself);
   9: c = g(f(c)) (two mutually recursive classes) and a second constant;
   10: a symmetric lambda body and its uses *)
Definition xT7 := [xs2 2 2 6; xs2 2 2 10; xun 3 (xs2 2 2 6); xbin 4 (xs2 2 2 6) (xs2 2 6 10)].
Definition xO7 := [HAdd 0; HAdd 1; HAdd 2; HAdd 3; xU 0 1; HAdd 2; HAdd 3].
Definition xT8 := [xc0 5; xun 6 (xc0 5); xun 6 (xun 6 (xc0 5)); xbin 4 (xc0 5) (xun 6 (xc0 5))].
Definition xO8 := [HAdd 0; HAdd 1; HAdd 3; xU 0 1; HAdd 2; HAdd 3].
Definition xT9 := [xc0 5; xun 6 (xc0 5); xun 7 (xun 6 (xc0 5)); xc0 8; xbin 4 (xc0 8) (xun 6 (xc0 5))].
Definition xO9 := [HAdd 0; HAdd 1; HAdd 2; HAdd 3; HAdd 4; xU 0 2; HAdd 4; xU 3 4; HAdd 1].
Definition xT10 := [xlam 2 (xlam 6 (xs2 2 2 6)); xlam 2 (xlam 6 (xs2 2 6 2)); xun 3 (xlam 2 (xlam 6 (xs2 2 2 6)));
                    xs2 2 2 6; xs2 2 6 2; xbin 4 (xs2 2 2 6) (xlam 6 (xs2 2 2 6))].
Definition xO10 := [HAdd 0; HAdd 1; HAdd 2; HAdd 5; xU 0 1; HAdd 3; HAdd 4; xU 4 5; HAdd 2; HAdd 5].

Definition x_all := [(xT1, xO1); (xT2, xO2); (xT3, xO3); (xT4, xO4); (xT5, xO5); (xT6, xO6);
                     (xT7, xO7); (xT8, xO8); (xT9, xO9); (xT10, xO10)].

Example x_histories_extract_checked :
  map (fun p => run_xchk (fst p) (snd p) [] empty_egraph) x_all = map (fun _ => true) x_all.
Proof. vm_compute. reflexivity. Qed.

Example x_more_states_checked :
  map (fun s => usages_okb s && kids_liveb s && tables_okb s) [empty_egraph; ix_state; ix_state2; ix_state3]
  = [true; true; true; true].
Proof. vm_compute. reflexivity. Qed.

(* the number of stored nodes / tabled classes (AstSize, first tie-break) in the final states *)
Definition st_of (terms : list rterm) (ops : list hop) : egraph :=
  match run_ops terms ops [] empty_egraph with Ok (_, s) => s | Err _ => empty_egraph end.
Definition x_sizes := map (fun p => let s := st_of (fst p) (snd p) in
                            (List.length (ids s), List.length (snodes s),
                             match extractor_new false 0 s with Ok (m, _) => map (fun e => (fst e, snd (snd e))) m | Err _ => [] end)) x_all.
Eval vm_compute in x_sizes.


(* ------------------------------------------------------------------ *)
(* 12. `extract` returns a term whose `cost_rec` is the tabled cost.
       Executable premise on (state, table): every entry's cost is the cost of its node under the
       table, and the child ids of its node are live classes (so `find` keeps them). *)

Definition alive_id (s : egraph) (i : N) : bool := match is_alive s i with Ok b => b | Err _ => false end.

Definition extract_okb (s : egraph) (cf : nat) (m : emap) : bool :=
  forallb (fun e => res_N_eqb (cost cf (fst (snd e)) (emap_cost m)) (snd (snd e))
                    && forallb (alive_id s) (kids (fst (snd e)))) m.

Lemma emap_get_in : forall m i v, emap_get m i = Some v -> In (i, v) m.
Proof.
  induction m as [|[k v0] t IH]; intros i v H; cbn [emap_get] in H; [discriminate|].
  destruct (k =? i) eqn:E; [apply N.eqb_eq in E; inversion H; subst; left; reflexivity|right; apply IH; assumption].
Qed.

Lemma find_alive : forall s a a', alive_id s (aid a) = true -> find_applied_id s a = Ok a' -> aid a' = aid a.
Proof.
  intros s a a' Ha H. unfold alive_id, is_alive in Ha. unfold find_applied_id, unionfind_get in H.
  cbn [uf_get_go] in H. destruct (nth_opt (unionfind s) (N.to_nat (aid a))) as [e|]; [|discriminate Ha].
  cbn beta iota in Ha. rewrite Ha in H. cbn [bind] in H. inversion H; subst a'. cbn [aid].
  apply N.eqb_eq in Ha. assumption.
Qed.

Lemma cost_go_seq : forall cf c1 c2 l1 l2,
  map (fun a => c1 (aid a)) l1 = map (fun a => c2 (aid a)) l2 ->
  forall acc, cost_go cf c1 l1 acc = cost_go cf c2 l2 acc.
Proof.
  intros cf c1 c2. induction l1 as [|x t IH]; intros [|y r] H acc; cbn [map] in H; try discriminate; [reflexivity|].
  inversion H as [[H1 H2]]. rewrite !cost_go_cons, H1. destruct (c2 (aid y)); cbn [bind]; [apply IH; assumption|reflexivity].
Qed.

Lemma mapr_map_ok : forall A C (g : A -> res C) l cs, mapr g l = Ok cs -> map g l = map Ok cs.
Proof.
  intros A C g. induction l as [|x t IH]; intros cs H; cbn [mapr map] in *; [inversion H; reflexivity|].
  destruct (g x) as [y|e]; cbn [bind] in H; [|discriminate].
  destruct (mapr g t) as [r|e]; cbn [bind] in H; [|discriminate]. inversion H; subst. cbn [map]. rewrite (IH r eq_refl). reflexivity.
Qed.

Lemma seq_nth_opt : forall A (cs : list A), map (nth_opt cs) (seq 0 (List.length cs)) = map Some cs.
Proof.
  intros A. induction cs as [|c r IH]; [reflexivity|]. cbn [List.length seq map nth_opt]. f_equal.
  rewrite <- seq_shift, map_map. cbn [nth_opt]. exact IH.
Qed.

Lemma cost_rec_unfold : forall cf n ch, cost_rec cf (RT n ch) =
  do cs <- mapr (cost_rec cf) ch;
  cost cf (set_apps n (map (fun i => {| aid := N.of_nat i; am := [] |}) (seq 0 (List.length (app_occ n)))))
       (fun i => match nth_opt cs (N.to_nat i) with Some c => Ok c | None => Err OutOfBounds end).
Proof.
  intros cf n ch. cbn [cost_rec].
  match goal with |- bind (?F ch) _ = _ => assert (HF : forall l, F l = mapr (cost_rec cf) l) end.
  { induction l as [|c r IH]; [reflexivity|]. cbn [mapr]. rewrite <- IH. reflexivity. }
  rewrite HF. reflexivity.
Qed.

Section ExtractCost.
  Variable s : egraph.
  Variable cf : nat.
  Variable m : emap.
  Hypothesis Hok : extract_okb s cf m = true.

  Lemma extract_cost : forall fuel i s1 t s1', ctr_only s s1 -> extract fuel m i s1 = Ok (t, s1') ->
    ctr_only s s1' /\
    exists i' nd c, find_applied_id s i = Ok i' /\ emap_get m (aid i') = Some (nd, c) /\ cost_rec cf t = Ok c.
  Proof.
    induction fuel as [|fu IH]; intros i s1 t s1' HC H; cbn [extract] in H; [discriminate|].
    apply mbind_inv in H. destruct H as (i' & s2 & Hf & H). apply reads_inv in Hf. destruct Hf as [Hf ->].
    assert (Hf' : find_applied_id s i = Ok i') by (destruct HC as [c0 ->]; exact Hf).
    destruct (emap_get m (aid i')) as [[n c0]|] eqn:G; [|discriminate].
    cbn beta iota in H. apply mbind_inv in H. destruct H as (l & s3 & Hl & H).
    pose proof (with_ctr_only _ _ _ _ _ Hl) as HC3. unfold with_ctr in Hl.
    pose proof (asf_kids false (am i') n (ctr s1)) as [K1 K2].
    destruct (apply_slotmap_fresh false (am i') n (ctr s1)) as [l0 c1]. inversion Hl; subst. cbn [fst] in K1, K2. clear Hl.
    apply mbind_inv in H. destruct H as (ch & s4 & Hm & H). apply ret_inv in H. destruct H as [-> ->].
    unfold extract_okb in Hok. rewrite forallb_forall in Hok. pose proof (Hok _ (emap_get_in _ _ _ G)) as Hn.
    cbn [fst snd] in Hn. apply andb_true_iff in Hn. destruct Hn as [Hc Hal]. rewrite forallb_forall in Hal.
    unfold res_N_eqb in Hc. destruct (cost cf n (emap_cost m)) as [c0'|e] eqn:Ec; [|discriminate]. apply N.eqb_eq in Hc. subst c0'.
    pose (Q := fun (a : appid) (t0 : rterm) => exists c, emap_cost m (aid a) = Ok c /\ cost_rec cf t0 = Ok c).
    apply (mapM_inv _ _ (ctr_only s) Q) in Hm; [| |eapply ctr_only_trans; eassumption]; subst Q.
    - destruct Hm as [HC4 HF]. split; [assumption|]. exists i', n, c0. split; [assumption|]. split; [exact G|].
      assert (Hcs : exists cs, mapr (cost_rec cf) ch = Ok cs /\ mapr (emap_cost m) (map aid (app_occ l)) = Ok cs).
      { clear -HF. induction HF as [|a t0 la lt (c & E1 & E2) _ (cs & I1 & I2)]; [exists []; split; reflexivity|].
        exists (c :: cs). cbn [mapr map]. rewrite E1, E2, I1, I2. split; reflexivity. }
      destruct Hcs as (cs & Hcs1 & Hcs2). rewrite cost_rec_unfold, Hcs1. cbn [bind].
      assert (Hlen : List.length cs = List.length (app_occ l)).
      { apply mapr_map_ok in Hcs2. apply (f_equal (@List.length _)) in Hcs2. rewrite !map_length in Hcs2. symmetry. assumption. }
      rewrite cost_unfold. rewrite app_occ_set_apps by (rewrite map_length, seq_length; reflexivity).
      assert (Hw : wt cf (set_apps l (map (fun i0 => {| aid := N.of_nat i0; am := [] |}) (seq 0 (List.length (app_occ l))))) = wt cf n).
      { unfold wt, op_weight. cbn [set_apps nvar]. rewrite K2. reflexivity. }
      rewrite Hw. rewrite cost_unfold in Ec. rewrite <- Ec. apply cost_go_seq.
      rewrite map_map. cbn [aid]. rewrite <- Hlen.
      transitivity (map (fun o : option N => match o with Some c => Ok c | None => Err OutOfBounds end) (map (nth_opt cs) (seq 0 (List.length cs)))).
      { rewrite map_map. apply map_ext. intros a. rewrite Nat2N.id. reflexivity. }
      rewrite seq_nth_opt, map_map.
      assert (Hk : map aid (app_occ n) = map aid (app_occ l)) by (symmetry; exact K1).
      rewrite <- (map_map aid (emap_cost m) (app_occ n)), Hk. apply mapr_map_ok in Hcs2. rewrite Hcs2. reflexivity.
    - intros a sa t0 sb Ha HCa He. destruct (IH _ _ _ _ HCa He) as (HCb & a' & nd & c & Fa & Ga & Ca).
      split; [assumption|]. exists c. split; [|assumption].
      assert (Hal' : alive_id s (aid a) = true).
      { apply Hal. rewrite <- K1. unfold kids. apply in_map. assumption. }
      rewrite <- (find_alive _ _ _ Hal' Fa). unfold emap_cost. rewrite Ga. reflexivity.
  Qed.
End ExtractCost.

(* with `get_best_cost` *)
Theorem extract_cost_rec : forall s cf m, extract_okb s cf m = true ->
  forall fuel i t s', extract fuel m i s = Ok (t, s') ->
  exists i', find_applied_id s i = Ok i' /\ cost_rec cf t = get_best_cost m i' /\
             exists c, get_best_cost m i' = Ok c.
Proof.
  intros s cf m H fuel i t s' He.
  destruct (extract_cost s cf m H fuel i s t s' (ctr_only_refl s) He) as (_ & i' & nd & c & F & G & C).
  exists i'. split; [assumption|]. unfold get_best_cost, emap_cost. rewrite G, C. split; [reflexivity|exists c; reflexivity].
Qed.

(* the extracted term is a cheapest term of its class: its `cost_rec` is the minimum derivation cost *)
Theorem extract_cheapest_checked : forall s cf m, table_okb s cf m = true -> extract_okb s cf m = true ->
  forall fuel i t s', extract fuel m i s = Ok (t, s') ->
  exists i' k, find_applied_id s i = Ok i' /\ cost_rec cf t = Ok k /\ get_best_cost m i' = Ok k /\
    Knuth.derivable (f_cf cf) (agraph cf s) (N.to_nat (aid i')) (N.to_nat k) /\
    (forall k', Knuth.derivable (f_cf cf) (agraph cf s) (N.to_nat (aid i')) k' -> (N.to_nat k <= k')%nat).
Proof.
  intros s cf m HT HE fuel i t s' H.
  destruct (extract_cost s cf m HE fuel i s t s' (ctr_only_refl s) H) as (_ & i' & nd & c & F & G & C).
  exists i', c. split; [assumption|]. split; [assumption|]. split; [unfold get_best_cost, emap_cost; rewrite G; reflexivity|].
  apply (proj1 (table_okb_sound s cf m HT)). unfold tbl. rewrite N2Nat.id, G. reflexivity.
Qed.

Theorem extract_cheapest : forall s cf, usages_ok s -> nf_ok s ->
  forall last m s0, extractor_new last cf s = Ok (m, s0) -> extract_okb s cf m = true ->
  forall fuel i t s', extract fuel m i s = Ok (t, s') ->
  exists i' k, find_applied_id s i = Ok i' /\ cost_rec cf t = Ok k /\ get_best_cost m i' = Ok k /\
    Knuth.derivable (f_cf cf) (agraph cf s) (N.to_nat (aid i')) (N.to_nat k) /\
    (forall k', Knuth.derivable (f_cf cf) (agraph cf s) (N.to_nat (aid i')) k' -> (N.to_nat k <= k')%nat).
Proof.
  intros s cf [HA1 HA2] Hnf last m s0 HN HE fuel i t s' H.
  destruct (extract_cost s cf m HE fuel i s t s' (ctr_only_refl s) H) as (_ & i' & nd & c & F & G & C).
  exists i', c. split; [assumption|]. split; [assumption|]. split; [unfold get_best_cost, emap_cost; rewrite G; reflexivity|].
  apply (proj1 (extractor_new_characterised s cf HA1 HA2 Hnf last m s0 HN)). unfold tbl. rewrite N2Nat.id, G. reflexivity.
Qed.

(* `extract_okb` on the tables of `extractor_new`, after every operation of the histories *)
Definition extracts_okb (s : egraph) : bool :=
  forallb (fun cf => forallb (fun last => match extractor_new last cf s with
                                          | Ok (m, _) => extract_okb s cf m
                                          | Err _ => false
                                          end) [false; true]) [0%nat; 1%nat; 2%nat].
Fixpoint run_echk (terms : list rterm) (ops : list hop) (hs : list appid) (s : egraph) : bool :=
  match ops with
  | [] => true
  | o :: t =>
    let r := match o with
      | HAdd k => match nth_opt terms k with None => Err OutOfBounds
                  | Some tm => match add_expr tm s with Ok (a, s') => Ok (hs ++ [a], s') | Err e => Err e end end
      | HUnion i j _ => match nth_opt hs i, nth_opt hs j with
                  | Some a, Some b => match eg_union a b s with Ok (_, s') => Ok (hs, s') | Err e => Err e end
                  | _, _ => Err OutOfBounds end
      end in
    match r with
    | Err e => false
    | Ok (hs', s') => extracts_okb s' && run_echk terms t hs' s'
    end
  end.
Example x_histories_extract_okb :
  map (fun p => run_echk (fst p) (snd p) [] empty_egraph) x_all = map (fun _ => true) x_all.
Proof. vm_compute. reflexivity. Qed.

Print Assumptions extractor_new_characterised.
Print Assumptions extractor_new_eq_lazy_run.
Print Assumptions extractor_new_costs.
Print Assumptions extractor_new_tie_break.
Print Assumptions usages_okb_sound.
Print Assumptions table_okb_sound.
Print Assumptions table_okb_eq_lazy_run.
Print Assumptions extract_cost_rec.
Print Assumptions extract_cheapest_checked.
Print Assumptions extract_cheapest.
Print Assumptions x_histories_extract_okb.
Print Assumptions x_histories_extract_checked.
