(* Extract/ExtractorReach.v — C06 FOR EVERY REACHABLE STATE: the two state premises of the bridge theorem of
   Extract/ExtractorFacts.v are discharged from the reachable-state invariants, and the bridge is composed with
   Extract/LazyQueue.v / Extract/Knuth.v.

   Files this one sits on (all new, all closed under the global context):
     EGraph/UsesConvDef.v, EGraph/UsesConv.v   `uses_conv` (every usages entry is a hashcons key and mentions the class;
                                               the converse of `tb_use`), reachable with no premise: `uses_conv_reachable`
     Extract/UsagesOk.v                        match_inv s -> stored2 s -> uses_conv s -> usages_ok s
     Extract/ExtractorBridgeUp.v               the bridge re-proved under `nf_ok_up` (the counter of the threaded state only
                                               moves UP: `cup`), `nf_ok_false_on_reachable`
     Extract/NfOk.v                            match_inv s -> ss_ok s -> normal-form stability for every counter >= ctr s

   1. `usages_ok_reachable`: the premise `usages_ok s` (= lookup_ok /\ usages_sets_ok, AS STATED in ExtractorFacts.v)
      holds in every state of a run.
   2. `nf_ok s` AS STATED in ExtractorFacts.v is FALSE on a reachable state (`nf_ok_false_on_reachable`,
      ExtractorBridgeUp.v): it quantifies over ALL counters of the threaded state, also counters below `ctr s`, and from
      such a counter `refresh_internals` draws a "fresh" name that is a slot of the class (history xT2/xO2, counter 29:
      the fresh binder captures a free slot and the normal form is looked up to another class).  The extractor only ever
      moves the counter up, and the bridge only needs `nf_ok_up s` (counters >= ctr s): `nf_ok_up_reachable`.
   3. `extractor_is_lazy_queue_reachable`, `extractor_table_is_minimum_reachable`, `extractor_costs_reachable`,
      `extractor_tie_break_reachable`: no premise on the state.
   4. `extract`: Extract/ExtractOkb.v (`extract_okb_inv`: the executable premise of `extract_cost_rec` holds for the table
      of `extractor_new` in every such state; `extract_cheapest_reachable`: the extracted term costs the table value of
      its class, which is the minimum derivation cost).  Membership of the extracted term (`lookup_rec_expr` hits the
      class with an invocation equal to the query) is NOT proved: executable `extract_reprb` (Extract/ExtractRepr.v),
      true after every operation of 16 histories. *)
From SE Require Extract.Knuth Extract.LazyQueue.
From SE Require Import EGraph.Model EGraph.ModelMachine EGraph.ModelFacts EGraph.InvariantFacts EGraph.AddCoversFacts
  EGraph.HashconsFacts EGraph.CongruenceFacts EGraph.SelfSymFacts EGraph.MatchReprFacts EGraph.StoredLive
  EGraph.KidsFacts EGraph.SoundAddExpr EGraph.UsesConvDef EGraph.UsesConv EGraph.SoundStruct
  Extract.Extractor Extract.ExtractorFacts Extract.ExtractorBridgeUp Extract.UsagesOk Extract.NfOk.
Require Import ZArith Lia List.
Import ListNotations.

(* ------------------------------------------------------------------ *)
(* 1. the premises of the bridge, for invariants and for runs *)

(* the invariants of a reachable state that the extractor theorems use *)
Record extract_inv (s : egraph) : Prop := {
  xi_match : match_inv s;          (* inv3, kids_ok, m4, hc_ok, pending = [], stored_live *)
  xi_ss : ss_ok s;                 (* self-symmetry completeness *)
  xi_st2 : stored2 s;              (* stored bijections are defined on the public slots of their shape *)
  xi_uc : uses_conv s }.           (* usages entries are hashcons keys that mention the class *)

Theorem extract_inv_reachable : forall terms ops hs s,
  ops_pre terms ops [] empty_egraph -> Forall (fun t => rt_wf t /\ rt_pre 1 t) terms ->
  run_ops terms ops [] empty_egraph = Ok (hs, s) -> extract_inv s.
Proof.
  intros terms ops hs s OP HT H. constructor.
  - exact (match_inv_reachable _ _ _ _ OP HT H).
  - exact (reachable_ss_ok _ _ _ _ OP H).
  - exact (reachable_stored2 _ _ _ _ H).
  - exact (uses_conv_reachable _ _ _ _ H).
Qed.

Theorem usages_ok_inv' : forall s, extract_inv s -> usages_ok s.
Proof. intros s [MI _ S2 UC]. exact (usages_ok_inv s MI S2 UC). Qed.

Theorem nf_ok_up_inv : forall s, extract_inv s -> nf_ok_up s.
Proof.
  intros s [MI SS _ _] s1 j x x' s1' (c & Lc & ->) Hin H.
  exact (nf_ok_ge s MI SS c j x x' s1' Lc Hin H).
Qed.

Theorem usages_ok_reachable : forall terms ops hs s,
  ops_pre terms ops [] empty_egraph -> Forall (fun t => rt_wf t /\ rt_pre 1 t) terms ->
  run_ops terms ops [] empty_egraph = Ok (hs, s) -> usages_ok s.
Proof. intros terms ops hs s OP HT H. exact (usages_ok_inv' s (extract_inv_reachable _ _ _ _ OP HT H)). Qed.

Theorem nf_ok_up_reachable : forall terms ops hs s,
  ops_pre terms ops [] empty_egraph -> Forall (fun t => rt_wf t /\ rt_pre 1 t) terms ->
  run_ops terms ops [] empty_egraph = Ok (hs, s) -> nf_ok_up s.
Proof. intros terms ops hs s OP HT H. exact (nf_ok_up_inv s (extract_inv_reachable _ _ _ _ OP HT H)). Qed.

(* ------------------------------------------------------------------ *)
(* 2. the bridge with no premise on the state, composed with LazyQueue / Knuth *)

Theorem extractor_is_lazy_queue_inv : forall s cf, extract_inv s ->
  forall last m s', extractor_new last cf s = Ok (m, s') ->
  forall c, tbl m c = LazyQueue.lazy_run (f_cf cf) true (LazyQueue.pop_tb last) (agraph cf s) c.
Proof. intros s cf XI. exact (extractor_new_eq_lazy_run_up s cf (usages_ok_inv' s XI) (nf_ok_up_inv s XI)). Qed.

Theorem extractor_table_is_minimum_inv : forall s cf, extract_inv s ->
  forall last m s', extractor_new last cf s = Ok (m, s') ->
  (forall c k, tbl m c = Some k ->
     Knuth.derivable (f_cf cf) (agraph cf s) c k /\ (forall k', Knuth.derivable (f_cf cf) (agraph cf s) c k' -> (k <= k')%nat)) /\
  (forall c, tbl m c = None -> forall k, ~ Knuth.derivable (f_cf cf) (agraph cf s) c k).
Proof.
  intros s cf XI. destruct (usages_ok_inv' s XI) as [HA1 HA2].
  exact (extractor_new_characterised_up s cf HA1 HA2 (nf_ok_up_inv s XI)).
Qed.

Section Reach.
  Variables (terms : list rterm) (ops : list hop) (hs : list appid) (s : egraph).
  Hypothesis OP : ops_pre terms ops [] empty_egraph.
  Hypothesis HT : Forall (fun t => rt_wf t /\ rt_pre 1 t) terms.
  Hypothesis HR : run_ops terms ops [] empty_egraph = Ok (hs, s).

  Theorem extractor_is_lazy_queue_reachable : forall cf last m s', extractor_new last cf s = Ok (m, s') ->
    forall c, tbl m c = LazyQueue.lazy_run (f_cf cf) true (LazyQueue.pop_tb last) (agraph cf s) c.
  Proof. intros cf. exact (extractor_is_lazy_queue_inv s cf (extract_inv_reachable _ _ _ _ OP HT HR)). Qed.

  (* the table of the concrete extractor holds exactly the minimum derivation cost of every class that has a
     derivation in the and-or graph of the state, and nothing else (cf = 0 AstSize, 1 depth-weighted, 2 per-operator
     weights, u64-saturating) *)
  Theorem extractor_table_is_minimum_reachable : forall cf last m s', extractor_new last cf s = Ok (m, s') ->
    (forall c k, tbl m c = Some k ->
       Knuth.derivable (f_cf cf) (agraph cf s) c k /\ (forall k', Knuth.derivable (f_cf cf) (agraph cf s) c k' -> (k <= k')%nat)) /\
    (forall c, tbl m c = None -> forall k, ~ Knuth.derivable (f_cf cf) (agraph cf s) c k).
  Proof. intros cf. exact (extractor_table_is_minimum_inv s cf (extract_inv_reachable _ _ _ _ OP HT HR)). Qed.

  (* over the class ids and costs of the model *)
  Theorem extractor_costs_reachable : forall cf last m s', extractor_new last cf s = Ok (m, s') ->
    forall i : N, option_map snd (emap_get m i) =
                  option_map N.of_nat (LazyQueue.lazy_run (f_cf cf) true (LazyQueue.pop_tb last) (agraph cf s) (N.to_nat i)).
  Proof.
    intros cf. pose proof (extract_inv_reachable _ _ _ _ OP HT HR) as XI.
    exact (extractor_new_costs_up s cf (usages_ok_inv' s XI) (nf_ok_up_inv s XI)).
  Qed.

  Theorem extractor_tie_break_reachable : forall cf m1 s1 m2 s2,
    extractor_new false cf s = Ok (m1, s1) -> extractor_new true cf s = Ok (m2, s2) ->
    forall i : N, option_map snd (emap_get m1 i) = option_map snd (emap_get m2 i).
  Proof.
    intros cf. pose proof (extract_inv_reachable _ _ _ _ OP HT HR) as XI.
    exact (extractor_new_tie_break_up s cf (usages_ok_inv' s XI) (nf_ok_up_inv s XI)).
  Qed.

  (* the best cost of a live class = the minimum over all derivations: in terms of get_best_cost *)
  Theorem best_cost_is_minimum_reachable : forall cf last m s' (i : appid) k, extractor_new last cf s = Ok (m, s') ->
    get_best_cost m i = Ok k ->
    Knuth.derivable (f_cf cf) (agraph cf s) (N.to_nat (aid i)) (N.to_nat k) /\
    (forall k', Knuth.derivable (f_cf cf) (agraph cf s) (N.to_nat (aid i)) k' -> (N.to_nat k <= k')%nat).
  Proof.
    intros cf last m s' i k HN HB.
    apply (proj1 (extractor_table_is_minimum_reachable cf last m s' HN)).
    unfold get_best_cost, emap_cost in HB. unfold tbl. rewrite N2Nat.id.
    destruct (emap_get m (aid i)) as [[nd c]|]; [|discriminate]. inversion HB. reflexivity.
  Qed.
End Reach.

Print Assumptions extract_inv_reachable.
Print Assumptions usages_ok_reachable.
Print Assumptions nf_ok_up_reachable.
Print Assumptions extractor_is_lazy_queue_reachable.
Print Assumptions extractor_table_is_minimum_reachable.
Print Assumptions extractor_costs_reachable.
Print Assumptions extractor_tie_break_reachable.
Print Assumptions best_cost_is_minimum_reachable.
