(* Extract/Knuth.v — Knuth's generalisation of Dijkstra's algorithm ("A generalization of Dijkstra's
   algorithm", 1977), abstractly, and its correctness: the table built by the algorithm of
   `Extractor::new` (/repo/src/extract/mod.rs) holds exactly the minimum derivation cost of every class
   that has a finite derivation, and nothing else — whatever the order among equal costs.

   Independent of the e-graph model (only the Coq standard library).

   Setting.  Classes are natural numbers.  A node is (class it belongs to, child classes, label w).
   The cost of a derivation tree with root node (c, chs, w) whose children cost ks is `f w ks`, where f
   is any SUPERIOR function:
       monotone   Forall2 le ks ks' -> f w ks <= f w ks'
       superior   In k ks -> k <= f w ks            (non-strict suffices for minimality; only needed
                                                     for k in the range of the costs)
   The additive shape  f w ks = w + sum ks  (AstSize: w = 1; the per-operator weights of the harness)
   and the depth-weighted shape  f w ks = w + sum (2 * k)  are instances (end of the file); so are
   their u64-saturating versions min (..) M (`knuth_min_saturating`).

   Algorithm.  table : nat -> option nat, initially empty.  Repeatedly: among all nodes whose children
   are all in the table and whose class is NOT yet in the table, compute the candidate cost
   f w (tabled costs of the children); pick a candidate of minimal cost (`run`: the FIRST minimal one in
   list order; `run_with pick`: any choice function returning a minimal candidate); set
   table(class) := cost.  Stop when there is no candidate.  `Extractor::new` is this
   algorithm with a lazy priority queue: an entry is pushed when the last child class of the node is
   tabled (its cost is computed from tabled costs, which never change afterwards), entries whose class
   has been tabled meanwhile are skipped at pop time; hence every pop that is not skipped is a minimal
   candidate in the above sense.

   No axioms, no Admitted. *)
Require Import Arith Lia List.
Import ListNotations.

Definition node := (nat * list nat * nat)%type.
Definition table := nat -> option nat.

Section Knuth.
  Variable f : nat -> list nat -> nat.
  Hypothesis f_mono : forall w ks ks', Forall2 le ks ks' -> f w ks <= f w ks'.
  (* `good` = the range of the costs: superiority is only needed for child costs that are costs
     themselves (True for unbounded costs, `<= M` for costs saturating at M) *)
  Variable good : nat -> Prop.
  Hypothesis f_good : forall w ks, good (f w ks).
  Hypothesis f_sup : forall w ks k, In k ks -> good k -> k <= f w ks.

  Variable nodes : list node.

  (* class c has a finite derivation tree of cost k *)
  Inductive derivable : nat -> nat -> Prop :=
  | der : forall c chs w ks,
      In (c, chs, w) nodes -> derivables chs ks -> derivable c (f w ks)
  with derivables : list nat -> list nat -> Prop :=
  | ders_nil : derivables [] []
  | ders_cons : forall c k cs ks,
      derivable c k -> derivables cs ks -> derivables (c :: cs) (k :: ks).

  Scheme derivable_mut := Induction for derivable Sort Prop
    with derivables_mut := Induction for derivables Sort Prop.
  Combined Scheme derivable_mutind from derivable_mut, derivables_mut.

  Lemma derivable_good : forall c k, derivable c k -> good k.
  Proof. destruct 1. apply f_good. Qed.
  Lemma derivables_good : forall chs ks, derivables chs ks -> forall k, In k ks -> good k.
  Proof.
    induction 1; simpl; intros k0 H1; [contradiction|].
    destruct H1 as [<-|H1]; eauto using derivable_good.
  Qed.

  (* ---------------------------------------------------------------- *)
  (* the algorithm *)

  Definition upd (t : table) (c k : nat) : table :=
    fun x => if x =? c then Some k else t x.

  Fixpoint child_costs (t : table) (chs : list nat) : option (list nat) :=
    match chs with
    | [] => Some []
    | c :: r =>
        match t c, child_costs t r with
        | Some k, Some ks => Some (k :: ks)
        | _, _ => None
        end
    end.

  (* the candidate (class, cost) of a node: its class is not tabled, all its children are *)
  Definition cand (t : table) (nd : node) : option (nat * nat) :=
    let '(c, chs, w) := nd in
    match t c with
    | Some _ => None
    | None =>
        match child_costs t chs with
        | Some ks => Some (c, f w ks)
        | None => None
        end
    end.

  (* the first candidate of minimal cost, in list order *)
  Fixpoint best (t : table) (l : list node) : option (nat * nat) :=
    match l with
    | [] => None
    | nd :: r =>
        match cand t nd, best t r with
        | Some (c, k), Some (c', k') => if k <=? k' then Some (c, k) else Some (c', k')
        | Some x, None => Some x
        | None, y => y
        end
    end.

  (* (c, k) is a candidate of the table t *)
  Definition candidate (t : table) (c k : nat) : Prop :=
    exists nd, In nd nodes /\ cand t nd = Some (c, k).

  (* a tie-break: any function that returns a candidate of minimal cost when there is a candidate *)
  Definition min_choice (pick : table -> option (nat * nat)) : Prop :=
    (forall t c k, pick t = Some (c, k) ->
       candidate t c k /\ (forall c' k', candidate t c' k' -> k <= k')) /\
    (forall t, pick t = None -> forall c k, ~ candidate t c k).

  Fixpoint run_go (pick : table -> option (nat * nat)) (fuel : nat) (t : table) : table :=
    match fuel with
    | O => t
    | S fu =>
        match pick t with
        | None => t
        | Some (c, k) => run_go pick fu (upd t c k)
        end
    end.

  (* n = number of classes; n + 1 rounds suffice *)
  Definition run_with (pick : table -> option (nat * nat)) (n : nat) : table :=
    run_go pick (S n) (fun _ => None).

  (* the deterministic algorithm: the first minimal candidate in list order *)
  Definition first_min (t : table) : option (nat * nat) := best t nodes.
  Definition run (n : nat) : table := run_with first_min n.

  (* ---------------------------------------------------------------- *)
  (* facts about `best` *)

  Lemma best_in : forall t l c k,
      best t l = Some (c, k) -> exists nd, In nd l /\ cand t nd = Some (c, k).
  Proof.
    induction l as [|nd r IH]; simpl; intros c k H; [discriminate|].
    destruct (cand t nd) as [[c1 k1]|] eqn:E1.
    - destruct (best t r) as [[c2 k2]|] eqn:E2.
      + destruct (k1 <=? k2).
        * inversion H; subst. exists nd; auto.
        * inversion H; subst. destruct (IH c k eq_refl) as [nd' [Hin Hc]]. exists nd'; auto.
      + inversion H; subst. exists nd; auto.
    - destruct (IH c k H) as [nd' [Hin Hc]]. exists nd'; auto.
  Qed.

  Lemma best_le : forall t l nd c k,
      In nd l -> cand t nd = Some (c, k) ->
      exists cm m, best t l = Some (cm, m) /\ m <= k.
  Proof.
    induction l as [|nd0 r IH]; simpl; intros nd c k Hin Hc; [contradiction|].
    destruct Hin as [->|Hin].
    - rewrite Hc. destruct (best t r) as [[c2 k2]|].
      + destruct (k <=? k2) eqn:E.
        * exists c, k; auto.
        * apply Nat.leb_gt in E. exists c2, k2; split; auto; lia.
      + exists c, k; auto.
    - destruct (IH nd c k Hin Hc) as [cm [m [Hb Hle]]]. rewrite Hb.
      destruct (cand t nd0) as [[c1 k1]|].
      + destruct (k1 <=? m) eqn:E.
        * apply Nat.leb_le in E. exists c1, k1; split; auto; lia.
        * exists cm, m; auto.
      + exists cm, m; auto.
  Qed.

  Lemma first_min_choice : min_choice first_min.
  Proof.
    unfold first_min; split.
    - intros t c k Hb. split.
      + destruct (best_in _ _ _ _ Hb) as [nd [Hin Hc]]. exists nd; auto.
      + intros c' k' [nd [Hin Hc]].
        destruct (best_le t nodes nd c' k' Hin Hc) as [cm [m [Hb' Hle]]].
        rewrite Hb in Hb'. inversion Hb'; subst. assumption.
    - intros t Hb c k [nd [Hin Hc]].
      destruct (best_le t nodes nd c k Hin Hc) as [cm [m [Hb' _]]].
      rewrite Hb in Hb'. discriminate.
  Qed.

  Lemma child_costs_derivables : forall t,
      (forall c k, t c = Some k -> derivable c k) ->
      forall chs ks, child_costs t chs = Some ks -> derivables chs ks.
  Proof.
    intros t H1; induction chs as [|c r IH]; simpl; intros ks H.
    - inversion H; constructor.
    - destruct (t c) as [k|] eqn:Ec; [|discriminate].
      destruct (child_costs t r) as [ks'|]; [|discriminate].
      inversion H; subst. constructor; auto.
  Qed.

  (* ---------------------------------------------------------------- *)
  (* the invariant: every tabled cost is derivable and is the minimum over all derivations *)

  Definition sound (t : table) : Prop := forall c k, t c = Some k -> derivable c k.
  Definition minimal (t : table) : Prop :=
    forall c k, t c = Some k -> forall k', derivable c k' -> k <= k'.

  (* Key lemma.  If the tabled costs are minima, every derivation of an untabled class costs at least
     the minimal candidate: descend into an untabled child as long as there is one (costs do not
     increase towards the leaves, `f_sup`); the node reached has all its children tabled, so it is a
     candidate, and its candidate cost is below its cost in the derivation (`f_mono`). *)
  Lemma key : forall t, minimal t ->
      (forall c k, derivable c k ->
         t c = None -> exists cm m, candidate t cm m /\ m <= k)
      /\
      (forall chs ks, derivables chs ks ->
         (exists ts, child_costs t chs = Some ts /\ Forall2 le ts ks)
         \/ (exists cm m k, candidate t cm m /\ In k ks /\ m <= k)).
  Proof.
    intros t Hmin. apply derivable_mutind.
    - (* der *)
      intros c chs w ks Hin Hds IH Hc.
      destruct IH as [[ts [Hcc Hle]]|[cm [m [k [Hb [Hk Hmk]]]]]].
      + assert (Hcand : cand t (c, chs, w) = Some (c, f w ts)).
        { unfold cand. rewrite Hc, Hcc. reflexivity. }
        exists c, (f w ts); split; [exists (c, chs, w); auto|].
        apply f_mono; assumption.
      + exists cm, m; split; auto.
        specialize (f_sup w ks k Hk (derivables_good _ _ Hds k Hk)). lia.
    - (* nil *)
      left. exists []; split; auto.
    - (* cons *)
      intros c k cs ks Hd IHd Hds IHds.
      destruct (t c) as [tc|] eqn:Ec.
      + destruct IHds as [[ts [Hcc Hle]]|[cm [m [k0 [Hb [Hk Hmk]]]]]].
        * left. exists (tc :: ts); split.
          -- simpl. rewrite Ec, Hcc. reflexivity.
          -- constructor; auto. eapply Hmin; eauto.
        * right. exists cm, m, k0; repeat split; auto. right; auto.
      + destruct (IHd eq_refl) as [cm [m [Hb Hm]]].
        right. exists cm, m, k; repeat split; auto. left; auto.
  Qed.

  Lemma candidate_class : forall t c k, candidate t c k ->
      t c = None /\ exists chs w ks, In (c, chs, w) nodes /\ child_costs t chs = Some ks /\ k = f w ks.
  Proof.
    intros t c k [[[c0 chs] w] [Hin Hc]]. unfold cand in Hc.
    destruct (t c0) eqn:Ec0; [discriminate|].
    destruct (child_costs t chs) as [ks|] eqn:Ecc; [|discriminate].
    inversion Hc; subst c0 k. split; auto. exists chs, w, ks; auto.
  Qed.

  Variable pick : table -> option (nat * nat).
  Hypothesis pick_ok : min_choice pick.

  Lemma step_inv : forall t c k,
      sound t -> minimal t -> pick t = Some (c, k) ->
      t c = None /\ sound (upd t c k) /\ minimal (upd t c k).
  Proof.
    intros t c k Hs Hm Hb.
    destruct (proj1 pick_ok t c k Hb) as [Hcand Hmin].
    destruct (candidate_class _ _ _ Hcand) as [Ec0 [chs [w [ks [Hin [Ecc ->]]]]]].
    split; [assumption|]. split.
    - intros x kx. unfold upd. destruct (x =? c) eqn:E.
      + apply Nat.eqb_eq in E; subst x. intro H; inversion H; subst.
        econstructor; eauto. eapply child_costs_derivables; eauto.
      + apply Hs.
    - intros x kx. unfold upd. destruct (x =? c) eqn:E.
      + apply Nat.eqb_eq in E; subst x. intro H; inversion H; subst. intros k' Hd.
        destruct (proj1 (key t Hm) _ _ Hd Ec0) as [cm [m [Hb' Hle]]].
        specialize (Hmin cm m Hb'). lia.
      + apply Hm.
  Qed.

  Lemma run_go_inv : forall fuel t,
      sound t -> minimal t -> sound (run_go pick fuel t) /\ minimal (run_go pick fuel t).
  Proof.
    induction fuel as [|fu IH]; simpl; intros t Hs Hm; [auto|].
    destruct (pick t) as [[c k]|] eqn:Hb; [|auto].
    destruct (step_inv t c k Hs Hm Hb) as [_ [Hs' Hm']]. apply IH; assumption.
  Qed.

  (* ---------------------------------------------------------------- *)
  (* termination within n + 1 rounds: every round tables a new class below n *)

  Fixpoint untabled (t : table) (n : nat) : nat :=
    match n with
    | O => 0
    | S m => (match t m with None => 1 | Some _ => 0 end) + untabled t m
    end.

  Lemma untabled_le : forall t n, untabled t n <= n.
  Proof. induction n; simpl; [lia|]. destruct (t n); lia. Qed.

  Lemma untabled_upd_ge : forall t c k n, n <= c -> untabled (upd t c k) n = untabled t n.
  Proof.
    induction n; simpl; intros H; [reflexivity|].
    unfold upd at 1. destruct (n =? c) eqn:E.
    - apply Nat.eqb_eq in E. lia.
    - rewrite IHn by lia. reflexivity.
  Qed.

  Lemma untabled_upd_lt : forall t c k n,
      c < n -> t c = None -> S (untabled (upd t c k) n) = untabled t n.
  Proof.
    induction n; simpl; intros H Hc; [lia|].
    unfold upd at 1. destruct (n =? c) eqn:E.
    - apply Nat.eqb_eq in E; subst n. rewrite Hc. rewrite untabled_upd_ge by lia. reflexivity.
    - apply Nat.eqb_neq in E. rewrite <- IHn by (auto; lia). destruct (t n); lia.
  Qed.

  Variable n : nat.
  Hypothesis classes_lt : forall c chs w, In (c, chs, w) nodes -> c < n.

  Lemma run_go_done : forall fuel t,
      sound t -> minimal t -> untabled t n < fuel -> pick (run_go pick fuel t) = None.
  Proof.
    induction fuel as [|fu IH]; simpl; intros t Hs Hm Hlt; [lia|].
    destruct (pick t) as [[c k]|] eqn:Hb; [|assumption].
    destruct (step_inv t c k Hs Hm Hb) as [Hc [Hs' Hm']].
    apply IH; auto.
    destruct (proj1 pick_ok t c k Hb) as [Hcand _].
    destruct (candidate_class _ _ _ Hcand) as [_ [chs [w [ks [Hin _]]]]].
    pose proof (classes_lt _ _ _ Hin) as Hcn.
    pose proof (untabled_upd_lt t c k n Hcn Hc). lia.
  Qed.

  Theorem knuth_min_section : forall tbl,
      run_with pick n = tbl ->
      (forall c k, tbl c = Some k ->
         derivable c k /\ (forall k', derivable c k' -> k <= k')) /\
      (forall c, tbl c = None -> forall k, ~ derivable c k).
  Proof.
    intros tbl <-. unfold run_with.
    assert (Hs0 : sound (fun _ => None)) by (intros c k H; discriminate).
    assert (Hm0 : minimal (fun _ => None)) by (intros c k H; discriminate).
    destruct (run_go_inv (S n) _ Hs0 Hm0) as [Hs Hm].
    assert (Hdone : pick (run_go pick (S n) (fun _ => None)) = None).
    { apply run_go_done; auto. pose proof (untabled_le (fun _ => None) n). lia. }
    split.
    - intros c k H. split; [apply Hs; assumption|]. intros k' Hd. eapply Hm; eauto.
    - intros c Hc k Hd.
      destruct (proj1 (key _ Hm) _ _ Hd Hc) as [cm [m [Hb _]]].
      exact (proj2 pick_ok _ Hdone _ _ Hb).
  Qed.
End Knuth.

(* ------------------------------------------------------------------ *)
(* the general statement *)

Definition monotone (f : nat -> list nat -> nat) : Prop :=
  forall w ks ks', Forall2 le ks ks' -> f w ks <= f w ks'.
Definition superior (f : nat -> list nat -> nat) : Prop :=
  forall w ks k, In k ks -> k <= f w ks.

(* any tie-break, costs in the range `good` *)
Theorem knuth_min_any : forall f (good : nat -> Prop),
  monotone f -> (forall w ks, good (f w ks)) -> (forall w ks k, In k ks -> good k -> k <= f w ks) ->
  forall nodes pick, min_choice f nodes pick ->
  forall n tbl,
    (forall c chs w, In (c, chs, w) nodes -> c < n) ->
    run_with pick n = tbl ->
    (forall c k, tbl c = Some k ->
       derivable f nodes c k /\ (forall k', derivable f nodes c k' -> k <= k')) /\
    (forall c, tbl c = None -> forall k, ~ derivable f nodes c k).
Proof.
  intros f good Hm Hg Hs nodes pick Hp n tbl Hwf Hrun.
  exact (knuth_min_section f Hm good Hg Hs nodes pick Hp n Hwf tbl Hrun).
Qed.

(* the table does not depend on the tie-break *)
Corollary tie_break_irrelevant : forall f (good : nat -> Prop),
  monotone f -> (forall w ks, good (f w ks)) -> (forall w ks k, In k ks -> good k -> k <= f w ks) ->
  forall nodes pick1 pick2, min_choice f nodes pick1 -> min_choice f nodes pick2 ->
  forall n, (forall c chs w, In (c, chs, w) nodes -> c < n) ->
  forall c, run_with pick1 n c = run_with pick2 n c.
Proof.
  intros f good Hm Hg Hs nodes p1 p2 H1 H2 n Hwf c.
  destruct (knuth_min_any f good Hm Hg Hs nodes p1 H1 n _ Hwf eq_refl) as [A1 B1].
  destruct (knuth_min_any f good Hm Hg Hs nodes p2 H2 n _ Hwf eq_refl) as [A2 B2].
  destruct (run_with p1 n c) as [k1|] eqn:E1;
    destruct (run_with p2 n c) as [k2|] eqn:E2; auto.
  - destruct (A1 c k1 E1) as [D1 M1]. destruct (A2 c k2 E2) as [D2 M2].
    specialize (M1 k2 D2). specialize (M2 k1 D1). f_equal; lia.
  - destruct (A1 c k1 E1) as [D1 _]. exfalso. exact (B2 c E2 k1 D1).
  - destruct (A2 c k2 E2) as [D2 _]. exfalso. exact (B1 c E1 k2 D2).
Qed.

(* the deterministic algorithm (first minimal candidate), costs in the range `good` *)
Theorem knuth_min_ranged : forall f (good : nat -> Prop),
  monotone f -> (forall w ks, good (f w ks)) -> (forall w ks k, In k ks -> good k -> k <= f w ks) ->
  forall nodes n tbl,
    (forall c chs w, In (c, chs, w) nodes -> c < n) ->
    run f nodes n = tbl ->
    (forall c k, tbl c = Some k ->
       derivable f nodes c k /\ (forall k', derivable f nodes c k' -> k <= k')) /\
    (forall c, tbl c = None -> forall k, ~ derivable f nodes c k).
Proof.
  intros f good Hm Hg Hs nodes n tbl Hwf Hrun.
  apply (knuth_min_any f good Hm Hg Hs nodes (first_min f nodes) (first_min_choice f nodes) n tbl Hwf Hrun).
Qed.

Theorem knuth_min_general : forall f, monotone f -> superior f ->
  forall nodes n tbl,
    (forall c chs w, In (c, chs, w) nodes -> c < n) ->
    run f nodes n = tbl ->
    (forall c k, tbl c = Some k ->
       derivable f nodes c k /\ (forall k', derivable f nodes c k' -> k <= k')) /\
    (forall c, tbl c = None -> forall k, ~ derivable f nodes c k).
Proof.
  intros f Hm Hs nodes n tbl Hwf Hrun.
  apply (knuth_min_ranged f (fun _ => True)) with (n := n); auto.
Qed.

(* ------------------------------------------------------------------ *)
(* instances *)

Definition sum (l : list nat) : nat := fold_right Nat.add 0 l.

(* cost of a tree = w + sum of the costs of the children (AstSize: w = 1; per-operator weights) *)
Definition additive (w : nat) (ks : list nat) : nat := w + sum ks.
(* cost = w + sum of 2 * child cost *)
Definition depth_weighted (w : nat) (ks : list nat) : nat := w + sum (map (fun k => 2 * k) ks).
(* u64-style saturation of a cost function at M *)
Definition saturate (M : nat) (f : nat -> list nat -> nat) (w : nat) (ks : list nat) : nat :=
  Nat.min (f w ks) M.

Lemma sum_mono : forall ks ks', Forall2 le ks ks' -> sum ks <= sum ks'.
Proof. induction 1; simpl; lia. Qed.
Lemma sum_in : forall ks k, In k ks -> k <= sum ks.
Proof.
  induction ks as [|x r IH]; simpl; intros k H; [contradiction|].
  destruct H as [->|H]; [lia|]. specialize (IH k H). lia.
Qed.
Lemma Forall2_map_double : forall ks ks',
    Forall2 le ks ks' -> Forall2 le (map (fun k => 2 * k) ks) (map (fun k => 2 * k) ks').
Proof. induction 1; simpl; constructor; auto; lia. Qed.

Lemma additive_monotone : monotone additive.
Proof. intros w ks ks' H. unfold additive. pose proof (sum_mono _ _ H). lia. Qed.
Lemma additive_superior : superior additive.
Proof. intros w ks k H. unfold additive. pose proof (sum_in _ _ H). lia. Qed.

Lemma depth_weighted_monotone : monotone depth_weighted.
Proof.
  intros w ks ks' H. unfold depth_weighted.
  pose proof (sum_mono _ _ (Forall2_map_double _ _ H)). lia.
Qed.
Lemma depth_weighted_superior : superior depth_weighted.
Proof.
  intros w ks k H. unfold depth_weighted.
  assert (In (2 * k) (map (fun k => 2 * k) ks)) by (apply in_map_iff; exists k; auto).
  pose proof (sum_in _ _ H0). lia.
Qed.

(* the weights >= 1 make the additive cost STRICTLY greater than each child cost (what the
   termination of `extract` needs); minimality does not need it *)
Lemma additive_strict : forall w ks k, 1 <= w -> In k ks -> k < additive w ks.
Proof. intros w ks k Hw H. unfold additive. pose proof (sum_in _ _ H). lia. Qed.

(* The statement of the task, for the additive cost.  (The hypothesis on the weights is not needed
   for minimality; it is kept as part of the well-formedness.) *)
Theorem knuth_min : forall nodes n tbl,
    (forall c chs w, In (c, chs, w) nodes -> c < n /\ 1 <= w) ->
    run additive nodes n = tbl ->
    (forall c k, tbl c = Some k ->
       derivable additive nodes c k /\ (forall k', derivable additive nodes c k' -> k <= k')) /\
    (forall c, tbl c = None -> forall k, ~ derivable additive nodes c k).
Proof.
  intros nodes n tbl Hwf Hrun.
  apply (knuth_min_general additive additive_monotone additive_superior nodes n tbl); auto.
  intros c chs w H. apply (Hwf c chs w H).
Qed.

Theorem knuth_min_depth_weighted : forall nodes n tbl,
    (forall c chs w, In (c, chs, w) nodes -> c < n) ->
    run depth_weighted nodes n = tbl ->
    (forall c k, tbl c = Some k ->
       derivable depth_weighted nodes c k /\ (forall k', derivable depth_weighted nodes c k' -> k <= k')) /\
    (forall c, tbl c = None -> forall k, ~ derivable depth_weighted nodes c k).
Proof.
  intros. apply (knuth_min_general depth_weighted depth_weighted_monotone depth_weighted_superior nodes n tbl); auto.
Qed.

(* Saturating costs (u64 in the implementation: M = 2^64 - 1).  Saturation keeps monotonicity; it keeps
   superiority for child costs that are at most M, which all costs of derivations are. *)
Lemma saturate_monotone : forall M f, monotone f -> monotone (saturate M f).
Proof. intros M f H w ks ks' Hle. unfold saturate. specialize (H w ks ks' Hle). lia. Qed.
Lemma saturate_superior_bounded : forall M f, superior f ->
    forall w ks k, In k ks -> k <= M -> k <= saturate M f w ks.
Proof. intros M f H w ks k Hin Hk. unfold saturate. specialize (H w ks k Hin). lia. Qed.

Theorem knuth_min_saturating : forall M f, monotone f -> superior f ->
  forall nodes n tbl,
    (forall c chs w, In (c, chs, w) nodes -> c < n) ->
    run (saturate M f) nodes n = tbl ->
    (forall c k, tbl c = Some k ->
       derivable (saturate M f) nodes c k /\ (forall k', derivable (saturate M f) nodes c k' -> k <= k')) /\
    (forall c, tbl c = None -> forall k, ~ derivable (saturate M f) nodes c k).
Proof.
  intros M f Hm Hs nodes n tbl Hwf Hrun.
  apply (knuth_min_ranged (saturate M f) (fun k => k <= M)) with (n := n); auto.
  - apply saturate_monotone; assumption.
  - intros w ks. unfold saturate. lia.
  - intros w ks k Hin Hk. apply saturate_superior_bounded; assumption.
Qed.

(* a small run, by computation: classes 0..3,
     0 := leaf(1) | u(1)          1 := h(0, 0) weight 1 | leaf weight 5
     2 := u(2) only (no finite derivation)      3 := h(1, 0) *)
Example knuth_example :
  let nodes := [(1, [0; 0], 1); (0, [], 1); (0, [1], 1); (1, [], 5); (2, [2], 1); (3, [1; 0], 1)] in
  map (run additive nodes 4) [0; 1; 2; 3] = [Some 1; Some 3; None; Some 5].
Proof. reflexivity. Qed.

Print Assumptions knuth_min_any.
Print Assumptions tie_break_irrelevant.
Print Assumptions knuth_min_general.
Print Assumptions knuth_min_saturating.
Print Assumptions knuth_min.
