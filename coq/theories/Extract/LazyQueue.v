(* Extract/LazyQueue.v — the LAZY PRIORITY QUEUE of `Extractor::new` (/repo/src/extract/mod.rs), abstractly
   over the and-or graphs of Extract/Knuth.v, and the proof that it computes the same table as the
   round-based algorithm `run` of Knuth.v: the minimum derivation cost of every derivable class, nothing
   for the others — for EVERY queue discipline that pops an entry of minimal cost.

   Knuth.v recomputes all candidates in every round.  The implementation does not:
     queue := every leaf node (no children) with its cost
     loop:  pop an entry (node, cost) of minimal cost          (`pop`: any such function, `min_pop`)
            if the class of the node is tabled: skip it
            otherwise table class := cost, and for every node that has this class among its children
            ("usages") and whose children are NOW all tabled, push (node, f w (tabled child costs))
            [`prune` = true, as in the implementation: unless the class of that node is tabled already]
   (Extract/Extractor.v mirrors it concretely: `init_queue`, `push_usages`, `worklist`, `pop_min`.)

   Invariant (`inv`): tabled costs are derivation costs (`sound`) and minima (`minimal`); every queue
   entry (nd, k) is a node of the graph whose children are all tabled with k = f w (their tabled costs)
   — costs never change once tabled — (`entries_ok`); every candidate of Knuth.v (children tabled,
   class untabled) sits in the queue with its candidate cost (`cands_queued`).  Hence a pop that is not
   skipped IS a minimal candidate in the sense of Knuth.v (`lazy_pop_is_min_candidate`), and the key
   lemma of Knuth.v gives minimality; when the queue is empty there is no candidate, so the untabled
   classes have no derivation.

   Fuel: every node is pushed at most once (when its last child class is tabled; leaves initially), so
   `length queue + number of nodes with an untabled child` decreases with every pop:
   1 + number of nodes iterations suffice (`lazy_go_done`).

   Only the Coq standard library and Knuth.v.  No axioms, no Admitted. *)
Require Import Arith Lia List Bool Permutation.
Import ListNotations.
From SE Require Import Extract.Knuth.

Definition entry := (node * nat)%type.
Definition queue := list entry.

(* a queue discipline: returns an entry of minimal cost and the rest of the queue (any choice among
   equal costs, any order of the rest); None only on the empty queue *)
Definition min_pop (pop : queue -> option (entry * queue)) : Prop :=
  (forall q e q', pop q = Some (e, q') ->
     Permutation q (e :: q') /\ (forall e', In e' q -> snd e <= snd e')) /\
  (forall q, pop q = None -> q = []).

Definition tabled (t : table) (c : nat) : bool :=
  match t c with Some _ => true | None => false end.

Definition empty : table := fun _ => None.

(* ------------------------------------------------------------------ *)
(* facts about `child_costs` and `upd` (Knuth.v) *)

Lemma child_costs_upd_some : forall t c k chs ks,
    t c = None -> child_costs t chs = Some ks -> child_costs (upd t c k) chs = Some ks.
Proof.
  intros t c k chs; induction chs as [|x r IH]; simpl; intros ks Hc H; [assumption|].
  destruct (t x) as [kx|] eqn:Ex; [|discriminate].
  destruct (child_costs t r) as [ks'|] eqn:Er; [|discriminate].
  unfold upd at 1. destruct (x =? c) eqn:E.
  - apply Nat.eqb_eq in E; subst x. rewrite Hc in Ex. discriminate.
  - rewrite Ex, (IH ks' Hc eq_refl). assumption.
Qed.

Lemma child_costs_upd_notin : forall t c k chs,
    ~ In c chs -> child_costs (upd t c k) chs = child_costs t chs.
Proof.
  intros t c k chs; induction chs as [|x r IH]; simpl; intros Hn; [reflexivity|].
  unfold upd at 1. destruct (x =? c) eqn:E.
  - apply Nat.eqb_eq in E; subst x. exfalso; apply Hn; left; reflexivity.
  - rewrite IH by (intro Hi; apply Hn; right; assumption). reflexivity.
Qed.

Lemma child_costs_untabled : forall t c chs,
    In c chs -> t c = None -> child_costs t chs = None.
Proof.
  intros t c chs; induction chs as [|x r IH]; simpl; intros Hi Hc; [contradiction|].
  destruct Hi as [->|Hi].
  - rewrite Hc. reflexivity.
  - rewrite (IH Hi Hc). destruct (t x); reflexivity.
Qed.

Lemma child_costs_empty : forall chs ks, child_costs empty chs = Some ks -> chs = [].
Proof. intros [|x r] ks H; [reflexivity|]. simpl in H. discriminate. Qed.

Lemma existsb_eqb_In : forall c chs, existsb (Nat.eqb c) chs = true <-> In c chs.
Proof.
  intros c chs. rewrite existsb_exists. split.
  - intros [x [Hi He]]. apply Nat.eqb_eq in He. subst x. assumption.
  - intros Hi. exists c; split; [assumption|apply Nat.eqb_refl].
Qed.

Lemma cand_inv : forall f t c0 chs w c k,
    cand f t (c0, chs, w) = Some (c, k) ->
    c = c0 /\ t c0 = None /\ exists ks, child_costs t chs = Some ks /\ k = f w ks.
Proof.
  intros f t c0 chs w c k H. unfold cand in H.
  destruct (t c0) eqn:E0; [discriminate|].
  destruct (child_costs t chs) as [ks|] eqn:Ecc; [|discriminate].
  inversion H; subst. split; [reflexivity|]. split; [reflexivity|]. exists ks; split; reflexivity.
Qed.

Lemma cand_intro : forall f t c chs w ks,
    t c = None -> child_costs t chs = Some ks -> cand f t (c, chs, w) = Some (c, f w ks).
Proof. intros f t c chs w ks H0 Hcc. unfold cand. rewrite H0, Hcc. reflexivity. Qed.

(* ------------------------------------------------------------------ *)
(* the algorithm *)

Section Algorithm.
  Variable f : nat -> list nat -> nat.
  Variable prune : bool.
  Variable pop : queue -> option (entry * queue).
  Variable nodes : list node.

  (* initially: every node without children, with its cost *)
  Definition leaf_entry (nd : node) : list entry :=
    match nd with
    | (_, [], w) => [(nd, f w [])]
    | _ => []
    end.
  Definition init_queue : queue := flat_map leaf_entry nodes.

  (* class c has just been tabled (t is the table after that): the entry pushed for the node nd *)
  Definition push_usage (t : table) (c : nat) (nd : node) : list entry :=
    let '(c0, chs, w) := nd in
    if existsb (Nat.eqb c) chs then
      match child_costs t chs with
      | Some ks => if prune && tabled t c0 then [] else [(nd, f w ks)]
      | None => []
      end
    else [].
  Definition pushes (t : table) (c : nat) : queue := flat_map (push_usage t c) nodes.

  Fixpoint lazy_go (fuel : nat) (t : table) (q : queue) : table * queue :=
    match fuel with
    | O => (t, q)
    | S fu =>
        match pop q with
        | None => (t, q)
        | Some ((nd, k), q') =>
            let c := fst (fst nd) in
            match t c with
            | Some _ => lazy_go fu t q'
            | None => let t' := upd t c k in lazy_go fu t' (q' ++ pushes t' c)
            end
        end
    end.

  (* every node is pushed at most once *)
  Definition lazy_fuel : nat := S (length nodes).

  Definition lazy_run_fuel (fuel : nat) : table := fst (lazy_go fuel empty init_queue).
  Definition lazy_run : table := lazy_run_fuel lazy_fuel.
End Algorithm.

(* ------------------------------------------------------------------ *)
(* correctness *)

Section Correct.
  Variable f : nat -> list nat -> nat.
  Hypothesis f_mono : forall w ks ks', Forall2 le ks ks' -> f w ks <= f w ks'.
  Variable good : nat -> Prop.
  Hypothesis f_good : forall w ks, good (f w ks).
  Hypothesis f_sup : forall w ks k, In k ks -> good k -> k <= f w ks.

  Variable prune : bool.
  Variable pop : queue -> option (entry * queue).
  Hypothesis pop_ok : min_pop pop.
  Variable nodes : list node.

  Definition entries_ok (t : table) (q : queue) : Prop :=
    forall c chs w k, In ((c, chs, w), k) q ->
      In (c, chs, w) nodes /\ exists ks, child_costs t chs = Some ks /\ k = f w ks.

  Definition cands_queued (t : table) (q : queue) : Prop :=
    forall nd c k, In nd nodes -> cand f t nd = Some (c, k) -> In (nd, k) q.

  Definition inv (t : table) (q : queue) : Prop :=
    sound f nodes t /\ minimal f nodes t /\ entries_ok t q /\ cands_queued t q.

  Lemma inv_init : inv empty (init_queue f nodes).
  Proof.
    split; [intros c k H; discriminate|]. split; [intros c k H; discriminate|]. split.
    - intros c chs w k Hin. unfold init_queue in Hin. apply in_flat_map in Hin.
      destruct Hin as [[[c' chs'] w'] [Hn He]]. destruct chs' as [|x r]; simpl in He; [|contradiction].
      destruct He as [He|[]]. inversion He; subst. split; [assumption|].
      exists []; split; reflexivity.
    - intros [[c0 chs] w] c k Hn Hc.
      apply cand_inv in Hc. destruct Hc as [_ [_ [ks [Hcc ->]]]].
      pose proof (child_costs_empty _ _ Hcc) as ->. simpl in Hcc. inversion Hcc; subst ks.
      unfold init_queue. apply in_flat_map. exists (c0, [], w); split; [assumption|].
      simpl. left; reflexivity.
  Qed.

  (* a pop whose class is untabled is a minimal candidate of Knuth.v: the lazy queue is an instance
     of `run_with pick` for a minimal `pick` *)
  Lemma lazy_pop_is_min_candidate : forall t q c chs w k q',
      entries_ok t q -> cands_queued t q ->
      pop q = Some ((c, chs, w, k), q') -> t c = None ->
      candidate f nodes t c k /\ (forall c' k', candidate f nodes t c' k' -> k <= k').
  Proof.
    intros t q c chs w k q' He Hq Hp Hc.
    destruct (proj1 pop_ok _ _ _ Hp) as [Hperm Hmin].
    assert (Hin : In ((c, chs, w), k) q).
    { apply (Permutation_in _ (Permutation_sym Hperm)). left; reflexivity. }
    destruct (He _ _ _ _ Hin) as [Hn [ks [Hcc ->]]]. split.
    - exists (c, chs, w); split; [assumption|]. apply cand_intro; assumption.
    - intros c' k' [nd' [Hn' Hc']]. exact (Hmin _ (Hq _ _ _ Hn' Hc')).
  Qed.

  Lemma inv_skip : forall t q c chs w k q' k0,
      inv t q -> pop q = Some ((c, chs, w, k), q') -> t c = Some k0 -> inv t q'.
  Proof.
    intros t q c chs w k q' k0 [Hs [Hm [He Hq]]] Hp Hc.
    destruct (proj1 pop_ok _ _ _ Hp) as [Hperm _].
    split; [assumption|]. split; [assumption|]. split.
    - intros c1 chs1 w1 k1 Hin. apply He.
      apply (Permutation_in _ (Permutation_sym Hperm)). right; assumption.
    - intros [[c1 chs1] w1] c2 k2 Hn Hcand.
      pose proof (Hq _ _ _ Hn Hcand) as Hin.
      apply (Permutation_in _ Hperm) in Hin. destruct Hin as [Heq|Hin]; [|assumption].
      inversion Heq; subst. apply cand_inv in Hcand. destruct Hcand as [_ [H0 _]].
      rewrite H0 in Hc. discriminate.
  Qed.

  Lemma inv_table : forall t q c chs w k q',
      inv t q -> pop q = Some ((c, chs, w, k), q') -> t c = None ->
      inv (upd t c k) (q' ++ pushes f prune nodes (upd t c k) c).
  Proof.
    intros t q c chs w k q' [Hs [Hm [He Hq]]] Hp Hc.
    destruct (lazy_pop_is_min_candidate _ _ _ _ _ _ _ He Hq Hp Hc) as [Hcand Hmin].
    destruct (proj1 pop_ok _ _ _ Hp) as [Hperm _].
    assert (Hin : In ((c, chs, w), k) q).
    { apply (Permutation_in _ (Permutation_sym Hperm)). left; reflexivity. }
    destruct (He _ _ _ _ Hin) as [Hn [ks [Hcc Hk]]].
    split; [|split; [|split]].
    - (* sound *)
      intros x kx. unfold upd. destruct (x =? c) eqn:E.
      + apply Nat.eqb_eq in E; subst x. intro H; inversion H; subst kx k.
        econstructor; [exact Hn|]. eapply child_costs_derivables; eauto.
      + apply Hs.
    - (* minimal *)
      intros x kx. unfold upd. destruct (x =? c) eqn:E.
      + apply Nat.eqb_eq in E; subst x. intro H; inversion H; subst kx. intros k' Hd.
        destruct (proj1 (key f f_mono good f_good f_sup nodes t Hm) _ _ Hd Hc) as [cm [m [Hb Hle]]].
        specialize (Hmin cm m Hb). lia.
      + apply Hm.
    - (* entries_ok *)
      intros c1 chs1 w1 k1 Hin1. apply in_app_or in Hin1. destruct Hin1 as [Hin1|Hin1].
      + assert (Hin2 : In ((c1, chs1, w1), k1) q).
        { apply (Permutation_in _ (Permutation_sym Hperm)). right; assumption. }
        destruct (He _ _ _ _ Hin2) as [Hn1 [ks1 [Hcc1 Hk1]]]. split; [assumption|].
        exists ks1; split; [|assumption]. apply child_costs_upd_some; assumption.
      + unfold pushes in Hin1. apply in_flat_map in Hin1.
        destruct Hin1 as [[[c2 chs2] w2] [Hn2 Hpu]]. unfold push_usage in Hpu.
        destruct (existsb (Nat.eqb c) chs2); [|contradiction].
        destruct (child_costs (upd t c k) chs2) as [ks2|] eqn:Ecc2; [|contradiction].
        destruct (prune && tabled (upd t c k) c2); [contradiction|].
        destruct Hpu as [Heq|[]]. inversion Heq; subst. split; [assumption|].
        exists ks2; split; [assumption|reflexivity].
    - (* cands_queued *)
      intros [[c1 chs1] w1] c2 k2 Hn1 Hcand1.
      apply cand_inv in Hcand1. destruct Hcand1 as [-> [H1 [ks1 [Hcc1 ->]]]].
      assert (Hne : c1 <> c).
      { intros ->. unfold upd in H1. rewrite Nat.eqb_refl in H1. discriminate. }
      assert (H1t : t c1 = None).
      { unfold upd in H1. destruct (c1 =? c) eqn:E; [apply Nat.eqb_eq in E; contradiction|assumption]. }
      apply in_or_app.
      destruct (child_costs t chs1) as [ks0|] eqn:Ecc0.
      + (* a candidate before: it is in the queue, and it is not the popped entry *)
        left. pose proof (child_costs_upd_some t c k chs1 ks0 Hc Ecc0) as Hcc1'.
        rewrite Hcc1 in Hcc1'. inversion Hcc1'; subst ks0.
        pose proof (Hq (c1, chs1, w1) c1 (f w1 ks1) Hn1 (cand_intro f t c1 chs1 w1 ks1 H1t Ecc0)) as Hin1.
        apply (Permutation_in _ Hperm) in Hin1. destruct Hin1 as [Heq|Hin1]; [|assumption].
        inversion Heq; subst. exfalso; apply Hne; reflexivity.
      + (* not a candidate before: c is one of its children, it is pushed now *)
        right. assert (Hic : existsb (Nat.eqb c) chs1 = true).
        { destruct (existsb (Nat.eqb c) chs1) eqn:Eex; [reflexivity|]. exfalso.
          assert (Hni : ~ In c chs1).
          { intro Hi. apply existsb_eqb_In in Hi. rewrite Hi in Eex. discriminate. }
          rewrite (child_costs_upd_notin t c k chs1 Hni) in Hcc1. rewrite Hcc1 in Ecc0. discriminate. }
        unfold pushes. apply in_flat_map. exists (c1, chs1, w1); split; [assumption|].
        unfold push_usage. rewrite Hic, Hcc1. unfold tabled. rewrite H1.
        rewrite andb_false_r. left; reflexivity.
  Qed.

  Lemma lazy_go_inv : forall fuel t q,
      inv t q -> inv (fst (lazy_go f prune pop nodes fuel t q)) (snd (lazy_go f prune pop nodes fuel t q)).
  Proof.
    induction fuel as [|fu IH]; simpl; intros t q Hi; [assumption|].
    destruct (pop q) as [[[[[c chs] w] k] q']|] eqn:Hp; [|assumption].
    simpl. destruct (t c) as [k0|] eqn:Hc.
    - apply IH. eapply inv_skip; eauto.
    - apply IH. eapply inv_table; eauto.
  Qed.

  (* ---------------------------------------------------------------- *)
  (* termination: length of the queue + number of nodes with an untabled child decreases *)

  Definition pend1 (t : table) (nd : node) : nat :=
    match child_costs t (snd (fst nd)) with Some _ => 0 | None => 1 end.
  Fixpoint pend (t : table) (l : list node) : nat :=
    match l with
    | [] => 0
    | nd :: r => pend1 t nd + pend t r
    end.

  Lemma pend_init : forall l, length (flat_map (leaf_entry f) l) + pend empty l <= length l.
  Proof.
    induction l as [|[[c chs] w] r IH]; [simpl; lia|].
    destruct chs as [|x chs]; simpl; rewrite ?app_length; unfold pend1; simpl; lia.
  Qed.

  Lemma pend_step : forall t c k, t c = None ->
      forall l, length (flat_map (push_usage f prune (upd t c k) c) l) + pend (upd t c k) l <= pend t l.
  Proof.
    intros t c k Hc. induction l as [|[[c0 chs] w] r IH]; [simpl; lia|].
    cbn [flat_map pend]. rewrite app_length.
    assert (H1 : length (push_usage f prune (upd t c k) c (c0, chs, w)) + pend1 (upd t c k) (c0, chs, w)
                 <= pend1 t (c0, chs, w)).
    { unfold push_usage, pend1; simpl. destruct (existsb (Nat.eqb c) chs) eqn:Eex.
      - apply existsb_eqb_In in Eex. rewrite (child_costs_untabled t c chs Eex Hc).
        destruct (child_costs (upd t c k) chs); [|simpl; lia].
        destruct (prune && tabled (upd t c k) c0); simpl; lia.
      - assert (Hni : ~ In c chs).
        { intro Hi. apply existsb_eqb_In in Hi. rewrite Hi in Eex. discriminate. }
        rewrite (child_costs_upd_notin t c k chs Hni). simpl; lia. }
    lia.
  Qed.

  Lemma lazy_go_done : forall fuel t q,
      length q + pend t nodes < fuel -> snd (lazy_go f prune pop nodes fuel t q) = [].
  Proof.
    induction fuel as [|fu IH]; simpl; intros t q Hlt; [lia|].
    destruct (pop q) as [[[nd k] q']|] eqn:Hp.
    - destruct (proj1 pop_ok _ _ _ Hp) as [Hperm _].
      apply Permutation_length in Hperm. simpl in Hperm.
      destruct (t (fst (fst nd))) as [k0|] eqn:Hc.
      + apply IH. lia.
      + apply IH. rewrite app_length. unfold pushes.
        pose proof (pend_step t (fst (fst nd)) k Hc nodes). lia.
    - simpl. exact (proj2 pop_ok _ Hp).
  Qed.

  Theorem lazy_min_section : forall fuel tbl,
      lazy_fuel nodes <= fuel ->
      lazy_run_fuel f prune pop nodes fuel = tbl ->
      (forall c k, tbl c = Some k ->
         derivable f nodes c k /\ (forall k', derivable f nodes c k' -> k <= k')) /\
      (forall c, tbl c = None -> forall k, ~ derivable f nodes c k).
  Proof.
    intros fuel tbl Hfuel <-. unfold lazy_run_fuel.
    destruct (lazy_go_inv fuel _ _ inv_init) as [Hs [Hm [_ Hq]]].
    assert (Hdone : snd (lazy_go f prune pop nodes fuel empty (init_queue f nodes)) = []).
    { apply lazy_go_done. pose proof (pend_init nodes). unfold init_queue, lazy_fuel in *. lia. }
    rewrite Hdone in Hq. split.
    - intros c k H. split; [apply Hs; assumption|]. intros k' Hd. eapply Hm; eauto.
    - intros c Hc k Hd.
      destruct (proj1 (key f f_mono good f_good f_sup nodes _ Hm) _ _ Hd Hc) as [cm [m [[nd [Hn Hcand]] _]]].
      exact (Hq _ _ _ Hn Hcand).
  Qed.
End Correct.

(* ------------------------------------------------------------------ *)
(* the general statements *)

(* the characterisation determines the table *)
Lemma characterised_unique : forall f nodes (t1 t2 : table),
    ((forall c k, t1 c = Some k ->
        derivable f nodes c k /\ (forall k', derivable f nodes c k' -> k <= k')) /\
     (forall c, t1 c = None -> forall k, ~ derivable f nodes c k)) ->
    ((forall c k, t2 c = Some k ->
        derivable f nodes c k /\ (forall k', derivable f nodes c k' -> k <= k')) /\
     (forall c, t2 c = None -> forall k, ~ derivable f nodes c k)) ->
    forall c, t1 c = t2 c.
Proof.
  intros f nodes t1 t2 [A1 B1] [A2 B2] c.
  destruct (t1 c) as [k1|] eqn:E1; destruct (t2 c) as [k2|] eqn:E2; auto.
  - destruct (A1 c k1 E1) as [D1 M1]. destruct (A2 c k2 E2) as [D2 M2].
    specialize (M1 k2 D2). specialize (M2 k1 D1). f_equal; lia.
  - destruct (A1 c k1 E1) as [D1 _]. exfalso. exact (B2 c E2 k1 D1).
  - destruct (A2 c k2 E2) as [D2 _]. exfalso. exact (B1 c E1 k2 D2).
Qed.

(* any minimal pop, with or without pruning, any sufficient fuel, costs in the range `good` *)
Theorem lazy_min_ranged : forall f (good : nat -> Prop),
  monotone f -> (forall w ks, good (f w ks)) -> (forall w ks k, In k ks -> good k -> k <= f w ks) ->
  forall prune pop, min_pop pop ->
  forall nodes fuel tbl,
    lazy_fuel nodes <= fuel ->
    lazy_run_fuel f prune pop nodes fuel = tbl ->
    (forall c k, tbl c = Some k ->
       derivable f nodes c k /\ (forall k', derivable f nodes c k' -> k <= k')) /\
    (forall c, tbl c = None -> forall k, ~ derivable f nodes c k).
Proof.
  intros f good Hm Hg Hs prune pop Hp nodes fuel tbl Hfuel Hrun.
  exact (lazy_min_section f Hm good Hg Hs prune pop Hp nodes fuel tbl Hfuel Hrun).
Qed.

Theorem lazy_min_general : forall f, monotone f -> superior f ->
  forall prune pop, min_pop pop ->
  forall nodes tbl,
    lazy_run f prune pop nodes = tbl ->
    (forall c k, tbl c = Some k ->
       derivable f nodes c k /\ (forall k', derivable f nodes c k' -> k <= k')) /\
    (forall c, tbl c = None -> forall k, ~ derivable f nodes c k).
Proof.
  intros f Hm Hs prune pop Hp nodes tbl Hrun.
  apply (lazy_min_ranged f (fun _ => True)) with (prune := prune) (pop := pop) (fuel := lazy_fuel nodes);
    auto.
Qed.

(* the lazy queue computes the table of the round-based algorithm of Knuth.v *)
Corollary lazy_run_eq_run : forall f, monotone f -> superior f ->
  forall prune pop, min_pop pop ->
  forall nodes n, (forall c chs w, In (c, chs, w) nodes -> c < n) ->
  forall c, lazy_run f prune pop nodes c = run f nodes n c.
Proof.
  intros f Hm Hs prune pop Hp nodes n Hwf. apply (characterised_unique f nodes).
  - exact (lazy_min_general f Hm Hs prune pop Hp nodes _ eq_refl).
  - exact (knuth_min_general f Hm Hs nodes n _ Hwf eq_refl).
Qed.

(* ... for every tie-break of the round-based algorithm, every sufficient fuel, ranged costs *)
Corollary lazy_run_eq_run_with : forall f (good : nat -> Prop),
  monotone f -> (forall w ks, good (f w ks)) -> (forall w ks k, In k ks -> good k -> k <= f w ks) ->
  forall prune pop, min_pop pop ->
  forall nodes pick, min_choice f nodes pick ->
  forall n fuel, (forall c chs w, In (c, chs, w) nodes -> c < n) -> lazy_fuel nodes <= fuel ->
  forall c, lazy_run_fuel f prune pop nodes fuel c = run_with pick n c.
Proof.
  intros f good Hm Hg Hs prune pop Hp nodes pick Hpick n fuel Hwf Hfuel.
  apply (characterised_unique f nodes).
  - exact (lazy_min_ranged f good Hm Hg Hs prune pop Hp nodes fuel _ Hfuel eq_refl).
  - exact (knuth_min_any f good Hm Hg Hs nodes pick Hpick n _ Hwf eq_refl).
Qed.

(* the table depends neither on the queue discipline, nor on the pruning, nor on the fuel *)
Corollary lazy_pop_irrelevant : forall f (good : nat -> Prop),
  monotone f -> (forall w ks, good (f w ks)) -> (forall w ks k, In k ks -> good k -> k <= f w ks) ->
  forall prune1 prune2 pop1 pop2, min_pop pop1 -> min_pop pop2 ->
  forall nodes fuel1 fuel2, lazy_fuel nodes <= fuel1 -> lazy_fuel nodes <= fuel2 ->
  forall c, lazy_run_fuel f prune1 pop1 nodes fuel1 c = lazy_run_fuel f prune2 pop2 nodes fuel2 c.
Proof.
  intros f good Hm Hg Hs pr1 pr2 pop1 pop2 Hp1 Hp2 nodes fu1 fu2 Hf1 Hf2.
  apply (characterised_unique f nodes).
  - exact (lazy_min_ranged f good Hm Hg Hs pr1 pop1 Hp1 nodes fu1 _ Hf1 eq_refl).
  - exact (lazy_min_ranged f good Hm Hg Hs pr2 pop2 Hp2 nodes fu2 _ Hf2 eq_refl).
Qed.

(* saturating costs (u64 in the implementation) *)
Theorem lazy_min_saturating : forall M f, monotone f -> superior f ->
  forall prune pop, min_pop pop ->
  forall nodes tbl,
    lazy_run (saturate M f) prune pop nodes = tbl ->
    (forall c k, tbl c = Some k ->
       derivable (saturate M f) nodes c k /\ (forall k', derivable (saturate M f) nodes c k' -> k <= k')) /\
    (forall c, tbl c = None -> forall k, ~ derivable (saturate M f) nodes c k).
Proof.
  intros M f Hm Hs prune pop Hp nodes tbl Hrun.
  apply (lazy_min_ranged (saturate M f) (fun k => k <= M)) with (prune := prune) (pop := pop)
                                                                (fuel := lazy_fuel nodes); auto.
  - apply saturate_monotone; assumption.
  - intros w ks. unfold saturate. lia.
  - intros w ks k Hin Hk. apply saturate_superior_bounded; assumption.
Qed.

Corollary lazy_run_eq_run_saturating : forall M f, monotone f -> superior f ->
  forall prune pop, min_pop pop ->
  forall nodes n, (forall c chs w, In (c, chs, w) nodes -> c < n) ->
  forall c, lazy_run (saturate M f) prune pop nodes c = run (saturate M f) nodes n c.
Proof.
  intros M f Hm Hs prune pop Hp nodes n Hwf. apply (characterised_unique (saturate M f) nodes).
  - exact (lazy_min_saturating M f Hm Hs prune pop Hp nodes _ eq_refl).
  - exact (knuth_min_saturating M f Hm Hs nodes n _ Hwf eq_refl).
Qed.

(* ------------------------------------------------------------------ *)
(* two queue disciplines: the FIRST / the LAST entry of minimal cost (`pop_min false / true` of
   Extract/Extractor.v) *)

Fixpoint pop_tb (last : bool) (q : queue) : option (entry * queue) :=
  match q with
  | [] => None
  | e :: r =>
      match pop_tb last r with
      | None => Some (e, [])
      | Some (m, r') =>
          if (if last then snd e <? snd m else snd e <=? snd m) then Some (e, r) else Some (m, e :: r')
      end
  end.

Lemma pop_tb_min_pop : forall last, min_pop (pop_tb last).
Proof.
  intros last. split.
  - induction q as [|e r IH]; simpl; intros e0 q' H; [discriminate|].
    destruct (pop_tb last r) as [[m r']|] eqn:Er.
    + destruct (IH m r' eq_refl) as [Hperm Hmin].
      assert (Hcases : (e0 = e /\ q' = r /\ snd e <= snd m) \/ (e0 = m /\ q' = e :: r' /\ snd m <= snd e)).
      { destruct last.
        - destruct (snd e <? snd m) eqn:E; inversion H; subst.
          + apply Nat.ltb_lt in E. left; repeat split; lia.
          + apply Nat.ltb_ge in E. right; repeat split; lia.
        - destruct (snd e <=? snd m) eqn:E; inversion H; subst.
          + apply Nat.leb_le in E. left; repeat split; lia.
          + apply Nat.leb_gt in E. right; repeat split; lia. }
      destruct Hcases as [[-> [-> Hle]]|[-> [-> Hle]]].
      * split; [apply Permutation_refl|].
        intros e' [<-|Hi]; [lia|]. specialize (Hmin e' Hi). lia.
      * split.
        -- apply perm_trans with (e :: m :: r'); [apply perm_skip; assumption|apply perm_swap].
        -- intros e' [<-|Hi]; [lia|]. exact (Hmin e' Hi).
    + inversion H; subst. destruct r as [|x r]; [|simpl in Er; destruct (pop_tb last r) as [[m r']|];
        [destruct (if last then snd x <? snd m else snd x <=? snd m)|]; discriminate].
      split; [apply Permutation_refl|]. intros e' [<-|[]]. lia.
  - intros [|e r] H; [reflexivity|]. simpl in H.
    destruct (pop_tb last r) as [[m r']|]; [|discriminate].
    destruct (if last then snd e <? snd m else snd e <=? snd m); discriminate.
Qed.

(* a small run, by computation: classes 0..5,
     0 := leaf(1) | u(1)          1 := h(0, 0) weight 1 | leaf weight 5     (a cycle 0 <-> 1)
     2 := u(2) | h(2, 0)  (no finite derivation)           3 := h(1, 0)
     4 := leaf(1)  (a tie with the leaf of 0) | leaf(1) again | u(0) weight 0
     5 := h(4, 0) | u(1) weight 0  (two derivations of cost 3; entries of equal cost 3 for 1 and 5)
   both queue disciplines, with and without pruning, agree with `run` *)
Definition example_nodes : list node :=
  [(1, [0; 0], 1); (0, [], 1); (0, [1], 1); (1, [], 5); (2, [2], 1); (2, [2; 0], 1); (3, [1; 0], 1);
   (4, [], 1); (4, [], 1); (4, [0], 0); (5, [4; 0], 1); (5, [1], 0)].

Example lazy_example :
  let expected := [Some 1; Some 3; None; Some 5; Some 1; Some 3] in
  map (run additive example_nodes 6) [0; 1; 2; 3; 4; 5] = expected /\
  map (lazy_run additive true (pop_tb false) example_nodes) [0; 1; 2; 3; 4; 5] = expected /\
  map (lazy_run additive true (pop_tb true) example_nodes) [0; 1; 2; 3; 4; 5] = expected /\
  map (lazy_run additive false (pop_tb false) example_nodes) [0; 1; 2; 3; 4; 5] = expected /\
  map (lazy_run additive false (pop_tb true) example_nodes) [0; 1; 2; 3; 4; 5] = expected.
Proof. vm_compute. repeat split. Qed.

(* the queue is really lazy: 9 pops for 5 tabled classes.  After 7 pops the queue holds the stale
   entry of the leaf of class 1 (cost 5; class 1 was tabled with cost 3) next to the live entry of
   class 3 of the same cost; after 9 pops it is empty (the fuel is 13) *)
Example lazy_example_queue :
  let go fuel := lazy_go additive true (pop_tb false) example_nodes fuel empty
                   (init_queue additive example_nodes) in
  snd (go 0) = [((0, [], 1), 1); ((1, [], 5), 5); ((4, [], 1), 1); ((4, [], 1), 1)] /\
  snd (go 7) = [((1, [], 5), 5); ((3, [1; 0], 1), 5)] /\ fst (go 7) 1 = Some 3 /\ fst (go 7) 3 = None /\
  snd (go 8) = [((3, [1; 0], 1), 5)] /\ fst (go 8) 3 = None /\
  snd (go 9) = [] /\ fst (go 9) 3 = Some 5 /\
  snd (go (lazy_fuel example_nodes)) = [] /\ lazy_fuel example_nodes = 13.
Proof. vm_compute. repeat split. Qed.

(* instance: the additive cost, as in `knuth_min` *)
Theorem lazy_knuth_min : forall prune pop, min_pop pop ->
  forall nodes n, (forall c chs w, In (c, chs, w) nodes -> c < n) ->
  forall c, lazy_run additive prune pop nodes c = run additive nodes n c.
Proof.
  intros prune pop Hp nodes n Hwf.
  exact (lazy_run_eq_run additive additive_monotone additive_superior prune pop Hp nodes n Hwf).
Qed.

Print Assumptions lazy_min_ranged.
Print Assumptions lazy_min_general.
Print Assumptions lazy_run_eq_run.
Print Assumptions lazy_run_eq_run_with.
Print Assumptions lazy_pop_irrelevant.
Print Assumptions lazy_min_saturating.
Print Assumptions lazy_run_eq_run_saturating.
Print Assumptions pop_tb_min_pop.
Print Assumptions lazy_pop_is_min_candidate.
