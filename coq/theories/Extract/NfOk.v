(* Extract/NfOk.v — NORMAL-FORM STABILITY (`nf_ok`, the gap of Extract/ExtractorFacts.v) from the reachable-state
   invariants, for counters that are not below the counter of the state.

   `class_nf x` of a stored e-node x = sh[bij] of class j: (1) `refresh_internals`: every occurrence that is not a value
   of the invocation i0 the lookup of x returns gets a fresh name; (2) second lookup i1; (3) `apply_slotmap_fresh (am i1)`.
   Both stages are capture-free injective renamings (`ren_ok`), so the weak shape of the canonical variant is unchanged
   (`shape_ren`, HashconsShape.v) and the lookup hits the same hashcons entry: `lookup_ren`.
   Stage 1 needs the values of i0 to be older than the fresh names: they are SLOTS OF THE CLASS (`lookup_values_class`):
   the invocation the lookup returns and the identity are equal invocations of class j (self-symmetry completeness
   `ss_ok`, CongruenceFacts.v / SelfSymFacts.v, in the form `ss_var`), equal invocations have the same value set, and
   class slots are below the counter (`class_facts`). *)
From SE Require Import Slots.SlotMapFacts Group.GroupSound Lang.LangFacts Lang.ShapeFacts Lang.RenameFacts
  Base.TextFacts Parse.Parser EGraph.Model EGraph.ModelFacts EGraph.ModelMachine EGraph.UnionFindFacts
  EGraph.InvariantFacts EGraph.UnionInvariantFacts EGraph.AddCoversFacts EGraph.HashconsShape EGraph.Mod4Facts
  EGraph.HashconsAbs EGraph.HashconsFacts EGraph.Rewrite EGraph.RewriteFacts EGraph.MatchDefs EGraph.MatchMachine
  EGraph.ProgressFacts EGraph.MatchFacts EGraph.SoundUnion EGraph.MonotoneFacts EGraph.MatchLookup
  EGraph.NodeCong EGraph.KidEqFacts EGraph.ShapeCong EGraph.CongruenceFacts EGraph.MatchComplete
  EGraph.MatchReprFix EGraph.MatchReprAlg EGraph.StoredLive EGraph.KidsFacts EGraph.PendingFacts EGraph.MatchReprFacts.
From SE Require Import Extract.Extractor Extract.ExtractorFacts.
From SE Require Extract.UsagesOk.
Require Import ZArith Lia ZifyBool ZifyN ZifyNat.

Local Notation "a ** b" := (compose_partial a b) (at level 40, left associativity).
Local Notation inv := inverse_nocheck.

Local Ltac neq := repeat match goal with
  | H : (_ =? _) = true |- _ => apply N.eqb_eq in H
  | H : (_ =? _) = false |- _ => apply N.eqb_neq in H
  end.

(* ------------------------------------------------------------------ *)
(* 1. the lookup is invariant under capture-free injective renamings *)

Lemma lookup_ren : forall s g n a, ren_ok g n -> Extractor.eg_lookup s n = Ok (Some a) ->
  exists a', Extractor.eg_lookup s (RenameFacts.ren g n) = Ok (Some a') /\ aid a' = aid a.
Proof.
  intros s g n a (G1 & G2 & G3) H. unfold Extractor.eg_lookup in *.
  destruct (shape s n) as [[sh b]|] eqn:Hsh; cbn [bind] in H; [|discriminate].
  destruct (shape_ren s g n (sh, b) G1 G2 G3 Hsh) as (b' & Hsh'). cbn [fst] in Hsh'. rewrite Hsh'. cbn [bind].
  destruct (lookup_internal_inv _ _ _ _ H) as (i & c & cb & src & Hh & Hc & G & ->).
  rewrite (lookup_internal_intro s sh b' i c cb src Hh Hc G). eexists. split; reflexivity.
Qed.

(* ------------------------------------------------------------------ *)
(* 2. a traversal only looks at its function on the (occurrence, flag) pairs of the node *)

Section TravCongr.
  Context {S : Type} (f f' : bool -> slot -> S -> slot * S).

  Lemma trav_vals_congr : forall bound m st,
    (forall x b, In (x, b) (map (fun x => (x, negb (existsb (N.eqb x) bound))) (values_vec m)) -> forall st0, f b x st0 = f' b x st0) ->
    trav_vals f bound m st = trav_vals f' bound m st.
  Proof.
    intros bound. induction m as [|[k v] t IH]; intros st H; cbn [trav_vals]; [reflexivity|].
    rewrite (H v (negb (existsb (N.eqb v) bound))) by (cbn [values_vec map snd]; left; reflexivity).
    destruct (f' (negb (existsb (N.eqb v) bound)) v st) as [v' st1].
    rewrite IH; [reflexivity|]. intros x b Hin. apply H. cbn [values_vec map snd]. right. exact Hin.
  Qed.

  Lemma trav_f_congr : forall a bound st,
    (forall x b, In (x, b) (occ_flags_f bound a) -> forall st0, f b x st0 = f' b x st0) ->
    trav_f f bound a st = trav_f f' bound a st.
  Proof.
    induction a as [x0|y|x0 b0 IH|p]; intros bound st H; cbn [trav_f occ_flags_f] in *.
    - rewrite H by (left; reflexivity). reflexivity.
    - rewrite (trav_vals_congr bound (am y) st H). reflexivity.
    - rewrite (H x0 false) by (left; reflexivity). destruct (f' false x0 st) as [s' st1].
      rewrite (IH (x0 :: bound) st1); [reflexivity|]. intros x b Hin. apply H. right. exact Hin.
    - reflexivity.
  Qed.

  Lemma trav_args_congr : forall l st,
    (forall x b, In (x, b) (flat_map (occ_flags_f []) l) -> forall st0, f b x st0 = f' b x st0) ->
    trav_args f l st = trav_args f' l st.
  Proof.
    induction l as [|a t IH]; intros st H; cbn [trav_args flat_map] in *; [reflexivity|].
    rewrite (trav_f_congr a [] st) by (intros x b Hin; apply H; apply in_or_app; left; exact Hin).
    destruct (trav_f f' [] a st) as [a' st1].
    rewrite (IH st1) by (intros x b Hin; apply H; apply in_or_app; right; exact Hin). reflexivity.
  Qed.

  Lemma trav_congr : forall n st,
    (forall x b, In (x, b) (occ_flags n) -> forall st0, f b x st0 = f' b x st0) -> trav f n st = trav f' n st.
  Proof. intros n st H. unfold trav. rewrite (trav_args_congr (nargs n) st H). reflexivity. Qed.
End TravCongr.

(* ------------------------------------------------------------------ *)
(* 3. `apply_slotmap_fresh` with a PARTIAL map on a node none of whose public names is also a binder is a renaming:
      covered public names by the map, uncovered ones by pairwise distinct fresh names *)

Definition aInv (m : slotmap) (c : N) (st : slotmap * N) : Prop :=
  c <= snd st /\ (forall k v, get (fst st) k = Some v -> v < snd st) /\ injective (fst st) /\
  (forall k v, get (fst st) k = Some v -> get m k = Some v \/ c <= v) /\
  (forall k v, get m k = Some v -> get (fst st) k = Some v).

Lemma a_step : forall cs m c b x st, aInv m c st ->
  aInv m c (snd (rnF cs b x st)) /\ rnExt st (snd (rnF cs b x st)) /\
  fst (rnF cs b x st) = rnG cs (snd (rnF cs b x st)) b x /\ rnD cs (snd (rnF cs b x st)) x.
Proof.
  intros cs m c b x [rho c1] (L & V & Inj & Org & Sub). unfold rnF, rnG, rnD, aInv, rnExt. cbn [fst snd] in *.
  destruct (sset_mem x cs) eqn:Em; cbn [fst snd].
  - rewrite ?Em. split; [repeat split; assumption|]. split; [split; [lia|auto]|]. split; [reflexivity|left; reflexivity].
  - destruct (get rho x) as [v|] eqn:G; cbn [fst snd].
    + rewrite ?Em, ?G. split; [repeat split; assumption|]. split; [split; [lia|auto]|].
      split; [reflexivity|right; congruence].
    + rewrite ?Em. rewrite ?get_insert_any, ?N.eqb_refl. split; [|split; [|split; [reflexivity|right; discriminate]]].
      * split; [lia|]. split; [|split; [|split]].
        -- intros k v Gk. rewrite get_insert_any in Gk. destruct (k =? x); [inversion Gk; subst; lia|].
           pose proof (V k v Gk). lia.
        -- intros k1 k2 v G1 G2. rewrite get_insert_any in G1, G2.
           destruct (k1 =? x) eqn:E1, (k2 =? x) eqn:E2; neq.
           ++ congruence.
           ++ inversion G1; subst v. pose proof (V k2 c1 G2). lia.
           ++ inversion G2; subst v. pose proof (V k1 c1 G1). lia.
           ++ eapply Inj; eauto.
        -- intros k v Gk. rewrite get_insert_any in Gk. destruct (k =? x); [inversion Gk; subst; right; lia|].
           exact (Org k v Gk).
        -- intros k v Gk. rewrite get_insert_any. destruct (k =? x) eqn:E; neq; [|exact (Sub k v Gk)].
           subst k. rewrite (Sub x v Gk) in G. discriminate.
      * split; [lia|]. intros k v Gk. rewrite get_insert_any. destruct (k =? x) eqn:E; neq; [congruence|exact Gk].
Qed.

Lemma asf_clean_ren : forall m n c n' c',
  (forall x, In x (pub_occ n) -> ~ In x (binders n)) ->
  injective m -> (forall k v, get m k = Some v -> v < c) ->
  apply_slotmap_fresh false m n c = (n', c') ->
  exists g, n' = RenameFacts.ren g n /\ c <= c' /\
    (forall b fl, In b (binders n) -> g fl b = b) /\
    (forall x fl, g fl x = g true x) /\
    inj_on (g true) (pub_occ n) /\
    (forall x, In x (pub_occ n) -> get m x = Some (g true x) \/ (get m x = None /\ c <= g true x < c')).
Proof.
  intros m n c n' c' Cl Im Vm H. unfold apply_slotmap_fresh in H.
  set (BND := sset_of_list (binders n)).
  assert (Bin : forall x, sset_mem x BND = true <-> In x (binders n)).
  { intros x. unfold BND. rewrite sset_mem_in. apply (proj2 (sset_of_list_spec _)). }
  match type of H with context [trav ?F n (m, c)] => set (F0 := F) in H end.
  assert (E : trav F0 n (m, c) = trav (rnF BND) n (m, c)).
  { apply trav_congr. intros x b Hin st0. unfold F0, rnF. destruct b.
    - apply occ_flags_true_pub in Hin. assert (Em : sset_mem x BND = false).
      { destruct (sset_mem x BND) eqn:Em; [|reflexivity]. apply Bin in Em. exfalso. exact (Cl x Hin Em). }
      rewrite Em. reflexivity.
    - apply occ_flags_false_binders in Hin. rewrite (proj2 (Bin x) Hin). reflexivity. }
  rewrite E in H. clear E F0.
  pose proof (trav_ext_ren (rnF BND) (rnG BND) (aInv m c) rnExt (rnD BND)) as T.
  assert (I0 : aInv m c (m, c)).
  { unfold aInv. cbn [fst snd]. split; [lia|]. split; [exact Vm|]. split; [exact Im|]. split; [intros k v G; left; exact G|auto]. }
  destruct (T (fun st => conj (N.le_refl _) (fun k v G => G))
              (fun a b c (H1 : rnExt a b) (H2 : rnExt b c) =>
                 conj (N.le_trans _ _ _ (proj1 H1) (proj1 H2)) (fun k v G => proj2 H2 k v (proj2 H1 k v G)))
              (a_step BND m c) (rn_stable BND) n (m, c) I0) as (A & _ & C & D).
  destruct (trav (rnF BND) n (m, c)) as [n1 [rho c1]] eqn:ET. inversion H; subst n1 c1. clear H.
  cbn [fst snd] in A, C, D. destruct A as (L & V & Inj & Org & Sub). cbn [fst snd] in L, V, Inj, Org, Sub.
  exists (rnG BND (rho, c')). split; [exact C|]. split; [exact L|].
  assert (Pg : forall x, In x (pub_occ n) -> exists v, get rho x = Some v /\ rnG BND (rho, c') true x = v).
  { intros x Hx. assert (Em : sset_mem x BND = false).
    { destruct (sset_mem x BND) eqn:Em; [|reflexivity]. apply Bin in Em. exfalso. exact (Cl x Hx Em). }
    destruct (D x (pub_occ_all_occ _ _ Hx)) as [Dm|Dg]; [congruence|]. cbn [fst] in Dg.
    destruct (get rho x) as [v|] eqn:G; [|congruence]. exists v. split; [reflexivity|].
    unfold rnG. cbn [fst]. rewrite Em, G. reflexivity. }
  split; [|split; [|split]].
  - intros b fl Hb. unfold rnG. rewrite (proj2 (Bin b) Hb). reflexivity.
  - intros x fl. reflexivity.
  - intros x y Hx Hy Exy. destruct (Pg x Hx) as (vx & Gx & Ex). destruct (Pg y Hy) as (vy & Gy & Ey).
    rewrite Ex, Ey in Exy. subst vy. eapply Inj; eauto.
  - intros x Hx. destruct (Pg x Hx) as (v & G & Ev). rewrite Ev.
    destruct (Org x v G) as [Gm|Lv]; [left; exact Gm|]. right.
    split; [|split; [exact Lv|exact (V x v G)]].
    destruct (get m x) as [w|] eqn:Gm; [|reflexivity]. pose proof (Sub x w Gm) as G'. rewrite G in G'. inversion G'; subst w.
    pose proof (Vm x v Gm). lia.
Qed.

(* ------------------------------------------------------------------ *)
(* 4. `refresh_internals` is a flag-independent renaming: the names in `public` stay, every other name gets a fresh one *)

Lemma refresh_internals_ren : forall public n c l1 c1,
  refresh_internals public n c = (Ok l1, c1) ->
  exists g, l1 = RenameFacts.ren g n /\ c <= c1 /\
    (forall x fl, g fl x = g true x) /\
    (forall x, In x (all_occ n) -> In x public -> g true x = x) /\
    (forall x, In x (all_occ n) -> ~ In x public -> c <= g true x < c1) /\
    (forall x y, In x (all_occ n) -> In y (all_occ n) -> ~ In x public -> ~ In y public -> g true x = g true y -> x = y).
Proof.
  intros public n c l1 c1 H. unfold refresh_internals, refresh_by in H.
  set (internals := sset_diff (sset_of_list (all_occ n)) public) in *.
  destruct (bijection_from_fresh_to internals c) as [bf c'] eqn:Ebf. inversion H as [[H1 H2]]. subst c'. clear H.
  assert (Sw : swf internals).
  { unfold internals, sset_diff. apply swf_filter. apply (proj1 (sset_of_list_spec _)). }
  assert (Iin : forall x, In x internals <-> In x (all_occ n) /\ ~ In x public).
  { intros x. unfold internals, sset_diff. rewrite filter_In, (proj2 (sset_of_list_spec _)). split.
    - intros [A B]. split; [exact A|]. intros Q. apply sset_mem_in in Q. rewrite Q in B. discriminate.
    - intros [A B]. split; [exact A|]. destruct (sset_mem x public) eqn:Q; [|reflexivity]. apply sset_mem_in in Q. contradiction. }
  destruct (fresh_spec internals c bf c1 Sw Ebf) as (F1 & F2).
  pose proof (bijection_from_fresh_to_step internals c) as St. rewrite Ebf in St. cbn [snd] in St.
  apply trav_res_ren in H1.
  set (g := fun (b : bool) (x : slot) =>
              match (if sset_mem x internals then index (inverse_nocheck bf) x else Ok x) with Ok y => y | Err _ => x end) in *.
  exists g. split; [exact H1|]. split; [destruct St as [k ->]; lia|]. split; [reflexivity|]. split; [|split].
  - intros x Hx Hp. unfold g. destruct (sset_mem x internals) eqn:Em; [|reflexivity].
    apply sset_mem_in, Iin in Em. tauto.
  - intros x Hx Hp. unfold g. rewrite (proj2 (sset_mem_in _ _) (proj2 (Iin x) (conj Hx Hp))).
    destruct (F1 x (proj2 (Iin x) (conj Hx Hp))) as (y & Gy & Ry & _). unfold index. rewrite Gy. exact Ry.
  - intros x y Hx Hy Px Py E. unfold g in E.
    rewrite (proj2 (sset_mem_in _ _) (proj2 (Iin x) (conj Hx Px))), (proj2 (sset_mem_in _ _) (proj2 (Iin y) (conj Hy Py))) in E.
    destruct (F1 x (proj2 (Iin x) (conj Hx Px))) as (vx & Gx & _). destruct (F1 y (proj2 (Iin y) (conj Hy Py))) as (vy & Gy & _).
    unfold index in E. rewrite Gx, Gy in E. subst vy. exact (F2 x y vx Gx Gy).
Qed.

(* ------------------------------------------------------------------ *)
(* 5. the stored e-nodes of a state that satisfies the reachable-state invariants *)

(* what a hit of the lookup looks like (`filt` is CongruenceFacts.filt: the restriction to the slots of the class) *)
Lemma lookup_hit : forall s n a, Extractor.eg_lookup s n = Ok (Some a) ->
  exists sh bn i c cb src, shape s n = Ok (sh, bn) /\ na_get (hashcons s) sh = Some i /\ get_class s i = Ok c /\ na_get (c_nodes c) sh = Some (cb, src) /\ a = {| aid := i; am := filt c (inv cb ** bn) |}.
Proof.
  intros s n a H. unfold Extractor.eg_lookup in H.
  destruct (shape s n) as [[sh bn]|] eqn:Hsh; cbn [bind] in H; [|discriminate].
  destruct (lookup_internal_inv _ _ _ _ H) as (i & c & cb & src & Hh & Hc & G & ->).
  exists sh, bn, i, c, cb, src. auto 10.
Qed.

(* the map of the invocation a lookup returns is injective and its values are public names of the node *)
Lemma lookup_map_facts : forall s n a, nodes_ok s -> Extractor.eg_lookup s n = Ok (Some a) ->
  injective (am a) /\ forall k v, get (am a) k = Some v -> In v (pub_occ n).
Proof.
  intros s n a NO H. destruct (lookup_hit s n a H) as (sh & bn & i & c & cb & src & Hsh & Hh & Hc & G & ->). cbn [am].
  destruct (NO i c _ Hc (na_get_in _ _ _ G)) as (Wcb & Icb & _ & _). cbn [fst snd] in Wcb, Icb.
  unfold shape in Hsh. destruct (pre_shape s n) as [p|] eqn:P; cbn [bind] in Hsh; [|discriminate].
  destruct (shape_bij_props _ _ _ Hsh) as (Wb & Bb & Vb).
  assert (Ic : injective (inv cb ** bn)).
  { apply compose_injective; [apply inverse_wf|apply inv_injective; assumption|apply is_bijection_inj; exact Bb]. }
  split.
  - intros k1 k2 v G1 G2. unfold filt in G1, G2. rewrite (get_filter_key (fun k => sset_mem k (c_slots c))) in G1, G2.
    destruct (sset_mem k1 (c_slots c)); [|discriminate]. destruct (sset_mem k2 (c_slots c)); [|discriminate].
    eapply Ic; eauto.
  - intros k v G1. unfold filt in G1. rewrite (get_filter_key (fun k => sset_mem k (c_slots c))) in G1.
    destruct (sset_mem k (c_slots c)); [|discriminate].
    rewrite get_compose_partial in G1 by apply inverse_wf. destruct (get (inv cb) k) as [k'|]; [|discriminate].
    assert (Hv : In v (pub_occ p)) by (apply Vb; eauto).
    unfold pre_shape in P.
    destruct (find_enode s n) as [n1|] eqn:F1; cbn [bind] in P; [|discriminate].
    destruct (variants s n1) as [vs|] eqn:V; cbn [bind] in P; [|discriminate].
    apply min_variant_in in P. destruct P as [P|[k0 P]]; [|discriminate].
    destruct (find_enode_sub s n n1 F1) as (_ & P1). destruct (variants_sub s n1 vs p V P) as (_ & P2).
    apply P1, P2, Hv.
Qed.

Section Nf.
  Variable s : egraph.
  Hypothesis MI : match_inv s.
  Hypothesis SS : ss_ok s.

  Lemma enode_facts : forall j cj sh bij src x, get_class s j = Ok cj -> In (sh, (bij, src)) (c_nodes cj) ->
    apply_slotmap false bij sh = Ok x ->
    x = RenameFacts.ren (asm_g bij) sh /\ ren_ok (asm_g bij) sh /\ binders x = binders sh /\
    (forall b, In b (binders x) -> b mod 4 = 0) /\ NoDup (binders x) /\
    (forall p, In p (pub_occ x) -> p mod 4 = 1) /\
    (forall a, In a (app_occ x) -> lkid s a /\ ckid s a) /\
    exists b1x, wshape x = Ok (sh, b1x) /\
       (forall k, In k (pub_occ sh) -> get b1x k = Some (asm_g bij true k)) /\
       (forall k v, get b1x k = Some v -> In k (pub_occ sh)).
  Proof.
    intros j cj sh bij src x Hc Hin H1.
    destruct MI as [I3 K0 M4' Hhc Hpe Hl]. pose proof (m4_cls4 _ M4') as M4.
    assert (EI : eg_inv s) by (destruct I3 as [[EI _] _]; exact EI).
    pose proof (apply_slotmap_total _ _ _ H1) as Tot0.
    destruct I3 as [_ NO].
    assert (Bx0 : binders x = binders sh) by (rewrite (apply_slotmap_ren _ _ _ H1); apply binders_asm).
    destruct (K0 j cj _ Hc Hin) as [Sh4 _]. cbn [fst] in Sh4.
    pose proof (in_stored s Hhc _ _ _ _ Hc Hin) as St.
    destruct (NO j cj _ Hc Hin) as (Wb & Inj & Kb & Sb). cbn [fst snd] in Wb, Inj, Kb, Sb.
    pose proof (cls4_bij4 _ M4) as B4.
    destruct (tb_ws s (proj1 Hhc) _ _ _ St) as (n9 & b9 & W9).
    destruct (shape_idempotent _ _ _ W9) as (b0 & W0). change (wshape sh = Ok (sh, b0)) in W0.
    destruct (shape_bij _ _ _ W0) as (_ & Kb0 & Mb0).
    pose proof (map_some_self (fun k => get b0 k) (pub_occ sh) Mb0) as Gb0. cbv beta in Gb0.
    assert (R0 : ren_ok (asm_g bij) sh).
    { split; [|split].
      - intros a b _ _ E. exact E.
      - intros a b Ha Hb E. unfold asm_g in E. destruct (get bij a) as [y|] eqn:G; [|apply (Tot0 a Ha); exact G].
        pose proof (B4 j cj sh bij src a y Hc Hin G) as Y1. pose proof (Sh4 b (binders_all_occ _ _ Hb)) as Y0. subst y. lia.
      - intros a b Ha Hb E. unfold asm_g in E.
        destruct (get bij a) as [u|] eqn:Gx; [|exfalso; apply (Tot0 a Ha); exact Gx].
        destruct (get bij b) as [v|] eqn:Gy; [|exfalso; apply (Tot0 b Hb); exact Gy]. subst v. eapply Inj; eauto. }
    pose proof (apply_slotmap_ren _ _ _ H1) as Ex0.
    split; [exact Ex0|]. split; [exact R0|]. split; [exact Bx0|]. split.
    { intros b Hb. rewrite Bx0 in Hb. exact (Sh4 b (binders_all_occ _ _ Hb)). }
    split. { rewrite Bx0. exact (ws_binders_nodup _ _ _ W9). }
    split.
    { intros p Hp. rewrite Ex0 in Hp.
      destruct (pub_occ_ren_sub (asm_g bij) sh p (fun _ => eq_refl) Hp) as (p' & Hp' & ->).
      unfold asm_g. destruct (get bij p') as [y|] eqn:G; [|exfalso; exact (Tot0 p' Hp' G)].
      exact (B4 j cj sh bij src p' y Hc Hin G). }
    split.
    { pose proof (stored_applied_kids s j cj sh bij src x NO K0 B4 Hc Hin H1) as Kd.
      destruct (stored_canonical _ _ _ _ Hhc Hpe St) as [_ (b0' & Hb0')].
      destruct (shape_fix_lkid s sh b0' EI Hb0') as (p & Ep & _ & Lp).
      assert (Sk : skel x = skel p) by (rewrite Ex0, ren_skel; exact Ep).
      assert (Lk : forall a, In a (app_occ x) -> lkid s a).
      { apply (skel_lkid s x p Sk Lp). intros a Ha. exact (proj2 (proj1 (Forall_forall _ _) Kd a Ha)). }
      intros a Ha. split; [exact (Lk a Ha)|].
      apply lkid_covers_ckid; [exact (Lk a Ha)|exact (proj1 (proj1 (Forall_forall _ _) Kd a Ha))]. }
    destruct (ren_ok_ws _ _ _ _ R0 W0) as (b1 & W1 & Gb1). rewrite <- Ex0 in W1.
    exists b1. split; [exact W1|]. split.
    - intros k Hk. rewrite Gb1, (Gb0 k Hk). reflexivity.
    - intros k v G. rewrite Gb1 in G. destruct (get b0 k) as [u|] eqn:G0; [|discriminate].
      apply Kb0. rewrite G0. discriminate.
  Qed.
  (* the lookup of a stored e-node x = sh[bij] of class j hits its own entry *)
  Lemma lookup_stored : forall j cj sh bij src x a0, get_class s j = Ok cj -> In (sh, (bij, src)) (c_nodes cj) ->
    apply_slotmap false bij sh = Ok x -> Extractor.eg_lookup s x = Ok (Some a0) ->
    exists bx, shape s x = Ok (sh, bx) /\ a0 = {| aid := j; am := filt cj (inv bij ** bx) |}.
  Proof.
    intros j cj sh bij src x a0 Hc Hin H1 L0.
    destruct (enode_facts j cj sh bij src x Hc Hin H1) as (Ex0 & (R1 & R2 & R3) & _).
    destruct MI as [I3 K0 M4' Hhc Hpe Hl].
    pose proof (in_stored s Hhc _ _ _ _ Hc Hin) as St.
    destruct (stored_canonical _ _ _ _ Hhc Hpe St) as [_ (b0' & Hb0')].
    destruct (shape_ren s (asm_g bij) sh (sh, b0') R1 R2 R3 Hb0') as (bx & Hbx). cbn [fst] in Hbx. rewrite <- Ex0 in Hbx.
    exists bx. split; [exact Hbx|].
    destruct (lookup_hit s x a0 L0) as (sh' & bn & i & c & cb & src' & Hsh & Hh & Hc' & G & ->).
    rewrite Hbx in Hsh. inversion Hsh; subst sh' bn.
    rewrite (tb_bwd s (proj1 Hhc) _ _ _ St) in Hh. inversion Hh; subst i.
    rewrite Hc in Hc'. inversion Hc'; subst c.
    unfold stored, cnodes in St. rewrite Hc in St. rewrite St in G. inversion G; subst cb src'. reflexivity.
  Qed.

  (* THE KEY FACT: the values of that invocation are slots of the class (self-symmetry completeness) *)
  Lemma lookup_values_class : forall j cj sh bij src x a0, get_class s j = Ok cj -> In (sh, (bij, src)) (c_nodes cj) ->
    apply_slotmap false bij sh = Ok x -> Extractor.eg_lookup s x = Ok (Some a0) ->
    aid a0 = j /\ forall v, In v (values (am a0)) -> In v (c_slots cj).
  Proof.
    intros j cj sh bij src x a0 Hc Hin H1 L0.
    destruct (lookup_stored j cj sh bij src x a0 Hc Hin H1 L0) as (bx & Hbx & ->). cbn [aid am]. split; [reflexivity|].
    destruct (enode_facts j cj sh bij src x Hc Hin H1) as (Ex0 & R0 & Bx & B4x & NDx & P4x & Kids & b1x & W1 & Gb1 & Kb1).
    destruct MI as [I3 K0 M4' Hhc Hpe Hl].
    assert (EI : eg_inv s) by (destruct I3 as [[EI _] _]; exact EI).
    destruct I3 as [_ NO].
    pose proof (in_stored s Hhc _ _ _ _ Hc Hin) as St.
    assert (G : na_get (c_nodes cj) sh = Some (bij, src)) by (unfold stored, cnodes in St; rewrite Hc in St; exact St).
    destruct (NO j cj _ Hc Hin) as (Wb & Inj & _ & _). cbn [fst snd] in Wb, Inj.
    pose proof (proj2 (is_bijection_injective bij Wb) Inj) as Bb.
    (* x is fixed by find_enode and heads its variants *)
    assert (Fx : find_enode s x = Ok x).
    { unfold find_enode. rewrite (mapr_id (find_applied_id s) (app_occ x)).
      - cbn [bind]. rewrite set_apps_self. reflexivity.
      - intros a Ha. apply lkid_fixed; [exact (ei_uf _ EI)|exact (proj1 (Kids a Ha))]. }
    unfold shape, pre_shape in Hbx. rewrite Fx in Hbx. cbn [bind] in Hbx.
    destruct (variants s x) as [vs|] eqn:V; cbn [bind] in Hbx; [|discriminate].
    destruct (min_variant vs None) as [p|] eqn:P; cbn [bind] in Hbx; [|discriminate].
    apply min_variant_in in P. destruct P as [P|[k0 P]]; [|discriminate].
    destruct (variants_head s x vs (fun a Ha => proj1 (Kids a Ha)) V) as (tl & Evs).
    assert (Ix : In x vs) by (rewrite Evs; left; reflexivity).
    pose proof (ss_ok_var s EI NO Hhc SS sh j cj bij src x vs x p b1x bx Hc G (fun a Ha => proj2 (Kids a Ha)) NDx V Ix P W1 Hbx) as E.
    destruct (eg_eq_true_inv _ _ _ E) as (a' & b' & c' & Fa & Fb & _ & Vals & _).
    (* both invocations are their own canonical forms: class j is a leader *)
    assert (Lj : leader s j).
    { apply (Hl j cj Hc). intros Q. rewrite Q in Hin. destruct Hin. }
    destruct Lj as (e & He & Hae).
    pose proof (uso_leader s (ei_slots _ EI) j e cj He Hae Hc) as Ke.
    assert (Fix : forall m, wf m -> find_applied_id s {| aid := j; am := filt cj m |} = Ok {| aid := j; am := filt cj m |}).
    { intros m Wm. apply (find_leader_fixed s _ e (ei_uf _ EI)); cbn [aid am]; [exact He|exact Hae| |].
      - unfold filt. apply (filter_key_wf (fun k => sset_mem k (c_slots cj))). exact Wm.
      - intros k Hk. unfold filt in Hk. rewrite (get_filter_key (fun k => sset_mem k (c_slots cj))) in Hk.
        destruct (sset_mem k (c_slots cj)) eqn:Em; [|congruence]. apply sset_mem_in in Em.
        apply keys_spec. rewrite Ke. exact Em. }
    rewrite (Fix _ (compose_partial_wf _ _)) in Fa. rewrite (Fix _ (compose_partial_wf _ _)) in Fb.
    inversion Fa; subst a'. inversion Fb; subst b'. cbn [am] in Vals.
    intros v Hv. rewrite <- Vals in Hv.
    assert (Wf1 : wf (filt cj (inv bij ** b1x))).
    { unfold filt. apply (filter_key_wf (fun k => sset_mem k (c_slots cj))). apply compose_partial_wf. }
    apply (values_spec _ _ Wf1) in Hv. destruct Hv as (y & Gy).
    unfold filt in Gy. rewrite (get_filter_key (fun k => sset_mem k (c_slots cj))) in Gy.
    destruct (sset_mem y (c_slots cj)) eqn:Em; [|discriminate]. apply sset_mem_in in Em.
    rewrite get_compose_partial in Gy by apply inverse_wf.
    destruct (get (inv bij) y) as [k|] eqn:Gk; [|discriminate].
    pose proof (Kb1 k v Gy) as Hk. rewrite (Gb1 k Hk) in Gy. inversion Gy; subst v.
    apply (get_inverse bij _ _ Wb Bb) in Gk. unfold asm_g. rewrite Gk. exact Em.
  Qed.

  (* ---------------- class_nf of a stored e-node, from a counter that is not below the counter of the state ---------------- *)
  Theorem nf_stored : forall c j cj sh bij src x x' s1', Model.ctr s <= c ->
    get_class s j = Ok cj -> In (sh, (bij, src)) (c_nodes cj) -> apply_slotmap false bij sh = Ok x ->
    class_nf x (set_ctr s c) = Ok (x', s1') ->
    exists a', Extractor.eg_lookup s x' = Ok (Some a') /\ aid a' = j.
  Proof.
    intros c j cj sh bij src x x' s1' Lc Hc Hin H1 H.
    destruct (enode_facts j cj sh bij src x Hc Hin H1) as (Ex0 & R0 & Bx & B4x & NDx & P4x & Kids & _).
    pose proof (mi_inv3 s MI) as I3. pose proof (m4_cls4 _ (mi_m4 s MI)) as M4.
    destruct (class_facts s I3 M4 j cj Hc) as [S1c Below].
    assert (NO : nodes_ok s) by (destruct I3 as [_ NO]; exact NO).
    (* unfold class_nf *)
    unfold class_nf in H.
    apply mbind_inv in H. destruct H as (l1 & s1 & Hr & H).
    apply mbind_inv in H. destruct H as (i1 & s2 & H2 & H).
    apply reads_inv in H2. destruct H2 as [H2 ->].
    unfold eg_refresh_internals in Hr. apply mbind_inv in Hr. destruct Hr as (i0 & s0 & H0 & Hr).
    apply reads_inv in H0. destruct H0 as [H0 ->].
    unfold lift_ctr in Hr. cbn [Model.ctr set_ctr] in Hr.
    destruct (refresh_internals (values (am i0)) x c) as [[r|e] c1] eqn:R; [|discriminate].
    inversion Hr; subst l1 s1. clear Hr.
    change (eg_lookup_unwrap s x = Ok i0) in H0. unfold eg_lookup_unwrap in H0.
    destruct (Extractor.eg_lookup s x) as [[a0|]|] eqn:L0; cbn [bind] in H0; try discriminate. inversion H0; subst i0. clear H0.
    destruct (lookup_values_class j cj sh bij src x a0 Hc Hin H1 L0) as [Ea0 Kv].
    (* stage 1 *)
    destruct (refresh_internals_ren _ _ _ _ _ R) as (g1 & El1 & Lc1 & Fl1 & Keep & Fresh & Inj1).
    assert (PubLt : forall a, In a (values (am a0)) -> a < c) by (intros a Ha; pose proof (Below a (Kv a Ha)); lia).
    assert (InjAll : forall a b, In a (all_occ x) -> In b (all_occ x) -> g1 true a = g1 true b -> a = b).
    { intros a b Ha Hb E.
      destruct (sset_mem a (values (am a0))) eqn:Ma, (sset_mem b (values (am a0))) eqn:Mb.
      - apply sset_mem_in in Ma, Mb. rewrite (Keep a Ha Ma), (Keep b Hb Mb) in E. exact E.
      - apply sset_mem_in in Ma. assert (Nb : ~ In b (values (am a0))) by (intros Q; apply sset_mem_in in Q; congruence).
        rewrite (Keep a Ha Ma) in E. pose proof (Fresh b Hb Nb). pose proof (PubLt a Ma). lia.
      - apply sset_mem_in in Mb. assert (Na : ~ In a (values (am a0))) by (intros Q; apply sset_mem_in in Q; congruence).
        rewrite (Keep b Hb Mb) in E. pose proof (Fresh a Ha Na). pose proof (PubLt b Mb). lia.
      - assert (Na : ~ In a (values (am a0))) by (intros Q; apply sset_mem_in in Q; congruence).
        assert (Nb : ~ In b (values (am a0))) by (intros Q; apply sset_mem_in in Q; congruence).
        exact (Inj1 a b Ha Hb Na Nb E). }
    assert (PB : forall a b, In a (pub_occ x) -> In b (binders x) -> a <> b).
    { intros a b Ha Hb ->. pose proof (P4x b Ha). pose proof (B4x b Hb). lia. }
    assert (RO1 : ren_ok g1 x).
    { split; [|split].
      - intros a b Ha Hb E. apply InjAll; [apply binders_all_occ; exact Ha|apply binders_all_occ; exact Hb|].
        rewrite (Fl1 a false), (Fl1 b false) in E. exact E.
      - intros a b Ha Hb E. rewrite (Fl1 b false) in E. apply (PB a b Ha Hb).
        apply InjAll; [apply pub_occ_all_occ; exact Ha|apply binders_all_occ; exact Hb|exact E].
      - intros a b Ha Hb E. apply InjAll; [apply pub_occ_all_occ; exact Ha|apply pub_occ_all_occ; exact Hb|exact E]. }
    destruct (lookup_ren s g1 x a0 RO1 L0) as (a1 & L1 & Ea1). rewrite <- El1 in L1.
    change (eg_lookup_unwrap s r = Ok i1) in H2. unfold eg_lookup_unwrap in H2. rewrite L1 in H2. cbn [bind] in H2.
    inversion H2; subst i1. clear H2.
    (* the slots of r = ren g1 x *)
    destruct RO1 as (G11 & G12 & G13).
    assert (Pr : pub_occ r = map (g1 true) (pub_occ x)) by (rewrite El1; apply ren_pub_occ; assumption).
    assert (Br : binders r = map (g1 false) (binders x)) by (rewrite El1; apply ren_binders).
    assert (PrLt : forall v, In v (pub_occ r) -> v < c1).
    { intros v Hv. rewrite Pr in Hv. apply in_map_iff in Hv. destruct Hv as (a & <- & Ha).
      destruct (sset_mem a (values (am a0))) eqn:Ma.
      - apply sset_mem_in in Ma. rewrite (Keep a (pub_occ_all_occ _ _ Ha) Ma). pose proof (PubLt a Ma). lia.
      - assert (Na : ~ In a (values (am a0))) by (intros Q; apply sset_mem_in in Q; congruence).
        pose proof (Fresh a (pub_occ_all_occ _ _ Ha) Na). lia. }
    assert (BrLt : forall b, In b (binders r) -> b < c1).
    { intros v Hv. rewrite Br in Hv. apply in_map_iff in Hv. destruct Hv as (b & <- & Hb). rewrite (Fl1 b false).
      assert (Nb : ~ In b (values (am a0))).
      { intros Q. pose proof (S1c b (Kv b Q)) as Z. unfold ok1 in Z. pose proof (B4x b Hb). lia. }
      pose proof (Fresh b (binders_all_occ _ _ Hb) Nb). lia. }
    assert (Clr : forall p, In p (pub_occ r) -> ~ In p (binders r)).
    { intros p Hp Hb. rewrite Pr in Hp. rewrite Br in Hb. apply in_map_iff in Hp, Hb.
      destruct Hp as (a & <- & Ha). destruct Hb as (b & E & Hb). rewrite (Fl1 b false) in E.
      apply (PB a b Ha Hb). symmetry.
      apply InjAll; [apply binders_all_occ; exact Hb|apply pub_occ_all_occ; exact Ha|exact E]. }
    (* stage 2 *)
    destruct (lookup_map_facts s r a1 NO L1) as [Im1 Vm1].
    unfold with_ctr in H. cbn [Model.ctr set_ctr] in H.
    destruct (apply_slotmap_fresh false (am a1) r c1) as [x2 c2] eqn:A. inversion H; subst x2 s1'. clear H.
    destruct (asf_clean_ren (am a1) r c1 x' c2 Clr Im1 (fun k v G => PrLt v (Vm1 k v G)) A)
      as (g2 & Ex' & Lc2 & Gb2 & Fl2 & Inj2 & Sp2).
    assert (RO2 : ren_ok g2 r).
    { split; [|split].
      - intros a b Ha Hb E. rewrite (Gb2 a false Ha), (Gb2 b false Hb) in E. exact E.
      - intros a b Ha Hb E. rewrite (Gb2 b false Hb) in E. destruct (Sp2 a Ha) as [Gm|(_ & Lv)].
        + apply (Clr (g2 true a)); [exact (Vm1 a _ Gm)|rewrite E; exact Hb].
        + pose proof (BrLt b Hb). lia.
      - exact Inj2. }
    destruct (lookup_ren s g2 r a1 RO2 L1) as (a2 & L2 & Ea2). rewrite <- Ex' in L2.
    exists a2. split; [exact L2|]. congruence.
  Qed.
End Nf.

(* ------------------------------------------------------------------ *)
(* 6. for the stored e-nodes as `snodes` lists them *)
Theorem nf_ok_ge : forall s, match_inv s -> ss_ok s ->
  forall c j x x' s1', Model.ctr s <= c -> In (j, x) (snodes s) -> class_nf x (set_ctr s c) = Ok (x', s1') ->
    exists a', Extractor.eg_lookup s x' = Ok (Some a') /\ aid a' = j.
Proof.
  intros s MI SS c j x x' s1' Lc Hin H. apply snodes_in in Hin. destruct Hin as (_ & ns & En & Hx).
  destruct (UsagesOk.enodes_inv s j ns En) as (cj & Hc & Sp). apply Sp in Hx.
  destruct Hx as (sh & bij & src & Hi & Ha).
  exact (nf_stored s MI SS c j cj sh bij src x x' s1' Lc Hc Hi Ha H).
Qed.

Print Assumptions lookup_ren.
Print Assumptions asf_clean_ren.
Print Assumptions refresh_internals_ren.
Print Assumptions lookup_values_class.
Print Assumptions nf_stored.
Print Assumptions nf_ok_ge.
