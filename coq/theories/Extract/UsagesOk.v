(* Extract/UsagesOk.v — the hypothesis `usages_ok s` of the extractor bridge (Extract/ExtractorFacts.v, section 2)
   follows from invariants of the reachable states:

     usages_ok_inv : forall s, match_inv s -> stored2 s -> uses_conv s -> usages_ok s.

   Premises.  `match_inv s` (EGraph/MatchReprFacts.v: inv3, kids_ok, m4, hc_ok, pending = [], stored_live; reachable:
   `match_inv_reachable`), `uses_conv s` (EGraph/UsesConvDef.v: the converse of `tb_use`), and `stored2 s`
   (EGraph/SoundStruct.v, reachable: `reachable_stored2`, no premise on the run): the stored bijection of every entry
   is total on the public slots of its key.  `stored2` IS needed: `snodes s` lists the nodes of `enodes s j`, and
   `enodes s j` fails as soon as `apply_slotmap false bij sh` fails for ONE entry of class j, i.e. when a public slot
   of sh is not a key of bij; `nodes_ok` (inv3) only gives the other inclusion (keys bij ⊆ public slots of sh).
   Without it an element of `usages s i` (which applies the bijection of ONE entry only) need not be listed.
   No axioms, no Admitted. *)
From SE Require Import EGraph.Model EGraph.ModelMachine EGraph.ModelFacts EGraph.UnionFindFacts EGraph.InvariantFacts
  EGraph.AddCoversFacts EGraph.Mod4Facts EGraph.HashconsFacts EGraph.ProgressFacts EGraph.MatchFacts
  EGraph.MatchLookup EGraph.StoredLive EGraph.SoundUnion EGraph.SoundStruct EGraph.SoundAddExpr EGraph.KidsFacts EGraph.MatchReprFacts EGraph.UsesConvDef
  Extract.Extractor Extract.ExtractorFacts.
Require Import ZArith Lia List.
Import ListNotations.

(* ------------------------------------------------------------------ *)
(* 1. lists *)

Lemma ns_dedup_in : forall l y, In y (ns_dedup l) <-> In y l.
Proof.
  intros l y. unfold ns_dedup.
  assert (G : forall t acc, In y (fold_left ns_add t acc) <-> In y acc \/ In y t).
  { induction t as [|x t IH]; intros acc; cbn [fold_left].
    - cbn [In]. tauto.
    - rewrite IH, HashconsFacts.ns_add_in. cbn [In]. split.
      + intros [[E|H]|H]; [right; left; symmetry; exact E|left; exact H|right; right; exact H].
      + intros [H|[E|H]]; [left; right; exact H|left; left; symmetry; exact E|right; exact H]. }
  rewrite G. cbn [In]. tauto.
Qed.

Lemma mapr_in : forall {A C} (f : A -> res C) l r, mapr f l = Ok r ->
  forall y, In y r <-> exists x, In x l /\ f x = Ok y.
Proof.
  intros A C f. induction l as [|x t IH]; intros r H y; cbn [mapr] in H.
  - inversion H. cbn [In]. split; [contradiction|]. intros (x & Hx & _). exact Hx.
  - destruct (f x) as [z|] eqn:E; cbn [bind] in H; [|discriminate].
    destruct (mapr f t) as [r'|] eqn:E'; cbn [bind] in H; [|discriminate]. inversion H; subst r. cbn [In].
    rewrite (IH r' eq_refl y). split.
    + intros [->|(x' & Hx' & Hf)]; [exists x; split; [left; reflexivity|exact E]|exists x'; split; [right; exact Hx'|exact Hf]].
    + intros (x' & [<-|Hx'] & Hf); [left; congruence|right; exists x'; split; assumption].
Qed.

Lemma mapr_total : forall {A C} (f : A -> res C) l, (forall x, In x l -> exists y, f x = Ok y) -> exists r, mapr f l = Ok r.
Proof.
  intros A C f. induction l as [|x t IH]; intros H; cbn [mapr]; [eexists; reflexivity|].
  destruct (H x (or_introl eq_refl)) as (y & Hy). rewrite Hy. cbn [bind].
  destruct (IH (fun z Hz => H z (or_intror Hz))) as (r & Hr). rewrite Hr. cbn [bind]. eexists; reflexivity.
Qed.

(* ------------------------------------------------------------------ *)
(* 2. `enodes` *)

Definition listed (c : eclass) (x : node) : Prop :=
  exists sh bij src, In (sh, (bij, src)) (c_nodes c) /\ apply_slotmap false bij sh = Ok x.

Lemma mapr_entries_in : forall c l, mapr (fun e : node * (slotmap * N) => apply_slotmap false (fst (snd e)) (fst e)) (c_nodes c) = Ok l ->
  forall x, In x l <-> listed c x.
Proof.
  intros c l H x. rewrite (mapr_in _ _ _ H x). unfold listed. split.
  - intros ([sh [bij src]] & Hin & Ha). cbn [fst snd] in Ha. exists sh, bij, src. split; assumption.
  - intros (sh & bij & src & Hin & Ha). exists (sh, (bij, src)). split; [exact Hin|exact Ha].
Qed.

Lemma enodes_inv : forall s j ns, enodes s j = Ok ns ->
  exists c, get_class s j = Ok c /\ forall x, In x ns <-> listed c x.
Proof.
  intros s j ns H. unfold enodes in H.
  destruct (is_alive s j) as [al|] eqn:Ea; cbn [bind] in H; [|discriminate].
  destruct (negb al); [discriminate|].
  destruct (get_class s j) as [c|] eqn:Ec; cbn [bind] in H; [|discriminate].
  destruct (mapr (fun e : node * (slotmap * N) => apply_slotmap false (fst (snd e)) (fst e)) (c_nodes c)) as [l|] eqn:El;
    cbn [bind] in H; [|discriminate].
  inversion H; subst ns. exists c. split; [reflexivity|]. intros x. rewrite ns_dedup_in. exact (mapr_entries_in c l El x).
Qed.

Lemma enodes_spec : forall s j c, stored2 s -> leader s j -> get_class s j = Ok c ->
  exists ns, enodes s j = Ok ns /\ forall x, In x ns <-> listed c x.
Proof.
  intros s j c S2 L Hc. unfold enodes. apply leader_is_alive in L. rewrite L. cbn [bind negb]. rewrite Hc. cbn [bind].
  destruct (mapr_total (fun e : node * (slotmap * N) => apply_slotmap false (fst (snd e)) (fst e)) (c_nodes c)) as (l & Hl).
  { intros e He. destruct (S2 j c e Hc He) as [_ Tot]. eexists. apply SoundUnion.apply_slotmap_ok. exact Tot. }
  rewrite Hl. cbn [bind]. eexists. split; [reflexivity|]. intros x. rewrite ns_dedup_in. exact (mapr_entries_in c l Hl x).
Qed.

Lemma apply_kids : forall m n n', apply_slotmap false m n = Ok n' -> kids n' = kids n.
Proof.
  intros m n n' H. unfold apply_slotmap in H. cbn [andb] in H. unfold apply_slotmap_partial in H.
  exact (proj1 (trav_res_kids _ _ _ H)).
Qed.

(* ------------------------------------------------------------------ *)
(* 3. the theorem *)

Section Inv.
  Variable s : egraph.
  Hypothesis MI : match_inv s.
  Hypothesis S2 : stored2 s.

  Lemma listed_stored : forall j c x, get_class s j = Ok c -> listed c x ->
    exists sh bij src, stored s j sh (bij, src) /\ apply_slotmap false bij sh = Ok x.
  Proof.
    intros j c x Hc (sh & bij & src & Hin & Ha). exists sh, bij, src. split; [|exact Ha].
    exact (in_stored s (mi_hc s MI) j c sh (bij, src) Hc Hin).
  Qed.

  Lemma snodes_stored : forall j x, In (j, x) (snodes s) <->
    exists sh bij src, stored s j sh (bij, src) /\ apply_slotmap false bij sh = Ok x.
  Proof.
    intros j x. rewrite snodes_in. split.
    - intros (Hid & ns & En & Hx). destruct (enodes_inv s j ns En) as (c & Hc & Sp).
      apply (listed_stored j c x Hc). apply Sp. exact Hx.
    - intros (sh & bij & src & St & Ha).
      pose proof (stored_live_ids s sh j (bij, src) (mi_live s MI) St) as Hid. split; [exact Hid|].
      destruct (stored_class _ _ _ _ St) as (c & Hc & Hn).
      destruct (enodes_spec s j c S2 (proj1 (ids_leader s j) Hid) Hc) as (ns & En & Sp).
      exists ns. split; [exact En|]. apply Sp. exists sh, bij, src. split; [|exact Ha].
      exact (AddCoversFacts.na_get_in _ _ _ Hn).
  Qed.

  Lemma lookup_ok_inv : lookup_ok s.
  Proof.
    intros j x Hin. apply snodes_stored in Hin. destruct Hin as (sh & bij & src & St & Ha).
    exact (stored_enode_lookup s j sh bij src x (mi_hc s MI) (mi_pend s MI) (proj2 (mi_inv3 s MI))
             (cls4_bij4 _ (m4_cls4 _ (mi_m4 s MI))) St Ha).
  Qed.

  Definition uF (y : node) : res node :=
    do a <- eg_lookup_unwrap s y;
    do cj <- get_class s (aid a);
    match na_get (c_nodes cj) y with
    | None => Err ExplicitPanic
    | Some (bij, _) => apply_slotmap false bij y
    end.

  Lemma uF_inv : forall y x, uF y = Ok x ->
    exists a bij src, stored s (aid a) y (bij, src) /\ apply_slotmap false bij y = Ok x.
  Proof.
    intros y x H. unfold uF in H.
    destruct (eg_lookup_unwrap s y) as [a|] eqn:Ea; cbn [bind] in H; [|discriminate].
    destruct (get_class s (aid a)) as [cj|] eqn:Ec; cbn [bind] in H; [|discriminate].
    destruct (na_get (c_nodes cj) y) as [[bij src]|] eqn:En; [|discriminate].
    exists a, bij, src. split; [|exact H]. unfold stored, cnodes. rewrite Ec. exact En.
  Qed.

  Lemma uF_stored : forall j sh bij src x, stored s j sh (bij, src) -> apply_slotmap false bij sh = Ok x -> uF sh = Ok x.
  Proof.
    intros j sh bij src x St Ha.
    destruct (stored_shape_lookup s j sh bij src (mi_hc s MI) (mi_pend s MI) St) as (a & La & Ia).
    destruct (stored_class _ _ _ _ St) as (c & Hc & Hn).
    unfold uF, eg_lookup_unwrap. change (Extractor.eg_lookup s sh) with (ModelFacts.eg_lookup s sh).
    rewrite La. cbn [bind]. rewrite Ia, Hc. cbn [bind]. rewrite Hn. exact Ha.
  Qed.

  Hypothesis UC : uses_conv s.

  Lemma usages_sets_ok_inv : usages_sets_ok s.
  Proof.
    intros i us Hu x. unfold usages in Hu.
    destruct (get_class s i) as [c|] eqn:Hc; cbn [bind] in Hu; [|discriminate].
    fold uF in Hu. change (mapr uF (c_usages c) = Ok us) in Hu.
    assert (CU : cusages s i = c_usages c) by (unfold cusages; rewrite Hc; reflexivity).
    rewrite (mapr_in _ _ _ Hu x). split.
    - intros (y & Hy & Fy). rewrite <- CU in Hy. destruct (UC i y Hy) as [Hi _].
      destruct (uF_inv y x Fy) as (a & bij & src & St & Ha). split.
      + exists (aid a). apply snodes_stored. exists y, bij, src. split; assumption.
      + rewrite (apply_kids _ _ _ Ha). exact Hi.
    - intros [[j Hj] Hk]. apply snodes_stored in Hj. destruct Hj as (sh & bij & src & St & Ha).
      exists sh. split; [|exact (uF_stored j sh bij src x St Ha)].
      rewrite <- CU. rewrite (apply_kids _ _ _ Ha) in Hk.
      exact (tb_use s (proj1 (mi_hc s MI)) j sh (bij, src) i St Hk).
  Qed.
End Inv.

Theorem usages_ok_inv : forall s, match_inv s -> stored2 s -> uses_conv s -> usages_ok s.
Proof. intros s MI S2 UC. split; [exact (lookup_ok_inv s MI S2)|exact (usages_sets_ok_inv s MI S2 UC)]. Qed.

Corollary usages_ok_reachable_from : forall terms ops hs s,
  ops_pre terms ops [] empty_egraph -> Forall (fun t => rt_wf t /\ rt_pre 1 t) terms ->
  run_ops terms ops [] empty_egraph = Ok (hs, s) -> uses_conv s -> usages_ok s.
Proof.
  intros terms ops hs s OP HT H UC.
  exact (usages_ok_inv s (match_inv_reachable terms ops hs s OP HT H) (reachable_stored2 terms ops hs s H) UC).
Qed.

Print Assumptions usages_ok_inv.
Print Assumptions usages_ok_reachable_from.
