(* Group/Group.v — model of /repo/src/group/mod.rs for P = Perm (= SlotMap): Schreier–Sims
   stabiliser chain.  HashSet / HashMap are duplicate-free lists; their iteration order is the
   list order (the implementation's order is arbitrary: results that the properties mention —
   membership, count, orbit, the set of elements, growth — do not depend on it, the stored coset
   representatives do).  Loops run on fuel.  Definitions only. *)
From SE Require Export Slots.SlotMap.

Definition perm := slotmap.

Inductive group :=
| Grp (identity : perm) (next : option (slot * list (slot * perm) * group)).

Definition gidentity (g : group) : perm := match g with Grp i _ => i end.

(* HashSet<Perm> *)
Fixpoint pmem (p : perm) (l : list perm) : bool :=
  match l with [] => false | q :: t => eqb_map p q || pmem p t end.
Definition padd (p : perm) (l : list perm) : list perm := if pmem p l then l else l ++ [p].
Definition punion (a b : list perm) : list perm := fold_left (fun acc p => padd p acc) b a.
Definition pdedup (l : list perm) : list perm := punion [] l.
Definition premove (p : perm) (l : list perm) : list perm := filter (fun q => negb (eqb_map p q)) l.

(* find_lowest_nonstab *)
Definition lowest_moved (p : perm) : option slot :=
  fold_left (fun acc kv => if fst kv =? snd kv then acc
                           else match acc with None => Some (fst kv) | Some m => Some (N.min m (fst kv)) end) p None.
Definition find_lowest_nonstab (gens : list perm) : option slot :=
  fold_left (fun acc p => match lowest_moved p, acc with
                          | None, _ => acc
                          | Some x, None => Some x
                          | Some x, Some m => Some (N.min m x)
                          end) gens None.

(* the orbit tree: HashMap<Slot, P> *)
Definition ot := list (slot * perm).
Fixpoint ot_get (o : ot) (s : slot) : option perm :=
  match o with [] => None | (k, v) :: t => if s =? k then Some v else ot_get t s end.

(* one pass of build_ot's loop body: for g in generators { for (_, v) in ot.clone() { ... } } *)
Definition ot_pass_gen (checks : bool) (stab : slot) (g : perm) (o : ot) : res ot :=
  fold_left (fun (acc : res ot) kv =>
               do acc <- acc;
               do new <- compose checks (snd kv) g;
               do target <- index new stab;
               match ot_get acc target with
               | Some _ => Ok acc
               | None => Ok (acc ++ [(target, new)])
               end) o (Ok o).

Definition ot_pass (checks : bool) (stab : slot) (gens : list perm) (o : ot) : res ot :=
  fold_left (fun (acc : res ot) g => do acc <- acc; ot_pass_gen checks stab g acc) gens (Ok o).

Fixpoint build_ot_loop (checks : bool) (fuel : nat) (stab : slot) (gens : list perm) (o : ot) : res ot :=
  match fuel with
  | O => Err OutOfFuel
  | S f => do o' <- ot_pass checks stab gens o;
           if Nat.eqb (List.length o') (List.length o) then Ok o' else build_ot_loop checks f stab gens o'
  end.

Definition build_ot (checks : bool) (stab : slot) (identity : perm) (gens : list perm) : res ot :=
  build_ot_loop checks (S (List.length identity)) stab gens [(stab, identity)].

(* schreiers_lemma: for (_, r) in ot { for s in generators { rs = r.compose(s); rs2_inv = ot[&rs[stab]].inverse(); out.insert(rs.compose(&rs2_inv)) } } *)
Definition schreier (checks : bool) (stab : slot) (o : ot) (gens : list perm) : res (list perm) :=
  fold_left (fun (acc : res (list perm)) kv =>
     fold_left (fun (acc : res (list perm)) s =>
        do acc <- acc;
        do rs <- compose checks (snd kv) s;
        do t <- index rs stab;
        match ot_get o t with
        | None => Err UnwrapNone        (* `ot[&..]` on a HashMap panics when the key is missing *)
        | Some r2 =>
            do r2i <- inverse checks r2;
            do x <- compose checks rs r2i;
            Ok (padd x acc)
        end) gens acc) o (Ok []).

Fixpoint gnew (checks : bool) (fuel : nat) (identity : perm) (gens : list perm) : res group :=
  match fuel with
  | O => Err OutOfFuel
  | S f =>
      match find_lowest_nonstab gens with
      | None => Ok (Grp identity None)
      | Some s =>
          do o <- build_ot checks s identity gens;
          do sg <- schreier checks s o gens;
          do g <- gnew checks f identity sg;
          Ok (Grp identity (Some (s, o, g)))
      end
  end.

Definition group_new (checks : bool) (identity : perm) (gens : list perm) : res group :=
  gnew checks (S (List.length identity)) identity (pdedup gens).

Fixpoint gcontains (checks : bool) (g : group) (p : perm) : res bool :=
  match g with
  | Grp _ None => Ok (forallb (fun kv => fst kv =? snd kv) p)
  | Grp _ (Some (stab, o, g')) =>
      do img <- index p stab;
      match ot_get o img with
      | None => Ok false
      | Some part =>
          do pi <- inverse checks part;
          do q <- compose checks p pi;
          gcontains checks g' q
      end
  end.

Fixpoint gcount (g : group) : N :=
  match g with
  | Grp _ None => 1
  | Grp _ (Some (_, o, g')) => N.of_nat (List.length o) * gcount g'
  end.

Fixpoint gall_perms (checks : bool) (g : group) : res (list perm) :=
  match g with
  | Grp i None => Ok [i]
  | Grp _ (Some (_, o, g')) =>
      do rperms <- gall_perms checks g';
      fold_left (fun (acc : res (list perm)) kv =>
         fold_left (fun (acc : res (list perm)) r =>
            do acc <- acc; do x <- compose checks r (snd kv); Ok (acc ++ [x])) rperms acc) o (Ok [])
  end.

Fixpoint ggens_impl (g : group) : list perm :=
  match g with
  | Grp _ None => []
  | Grp _ (Some (_, o, g')) => punion (pdedup (map snd o)) (ggens_impl g')
  end.
Definition ggenerators (g : group) : list perm := premove (gidentity g) (ggens_impl g).

Definition gorbit (checks : bool) (g : group) (s : slot) : res sset :=
  do o <- build_ot checks s (gidentity g) (ggenerators g);
  Ok (sset_of_list (map fst o)).

Definition gadd_set (checks : bool) (g : group) (perms : list perm) : res (group * bool) :=
  do keep <- fold_left (fun (acc : res (list perm)) p =>
                          do acc <- acc; do c <- gcontains checks g p;
                          Ok (if c then acc else padd p acc)) perms (Ok []);
  match keep with
  | [] => Ok (g, false)
  | _ => do g' <- group_new checks (gidentity g) (punion (ggenerators g) keep); Ok (g', true)
  end.

Definition gis_trivial (g : group) : bool := match g with Grp _ None => true | _ => false end.
