(* Group/GroupBounded.v — brute-force closure and the reflective check used for the bounded
   exactness theorem (<= 3 generators on <= 4 slots). *)
From SE Require Export Group.GroupMachine.

(* all permutations of a list *)
Fixpoint insert_everywhere (x : N) (l : list N) : list (list N) :=
  match l with
  | [] => [[x]]
  | y :: t => (x :: l) :: map (cons y) (insert_everywhere x t)
  end.
Fixpoint perms_of (l : list N) : list (list N) :=
  match l with
  | [] => [[]]
  | x :: t => flat_map (insert_everywhere x) (perms_of t)
  end.
Definition ident_vals (n : nat) : list N := map N.of_nat (seq 0 n).
Definition enum (n : nat) : list perm := map perm_of_vals (perms_of (ident_vals n)).
Definition idn (n : nat) : perm := perm_of_vals (ident_vals n).

(* brute-force closure under right multiplication by the generators *)
Fixpoint closure_loop (fuel : nat) (gens : list perm) (seen frontier : list perm) : list perm :=
  match fuel with
  | O => seen
  | S f =>
      let '(seen', next) :=
        fold_left (fun (acc : list perm * list perm) x =>
          fold_left (fun (acc : list perm * list perm) g =>
            let y := compose_partial x g in
            if pmem y (fst acc) then acc else (fst acc ++ [y], snd acc ++ [y])) gens acc)
          frontier (seen, []) in
      match next with [] => seen' | _ => closure_loop f gens seen' next end
  end.
Definition closure (n : nat) (gens : list perm) : list perm := closure_loop 30 gens [idn n] [idn n].

Definition same_set (a b : list perm) : bool := forallb (fun p => pmem p b) a && forallb (fun p => pmem p a) b.
Fixpoint pnodup (l : list perm) : bool := match l with [] => true | p :: t => negb (pmem p t) && pnodup t end.

Definition orbit_bf (cl : list perm) (s : slot) : sset :=
  sset_of_list (flat_map (fun p => match get p s with Some y => [y] | None => [] end) cl).

Definition check_group (n : nat) (gens : list perm) (with_add : bool) : bool :=
  match group_new false (idn n) gens with
  | Err _ => false
  | Ok g =>
      let cl := closure n gens in
      (gcount g =? N.of_nat (List.length cl)) &&
      forallb (fun p => match gcontains false g p with Ok b => Bool.eqb b (pmem p cl) | Err _ => false end) (enum n) &&
      match gall_perms false g with Ok l => pnodup l && same_set l cl | Err _ => false end &&
      forallb (fun s => match gorbit false g (4 * N.of_nat s) with
                        | Ok o => sset_eqb o (orbit_bf cl (4 * N.of_nat s)) | Err _ => false end) (seq 0 n) &&
      (negb with_add ||
       forallb (fun p => match gadd_set false g [p] with
                         | Ok (g', grew) => Bool.eqb grew (negb (pmem p cl)) &&
                                            (gcount g' =? N.of_nat (List.length (closure n (gens ++ [p]))))
                         | Err _ => false end) (enum n))
  end.

Definition lists_upto3 (e : list perm) : list (list perm) :=
  [[]] ++ map (fun a => [a]) e ++ flat_map (fun a => map (fun b => [a; b]) e) e
       ++ flat_map (fun a => flat_map (fun b => map (fun c => [a; b; c]) e) e) e.

Definition check_all (n : nat) : bool :=
  forallb (fun gens => check_group n gens (Nat.leb (List.length gens) 2)) (lists_upto3 (enum n)).

(* generator SETS: sublists of the enumeration with at most three elements (order of the enumeration) *)
Fixpoint subsets_upto {A} (k : nat) (l : list A) : list (list A) :=
  match k with
  | O => [[]]
  | S k' => match l with
            | [] => [[]]
            | x :: t => map (cons x) (subsets_upto k' t) ++ subsets_upto k t
            end
  end.

Fixpoint shard {A} (k i : nat) (l : list A) : list A :=
  match l with
  | [] => []
  | x :: t => if Nat.eqb (Nat.modulo i 4) k then x :: shard k (S i) t else shard k (S i) t
  end.

Definition check_shard (n k : nat) : bool :=
  forallb (fun gens => check_group n gens (Nat.leb (List.length gens) 2)) (shard k 0 (subsets_upto 3 (enum n))).
