(* Group/GroupExact.v — exactness of the group structure for every set of at most three generators
   on at most four slots, by reflection (vm_compute over the finite domain, lifted by forallb_forall). *)
From SE Require Import Group.GroupBounded Group.GroupExact0 Group.GroupExact1 Group.GroupExact2 Group.GroupExact3.
From Coq Require Import Lia Arith.

Lemma shard_cover : forall {A} (l : list A) (x : A) i, In x l -> exists k, (k < 4)%nat /\ In x (shard k i l).
Proof.
  induction l as [|y t IH]; intros x i H; [contradiction|]. cbn [In] in H. destruct H as [Heq|H]; [subst y|].
  - exists (Nat.modulo i 4). split; [apply Nat.mod_upper_bound; lia|]. cbn [shard]. rewrite Nat.eqb_refl. cbn [In]. left. reflexivity.
  - destruct (IH x (S i) H) as [k [Hk Hin]]. exists k. split; [assumption|]. cbn [shard].
    destruct (Nat.eqb (Nat.modulo i 4) k); [cbn [In]; right|]; assumption.
Qed.

Lemma small_n : check_shard 1 0 = true /\ check_shard 1 1 = true /\ check_shard 1 2 = true /\ check_shard 1 3 = true /\
                check_shard 2 0 = true /\ check_shard 2 1 = true /\ check_shard 2 2 = true /\ check_shard 2 3 = true /\
                check_shard 3 0 = true /\ check_shard 3 1 = true /\ check_shard 3 2 = true /\ check_shard 3 3 = true.
Proof. vm_compute. repeat split. Qed.

Theorem exact_le4 : forall n gens, (1 <= n <= 4)%nat -> In gens (subsets_upto 3 (enum n)) ->
  check_group n gens (Nat.leb (List.length gens) 2) = true.
Proof.
  intros n gens Hn Hin. destruct (shard_cover _ _ 0%nat Hin) as [k [Hk Hs]].
  assert (Hc : check_shard n k = true).
  { destruct small_n as [A0 [A1 [A2 [A3 [B0 [B1 [B2 [B3 [C0 [C1 [C2 C3]]]]]]]]]]].
    pose proof check_shard4_0 as D0. pose proof check_shard4_1 as D1.
    pose proof check_shard4_2 as D2. pose proof check_shard4_3 as D3.
    assert (Hn' : (n = 1 \/ n = 2 \/ n = 3 \/ n = 4)%nat) by lia.
    assert (Hk' : (k = 0 \/ k = 1 \/ k = 2 \/ k = 3)%nat) by lia.
    destruct Hn' as [Hn'|[Hn'|[Hn'|Hn']]]; destruct Hk' as [Hk'|[Hk'|[Hk'|Hk']]]; subst n k; assumption. }
  unfold check_shard in Hc. rewrite forallb_forall in Hc. apply Hc. exact Hs.
Qed.

(* what the reflective check establishes, spelled out *)
Theorem check_group_meaning : forall n gens add, check_group n gens add = true ->
  exists g, group_new false (idn n) gens = Ok g /\
    let cl := closure n gens in
    gcount g = N.of_nat (List.length cl) /\
    (forall p, In p (enum n) -> gcontains false g p = Ok (pmem p cl)) /\
    (exists l, gall_perms false g = Ok l /\ pnodup l = true /\ same_set l cl = true) /\
    (forall s, In s (seq 0 n) -> exists o, gorbit false g (4 * N.of_nat s) = Ok o /\ sset_eqb o (orbit_bf cl (4 * N.of_nat s)) = true) /\
    (add = true -> forall p, In p (enum n) ->
       exists g' grew, gadd_set false g [p] = Ok (g', grew) /\ grew = negb (pmem p cl) /\
                       gcount g' = N.of_nat (List.length (closure n (gens ++ [p])))).
Proof.
  intros n gens add H. unfold check_group in H.
  destruct (group_new false (idn n) gens) as [g|] eqn:Eg; [|discriminate].
  exists g. split; [reflexivity|]. cbn zeta.
  repeat (apply andb_true_iff in H; destruct H as [H ?]).
  match goal with Hc : (gcount g =? _) = true |- _ => apply N.eqb_eq in Hc end.
  split; [assumption|]. split; [|split; [|split]].
  - intros p Hp. match goal with Hf : forallb _ (enum n) = true |- _ => rewrite forallb_forall in Hf; specialize (Hf p Hp) end.
    destruct (gcontains false g p) as [b|]; [|discriminate]. f_equal. apply Bool.eqb_prop. assumption.
  - destruct (gall_perms false g) as [l|]; [|discriminate].
    match goal with Ha : _ && _ = true |- _ => apply andb_true_iff in Ha; destruct Ha end. eauto.
  - intros s Hs. match goal with Hf : forallb _ (seq 0 n) = true |- _ => rewrite forallb_forall in Hf; specialize (Hf s Hs) end.
    destruct (gorbit false g (4 * N.of_nat s)) as [o|]; [|discriminate]. eauto.
  - intros Hadd p Hp. subst add. cbn in *.
    match goal with Hf : forallb _ (enum n) = true |- _ => rewrite forallb_forall in Hf; specialize (Hf p Hp) end.
    destruct (gadd_set false g [p]) as [[g' grew]|]; [|discriminate].
    apply andb_true_iff in H0. destruct H0 as [Ha Hb]. apply Bool.eqb_prop in Ha. apply N.eqb_eq in Hb. eauto.
Qed.
