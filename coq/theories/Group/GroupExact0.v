(* shard 0 of the reflective exactness check on four slots *)
From SE Require Import Group.GroupBounded.
Lemma check_shard4_0 : check_shard 4 0 = true.
Proof. vm_compute. reflexivity. Qed.
