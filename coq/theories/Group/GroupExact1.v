(* shard 1 of the reflective exactness check on four slots *)
From SE Require Import Group.GroupBounded.
Lemma check_shard4_1 : check_shard 4 1 = true.
Proof. vm_compute. reflexivity. Qed.
