(* shard 2 of the reflective exactness check on four slots *)
From SE Require Import Group.GroupBounded.
Lemma check_shard4_2 : check_shard 4 2 = true.
Proof. vm_compute. reflexivity. Qed.
