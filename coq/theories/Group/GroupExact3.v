(* shard 3 of the reflective exactness check on four slots *)
From SE Require Import Group.GroupBounded.
Lemma check_shard4_3 : check_shard 4 3 = true.
Proof. vm_compute. reflexivity. Qed.
