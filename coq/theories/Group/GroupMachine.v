(* Group/GroupMachine.v — C10 observation machine: build a group from generators on slots
   0..n-1 and query it. *)
From SE Require Export Group.Group Slots.SlotMapMachine.

Definition perm_of_vals (vals : list N) : perm :=
  (fix go (k : N) (l : list N) : perm := match l with [] => [] | v :: t => (4 * k, 4 * v) :: go (k + 1) t end) 0 vals.
Definition vals_of_perm (p : perm) : sexp := Lst (Sym "p" :: map (fun kv => slot_sexp (snd kv)) p).

Fixpoint psort_insert (p : perm) (l : list perm) : list perm :=
  match l with
  | [] => [p]
  | q :: t => match cmp_map p q with Gt => q :: psort_insert p t | _ => p :: l end
  end.
Definition psort (l : list perm) : list perm := fold_left (fun acc p => psort_insert p acc) l [].

Inductive gop :=
| GContains (p : perm) | GCount | GAll | GOrbit (s : slot) | GAddSet (ps : list perm) | GGens | GTrivial.

Definition dec_perm (e : sexp) : option perm :=
  match e with
  | Lst (Sym "p" :: vs) =>
      (fix go (k : N) (l : list sexp) : option perm :=
         match l with
         | [] => Some []
         | Num v :: t => match go (k + 1) t with Some r => Some ((4 * k, 4 * v) :: r) | None => None end
         | _ => None
         end) 0 vs
  | _ => None
  end.
Fixpoint dec_perms (l : list sexp) : option (list perm) :=
  match l with
  | [] => Some []
  | e :: t => match dec_perm e, dec_perms t with Some p, Some r => Some (p :: r) | _, _ => None end
  end.

Definition dec_gop (e : sexp) : option gop :=
  match e with
  | Lst [Sym "contains"; p] => match dec_perm p with Some p => Some (GContains p) | None => None end
  | Sym "count" => Some GCount
  | Sym "all" => Some GAll
  | Lst [Sym "orbit"; Num s] => Some (GOrbit (4 * s))
  | Lst (Sym "addset" :: ps) => match dec_perms ps with Some ps => Some (GAddSet ps) | None => None end
  (* Group::add(p) is add_set({p}) (src/group/mod.rs) *)
  | Lst (Sym "add" :: ps) => match dec_perms ps with Some ps => Some (GAddSet ps) | None => None end
  | Sym "gens" => Some GGens
  | Sym "trivial" => Some GTrivial
  | _ => None
  end.
Fixpoint dec_gops (l : list sexp) : option (list gop) :=
  match l with
  | [] => Some []
  | e :: t => match dec_gop e, dec_gops t with Some o, Some r => Some (o :: r) | _, _ => None end
  end.

Definition gstep (checks : bool) (g : group) (o : gop) : res (group * sexp) :=
  match o with
  | GContains p => do b <- gcontains checks g p; Ok (g, sbool b)
  | GCount => Ok (g, Num (gcount g))
  | GAll => do l <- gall_perms checks g;
            Ok (g, Lst [Num (N.of_nat (List.length l)); Lst (map vals_of_perm (psort (pdedup l)))])
  | GOrbit s => do o <- gorbit checks g s; Ok (g, set_sexp o)
  | GAddSet ps => do r <- gadd_set checks g ps; Ok (fst r, sbool (snd r))
  | GGens => Ok (g, Lst (Sym "gens" :: map vals_of_perm (psort (ggenerators g))))
  | GTrivial => Ok (g, sbool (gis_trivial g))
  end.

Fixpoint grun (checks : bool) (g : group) (ops : list gop) : list sexp :=
  match ops with
  | [] => []
  | o :: t => match gstep checks g o with
              | Ok (g', ob) => ob :: grun checks g' t
              | Err e => [Lst [Sym "err"; site_sexp e]]
              end
  end.

(* case: (c10 <checks> <n> (gens p...) op...) *)
Definition run_c10 (args : list sexp) : sexp :=
  match args with
  | Num c :: Num n :: Lst (Sym "gens" :: gs) :: ops =>
      match dec_perms gs, dec_gops ops with
      | Some gs, Some ops =>
          let checks := negb (c =? 0) in
          let idp := perm_of_vals (map N.of_nat (seq 0 (N.to_nat n))) in
          match group_new checks idp gs with
          | Ok g => Lst (Sym "obs" :: grun checks g ops)
          | Err e => Lst [Sym "obs"; Lst [Sym "err"; site_sexp e]]
          end
      | _, _ => Sym "bad-case"
      end
  | _ => Sym "bad-case"
  end.
