(* Lang/LangFacts.v — occurrence lists: the positional public/private split partitions all
   occurrences, for every node of every signature. *)
From SE Require Import Lang.Sig Slots.SlotMapFacts.
From Coq Require Import Lia Permutation.

Definition unbound (bound : list slot) (x : slot) : bool := negb (existsb (N.eqb x) bound).

Lemma filter_map_flags : forall (bound : list slot) (l : list slot),
  map fst (filter (fun p : slot * bool => snd p) (map (fun s => (s, unbound bound s)) l)) = filter (unbound bound) l.
Proof.
  intros bound l. induction l as [|x t IH]; cbn; [reflexivity|].
  destruct (unbound bound x); cbn; rewrite IH; reflexivity.
Qed.

Lemma filter_filter : forall {A} (f g : A -> bool) l, filter f (filter g l) = filter (fun x => g x && f x) l.
Proof.
  intros A f g l. induction l as [|x t IH]; cbn; [reflexivity|].
  destruct (g x); cbn; [destruct (f x); cbn; rewrite IH; reflexivity|assumption].
Qed.

Lemma filter_ext_in' : forall {A} (f g : A -> bool) l, (forall x, f x = g x) -> filter f l = filter g l.
Proof. intros A f g l H. induction l as [|x t IH]; cbn; [reflexivity|]. rewrite H, IH. reflexivity. Qed.

Lemma flags_all_f : forall a bound, map fst (occ_flags_f bound a) = all_occ_f a.
Proof.
  induction a as [s|x|s f IH|p]; intros bound; cbn; try reflexivity.
  - rewrite map_map. cbn. apply map_id.
  - rewrite IH. reflexivity.
Qed.

Lemma flags_pub_f : forall a bound,
  map fst (filter (fun p => snd p) (occ_flags_f bound a)) = filter (unbound bound) (pub_occ_f a).
Proof.
  induction a as [s|x|s f IH|p]; intros bound; cbn.
  - fold (unbound bound s). destruct (unbound bound s); reflexivity.
  - apply (filter_map_flags bound).
  - rewrite IH. rewrite filter_filter. apply filter_ext_in'. intro x.
    unfold unbound. cbn. destruct (x =? s); cbn; [reflexivity|]. destruct (existsb (N.eqb x) bound); reflexivity.
  - reflexivity.
Qed.

Lemma unbound_nil : forall (l : list slot), filter (unbound []) l = l.
Proof. induction l as [|x t IH]; cbn; [reflexivity|]. rewrite IH. reflexivity. Qed.

Lemma flags_all : forall n, map fst (occ_flags n) = all_occ n.
Proof.
  intro n. unfold occ_flags, all_occ. induction (nargs n) as [|a t IH]; cbn; [reflexivity|].
  rewrite map_app, flags_all_f, IH. reflexivity.
Qed.

Lemma flags_pub : forall n, map fst (filter (fun p => snd p) (occ_flags n)) = pub_occ n.
Proof.
  intro n. unfold occ_flags, pub_occ. induction (nargs n) as [|a t IH]; cbn; [reflexivity|].
  rewrite filter_app, map_app, flags_pub_f, unbound_nil, IH. reflexivity.
Qed.

Lemma partition_perm : forall {A} (f : A -> bool) l, Permutation l (filter f l ++ filter (fun x => negb (f x)) l).
Proof.
  intros A f l. induction l as [|x t IH]; cbn; [constructor|].
  destruct (f x); cbn.
  - constructor. assumption.
  - eapply Permutation_trans; [apply perm_skip; exact IH|]. apply Permutation_middle.
Qed.

(* public and private occurrences partition all occurrences (as lists of occurrences) *)
Theorem occ_partition : forall n, Permutation (all_occ n) (pub_occ n ++ prv_occ n).
Proof.
  intro n. rewrite <- flags_all, <- flags_pub. unfold prv_occ. rewrite <- map_app.
  apply Permutation_map. apply partition_perm.
Qed.

(* every occurrence is public or private, never both: the split is by position *)
Theorem occ_flags_positions : forall n,
  List.length (all_occ n) = (List.length (pub_occ n) + List.length (prv_occ n))%nat.
Proof.
  intro n. pose proof (occ_partition n) as H. apply Permutation_length in H. rewrite app_length in H. exact H.
Qed.

Theorem slots_spec : forall n s, In s (slots n) <-> In s (pub_occ n).
Proof. intros n s. unfold slots. apply (proj2 (sset_of_list_spec (pub_occ n))). Qed.

Theorem slots_sorted : forall n, swf (slots n).
Proof. intro n. unfold slots. apply (proj1 (sset_of_list_spec (pub_occ n))). Qed.

(* the weak shape never fails when CHECKS is off *)
Theorem weak_shape_total : forall legacy n, exists sh bij, weak_shape legacy false n = Ok (sh, bij).
Proof.
  intros legacy n. unfold weak_shape. destruct (ws_args legacy (nargs n) ([], 0)) as [l m]. cbn. eauto.
Qed.
