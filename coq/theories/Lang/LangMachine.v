(* Lang/LangMachine.v — wire encoding of nodes, the signature of the harness language LV,
   and the C16 observation: occurrence lists, weak shape (twice), the bijection applied back,
   syntax round trip, for a node and a second node to compare shapes with. *)
From SE Require Export Lang.Sig Slots.SlotMapMachine.

Definition T (s : string) : text := text_of_string s.

(* must mirror harness/src/lang.rs `define_language! { enum LV {...} }` variant by variant *)
Definition sigLV : sig :=
  [ {| vname := Some (T "f");    vfields := [TSlot; TSlot] |};
    {| vname := Some (T "g");    vfields := [TSlot; TSlot; TSlot] |};
    {| vname := Some (T "g4");   vfields := [TSlot; TSlot; TSlot; TSlot] |};
    {| vname := Some (T "c");    vfields := [] |};
    {| vname := Some (T "d");    vfields := [] |};
    {| vname := Some (T "var");  vfields := [TSlot] |};
    {| vname := Some (T "u");    vfields := [TApp] |};
    {| vname := Some (T "h");    vfields := [TApp; TApp] |};
    {| vname := Some (T "lam");  vfields := [TBind TApp] |};
    {| vname := Some (T "app");  vfields := [TApp; TApp] |};
    {| vname := Some (T "let");  vfields := [TBind TApp; TApp] |};
    {| vname := Some (T "sum2"); vfields := [TApp; TBind (TBind TApp)] |};
    {| vname := Some (T "k");    vfields := [TSlot; TBind TApp; TSlot] |};
    {| vname := Some (T "add");  vfields := [TApp; TApp] |};
    {| vname := Some (T "mul");  vfields := [TApp; TApp] |};
    {| vname := Some (T "sum");  vfields := [TBind TApp] |};
    {| vname := Some (T "tag");  vfields := [TSlot; TApp] |};
    {| vname := None;            vfields := [TPay PU32] |};
    {| vname := None;            vfields := [TPay PBool] |};
    {| vname := None;            vfields := [TPay PSym] |} ].

(* ---- encoding ---- *)
Definition appid_sexp (a : appid) : sexp := Lst [Sym "a"; Num (aid a); map_sexp (am a)].
Definition pval_sexp (p : pval) : sexp :=
  match p with
  | PVu32 n => Lst [Sym "pu"; Num n]
  | PVbool b => Lst [Sym "pb"; sbool b]
  | PVsym t => Lst [Sym "ps"; text_sexp t]
  end.
Section WithSlotPrinter.
  Variable sl : slot -> sexp.
  Definition map_sexp_with (m : slotmap) : sexp :=
    Lst (Sym "m" :: map (fun p => Lst [sl (fst p); sl (snd p)]) m).
  Definition appid_sexp_with (a : appid) : sexp := Lst [Sym "a"; Num (aid a); map_sexp_with (am a)].
  Fixpoint farg_sexp_with (a : farg) : sexp :=
    match a with
    | ASlot s => Lst [Sym "s"; sl s]
    | AApp x => appid_sexp_with x
    | ABind s f => Lst [Sym "b"; sl s; farg_sexp_with f]
    | APay p => pval_sexp p
    end.
  Definition node_sexp_with (n : node) : sexp :=
    Lst (Sym "nd" :: Num (N.of_nat (nvar n)) :: map farg_sexp_with (nargs n)).
End WithSlotPrinter.
Definition farg_sexp := farg_sexp_with slot_sexp.
Definition node_sexp := node_sexp_with slot_sexp.

Definition dec_map (e : sexp) : option slotmap :=
  match e with Lst (Sym "m" :: ps) => dec_pairs ps | _ => None end.
Definition dec_appid (e : sexp) : option appid :=
  match e with
  | Lst [Sym "a"; Num i; m] => match dec_map m with Some m => Some {| aid := i; am := m |} | None => None end
  | _ => None
  end.
Definition dec_pval (e : sexp) : option pval :=
  match e with
  | Lst [Sym "pu"; Num n] => Some (PVu32 n)
  | Lst [Sym "pb"; Sym "true"] => Some (PVbool true)
  | Lst [Sym "pb"; Sym "false"] => Some (PVbool false)
  | Lst [Sym "ps"; t] => match dec_text_sexp t with Some t => Some (PVsym t) | None => None end
  | _ => None
  end.
Fixpoint dec_farg (fuel : nat) (e : sexp) : option farg :=
  match fuel with
  | O => None
  | S fuel' =>
      match e with
      | Lst [Sym "s"; s] => match dec_slot s with Some s => Some (ASlot s) | None => None end
      | Lst [Sym "b"; s; f] =>
          match dec_slot s, dec_farg fuel' f with Some s, Some f => Some (ABind s f) | _, _ => None end
      | Lst (Sym "a" :: _) => match dec_appid e with Some a => Some (AApp a) | None => None end
      | _ => match dec_pval e with Some p => Some (APay p) | None => None end
      end
  end.
Fixpoint dec_fargs (l : list sexp) : option (list farg) :=
  match l with
  | [] => Some []
  | e :: t => match dec_farg 16 e, dec_fargs t with Some a, Some r => Some (a :: r) | _, _ => None end
  end.
Definition dec_node (e : sexp) : option node :=
  match e with
  | Lst (Sym "nd" :: Num v :: args) =>
      match dec_fargs args with Some l => Some {| nvar := N.to_nat v; nargs := l |} | None => None end
  | _ => None
  end.

Definition selem_sexp (e : selem) : sexp :=
  match e with
  | SStr t => Lst [Sym "str"; text_sexp t]
  | SApp a => appid_sexp a
  | SSlot s => Lst [Sym "s"; slot_sexp s]
  end.

Definition res_sexp {A} (f : A -> sexp) (r : res A) : sexp :=
  match r with Ok a => f a | Err e => Lst [Sym "err"; site_sexp e] end.

Definition shape_sexp (r : res (node * slotmap)) : sexp :=
  res_sexp (fun p => Lst [node_sexp (fst p); map_sexp (snd p)]) r.

(* observation for one node *)
Definition obs_node (legacy checks : bool) (S : sig) (n : node) : list sexp :=
  let sh := weak_shape legacy checks n in
  [ Lst [Sym "all"; set_sexp (all_occ n)];
    Lst [Sym "pub"; set_sexp (pub_occ n)];
    Lst [Sym "prv"; set_sexp (if legacy then prv_occ_legacy n else prv_occ n)];
    Lst [Sym "slots"; set_sexp (slots n)];
    Lst [Sym "shape"; shape_sexp sh];
    Lst [Sym "idem"; match sh with Ok (s, _) => shape_sexp (weak_shape legacy checks s) | Err _ => Sym "na" end];
    Lst [Sym "back"; match sh with
                     | Ok (s, bij) =>
                         (* as in add_internal: refresh the bound names first, then rename the free ones *)
                         res_sexp node_sexp (do s' <- fst (refresh_private s 1); apply_slotmap checks bij s')
                     | Err _ => Sym "na" end];
    Lst [Sym "syn"; Lst (map selem_sexp (to_syntax S n))];
    Lst [Sym "rt"; opt_sexp node_sexp (from_syntax true S (to_syntax S n))] ].

(* case: (c16 <checks> <node> <node'>) *)
Definition run_c16 (legacy : bool) (args : list sexp) : sexp :=
  match args with
  | [Num c; n; n'] =>
      match dec_node n, dec_node n' with
      | Some n, Some n' =>
          let checks := negb (c =? 0) in
          Lst [Sym "obs"; Lst (obs_node legacy checks sigLV n);
               Lst [Sym "shape2"; shape_sexp (weak_shape legacy checks n')]]
      | _, _ => Sym "bad-case"
      end
  | _ => Sym "bad-case"
  end.
