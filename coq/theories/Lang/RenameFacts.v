(* Lang/RenameFacts.v — renaming the slot occurrences of a node.

   `ren g n` renames every occurrence s of n to `g pub s`, where pub says whether the occurrence
   is public (not a binder and not under a binder of the same name), exactly as `trav` tells its
   argument function.  All the renaming operations of Lang/Sig.v that succeed are instances
   (`trav_res_ren`, `asf_ren`), and `ren_spec` says when a renaming is a `node_equiv`. *)
From SE Require Import Lang.Sig Slots.SlotMapFacts Lang.LangFacts Lang.ShapeFacts.
From Coq Require Import Lia ZArith ZifyBool ZifyN ZifyNat.

Fixpoint binders_f (a : farg) : list slot :=
  match a with ABind s b => s :: binders_f b | _ => [] end.
Definition binders (n : node) : list slot := flat_map binders_f (nargs n).

(* ids and key vectors of the applied ids, in occurrence order *)
Definition ckeys (n : node) : list (N * list slot) :=
  map (fun a => (aid a, keys_vec (am a))) (app_occ n).

Definition ren_vals (g : bool -> slot -> slot) (bound : list slot) (m : slotmap) : slotmap :=
  map (fun kv => (fst kv, g (negb (existsb (N.eqb (snd kv)) bound)) (snd kv))) m.

Fixpoint ren_f (g : bool -> slot -> slot) (bound : list slot) (a : farg) : farg :=
  match a with
  | ASlot s => ASlot (g (negb (existsb (N.eqb s) bound)) s)
  | AApp x => AApp {| aid := aid x; am := ren_vals g bound (am x) |}
  | ABind s b => ABind (g false s) (ren_f g (s :: bound) b)
  | APay p => APay p
  end.

Definition ren (g : bool -> slot -> slot) (n : node) : node :=
  {| nvar := nvar n; nargs := map (ren_f g []) (nargs n) |}.


(* ================================================================== *)
(* auxiliary facts                                                      *)
(* ================================================================== *)

Local Ltac neq := repeat match goal with
  | H : (_ =? _) = true |- _ => apply N.eqb_eq in H
  | H : (_ =? _) = false |- _ => apply N.eqb_neq in H
  end.

Lemma unbound_cons : forall x l s, unbound (x :: l) s = negb (s =? x) && unbound l s.
Proof. intros x l s. unfold unbound. cbn [existsb]. apply negb_orb. Qed.

Lemma unbound_false_in : forall l s, unbound l s = false -> In s l.
Proof.
  intros l s H. unfold unbound in H. apply negb_false_iff in H. apply existsb_exists in H.
  destruct H as [y [Hy He]]. neq. subst. assumption.
Qed.

Lemma unbound_true_notin : forall l s, unbound l s = true -> ~ In s l.
Proof.
  intros l s H Hin. unfold unbound in H. apply negb_true_iff in H.
  assert (existsb (N.eqb s) l = true) as E; [|congruence].
  apply existsb_exists. exists s. split; [assumption|apply N.eqb_refl].
Qed.

(* ---- forward: a traversal whose function leaves the state alone on every occurrence ---- *)
Section TravFwd.
  Context {S : Type} (f : bool -> slot -> S -> slot * S) (g : bool -> slot -> slot) (st : S).

  Lemma trav_vals_fwd : forall bound m,
    (forall s b, In (s, b) (map (fun s => (s, negb (existsb (N.eqb s) bound))) (values_vec m)) ->
                 f b s st = (g b s, st)) ->
    trav_vals f bound m st = (ren_vals g bound m, st).
  Proof.
    intros bound. induction m as [|[k v] t IH]; intros H; cbn [trav_vals ren_vals map]; [reflexivity|].
    assert (H0 : f (negb (existsb (N.eqb v) bound)) v st = (g (negb (existsb (N.eqb v) bound)) v, st))
      by (apply H; left; reflexivity).
    rewrite H0. cbn [fst snd].
    unfold ren_vals in IH. rewrite IH; [reflexivity|].
    intros s b Hin. apply H. right. exact Hin.
  Qed.

  Lemma trav_f_fwd : forall a bound,
    (forall s b, In (s, b) (occ_flags_f bound a) -> f b s st = (g b s, st)) ->
    trav_f f bound a st = (ren_f g bound a, st).
  Proof.
    induction a as [s|x|s b IH|p]; intros bound H; cbn [trav_f ren_f].
    - rewrite (H s _ (or_introl eq_refl)). reflexivity.
    - rewrite trav_vals_fwd; [reflexivity|]. exact H.
    - rewrite (H s false (or_introl eq_refl)). rewrite IH; [reflexivity|].
      intros s0 b0 Hin. apply H. right. exact Hin.
    - reflexivity.
  Qed.

  Lemma trav_args_fwd : forall l,
    (forall s b, In (s, b) (flat_map (occ_flags_f []) l) -> f b s st = (g b s, st)) ->
    trav_args f l st = (map (ren_f g []) l, st).
  Proof.
    induction l as [|a t IH]; intros H; cbn [trav_args map]; [reflexivity|].
    rewrite trav_f_fwd.
    - rewrite IH; [reflexivity|]. intros s b Hin. apply H. cbn [flat_map]. apply in_or_app. right. exact Hin.
    - intros s b Hin. apply H. cbn [flat_map]. apply in_or_app. left. exact Hin.
  Qed.

  Lemma trav_fwd : forall n,
    (forall s b, In (s, b) (occ_flags n) -> f b s st = (g b s, st)) ->
    trav f n st = (ren g n, st).
  Proof.
    intros n H. unfold trav. rewrite trav_args_fwd; [reflexivity|]. exact H.
  Qed.
End TravFwd.

(* ---- backward: if the final state is good, no step changed the state ---- *)
Section TravBwd.
  Context {S : Type} (f : bool -> slot -> S -> slot * S) (g : bool -> slot -> slot) (P : S -> Prop).
  Hypothesis Hf : forall b s st, P (snd (f b s st)) -> f b s st = (g b s, st).

  Lemma trav_vals_bwd : forall bound m st, P (snd (trav_vals f bound m st)) ->
    trav_vals f bound m st = (ren_vals g bound m, st).
  Proof.
    intros bound. induction m as [|[k v] t IH]; intros st HP; cbn [trav_vals ren_vals map] in *; [reflexivity|].
    pose proof (Hf (negb (existsb (N.eqb v) bound)) v st) as H1.
    destruct (f (negb (existsb (N.eqb v) bound)) v st) as [v' st1].
    pose proof (IH st1) as H2.
    destruct (trav_vals f bound t st1) as [t' st2]. cbn [snd fst] in *.
    specialize (H2 HP). injection H2 as Ht Hs. subst st2 t'.
    specialize (H1 HP). injection H1 as Hv Hs. subst st1 v'. reflexivity.
  Qed.

  Lemma trav_f_bwd : forall a bound st, P (snd (trav_f f bound a st)) ->
    trav_f f bound a st = (ren_f g bound a, st).
  Proof.
    induction a as [s|x|s b IH|p]; intros bound st HP; cbn [trav_f ren_f] in *.
    - pose proof (Hf (negb (existsb (N.eqb s) bound)) s st) as H1.
      destruct (f (negb (existsb (N.eqb s) bound)) s st) as [s' st1]. cbn [snd] in *.
      specialize (H1 HP). injection H1 as Hv Hs. subst. reflexivity.
    - pose proof (trav_vals_bwd bound (am x) st) as H1.
      destruct (trav_vals f bound (am x) st) as [m' st1]. cbn [snd] in *.
      specialize (H1 HP). injection H1 as Hv Hs. subst. reflexivity.
    - pose proof (Hf false s st) as H1.
      destruct (f false s st) as [s' st1].
      pose proof (IH (s :: bound) st1) as H2.
      destruct (trav_f f (s :: bound) b st1) as [b' st2]. cbn [snd] in *.
      specialize (H2 HP). injection H2 as Hb Hs. subst st2 b'.
      specialize (H1 HP). injection H1 as Hv Hs. subst st1 s'. reflexivity.
    - reflexivity.
  Qed.

  Lemma trav_args_bwd : forall l st, P (snd (trav_args f l st)) ->
    trav_args f l st = (map (ren_f g []) l, st).
  Proof.
    induction l as [|a t IH]; intros st HP; cbn [trav_args map] in *; [reflexivity|].
    pose proof (trav_f_bwd a [] st) as H1.
    destruct (trav_f f [] a st) as [a' st1].
    pose proof (IH st1) as H2.
    destruct (trav_args f t st1) as [t' st2]. cbn [snd] in *.
    specialize (H2 HP). injection H2 as Hb Hs. subst st2 t'.
    specialize (H1 HP). injection H1 as Hv Hs. subst st1 a'. reflexivity.
  Qed.

  Lemma trav_bwd : forall n st, P (snd (trav f n st)) -> trav f n st = (ren g n, st).
  Proof.
    intros n st HP. unfold trav in *.
    pose proof (trav_args_bwd (nargs n) st) as H1.
    destruct (trav_args f (nargs n) st) as [l st1]. cbn [snd] in *.
    specialize (H1 HP). injection H1 as Hv Hs. subst. reflexivity.
  Qed.
End TravBwd.

(* R1 *)
Lemma trav_res_ren : forall (f : bool -> slot -> res slot) n n', trav_res f n = Ok n' ->
  n' = ren (fun b s => match f b s with Ok y => y | Err _ => s end) n.
Proof.
  intros f n n' H. unfold trav_res in H.
  match type of H with context [trav ?F n None] =>
    pose proof (trav_bwd F (fun b s => match f b s with Ok y => y | Err _ => s end)
                  (fun st => st = None)) as HB;
    destruct (trav F n None) as [n1 e] eqn:E
  end.
  destruct e as [e|]; [discriminate|]. injection H as <-.
  rewrite HB in E.
  - injection E as <-. reflexivity.
  - clear. intros b s [e|] HP; cbn [snd] in *; [discriminate|].
    destruct (f b s) as [y|e]; cbn [snd] in *; [reflexivity|discriminate].
  - rewrite E. reflexivity.
Qed.

Lemma occ_flags_true_pub : forall n s, In (s, true) (occ_flags n) -> In s (pub_occ n).
Proof.
  intros n s H. rewrite <- flags_pub. apply in_map_iff. exists (s, true). split; [reflexivity|].
  apply filter_In. split; [assumption|reflexivity].
Qed.

(* R2 *)
Lemma asf_ren : forall m n c, (forall x, In x (pub_occ n) -> get m x <> None) ->
  apply_slotmap_fresh false m n c =
  (ren (fun b s => if b then match get m s with Some y => y | None => s end else s) n, c).
Proof.
  intros m n c H. unfold apply_slotmap_fresh.
  rewrite (trav_fwd _ (fun b s => if b then match get m s with Some y => y | None => s end else s)).
  - reflexivity.
  - intros s [|] Hin; [|reflexivity]. cbn [fst snd].
    apply occ_flags_true_pub in Hin. apply H in Hin.
    destruct (get m s) as [y|]; [reflexivity|congruence].
Qed.

(* R3 *)
Lemma ren_skel_f : forall g a bound, skel_f (ren_f g bound a) = skel_f a.
Proof.
  intros g. induction a as [s|x|s b IH|p]; intros bound; cbn [ren_f skel_f aid am].
  - reflexivity.
  - unfold ren_vals. rewrite map_map. reflexivity.
  - rewrite IH. reflexivity.
  - reflexivity.
Qed.

Lemma ren_skel : forall g n, skel (ren g n) = skel n.
Proof.
  intros g n. unfold skel, ren. cbn [nvar nargs]. f_equal.
  rewrite map_map. apply map_ext. intro a. apply ren_skel_f.
Qed.

Lemma ren_binders_f : forall g a bound, binders_f (ren_f g bound a) = map (g false) (binders_f a).
Proof.
  intros g. induction a as [s|x|s b IH|p]; intros bound; cbn [ren_f binders_f map]; try reflexivity.
  rewrite IH. reflexivity.
Qed.

Lemma ren_binders : forall g n, binders (ren g n) = map (g false) (binders n).
Proof.
  intros g n. unfold binders, ren. cbn [nargs].
  induction (nargs n) as [|a t IH]; cbn [map flat_map]; [reflexivity|].
  rewrite map_app, ren_binders_f, IH. reflexivity.
Qed.

Lemma ren_nbind_f : forall g a bound, nbind_f (ren_f g bound a) = nbind_f a.
Proof.
  intros g. induction a as [s|x|s b IH|p]; intros bound; cbn [ren_f nbind_f]; try reflexivity.
  rewrite IH. reflexivity.
Qed.

Definition env_g (g : bool -> slot -> slot) (env : benv) : benv :=
  map (fun q : slot * nat => (g false (fst q), snd q)) env.

Lemma key_g : forall g env s,
  inj_on (g false) (map fst env) ->
  (unbound (map fst env) s = true -> forall b, In b (map fst env) -> g true s <> g false b) ->
  key (env_g g env) (g (unbound (map fst env) s) s) = rename_occ (g true) (key env s).
Proof.
  intros g. induction env as [|[x i] t IH]; intros s Hinj Hpub.
  - reflexivity.
  - cbn [env_g map fst snd] in *. fold (env_g g t). rewrite !key_cons, unbound_cons.
    destruct (s =? x) eqn:E.
    + neq. subst x. cbn [negb andb]. rewrite N.eqb_refl. reflexivity.
    + cbn [negb andb].
      assert (g (unbound (map fst t) s) s =? g false x = false) as ->.
      { apply N.eqb_neq. destruct (unbound (map fst t) s) eqn:Eu.
        - apply Hpub; [|left; reflexivity]. rewrite unbound_cons, E, Eu. reflexivity.
        - apply unbound_false_in in Eu. intro Hc. neq. apply E.
          apply Hinj; [right; assumption|left; reflexivity|assumption]. }
      apply IH.
      * eapply inj_on_incl; [exact Hinj|]. intros a Ha. right. assumption.
      * intros Eu b Hb. apply Hpub; [|right; assumption]. rewrite unbound_cons, E, Eu. reflexivity.
Qed.

Lemma pat_f_g : forall g a env k,
  inj_on (g false) (map fst env ++ binders_f a) ->
  (forall x b, In x (filter (unbound (map fst env)) (pub_occ_f a)) -> In b (map fst env ++ binders_f a) ->
               g true x <> g false b) ->
  pat_f (env_g g env) k (ren_f g (map fst env) a) = map (rename_occ (g true)) (pat_f env k a).
Proof.
  intros g. induction a as [s|x|s b IH|p]; intros env k Hinj Hpub; cbn [ren_f pat_f map binders_f pub_occ_f am] in *.
  - f_equal. rewrite app_nil_r in *. apply (key_g g env s); [assumption|].
    intros Eu b Hb. apply Hpub; [|assumption]. cbn [filter]. rewrite Eu. left. reflexivity.
  - rewrite app_nil_r in *. unfold values_vec, ren_vals in *. rewrite !map_map. apply map_ext_in.
    intros [k0 v] Hin. cbn [fst snd]. apply (key_g g env v); [assumption|].
    intros Eu b Hb. apply Hpub; [|assumption]. apply filter_In. split; [|assumption].
    change v with (snd (k0, v)). apply in_map. assumption.
  - f_equal. apply (IH ((s, k) :: env) (S k)); cbn [map fst].
    + eapply inj_on_incl; [exact Hinj|]. intros a Ha. rewrite in_app_iff in *. cbn [In] in *. tauto.
    + intros x0 b0 Hx Hb. apply Hpub.
      * apply filter_In in Hx. destruct Hx as [Hx Eu]. rewrite unbound_cons in Eu.
        apply andb_true_iff in Eu. destruct Eu as [E1 E2].
        apply filter_In. split; [|assumption]. apply filter_In. split; assumption.
      * rewrite in_app_iff in *. cbn [In] in *. tauto.
  - reflexivity.
Qed.

Lemma pat_args_g : forall g l k,
  inj_on (g false) (flat_map binders_f l) ->
  (forall x b, In x (flat_map pub_occ_f l) -> In b (flat_map binders_f l) -> g true x <> g false b) ->
  pat_args k (map (ren_f g []) l) = map (rename_occ (g true)) (pat_args k l).
Proof.
  intros g. induction l as [|a t IH]; intros k Hinj Hpub; cbn [map pat_args flat_map] in *; [reflexivity|].
  rewrite map_app, ren_nbind_f. f_equal.
  - apply (pat_f_g g a [] k); cbn [map app].
    + eapply inj_on_incl; [exact Hinj|]. intros x Hx. apply in_or_app. left. assumption.
    + intros x b Hx Hb. rewrite unbound_nil in Hx. apply Hpub; apply in_or_app; left; assumption.
  - apply IH.
    + eapply inj_on_incl; [exact Hinj|]. intros x Hx. apply in_or_app. right. assumption.
    + intros x b Hx Hb. apply Hpub; apply in_or_app; right; assumption.
Qed.

Theorem ren_spec : forall g n,
  inj_on (g false) (binders n) ->
  (forall x b, In x (pub_occ n) -> In b (binders n) -> g true x <> g false b) ->
  pattern (ren g n) = map (rename_occ (g true)) (pattern n).
Proof.
  intros g n Hinj Hpub. unfold pattern, ren. cbn [nargs]. apply pat_args_g; assumption.
Qed.

Corollary ren_pub_occ : forall g n,
  inj_on (g false) (binders n) ->
  (forall x b, In x (pub_occ n) -> In b (binders n) -> g true x <> g false b) ->
  pub_occ (ren g n) = map (g true) (pub_occ n).
Proof.
  intros g n Hinj Hpub. rewrite <- !frees_pattern. rewrite ren_spec by assumption. apply frees_rename.
Qed.

Corollary ren_equiv : forall g n,
  inj_on (g false) (binders n) ->
  (forall x b, In x (pub_occ n) -> In b (binders n) -> g true x <> g false b) ->
  inj_on (g true) (pub_occ n) ->
  node_equiv n (ren g n).
Proof.
  intros g n Hinj Hpub Hinj2. split; [symmetry; apply ren_skel|].
  exists (g true). split; [assumption|]. symmetry. apply ren_spec; assumption.
Qed.

(* R4 *)
Lemma skel_ckeys_f : forall a,
  map (fun x => (aid x, keys_vec (am x))) (app_occ_f (skel_f a)) =
  map (fun x => (aid x, keys_vec (am x))) (app_occ_f a).
Proof.
  induction a as [s|x|s b IH|p]; cbn [skel_f app_occ_f map aid am]; try reflexivity; [|exact IH].
  unfold keys_vec. rewrite map_map. reflexivity.
Qed.

Lemma ckeys_skel : forall n, ckeys (skel n) = ckeys n.
Proof.
  intro n. unfold ckeys, app_occ, skel. cbn [nargs].
  induction (nargs n) as [|a t IH]; cbn [map flat_map]; [reflexivity|].
  rewrite !map_app, skel_ckeys_f, IH. reflexivity.
Qed.

Lemma skel_ckeys : forall n n', skel n = skel n' -> ckeys n = ckeys n'.
Proof. intros n n' H. rewrite <- (ckeys_skel n), <- (ckeys_skel n'), H. reflexivity. Qed.

Lemma binders_f_length : forall a, List.length (binders_f a) = nbind_f a.
Proof. induction a as [s|x|s b IH|p]; cbn [binders_f nbind_f List.length]; congruence. Qed.

Lemma binders_length_skel : forall n, List.length (binders (skel n)) = List.length (binders n).
Proof.
  intro n. unfold binders, skel. cbn [nargs].
  induction (nargs n) as [|a t IH]; cbn [map flat_map]; [reflexivity|].
  rewrite !app_length, !binders_f_length, nbind_skel, IH. reflexivity.
Qed.

Lemma skel_binders_length : forall n n', skel n = skel n' -> List.length (binders n) = List.length (binders n').
Proof. intros n n' H. rewrite <- (binders_length_skel n), <- (binders_length_skel n'), H. reflexivity. Qed.

(* R5 / R6 *)
Lemma ren_vals_ext : forall g g' bound (m : slotmap),
  (forall s b, In (s, b) (map (fun s => (s, negb (existsb (N.eqb s) bound))) (values_vec m)) -> g b s = g' b s) ->
  ren_vals g bound m = ren_vals g' bound m.
Proof.
  intros g g' bound m H. unfold ren_vals. apply map_ext_in. intros [k v] Hin. cbn [fst snd]. f_equal.
  apply H. apply in_map_iff. exists v. split; [reflexivity|].
  unfold values_vec. change v with (snd (k, v)). apply in_map. assumption.
Qed.

Lemma ren_f_ext : forall g g' a bound,
  (forall s b, In (s, b) (occ_flags_f bound a) -> g b s = g' b s) -> ren_f g bound a = ren_f g' bound a.
Proof.
  intros g g'. induction a as [s|x|s b IH|p]; intros bound H; cbn [ren_f occ_flags_f] in *.
  - f_equal. apply H. left. reflexivity.
  - f_equal. f_equal. apply ren_vals_ext. exact H.
  - f_equal.
    + apply H. left. reflexivity.
    + apply IH. intros s0 b0 Hin. apply H. right. assumption.
  - reflexivity.
Qed.

Lemma ren_ext : forall g g' n,
  (forall s b, In (s, b) (occ_flags n) -> g b s = g' b s) -> ren g n = ren g' n.
Proof.
  intros g g' n H. unfold ren. f_equal. apply map_ext_in. intros a Ha. apply ren_f_ext.
  intros s b Hin. apply H. unfold occ_flags. apply in_flat_map. exists a. split; assumption.
Qed.

Lemma ren_f_id : forall g a bound,
  (forall s b, In (s, b) (occ_flags_f bound a) -> g b s = s) -> ren_f g bound a = a.
Proof.
  intros g. induction a as [s|x|s b IH|p]; intros bound H; cbn [ren_f occ_flags_f] in *.
  - f_equal. apply H. left. reflexivity.
  - f_equal. destruct x as [i m]. cbn [aid am] in *. f_equal.
    unfold ren_vals. rewrite <- (map_id m) at 2. apply map_ext_in. intros [k v] Hin. cbn [fst snd]. f_equal.
    apply H. apply in_map_iff. exists v. split; [reflexivity|].
    unfold values_vec. change v with (snd (k, v)). apply in_map. assumption.
  - f_equal.
    + apply H. left. reflexivity.
    + apply IH. intros s0 b0 Hin. apply H. right. assumption.
  - reflexivity.
Qed.

Lemma ren_id : forall g n, (forall s b, In (s, b) (occ_flags n) -> g b s = s) -> ren g n = n.
Proof.
  intros g n H. destruct n as [v l]. unfold ren. cbn [nvar nargs] in *. f_equal.
  rewrite <- (map_id l) at 2. apply map_ext_in. intros a Ha. apply ren_f_id.
  intros s b Hin. apply H. unfold occ_flags. cbn [nargs]. apply in_flat_map. exists a. split; assumption.
Qed.

(* ================================================================== *)
(* R7: refresh_private                                                  *)
(* ================================================================== *)

Fixpoint bkeys (s : list slot) (c : N) : list (slot * slot) :=
  match s with [] => [] | x :: t => (c, x) :: bkeys t (c + 4) end.

Lemma bkeys_range : forall s c k v, In (k, v) (bkeys s c) ->
  c <= k < c + 4 * N.of_nat (List.length s) /\ k mod 4 = c mod 4 /\ In v s.
Proof.
  induction s as [|x t IH]; intros c k v H; cbn [bkeys In List.length] in *; [contradiction|].
  destruct H as [H|H].
  - injection H as <- <-. split; [lia|]. split; [reflexivity|left; reflexivity].
  - apply IH in H. destruct H as [H1 [H2 H3]]. split; [lia|]. split; [|right; assumption].
    rewrite H2. replace (c + 4) with (c + 1 * 4) by lia. apply N.mod_add. lia.
Qed.

Lemma bkeys_in : forall s c v, In v s -> exists k, In (k, v) (bkeys s c).
Proof.
  induction s as [|x t IH]; intros c v H; cbn [bkeys In] in *; [contradiction|].
  destruct H as [H|H].
  - subst. exists c. left. reflexivity.
  - destruct (IH (c + 4) v H) as [k Hk]. exists k. right. assumption.
Qed.

Lemma bkeys_inj : forall s c k1 k2 v, NoDup s ->
  In (k1, v) (bkeys s c) -> In (k2, v) (bkeys s c) -> k1 = k2.
Proof.
  induction s as [|x t IH]; intros c k1 k2 v Hnd H1 H2; cbn [bkeys In] in *; [contradiction|].
  inversion Hnd as [|? ? Hni Hnd']; subst.
  destruct H1 as [H1|H1], H2 as [H2|H2].
  - congruence.
  - injection H1 as <- <-. apply bkeys_range in H2. tauto.
  - injection H2 as <- <-. apply bkeys_range in H1. tauto.
  - eapply IH; eassumption.
Qed.

Lemma bff_go_spec : forall s c out, wf out -> (forall k, c <= k -> get out k = None) ->
  snd (bff_go s c out) = c + 4 * N.of_nat (List.length s) /\
  forall k v, get (fst (bff_go s c out)) k = Some v <-> (get out k = Some v \/ In (k, v) (bkeys s c)).
Proof.
  induction s as [|x t IH]; intros c out Hwf Hout; cbn [bff_go bkeys List.length In fst snd].
  - split; [lia|]. intros k v. tauto.
  - destruct (IH (c + 4) (insert c x out)) as [H1 H2].
    + apply insert_wf. assumption.
    + intros k Hk. rewrite get_insert by assumption.
      destruct (k =? c) eqn:E; neq; [lia|]. apply Hout. lia.
    + split; [rewrite H1; lia|]. intros k v. rewrite H2. rewrite get_insert by assumption.
      destruct (k =? c) eqn:E; neq.
      * subst k. split.
        -- intros [H|H]; [injection H as <-; right; left; reflexivity|].
           apply bkeys_range in H. lia.
        -- intros [H|[H|H]].
           ++ rewrite Hout in H by lia. discriminate.
           ++ injection H as <-. left. reflexivity.
           ++ apply bkeys_range in H. lia.
      * split.
        -- intros [H|H]; auto.
        -- intros [H|[H|H]]; auto. injection H as Hc _. congruence.
Qed.

Lemma swf_gt : forall t k y, slb k t -> swf t -> In y t -> k < y.
Proof.
  induction t as [|z t IH]; intros k y Hlb Hs Hin; cbn [slb swf In] in *; [contradiction|].
  destruct Hs as [Hlb' Hs]. destruct Hin as [<-|Hin]; [assumption|].
  specialize (IH z y Hlb' Hs Hin). lia.
Qed.

Lemma swf_NoDup : forall s, swf s -> NoDup s.
Proof.
  induction s as [|x t IH]; intros Hs; [constructor|]. cbn [swf] in Hs. destruct Hs as [Hlb Hs].
  constructor; [|apply IH; assumption]. intro Hin. pose proof (swf_gt t x x Hlb Hs Hin). lia.
Qed.

Lemma fresh_spec : forall set c bf c', swf set -> bijection_from_fresh_to set c = (bf, c') ->
  (forall x, In x set -> exists y, get (inverse_nocheck bf) x = Some y /\ c <= y < c' /\ y mod 4 = c mod 4) /\
  (forall x x' y, get (inverse_nocheck bf) x = Some y -> get (inverse_nocheck bf) x' = Some y -> x = x').
Proof.
  intros set c bf c' Hs E. unfold bijection_from_fresh_to in E.
  destruct (bff_go_spec set c [] I (fun k _ => eq_refl)) as [H1 H2].
  rewrite E in H1, H2. cbn [fst snd] in H1, H2.
  assert (Hwf : wf bf).
  { pose proof (bff_go_wf set c [] I) as Hw. rewrite E in Hw. exact Hw. }
  assert (Hget : forall k v, get bf k = Some v <-> In (k, v) (bkeys set c)).
  { intros k v. rewrite H2. cbn [get]. split; [intros [H|H]; [discriminate|assumption]|auto]. }
  assert (Hbij : is_bijection bf = true).
  { apply is_bijection_injective; [assumption|]. intros k1 k2 v G1 G2.
    apply Hget in G1, G2. eapply bkeys_inj; [apply swf_NoDup; eassumption|eassumption|eassumption]. }
  split.
  - intros x Hx. destruct (bkeys_in set c x Hx) as [k Hk]. exists k. split.
    + apply get_inverse; [assumption|assumption|]. apply Hget. assumption.
    + apply bkeys_range in Hk. subst c'. tauto.
  - intros x x' y G1 G2. apply get_inverse_sound in G1, G2; try assumption. congruence.
Qed.

Lemma binders_f_flags : forall a bound s, In s (binders_f a) -> In (s, false) (occ_flags_f bound a).
Proof.
  induction a as [s0|x|s0 b IH|p]; intros bound s H; cbn [binders_f occ_flags_f In] in *; try contradiction.
  destruct H as [H|H]; [left; congruence|right; apply IH; assumption].
Qed.

Lemma binders_prv : forall n s, In s (binders n) -> In s (prv_occ n).
Proof.
  intros n s H. unfold binders in H. apply in_flat_map in H. destruct H as [a [Ha Hs]].
  unfold prv_occ. apply in_map_iff. exists (s, false). split; [reflexivity|].
  apply filter_In. split; [|reflexivity]. unfold occ_flags. apply in_flat_map.
  exists a. split; [assumption|]. apply binders_f_flags. assumption.
Qed.

Theorem refresh_private_spec : forall n c n' c', refresh_private n c = (Ok n', c') ->
  skel n' = skel n /\
  Forall (fun b => c <= b < c' /\ b mod 4 = c mod 4) (binders n') /\
  ((forall x, In x (pub_occ n) -> x mod 4 <> c mod 4) -> pattern n' = pattern n).
Proof.
  intros n c n' c' H. unfold refresh_private, refresh_by in H.
  destruct (bijection_from_fresh_to (sset_of_list (prv_occ n)) c) as [bf c1] eqn:E.
  injection H as H Hc. subst c1.
  destruct (sset_of_list_spec (prv_occ n)) as [Hswf Hin].
  destruct (fresh_spec _ _ _ _ Hswf E) as [F1 F2].
  apply trav_res_ren in H.
  set (g := fun (b : bool) (s : slot) =>
              match (if negb b then index (inverse_nocheck bf) s else Ok s) with Ok y => y | Err _ => s end) in H.
  assert (Hg : forall s, In s (binders n) ->
                 get (inverse_nocheck bf) s = Some (g false s) /\ c <= g false s < c' /\ g false s mod 4 = c mod 4).
  { intros s Hs. apply binders_prv in Hs. apply Hin in Hs. destruct (F1 s Hs) as [y [G1 G2]].
    unfold g. cbn [negb]. unfold index. rewrite G1. split; [reflexivity|assumption]. }
  subst n'. split; [apply ren_skel|]. split.
  - rewrite ren_binders. apply Forall_forall. intros y Hy. apply in_map_iff in Hy.
    destruct Hy as [s [<- Hs]]. apply Hg. assumption.
  - intro Hpub. rewrite ren_spec.
    + rewrite <- (rename_occ_id (pattern n)) at 2. apply map_ext. intros [i|s]; reflexivity.
    + intros x y Hx Hy Hxy. destruct (Hg x Hx) as [G1 _]. destruct (Hg y Hy) as [G2 _].
      rewrite Hxy in G1. eapply F2; eassumption.
    + intros x b Hx Hb. change (g true x) with x. intro Hc. apply (Hpub x Hx).
      destruct (Hg b Hb) as [_ [_ G]]. rewrite Hc. assumption.
Qed.

Print Assumptions trav_res_ren.
Print Assumptions asf_ren.
Print Assumptions ren_spec.
Print Assumptions ren_equiv.
Print Assumptions refresh_private_spec.
