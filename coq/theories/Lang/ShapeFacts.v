(* Lang/ShapeFacts.v — the weak shape is a canonical form modulo renaming.

   Specification notions (independent of weak_shape):
     skel n     the node with every slot erased (variant, payloads, applied ids, map keys,
                binder structure)
     pattern n  the list of all slot occurrences in traversal order, each replaced by
                  Bnd i  "bound by the i-th binder (in traversal order)"; a binder emits its own marker
                  Fr s   "free occurrence of slot s"
     node_equiv n n' := skel n = skel n' /\
                        exists rho, rho injective on the free slots of n /\
                                    map (rename_occ rho) (pattern n) = pattern n'
   i.e. alpha-equivalence together with an injective renaming of the free slots. *)
From SE Require Import Lang.Sig Slots.SlotMapFacts Lang.LangFacts.
From Coq Require Import Lia ZArith ZifyBool ZifyN ZifyNat Sorted.

Local Ltac neq := repeat match goal with
  | H : (_ =? _) = true |- _ => apply N.eqb_eq in H
  | H : (_ =? _) = false |- _ => apply N.eqb_neq in H
  end.

(* ================================================================== *)
(* 1. specification                                                    *)
(* ================================================================== *)

Inductive occ := Bnd (i : nat) | Fr (s : slot).

Definition occ_eqb (x y : occ) : bool :=
  match x, y with
  | Bnd i, Bnd j => Nat.eqb i j
  | Fr s, Fr t => N.eqb s t
  | _, _ => false
  end.

(* the stack of open binders: name, index of the binder *)
Definition benv := list (slot * nat).

Fixpoint blookup (env : benv) (s : slot) : option nat :=
  match env with
  | [] => None
  | (x, i) :: t => if s =? x then Some i else blookup t s
  end.

Definition key (env : benv) (s : slot) : occ :=
  match blookup env s with Some i => Bnd i | None => Fr s end.

Fixpoint nbind_f (a : farg) : nat :=
  match a with ABind _ b => S (nbind_f b) | _ => O end.

(* k = number of binders opened so far *)
Fixpoint pat_f (env : benv) (k : nat) (a : farg) : list occ :=
  match a with
  | ASlot s => [key env s]
  | AApp x => map (key env) (values_vec (am x))
  | ABind s b => Bnd k :: pat_f ((s, k) :: env) (S k) b
  | APay _ => []
  end.

Fixpoint pat_args (k : nat) (l : list farg) : list occ :=
  match l with
  | [] => []
  | a :: t => pat_f [] k a ++ pat_args (k + nbind_f a) t
  end.

Definition pattern (n : node) : list occ := pat_args 0 (nargs n).

Fixpoint skel_f (a : farg) : farg :=
  match a with
  | ASlot _ => ASlot 0
  | AApp x => AApp {| aid := aid x; am := map (fun p => (fst p, 0)) (am x) |}
  | ABind _ b => ABind 0 (skel_f b)
  | APay p => APay p
  end.

Definition skel (n : node) : node := {| nvar := nvar n; nargs := map skel_f (nargs n) |}.

Definition rename_occ (rho : slot -> slot) (x : occ) : occ :=
  match x with Bnd i => Bnd i | Fr s => Fr (rho s) end.

Definition inj_on {A B} (f : A -> B) (l : list A) : Prop :=
  forall x y, In x l -> In y l -> f x = f y -> x = y.

Definition node_equiv (n n' : node) : Prop :=
  skel n = skel n' /\
  exists rho, inj_on rho (pub_occ n) /\ map (rename_occ rho) (pattern n) = pattern n'.

(* distinct elements in order of first occurrence (acc: already seen) *)
Fixpoint firsts (acc l : list N) : list N :=
  match l with
  | [] => []
  | x :: t => if existsb (N.eqb x) acc then firsts acc t else x :: firsts (acc ++ [x]) t
  end.

Definition code (j : nat) : N := 4 * N.of_nat j.

Definition nobind_f (a : farg) : bool :=
  match a with ABind _ _ => false | _ => true end.
Definition binder_free (n : node) : bool := forallb nobind_f (nargs n).

(* ================================================================== *)
(* 2. occurrences: basic facts                                         *)
(* ================================================================== *)

Lemma occ_eqb_eq : forall x y, occ_eqb x y = true <-> x = y.
Proof.
  intros [i|s] [j|t]; cbn; split; intro H; try discriminate.
  - apply Nat.eqb_eq in H. congruence.
  - inversion H. apply Nat.eqb_refl.
  - apply N.eqb_eq in H. congruence.
  - inversion H. apply N.eqb_refl.
Qed.

Lemma occ_eqb_refl : forall x, occ_eqb x x = true.
Proof. intro x. apply occ_eqb_eq. reflexivity. Qed.

Lemma occ_eqb_neq : forall x y, occ_eqb x y = false <-> x <> y.
Proof.
  intros x y. split.
  - intros H E. apply occ_eqb_eq in E. congruence.
  - intro H. destruct (occ_eqb x y) eqn:E; [|reflexivity]. apply occ_eqb_eq in E. contradiction.
Qed.

Fixpoint frees (p : list occ) : list slot :=
  match p with
  | [] => []
  | Fr s :: t => s :: frees t
  | Bnd _ :: t => frees t
  end.

Lemma frees_app : forall p q, frees (p ++ q) = frees p ++ frees q.
Proof. induction p as [|[i|s] p IH]; intro q; cbn; rewrite ?IH; reflexivity. Qed.

Lemma frees_in : forall p s, In s (frees p) <-> In (Fr s) p.
Proof.
  induction p as [|[i|t] p IH]; intro s; cbn.
  - tauto.
  - rewrite IH. split; [auto|]. intros [H|H]; [discriminate|assumption].
  - rewrite IH. split; intros [H|H]; auto; left; congruence.
Qed.

Lemma frees_rename : forall rho p, frees (map (rename_occ rho) p) = map rho (frees p).
Proof.
  intros rho p. induction p as [|[i|t] p IH]; cbn; [reflexivity|assumption|]. rewrite IH. reflexivity.
Qed.

Definition onone {A} (o : option A) : bool := match o with None => true | Some _ => false end.

Lemma frees_map_key : forall env l, frees (map (key env) l) = filter (fun s => onone (blookup env s)) l.
Proof.
  intros env l. induction l as [|s t IH]; cbn; [reflexivity|].
  unfold key at 1. destruct (blookup env s); cbn; rewrite IH; reflexivity.
Qed.

Lemma frees_pat_f : forall a env k,
  frees (pat_f env k a) = filter (fun s => onone (blookup env s)) (pub_occ_f a).
Proof.
  induction a as [s|x|s b IH|p]; intros env k; cbn.
  - unfold key. destruct (blookup env s); reflexivity.
  - apply frees_map_key.
  - rewrite IH. rewrite filter_filter. apply filter_ext_in'. intro x. cbn.
    destruct (x =? s); reflexivity.
  - reflexivity.
Qed.

Lemma filter_true : forall {A} (l : list A), filter (fun _ => true) l = l.
Proof. induction l as [|x t IH]; cbn; [reflexivity|]. rewrite IH. reflexivity. Qed.

Lemma frees_pat_args : forall l k, frees (pat_args k l) = flat_map pub_occ_f l.
Proof.
  induction l as [|a t IH]; intro k; cbn; [reflexivity|].
  rewrite frees_app, frees_pat_f, IH. cbn. rewrite filter_true. reflexivity.
Qed.

Theorem frees_pattern : forall n, frees (pattern n) = pub_occ n.
Proof. intro n. apply frees_pat_args. Qed.

Lemma pat_f_fr : forall a env k s, In (Fr s) (pat_f env k a) -> blookup env s = None.
Proof.
  intros a env k s H. apply frees_in in H. rewrite frees_pat_f in H.
  apply filter_In in H. destruct H as [_ H]. destruct (blookup env s); [discriminate|reflexivity].
Qed.

(* ================================================================== *)
(* 3. node_equiv is an equivalence relation                            *)
(* ================================================================== *)

Lemma rename_occ_id : forall p, map (rename_occ (fun s => s)) p = p.
Proof. induction p as [|[i|s] p IH]; cbn; rewrite ?IH; reflexivity. Qed.

Theorem node_equiv_refl : forall n, node_equiv n n.
Proof.
  intro n. split; [reflexivity|]. exists (fun s => s). split.
  - intros x y _ _ H. exact H.
  - apply rename_occ_id.
Qed.

Lemma equiv_pub : forall n n' rho,
  map (rename_occ rho) (pattern n) = pattern n' -> pub_occ n' = map rho (pub_occ n).
Proof.
  intros n n' rho H. rewrite <- !frees_pattern, <- H. apply frees_rename.
Qed.

Theorem node_equiv_trans : forall a b c, node_equiv a b -> node_equiv b c -> node_equiv a c.
Proof.
  intros a b c [S1 [r1 [I1 P1]]] [S2 [r2 [I2 P2]]]. split; [congruence|].
  exists (fun s => r2 (r1 s)). split.
  - intros x y Hx Hy H. apply I1; [assumption|assumption|].
    apply I2; [| |exact H]; rewrite (equiv_pub _ _ _ P1); apply in_map; assumption.
  - rewrite <- P2, <- P1, map_map. apply map_ext. intros [i|s]; reflexivity.
Qed.

Definition inv_on (rho : slot -> slot) (l : list slot) (y : slot) : slot :=
  match find (fun x => rho x =? y) l with Some x => x | None => y end.

Lemma inv_on_spec : forall rho l x, inj_on rho l -> In x l -> inv_on rho l (rho x) = x.
Proof.
  intros rho l x Hinj Hin. unfold inv_on.
  destruct (find (fun x0 => rho x0 =? rho x) l) as [x0|] eqn:E.
  - apply find_some in E. destruct E as [Hin0 E]. neq. apply Hinj; assumption.
  - exfalso. pose proof (find_none _ _ E x Hin) as H. cbn in H. rewrite N.eqb_refl in H. discriminate.
Qed.

Theorem node_equiv_sym : forall a b, node_equiv a b -> node_equiv b a.
Proof.
  intros a b [S1 [r [I P]]]. split; [congruence|].
  exists (inv_on r (pub_occ a)). split.
  - intros x y Hx Hy H. rewrite (equiv_pub _ _ _ P) in Hx, Hy.
    apply in_map_iff in Hx, Hy. destruct Hx as [x0 [<- Hx0]]. destruct Hy as [y0 [<- Hy0]].
    rewrite !inv_on_spec in H by assumption. congruence.
  - rewrite <- P, map_map. rewrite <- (map_id (pattern a)) at 2. apply map_ext_in.
    intros [i|s] Hin; cbn; [reflexivity|]. f_equal. apply inv_on_spec; [assumption|].
    rewrite <- frees_pattern. apply frees_in. assumption.
Qed.

(* ================================================================== *)
(* 4. first-occurrence numbering of a list of occurrences              *)
(* ================================================================== *)

Fixpoint idx (seen : list occ) (x : occ) : option nat :=
  match seen with
  | [] => None
  | y :: t => if occ_eqb x y then Some O else option_map S (idx t x)
  end.

Definition seen_add (seen : list occ) (x : occ) : list occ :=
  match idx seen x with Some _ => seen | None => seen ++ [x] end.
Definition seen_no (seen : list occ) (x : occ) : nat :=
  match idx seen x with Some i => i | None => List.length seen end.

Fixpoint num_st (seen l : list occ) : list occ :=
  match l with [] => seen | x :: t => num_st (seen_add seen x) t end.
Fixpoint num_out (seen l : list occ) : list N :=
  match l with [] => [] | x :: t => code (seen_no seen x) :: num_out (seen_add seen x) t end.

Lemma code_inj : forall i j, code i = code j -> i = j.
Proof. unfold code. intros. lia. Qed.

Lemma idx_nth : forall seen x i, idx seen x = Some i -> nth_error seen i = Some x.
Proof.
  induction seen as [|y t IH]; intros x i H; cbn in *; [discriminate|].
  destruct (occ_eqb x y) eqn:E.
  - apply occ_eqb_eq in E. inversion H; subst. reflexivity.
  - destruct (idx t x) eqn:E2; cbn in H; [|discriminate]. inversion H; subst. cbn. apply IH. assumption.
Qed.

Lemma idx_some_in : forall seen x i, idx seen x = Some i -> In x seen.
Proof. intros seen x i H. apply idx_nth in H. eapply nth_error_In. exact H. Qed.

Lemma idx_none : forall seen x, idx seen x = None <-> ~ In x seen.
Proof.
  induction seen as [|y t IH]; intro x; cbn; [tauto|].
  destruct (occ_eqb x y) eqn:E.
  - apply occ_eqb_eq in E. subst. split; [discriminate|]. intro H. exfalso. apply H. auto.
  - apply occ_eqb_neq in E. specialize (IH x). destruct (idx t x) eqn:E2; cbn.
    + split; [discriminate|]. intro H. exfalso. apply H. right. eapply idx_some_in. exact E2.
    + split; [|reflexivity]. intros _ [H|H]; [congruence|]. apply (proj1 IH); auto.
Qed.

Lemma idx_in : forall seen x, In x seen -> exists i, idx seen x = Some i.
Proof.
  intros seen x H. destruct (idx seen x) eqn:E; [eauto|]. apply idx_none in E. contradiction.
Qed.

Lemma idx_inj : forall seen x y i, idx seen x = Some i -> idx seen y = Some i -> x = y.
Proof. intros seen x y i H1 H2. apply idx_nth in H1, H2. congruence. Qed.

Lemma idx_lt : forall seen x i, idx seen x = Some i -> (i < List.length seen)%nat.
Proof. intros seen x i H. apply idx_nth in H. apply nth_error_Some. congruence. Qed.

Lemma idx_app_some : forall seen e x i, idx seen x = Some i -> idx (seen ++ e) x = Some i.
Proof.
  induction seen as [|y t IH]; intros e x i H; cbn in *; [discriminate|].
  destruct (occ_eqb x y); [assumption|].
  destruct (idx t x) eqn:E; cbn in H; [|discriminate]. rewrite (IH e x n E). exact H.
Qed.

Lemma idx_app_none : forall seen y x, idx seen x = None ->
  idx (seen ++ [y]) x = if occ_eqb x y then Some (List.length seen) else None.
Proof.
  induction seen as [|z t IH]; intros y x H; cbn in *.
  - destruct (occ_eqb x y); reflexivity.
  - destruct (occ_eqb x z); [discriminate|].
    destruct (idx t x) eqn:E; cbn in H; [discriminate|]. rewrite (IH y x E).
    destruct (occ_eqb x y); reflexivity.
Qed.

Lemma idx_app_neq : forall seen y x, x <> y -> idx (seen ++ [y]) x = idx seen x.
Proof.
  intros seen y x Hne. destruct (idx seen x) eqn:E.
  - apply idx_app_some. assumption.
  - rewrite idx_app_none by assumption. apply occ_eqb_neq in Hne. rewrite Hne. reflexivity.
Qed.

Lemma idx_app_new : forall seen x, idx seen x = None -> idx (seen ++ [x]) x = Some (List.length seen).
Proof. intros. rewrite idx_app_none by assumption. rewrite occ_eqb_refl. reflexivity. Qed.

Lemma idx_map : forall (f : occ -> occ) seen x, inj_on f (x :: seen) -> idx (map f seen) (f x) = idx seen x.
Proof.
  induction seen as [|y t IH]; intros x Hinj; cbn; [reflexivity|].
  rewrite IH.
  - destruct (occ_eqb x y) eqn:E.
    + apply occ_eqb_eq in E. subst. rewrite occ_eqb_refl. reflexivity.
    + assert (occ_eqb (f x) (f y) = false) as ->; [|reflexivity].
      apply occ_eqb_neq. apply occ_eqb_neq in E. intro H. apply E. apply Hinj; cbn; auto.
  - intros a b Ha Hb. apply Hinj; cbn in *; tauto.
Qed.

Lemma seen_add_ext : forall seen x, exists e, seen_add seen x = seen ++ e.
Proof.
  intros seen x. unfold seen_add. destruct (idx seen x); [exists []; symmetry; apply app_nil_r|eauto].
Qed.

Lemma seen_add_in : forall seen x y, In y (seen_add seen x) <-> In y seen \/ y = x.
Proof.
  intros seen x y. unfold seen_add. destruct (idx seen x) eqn:E.
  - split; [auto|]. intros [H|H]; [assumption|]. subst.
    eapply idx_some_in. exact E.
  - rewrite in_app_iff. cbn. intuition congruence.
Qed.

Lemma idx_seen_add : forall seen x, idx (seen_add seen x) x = Some (seen_no seen x).
Proof.
  intros seen x. unfold seen_add, seen_no. destruct (idx seen x) eqn:E; [assumption|].
  apply idx_app_new. assumption.
Qed.

Lemma num_st_ext : forall l seen, exists e, num_st seen l = seen ++ e.
Proof.
  induction l as [|x t IH]; intro seen; cbn.
  - exists []. symmetry. apply app_nil_r.
  - destruct (IH (seen_add seen x)) as [e He]. destruct (seen_add_ext seen x) as [e0 He0].
    exists (e0 ++ e). rewrite He, He0, app_assoc. reflexivity.
Qed.

Lemma num_st_in : forall l seen y, In y (num_st seen l) <-> In y seen \/ In y l.
Proof.
  induction l as [|x t IH]; intros seen y; cbn; [tauto|].
  rewrite IH, seen_add_in. intuition congruence.
Qed.

Lemma num_st_app : forall l1 l2 seen, num_st seen (l1 ++ l2) = num_st (num_st seen l1) l2.
Proof. induction l1 as [|x t IH]; intros l2 seen; cbn; [reflexivity|]. apply IH. Qed.

Lemma num_out_app : forall l1 l2 seen,
  num_out seen (l1 ++ l2) = num_out seen l1 ++ num_out (num_st seen l1) l2.
Proof. induction l1 as [|x t IH]; intros l2 seen; cbn; [reflexivity|]. rewrite IH. reflexivity. Qed.

Lemma idx_num_st : forall l seen x i, idx seen x = Some i -> idx (num_st seen l) x = Some i.
Proof.
  intros l seen x i H. destruct (num_st_ext l seen) as [e ->]. apply idx_app_some. assumption.
Qed.

Lemma inj_on_incl : forall {A B} (f : A -> B) l l', inj_on f l -> incl l' l -> inj_on f l'.
Proof. intros A B f l l' H Hi x y Hx Hy. apply H; apply Hi; assumption. Qed.

(* the numbering is invariant under injective renaming *)
Lemma num_map : forall (f : occ -> occ) l seen, inj_on f (seen ++ l) ->
  num_out (map f seen) (map f l) = num_out seen l /\
  num_st (map f seen) (map f l) = map f (num_st seen l).
Proof.
  intros f. induction l as [|x t IH]; intros seen Hinj; cbn; [auto|].
  assert (Hidx : idx (map f seen) (f x) = idx seen x).
  { apply idx_map. eapply inj_on_incl; [exact Hinj|]. intros a [Ha|Ha]; apply in_app_iff; cbn; auto. }
  assert (Hadd : seen_add (map f seen) (f x) = map f (seen_add seen x)).
  { unfold seen_add. rewrite Hidx. destruct (idx seen x); [reflexivity|]. rewrite map_app. reflexivity. }
  assert (Hno : seen_no (map f seen) (f x) = seen_no seen x).
  { unfold seen_no. rewrite Hidx, map_length. reflexivity. }
  rewrite Hadd, Hno.
  destruct (IH (seen_add seen x)) as [H1 H2].
  { eapply inj_on_incl; [exact Hinj|]. intros a Ha. apply in_app_iff in Ha. rewrite seen_add_in in Ha.
    apply in_app_iff. cbn. intuition. }
  rewrite H1, H2. auto.
Qed.

(* the numbers are handed out consecutively, in order of first occurrence *)
Lemma existsb_code_seq : forall j n, existsb (N.eqb (code j)) (map code (seq 0 n)) = Nat.ltb j n.
Proof.
  intros j n. destruct (Nat.ltb j n) eqn:E.
  - apply Nat.ltb_lt in E. apply existsb_exists. exists (code j). split; [|apply N.eqb_refl].
    apply in_map. apply in_seq. lia.
  - apply Nat.ltb_ge in E. destruct (existsb _ _) eqn:E2; [|reflexivity].
    apply existsb_exists in E2. destruct E2 as [y [Hy He]]. neq. subst y.
    apply in_map_iff in Hy. destruct Hy as [i [Hc Hi]]. apply code_inj in Hc. subst. apply in_seq in Hi. lia.
Qed.

Lemma num_st_length : forall l seen, (List.length seen <= List.length (num_st seen l))%nat.
Proof. intros l seen. destruct (num_st_ext l seen) as [e ->]. rewrite app_length. lia. Qed.

Lemma firsts_num : forall l seen,
  firsts (map code (seq 0 (List.length seen))) (num_out seen l) =
  map code (seq (List.length seen) (List.length (num_st seen l) - List.length seen)).
Proof.
  induction l as [|x t IH]; intro seen; cbn.
  - rewrite Nat.sub_diag. reflexivity.
  - rewrite existsb_code_seq. unfold seen_no, seen_add. destruct (idx seen x) eqn:E.
    + apply idx_lt in E. apply Nat.ltb_lt in E. rewrite E. apply IH.
    + rewrite Nat.ltb_irrefl.
      specialize (IH (seen ++ [x])). rewrite app_length in IH. cbn [List.length] in IH.
      rewrite Nat.add_1_r in IH. rewrite seq_S, map_app in IH. cbn [map Nat.add] in IH.
      rewrite IH.
      pose proof (num_st_length t (seen ++ [x])) as Hl. rewrite app_length in Hl. cbn in Hl.
      replace (List.length (num_st (seen ++ [x]) t) - List.length seen)%nat
        with (S (List.length (num_st (seen ++ [x]) t) - S (List.length seen))) by lia.
      reflexivity.
Qed.

(* the same for the free occurrences only: their numbers are increasing (binders use up numbers
   of the same counter in between) *)
Fixpoint frpos (b : nat) (l : list occ) : list nat :=
  match l with
  | [] => []
  | Fr _ :: t => b :: frpos (S b) t
  | Bnd _ :: t => frpos (S b) t
  end.

Fixpoint num_out_fr (seen l : list occ) : list N :=
  match l with
  | [] => []
  | Fr s :: t => code (seen_no seen (Fr s)) :: num_out_fr (seen_add seen (Fr s)) t
  | Bnd i :: t => num_out_fr (seen_add seen (Bnd i)) t
  end.

Lemma frpos_app : forall l1 l2 b, frpos b (l1 ++ l2) = frpos b l1 ++ frpos (b + List.length l1) l2.
Proof.
  induction l1 as [|[i|s] t IH]; intros l2 b; cbn.
  - rewrite Nat.add_0_r. reflexivity.
  - rewrite IH. f_equal. f_equal. lia.
  - rewrite IH. f_equal. f_equal. f_equal. lia.
Qed.

Lemma frpos_bounds : forall l b j, In j (frpos b l) -> (b <= j < b + List.length l)%nat.
Proof.
  induction l as [|[i|s] t IH]; intros b j H; cbn in *; [contradiction| |].
  - apply IH in H. lia.
  - destruct H as [<-|H]; [lia|]. apply IH in H. lia.
Qed.

Lemma frpos_sorted : forall l b, StronglySorted lt (frpos b l).
Proof.
  induction l as [|[i|s] t IH]; intro b; cbn; [constructor|apply IH|].
  constructor; [apply IH|]. apply Forall_forall. intros j Hj. apply frpos_bounds in Hj. lia.
Qed.

Lemma idx_frpos : forall seen s j b, idx seen (Fr s) = Some j -> In (b + j)%nat (frpos b seen).
Proof.
  induction seen as [|y t IH]; intros s j b H; cbn [idx] in H; [discriminate|].
  destruct (occ_eqb (Fr s) y) eqn:E.
  - apply occ_eqb_eq in E. subst y. injection H as <-. cbn. left. lia.
  - destruct (idx t (Fr s)) as [j'|] eqn:E2; cbn in H; [|discriminate]. injection H as <-.
    specialize (IH s j' (S b) E2). replace (b + S j')%nat with (S b + j')%nat by lia.
    destruct y; cbn; auto.
Qed.

Lemma existsb_code : forall j l, existsb (N.eqb (code j)) (map code l) = true <-> In j l.
Proof.
  intros j l. rewrite existsb_exists. split.
  - intros [y [Hy He]]. neq. subst y. apply in_map_iff in Hy. destruct Hy as [i [Hc Hi]].
    apply code_inj in Hc. subst. assumption.
  - intro H. exists (code j). split; [apply in_map; assumption|apply N.eqb_refl].
Qed.

Lemma firsts_num_fr : forall l seen ext, num_st seen l = seen ++ ext ->
  firsts (map code (frpos 0 seen)) (num_out_fr seen l) = map code (frpos (List.length seen) ext).
Proof.
  induction l as [|x t IH]; intros seen ext He; cbn in He.
  - rewrite <- (app_nil_r seen) in He at 1. apply app_inv_head in He. subst. reflexivity.
  - assert (Hcase : (seen_add seen x = seen /\ idx seen x <> None) \/
                    (seen_add seen x = seen ++ [x] /\ idx seen x = None)).
    { unfold seen_add. destruct (idx seen x); [left|right]; split; congruence. }
    destruct Hcase as [[Ha Hi]|[Ha Hi]].
    + destruct x as [i|s]; cbn [num_out_fr]; rewrite Ha in *; [apply IH; assumption|].
      cbn [firsts]. unfold seen_no. destruct (idx seen (Fr s)) as [j|] eqn:E; [|congruence].
      assert (existsb (N.eqb (code j)) (map code (frpos 0 seen)) = true) as ->.
      { apply existsb_code. apply (idx_frpos seen s j 0). assumption. }
      apply IH. assumption.
    + rewrite Ha in He. destruct (num_st_ext t (seen ++ [x])) as [ext' He'].
      assert (ext = x :: ext').
      { rewrite He' in He. rewrite <- app_assoc in He. apply app_inv_head in He. cbn in He. congruence. }
      subst ext. specialize (IH _ _ He'). rewrite app_length in IH. cbn [List.length] in IH.
      rewrite Nat.add_1_r in IH. rewrite frpos_app in IH. cbn [Nat.add] in IH.
      destruct x as [i|s]; cbn [num_out_fr frpos]; rewrite Ha.
      * cbn [frpos] in IH. rewrite app_nil_r in IH. exact IH.
      * cbn [firsts]. unfold seen_no. rewrite Hi.
        assert (existsb (N.eqb (code (List.length seen))) (map code (frpos 0 seen)) = false) as ->.
        { destruct (existsb _ _) eqn:E; [|reflexivity]. apply existsb_code in E.
          apply frpos_bounds in E. lia. }
        cbn [frpos] in IH. rewrite map_app in IH. cbn [map] in IH. rewrite IH. reflexivity.
Qed.

(* ================================================================== *)
(* 5. a node is determined by its skeleton and its occurrence list     *)
(* ================================================================== *)

Lemma skel_vals_inj : forall (m m' : slotmap) r r',
  map (fun p : slot * slot => (fst p, 0)) m = map (fun p : slot * slot => (fst p, 0)) m' ->
  map snd m ++ r = map snd m' ++ r' -> m = m' /\ r = r'.
Proof.
  induction m as [|[k v] t IH]; intros [|[k' v'] t'] r r' H1 H2; cbn in *; try discriminate; [auto|].
  injection H1 as Hk Ht. injection H2 as Hv Hr. destruct (IH _ _ _ Ht Hr) as [-> ->]. subst. auto.
Qed.

Lemma skel_occ_inj_f : forall a b r r',
  skel_f a = skel_f b -> all_occ_f a ++ r = all_occ_f b ++ r' -> a = b /\ r = r'.
Proof.
  induction a as [s|x|s a IH|p]; intros [s'|x'|s' b|p'] r r' H1 H2; cbn in *; try discriminate.
  - injection H2 as -> ->. auto.
  - injection H1 as Hid Hm. unfold values_vec in H2.
    destruct (skel_vals_inj _ _ _ _ Hm H2) as [E ->]. destruct x, x'; cbn in *; subst; auto.
  - injection H1 as H1. injection H2 as -> H2. destruct (IH _ _ _ H1 H2) as [-> ->]. auto.
  - injection H1 as ->. auto.
Qed.

Lemma skel_occ_inj_args : forall l l' r r',
  map skel_f l = map skel_f l' ->
  flat_map all_occ_f l ++ r = flat_map all_occ_f l' ++ r' -> l = l' /\ r = r'.
Proof.
  induction l as [|a t IH]; intros [|a' t'] r r' H1 H2; cbn in *; try discriminate; [auto|].
  injection H1 as Ha Ht. rewrite <- !app_assoc in H2.
  destruct (skel_occ_inj_f _ _ _ _ Ha H2) as [-> H3]. destruct (IH _ _ _ Ht H3) as [-> ->]. auto.
Qed.

Theorem skel_occ_inj : forall n n', skel n = skel n' -> all_occ n = all_occ n' -> n = n'.
Proof.
  intros [v l] [v' l'] H1 H2. unfold skel, all_occ in *. cbn in *. injection H1 as -> H1.
  destruct (skel_occ_inj_args l l' [] [] H1) as [-> _]; [rewrite !app_nil_r; assumption|reflexivity].
Qed.

Lemma nbind_skel : forall a, nbind_f (skel_f a) = nbind_f a.
Proof. induction a; cbn; congruence. Qed.

(* ================================================================== *)
(* 6. renaming all occurrences by a function of their pattern entry    *)
(* ================================================================== *)

Definition env_ren (g : occ -> N) (env : benv) : benv := map (fun q => (g (Bnd (snd q)), snd q)) env.
Definition ren (g : occ -> N) : occ -> occ := rename_occ (fun s => g (Fr s)).

Lemma blookup_in : forall env s i, blookup env s = Some i -> In (s, i) env.
Proof.
  induction env as [|[x j] t IH]; intros s i H; cbn in *; [discriminate|].
  destruct (s =? x) eqn:E; neq.
  - injection H as ->. subst. auto.
  - right. apply IH. assumption.
Qed.

Lemma key_bnd : forall env s i, key env s = Bnd i -> In (s, i) env.
Proof.
  intros env s i H. unfold key in H. destruct (blookup env s) eqn:E; [|discriminate].
  injection H as ->. apply blookup_in. assumption.
Qed.

Lemma key_cases : forall env s, key env s = Fr s \/ exists i, key env s = Bnd i /\ In (s, i) env.
Proof.
  intros env s. unfold key. destruct (blookup env s) eqn:E; [right|left; reflexivity].
  eexists. split; [reflexivity|]. apply blookup_in. assumption.
Qed.

Lemma key_cons : forall x i t s, key ((x, i) :: t) s = if s =? x then Bnd i else key t s.
Proof. intros. unfold key. cbn. destruct (s =? x); reflexivity. Qed.

Lemma key_ren : forall g env s, NoDup (map snd env) ->
  inj_on g (key env s :: map Bnd (map snd env)) ->
  key (env_ren g env) (g (key env s)) = ren g (key env s).
Proof.
  intros g. induction env as [|[x i] t IH]; intros s Hnd Hinj.
  - reflexivity.
  - cbn [env_ren map snd]. rewrite !key_cons. cbn in Hnd. inversion Hnd as [|? ? Hni Hnd']; subst.
    rewrite key_cons in Hinj. destruct (s =? x) eqn:E.
    + rewrite N.eqb_refl. reflexivity.
    + assert (Hne : key t s <> Bnd i).
      { intro H. apply key_bnd in H. apply Hni. change i with (snd (s, i)). apply in_map. assumption. }
      assert (g (key t s) =? g (Bnd i) = false) as ->.
      { apply N.eqb_neq. intro H. apply Hne. apply Hinj; cbn; auto. }
      apply IH; [assumption|]. eapply inj_on_incl; [exact Hinj|]. intros a [Ha|Ha]; cbn; auto.
Qed.

Lemma pat_vals_ren : forall g env (vm vm' : slotmap) r r', NoDup (map snd env) ->
  inj_on g (map Bnd (map snd env) ++ map (key env) (map snd vm)) ->
  map (fun p : slot * slot => (fst p, 0)) vm' = map (fun p : slot * slot => (fst p, 0)) vm ->
  map snd vm' ++ r' = map g (map (key env) (map snd vm) ++ r) ->
  map (key (env_ren g env)) (map snd vm') = map (ren g) (map (key env) (map snd vm)) /\ r' = map g r.
Proof.
  intros g env. induction vm as [|[k v] t IH]; intros [|[k' v'] t'] r r' Hnd Hinj H1 H2; cbn in *; try discriminate; [auto|].
  injection H1 as Hk Ht. injection H2 as Hv Hr.
  destruct (IH t' r r' Hnd) as [E1 E2]; [|assumption|assumption|].
  { eapply inj_on_incl; [exact Hinj|]. intros a Ha. apply in_app_iff in Ha. apply in_app_iff. cbn. tauto. }
  rewrite E1. split; [|assumption]. f_equal. subst v'. apply key_ren; [assumption|].
  eapply inj_on_incl; [exact Hinj|]. intros a [Ha|Ha]; apply in_app_iff; cbn; auto.
Qed.

Lemma pat_f_ren : forall g a a' env k r r', NoDup (map snd env) ->
  (forall i, In i (map snd env) -> (i < k)%nat) ->
  inj_on g (map Bnd (map snd env) ++ pat_f env k a) ->
  skel_f a' = skel_f a ->
  all_occ_f a' ++ r' = map g (pat_f env k a ++ r) ->
  pat_f (env_ren g env) k a' = map (ren g) (pat_f env k a) /\ r' = map g r.
Proof.
  intros g. induction a as [s|x|s b IH|p]; intros [s'|x'|s' b'|p'] env k r r' Hnd Hlt Hinj H1 H2; cbn in *; try discriminate.
  - injection H2 as -> ->. split; [|reflexivity]. f_equal. apply key_ren; [assumption|].
    eapply inj_on_incl; [exact Hinj|]. intros a [Ha|Ha]; apply in_app_iff; cbn; auto.
  - injection H1 as Hid Hm. unfold values_vec in *. eapply pat_vals_ren; eassumption.
  - injection H1 as H1. injection H2 as -> H2.
    destruct (IH b' ((s, k) :: env) (S k) r r') as [E1 E2]; try assumption.
    + cbn. constructor; [|assumption]. intro Hi. apply Hlt in Hi. lia.
    + cbn. intros i [<-|Hi]; [lia|]. apply Hlt in Hi. lia.
    + eapply inj_on_incl; [exact Hinj|]. intros a Ha. cbn in Ha. rewrite in_app_iff in *. cbn. tauto.
    + cbn [env_ren map snd fst] in E1. change (map (fun q : slot * nat => (g (Bnd (snd q)), snd q)) env) with (env_ren g env) in E1.
      split; [f_equal; exact E1|exact E2].
  - auto.
Qed.

Lemma pat_args_ren : forall g l l' k, inj_on g (pat_args k l) ->
  map skel_f l' = map skel_f l ->
  flat_map all_occ_f l' = map g (pat_args k l) ->
  pat_args k l' = map (ren g) (pat_args k l).
Proof.
  intros g. induction l as [|a t IH]; intros [|a' t'] k Hinj H1 H2; cbn in *; try discriminate; [reflexivity|].
  injection H1 as Ha Ht.
  destruct (pat_f_ren g a a' [] k (pat_args (k + nbind_f a) t) (flat_map all_occ_f t')) as [E1 E2]; cbn; try assumption.
  - constructor.
  - intros i [].
  - eapply inj_on_incl; [exact Hinj|]. intros x Hx. apply in_app_iff. auto.
  - cbn in E1. rewrite map_app. f_equal; [exact E1|].
    assert (nbind_f a' = nbind_f a) as -> by (rewrite <- (nbind_skel a'), Ha; apply nbind_skel).
    apply IH; [|assumption|assumption].
    eapply inj_on_incl; [exact Hinj|]. intros x Hx. apply in_app_iff. auto.
Qed.

(* the numbering agrees with any g that agrees with the final state *)
Definition agrees (g : occ -> N) (seen : list occ) : Prop :=
  forall x j, idx seen x = Some j -> g x = code j.

Lemma num_out_agrees : forall g l seen, agrees g (num_st seen l) -> num_out seen l = map g l.
Proof.
  intros g. induction l as [|x t IH]; intros seen Hg; cbn in *; [reflexivity|].
  rewrite (IH _ Hg). f_equal. symmetry. apply Hg. apply idx_num_st. apply idx_seen_add.
Qed.

Lemma num_out_fr_agrees : forall g l seen, agrees g (num_st seen l) ->
  num_out_fr seen l = map (fun s => g (Fr s)) (frees l).
Proof.
  intros g. induction l as [|[i|s] t IH]; intros seen Hg; cbn in *; [reflexivity|apply IH; assumption|].
  rewrite (IH _ Hg). f_equal. symmetry. apply Hg. apply idx_num_st. apply idx_seen_add.
Qed.

Lemma agrees_inj : forall g seen, agrees g seen -> inj_on g seen.
Proof.
  intros g seen Hg x y Hx Hy H. apply idx_in in Hx, Hy. destruct Hx as [i Hi]. destruct Hy as [j Hj].
  rewrite (Hg _ _ Hi), (Hg _ _ Hj) in H. apply code_inj in H. subst. eapply idx_inj; eassumption.
Qed.

(* ================================================================== *)
(* 7. the traversal of weak_shape computes the numbering of the pattern *)
(* ================================================================== *)

Record R (env : benv) (k : nat) (seen : list occ) (m : slotmap) (c : N) : Prop := {
  R_wf : wf m;
  R_c : c = N.of_nat (List.length seen);
  R_get : forall s, get m s = option_map code (idx seen (key env s));
  R_bnd : forall i, In (Bnd i) seen -> (i < k)%nat;
  R_env : forall s i, In (s, i) env -> In (Bnd i) seen
}.

Lemma on_see_spec : forall env k seen m c s s' m' c', R env k seen m c ->
  on_see s (m, c) = (s', (m', c')) ->
  s' = code (seen_no seen (key env s)) /\ R env k (seen_add seen (key env s)) m' c'.
Proof.
  intros env k seen m c s s' m' c' HR H. destruct HR as [Hwf Hc Hget Hbnd Henv].
  unfold on_see in H. cbn [fst snd] in H. rewrite Hget in H. unfold seen_no, seen_add.
  destruct (idx seen (key env s)) as [j|] eqn:E; cbn in H; injection H as <- <- <-.
  - split; [reflexivity|]. constructor; assumption.
  - assert (Hk : key env s = Fr s).
    { destruct (key_cases env s) as [Hk|[i [Hk Hi]]]; [assumption|].
      apply Henv in Hi. rewrite Hk in E. apply idx_none in E. contradiction. }
    rewrite Hk in *. split; [unfold code; subst c; reflexivity|]. constructor.
    + apply insert_wf. assumption.
    + rewrite app_length. cbn. lia.
    + intro s0. rewrite get_insert by assumption. destruct (s0 =? s) eqn:E0; neq.
      * subst s0. rewrite Hk, idx_app_new by assumption. cbn. unfold code. subst c. reflexivity.
      * rewrite idx_app_neq; [apply Hget|]. intro H. destruct (key_cases env s0) as [Hk0|[i [Hk0 _]]]; congruence.
    + intros i Hi. apply in_app_iff in Hi. destruct Hi as [Hi|[Hi|[]]]; [auto|discriminate].
    + intros s0 i Hi. apply in_app_iff. left. eapply Henv. eassumption.
Qed.

Lemma ws_vals_spec : forall env k vm seen m c vm' m' c', R env k seen m c ->
  ws_vals vm (m, c) = (vm', (m', c')) ->
  map snd vm' = num_out seen (map (key env) (map snd vm)) /\
  map (fun p : slot * slot => (fst p, 0)) vm' = map (fun p : slot * slot => (fst p, 0)) vm /\
  R env k (num_st seen (map (key env) (map snd vm))) m' c'.
Proof.
  intros env k. induction vm as [|[x v] t IH]; intros seen m c vm' m' c' HR H; cbn in H.
  - injection H as <- <- <-. cbn. auto.
  - destruct (on_see v (m, c)) as [v1 [m1 c1]] eqn:E1.
    destruct (ws_vals t (m1, c1)) as [t1 [m2 c2]] eqn:E2.
    injection H as <- <- <-.
    destruct (on_see_spec _ _ _ _ _ _ _ _ _ HR E1) as [-> HR1].
    destruct (IH _ _ _ _ _ _ HR1 E2) as [H1 [H2 H3]]. cbn. rewrite H1, H2. auto.
Qed.

Lemma ws_f_spec : forall a env k seen m c a' m' c', R env k seen m c ->
  ws_f false a (m, c) = (a', (m', c')) ->
  all_occ_f a' = num_out seen (pat_f env k a) /\
  skel_f a' = skel_f a /\
  R env (k + nbind_f a) (num_st seen (pat_f env k a)) m' c'.
Proof.
  induction a as [s|x|s b IH|p]; intros env k seen m c a' m' c' HR H; cbn [ws_f] in H.
  - destruct (on_see s (m, c)) as [s1 [m1 c1]] eqn:E1. injection H as <- <- <-.
    destruct (on_see_spec _ _ _ _ _ _ _ _ _ HR E1) as [-> HR1]. cbn. rewrite Nat.add_0_r. auto.
  - destruct (ws_vals (am x) (m, c)) as [vm [m1 c1]] eqn:E1. injection H as <- <- <-.
    destruct (ws_vals_spec _ _ _ _ _ _ _ _ _ HR E1) as [H1 [H2 H3]]. cbn. rewrite Nat.add_0_r.
    unfold values_vec. rewrite H1, H2. auto.
  - unfold add_slot in H. cbn [fst snd] in H.
    destruct (ws_f false b (insert s (4 * c) m, c + 1)) as [b' [m2 c2]] eqn:E1.
    cbn [fst snd] in H. injection H as <- <- <-.
    pose proof HR as [Hwf Hc Hget Hbnd Henv].
    assert (Hk : idx seen (Bnd k) = None).
    { apply idx_none. intro Hi. apply Hbnd in Hi. lia. }
    assert (HR1 : R ((s, k) :: env) (S k) (seen ++ [Bnd k]) (insert s (4 * c) m) (c + 1)).
    { constructor.
      - apply insert_wf. assumption.
      - rewrite app_length. cbn. lia.
      - intro s0. rewrite get_insert by assumption. rewrite key_cons. destruct (s0 =? s) eqn:E0.
        + rewrite idx_app_new by assumption. cbn. unfold code. subst c. reflexivity.
        + rewrite idx_app_neq; [apply Hget|]. intro H.
          apply key_bnd in H. apply Henv in H. apply Hbnd in H. lia.
      - intros i Hi. apply in_app_iff in Hi. destruct Hi as [Hi|[Hi|[]]]; [apply Hbnd in Hi; lia|]. injection Hi as <-. lia.
      - intros s0 i [Hi|Hi]; apply in_app_iff; [injection Hi as <- <-; cbn; auto|]. left. eapply Henv. eassumption. }
    destruct (IH _ _ _ _ _ _ _ _ HR1 E1) as [H1 [H2 HR2]].
    cbn [all_occ_f skel_f pat_f nbind_f num_out num_st].
    assert (Hadd : seen_add seen (Bnd k) = seen ++ [Bnd k]) by (unfold seen_add; rewrite Hk; reflexivity).
    assert (Hno : seen_no seen (Bnd k) = List.length seen) by (unfold seen_no; rewrite Hk; reflexivity).
    rewrite Hadd, Hno, H1, H2. split; [unfold code; subst c; reflexivity|]. split; [reflexivity|].
    set (seen2 := num_st (seen ++ [Bnd k]) (pat_f ((s, k) :: env) (S k) b)) in *.
    destruct HR2 as [Hwf2 Hc2 Hget2 Hbnd2 Henv2].
    assert (Hwf3 : wf match get m s with Some o => insert s o m2 | None => remove s m2 end).
    { destruct (get m s); [apply insert_wf|apply remove_wf]; assumption. }
    assert (Hg3 : forall s0, get match get m s with Some o => insert s o m2 | None => remove s m2 end s0 =
                             if s0 =? s then get m s else get m2 s0).
    { intro s0. destruct (get m s) eqn:Eg; [rewrite get_insert|rewrite get_remove]; try assumption; reflexivity. }
    constructor.
    + assumption.
    + assumption.
    + intro s0. rewrite Hg3. destruct (s0 =? s) eqn:E0; neq.
      * subst s0. rewrite Hget. destruct (idx seen (key env s)) as [j|] eqn:Ej.
        -- unfold seen2. erewrite idx_num_st; [reflexivity|]. apply idx_app_some. assumption.
        -- assert (Hfr : key env s = Fr s).
           { destruct (key_cases env s) as [Hk0|[i [Hk0 Hi]]]; [assumption|].
             apply Henv in Hi. rewrite Hk0 in Ej. apply idx_none in Ej. contradiction. }
           rewrite Hfr in *. symmetry. cbn.
           assert (idx seen2 (Fr s) = None) as ->; [|reflexivity].
           apply idx_none. unfold seen2. rewrite num_st_in, in_app_iff. intros [[Hi|[Hi|[]]]|Hi].
           ++ apply idx_none in Ej. contradiction.
           ++ discriminate.
           ++ apply pat_f_fr in Hi. cbn in Hi. rewrite N.eqb_refl in Hi. discriminate.
      * rewrite Hget2, key_cons. apply N.eqb_neq in E0. rewrite E0. reflexivity.
    + intros i Hi. apply Hbnd2 in Hi. lia.
    + intros s0 i Hi. apply (Henv2 s0 i). right. assumption.
  - injection H as <- <- <-. cbn. rewrite Nat.add_0_r. auto.
Qed.

Lemma ws_args_spec : forall l k seen m c l' m' c', R [] k seen m c ->
  ws_args false l (m, c) = (l', (m', c')) ->
  flat_map all_occ_f l' = num_out seen (pat_args k l) /\
  map skel_f l' = map skel_f l /\
  exists k', R [] k' (num_st seen (pat_args k l)) m' c'.
Proof.
  induction l as [|a t IH]; intros k seen m c l' m' c' HR H; cbn [ws_args] in H.
  - injection H as <- <- <-. cbn. eauto.
  - destruct (ws_f false a (m, c)) as [a1 [m1 c1]] eqn:E1.
    destruct (ws_args false t (m1, c1)) as [t1 [m2 c2]] eqn:E2. injection H as <- <- <-.
    destruct (ws_f_spec _ _ _ _ _ _ _ _ _ HR E1) as [H1 [H2 HR1]].
    destruct (IH _ _ _ _ _ _ _ HR1 E2) as [H3 [H4 [k' HR2]]].
    cbn. rewrite num_out_app, num_st_app, H1, H2, H3, H4. eauto.
Qed.

Definition gof (seen : list occ) (x : occ) : N :=
  match idx seen x with Some j => code j | None => 0 end.

Lemma gof_agrees : forall seen, agrees (gof seen) seen.
Proof. intros seen x j H. unfold gof. rewrite H. reflexivity. Qed.

(* everything the traversal tells us about a weak shape *)
Lemma ws_top : forall n sh bij, weak_shape false false n = Ok (sh, bij) ->
  exists mF, bij = inverse_nocheck mF /\ wf mF /\
    (forall s, get mF s = option_map code (idx (num_st [] (pattern n)) (Fr s))) /\
    skel sh = skel n /\
    all_occ sh = num_out [] (pattern n) /\
    pattern sh = map (ren (gof (num_st [] (pattern n)))) (pattern n).
Proof.
  intros n sh bij H. unfold weak_shape in H.
  destruct (ws_args false (nargs n) ([], 0)) as [l [mF cF]] eqn:E.
  unfold inverse in H. cbn in H. injection H as <- <-.
  assert (HR0 : R [] 0 [] [] 0).
  { constructor; cbn; auto; try tauto. }
  destruct (ws_args_spec _ _ _ _ _ _ _ _ HR0 E) as [H1 [H2 [k' HR]]].
  fold (pattern n) in *. destruct HR as [Hwf Hc Hget Hbnd Henv].
  exists mF. split; [reflexivity|]. split; [assumption|]. split; [exact Hget|].
  split; [unfold skel; cbn; rewrite H2; reflexivity|]. split; [exact H1|].
  unfold pattern at 1. cbn [nargs].
  assert (Hinj : inj_on (gof (num_st [] (pattern n))) (pattern n)).
  { eapply inj_on_incl; [apply agrees_inj; apply gof_agrees|]. intros x Hx. apply num_st_in. auto. }
  apply pat_args_ren; [exact Hinj|exact H2|].
  unfold all_occ in H1. cbn [nargs] in H1. rewrite H1. apply num_out_agrees. apply gof_agrees.
Qed.

(* ================================================================== *)
(* 8. main theorems                                                    *)
(* ================================================================== *)

Lemma node_equiv_shape : forall n sh bij, weak_shape false false n = Ok (sh, bij) -> node_equiv n sh.
Proof.
  intros n sh bij H. destruct (ws_top _ _ _ H) as [mF [_ [_ [_ [Hs [_ Hp]]]]]].
  split; [congruence|].
  exists (fun s => gof (num_st [] (pattern n)) (Fr s)). split; [|symmetry; exact Hp].
  intros x y Hx Hy Hg. rewrite <- frees_pattern in Hx, Hy. apply frees_in in Hx, Hy.
  assert (Fr x = Fr y) as Heq; [|congruence].
  apply (agrees_inj _ _ (gof_agrees (num_st [] (pattern n)))); [apply num_st_in; auto|apply num_st_in; auto|exact Hg].
Qed.

(* 1. the shape is a renaming of the node ... *)
Theorem shape_sound : forall n sh bij, weak_shape false false n = Ok (sh, bij) -> node_equiv sh n.
Proof. intros. apply node_equiv_sym. eapply node_equiv_shape. eassumption. Qed.

(* ... whose slots (binders and free slots share one counter) are 4*0, 4*1, ..., 4*(k-1) in order of
   first occurrence *)
Theorem shape_numbering : forall n sh bij, weak_shape false false n = Ok (sh, bij) ->
  exists k, firsts [] (all_occ sh) = map code (seq 0 k).
Proof.
  intros n sh bij H. destruct (ws_top _ _ _ H) as [mF [_ [_ [_ [_ [Ho _]]]]]].
  exists (List.length (num_st [] (pattern n))). rewrite Ho.
  pose proof (firsts_num (pattern n) []) as Hf. cbn in Hf. rewrite Nat.sub_0_r in Hf. exact Hf.
Qed.

Lemma nobind_pub_f : forall a, nobind_f a = true -> pub_occ_f a = all_occ_f a.
Proof. destruct a; cbn; intro H; try reflexivity. discriminate. Qed.

Lemma nobind_skel : forall a, nobind_f (skel_f a) = nobind_f a.
Proof. destruct a; reflexivity. Qed.

Lemma binder_free_pub : forall n, binder_free n = true -> pub_occ n = all_occ n.
Proof.
  intros [v l]. unfold binder_free, pub_occ, all_occ. cbn. induction l as [|a t IH]; cbn; intro H; [reflexivity|].
  apply andb_true_iff in H. destruct H as [H1 H2]. rewrite (nobind_pub_f _ H1), (IH H2). reflexivity.
Qed.

Lemma binder_free_skel : forall n n', skel n = skel n' -> binder_free n = binder_free n'.
Proof.
  intros [v l] [v' l'] H. unfold skel, binder_free in *. cbn in *. injection H as _ H.
  revert l' H. induction l as [|a t IH]; intros [|a' t'] H; cbn in *; try discriminate; [reflexivity|].
  injection H as Ha Ht. rewrite (IH _ Ht). rewrite <- (nobind_skel a), Ha, nobind_skel. reflexivity.
Qed.

(* without binders: the free slots of the shape are exactly 4*0 .. 4*(k-1) in order of first occurrence *)
Theorem shape_numbering_free : forall n sh bij, weak_shape false false n = Ok (sh, bij) ->
  binder_free n = true ->
  exists k, firsts [] (pub_occ sh) = map code (seq 0 k).
Proof.
  intros n sh bij H Hb. destruct (shape_numbering _ _ _ H) as [k Hk]. exists k.
  rewrite binder_free_pub; [assumption|].
  destruct (ws_top _ _ _ H) as [mF [_ [_ [_ [Hs _]]]]]. rewrite (binder_free_skel _ _ Hs). assumption.
Qed.

Lemma shape_pub : forall n sh bij, weak_shape false false n = Ok (sh, bij) ->
  pub_occ sh = map (fun s => gof (num_st [] (pattern n)) (Fr s)) (pub_occ n).
Proof.
  intros n sh bij H. destruct (ws_top _ _ _ H) as [mF [_ [_ [_ [_ [_ Hp]]]]]].
  rewrite <- !frees_pattern, Hp. apply frees_rename.
Qed.

(* with binders: the free slots of the shape, in order of first occurrence, are strictly increasing
   multiples of 4 (the numbers in between were given to binders) *)
Theorem shape_numbering_pub : forall n sh bij, weak_shape false false n = Ok (sh, bij) ->
  exists js, firsts [] (pub_occ sh) = map code js /\ StronglySorted lt js.
Proof.
  intros n sh bij H. rewrite (shape_pub _ _ _ H), <- frees_pattern.
  rewrite <- (num_out_fr_agrees _ (pattern n) []) by apply gof_agrees.
  exists (frpos 0 (num_st [] (pattern n))). split; [|apply frpos_sorted].
  apply (firsts_num_fr (pattern n) [] (num_st [] (pattern n))). reflexivity.
Qed.

(* the free slots alone are NOT 0,4,8,... when the node has binders: binders draw from the same counter *)
Example shape_free_slots_skip_binders :
  weak_shape false false {| nvar := 0; nargs := [ABind 5 (ASlot 7)] |}
  = Ok ({| nvar := 0; nargs := [ABind 0 (ASlot 4)] |}, [(4, 7)]).
Proof. reflexivity. Qed.

(* 2. equivalent nodes have equal shapes *)
Theorem shape_invariant : forall n n' sh bij sh' bij',
  weak_shape false false n = Ok (sh, bij) -> weak_shape false false n' = Ok (sh', bij') ->
  node_equiv n n' -> sh = sh'.
Proof.
  intros n n' sh bij sh' bij' H H' [Hs [rho [Hinj Hp]]].
  destruct (ws_top _ _ _ H) as [mF [_ [_ [_ [Hs1 [Ho1 _]]]]]].
  destruct (ws_top _ _ _ H') as [mF' [_ [_ [_ [Hs2 [Ho2 _]]]]]].
  apply skel_occ_inj; [congruence|]. rewrite Ho1, Ho2, <- Hp.
  symmetry. refine (proj1 (num_map (rename_occ rho) (pattern n) [] _)).
  intros x y Hx Hy Hxy. cbn in Hx, Hy. destruct x as [i|s], y as [j|t]; cbn in Hxy; try discriminate; [assumption|].
  injection Hxy as Hxy. f_equal. apply Hinj; [| |assumption]; rewrite <- frees_pattern; apply frees_in; assumption.
Qed.

(* 3. nodes with equal shapes are equivalent *)
Theorem shape_complete : forall n n' sh bij sh' bij',
  weak_shape false false n = Ok (sh, bij) -> weak_shape false false n' = Ok (sh', bij') ->
  sh = sh' -> node_equiv n n'.
Proof.
  intros n n' sh bij sh' bij' H H' E. subst sh'.
  eapply node_equiv_trans; [eapply node_equiv_shape; eassumption|eapply shape_sound; eassumption].
Qed.

Corollary shape_canonical : forall n n' sh bij sh' bij',
  weak_shape false false n = Ok (sh, bij) -> weak_shape false false n' = Ok (sh', bij') ->
  (node_equiv n n' <-> sh = sh').
Proof. intros. split; [eapply shape_invariant|eapply shape_complete]; eassumption. Qed.

(* 4. the shape of a shape is itself *)
Theorem shape_idempotent : forall n sh bij, weak_shape false false n = Ok (sh, bij) ->
  exists bij2, weak_shape false false sh = Ok (sh, bij2).
Proof.
  intros n sh bij H. destruct (weak_shape_total false sh) as [sh2 [bij2 H2]].
  exists bij2. rewrite H2. f_equal. f_equal. symmetry.
  eapply shape_invariant; [exact H|exact H2|]. eapply node_equiv_shape. eassumption.
Qed.

(* 5. the returned bijection maps the free slots of the shape onto the free slots of the node *)
Theorem shape_bij : forall n sh bij, weak_shape false false n = Ok (sh, bij) ->
  (forall s, (exists k, get bij k = Some s) <-> In s (pub_occ n)) /\
  (forall k, get bij k <> None <-> In k (pub_occ sh)) /\
  map (fun k => get bij k) (pub_occ sh) = map Some (pub_occ n).
Proof.
  intros n sh bij H. destruct (ws_top _ _ _ H) as [mF [-> [Hwf [Hget [_ [_ Hp]]]]]].
  set (seenF := num_st [] (pattern n)) in *.
  assert (Hbij : is_bijection mF = true).
  { apply is_bijection_injective; [assumption|]. intros k1 k2 v H1 H2. rewrite Hget in H1, H2.
    destruct (idx seenF (Fr k1)) as [j1|] eqn:E1; [|discriminate].
    destruct (idx seenF (Fr k2)) as [j2|] eqn:E2; [|discriminate].
    cbn in H1, H2. assert (j1 = j2) by (apply code_inj; congruence). subst j2.
    assert (Fr k1 = Fr k2) by (eapply idx_inj; eassumption). congruence. }
  assert (Hinv : forall y x, get (inverse_nocheck mF) y = Some x <-> get mF x = Some y).
  { intros. apply get_inverse; assumption. }
  assert (Hpub : forall s, In s (pub_occ n) <-> exists j, idx seenF (Fr s) = Some j).
  { intro s. rewrite <- frees_pattern, frees_in. split.
    - intro Hi. apply idx_in. apply num_st_in. auto.
    - intros [j Hj]. apply idx_some_in in Hj. apply num_st_in in Hj. destruct Hj as [[]|Hj]. assumption. }
  assert (Hsh : pub_occ sh = map (fun s => gof seenF (Fr s)) (pub_occ n)).
  { rewrite <- !frees_pattern, Hp. apply frees_rename. }
  assert (Hfw : forall s, In s (pub_occ n) -> get (inverse_nocheck mF) (gof seenF (Fr s)) = Some s).
  { intros s Hs. apply Hinv. rewrite Hget. apply Hpub in Hs. destruct Hs as [j Hj].
    unfold gof. rewrite Hj. reflexivity. }
  split; [|split].
  - intro s. split.
    + intros [k Hk]. apply Hinv in Hk. rewrite Hget in Hk. apply Hpub.
      destruct (idx seenF (Fr s)); [eauto|discriminate].
    + intro Hs. eexists. apply Hfw. assumption.
  - intro k. rewrite Hsh, in_map_iff. split.
    + intro Hk. destruct (get (inverse_nocheck mF) k) as [s|] eqn:E; [|congruence].
      apply Hinv in E. exists s. rewrite Hget in E. split.
      * unfold gof. destruct (idx seenF (Fr s)); cbn in E; congruence.
      * apply Hpub. destruct (idx seenF (Fr s)); [eauto|discriminate].
    + intros [s [<- Hs]]. rewrite (Hfw s Hs). discriminate.
  - rewrite Hsh, map_map. apply map_ext_in. exact Hfw.
Qed.

(* the CHECKS assertion inside `inverse` can never fire: the final map is injective *)
Lemma R_bijection : forall k seen m c, R [] k seen m c -> is_bijection m = true.
Proof.
  intros k seen m c [Hwf _ Hget _ _]. apply is_bijection_injective; [assumption|].
  intros k1 k2 v H1 H2. rewrite Hget in H1, H2. unfold key in H1, H2. cbn in H1, H2.
  destruct (idx seen (Fr k1)) as [j1|] eqn:E1; [|discriminate].
  destruct (idx seen (Fr k2)) as [j2|] eqn:E2; [|discriminate].
  cbn in H1, H2. assert (j1 = j2) by (apply code_inj; congruence). subst j2.
  assert (Fr k1 = Fr k2) by (eapply idx_inj; eassumption). congruence.
Qed.

Theorem weak_shape_checks_irrelevant : forall n, weak_shape false true n = weak_shape false false n.
Proof.
  intro n. unfold weak_shape. destruct (ws_args false (nargs n) ([], 0)) as [l [mF cF]] eqn:E.
  assert (HR0 : R [] 0 [] [] 0) by (constructor; cbn; auto; tauto).
  destruct (ws_args_spec _ _ _ _ _ _ _ _ HR0 E) as [_ [_ [k' HR]]].
  unfold inverse. cbn [fst]. rewrite (R_bijection _ _ _ _ HR). reflexivity.
Qed.

(* ---- sanity checks of the specification ---- *)
Example equiv_alpha :
  node_equiv {| nvar := 0; nargs := [ABind 1 (ASlot 1); ASlot 1] |} {| nvar := 0; nargs := [ABind 2 (ASlot 2); ASlot 1] |}.
Proof. split; [reflexivity|]. exists (fun s => s). split; [intros x y _ _ H; exact H|reflexivity]. Qed.

Example equiv_no_capture :
  ~ node_equiv {| nvar := 0; nargs := [ABind 1 (ASlot 2)] |} {| nvar := 0; nargs := [ABind 2 (ASlot 2)] |}.
Proof. intros [_ [rho [_ H]]]. cbn in H. discriminate. Qed.

Example equiv_injective :
  ~ node_equiv {| nvar := 0; nargs := [ASlot 1; ASlot 2] |} {| nvar := 0; nargs := [ASlot 3; ASlot 3] |}.
Proof.
  intros [_ [rho [Hinj H]]]. cbn in H. injection H as H1 H2.
  assert (1 = 2); [|discriminate]. apply Hinj; cbn; auto. congruence.
Qed.

(* legacy = true (the pinned commit removes the binder's name instead of restoring the shadowed entry):
   slot 1 is seen, shadowed by a binder, forgotten, and then numbered again.  The result is not a
   renaming of the node (0 and 8 both stand for slot 1) and the returned map misses the key 0. *)
Example legacy_shape_not_canonical :
  weak_shape true false {| nvar := 0; nargs := [ASlot 1; ABind 1 (ASlot 1); ASlot 1] |}
  = Ok ({| nvar := 0; nargs := [ASlot 0; ABind 4 (ASlot 4); ASlot 8] |}, [(8, 1)]).
Proof. reflexivity. Qed.

Print Assumptions shape_sound.
Print Assumptions shape_numbering.
Print Assumptions shape_numbering_free.
Print Assumptions shape_numbering_pub.
Print Assumptions shape_invariant.
Print Assumptions shape_complete.
Print Assumptions shape_idempotent.
Print Assumptions shape_bij.
Print Assumptions shape_canonical.
Print Assumptions weak_shape_checks_irrelevant.
Print Assumptions node_equiv_refl.
Print Assumptions node_equiv_sym.
Print Assumptions node_equiv_trans.
