(* Lang/Sig.v — languages as data.  A signature lists the variants that
   `define_language!` was given; a node is a variant index with one argument per
   field.  All `Language` / `LanguageChildren` methods of /repo/src/lang.rs and of
   the derive macro are defined once, by recursion on the field structure, and are
   therefore about every derivable language at once.  Definitions only. *)
From SE Require Export Base.Text Slots.SlotMap.

Inductive pty := PU32 | PBool | PSym.
Inductive fty := TSlot | TApp | TBind (f : fty) | TPay (p : pty).
Record variant := { vname : option text; vfields : list fty }.
Definition sig := list variant.

Inductive pval := PVu32 (n : N) | PVbool (b : bool) | PVsym (t : text).

Record appid := { aid : N; am : slotmap }.

Inductive farg :=
| ASlot (s : slot)
| AApp (a : appid)
| ABind (s : slot) (f : farg)
| APay (p : pval).

Record node := { nvar : nat; nargs : list farg }.

(* ---- typing ---- *)
Definition pval_has (p : pval) (t : pty) : bool :=
  match p, t with
  | PVu32 n, PU32 => n <? 4294967296
  | PVbool _, PBool => true
  | PVsym _, PSym => true
  | _, _ => false
  end.

Fixpoint farg_has (a : farg) (t : fty) : bool :=
  match a, t with
  | ASlot _, TSlot => true
  | AApp _, TApp => true
  | ABind _ f, TBind t' => farg_has f t'
  | APay p, TPay t' => pval_has p t'
  | _, _ => false
  end.

Definition node_has (S : sig) (n : node) : bool :=
  match nth_opt S (nvar n) with
  | Some v => forallb2 farg_has (nargs n) (vfields v)
  | None => false
  end.

(* ---- slot occurrences (lang.rs: LanguageChildren impls; derive: chaining over fields) ---- *)
Fixpoint all_occ_f (a : farg) : list slot :=
  match a with
  | ASlot s => [s]
  | AApp x => values_vec (am x)
  | ABind s f => s :: all_occ_f f
  | APay _ => []
  end.

Fixpoint pub_occ_f (a : farg) : list slot :=
  match a with
  | ASlot s => [s]
  | AApp x => values_vec (am x)
  | ABind s f => filter (fun x => negb (x =? s)) (pub_occ_f f)
  | APay _ => []
  end.

Fixpoint app_occ_f (a : farg) : list appid :=
  match a with
  | AApp x => [x]
  | ABind _ f => app_occ_f f
  | _ => []
  end.

Definition all_occ (n : node) : list slot := flat_map all_occ_f (nargs n).
Definition pub_occ (n : node) : list slot := flat_map pub_occ_f (nargs n).
Definition app_occ (n : node) : list appid := flat_map app_occ_f (nargs n).
Definition slots (n : node) : sset := sset_of_list (pub_occ n).

(* publicness of each occurrence, positionally: an occurrence is public iff it is not a
   binder and its name differs from every enclosing binder's name *)
Fixpoint occ_flags_f (bound : list slot) (a : farg) : list (slot * bool) :=
  match a with
  | ASlot s => [(s, negb (existsb (N.eqb s) bound))]
  | AApp x => map (fun s => (s, negb (existsb (N.eqb s) bound))) (values_vec (am x))
  | ABind s f => (s, false) :: occ_flags_f (s :: bound) f
  | APay _ => []
  end.
Definition occ_flags (n : node) : list (slot * bool) := flat_map (occ_flags_f []) (nargs n).

(* Language::private_slot_occurrences.
   pinned commit: filtered by NAME (an occurrence is private iff no public occurrence has its name);
   repaired: by position. *)
Definition prv_occ_legacy (n : node) : list slot :=
  filter (fun x => negb (existsb (N.eqb x) (pub_occ n))) (all_occ n).
Definition prv_occ (n : node) : list slot :=
  map fst (filter (fun p => negb (snd p)) (occ_flags n)).

(* ---- a state-passing traversal over all occurrences, in occurrence order.
   f is told whether the occurrence is public. ---- *)
Section Trav.
  Context {S : Type} (f : bool -> slot -> S -> slot * S).

  Fixpoint trav_vals (bound : list slot) (m : slotmap) (st : S) : slotmap * S :=
    match m with
    | [] => ([], st)
    | (k, v) :: t =>
        let '(v', st1) := f (negb (existsb (N.eqb v) bound)) v st in
        let '(t', st2) := trav_vals bound t st1 in
        ((k, v') :: t', st2)
    end.

  Fixpoint trav_f (bound : list slot) (a : farg) (st : S) : farg * S :=
    match a with
    | ASlot s => let '(s', st1) := f (negb (existsb (N.eqb s) bound)) s st in (ASlot s', st1)
    | AApp x => let '(m', st1) := trav_vals bound (am x) st in (AApp {| aid := aid x; am := m' |}, st1)
    | ABind s b =>
        let '(s', st1) := f false s st in
        let '(b', st2) := trav_f (s :: bound) b st1 in
        (ABind s' b', st2)
    | APay p => (APay p, st)
    end.

  Fixpoint trav_args (l : list farg) (st : S) : list farg * S :=
    match l with
    | [] => ([], st)
    | a :: t => let '(a', st1) := trav_f [] a st in
                let '(t', st2) := trav_args t st1 in (a' :: t', st2)
    end.

  Definition trav (n : node) (st : S) : node * S :=
    let '(l, st') := trav_args (nargs n) st in ({| nvar := nvar n; nargs := l |}, st').
End Trav.

(* stateless maps *)
Definition map_occ (f : bool -> slot -> slot) (n : node) : node :=
  fst (trav (fun b s (_ : unit) => (f b s, tt)) n tt).

(* with errors: apply_slotmap_partial indexes the map (`m[*x]`) for every public occurrence *)
Definition trav_res (f : bool -> slot -> res slot) (n : node) : res node :=
  let '(n', e) := trav (fun b s (st : option site) =>
                          match st with
                          | Some _ => (s, st)
                          | None => match f b s with Ok s' => (s', None) | Err e => (s, Some e) end
                          end) n None in
  match e with None => Ok n' | Some e => Err e end.

Definition apply_slotmap_partial (checks : bool) (m : slotmap) (n : node) : res node :=
  let prv := prv_occ n in
  trav_res (fun pub s => if pub then
                           do y <- index m s;
                           if checks && existsb (N.eqb y) prv then Err AssertFailed else Ok y
                         else Ok s) n.

Definition apply_slotmap (checks : bool) (m : slotmap) (n : node) : res node :=
  if checks && negb (sset_subset (slots n) (keys m)) then Err AssertFailed
  else apply_slotmap_partial checks m n.

(* apply_slotmap_fresh.  pinned commit: a fresh slot per uncovered OCCURRENCE;
   repaired: one fresh slot per uncovered SLOT (the map is extended as it goes). *)
Definition apply_slotmap_fresh (legacy : bool) (m : slotmap) (n : node) (ctr : N) : node * N :=
  let '(n', (_, c)) :=
    trav (fun pub s (st : slotmap * N) =>
            if pub then
              match get (fst st) s with
              | Some y => (y, st)
              | None => (snd st, (if legacy then fst st else insert s (snd st) (fst st), snd st + 4))
              end
            else (s, st)) n (m, ctr) in
  (n', c).

Definition map_applied_ids (f : appid -> appid) (n : node) : node :=
  let fix go (a : farg) : farg :=
    match a with
    | AApp x => AApp (f x)
    | ABind s b => ABind s (go b)
    | _ => a
    end in
  {| nvar := nvar n; nargs := map go (nargs n) |}.

(* refresh_private / refresh_slots / refresh_internals: bijection_from_fresh_to(set).inverse(), then
   every selected occurrence x becomes fresh[x] *)
Definition refresh_by (sel : bool -> slot -> bool) (set : sset) (n : node) (ctr : N) : res node * N :=
  let '(bf, c) := bijection_from_fresh_to set ctr in
  let fresh := inverse_nocheck bf in
  (trav_res (fun pub s => if sel pub s then index fresh s else Ok s) n, c).

Definition refresh_private (n : node) (ctr : N) : res node * N :=
  refresh_by (fun pub _ => negb pub) (sset_of_list (prv_occ n)) n ctr.
Definition refresh_slots (set : sset) (n : node) (ctr : N) : res node * N :=
  refresh_by (fun _ s => sset_mem s set) set n ctr.
Definition refresh_internals (public : sset) (n : node) (ctr : N) : res node * N :=
  let internals := sset_diff (sset_of_list (all_occ n)) public in
  refresh_by (fun _ s => sset_mem s internals) internals n ctr.

(* ---- weak shape (lang.rs: on_see_slot / add_slot / weak_shape_impl; derive: weak_shape_inplace) ---- *)
Definition wstate := (slotmap * N)%type.

Definition on_see (s : slot) (m : wstate) : slot * wstate :=
  match get (fst m) s with
  | Some s2 => (s2, m)
  | None => (4 * snd m, (insert s (4 * snd m) (fst m), snd m + 1))
  end.
Definition add_slot (s : slot) (m : wstate) : slot * wstate :=
  (4 * snd m, (insert s (4 * snd m) (fst m), snd m + 1)).

Fixpoint ws_vals (vm : slotmap) (m : wstate) : slotmap * wstate :=
  match vm with
  | [] => ([], m)
  | (k, v) :: t => let '(v', m1) := on_see v m in
                   let '(t', m2) := ws_vals t m1 in ((k, v') :: t', m2)
  end.

(* legacy = true: `m.0.remove(s)` after the binder's body (pinned commit);
   legacy = false: the shadowed entry is restored *)
Fixpoint ws_f (legacy : bool) (a : farg) (m : wstate) : farg * wstate :=
  match a with
  | ASlot s => let '(s', m1) := on_see s m in (ASlot s', m1)
  | AApp x => let '(vm, m1) := ws_vals (am x) m in (AApp {| aid := aid x; am := vm |}, m1)
  | ABind s b =>
      let old := get (fst m) s in
      let '(s', m1) := add_slot s m in
      let '(b', m2) := ws_f legacy b m1 in
      let restored :=
        if legacy then remove s (fst m2)
        else match old with Some o => insert s o (fst m2) | None => remove s (fst m2) end in
      (ABind s' b', (restored, snd m2))
  | APay p => (APay p, m)
  end.

Fixpoint ws_args (legacy : bool) (l : list farg) (m : wstate) : list farg * wstate :=
  match l with
  | [] => ([], m)
  | a :: t => let '(a', m1) := ws_f legacy a m in
              let '(t', m2) := ws_args legacy t m1 in (a' :: t', m2)
  end.

Definition weak_shape (legacy checks : bool) (n : node) : res (node * slotmap) :=
  let '(l, m) := ws_args legacy (nargs n) ([], 0) in
  do bij <- inverse checks (fst m);
  Ok ({| nvar := nvar n; nargs := l |}, bij).

(* ---- syntax ---- *)
Inductive selem := SStr (t : text) | SApp (a : appid) | SSlot (s : slot).

Definition print_pval (p : pval) : text :=
  match p with
  | PVu32 n => dec_text n
  | PVbool true => text_of_string "true"
  | PVbool false => text_of_string "false"
  | PVsym t => t
  end.

Definition parse_pval (t : pty) (s : text) : option pval :=
  match t with
  | PU32 => match parse_u32 s with Some n => Some (PVu32 n) | None => None end
  | PBool => if text_eqb s (text_of_string "true") then Some (PVbool true)
             else if text_eqb s (text_of_string "false") then Some (PVbool false) else None
  | PSym => Some (PVsym s)
  end.

Fixpoint to_syntax_f (a : farg) : list selem :=
  match a with
  | ASlot s => [SSlot s]
  | AApp x => [SApp x]
  | ABind s f => SSlot s :: to_syntax_f f
  | APay p => [SStr (print_pval p)]
  end.

Definition to_syntax (S : sig) (n : node) : list selem :=
  match nth_opt S (nvar n) with
  | Some {| vname := Some name |} => SStr name :: flat_map to_syntax_f (nargs n)
  | _ => flat_map to_syntax_f (nargs n)
  end.

(* number of syntax elements a field consumes: the macro's prefix search accepts the first n for
   which T::from_syntax succeeds, and each T accepts exactly one length *)
Fixpoint fwidth (t : fty) : nat :=
  match t with TBind t' => S (fwidth t') | _ => 1%nat end.

Fixpoint from_syntax_f (t : fty) (l : list selem) : option farg :=
  match t, l with
  | TSlot, [SSlot s] => Some (ASlot s)
  | TApp, [SApp a] => Some (AApp a)
  | TBind t', SSlot s :: r => match from_syntax_f t' r with Some f => Some (ABind s f) | None => None end
  | TPay p, [SStr s] => match parse_pval p s with Some v => Some (APay v) | None => None end
  | _, _ => None
  end.

(* fields in order, each taking its width from the front.  `strict` = the repaired macro, which
   rejects left-over elements; the pinned macro ignores them. *)
Fixpoint from_syntax_fields (strict : bool) (ts : list fty) (l : list selem) : option (list farg) :=
  match ts with
  | [] => if strict then (match l with [] => Some [] | _ => None end) else Some []
  | t :: ts' =>
      if Nat.ltb (List.length l) (fwidth t) then None else
      match from_syntax_f t (firstn (fwidth t) l) with
      | None => None
      | Some a => match from_syntax_fields strict ts' (skipn (fwidth t) l) with
                  | Some r => Some (a :: r)
                  | None => None
                  end
      end
  end.

Fixpoint find_named (S : sig) (op : text) (i : nat) : option (nat * variant) :=
  match S with
  | [] => None
  | v :: t => match vname v with
              | Some nm => if text_eqb nm op then Some (i, v) else find_named t op (Datatypes.S i)
              | None => find_named t op (Datatypes.S i)
              end
  end.

Fixpoint try_anon (S : sig) (l : list selem) (i : nat) : option node :=
  match S with
  | [] => None
  | v :: t =>
      match vname v, vfields v with
      | None, [ty] =>
          match from_syntax_f ty l with
          | Some a => Some {| nvar := i; nargs := [a] |}
          | None => try_anon t l (Datatypes.S i)
          end
      | _, _ => try_anon t l (Datatypes.S i)
      end
  end.

Definition from_syntax (strict : bool) (S : sig) (l : list selem) : option node :=
  match l with
  | SStr op :: rest =>
      match find_named S op 0 with
      | Some (i, v) =>
          match from_syntax_fields strict (vfields v) rest with
          | Some args => Some {| nvar := i; nargs := args |}
          | None => None
          end
      | None => try_anon S l 0
      end
  | _ => None
  end.
