(* Parse/ArityFacts.v — every value the repaired parser returns is well formed: each node has
   exactly as many children as its operator has applied-id fields. *)
From SE Require Import Parse.Parser Parse.ParserFacts.
From Coq Require Import Arith Lia.

Definition kind (e : selem) : nat := match e with SStr _ => 0 | SApp _ => 1 | SSlot _ => 2 end%nat.
Definition kinds (l : list selem) : list nat := map kind l.
Definition count_app (l : list selem) : nat := List.length (filter (fun e => match e with SApp _ => true | _ => false end) l).

Lemma count_app_app : forall a b, count_app (a ++ b) = (count_app a + count_app b)%nat.
Proof. intros. unfold count_app. rewrite filter_app, app_length. reflexivity. Qed.

Lemma kinds_count : forall a b, kinds a = kinds b -> count_app a = count_app b.
Proof.
  induction a as [|x a IH]; destruct b as [|y b]; cbn; intro H; try discriminate; [reflexivity|].
  inversion H as [[Hk Ht]]. unfold count_app in *. cbn.
  destruct x, y; cbn in Hk; try discriminate; cbn; rewrite (IH b Ht); reflexivity.
Qed.

Lemma to_syntax_f_count : forall a, count_app (to_syntax_f a) = List.length (app_occ_f a).
Proof. induction a; cbn; auto. Qed.

Lemma from_syntax_f_kinds : forall t l a, from_syntax_f t l = Some a -> kinds (to_syntax_f a) = kinds l.
Proof.
  induction t as [| |t IH|p]; intros l a H; cbn in H.
  - destruct l as [|[| |s] [|]]; try discriminate. inversion H; subst. reflexivity.
  - destruct l as [|[|x|] [|]]; try discriminate. inversion H; subst. reflexivity.
  - destruct l as [|[| |s] r]; try discriminate.
    destruct (from_syntax_f t r) as [f|] eqn:E; [|discriminate]. inversion H; subst. cbn. f_equal. apply IH. assumption.
  - destruct l as [|[s| |] [|]]; try discriminate.
    destruct (parse_pval p s); [|discriminate]. inversion H; subst. reflexivity.
Qed.

Lemma from_syntax_f_width : forall t l a, from_syntax_f t l = Some a -> List.length l = fwidth t.
Proof.
  induction t as [| |t IH|p]; intros l a H; cbn in H.
  - destruct l as [|[| |s] [|]]; try discriminate. reflexivity.
  - destruct l as [|[|x|] [|]]; try discriminate. reflexivity.
  - destruct l as [|[| |s] r]; try discriminate.
    destruct (from_syntax_f t r) as [f|] eqn:E; [|discriminate]. cbn. f_equal. eapply IH; eauto.
  - destruct l as [|[s| |] [|]]; try discriminate. reflexivity.
Qed.

Lemma fields_cons_eq : forall strict t ts l, from_syntax_fields strict (t :: ts) l =
  if Nat.ltb (List.length l) (fwidth t) then None else
  match from_syntax_f t (firstn (fwidth t) l) with
  | None => None
  | Some a => match from_syntax_fields strict ts (skipn (fwidth t) l) with
              | Some r => Some (a :: r)
              | None => None
              end
  end.
Proof. reflexivity. Qed.

Lemma fields_kinds : forall strict ts l args, from_syntax_fields strict ts l = Some args ->
  exists rest, kinds l = kinds (flat_map to_syntax_f args) ++ rest /\ List.length args = List.length ts.
Proof.
  induction ts as [|t ts IH]; intros l args H.
  - cbn in H. destruct strict; [destruct l; [|discriminate]|]; inversion H; subst; cbn; eexists; split; reflexivity.
  - rewrite fields_cons_eq in H. destruct (Nat.ltb (List.length l) (fwidth t)) eqn:L; [discriminate|].
    destruct (from_syntax_f t (firstn (fwidth t) l)) as [a|] eqn:Ea; [|discriminate].
    destruct (from_syntax_fields strict ts (skipn (fwidth t) l)) as [r|] eqn:Er; [|discriminate].
    inversion H; subst. destruct (IH _ _ Er) as [rest [Hk Hl]].
    exists rest. split; [|cbn; lia].
    cbn. unfold kinds in *. rewrite map_app, <- app_assoc, <- Hk.
    pose proof (from_syntax_f_kinds _ _ _ Ea) as Hfk. unfold kinds in Hfk. rewrite Hfk.
    rewrite <- map_app, firstn_skipn. reflexivity.
Qed.

Lemma find_named_nth : forall S op i j v, find_named S op i = Some (j, v) ->
  exists k, j = (i + k)%nat /\ nth_opt S k = Some v /\ exists nm, vname v = Some nm.
Proof.
  induction S as [|w S IH]; intros op i j v H; cbn in H; [discriminate|].
  destruct (vname w) as [nm|] eqn:En.
  - destruct (text_eqb nm op).
    + inversion H; subst. exists 0%nat. split; [lia|]. split; [reflexivity|eauto].
    + destruct (IH _ _ _ _ H) as [k [Hj [Hn Hv]]]. exists (Datatypes.S k). split; [lia|]. split; assumption.
  - destruct (IH _ _ _ _ H) as [k [Hj [Hn Hv]]]. exists (Datatypes.S k). split; [lia|]. split; assumption.
Qed.

Lemma try_anon_nth : forall S l i nd, try_anon S l i = Some nd ->
  exists k v ty a, nvar nd = (i + k)%nat /\ nth_opt S k = Some v /\ vname v = None /\ nargs nd = [a] /\ from_syntax_f ty l = Some a.
Proof.
  induction S as [|w S IH]; intros l i nd H; cbn in H; [discriminate|].
  assert (Hrec : try_anon S l (Datatypes.S i) = Some nd ->
          exists k v ty a, nvar nd = (i + k)%nat /\ nth_opt (w :: S) k = Some v /\ vname v = None /\ nargs nd = [a] /\ from_syntax_f ty l = Some a).
  { intro H'. destruct (IH _ _ _ H') as [k [v [ty [a [Hn [Hk [Hv [Ha Hf]]]]]]]].
    exists (Datatypes.S k), v, ty, a. repeat split; try assumption. lia. }
  destruct (vname w) eqn:En; [auto|].
  destruct (vfields w) as [|ty [|]] eqn:Ef; [auto| |auto].
  destruct (from_syntax_f ty l) as [a|] eqn:Ea; [|auto].
  inversion H; subst. exists 0%nat, w, ty, a. cbn. repeat split; auto; lia.
Qed.

Theorem from_syntax_kinds : forall strict S l nd, from_syntax strict S l = Some nd ->
  exists rest, kinds l = kinds (to_syntax S nd) ++ rest.
Proof.
  intros strict S l nd H. unfold from_syntax in H.
  destruct l as [|[op| |] rest0]; try discriminate.
  destruct (find_named S op 0) as [[i v]|] eqn:Ef.
  - destruct (from_syntax_fields strict (vfields v) rest0) as [args|] eqn:Ea; [|discriminate].
    inversion H; subst. destruct (find_named_nth _ _ _ _ _ Ef) as [k [Hj [Hn [nm Hv]]]]. cbn in Hj. subst i.
    destruct (fields_kinds _ _ _ _ Ea) as [rest [Hk _]].
    exists rest. unfold to_syntax. cbn. rewrite Hn. destruct v as [vn vf]. cbn in Hv. subst vn. cbn. f_equal. exact Hk.
  - destruct (try_anon_nth _ _ _ _ H) as [k [v [ty [a [Hn [Hk [Hv [Ha Hf]]]]]]]]. cbn in Hn.
    exists []. rewrite app_nil_r. unfold to_syntax. rewrite Hn, Hk. destruct v as [vn vf]. cbn in Hv. subst vn.
    rewrite Ha. cbn. rewrite app_nil_r. symmetry. apply (from_syntax_f_kinds _ _ _ Hf).
Qed.

Lemma to_syntax_count : forall S nd, count_app (to_syntax S nd) = List.length (app_occ nd).
Proof.
  intros S nd. unfold to_syntax, app_occ.
  assert (G : count_app (flat_map to_syntax_f (nargs nd)) = List.length (flat_map app_occ_f (nargs nd))).
  { induction (nargs nd) as [|a t IH]; [reflexivity|]. cbn [flat_map]. rewrite count_app_app, app_length, to_syntax_f_count, IH. reflexivity. }
  destruct (nth_opt S (nvar nd)) as [[[nm|] vf]|]; cbn; try exact G.
Qed.

Lemma kinds_app_length : forall a b (rest : list nat), kinds a = kinds b ++ rest -> List.length a = List.length b -> rest = [].
Proof.
  intros a b rest H L. assert (List.length (kinds a) = List.length (kinds b ++ rest)) by (rewrite H; reflexivity).
  unfold kinds in H0. rewrite app_length, !map_length in H0. destruct rest; [reflexivity|cbn in H0; lia].
Qed.

(* well-formedness of parsed values *)
Fixpoint arity_okb (p : pattern) : bool :=
  match p with
  | PNode nd ch =>
      Nat.eqb (List.length ch) (List.length (app_occ nd)) &&
      (fix all (l : list pattern) : bool := match l with [] => true | c :: t => arity_okb c && all t end) ch
  | PVarP _ => true
  | PSubst b x t => arity_okb b && arity_okb x && arity_okb t
  end.

Definition all_ok (l : list pattern) : bool := forallb arity_okb l.

Lemma arity_node : forall nd ch, arity_okb (PNode nd ch) = Nat.eqb (List.length ch) (List.length (app_occ nd)) && all_ok ch.
Proof.
  intros. reflexivity.
Qed.

Definition elems_ok (l : list nelem) : bool := all_ok (pats_of l).

Lemma pats_of_app : forall a b, pats_of (a ++ b) = pats_of a ++ pats_of b.
Proof. intros. unfold pats_of. apply flat_map_app. Qed.

Lemma all_ok_app : forall a b, all_ok (a ++ b) = all_ok a && all_ok b.
Proof. intros. unfold all_ok. apply forallb_app. Qed.

Lemma elems_ok_rev : forall l, elems_ok (rev l) = elems_ok l.
Proof.
  induction l as [|x t IH]; [reflexivity|]. unfold elems_ok in *. cbn [rev].
  rewrite pats_of_app, all_ok_app, IH.
  change (x :: t) with ([x] ++ t). rewrite pats_of_app, all_ok_app. apply andb_comm.
Qed.

Lemma mock_count : forall l, count_app (map mock l) = List.length (pats_of l).
Proof.
  induction l as [|x t IH]; [reflexivity|]. destruct x; cbn; unfold count_app in *; cbn; rewrite ?IH; reflexivity.
Qed.

Section Arity.
  Variables (strict : bool) (S : sig).

  Definition res_ok (r : pres (pattern * list token)) : Prop :=
    match r with POk (p, _) => arity_okb p = true | _ => True end.
  Definition res_elems_ok (r : pres (list nelem * list token)) : Prop :=
    match r with POk (l, _) => elems_ok l = true | _ => True end.

  Definition Q (f : nat) : Prop :=
    (forall tok, res_ok (pp false strict S f tok)) /\
    (forall pat tok, arity_okb pat = true -> res_ok (pp_substs false strict S f pat tok)) /\
    (forall tok, res_ok (pp_nosubst false strict S f tok)) /\
    (forall tok acc, elems_ok acc = true -> res_elems_ok (pp_elems false strict S f tok acc)).

  Lemma node_ok : forall l nd ch, from_syntax strict S l = Some nd ->
    (List.length (to_syntax S nd) = List.length l) -> count_app l = List.length ch -> all_ok ch = true ->
    arity_okb (PNode nd ch) = true.
  Proof.
    intros l nd ch Hf Hl Hc Ha. rewrite arity_node, Ha, andb_true_r. apply Nat.eqb_eq.
    destruct (from_syntax_kinds _ _ _ _ Hf) as [rest Hk].
    assert (rest = []) by (eapply kinds_app_length; eauto). subst rest. rewrite app_nil_r in Hk.
    rewrite <- Hc, (kinds_count _ _ Hk). apply to_syntax_count.
  Qed.

  Lemma Q_all : forall f, Q f.
  Proof.
    induction f as [|f [IHpp [IHsub [IHno IHel]]]].
    - repeat split; intros; exact I.
    - repeat split.
      + intros tok. rewrite pp_eq. pose proof (IHno tok) as H.
        destruct (pp_nosubst false strict S f tok) as [[pat rest]|e|s]; cbn in *; try exact I. apply IHsub. assumption.
      + intros pat tok Hp. rewrite pp_substs_eq.
        destruct tok as [|t tok1]; [exact Hp|]. destruct t; try exact Hp.
        pose proof (IHpp tok1) as H1.
        destruct (pp false strict S f tok1) as [[l tok2]|e|s]; cbn [pbind]; cbn in H1; try exact I.
        destruct tok2 as [|t2 tok3]; [exact I|]. destruct t2; try exact I.
        pose proof (IHpp tok3) as H3.
        destruct (pp false strict S f tok3) as [[r tok4]|e|s]; cbn [pbind]; cbn in H3; try exact I.
        destruct tok4 as [|t4 tok5]; [exact I|]. destruct t4; try exact I.
        apply IHsub. cbn. rewrite Hp, H1, H3. reflexivity.
      + intros tok. rewrite pp_nosubst_eq.
        destruct tok as [|t r]; [exact I|]. destruct t; try exact I.
        * destruct (from_syntax strict S [SStr t]) as [nd|] eqn:Ef; [|exact I]. unfold res_ok.
          rewrite arity_node. unfold all_ok. cbn [forallb]. rewrite andb_true_r. apply Nat.eqb_eq. cbn [List.length].
          destruct (from_syntax_kinds _ _ _ _ Ef) as [rest Hk].
          pose proof (to_syntax_count S nd) as Hc.
          assert (count_app [SStr t] = (count_app (to_syntax S nd) + List.length (filter (fun k => Nat.eqb k 1) rest))%nat).
          { clear -Hk. remember (to_syntax S nd) as ts. clear Heqts.
            assert (G : forall (a : list selem), count_app a = List.length (filter (fun k => Nat.eqb k 1) (kinds a))).
            { induction a as [|x a IH]; [reflexivity|]. destruct x; cbn; unfold count_app in *; cbn; rewrite IH; reflexivity. }
            rewrite (G [SStr t]), Hk, filter_app, app_length, <- G. reflexivity. }
          unfold count_app in *. cbn in H. lia.
        * cbn. reflexivity.
        * destruct r as [|t2 r2]; [exact I|]. destruct t2; try exact I.
          pose proof (IHel r2 [NStr t] eq_refl) as He.
          destruct (pp_elems false strict S f r2 [NStr t]) as [[elems r3]|e|s]; cbn [pbind]; cbn in He; try exact I.
          destruct (from_syntax strict S (map mock elems)) as [nd|] eqn:Ef; [|exact I].
          cbn [orb]. destruct (Nat.eqb (List.length (to_syntax S nd)) (List.length elems)) eqn:El; [|exact I].
          cbn. apply Nat.eqb_eq in El.
          eapply node_ok; eauto; [rewrite map_length; assumption|apply mock_count].
      + intros tok acc Hacc. rewrite pp_elems_eq.
        destruct tok as [|t r]; [exact I|].
        assert (Hgen : res_elems_ok (pbind (pp false strict S f (t :: r)) (fun '(p, r0) => pp_elems false strict S f r0 (NPat p :: acc)))).
        { pose proof (IHpp (t :: r)) as H1.
          destruct (pp false strict S f (t :: r)) as [[p r0]|e|s]; cbn [pbind]; cbn in H1; try exact I.
          apply IHel. unfold elems_ok in *. cbn. rewrite H1. exact Hacc. }
        destruct t; try exact Hgen.
        * apply IHel. exact Hacc.
        * cbn. rewrite elems_ok_rev. exact Hacc.
  Qed.

  Theorem parse_tokens_arity : forall tok p, parse_tokens false strict S tok = POk p -> arity_okb p = true.
  Proof.
    intros tok p H. unfold parse_tokens in H.
    destruct (Q_all (4 * List.length tok + 8)) as [Hpp _]. specialize (Hpp tok).
    destruct (pp false strict S (4 * List.length tok + 8) tok) as [[p' rest]|e|s]; cbn in *; try discriminate.
    destruct rest; [|discriminate]. inversion H; subst. exact Hpp.
  Qed.
End Arity.
