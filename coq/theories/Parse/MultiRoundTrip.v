(* Parse/MultiRoundTrip.v — C18 for MULTI-PATTERNS (`?a == pat, ?b == pat, ...`).
   (1) the round trip of the repaired printer/parser (legacy = false, both debug settings):
       parse_multipattern_text (print_multipattern m) = POk (m, st), table unchanged;
   (2) totality of parse_multipattern_text (and of the tokenizer / parse_pattern_text) on every text.
   The node part of each equation is the single-pattern round trip of Parse/RoundTrip.v. *)
From SE Require Import Base.Text Base.TextFacts Slots.Slot Slots.SlotFacts Lang.Sig.
From SE Require Import Parse.Parser Parse.ParserFacts Parse.ArityFacts Parse.RoundTrip.
From Coq Require Import Arith Lia.

(* ================================================================================== *)
(* Part 0: str::split — the splitter at its canonical fuel                            *)
(* ================================================================================== *)

Lemma split_on_eq : forall sep f c r cur, split_on sep (Datatypes.S f) (c :: r) cur =
  if text_eqb (firstn (List.length sep) (c :: r)) sep
  then rev cur :: split_on sep f (skipn (List.length sep) (c :: r)) []
  else split_on sep f r (c :: cur).
Proof. reflexivity. Qed.

Lemma split_on_nil : forall sep f cur, split_on sep f [] cur = [rev cur].
Proof. intros sep [|f] cur; reflexivity. Qed.

(* any fuel not below the length of the text gives the same result (non-empty separator) *)
Lemma split_fuel : forall sep, sep <> [] -> forall f1 f2 s cur,
  (List.length s <= f1)%nat -> (List.length s <= f2)%nat -> split_on sep f1 s cur = split_on sep f2 s cur.
Proof.
  intros sep Hsep. induction f1 as [|f1 IH]; intros f2 s cur H1 H2.
  - destruct s; [|cbn in H1; lia]. rewrite !split_on_nil. reflexivity.
  - destruct s as [|c r]; [rewrite !split_on_nil; reflexivity|].
    destruct f2 as [|f2]; [cbn in H2; lia|]. cbn [List.length] in H1, H2. rewrite !split_on_eq.
    destruct (text_eqb _ sep).
    + f_equal. destruct sep as [|x sep']; [contradiction|]. cbn [List.length skipn].
      apply IH; rewrite skipn_length; lia.
    + apply IH; lia.
Qed.

Definition spl (sep s cur : text) : list text := split_on sep (List.length s) s cur.

Lemma spl_fuel : forall sep f s cur, sep <> [] -> (List.length s <= f)%nat -> split_on sep f s cur = spl sep s cur.
Proof. intros. unfold spl. apply split_fuel; [assumption|assumption|lia]. Qed.

Lemma spl_nil : forall sep cur, spl sep [] cur = [rev cur].
Proof. reflexivity. Qed.

Lemma spl_miss : forall sep c r cur, sep <> [] -> text_eqb (firstn (List.length sep) (c :: r)) sep = false ->
  spl sep (c :: r) cur = spl sep r (c :: cur).
Proof. intros sep c r cur Hs H. unfold spl at 1. cbn [List.length]. rewrite split_on_eq, H. reflexivity. Qed.

Lemma spl_hit : forall sep b cur, sep <> [] -> spl sep (sep ++ b) cur = rev cur :: spl sep b [].
Proof.
  intros sep b cur Hs. unfold spl at 1. destruct sep as [|x sep']; [contradiction|].
  cbn [app List.length]. rewrite split_on_eq.
  change (x :: sep' ++ b) with ((x :: sep') ++ b).
  rewrite (firstn_app_exact (x :: sep') b _ eq_refl), (skipn_app_exact (x :: sep') b _ eq_refl), text_eqb_refl.
  rewrite spl_fuel; [reflexivity|discriminate|rewrite app_length; lia].
Qed.

(* ---- the two separators of MultiPattern::parse ---- *)
Definition nocomma (t : text) : bool := forallb (fun c => negb (c =? 44)) t.

Definition hit2 (s : text) : bool := match s with c :: d :: _ => (c =? 61) && (d =? 61) | _ => false end.
(* the text contains "==" *)
Fixpoint has_eqeq (s : text) : bool :=
  match s with [] => false | c :: r => hit2 (c :: r) || has_eqeq r end.

Lemma firstn2_hit : forall s, text_eqb (firstn 2 s) [61; 61] = hit2 s.
Proof.
  intros [|c [|d r]]; cbn [firstn text_eqb hit2]; [reflexivity|rewrite andb_false_r; reflexivity|].
  rewrite andb_true_r. reflexivity.
Qed.

Lemma comma_ne : [44] <> ([] : text). Proof. discriminate. Qed.
Lemma eqeq_ne : [61; 61] <> ([] : text). Proof. discriminate. Qed.

Lemma spl_comma_skip : forall a rest cur, nocomma a = true -> spl [44] (a ++ rest) cur = spl [44] rest (rev a ++ cur).
Proof.
  induction a as [|c a IH]; intros rest cur H; [reflexivity|].
  cbn [nocomma forallb] in H. apply andb_true_iff in H. destruct H as [Hc Ha]. apply negb_true_iff in Hc.
  cbn [app]. rewrite spl_miss; [|exact comma_ne|cbn [List.length firstn text_eqb]; rewrite Hc; reflexivity].
  rewrite (IH rest (c :: cur) Ha). cbn [rev]. rewrite <- app_assoc. reflexivity.
Qed.

Definition parts_of (l : list text) : list text :=
  match l with [] => [[]] | x :: X => x :: map (cons 32) X end.

Lemma intercalate_cons2 : forall sep x y Y, intercalate sep (x :: y :: Y) = x ++ sep ++ intercalate sep (y :: Y).
Proof. reflexivity. Qed.

Lemma spl_comma_inter : forall X x cur, Forall (fun t => nocomma t = true) (x :: X) ->
  spl [44] (intercalate [44; 32] (x :: X)) cur = (rev cur ++ x) :: map (cons 32) X.
Proof.
  induction X as [|y Y IH]; intros x cur H; inversion H as [|? ? Hx HX]; subst.
  - cbn [intercalate map]. rewrite <- (app_nil_r x) at 1. rewrite (spl_comma_skip x [] cur Hx), spl_nil.
    rewrite rev_app_distr, rev_involutive. reflexivity.
  - rewrite intercalate_cons2. rewrite (spl_comma_skip x _ cur Hx).
    change ([44; 32] ++ intercalate [44; 32] (y :: Y)) with ([44] ++ 32 :: intercalate [44; 32] (y :: Y)).
    rewrite spl_hit by exact comma_ne. rewrite rev_app_distr, rev_involutive.
    rewrite spl_miss; [|exact comma_ne|reflexivity].
    rewrite (IH y [32] HX). reflexivity.
Qed.

Lemma split_comma_print : forall L, Forall (fun t => nocomma t = true) L ->
  split_on [44] (List.length (intercalate [44; 32] L) + 1) (intercalate [44; 32] L) [] = parts_of L.
Proof.
  intros L H. rewrite spl_fuel; [|exact comma_ne|lia]. destruct L as [|x X]; [reflexivity|].
  rewrite (spl_comma_inter X x [] H). reflexivity.
Qed.

(* "==": no occurrence in a, then a character that is not '=' *)
Lemma spl_eq_skip : forall a c rest cur, has_eqeq a = false -> (c =? 61) = false ->
  spl [61; 61] (a ++ c :: rest) cur = spl [61; 61] (c :: rest) (rev a ++ cur).
Proof.
  induction a as [|x a IH]; intros c rest cur H Hc; [reflexivity|].
  cbn [has_eqeq] in H. apply orb_false_iff in H. destruct H as [Hh Ha].
  cbn [app]. rewrite spl_miss; [|exact eqeq_ne|].
  - rewrite (IH c rest (x :: cur) Ha Hc). cbn [rev]. rewrite <- app_assoc. reflexivity.
  - change (List.length [61; 61]) with 2%nat. rewrite firstn2_hit.
    destruct a as [|y a]; [cbn [app hit2]; rewrite Hc; apply andb_false_r|exact Hh].
Qed.

Lemma spl_eq_none : forall a cur, has_eqeq a = false -> spl [61; 61] a cur = [rev cur ++ a].
Proof.
  induction a as [|x a IH]; intros cur H; [rewrite spl_nil, app_nil_r; reflexivity|].
  cbn [has_eqeq] in H. apply orb_false_iff in H. destruct H as [Hh Ha].
  rewrite spl_miss; [|exact eqeq_ne|change (List.length [61; 61]) with 2%nat; rewrite firstn2_hit; exact Hh].
  rewrite (IH (x :: cur) Ha). cbn [rev]. rewrite <- app_assoc. reflexivity.
Qed.

(* `lhs == rhs` splits into [lhs ; rhs] when neither side contains "==" (the spaces keep the sides apart) *)
Lemma split_eqeq : forall (a b : text) f s, has_eqeq a = false -> has_eqeq b = false ->
  s = a ++ [32; 61; 61; 32] ++ b -> (List.length s <= f)%nat ->
  split_on [61; 61] f s [] = [a ++ [32]; 32 :: b].
Proof.
  intros a b f s Ha Hb -> Hf. rewrite spl_fuel; [|exact eqeq_ne|exact Hf].
  cbn [app]. rewrite (spl_eq_skip a 32 _ [] Ha eq_refl).
  rewrite spl_miss; [|exact eqeq_ne|reflexivity].
  change (61 :: 61 :: 32 :: b) with ([61; 61] ++ 32 :: b). rewrite spl_hit by exact eqeq_ne.
  rewrite spl_eq_none; [|cbn [has_eqeq hit2]; destruct b; exact Hb].
  cbn [rev app]. rewrite app_nil_r, rev_involutive. reflexivity.
Qed.

(* ================================================================================== *)
(* Part 1: str::trim                                                                   *)
(* ================================================================================== *)
Definition ends_nonws (t : text) : Prop := exists a c, t = a ++ [c] /\ is_ws c = false.

Lemma trim_start_nonws : forall c r, is_ws c = false -> trim_start (c :: r) = c :: r.
Proof. intros c r H. cbn [trim_start]. rewrite H. reflexivity. Qed.

Lemma trim_fixed : forall c r, is_ws c = false -> ends_nonws (c :: r) -> trim (c :: r) = c :: r.
Proof.
  intros c r Hc [a [d [E Hd]]]. unfold trim. rewrite (trim_start_nonws c r Hc), E, rev_app_distr.
  cbn [rev app]. rewrite (trim_start_nonws d _ Hd). change (d :: rev a) with ([d] ++ rev a).
  rewrite rev_app_distr, rev_involutive. reflexivity.
Qed.

Lemma trim_space : forall t, trim (32 :: t) = trim t.
Proof. reflexivity. Qed.

Lemma ends_nonws_app : forall x t, ends_nonws t -> ends_nonws (x ++ t).
Proof. intros x t [a [c [E H]]]. exists (x ++ a), c. split; [rewrite E, app_assoc; reflexivity|exact H]. Qed.

(* ---- "clean" texts: no ',' and no "==" ---- *)
Definition cleanb (t : text) : bool := nocomma t && negb (has_eqeq t).

Lemma has_eqeq_sep : forall a c b, (c =? 61) = false -> has_eqeq (a ++ c :: b) = has_eqeq a || has_eqeq b.
Proof.
  induction a as [|x a IH]; intros c b Hc.
  - destruct b; cbn [app has_eqeq hit2]; [reflexivity|rewrite Hc; reflexivity].
  - cbn [app has_eqeq]. rewrite (IH c b Hc). rewrite orb_assoc. f_equal.
    destruct a as [|y a]; [cbn [app hit2]; rewrite Hc, andb_false_r; reflexivity|reflexivity].
Qed.

Lemma clean_sep : forall a c b, (c =? 61) = false -> (c =? 44) = false -> cleanb (a ++ c :: b) = cleanb a && cleanb b.
Proof.
  intros a c b H61 H44. unfold cleanb, nocomma. rewrite forallb_app. cbn [forallb]. rewrite H44, (has_eqeq_sep a c b H61).
  cbn [negb andb]. rewrite negb_orb.
  destruct (forallb _ a), (forallb _ b), (has_eqeq a), (has_eqeq b); reflexivity.
Qed.

Lemma clean_cons : forall c b, (c =? 61) = false -> (c =? 44) = false -> cleanb (c :: b) = cleanb b.
Proof. intros c b H1 H2. apply (clean_sep [] c b H1 H2). Qed.

Lemma clean_snoc : forall a c, (c =? 61) = false -> (c =? 44) = false -> cleanb (a ++ [c]) = cleanb a.
Proof. intros a c H1 H2. rewrite (clean_sep a c [] H1 H2). apply andb_true_r. Qed.

Lemma clean_inv : forall t, cleanb t = true -> nocomma t = true /\ has_eqeq t = false.
Proof. intros t H. apply andb_true_iff in H. destruct H as [H1 H2]. apply negb_true_iff in H2. split; assumption. Qed.

Lemma clean_inter : forall L, Forall (fun t => cleanb t = true) L -> cleanb (intercalate sp L) = true.
Proof.
  induction L as [|x [|y Y] IH]; intro H; [reflexivity|inversion H; assumption|].
  inversion H as [|? ? Hx HY]; subst. rewrite intercalate_cons2. unfold sp at 1. cbn [app].
  rewrite clean_sep by reflexivity. rewrite Hx, (IH HY). reflexivity.
Qed.

(* ================================================================================== *)
(* Part 2: a release build (debug = false) agrees with a debug build on every success  *)
(* ================================================================================== *)
Lemma pbind_release : forall {A B} (x x' : pres A) (k : A -> pres B) r,
  (forall a, x = POk a -> x' = POk a) -> pbind x k = POk r -> pbind x' k = POk r.
Proof. intros A B [a|e|s] x' k r H H1; cbn in H1; try discriminate. rewrite (H a eq_refl). exact H1. Qed.

Lemma tokenize_release : forall l f st s r, tokenize l true f st s = POk r -> tokenize l false f st s = POk r.
Proof.
  intro l. induction f as [|f IH]; intros st s r H; [exact H|].
  destruct s as [|c r0]; [exact H|]. rewrite tokenize_eq in H |- *.
  destruct (is_ws c); [apply IH; exact H|].
  do 4 (match goal with |- (if ?b then _ else _) = _ => destruct b;
          [revert H; apply pbind_release; intros a Ha; apply IH; exact Ha|] end).
  destruct ((c =? 58) && _); [revert H; apply pbind_release; intros a Ha; apply IH; exact Ha|].
  destruct (c =? 63).
  { destruct (crop r0) as [op rest]. destruct op; [exact H|].
    revert H; apply pbind_release; intros a Ha; apply IH; exact Ha. }
  destruct (c =? 36).
  { destruct (crop r0) as [op rest]. destruct op as [|n op]; [exact H|].
    destruct (named false true st (n :: op)) as [[sl st1]|e] eqn:En; [|discriminate].
    rewrite (named_release _ _ _ _ En).
    revert H; apply pbind_release; intros a Ha; apply IH; exact Ha. }
  destruct (crop (c :: r0)) as [op rest]. destruct op; [exact H|].
  revert H; apply pbind_release; intros a Ha; apply IH; exact Ha.
Qed.

Lemma parse_pattern_text_release : forall l strict S st s r,
  parse_pattern_text l true strict S st s = POk r -> parse_pattern_text l false strict S st s = POk r.
Proof. intros l strict S st s r. unfold parse_pattern_text. apply pbind_release. intros a Ha. apply tokenize_release. exact Ha. Qed.

Lemma parse_mp_parts_cons : forall l d strict S st x rest,
  parse_mp_parts l d strict S st (x :: rest) =
  match trim x with
  | [] => parse_mp_parts l d strict S st rest
  | _ =>
      match split_on [61; 61] (List.length (trim x) + 1) (trim x) [] with
      | [lhs; rhs] =>
          pbind (parse_pattern_text l d strict S st lhs) (fun '(var, st1) =>
          pbind (parse_pattern_text l d strict S st1 rhs) (fun '(r, st2) =>
            match var with
            | PVarP v =>
                match r with
                | PNode nd ch =>
                    match pvars_of ch with
                    | Some vs => pbind (parse_mp_parts l d strict S st2 rest)
                                   (fun '(m, st3) => POk ((v, nd, vs) :: m, st3))
                    | None => mfail l ExplicitPanic
                    end
                | _ => mfail l ExplicitPanic
                end
            | _ => mfail l ExplicitPanic
            end))
      | _ => mfail l AssertFailed
      end
  end.
Proof. reflexivity. Qed.

Lemma parse_mp_parts_release : forall l strict S parts st r,
  parse_mp_parts l true strict S st parts = POk r -> parse_mp_parts l false strict S st parts = POk r.
Proof.
  intros l strict S. induction parts as [|x rest IH]; intros st r H; [exact H|].
  rewrite parse_mp_parts_cons in H |- *.
  destruct (trim x) as [|c0 t0]; [apply IH; exact H|].
  destruct (split_on [61; 61] _ _ []) as [|lhs [|rhs [|]]]; try exact H.
  destruct (parse_pattern_text l true strict S st lhs) as [[var st1]|e|s] eqn:E1; try discriminate.
  rewrite (parse_pattern_text_release _ _ _ _ _ _ E1). cbn [pbind] in H |- *.
  destruct (parse_pattern_text l true strict S st1 rhs) as [[rp st2]|e|s] eqn:E2; try discriminate.
  rewrite (parse_pattern_text_release _ _ _ _ _ _ E2). cbn [pbind] in H |- *.
  destruct var; try exact H. destruct rp; try exact H. destruct (pvars_of children); try exact H.
  revert H. apply pbind_release. intros a Ha. apply IH. exact Ha.
Qed.

Lemma parse_multipattern_release : forall l strict S st s r,
  parse_multipattern_text l true strict S st s = POk r -> parse_multipattern_text l false strict S st s = POk r.
Proof. intros. apply parse_mp_parts_release. assumption. Qed.

(* ================================================================================== *)
(* Part 3: well-formed multi-patterns and the round trip                               *)
(* ================================================================================== *)

Lemma name_ends_nonws : forall t, name_okb t = true -> ends_nonws t.
Proof.
  intros t H. destruct t as [|c t]; [discriminate|]. unfold name_okb in H.
  destruct (exists_last (l := c :: t)) as [a [d E]]; [discriminate|]. rewrite E in H |- *.
  rewrite forallb_app in H. apply andb_true_iff in H. destruct H as [_ H]. cbn [forallb] in H. rewrite andb_true_r in H.
  exists a, d. split; [reflexivity|]. apply ident_char_inv in H. tauto.
Qed.

Lemma ident_name_ok : forall t, ident_okb t = true -> name_okb t = true.
Proof. intros t H. unfold ident_okb in H. apply andb_true_iff in H. tauto. Qed.

Lemma pvars_of_map : forall ch, pvars_of (map PVarP ch) = Some ch.
Proof. induction ch as [|c ch IH]; [reflexivity|]. cbn [map pvars_of]. rewrite IH. reflexivity. Qed.

Section Multi.
  Variables (S : sig) (st : table).
  Hypothesis Hinv : TInv st.
  Notation pr := (print_pattern S st).

  (* Every atom of an equation — the variable, the operator (or the payload text of a bare atom), the
     names of the slots, the child variables — must be an identifier text as in the single-pattern
     theorem, and additionally "clean": it contains no ',' and no "==".  These are exactly the texts on
     which `s.split(",")` / `x.split("==")` cut in the wrong place; nothing else is excluded (the atoms
     are kept apart by ' ', '(', ')', '?', '$', none of which is '=' or ','). *)
  Definition mname_ok (t : text) : Prop := name_okb t = true /\ cleanb t = true.
  Definition mslot_ok (s : slot) : Prop :=
    valid st s /\ exists nm, name_of st s = Ok nm /\ name_okb nm = true /\ cleanb nm = true.
  Definition melem_ok (e : selem) : Prop :=
    match e with
    | SStr s => ident_okb s = true /\ cleanb s = true
    | SSlot s => mslot_ok s
    | SApp _ => True
    end.

  (* one equation `?v == (op ... ?c ...)`; nesting depth one and "children are pattern variables" are
     built into the type mpat *)
  Definition wf_meq (e : text * node * list text) : Prop :=
    let '(v, nd, ch) := e in
    wf_node S nd /\ List.length ch = List.length (app_occ nd) /\
    mname_ok v /\ Forall mname_ok ch /\ Forall melem_ok (to_syntax S nd).

  Definition wf_mpat (m : mpat) : Prop := Forall wf_meq m.

  Definition eq_pat (e : text * node * list text) : pattern := let '(_, nd, ch) := e in PNode nd (map PVarP ch).
  Definition eq_text (e : text * node * list text) : text :=
    let '(v, _, _) := e in 63 :: v ++ [32; 61; 61; 32] ++ pr (eq_pat e).

  Lemma print_multi_eq : forall m, print_multipattern false S st m = intercalate [44; 32] (map eq_text m).
  Proof. intro m. unfold print_multipattern. f_equal. apply map_ext. intros [[v nd] ch]. reflexivity. Qed.

  Lemma melem_elem : forall e, melem_ok e -> elem_ok st e.
  Proof.
    intros [s|a|s]; cbn; [tauto|tauto|]. intros [V [nm [E [H _]]]]. split; [exact V|]. exists nm. split; assumption.
  Qed.

  Lemma meq_wf_pat : forall e, wf_meq e -> wf_pat S (eq_pat e).
  Proof.
    intros [[v nd] ch] [Wn [Hl _]]. cbn [eq_pat]. apply wf_PNode; [exact Wn|rewrite map_length; exact Hl|].
    apply Forall_forall. intros p Hp. apply in_map_iff in Hp. destruct Hp as [c [<- _]]. apply wf_PVarP.
  Qed.

  Lemma meq_wf_text : forall e, wf_meq e -> wf_text S st (eq_pat e).
  Proof.
    intros [[v nd] ch] [_ [_ [_ [Hch Hel]]]]. cbn [eq_pat]. apply wt_PNode.
    - eapply Forall_impl; [|exact Hel]. exact melem_elem.
    - apply Forall_forall. intros p Hp. apply in_map_iff in Hp. destruct Hp as [c [<- Hc]].
      rewrite Forall_forall in Hch. apply wt_PVarP. apply (Hch c Hc).
  Qed.

  Lemma pr_elems_clean : forall l T, Forall melem_ok l -> Forall (fun t => cleanb t = true) T ->
    Forall (fun t => cleanb t = true) (pr_elems st l T).
  Proof.
    induction l as [|e l IH]; intros T Hl HT; [constructor|].
    inversion Hl as [|? ? He Hl']; subst. destruct e as [s|a|s]; cbn [pr_elems].
    - constructor; [apply He|apply IH; assumption].
    - destruct T as [|c T']; [constructor; [reflexivity|apply IH; [assumption|constructor]]|].
      inversion HT; subst. constructor; [assumption|apply IH; assumption].
    - constructor; [|apply IH; assumption].
      destruct He as [_ [nm [E [_ Hc]]]]. unfold slot_text. rewrite E. rewrite clean_cons by reflexivity. exact Hc.
  Qed.

  Lemma children_clean : forall ch, Forall mname_ok ch -> Forall (fun t => cleanb t = true) (map pr (map PVarP ch)).
  Proof.
    intros ch H. induction H as [|c ch [_ Hc] _ IH]; [constructor|]. cbn [map print_pattern]. constructor; [|exact IH].
    rewrite clean_cons by reflexivity. exact Hc.
  Qed.

  Lemma meq_clean : forall e, wf_meq e -> cleanb (pr (eq_pat e)) = true.
  Proof.
    intros [[v nd] ch] [_ [_ [_ [Hch Hel]]]]. cbn [eq_pat]. rewrite print_node_eq. cbn zeta.
    pose proof (clean_inter _ (pr_elems_clean _ _ Hel (children_clean ch Hch))) as Hb.
    destruct (to_syntax S nd) as [|e [|e2 l2]]; try exact Hb;
      (rewrite clean_cons by reflexivity; rewrite clean_snoc by reflexivity; exact Hb).
  Qed.

  Lemma meq_ends : forall e, wf_meq e -> ends_nonws (pr (eq_pat e)).
  Proof.
    intros [[v nd] ch] [Wn [_ [_ [_ Hel]]]]. cbn [eq_pat]. rewrite print_node_eq. cbn zeta.
    destruct Wn as [_ Hrt _ _].
    destruct (to_syntax S nd) as [|e l] eqn:El; [discriminate|].
    destruct e as [op|a|s]; try discriminate.
    assert (Hp : ends_nonws (40 :: intercalate sp (pr_elems st (SStr op :: l) (map pr (map PVarP ch))) ++ [41])).
    { eexists (40 :: _), 41. split; reflexivity. }
    destruct l as [|e2 l2]; [|exact Hp].
    cbn [pr_elems intercalate]. inversion Hel as [|? ? Hop0 _]; subst. destruct Hop0 as [Hop _].
    apply name_ends_nonws. apply ident_name_ok. exact Hop.
  Qed.

  Lemma eq_text_trim : forall e, wf_meq e -> trim (eq_text e) = eq_text e.
  Proof.
    intros e W. pose proof (meq_ends e W) as He. destruct e as [[v nd] ch]. unfold eq_text.
    apply trim_fixed; [reflexivity|].
    change (63 :: v ++ [32; 61; 61; 32] ++ pr (eq_pat (v, nd, ch)))
      with ((63 :: v) ++ [32; 61; 61; 32] ++ pr (eq_pat (v, nd, ch))).
    rewrite app_assoc. apply ends_nonws_app. exact He.
  Qed.

  Lemma nocomma_app : forall a b, nocomma (a ++ b) = nocomma a && nocomma b.
  Proof. intros. apply forallb_app. Qed.

  Lemma eq_text_nocomma : forall e, wf_meq e -> nocomma (eq_text e) = true.
  Proof.
    intros e W. pose proof (meq_clean e W) as Hc. destruct e as [[v nd] ch].
    destruct W as [_ [_ [[_ Hv] _]]]. apply clean_inv in Hc. apply clean_inv in Hv.
    unfold eq_text. change (nocomma (63 :: ?x)) with (nocomma x). rewrite !nocomma_app.
    rewrite (proj1 Hc), (proj1 Hv). reflexivity.
  Qed.

  (* the two sides of an equation *)
  Lemma parse_lhs : forall v, name_okb v = true ->
    parse_pattern_text false true false S st ((63 :: v) ++ [32]) = POk (PVarP v, st).
  Proof.
    intros v Hv. unfold parse_pattern_text.
    change (tokenize false true (List.length ((63 :: v) ++ [32]) + 1) st ((63 :: v) ++ [32])) with (tkz st (63 :: v ++ [32])).
    rewrite (tkz_pvar st v [32] Hv eq_refl). rewrite tkz_ws by reflexivity. rewrite tkz_nil. cbn [consT pbind].
    pose proof (roundtrip_tokens S (PVarP v) (wf_PVarP S v)) as Hp. cbn [tokens_of] in Hp. rewrite Hp. reflexivity.
  Qed.

  Lemma parse_rhs : forall p, wf_pat S p -> wf_text S st p ->
    parse_pattern_text false true false S st (32 :: pr p) = POk (p, st).
  Proof.
    intros p W T. unfold parse_pattern_text.
    change (tokenize false true (List.length (32 :: pr p) + 1) st (32 :: pr p)) with (tkz st (32 :: pr p)).
    rewrite tkz_ws by reflexivity. unfold tkz. rewrite (roundtrip_tokenize S st Hinv p W T). cbn [pbind].
    rewrite (roundtrip_tokens S p W). reflexivity.
  Qed.

  (* one part of the comma split *)
  Lemma parse_one : forall e x rest, wf_meq e -> trim x = eq_text e ->
    parse_mp_parts false true false S st (x :: rest) =
    pbind (parse_mp_parts false true false S st rest) (fun '(m, st3) => POk (e :: m, st3)).
  Proof.
    intros e x rest W Ht. rewrite parse_mp_parts_cons, Ht.
    pose proof (meq_clean e W) as Hc. pose proof (meq_wf_pat e W) as Wp. pose proof (meq_wf_text e W) as Wt.
    destruct e as [[v nd] ch]. destruct W as [_ [_ [[Hv Hvc] _]]].
    assert (Hsplit : split_on [61; 61] (List.length (eq_text (v, nd, ch)) + 1) (eq_text (v, nd, ch)) []
                     = [(63 :: v) ++ [32]; 32 :: pr (eq_pat (v, nd, ch))]).
    { apply split_eqeq; [|apply clean_inv in Hc; tauto|reflexivity|lia].
      rewrite <- (clean_cons 63 v eq_refl eq_refl) in Hvc. apply clean_inv in Hvc. tauto. }
    rewrite Hsplit. destruct (eq_text (v, nd, ch)) as [|c0 T] eqn:ET; [discriminate ET|].
    rewrite (parse_lhs v Hv). cbn [pbind]. rewrite (parse_rhs _ Wp Wt). cbn [pbind eq_pat].
    rewrite pvars_of_map. reflexivity.
  Qed.

  Lemma parse_parts_tail : forall m, wf_mpat m ->
    parse_mp_parts false true false S st (map (cons 32) (map eq_text m)) = POk (m, st).
  Proof.
    induction m as [|e m IH]; intro W; [reflexivity|]. inversion W as [|? ? We Wm]; subst. cbn [map].
    rewrite (parse_one e _ _ We); [|rewrite trim_space; apply eq_text_trim; exact We].
    rewrite (IH Wm). reflexivity.
  Qed.

  Theorem multi_roundtrip_debug : forall m, wf_mpat m ->
    parse_multipattern_text false true false S st (print_multipattern false S st m) = POk (m, st).
  Proof.
    intros m W. unfold parse_multipattern_text. rewrite print_multi_eq.
    rewrite split_comma_print.
    - destruct m as [|e m]; [reflexivity|]. inversion W as [|? ? We Wm]; subst. cbn [map parts_of].
      rewrite (parse_one e _ _ We (eq_text_trim e We)). rewrite (parse_parts_tail m Wm). reflexivity.
    - apply Forall_forall. intros t Ht. apply in_map_iff in Ht. destruct Ht as [e [<- He]].
      apply eq_text_nocomma. unfold wf_mpat in W. rewrite Forall_forall in W. apply W. exact He.
  Qed.

  (* THE ROUND TRIP, both build modes; the slot table is left unchanged *)
  Theorem multi_roundtrip : forall debug m, wf_mpat m ->
    parse_multipattern_text false debug false S st (print_multipattern false S st m) = POk (m, st).
  Proof.
    intros [|] m W; [exact (multi_roundtrip_debug m W)|].
    apply parse_multipattern_release. exact (multi_roundtrip_debug m W).
  Qed.
End Multi.

Print Assumptions multi_roundtrip.

(* the single-pattern round trip of RoundTrip.v (stated there for a debug build) in both build modes *)
Corollary roundtrip_text_any : forall S st, TInv st -> forall debug p, wf_pat S p -> wf_text S st p ->
  parse_pattern_text false debug false S st (print_pattern S st p) = POk (p, st).
Proof.
  intros S st H [|] p W T; [exact (roundtrip_text S st H p W T)|].
  apply parse_pattern_text_release. exact (roundtrip_text S st H p W T).
Qed.

(* ================================================================================== *)
(* Part 4: totality — the repaired multi-pattern parser never yields a panic value     *)
(* ================================================================================== *)
(* The only panic site left in the repaired text-level parser is Slot::named (C17): in a debug build
   `4 * len + 2` overflows once the slot table holds 2^30 names.  `room d st n`: a release build, or a
   table with room for n more names (a text of n characters registers fewer than n names). *)
Definition room (d : bool) (st : table) (n : nat) : Prop :=
  d = false \/ N.of_nat (List.length (named_vec st) + n) <= two30.

Lemma room_le : forall d st n m, room d st n -> (m <= n)%nat -> room d st m.
Proof. intros d st n m [H|H] L; [left; exact H|right; lia]. Qed.

Lemma u32_ok : forall d v, v < two32 -> u32_op d v = Ok v.
Proof. intros d v H. unfold u32_op. apply N.ltb_lt in H. rewrite H. reflexivity. Qed.

Lemma named_total : forall d st op, room d st 1 ->
  exists sl st1, named false d st op = Ok (sl, st1) /\ (List.length (named_vec st1) <= Datatypes.S (List.length (named_vec st)))%nat.
Proof.
  intros d st op R. unfold named.
  destruct (parse_num false op) as [x|] eqn:En.
  { apply parse_num_inv in En. destruct En as [_ Hx].
    rewrite (u32_ok d (x * 4)) by (unfold two30, two32 in *; lia). cbn [bind]. do 2 eexists. split; [reflexivity|lia]. }
  destruct (parse_fresh false op) as [x|] eqn:Ef.
  { apply parse_fresh_inv in Ef. destruct Ef as [_ Hx].
    rewrite (u32_ok d (x * 4)) by (unfold two30, two32 in *; lia). cbn [bind].
    rewrite (u32_ok d (x * 4 + 1)) by (unfold two30, two32 in *; lia). cbn [bind].
    destruct (fresh_idx st <=? x * 4 + 1).
    - rewrite (u32_ok d (x * 4 + 1 + 4)) by (unfold two30, two32 in *; lia). cbn [bind].
      do 2 eexists. split; [reflexivity|cbn; lia].
    - do 2 eexists. split; [reflexivity|lia]. }
  destruct (find_text (named_vec st) op 0) as [i|]; [do 2 eexists; split; [reflexivity|lia]|].
  assert (Hu : exists v, u32_op d (4 * (N.of_nat (List.length (named_vec st)) mod two32) + 2) = Ok v).
  { destruct R as [->|R].
    - unfold u32_op. destruct (_ <? two32); eexists; reflexivity.
    - eexists. apply u32_ok. unfold two30, two32 in *. rewrite N.mod_small; lia. }
  destruct Hu as [v Hv]. rewrite Hv. cbn [bind]. do 2 eexists. split; [reflexivity|].
  cbn [named_vec]. rewrite app_length. cbn. lia.
Qed.

(* no panic; on success the table grew by at most `b - |table before|` names *)
Definition tok_fine {A} (b : nat) (r : pres (A * table)) : Prop :=
  match r with
  | PPanic _ => False
  | PFail _ => True
  | POk (_, st') => (List.length (named_vec st') <= b)%nat
  end.

Lemma tok_fine_cons : forall b b' k (r : pres (list token * table)), tok_fine b r -> (b <= b')%nat ->
  tok_fine b' (pbind r (fun '(l, st') => POk (k :: l, st'))).
Proof. intros b b' k [[l st']|e|s] H L; cbn in *; [lia|exact I|contradiction]. Qed.

Lemma tokenize_total : forall d f st s, (List.length s < f)%nat -> room d st (List.length s) ->
  tok_fine (List.length (named_vec st) + List.length s) (tokenize false d f st s).
Proof.
  intro d. induction f as [|f IH]; intros st s Hf R; [lia|].
  destruct s as [|c r]; [cbn; lia|]. cbn [List.length] in Hf, R |- *. rewrite tokenize_eq.
  assert (Hr : tok_fine (List.length (named_vec st) + List.length r) (tokenize false d f st r)).
  { apply IH; [lia|eapply room_le; [exact R|lia]]. }
  destruct (is_ws c).
  { destruct (tokenize false d f st r) as [[l st']|e|s]; cbn in *; [lia|exact I|contradiction]. }
  do 4 (match goal with |- tok_fine _ (if ?b then _ else _) => destruct b; [apply (tok_fine_cons _ _ _ _ Hr); lia|] end).
  destruct ((c =? 58) && _).
  { assert (Hl : (List.length (tl r) <= List.length r)%nat) by (destruct r; cbn; lia).
    eapply tok_fine_cons; [apply IH; [lia|eapply room_le; [exact R|lia]]|lia]. }
  destruct (c =? 63).
  { destruct (crop r) as [op rest] eqn:E. apply crop_len in E. destruct op as [|n op]; [exact I|].
    eapply tok_fine_cons; [apply IH; [lia|eapply room_le; [exact R|lia]]|lia]. }
  destruct (c =? 36).
  { destruct (crop r) as [op rest] eqn:E. apply crop_len in E. destruct op as [|n op]; [exact I|].
    cbn [List.length] in E.
    destruct (named_total d st (n :: op)) as [sl [st1 [En Hl]]]; [eapply room_le; [exact R|lia]|].
    rewrite En. eapply tok_fine_cons; [apply IH; [lia|]|lia].
    destruct R as [R|R]; [left; exact R|right; lia]. }
  destruct (crop (c :: r)) as [op rest] eqn:E. apply crop_len in E. destruct op as [|n op]; [exact I|].
  cbn [List.length] in E.
  eapply tok_fine_cons; [apply IH; [lia|eapply room_le; [exact R|lia]]|lia].
Qed.

Theorem parse_pattern_text_total : forall d strict S st s, room d st (List.length s) ->
  tok_fine (List.length (named_vec st) + List.length s) (parse_pattern_text false d strict S st s).
Proof.
  intros d strict S st s R. unfold parse_pattern_text.
  pose proof (tokenize_total d (List.length s + 1) st s) as H.
  destruct (tokenize false d (List.length s + 1) st s) as [[tok st']|e|x]; cbn [pbind];
    [|exact I|apply H; [lia|exact R]].
  pose proof (parse_tokens_total strict S tok) as Hp.
  destruct (parse_tokens false strict S tok); cbn [pbind]; [|exact I|contradiction].
  apply H; [lia|exact R].
Qed.

Fixpoint sumlen (l : list text) : nat := match l with [] => 0%nat | x :: t => (List.length x + sumlen t)%nat end.

Lemma split_len : forall sep f s cur, (sumlen (split_on sep f s cur) <= List.length cur + List.length s)%nat.
Proof.
  intro sep. induction f as [|f IH]; intros s cur.
  - cbn [split_on sumlen]. rewrite rev_length. lia.
  - destruct s as [|c r]; [cbn [split_on sumlen List.length]; rewrite rev_length; lia|]. rewrite split_on_eq.
    destruct (text_eqb _ sep).
    + cbn [sumlen]. rewrite rev_length.
      specialize (IH (skipn (List.length sep) (c :: r)) []). rewrite skipn_length in IH. cbn [List.length] in IH |- *. lia.
    + specialize (IH r (c :: cur)). cbn [List.length] in IH |- *. lia.
Qed.

Lemma trim_start_len : forall s, (List.length (trim_start s) <= List.length s)%nat.
Proof. induction s as [|c r IH]; [cbn; lia|]. cbn [trim_start]. destruct (is_ws c); cbn [List.length]; lia. Qed.

Lemma trim_len : forall s, (List.length (trim s) <= List.length s)%nat.
Proof.
  intro s. unfold trim. rewrite rev_length.
  pose proof (trim_start_len (rev (trim_start s))) as H1. rewrite rev_length in H1.
  pose proof (trim_start_len s). lia.
Qed.

Lemma parse_mp_parts_total : forall d strict S parts st, room d st (sumlen parts) ->
  match parse_mp_parts false d strict S st parts with PPanic _ => False | _ => True end.
Proof.
  intros d strict S. induction parts as [|x rest IH]; intros st R; [exact I|].
  rewrite parse_mp_parts_cons. cbn [sumlen] in R.
  pose proof (trim_len x) as Ht.
  destruct (trim x) as [|c0 t0] eqn:Etr; [apply IH; eapply room_le; [exact R|lia]|].
  rewrite <- Etr in *. clear Etr c0 t0.
  pose proof (split_len [61; 61] (List.length (trim x) + 1) (trim x) []) as Hs.
  destruct (split_on [61; 61] _ _ []) as [|lhs [|rhs [|]]]; try exact I.
  cbn [sumlen List.length] in Hs.
  pose proof (parse_pattern_text_total d strict S st lhs) as H1.
  destruct (parse_pattern_text false d strict S st lhs) as [[var st1]|e|s]; cbn [pbind];
    [|exact I|apply H1; eapply room_le; [exact R|lia]].
  assert (L1 : (List.length (named_vec st1) <= List.length (named_vec st) + List.length lhs)%nat).
  { apply H1. eapply room_le; [exact R|lia]. }
  pose proof (parse_pattern_text_total d strict S st1 rhs) as H2.
  assert (R1 : room d st1 (List.length rhs + sumlen rest)).
  { destruct R as [R|R]; [left; exact R|right; lia]. }
  destruct (parse_pattern_text false d strict S st1 rhs) as [[rp st2]|e|s]; cbn [pbind];
    [|exact I|apply H2; eapply room_le; [exact R1|lia]].
  assert (L2 : (List.length (named_vec st2) <= List.length (named_vec st1) + List.length rhs)%nat).
  { apply H2. eapply room_le; [exact R1|lia]. }
  destruct var; try exact I. destruct rp; try exact I. destruct (pvars_of children); try exact I.
  assert (R2 : room d st2 (sumlen rest)).
  { destruct R1 as [R1|R1]; [left; exact R1|right; lia]. }
  specialize (IH st2 R2). destruct (parse_mp_parts false d strict S st2 rest) as [[m st3]|e|s]; cbn [pbind]; tauto.
Qed.

(* TOTALITY on every text *)
Theorem multi_total : forall debug strict S st s, room debug st (List.length s) ->
  match parse_multipattern_text false debug strict S st s with PPanic _ => False | _ => True end.
Proof.
  intros d strict S st s R. unfold parse_multipattern_text. apply parse_mp_parts_total.
  eapply room_le; [exact R|]. pose proof (split_len [44] (List.length s + 1) s []) as H. cbn [List.length] in H. lia.
Qed.

Corollary multi_total_release : forall strict S st s,
  match parse_multipattern_text false false strict S st s with PPanic _ => False | _ => True end.
Proof. intros. apply multi_total. left. reflexivity. Qed.

Corollary multi_total_debug : forall strict S st s, N.of_nat (List.length (named_vec st) + List.length s) <= two30 ->
  match parse_multipattern_text false true strict S st s with PPanic _ => False | _ => True end.
Proof. intros. apply multi_total. right. assumption. Qed.

Print Assumptions multi_total.

(* ---- slot names: numeric and fresh-form names are digits (and 'f'), hence clean; for a table that
   satisfies TInv only the registered names need checking ---- *)
Lemma text_of_uint_clean : forall d, cleanb (text_of_uint d) = true.
Proof. induction d; cbn [text_of_uint]; try reflexivity; rewrite clean_cons by reflexivity; assumption. Qed.

Lemma mslot_ok_intro : forall st s, valid st s ->
  Forall (fun t => name_okb t = true /\ cleanb t = true) (named_vec st) -> mslot_ok st s.
Proof.
  intros st s V Hn. split; [exact V|].
  assert (Hs : slot_ok st s).
  { apply slot_ok_intro; [exact V|]. eapply Forall_impl; [|exact Hn]. cbn. tauto. }
  destruct Hs as [_ [nm [E Hok]]]. exists nm. split; [exact E|]. split; [exact Hok|].
  unfold name_of in E. destruct V as [[Hm _]|[[Hm _]|[Hm Hlt]]]; rewrite Hm in E; cbn in E.
  - inversion E; subst. apply text_of_uint_clean.
  - inversion E; subst. rewrite clean_cons by reflexivity. apply text_of_uint_clean.
  - destruct (nth_opt (named_vec st) (N.to_nat ((s - 2) / 4))) as [t|] eqn:Et; inversion E; subst.
    rewrite Forall_forall in Hn. apply (Hn nm). eapply nth_opt_in; eauto.
Qed.

(* ================================================================================== *)
(* Part 5: the hypotheses are satisfiable, and each of the new ones is needed          *)
(* ================================================================================== *)
From SE Require Import Lang.LangMachine.

Module MultiExamples.
  Import RoundTrip.Examples.

  (* ?a == (app ?f ?x), ?f == (lam $x ?b), ?x == (k $y $z ?b $q)
     over the harness language sigLV; $x $y $z $q are registered in st4; ?f ?x ?b are shared *)
  Definition m0 : mpat :=
    [ (tk "a", nd 9  [ap; ap],                       [tk "f"; tk "x"]);
      (tk "f", nd 8  [ABind 2 ap],                   [tk "b"]);
      (tk "x", nd 12 [ASlot 6; ABind 10 ap; ASlot 14], [tk "b"]) ].

  Example m0_printed : print_multipattern false sigLV st4 m0 =
    tk "?a == (app ?f ?x), ?f == (lam $x ?b), ?x == (k $y $z ?b $q)".
  Proof. vm_compute. reflexivity. Qed.

  Lemma st4_slots : forall s, valid st4 s -> mslot_ok st4 s.
  Proof. intros s V. apply mslot_ok_intro; [exact V|]. repeat constructor. Qed.

  Ltac wfn := constructor; [reflexivity|reflexivity|reflexivity|repeat constructor].
  Ltac wfeq :=
    split; [wfn|]; split; [reflexivity|]; split; [split; reflexivity|]; split; [repeat constructor|];
    match goal with |- Forall _ ?l => let l' := eval vm_compute in l in change l with l' end;
    repeat (first [apply Forall_cons | apply Forall_nil | exact I | split; reflexivity
                  | apply st4_slots; right; right; split; [reflexivity|cbn; lia] ]).

  Lemma m0_wf : wf_mpat sigLV st4 m0.
  Proof. repeat (apply Forall_cons; [wfeq|]). apply Forall_nil. Qed.

  (* proved through the theorem, in both build modes *)
  Example m0_roundtrip : forall debug,
    parse_multipattern_text false debug false sigLV st4 (print_multipattern false sigLV st4 m0) = POk (m0, st4).
  Proof. intro debug. exact (multi_roundtrip sigLV st4 st4_inv debug m0 m0_wf). Qed.

  (* the empty multi-pattern prints as the empty text and comes back *)
  Example empty_roundtrip : forall S st, TInv st ->
    parse_multipattern_text false true false S st (print_multipattern false S st []) = POk ([], st).
  Proof. intros S st H. exact (multi_roundtrip S st H true [] (Forall_nil _)). Qed.

  (* ---- the cleanliness conditions are needed: each value below satisfies every hypothesis of the
     single-pattern theorem (wf_node, identifier texts) and violates only `cleanb` ---- *)

  (* (1) a pattern variable whose name contains ',': `?a,b == c` is cut at the comma *)
  Definition c1 : mpat := [ (tk "a,b", nd 3 [], []) ].
  Example c1_fails :
    name_okb (tk "a,b") = true /\ cleanb (tk "a,b") = false /\
    print_multipattern false sigLV st4 c1 = tk "?a,b == c" /\
    parse_multipattern_text false true false sigLV st4 (print_multipattern false sigLV st4 c1) = PFail PEMulti.
  Proof. repeat split; vm_compute; reflexivity. Qed.

  (* (2) an operator named "==": `?a == (== ?x ?y)` splits into three pieces *)
  Definition sgE : sig := [ {| vname := Some (tk "=="); vfields := [TApp; TApp] |} ].
  Definition c2 : mpat := [ (tk "a", nd 0 [ap; ap], [tk "x"; tk "y"]) ].
  Example c2_fails :
    wf_node sgE (nd 0 [ap; ap]) /\ ident_okb (tk "==") = true /\ cleanb (tk "==") = false /\
    print_multipattern false sgE st4 c2 = tk "?a == (== ?x ?y)" /\
    parse_multipattern_text false true false sgE st4 (print_multipattern false sgE st4 c2) = PFail PEMulti /\
    (* as a single pattern the right-hand side is fine *)
    parse_pattern_text false true false sgE st4 (tk "(== ?x ?y)") = POk (PNode (nd 0 [ap; ap]) [PVarP (tk "x"); PVarP (tk "y")], st4).
  Proof. split; [wfn|]. repeat split; vm_compute; reflexivity. Qed.

  (* (3) a genuine ambiguity: ONE equation whose symbol payload is `c,?b==d` prints exactly like the
     TWO equations `?a == c, ?b==d`, and is read as those *)
  Definition c3 : mpat := [ (tk "a", nd 19 [APay (PVsym (tk "c,?b==d"))], []) ].
  Example c3_ambiguous :
    wf_node sigLV (nd 19 [APay (PVsym (tk "c,?b==d"))]) /\ ident_okb (tk "c,?b==d") = true /\
    print_multipattern false sigLV st4 c3 = tk "?a == c,?b==d" /\
    parse_multipattern_text false true false sigLV st4 (print_multipattern false sigLV st4 c3)
      = POk ([ (tk "a", nd 3 [], []); (tk "b", nd 4 [], []) ], st4).
  Proof. split; [wfn|]. repeat split; vm_compute; reflexivity. Qed.

  (* (4) a registered slot name containing ',' *)
  Definition st6 : table := {| fresh_idx := 1; named_vec := [tk "p,q"] |}.
  Definition c4 : mpat := [ (tk "a", nd 5 [ASlot 2], []) ].
  Example c4_fails :
    TInv st6 /\ slot_ok st6 2 /\
    print_multipattern false sigLV st6 c4 = tk "?a == (var $p,q)" /\
    parse_multipattern_text false true false sigLV st6 (print_multipattern false sigLV st6 c4) = PFail PEParse /\
    parse_pattern_text false true false sigLV st6 (tk "(var $p,q)") = POk (PNode (nd 5 [ASlot 2]) [], st6).
  Proof.
    split; [constructor; try reflexivity; [repeat constructor|repeat constructor; cbn; tauto|cbn; unfold two30; lia]|].
    split; [split; [right; right; split; [reflexivity|cbn; lia]|eexists; split; reflexivity]|].
    repeat split; vm_compute; reflexivity.
  Qed.

  (* a single '=' is harmless, also next to the separator: names may end in or consist of '=' *)
  Definition m5 : mpat := [ (tk "=", nd 3 [], []); (tk "a=", nd 19 [APay (PVsym (tk "="))], []) ].
  Example single_eq_fine : cleanb (tk "=") = true /\ cleanb (tk "a=") = true /\
    print_multipattern false sigLV st4 m5 = tk "?= == c, ?a= == =" /\
    parse_multipattern_text false true false sigLV st4 (print_multipattern false sigLV st4 m5) = POk (m5, st4).
  Proof. repeat split; vm_compute; reflexivity. Qed.
End MultiExamples.

Print Assumptions MultiExamples.m0_roundtrip.

(* ---- the `room` hypothesis of multi_total is needed in a debug build: with 2^30 registered names
   (a table size TInv still allows) the next new `$name` overflows `4 * len + 2` in Slot::named, and the
   parser passes that panic on.  Stated for EVERY such table, so nothing of size 2^30 is ever built
   except in the (unevaluated) existence witness. ---- *)
Lemma find_text_notin : forall l s i, ~ In s l -> find_text l s i = None.
Proof.
  induction l as [|x l IH]; intros s i H; [reflexivity|]. cbn [find_text].
  destruct (text_eqb x s) eqn:E; [apply text_eqb_eq in E; subst; exfalso; apply H; left; reflexivity|].
  apply IH. intro Hin. apply H. right. exact Hin.
Qed.

Lemma named_overflow : forall st, N.of_nat (List.length (named_vec st)) = two30 -> ~ In [120] (named_vec st) ->
  named false true st [120] = Err Overflow.
Proof.
  intros st Hl Hn. unfold named.
  change (parse_num false [120]) with (@None N). change (parse_fresh false [120]) with (@None N). cbv iota.
  rewrite (find_text_notin _ _ 0 Hn), Hl. reflexivity.
Qed.

Lemma tkz_slot_err : forall st nm rest e, name_okb nm = true -> delim rest -> named false true st nm = Err e ->
  tkz st (36 :: nm ++ rest) = PPanic e.
Proof.
  intros st nm rest e H Hd Hn. rewrite tkz_step, tokenize_eq. change (is_ws 36) with false.
  change (36 =? 40) with false. change (36 =? 41) with false. change (36 =? 91) with false. change (36 =? 93) with false.
  change (36 =? 58) with false. change (36 =? 63) with false. change (36 =? 36) with true. cbv iota. cbn [andb].
  destruct nm as [|c nm]; [discriminate|]. rewrite (crop_app (c :: nm) rest H Hd), Hn. reflexivity.
Qed.

Theorem multi_debug_overflow : forall st, N.of_nat (List.length (named_vec st)) = two30 -> ~ In [120] (named_vec st) ->
  parse_multipattern_text false true false sigLV st (text_of_string "?a == (var $x)") = PPanic Overflow.
Proof.
  intros st Hl Hn. unfold parse_multipattern_text.
  match goal with |- context [split_on [44] ?f ?s []] =>
    let r := eval vm_compute in (split_on [44] f s []) in change (split_on [44] f s []) with r end.
  rewrite parse_mp_parts_cons.
  match goal with |- context [trim ?s] => let r := eval vm_compute in (trim s) in change (trim s) with r end.
  match goal with |- context [split_on [61; 61] ?f ?s []] =>
    let r := eval vm_compute in (split_on [61; 61] f s []) in change (split_on [61; 61] f s []) with r end.
  cbv iota.
  change [63; 97; 32] with ((63 :: [97]) ++ [32]). rewrite (parse_lhs sigLV st [97] eq_refl). cbn [pbind].
  assert (E : parse_pattern_text false true false sigLV st [32; 40; 118; 97; 114; 32; 36; 120; 41] = PPanic Overflow).
  { unfold parse_pattern_text.
    change (tokenize false true (List.length [32; 40; 118; 97; 114; 32; 36; 120; 41] + 1) st [32; 40; 118; 97; 114; 32; 36; 120; 41])
      with (tkz st (32 :: 40 :: [118; 97; 114] ++ 32 :: 36 :: [120] ++ [41])).
    rewrite tkz_ws by reflexivity. rewrite tkz_lparen. rewrite tkz_ident by reflexivity. rewrite tkz_ws by reflexivity.
    rewrite (tkz_slot_err st [120] [41] Overflow eq_refl eq_refl (named_overflow st Hl Hn)). reflexivity. }
  rewrite E. reflexivity.
Qed.

Lemma full_table_exists : exists st, N.of_nat (List.length (named_vec st)) = two30 /\ ~ In [120] (named_vec st).
Proof.
  exists {| fresh_idx := 1; named_vec := repeat [] (N.to_nat two30) |}. cbn [named_vec]. split.
  - rewrite repeat_length. apply Nnat.N2Nat.id.
  - intro H. apply repeat_spec in H. discriminate H.
Qed.

(* ... while a release build wraps around and goes on (multi_total_release) *)
Print Assumptions multi_debug_overflow.
