(* Parse/ParseMachine.v — the C18 observation: parse a text as pattern / term / multi-pattern,
   print the result, parse the printed text again. *)
From SE Require Export Parse.Parser Lang.LangMachine.

Definition slot_sexp_st (st : table) (s : slot) : sexp :=
  let r := s mod 4 in
  if r =? 0 then Num (s / 4)
  else if r =? 1 then Lst [Sym "f"; Num (s / 4)]
  else match name_of st s with Ok t => Lst [Sym "s"; text_sexp t] | Err _ => Lst [Sym "bad"; Num s] end.

Fixpoint pattern_sexp (st : table) (p : pattern) : sexp :=
  match p with
  | PNode n ch => Lst (Sym "pn" :: node_sexp_with (slot_sexp_st st) n ::
                         (fix go (l : list pattern) := match l with [] => [] | c :: t => pattern_sexp st c :: go t end) ch)
  | PVarP v => Lst [Sym "pv"; text_sexp v]
  | PSubst b x t => Lst [Sym "sub"; pattern_sexp st b; pattern_sexp st x; pattern_sexp st t]
  end.

Definition pres_sexp {A} (f : A -> sexp) (r : pres A) : sexp :=
  match r with
  | POk a => f a
  | PFail _ => Sym "parse-error"
  | PPanic s => Lst [Sym "err"; site_sexp s]
  end.

Definition obs_pat (legacy debug strict : bool) (isre : bool) (s : text) : sexp :=
  let parse := if isre then parse_recexpr_text else parse_pattern_text in
  match parse legacy debug strict sigLV init_table s with
  | POk (p, st) =>
      let printed := print_pattern sigLV st p in
      Lst [Sym "ok"; pattern_sexp st p; text_sexp printed;
           (* parse the printed text again, in the same thread *)
           pres_sexp (fun '(p2, st2) => pattern_sexp st2 p2) (parse legacy debug strict sigLV st printed)]
  | PFail _ => Sym "parse-error"
  | PPanic e => Lst [Sym "err"; site_sexp e]
  end.

Definition obs_mp (legacy debug strict : bool) (s : text) : sexp :=
  match parse_multipattern_text legacy debug strict sigLV init_table s with
  | POk (m, st) =>
      let printed := print_multipattern legacy sigLV st m in
      Lst [Sym "ok"; text_sexp printed;
           pres_sexp (fun '(m2, st2) => text_sexp (print_multipattern legacy sigLV st2 m2))
                     (parse_multipattern_text legacy debug strict sigLV st printed)]
  | PFail _ => Sym "parse-error"
  | PPanic e => Lst [Sym "err"; site_sexp e]
  end.

(* case: (c18 <debug> <pat|re|mp> (t ...) [expected]) *)
Definition run_c18 (legacy strict : bool) (args : list sexp) : sexp :=
  match args with
  | Num d :: Sym kind :: t :: _ =>
      match dec_text_sexp t with
      | Some s =>
          let debug := negb (d =? 0) in
          if String.eqb kind "pat" then obs_pat legacy debug strict false s
          else if String.eqb kind "re" then obs_pat legacy debug strict true s
          else if String.eqb kind "mp" then obs_mp legacy debug strict s
          else Sym "bad-case"
      | None => Sym "bad-case"
      end
  | _ => Sym "bad-case"
  end.
